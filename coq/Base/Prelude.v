(* Shared modelling foundations: outcome classes, bytes, little-endian integers, list helpers.
   No axioms; stdlib only. *)
From Coq Require Export List ZArith Lia Bool.
Export ListNotations.
Open Scope Z_scope.

(* ------------------------------------------------------------------------------------------ *)
(* Outcome classes (DESIGN.md section 4).                                                      *)
(*   Ok v     : the Rust call returned Ok(v)                                                   *)
(*   Err c    : the Rust call returned Err(e) with u64::from(ProgramError::from(e)) = c        *)
(*   Panic    : an explicit panic / checked slice index / assert! fired                        *)
(*   Fault    : an UNCHECKED raw-pointer access left the allowed region (UB in Rust)           *)
Inductive out (A : Type) : Type :=
| Ok (a : A)
| Err (code : Z)
| Panic
| Fault.
Arguments Ok {A} a.
Arguments Err {A} code.
Arguments Panic {A}.
Arguments Fault {A}.

Definition obind {A B} (x : out A) (f : A -> out B) : out B :=
  match x with
  | Ok a => f a
  | Err c => Err c
  | Panic => Panic
  | Fault => Fault
  end.

Notation "'do' x <- e ; f" := (obind e (fun x => f))
  (at level 200, x name, e at level 100, f at level 200, right associativity).
Notation "'do' ' p <- e ; f" := (obind e (fun x => match x with p => f end))
  (at level 200, p pattern, e at level 100, f at level 200, right associativity).

Definition is_ok {A} (x : out A) : bool := match x with Ok _ => true | _ => false end.

(* observation encoding of an outcome tag: 0 ok / 1 err c / 2 panic / 3 fault *)
Definition out_tag {A} (x : out A) : list Z :=
  match x with
  | Ok _ => [0]
  | Err c => [1; c]
  | Panic => [2]
  | Fault => [3]
  end.

(* boolean comparisons in hypotheses -> propositions (then lia) *)
Ltac zb :=
  repeat match goal with
  | H : (_ <? _) = true |- _ => apply Z.ltb_lt in H
  | H : (_ <? _) = false |- _ => apply Z.ltb_ge in H
  | H : (_ <=? _) = true |- _ => apply Z.leb_le in H
  | H : (_ <=? _) = false |- _ => apply Z.leb_gt in H
  | H : (_ >? _) = true |- _ => rewrite Z.gtb_ltb in H; apply Z.ltb_lt in H
  | H : (_ >? _) = false |- _ => rewrite Z.gtb_ltb in H; apply Z.ltb_ge in H
  | H : (_ >=? _) = true |- _ => rewrite Z.geb_leb in H; apply Z.leb_le in H
  | H : (_ >=? _) = false |- _ => rewrite Z.geb_leb in H; apply Z.leb_gt in H
  | H : (_ =? _) = true |- _ => apply Z.eqb_eq in H
  | H : (_ =? _) = false |- _ => apply Z.eqb_neq in H
  | H : negb _ = true |- _ => apply negb_true_iff in H
  | H : negb _ = false |- _ => apply negb_false_iff in H
  | H : (_ && _) = true |- _ => apply andb_true_iff in H; destruct H
  | H : (_ || _) = false |- _ => apply orb_false_iff in H; destruct H
  end.

(* ------------------------------------------------------------------------------------------ *)
(* list helpers                                                                                *)
Definition zlen {A} (l : list A) : Z := Z.of_nat (length l).

Lemma zlen_nonneg {A} (l : list A) : 0 <= zlen l.
Proof. unfold zlen; lia. Qed.

Lemma zlen_app {A} (a b : list A) : zlen (a ++ b) = zlen a + zlen b.
Proof. unfold zlen; rewrite app_length; lia. Qed.

Lemma zlen_nil {A} : zlen (@nil A) = 0.
Proof. reflexivity. Qed.

Lemma zlen_cons {A} (x : A) l : zlen (x :: l) = 1 + zlen l.
Proof. unfold zlen; cbn [length]; lia. Qed.

Definition ztake {A} (n : Z) (l : list A) : list A := firstn (Z.to_nat n) l.
Definition zdrop {A} (n : Z) (l : list A) : list A := skipn (Z.to_nat n) l.

Lemma zlen_ztake {A} n (l : list A) : 0 <= n <= zlen l -> zlen (ztake n l) = n.
Proof. unfold zlen, ztake; intros; rewrite firstn_length; lia. Qed.

Lemma zlen_zdrop {A} n (l : list A) : 0 <= n <= zlen l -> zlen (zdrop n l) = zlen l - n.
Proof. unfold zlen, zdrop; intros; rewrite skipn_length; lia. Qed.

Lemma ztake_zdrop {A} n (l : list A) : ztake n l ++ zdrop n l = l.
Proof. apply firstn_skipn. Qed.

Lemma zlen_repeat {A} (x : A) n : zlen (repeat x n) = Z.of_nat n.
Proof. unfold zlen; now rewrite repeat_length. Qed.

Definition zrepeat {A} (x : A) (n : Z) : list A := repeat x (Z.to_nat n).

Lemma zlen_zrepeat {A} (x : A) n : 0 <= n -> zlen (zrepeat x n) = n.
Proof. unfold zrepeat; intros; rewrite zlen_repeat; lia. Qed.

Fixpoint zsum (l : list Z) : Z := match l with [] => 0 | x :: r => x + zsum r end.

Lemma zsum_app a b : zsum (a ++ b) = zsum a + zsum b.
Proof. induction a as [|x a IH]; cbn [zsum app]; lia. Qed.

(* replace the n-th element *)
Fixpoint set_nth {A} (n : nat) (x : A) (l : list A) : list A :=
  match l, n with
  | [], _ => []
  | _ :: r, O => x :: r
  | y :: r, S k => y :: set_nth k x r
  end.

Lemma set_nth_length {A} n (x : A) l : length (set_nth n x l) = length l.
Proof. revert n; induction l as [|y l IH]; intros [|n]; cbn [set_nth length]; auto. Qed.

(* ------------------------------------------------------------------------------------------ *)
(* bytes and little-endian integers                                                            *)
Definition is_byte (b : Z) : bool := (0 <=? b) && (b <? 256).
Definition bytes_ok (l : list Z) : bool := forallb is_byte l.

Fixpoint le_bytes (w : nat) (n : Z) : list Z :=
  match w with
  | O => []
  | S k => (n mod 256) :: le_bytes k (n / 256)
  end.

Fixpoint le_decode (bs : list Z) : Z :=
  match bs with
  | [] => 0
  | b :: r => b + 256 * le_decode r
  end.

Lemma le_bytes_length w n : length (le_bytes w n) = w.
Proof. revert n; induction w as [|w IH]; intros n; cbn [le_bytes length]; auto. Qed.

Lemma zlen_le_bytes w n : zlen (le_bytes w n) = Z.of_nat w.
Proof. unfold zlen; now rewrite le_bytes_length. Qed.

Lemma le_decode_le_bytes w n : 0 <= n < 256 ^ Z.of_nat w -> le_decode (le_bytes w n) = n.
Proof.
  revert n; induction w as [|w IH]; intros n Hn.
  - cbn in *. lia.
  - cbn [le_bytes le_decode].
    rewrite IH.
    + pose proof (Z.div_mod n 256 ltac:(lia)). lia.
    + rewrite Nat2Z.inj_succ, Z.pow_succ_r in Hn by lia.
      split.
      * apply Z.div_pos; lia.
      * apply Z.div_lt_upper_bound; lia.
Qed.

Lemma le_bytes_ok w n : bytes_ok (le_bytes w n) = true.
Proof.
  revert n; induction w as [|w IH]; intros n; cbn [le_bytes bytes_ok forallb]; auto.
  apply andb_true_iff; split; [|apply IH].
  unfold is_byte. pose proof (Z.mod_pos_bound n 256 ltac:(lia)).
  apply andb_true_iff; split; [apply Z.leb_le|apply Z.ltb_lt]; lia.
Qed.

Lemma le_decode_bound bs : bytes_ok bs = true -> 0 <= le_decode bs < 256 ^ zlen bs.
Proof.
  induction bs as [|b r IH]; intros H.
  - cbn. lia.
  - cbn [bytes_ok forallb] in H. apply andb_true_iff in H as [Hb Hr].
    unfold is_byte in Hb. apply andb_true_iff in Hb as [H0 H1].
    apply Z.leb_le in H0. apply Z.ltb_lt in H1.
    specialize (IH Hr). cbn [le_decode]. rewrite zlen_cons.
    rewrite Z.pow_add_r by (pose proof (zlen_nonneg r); lia). lia.
Qed.

Lemma le_bytes_le_decode bs : bytes_ok bs = true -> le_bytes (length bs) (le_decode bs) = bs.
Proof.
  induction bs as [|b r IH]; intros H; [reflexivity|].
  cbn [bytes_ok forallb] in H. apply andb_true_iff in H as [Hb Hr].
  unfold is_byte in Hb. apply andb_true_iff in Hb as [H0 H1].
  apply Z.leb_le in H0. apply Z.ltb_lt in H1.
  cbn [length le_bytes le_decode].
  replace ((b + 256 * le_decode r) mod 256) with b.
  2:{ rewrite (Z.mul_comm 256), Z.mod_add by lia. now rewrite Z.mod_small by lia. }
  replace ((b + 256 * le_decode r) / 256) with (le_decode r).
  2:{ rewrite (Z.mul_comm 256), Z.div_add by lia. rewrite (Z.div_small b) by lia. lia. }
  now rewrite IH.
Qed.

(* injectivity of little-endian decoding on equal-width byte strings: the fact behind every
   "compare as an integer" fast path (C08, C09) *)
Lemma le_decode_inj a b :
  bytes_ok a = true -> bytes_ok b = true -> length a = length b ->
  le_decode a = le_decode b -> a = b.
Proof.
  intros Ha Hb Hl He.
  rewrite <- (le_bytes_le_decode a Ha), <- (le_bytes_le_decode b Hb), Hl, He. reflexivity.
Qed.
