(* C16 - runner entry points of the extracted model (group `wire`).  A case is the integer list the
   Rust harness harness_c16/src/bin/vh_c16.rs reads; run_c16sf answers with the framework-side model's
   observation (compared with the harness's `s` line), run_c16ref with the reference-side model's
   (compared with the `r` line).

   The PDA oracle is instantiated by an injective SYMBOLIC term encoding (pda_sym): the check driver
   resolves the terms with the real `Pubkey::find_program_address` (harness kind 9) before comparing.  *)
From SF Require Import Base.Prelude Gen.Gen_c16 Wire.Borsh Wire.Desc Wire.SystemWire Wire.TokenWire Wire.AtaWire Wire.TokenState.
From Coq Require Import String.
Open Scope string_scope.
Open Scope list_scope.
Open Scope Z_scope.

(* -1 (-3 seed)* -4 pid -2 ; a seed / the pid may itself be such a term (bytes are >= 0) *)
Definition pda_sym (seeds : list (list Z)) (pid : key) : key :=
  [-1] ++ List.concat (map (fun s => -3 :: s) seeds) ++ [-4] ++ pid ++ [-2].

Fixpoint take_keys (n : nat) (l : list Z) : list key :=
  match n with
  | O => []
  | S k => firstn 32 l :: take_keys k (skipn 32 l)
  end.

Definition knth (ks : list key) (i : nat) : key := nth i ks [].

(* o in {0 None, 1 Some default, 2 Some arbitrary} *)
Definition client_opt (o : Z) (default arbitrary : key) : option key :=
  if o =? 0 then None else if o =? 1 then Some default else Some arbitrary.

Definition authority_of (n : Z) : authority_type :=
  if n =? 0 then MintTokens else if n =? 1 then FreezeAccount else if n =? 2 then AccountOwner else CloseAccount.

Record ixargs := mkArgs {
  a_n1 : Z; a_n2 : Z; a_n3 : Z; a_opt : bool; a_o1 : Z; a_o2 : Z; a_k : list key; a_sig : list key }.

Definition parse_ix (c : list Z) : ixargs :=
  let n1 := nth 3 c 0 in
  let n2 := nth 4 c 0 in
  let n3 := nth 5 c 0 in
  let opt := nth 6 c 0 =? 1 in
  let o1 := nth 7 c 0 in
  let o2 := nth 8 c 0 in
  let rest := skipn 9 c in
  let ks := take_keys 8 rest in
  let rest2 := skipn 256 rest in
  let nsig := Z.to_nat (nth 0 rest2 0) in
  mkArgs n1 n2 n3 opt o1 o2 ks (take_keys nsig (skipn 1 rest2)).

Definition optk (a : ixargs) : option key := if a_opt a then Some (knth (a_k a) 2) else None.

(* ---------------- framework side ---------------- *)
Definition sf_run_system (ix : Z) (a : ixargs) : option instruction :=
  let k := knth (a_k a) in
  let rb := SF_RECENT_BLOCKHASHES_ID in
  let rent := client_opt (a_o1 a) SF_RENT_ID (k 6%nat) in
  if ix =? 0 then sf_sys_create_account (k 0%nat) (k 1%nat) (a_n1 a) (a_n2 a) (k 2%nat)
  else if ix =? 1 then sf_sys_assign (k 0%nat) (k 1%nat)
  else if ix =? 2 then sf_sys_transfer (k 0%nat) (k 1%nat) (a_n1 a)
  else if ix =? 3 then sf_sys_advance_nonce (k 0%nat) rb (k 1%nat)
  else if ix =? 4 then sf_sys_withdraw_nonce (k 0%nat) (k 2%nat) rb rent (k 1%nat) (a_n1 a)
  else if ix =? 5 then sf_sys_initialize_nonce (k 0%nat) rb rent (k 1%nat)
  else if ix =? 6 then sf_sys_authorize_nonce (k 0%nat) (k 1%nat) (k 2%nat)
  else if ix =? 7 then sf_sys_allocate (k 0%nat) (a_n1 a)
  else if ix =? 8 then sf_sys_upgrade_nonce (k 0%nat)
  else None.

Definition sf_run_token (ix : Z) (a : ixargs) : option instruction :=
  let k := knth (a_k a) in
  let rent := client_opt (a_o1 a) SF_RENT_ID (k 6%nat) in
  let n1 := a_n1 a in
  let n3 := a_n3 a in
  if ix =? 0 then sf_tok_initialize_mint (k 0%nat) rent n3 (k 1%nat) (optk a)
  else if ix =? 1 then sf_tok_initialize_account (k 0%nat) (k 1%nat) (k 2%nat) rent
  else if ix =? 2 then sf_tok_initialize_multisig (k 0%nat) rent (a_sig a) n3
  else if ix =? 3 then sf_tok_transfer (k 0%nat) (k 1%nat) (k 2%nat) n1
  else if ix =? 4 then sf_tok_approve (k 0%nat) (k 1%nat) (k 2%nat) n1
  else if ix =? 5 then sf_tok_revoke (k 0%nat) (k 1%nat)
  else if ix =? 6 then sf_tok_set_authority (k 0%nat) (k 1%nat) (authority_of n3) (optk a)
  else if ix =? 7 then sf_tok_mint_to (k 0%nat) (k 1%nat) (k 2%nat) n1
  else if ix =? 8 then sf_tok_burn (k 0%nat) (k 1%nat) (k 2%nat) n1
  else if ix =? 9 then sf_tok_close_account (k 0%nat) (k 1%nat) (k 2%nat)
  else if ix =? 10 then sf_tok_freeze_account (k 0%nat) (k 1%nat) (k 2%nat)
  else if ix =? 11 then sf_tok_thaw_account (k 0%nat) (k 1%nat) (k 2%nat)
  else if ix =? 12 then sf_tok_transfer_checked (k 0%nat) (k 1%nat) (k 2%nat) (k 3%nat) n1 n3
  else if ix =? 13 then sf_tok_approve_checked (k 0%nat) (k 1%nat) (k 2%nat) (k 3%nat) n1 n3
  else if ix =? 14 then sf_tok_mint_to_checked (k 0%nat) (k 1%nat) (k 2%nat) n1 n3
  else if ix =? 15 then sf_tok_burn_checked (k 0%nat) (k 1%nat) (k 2%nat) n1 n3
  else if ix =? 16 then sf_tok_initialize_account2 (k 0%nat) (k 1%nat) rent (k 2%nat)
  else if ix =? 17 then sf_tok_sync_native (k 0%nat)
  else if ix =? 18 then sf_tok_initialize_account3 (k 0%nat) (k 1%nat) (k 2%nat)
  else if ix =? 19 then sf_tok_initialize_multisig2 (k 0%nat) (a_sig a) n3
  else if ix =? 20 then sf_tok_initialize_mint2 (k 0%nat) n3 (k 1%nat) (optk a)
  else if ix =? 21 then sf_tok_get_account_data_size (k 0%nat)
  else if ix =? 22 then sf_tok_initialize_immutable_owner (k 0%nat)
  else if ix =? 23 then sf_tok_amount_to_ui_amount (k 0%nat) n1
  else None.

(* the harness hands the framework the token_account / ATA keys the reference derivation yields
   for the token program the client passes (None = the binding's default) *)
Definition sf_run_ata (ix : Z) (a : ixargs) : option instruction :=
  let k := knth (a_k a) in
  if (ix =? 0) || (ix =? 1) then
    let sp := client_opt (a_o1 a) SF_SYSTEM_ID (k 6%nat) in
    let tp := client_opt (a_o2 a) SF_TOKEN_ID (k 7%nat) in
    let tpk := unwrap_or tp SF_TOKEN_ID in
    let token_account := ref_ata_address_with_program_id pda_sym (k 1%nat) (k 2%nat) tpk in
    if ix =? 0 then sf_ata_create (k 0%nat) token_account (k 1%nat) (k 2%nat) sp tp
    else sf_ata_create_idempotent (k 0%nat) token_account (k 1%nat) (k 2%nat) sp tp
  else if ix =? 2 then
    let tp := client_opt (a_o1 a) SF_TOKEN_ID (k 6%nat) in
    let tpk := unwrap_or tp SF_TOKEN_ID in
    let owner_ata := ref_ata_address_with_program_id pda_sym (k 0%nat) (k 1%nat) tpk in
    let destination_ata := ref_ata_address_with_program_id pda_sym (k 0%nat) (k 2%nat) tpk in
    let nested_ata := ref_ata_address_with_program_id pda_sym owner_ata (k 2%nat) tpk in
    sf_ata_recover_nested nested_ata (k 2%nat) destination_ata owner_ata (k 1%nat) (k 0%nat) tp
  else None.

(* ---------------- reference side ---------------- *)
Definition ref_run_system (ix : Z) (a : ixargs) : option instruction :=
  let k := knth (a_k a) in
  if ix =? 0 then Some (ref_sys_create_account (k 0%nat) (k 1%nat) (a_n1 a) (a_n2 a) (k 2%nat))
  else if ix =? 1 then Some (ref_sys_assign (k 0%nat) (k 1%nat))
  else if ix =? 2 then Some (ref_sys_transfer (k 0%nat) (k 1%nat) (a_n1 a))
  else if ix =? 3 then Some (ref_sys_advance_nonce (k 0%nat) (k 1%nat))
  else if ix =? 4 then Some (ref_sys_withdraw_nonce (k 0%nat) (k 1%nat) (k 2%nat) (a_n1 a))
  else if ix =? 5 then Some (ref_sys_initialize_nonce (k 0%nat) (k 1%nat))
  else if ix =? 6 then Some (ref_sys_authorize_nonce (k 0%nat) (k 1%nat) (k 2%nat))
  else if ix =? 7 then Some (ref_sys_allocate (k 0%nat) (a_n1 a))
  else if ix =? 8 then Some (ref_sys_upgrade_nonce (k 0%nat))
  else None.

Definition ref_run_token (ix : Z) (a : ixargs) : option instruction :=
  let k := knth (a_k a) in
  let n1 := a_n1 a in
  let n3 := a_n3 a in
  let sg := a_sig a in
  if ix =? 0 then Some (ref_tok_initialize_mint (k 0%nat) (k 1%nat) (optk a) n3)
  else if ix =? 1 then Some (ref_tok_initialize_account (k 0%nat) (k 1%nat) (k 2%nat))
  else if ix =? 2 then ref_tok_initialize_multisig (k 0%nat) sg n3
  else if ix =? 3 then Some (ref_tok_transfer (k 0%nat) (k 1%nat) (k 2%nat) sg n1)
  else if ix =? 4 then Some (ref_tok_approve (k 0%nat) (k 1%nat) (k 2%nat) sg n1)
  else if ix =? 5 then Some (ref_tok_revoke (k 0%nat) (k 1%nat) sg)
  else if ix =? 6 then Some (ref_tok_set_authority (k 0%nat) (optk a) (authority_of n3) (k 1%nat) sg)
  else if ix =? 7 then Some (ref_tok_mint_to (k 0%nat) (k 1%nat) (k 2%nat) sg n1)
  else if ix =? 8 then Some (ref_tok_burn (k 0%nat) (k 1%nat) (k 2%nat) sg n1)
  else if ix =? 9 then Some (ref_tok_close_account (k 0%nat) (k 1%nat) (k 2%nat) sg)
  else if ix =? 10 then Some (ref_tok_freeze_account (k 0%nat) (k 1%nat) (k 2%nat) sg)
  else if ix =? 11 then Some (ref_tok_thaw_account (k 0%nat) (k 1%nat) (k 2%nat) sg)
  else if ix =? 12 then Some (ref_tok_transfer_checked (k 0%nat) (k 1%nat) (k 2%nat) (k 3%nat) sg n1 n3)
  else if ix =? 13 then Some (ref_tok_approve_checked (k 0%nat) (k 1%nat) (k 2%nat) (k 3%nat) sg n1 n3)
  else if ix =? 14 then Some (ref_tok_mint_to_checked (k 0%nat) (k 1%nat) (k 2%nat) sg n1 n3)
  else if ix =? 15 then Some (ref_tok_burn_checked (k 0%nat) (k 1%nat) (k 2%nat) sg n1 n3)
  else if ix =? 16 then Some (ref_tok_initialize_account2 (k 0%nat) (k 1%nat) (k 2%nat))
  else if ix =? 17 then Some (ref_tok_sync_native (k 0%nat))
  else if ix =? 18 then Some (ref_tok_initialize_account3 (k 0%nat) (k 1%nat) (k 2%nat))
  else if ix =? 19 then ref_tok_initialize_multisig2 (k 0%nat) sg n3
  else if ix =? 20 then Some (ref_tok_initialize_mint2 (k 0%nat) (k 1%nat) (optk a) n3)
  else if ix =? 21 then Some (ref_tok_get_account_data_size (k 0%nat))
  else if ix =? 22 then Some (ref_tok_initialize_immutable_owner (k 0%nat))
  else if ix =? 23 then Some (ref_tok_amount_to_ui_amount (k 0%nat) n1)
  else None.

Definition ref_run_ata (ix : Z) (a : ixargs) : option instruction :=
  let k := knth (a_k a) in
  if (ix =? 0) || (ix =? 1) then
    let tpk := unwrap_or (client_opt (a_o2 a) REF_TOKEN_ID (k 7%nat)) REF_TOKEN_ID in
    if ix =? 0 then Some (ref_ata_create pda_sym (k 0%nat) (k 1%nat) (k 2%nat) tpk)
    else Some (ref_ata_create_idempotent pda_sym (k 0%nat) (k 1%nat) (k 2%nat) tpk)
  else if ix =? 2 then
    let tpk := unwrap_or (client_opt (a_o1 a) REF_TOKEN_ID (k 6%nat)) REF_TOKEN_ID in
    Some (ref_ata_recover_nested pda_sym (k 0%nat) (k 1%nat) (k 2%nat) tpk)
  else None.

(* ---------------- images ---------------- *)
Definition OTHER_OWNER : key := repeat 7 32.
Definition image_owner (c : list Z) : key := if nth 1 c 0 =? 0 then OTHER_OWNER else SF_TOKEN_ID.
Definition image_writable (c : list Z) : bool := negb (nth 2 c 0 =? 0).
Definition image_bytes (c : list Z) : list Z := skipn 4 c.

(* ---------------- entry points ---------------- *)
Definition run_c16sf (c : list Z) : list Z :=
  let kind := nth 0 c (-1) in
  if kind =? 0 then
    let prog := nth 1 c 0 in
    let ix := nth 2 c 0 in
    let a := parse_ix c in
    obs_ix (if prog =? 0 then sf_run_system ix a else if prog =? 1 then sf_run_token ix a else sf_run_ata ix a)
  else if kind =? 1 then obs_sf_mint (image_owner c) (image_writable c) (image_bytes c)
  else if kind =? 2 then obs_sf_token (image_owner c) (image_writable c) (image_bytes c)
  else if kind =? 3 then
    match sf_ata_find_address pda_sym (firstn 32 (skipn 1 c)) (firstn 32 (skipn 33 c)) with
    | Some k => k
    | None => [-3]
    end
  else [-9].

Definition run_c16ref (c : list Z) : list Z :=
  let kind := nth 0 c (-1) in
  if kind =? 0 then
    let prog := nth 1 c 0 in
    let ix := nth 2 c 0 in
    let a := parse_ix c in
    obs_ix (if prog =? 0 then ref_run_system ix a else if prog =? 1 then ref_run_token ix a else ref_run_ata ix a)
  else if kind =? 1 then obs_ref_mint_image (image_bytes c)
  else if kind =? 2 then obs_ref_account_image (image_bytes c)
  else if kind =? 3 then ref_ata_address pda_sym (firstn 32 (skipn 1 c)) (firstn 32 (skipn 33 c))
  else [-9].
