(* C16 - proofs about the account-state models: every image the reference unpacker accepts is
   accepted by the framework's zero-copy view (validate, data_unchecked, data) with the same field
   values; the converse does not hold (the view accepts more bit patterns), which is shown too.     *)
From SF Require Import Base.Prelude Gen.Generated Gen.Gen_c16 Wire.Borsh Wire.TokenState.
From Coq Require Import String.
Open Scope string_scope.
Open Scope list_scope.
Open Scope Z_scope.

Lemma skipn_skipn' {A} a o (l : list A) : skipn a (skipn o l) = skipn (o + a) l.
Proof.
  revert l; induction o as [|o IH]; intros l; [reflexivity|].
  destruct l as [|x l]; cbn [skipn Nat.add]; [now destruct a|apply IH].
Qed.

Lemma slice_slice a b o n l : (a + b <= n)%nat -> slice a b (slice o n l) = slice (o + a) b l.
Proof.
  intros H. unfold slice.
  rewrite skipn_firstn_comm, firstn_firstn, skipn_skipn'.
  now replace (Nat.min b (n - a)) with b by lia.
Qed.

Lemma slice_length o n l : (o + n <= List.length l)%nat -> List.length (slice o n l) = n.
Proof. intros H. unfold slice. rewrite firstn_length, skipn_length. lia. Qed.

Lemma slice1 o l : (o + 1 <= List.length l)%nat -> exists b, slice o 1 l = [b].
Proof.
  intros H. pose proof (slice_length o 1 l H) as Hl.
  destruct (slice o 1 l) as [|b [|c r]]; cbn [List.length] in Hl; try lia. now exists b.
Qed.

Lemma bytes_eqb_eq a b : bytes_eqb a b = true -> a = b.
Proof.
  revert b; induction a as [|x a IH]; intros [|y b] H; cbn [bytes_eqb] in H; try discriminate; auto.
  apply andb_true_iff in H as [H1 H2]. apply Z.eqb_eq in H1. subst. f_equal. now apply IH.
Qed.

Lemma zlen_length {A} (l : list A) n : zlen l = Z.of_nat n -> List.length l = n.
Proof. unfold zlen. lia. Qed.

(* the two declared sizes agree with the reference's Pack::LEN and with size_of of the packed struct *)
Lemma mint_layout_size :
  option_map total_size (sizes_of fty_size SF_MINT_LAYOUT) = Some 82%nat /\ SF_MINT_LEN = 82.
Proof. split; reflexivity. Qed.
Lemma token_layout_size :
  option_map total_size (sizes_of fty_size SF_TOKENACC_LAYOUT) = Some 165%nat /\ SF_TOKENACC_LEN = 165.
Proof. split; reflexivity. Qed.

(* case split on a COption / bool tag test of the reference side *)
Ltac tag_case H :=
  match type of H with
  | context [bytes_eqb ?t ?c] =>
      let E := fresh "E" in
      destruct (bytes_eqb t c) eqn:E;
      [apply bytes_eqb_eq in E; rewrite ?E in * |]; cbn [obind] in H
  end.

Ltac eval_view layout img Hlen Hv :=
  unfold sf_view in Hv;
  (let x := eval vm_compute in (sizes_of fty_size layout) in change (sizes_of fty_size layout) with x in Hv);
  cbn [total_size Nat.add] in Hv; rewrite Hlen in Hv; cbn [Nat.eqb] in Hv;
  cbv - [slice nth le_decode Z.eqb Z.ltb] in Hv;
  rewrite !slice_slice in Hv by lia; cbn [Nat.add] in Hv.

Theorem mint_view_agrees img m :
  ref_mint_unpack img = Ok m ->
  exists v, sf_mint_data_unchecked img = Ok v /\
            sf_mint_validate SF_TOKEN_ID img = Ok tt /\
            (forall writable, sf_mint_data SF_TOKEN_ID writable img = Ok v) /\
            sf_mint_fields v = Some m.
Proof.
  intros Href.
  unfold ref_mint_unpack, ref_mint_unpack_unchecked in Href.
  destruct (zlen img =? 82) eqn:Hl; cbn [negb] in Href; [|discriminate].
  apply Z.eqb_eq in Hl. pose proof (zlen_length img 82 Hl) as Hlen.
  unfold sf_mint_data, sf_mint_validate.
  replace (zlen img =? SF_MINT_LEN) with true by (rewrite Hl; reflexivity).
  replace (bytes_eqb SF_TOKEN_ID SF_TOKEN_ID) with true by reflexivity.
  cbn [negb].
  unfold sf_mint_data_unchecked.
  remember (sf_view SF_MINT_LAYOUT img) as r eqn:Hv.
  eval_view SF_MINT_LAYOUT img Hlen Hv.
  unfold ref_mint_unpack_from_slice, ref_unpack_coption_key, ref_unpack_bool in Href.
  rewrite !slice_slice in Href by lia; cbn [Nat.add] in Href.
  destruct (slice1 45 img ltac:(lia)) as [bi Hbi]. rewrite Hbi in *. cbn [nth bytes_eqb] in *.
  destruct (slice1 44 img ltac:(lia)) as [bd Hbd]. rewrite Hbd in *. cbn [nth] in *.
  rewrite !andb_true_r in Href.
  tag_case Href; [|tag_case Href; [|discriminate]];
    (destruct (bi =? 0) eqn:B0; cbn [obind] in Href;
     [|destruct (bi =? 1) eqn:B1; cbn [obind] in Href; [|discriminate]]);
    (tag_case Href; [|tag_case Href; [|discriminate]]);
    cbn [rm_is_initialized] in Href; try discriminate;
    injection Href as <-; subst r;
    (eexists; split; [reflexivity|]; split; [reflexivity|]; split; [intros [|]; reflexivity|]; reflexivity).
Qed.

Theorem token_view_agrees img a :
  ref_account_unpack img = Ok a ->
  exists v, sf_token_data_unchecked img = Ok v /\
            sf_token_validate SF_TOKEN_ID img = Ok tt /\
            (forall writable, sf_token_data SF_TOKEN_ID writable img = Ok v) /\
            sf_token_fields v = Some a.
Proof.
  intros Href.
  unfold ref_account_unpack, ref_account_unpack_unchecked in Href.
  destruct (zlen img =? 165) eqn:Hl; cbn [negb] in Href; [|discriminate].
  apply Z.eqb_eq in Hl. pose proof (zlen_length img 165 Hl) as Hlen.
  unfold sf_token_data, sf_token_validate.
  replace (zlen img =? SF_TOKENACC_LEN) with true by (rewrite Hl; reflexivity).
  replace (bytes_eqb SF_TOKEN_ID SF_TOKEN_ID) with true by reflexivity.
  cbn [negb].
  unfold sf_token_data_unchecked.
  remember (sf_view SF_TOKENACC_LAYOUT img) as r eqn:Hv.
  eval_view SF_TOKENACC_LAYOUT img Hlen Hv.
  unfold ref_account_unpack_from_slice, ref_unpack_coption_key, ref_unpack_coption_u64, ref_state_try_from in Href.
  rewrite !slice_slice in Href by lia; cbn [Nat.add] in Href.
  destruct (slice1 108 img ltac:(lia)) as [bs Hbs]. rewrite Hbs in *. cbn [nth] in *.
  tag_case Href; [|tag_case Href; [|discriminate]];
    (destruct (bs =? 0) eqn:B0; cbn [obind] in Href;
     [|destruct (bs =? 1) eqn:B1; cbn [obind] in Href;
       [|destruct (bs =? 2) eqn:B2; cbn [obind] in Href; [|discriminate]]]);
    (tag_case Href; [|tag_case Href; [|discriminate]]);
    (tag_case Href; [|tag_case Href; [|discriminate]]);
    unfold ref_account_is_initialized in Href; cbn [ra_state] in Href; try discriminate;
    injection Href as <-; zb; subst bs; subst r;
    (eexists; split; [reflexivity|]; split; [reflexivity|]; split; [intros [|]; reflexivity|]; reflexivity).
Qed.

(* the same for `unpack_unchecked` (no is_initialized requirement): the raw view still agrees *)
Theorem mint_view_unchecked_agrees img m :
  ref_mint_unpack_unchecked img = Ok m ->
  exists v, sf_mint_data_unchecked img = Ok v /\ sf_mint_fields v = Some m.
Proof.
  intros Href.
  unfold ref_mint_unpack_unchecked in Href.
  destruct (zlen img =? 82) eqn:Hl; cbn [negb] in Href; [|discriminate].
  apply Z.eqb_eq in Hl. pose proof (zlen_length img 82 Hl) as Hlen.
  unfold sf_mint_data_unchecked.
  remember (sf_view SF_MINT_LAYOUT img) as r eqn:Hv.
  eval_view SF_MINT_LAYOUT img Hlen Hv.
  unfold ref_mint_unpack_from_slice, ref_unpack_coption_key, ref_unpack_bool in Href.
  rewrite !slice_slice in Href by lia; cbn [Nat.add] in Href.
  destruct (slice1 45 img ltac:(lia)) as [bi Hbi]. rewrite Hbi in *. cbn [nth bytes_eqb] in *.
  destruct (slice1 44 img ltac:(lia)) as [bd Hbd]. rewrite Hbd in *. cbn [nth] in *.
  rewrite !andb_true_r in Href.
  tag_case Href; [|tag_case Href; [|discriminate]];
    (destruct (bi =? 0) eqn:B0; cbn [obind] in Href;
     [|destruct (bi =? 1) eqn:B1; cbn [obind] in Href; [|discriminate]]);
    (tag_case Href; [|tag_case Href; [|discriminate]]);
    injection Href as <-; subst r;
    (eexists; split; reflexivity).
Qed.

Theorem token_view_unchecked_agrees img a :
  ref_account_unpack_unchecked img = Ok a ->
  exists v, sf_token_data_unchecked img = Ok v /\ sf_token_fields v = Some a.
Proof.
  intros Href.
  unfold ref_account_unpack_unchecked in Href.
  destruct (zlen img =? 165) eqn:Hl; cbn [negb] in Href; [|discriminate].
  apply Z.eqb_eq in Hl. pose proof (zlen_length img 165 Hl) as Hlen.
  unfold sf_token_data_unchecked.
  remember (sf_view SF_TOKENACC_LAYOUT img) as r eqn:Hv.
  eval_view SF_TOKENACC_LAYOUT img Hlen Hv.
  unfold ref_account_unpack_from_slice, ref_unpack_coption_key, ref_unpack_coption_u64, ref_state_try_from in Href.
  rewrite !slice_slice in Href by lia; cbn [Nat.add] in Href.
  destruct (slice1 108 img ltac:(lia)) as [bs Hbs]. rewrite Hbs in *. cbn [nth] in *.
  tag_case Href; [|tag_case Href; [|discriminate]];
    (destruct (bs =? 0) eqn:B0; cbn [obind] in Href;
     [|destruct (bs =? 1) eqn:B1; cbn [obind] in Href;
       [|destruct (bs =? 2) eqn:B2; cbn [obind] in Href; [|discriminate]]]);
    (tag_case Href; [|tag_case Href; [|discriminate]]);
    (tag_case Href; [|tag_case Href; [|discriminate]]);
    injection Href as <-; zb; subst bs; subst r;
    (eexists; split; reflexivity).
Qed.

(* The converse fails: the view is a Pod cast, so COption tags other than 0 / 1 are accepted (and
   read as None by `into_option`, as neither-some-nor-none by is_some / is_none) where the reference
   unpacker rejects the image. *)
Definition mint_tag2_image : list Z :=
  [2; 0; 0; 0] ++ repeat 5 32 ++ [9; 0; 0; 0; 0; 0; 0; 0] ++ [6; 1] ++ [0; 0; 0; 0] ++ repeat 0 32.

Lemma mint_view_accepts_more :
  ref_mint_unpack mint_tag2_image = Err REF_INVALID_ACCOUNT_DATA /\
  sf_mint_validate SF_TOKEN_ID mint_tag2_image = Ok tt /\
  exists v, sf_mint_data_unchecked mint_tag2_image = Ok v /\
            view_optkey v "mint_authority" = Some None /\
            lookupf "mint_authority" v = Some (FPodKey [2; 0; 0; 0] (repeat 5 32)) /\
            pod_is_some [2; 0; 0; 0] = false /\ pod_is_none [2; 0; 0; 0] = false.
Proof.
  split; [vm_compute; reflexivity|]. split; [vm_compute; reflexivity|].
  eexists. split; [vm_compute; reflexivity|]. repeat split; vm_compute; reflexivity.
Qed.
