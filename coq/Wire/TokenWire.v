(* C16 - SPL Token program.  sf_tok_* = what star_frame_spl/src/token/instructions.rs declares;
   ref_tok_* = spl-token-interface 2.0.0 src/instruction.rs: `TokenInstruction::pack` (582-689) and
   the instruction builders (775-1440).  Definitions only.                                          *)
From SF Require Import Base.Prelude Gen.Gen_c16 Wire.Borsh Wire.Desc Wire.SystemWire.
From Coq Require Import String.
Open Scope string_scope.
Open Scope list_scope.
Open Scope Z_scope.

(* "TokenkegQfeZyiNwAJbNbGKPFXCWuBvf9Ss623VQ5DA" (spl-token-interface lib.rs 17) *)
Definition REF_TOKEN_ID : key := [6; 221; 246; 225; 215; 101; 161; 147; 217; 203; 225; 70; 206; 235; 121; 172; 28; 180; 133; 237; 95; 91; 55; 145; 58; 140; 245; 133; 126; 255; 0; 169].

Inductive authority_type := MintTokens | FreezeAccount | AccountOwner | CloseAccount.
(* the star_frame_spl variant of the same NAME (the binding copies the enum) *)
Definition authority_name (a : authority_type) : string :=
  match a with
  | MintTokens => "MintTokens"
  | FreezeAccount => "FreezeAccount"
  | AccountOwner => "AccountOwner"
  | CloseAccount => "CloseAccount"
  end.

(* ------------------------------ framework side ------------------------------ *)
Definition sf_tok_initialize_mint (mint : key) (rent : option key) (decimals : Z) (mint_authority : key) (freeze_authority : option key) :=
  sf_token "InitializeMint"
           [("decimals", VU8 decimals); ("mint_authority", VKey mint_authority); ("freeze_authority", VOptKey freeze_authority)]
           [("mint", CKey mint); ("rent", COptKey rent)].
Definition sf_tok_initialize_account (account mint owner : key) (rent : option key) :=
  sf_token "InitializeAccount" []
           [("account", CKey account); ("mint", CKey mint); ("owner", CKey owner); ("rent", COptKey rent)].
Definition sf_tok_initialize_multisig (multisig : key) (rent : option key) (signers : list key) (m : Z) :=
  sf_token "InitializeMultisig" [("m", VU8 m)]
           [("multisig", CKey multisig); ("rent", COptKey rent); ("signers", CKeys signers)].
Definition sf_tok_transfer (source destination owner : key) (amount : Z) :=
  sf_token "Transfer" [("amount", VU64 amount)]
           [("source", CKey source); ("destination", CKey destination); ("owner", CKey owner)].
Definition sf_tok_approve (source delegate owner : key) (amount : Z) :=
  sf_token "Approve" [("amount", VU64 amount)]
           [("source", CKey source); ("delegate", CKey delegate); ("owner", CKey owner)].
Definition sf_tok_revoke (source owner : key) :=
  sf_token "Revoke" [] [("source", CKey source); ("owner", CKey owner)].
Definition sf_tok_set_authority (account current_authority : key) (t : authority_type) (new_authority : option key) :=
  sf_token "SetAuthority" [("authority_type", VAuthority (authority_name t)); ("new_authority", VOptKey new_authority)]
           [("account", CKey account); ("current_authority", CKey current_authority)].
Definition sf_tok_mint_to (mint account mint_authority : key) (amount : Z) :=
  sf_token "MintTo" [("amount", VU64 amount)]
           [("mint", CKey mint); ("account", CKey account); ("mint_authority", CKey mint_authority)].
Definition sf_tok_burn (account mint owner : key) (amount : Z) :=
  sf_token "Burn" [("amount", VU64 amount)]
           [("account", CKey account); ("mint", CKey mint); ("owner", CKey owner)].
Definition sf_tok_close_account (account destination owner : key) :=
  sf_token "CloseAccount" [] [("account", CKey account); ("destination", CKey destination); ("owner", CKey owner)].
Definition sf_tok_freeze_account (account mint authority : key) :=
  sf_token "FreezeAccount" [] [("account", CKey account); ("mint", CKey mint); ("authority", CKey authority)].
Definition sf_tok_thaw_account (account mint authority : key) :=
  sf_token "ThawAccount" [] [("account", CKey account); ("mint", CKey mint); ("authority", CKey authority)].
Definition sf_tok_transfer_checked (source mint destination owner : key) (amount decimals : Z) :=
  sf_token "TransferChecked" [("amount", VU64 amount); ("decimals", VU8 decimals)]
           [("source", CKey source); ("mint", CKey mint); ("destination", CKey destination); ("owner", CKey owner)].
Definition sf_tok_approve_checked (source mint delegate owner : key) (amount decimals : Z) :=
  sf_token "ApproveChecked" [("amount", VU64 amount); ("decimals", VU8 decimals)]
           [("source", CKey source); ("mint", CKey mint); ("delegate", CKey delegate); ("owner", CKey owner)].
Definition sf_tok_mint_to_checked (mint account mint_authority : key) (amount decimals : Z) :=
  sf_token "MintToChecked" [("amount", VU64 amount); ("decimals", VU8 decimals)]
           [("mint", CKey mint); ("account", CKey account); ("mint_authority", CKey mint_authority)].
Definition sf_tok_burn_checked (account mint owner : key) (amount decimals : Z) :=
  sf_token "BurnChecked" [("amount", VU64 amount); ("decimals", VU8 decimals)]
           [("account", CKey account); ("mint", CKey mint); ("owner", CKey owner)].
Definition sf_tok_initialize_account2 (account mint : key) (rent : option key) (owner : key) :=
  sf_token "InitializeAccount2" [("owner", VKey owner)]
           [("account", CKey account); ("mint", CKey mint); ("rent", COptKey rent)].
Definition sf_tok_sync_native (account : key) :=
  sf_token "SyncNative" [] [("account", CKey account)].
Definition sf_tok_initialize_account3 (account mint owner : key) :=
  sf_token "InitializeAccount3" [("owner", VKey owner)] [("account", CKey account); ("mint", CKey mint)].
Definition sf_tok_initialize_multisig2 (multisig : key) (signers : list key) (m : Z) :=
  sf_token "InitializeMultisig2" [("m", VU8 m)] [("multisig", CKey multisig); ("signers", CKeys signers)].
Definition sf_tok_initialize_mint2 (mint : key) (decimals : Z) (mint_authority : key) (freeze_authority : option key) :=
  sf_token "InitializeMint2"
           [("decimals", VU8 decimals); ("mint_authority", VKey mint_authority); ("freeze_authority", VOptKey freeze_authority)]
           [("mint", CKey mint)].
Definition sf_tok_get_account_data_size (mint : key) :=
  sf_token "GetAccountDataSize" [] [("mint", CKey mint)].
Definition sf_tok_initialize_immutable_owner (account : key) :=
  sf_token "InitializeImmutableOwner" [] [("account", CKey account)].
Definition sf_tok_amount_to_ui_amount (mint : key) (amount : Z) :=
  sf_token "AmountToUiAmount" [("amount", VU64 amount)] [("mint", CKey mint)].

(* ------------------------------ reference side ------------------------------ *)
Inductive token_instruction :=
| TInitializeMint (decimals : Z) (mint_authority : key) (freeze_authority : option key)
| TInitializeAccount
| TInitializeMultisig (m : Z)
| TTransfer (amount : Z)
| TApprove (amount : Z)
| TRevoke
| TSetAuthority (authority_type : authority_type) (new_authority : option key)
| TMintTo (amount : Z)
| TBurn (amount : Z)
| TCloseAccount
| TFreezeAccount
| TThawAccount
| TTransferChecked (amount decimals : Z)
| TApproveChecked (amount decimals : Z)
| TMintToChecked (amount decimals : Z)
| TBurnChecked (amount decimals : Z)
| TInitializeAccount2 (owner : key)
| TSyncNative
| TInitializeAccount3 (owner : key)
| TInitializeMultisig2 (m : Z)
| TInitializeMint2 (decimals : Z) (mint_authority : key) (freeze_authority : option key)
| TGetAccountDataSize
| TInitializeImmutableOwner
| TAmountToUiAmount (amount : Z).

(* AuthorityType::into, instruction.rs 753-761 *)
Definition ref_authority_into (a : authority_type) : Z :=
  match a with
  | MintTokens => 0
  | FreezeAccount => 1
  | AccountOwner => 2
  | CloseAccount => 3
  end.

(* TokenInstruction::pack, instruction.rs 582-689 (u8 fields are pushed as they are) *)
Definition ref_tok_pack (i : token_instruction) : list Z :=
  match i with
  | TInitializeMint decimals mint_authority freeze_authority =>
      [0] ++ [decimals] ++ ref_key mint_authority ++ ref_pack_pubkey_option freeze_authority
  | TInitializeAccount => [1]
  | TInitializeMultisig m => [2] ++ [m]
  | TTransfer amount => [3] ++ ref_u64_le amount
  | TApprove amount => [4] ++ ref_u64_le amount
  | TMintTo amount => [7] ++ ref_u64_le amount
  | TBurn amount => [8] ++ ref_u64_le amount
  | TRevoke => [5]
  | TSetAuthority t new_authority => [6] ++ [ref_authority_into t] ++ ref_pack_pubkey_option new_authority
  | TCloseAccount => [9]
  | TFreezeAccount => [10]
  | TThawAccount => [11]
  | TTransferChecked amount decimals => [12] ++ ref_u64_le amount ++ [decimals]
  | TApproveChecked amount decimals => [13] ++ ref_u64_le amount ++ [decimals]
  | TMintToChecked amount decimals => [14] ++ ref_u64_le amount ++ [decimals]
  | TBurnChecked amount decimals => [15] ++ ref_u64_le amount ++ [decimals]
  | TInitializeAccount2 owner => [16] ++ ref_key owner
  | TSyncNative => [17]
  | TInitializeAccount3 owner => [18] ++ ref_key owner
  | TInitializeMultisig2 m => [19] ++ [m]
  | TInitializeMint2 decimals mint_authority freeze_authority =>
      [20] ++ [decimals] ++ ref_key mint_authority ++ ref_pack_pubkey_option freeze_authority
  | TGetAccountDataSize => [21]
  | TInitializeImmutableOwner => [22]
  | TAmountToUiAmount amount => [23] ++ ref_u64_le amount
  end.

(* every builder first runs check_program_account(token_program_id) (lib.rs 20-25): only
   spl_token_interface::id() is accepted, so the program id below is that constant *)
Definition ref_tok_ix (i : token_instruction) (accounts : list meta) : instruction :=
  mkIx REF_TOKEN_ID (ref_tok_pack i) accounts.

Definition is_empty {A} (l : list A) : bool := match l with [] => true | _ => false end.
(* the authority followed by the multisig signer tail, as every owner-authorised builder does:
     accounts.push(AccountMeta::new_readonly( authority, signer_pubkeys.is_empty() ));
     for s in signer_pubkeys { accounts.push(AccountMeta::new_readonly( s, true )); }              *)
Definition ref_authority_tail (authority : key) (signers : list key) : list meta :=
  ref_readonly authority (is_empty signers) :: map (fun s => ref_readonly s true) signers.

(* MIN_SIGNERS = 1, MAX_SIGNERS = 11; is_valid_signer_index, instruction.rs 1443-1445 *)
Definition ref_is_valid_signer_index (i : Z) : bool := (1 <=? i) && (i <=? 11).
Definition ref_multisig_args_ok (signers : list key) (m : Z) : bool :=
  ref_is_valid_signer_index m && ref_is_valid_signer_index (zlen signers) && (m <=? zlen signers).

Definition ref_tok_initialize_mint (mint mint_authority : key) (freeze_authority : option key) (decimals : Z) :=
  ref_tok_ix (TInitializeMint decimals mint_authority freeze_authority)
             [ref_new mint false; ref_readonly REF_RENT_ID false].
Definition ref_tok_initialize_mint2 (mint mint_authority : key) (freeze_authority : option key) (decimals : Z) :=
  ref_tok_ix (TInitializeMint2 decimals mint_authority freeze_authority) [ref_new mint false].
Definition ref_tok_initialize_account (account mint owner : key) :=
  ref_tok_ix TInitializeAccount
             [ref_new account false; ref_readonly mint false; ref_readonly owner false; ref_readonly REF_RENT_ID false].
Definition ref_tok_initialize_account2 (account mint owner : key) :=
  ref_tok_ix (TInitializeAccount2 owner) [ref_new account false; ref_readonly mint false; ref_readonly REF_RENT_ID false].
Definition ref_tok_initialize_account3 (account mint owner : key) :=
  ref_tok_ix (TInitializeAccount3 owner) [ref_new account false; ref_readonly mint false].
(* None = the builder returns Err(MissingRequiredSignature) *)
Definition ref_tok_initialize_multisig (multisig : key) (signers : list key) (m : Z) : option instruction :=
  if ref_multisig_args_ok signers m
  then Some (ref_tok_ix (TInitializeMultisig m)
                        ([ref_new multisig false; ref_readonly REF_RENT_ID false] ++ map (fun s => ref_readonly s false) signers))
  else None.
Definition ref_tok_initialize_multisig2 (multisig : key) (signers : list key) (m : Z) : option instruction :=
  if ref_multisig_args_ok signers m
  then Some (ref_tok_ix (TInitializeMultisig2 m) ([ref_new multisig false] ++ map (fun s => ref_readonly s false) signers))
  else None.
Definition ref_tok_transfer (source destination authority : key) (signers : list key) (amount : Z) :=
  ref_tok_ix (TTransfer amount) ([ref_new source false; ref_new destination false] ++ ref_authority_tail authority signers).
Definition ref_tok_approve (source delegate owner : key) (signers : list key) (amount : Z) :=
  ref_tok_ix (TApprove amount) ([ref_new source false; ref_readonly delegate false] ++ ref_authority_tail owner signers).
Definition ref_tok_revoke (source owner : key) (signers : list key) :=
  ref_tok_ix TRevoke ([ref_new source false] ++ ref_authority_tail owner signers).
Definition ref_tok_set_authority (owned : key) (new_authority : option key) (t : authority_type) (owner : key) (signers : list key) :=
  ref_tok_ix (TSetAuthority t new_authority) ([ref_new owned false] ++ ref_authority_tail owner signers).
Definition ref_tok_mint_to (mint account owner : key) (signers : list key) (amount : Z) :=
  ref_tok_ix (TMintTo amount) ([ref_new mint false; ref_new account false] ++ ref_authority_tail owner signers).
Definition ref_tok_burn (account mint authority : key) (signers : list key) (amount : Z) :=
  ref_tok_ix (TBurn amount) ([ref_new account false; ref_new mint false] ++ ref_authority_tail authority signers).
Definition ref_tok_close_account (account destination owner : key) (signers : list key) :=
  ref_tok_ix TCloseAccount ([ref_new account false; ref_new destination false] ++ ref_authority_tail owner signers).
Definition ref_tok_freeze_account (account mint owner : key) (signers : list key) :=
  ref_tok_ix TFreezeAccount ([ref_new account false; ref_readonly mint false] ++ ref_authority_tail owner signers).
Definition ref_tok_thaw_account (account mint owner : key) (signers : list key) :=
  ref_tok_ix TThawAccount ([ref_new account false; ref_readonly mint false] ++ ref_authority_tail owner signers).
Definition ref_tok_transfer_checked (source mint destination authority : key) (signers : list key) (amount decimals : Z) :=
  ref_tok_ix (TTransferChecked amount decimals)
             ([ref_new source false; ref_readonly mint false; ref_new destination false] ++ ref_authority_tail authority signers).
Definition ref_tok_approve_checked (source mint delegate owner : key) (signers : list key) (amount decimals : Z) :=
  ref_tok_ix (TApproveChecked amount decimals)
             ([ref_new source false; ref_readonly mint false; ref_readonly delegate false] ++ ref_authority_tail owner signers).
Definition ref_tok_mint_to_checked (mint account owner : key) (signers : list key) (amount decimals : Z) :=
  ref_tok_ix (TMintToChecked amount decimals) ([ref_new mint false; ref_new account false] ++ ref_authority_tail owner signers).
Definition ref_tok_burn_checked (account mint authority : key) (signers : list key) (amount decimals : Z) :=
  ref_tok_ix (TBurnChecked amount decimals) ([ref_new account false; ref_new mint false] ++ ref_authority_tail authority signers).
Definition ref_tok_sync_native (account : key) := ref_tok_ix TSyncNative [ref_new account false].
Definition ref_tok_get_account_data_size (mint : key) := ref_tok_ix TGetAccountDataSize [ref_readonly mint false].
Definition ref_tok_initialize_immutable_owner (account : key) := ref_tok_ix TInitializeImmutableOwner [ref_new account false].
Definition ref_tok_amount_to_ui_amount (mint : key) (amount : Z) :=
  ref_tok_ix (TAmountToUiAmount amount) [ref_readonly mint false].
