(* C16 - the 82-byte Mint and 165-byte token Account images.  Definitions only.

   ref_*  : spl-token-interface 2.0.0 src/state.rs (`Pack for Mint` 41-66, `Pack for Account` 134-155,
            unpack_coption_key 313-320, unpack_coption_u64 335-342) under solana-program-pack 3.0.0's
            `unpack` / `unpack_unchecked` (length check, then unpack_from_slice, then is_initialized).
   sf_*   : star_frame_spl/src/token/state.rs: the zero-copy view
            `bytemuck::checked::try_from_bytes::<MintAccountData | TokenAccountData>` of the
            `#[repr(C, packed)]` structs (fields, in declaration order, re-read from the source into
            Gen_c16: packed => offset of a field = sum of the sizes before it), `validate` (66-99 /
            339-371), `data` (110-115 / 382-387), and the PodOption accessors of src/pod.rs.          *)
From SF Require Import Base.Prelude Gen.Generated Gen.Gen_c16 Wire.Borsh.
From Coq Require Import String.
Open Scope string_scope.
Open Scope list_scope.
Open Scope Z_scope.

(* solana-program-error: INVALID_ACCOUNT_DATA = to_builtin!(4), UNINITIALIZED_ACCOUNT = to_builtin!(10) *)
Definition REF_INVALID_ACCOUNT_DATA : Z := 17179869184.
Definition REF_UNINITIALIZED_ACCOUNT : Z := 42949672960.

(* ============================== reference side ============================== *)
Record ref_mint := mkRefMint {
  rm_mint_authority : option key;
  rm_supply : Z;
  rm_decimals : Z;
  rm_is_initialized : bool;
  rm_freeze_authority : option key }.

Inductive ref_state := Uninitialized | Initialized | Frozen.

Record ref_account := mkRefAccount {
  ra_mint : key;
  ra_owner : key;
  ra_amount : Z;
  ra_delegate : option key;
  ra_state : ref_state;
  ra_is_native : option Z;
  ra_delegated_amount : Z;
  ra_close_authority : option key }.

(* src : [u8; 36] *)
Definition ref_unpack_coption_key (src : list Z) : out (option key) :=
  let tag := slice 0 4 src in
  let body := slice 4 32 src in
  if bytes_eqb tag [0; 0; 0; 0] then Ok None
  else if bytes_eqb tag [1; 0; 0; 0] then Ok (Some body)
  else Err REF_INVALID_ACCOUNT_DATA.

(* src : [u8; 12] *)
Definition ref_unpack_coption_u64 (src : list Z) : out (option Z) :=
  let tag := slice 0 4 src in
  let body := slice 4 8 src in
  if bytes_eqb tag [0; 0; 0; 0] then Ok None
  else if bytes_eqb tag [1; 0; 0; 0] then Ok (Some (le_decode body))
  else Err REF_INVALID_ACCOUNT_DATA.

Definition ref_unpack_bool (src : list Z) : out bool :=
  if bytes_eqb src [0] then Ok false
  else if bytes_eqb src [1] then Ok true
  else Err REF_INVALID_ACCOUNT_DATA.

(* array_refs![src, 36, 8, 1, 1, 36] *)
Definition ref_mint_unpack_from_slice (src : list Z) : out ref_mint :=
  let mint_authority := slice 0 36 src in
  let supply := slice 36 8 src in
  let decimals := slice 44 1 src in
  let is_initialized := slice 45 1 src in
  let freeze_authority := slice 46 36 src in
  do ma <- ref_unpack_coption_key mint_authority;
  do ii <- ref_unpack_bool is_initialized;
  do fa <- ref_unpack_coption_key freeze_authority;
  Ok (mkRefMint ma (le_decode supply) (nth 0 decimals 0) ii fa).

(* num_enum TryFromPrimitive on #[repr(u8)] enum AccountState *)
Definition ref_state_try_from (b : Z) : out ref_state :=
  if b =? 0 then Ok Uninitialized
  else if b =? 1 then Ok Initialized
  else if b =? 2 then Ok Frozen
  else Err REF_INVALID_ACCOUNT_DATA.

Definition ref_state_u8 (s : ref_state) : Z :=
  match s with Uninitialized => 0 | Initialized => 1 | Frozen => 2 end.

(* array_refs![src, 32, 32, 8, 36, 1, 12, 8, 36] *)
Definition ref_account_unpack_from_slice (src : list Z) : out ref_account :=
  let mint := slice 0 32 src in
  let owner := slice 32 32 src in
  let amount := slice 64 8 src in
  let delegate := slice 72 36 src in
  let state := slice 108 1 src in
  let is_native := slice 109 12 src in
  let delegated_amount := slice 121 8 src in
  let close_authority := slice 129 36 src in
  do d <- ref_unpack_coption_key delegate;
  do st <- ref_state_try_from (nth 0 state 0);
  do n <- ref_unpack_coption_u64 is_native;
  do ca <- ref_unpack_coption_key close_authority;
  Ok (mkRefAccount mint owner (le_decode amount) d st n (le_decode delegated_amount) ca).

(* solana-program-pack lib.rs: unpack_unchecked / unpack *)
Definition ref_mint_unpack_unchecked (input : list Z) : out ref_mint :=
  if negb (zlen input =? 82) then Err REF_INVALID_ACCOUNT_DATA else ref_mint_unpack_from_slice input.
Definition ref_mint_unpack (input : list Z) : out ref_mint :=
  do v <- ref_mint_unpack_unchecked input;
  if rm_is_initialized v then Ok v else Err REF_UNINITIALIZED_ACCOUNT.

Definition ref_account_is_initialized (a : ref_account) : bool :=
  match ra_state a with Uninitialized => false | _ => true end.
Definition ref_account_unpack_unchecked (input : list Z) : out ref_account :=
  if negb (zlen input =? 165) then Err REF_INVALID_ACCOUNT_DATA else ref_account_unpack_from_slice input.
Definition ref_account_unpack (input : list Z) : out ref_account :=
  do v <- ref_account_unpack_unchecked input;
  if ref_account_is_initialized v then Ok v else Err REF_UNINITIALIZED_ACCOUNT.

(* ============================== framework side ============================== *)
Inductive fval :=
| FU8 (n : Z)
| FU64 (n : Z)
| FBool (b : bool)
| FKey (k : key)
| FEnum (i : Z)                           (* repr(u8) unit enum: its discriminant *)
| FPodKey (tag : list Z) (v : key)        (* PodOption<Pubkey>: the raw 4-byte option field and the value *)
| FPodU64 (tag : list Z) (v : Z).

Fixpoint lookupf {A} (s : string) (l : list (string * A)) : option A :=
  match l with
  | [] => None
  | (n, v) :: r => if String.eqb n s then Some v else lookupf s r
  end.

Fixpoint sizes_of (f : string -> option nat) (fields : list (string * string)) : option (list (string * nat)) :=
  match fields with
  | [] => Some []
  | (n, ty) :: r =>
      match f ty, sizes_of f r with
      | Some s, Some ss => Some ((n, s) :: ss)
      | _, _ => None
      end
  end.

Fixpoint total_size (sizes : list (string * nat)) : nat :=
  match sizes with [] => O | (_, s) :: r => (s + total_size r)%nat end.

(* #[repr(C, packed)]: no padding, fields at the running offset *)
Fixpoint split_fields (off : nat) (sizes : list (string * nat)) (bs : list Z) : list (string * list Z) :=
  match sizes with
  | [] => []
  | (n, s) :: r => (n, slice off s bs) :: split_fields (off + s) r bs
  end.

(* PodOption<T> { option: [u8; 4], value: T } with size_of::<T>() = tsize *)
Definition pod_field_size (tsize : nat) (ty : string) : option nat :=
  if String.eqb ty "[u8; 4]" then Some 4%nat else if String.eqb ty "T" then Some tsize else None.
Definition pod_size (tsize : nat) : option nat :=
  option_map total_size (sizes_of (pod_field_size tsize) SF_POD_OPTION_FIELDS).
Definition pod_parts (tsize : nat) (bs : list Z) : option (list Z * list Z) :=
  match sizes_of (pod_field_size tsize) SF_POD_OPTION_FIELDS with
  | None => None
  | Some sz =>
      let parts := split_fields 0 sz bs in
      match lookupf "option" parts, lookupf "value" parts with
      | Some tag, Some v => Some (tag, v)
      | _, _ => None
      end
  end.

(* size_of of the field types used by the two state structs (Pubkey = [u8; 32]; KeyFor<T> is
   repr(transparent) over Pubkey; AccountState is repr(u8)) *)
Definition fty_size (ty : string) : option nat :=
  if String.eqb ty "u8" then Some 1%nat
  else if String.eqb ty "u64" then Some 8%nat
  else if String.eqb ty "bool" then Some 1%nat
  else if String.eqb ty "Pubkey" then Some 32%nat
  else if String.eqb ty "KeyFor<MintAccount>" then Some 32%nat
  else if String.eqb ty "AccountState" then Some 1%nat
  else if String.eqb ty "PodOption<Pubkey>" then pod_size 32
  else if String.eqb ty "PodOption<u64>" then pod_size 8
  else None.

(* CheckedBitPattern::is_valid_bit_pattern + the typed read.  Pod types accept every pattern; bool
   accepts 0 / 1; a repr(u8) unit enum accepts its discriminants 0..n-1.
   Err EC_CHECKED_CAST_ERROR = CheckedCastError (errors.rs 465-474); Panic = a type text this model
   does not know (makes every theorem about the layout fail).                                        *)
Definition decode_field (ty : string) (bs : list Z) : out fval :=
  if String.eqb ty "u8" then Ok (FU8 (nth 0 bs 0))
  else if String.eqb ty "u64" then Ok (FU64 (le_decode bs))
  else if String.eqb ty "bool" then
    let b := nth 0 bs 0 in
    if b =? 0 then Ok (FBool false) else if b =? 1 then Ok (FBool true) else Err EC_CHECKED_CAST_ERROR
  else if String.eqb ty "Pubkey" then Ok (FKey bs)
  else if String.eqb ty "KeyFor<MintAccount>" then Ok (FKey bs)
  else if String.eqb ty "AccountState" then
    let b := nth 0 bs 0 in
    if b <? zlen SF_ACCOUNT_STATE_VARIANTS then Ok (FEnum b) else Err EC_CHECKED_CAST_ERROR
  else if String.eqb ty "PodOption<Pubkey>" then
    match pod_parts 32 bs with Some (tag, v) => Ok (FPodKey tag v) | None => Panic end
  else if String.eqb ty "PodOption<u64>" then
    match pod_parts 8 bs with Some (tag, v) => Ok (FPodU64 tag (le_decode v)) | None => Panic end
  else Panic.

Fixpoint decode_fields (layout : list (string * string)) (parts : list (string * list Z)) : out (list (string * fval)) :=
  match layout with
  | [] => Ok []
  | (n, ty) :: r =>
      match lookupf n parts with
      | None => Panic
      | Some bs =>
          do v <- decode_field ty bs;
          do vs <- decode_fields r parts;
          Ok ((n, v) :: vs)
      end
  end.

(* bytemuck::checked::try_from_bytes::<S>(data): size mismatch or an invalid bit pattern =
   CheckedCastError (alignment is 1: packed) *)
Definition sf_view (layout : list (string * string)) (img : list Z) : out (list (string * fval)) :=
  match sizes_of fty_size layout with
  | None => Panic
  | Some sz =>
      if (List.length img =? total_size sz)%nat
      then decode_fields layout (split_fields 0 sz img)
      else Err EC_CHECKED_CAST_ERROR
  end.

(* pod.rs accessors *)
Definition pod_is_some (tag : list Z) : bool := bytes_eqb tag SF_POD_SOME.
Definition pod_is_none (tag : list Z) : bool := bytes_eqb tag SF_POD_NONE.
Definition pod_into_option {A} (tag : list Z) (v : A) : option A := if pod_is_some tag then Some v else None.

Definition view_bool (v : list (string * fval)) (n : string) : option bool :=
  match lookupf n v with Some (FBool b) => Some b | _ => None end.
Definition view_u8 (v : list (string * fval)) (n : string) : option Z :=
  match lookupf n v with Some (FU8 x) => Some x | _ => None end.
Definition view_u64 (v : list (string * fval)) (n : string) : option Z :=
  match lookupf n v with Some (FU64 x) => Some x | _ => None end.
Definition view_key (v : list (string * fval)) (n : string) : option key :=
  match lookupf n v with Some (FKey k) => Some k | _ => None end.
Definition view_enum (v : list (string * fval)) (n : string) : option Z :=
  match lookupf n v with Some (FEnum i) => Some i | _ => None end.
Definition view_optkey (v : list (string * fval)) (n : string) : option (option key) :=
  match lookupf n v with Some (FPodKey tag k) => Some (pod_into_option tag k) | _ => None end.
Definition view_optu64 (v : list (string * fval)) (n : string) : option (option Z) :=
  match lookupf n v with Some (FPodU64 tag x) => Some (pod_into_option tag x) | _ => None end.

(* ---------------- MintAccount ---------------- *)
Definition sf_mint_data_unchecked (img : list Z) := sf_view SF_MINT_LAYOUT img.

(* state.rs 66-99: owner, length, then `!self.data_unchecked()?.is_initialized` *)
Definition sf_mint_validate (owner : key) (img : list Z) : out unit :=
  if negb (bytes_eqb owner SF_TOKEN_ID) then Err PE_INVALID_ACCOUNT_OWNER
  else if negb (zlen img =? SF_MINT_LEN) then Err PE_INVALID_ACCOUNT_DATA
  else
    do v <- sf_mint_data_unchecked img;
    match view_bool v "is_initialized" with
    | Some true => Ok tt
    | Some false => Err PE_UNINITIALIZED_ACCOUNT
    | None => Panic
    end.

(* state.rs 110-115: a writable account is re-validated *)
Definition sf_mint_data (owner : key) (writable : bool) (img : list Z) :=
  if writable then do _ <- sf_mint_validate owner img; sf_mint_data_unchecked img
  else sf_mint_data_unchecked img.

(* the field values a program reads through the view, as the reference record *)
Definition sf_mint_fields (v : list (string * fval)) : option ref_mint :=
  match view_optkey v "mint_authority", view_u64 v "supply", view_u8 v "decimals",
        view_bool v "is_initialized", view_optkey v "freeze_authority" with
  | Some a, Some b, Some c, Some d, Some e => Some (mkRefMint a b c d e)
  | _, _, _, _, _ => None
  end.

(* ---------------- TokenAccount ---------------- *)
Definition sf_token_data_unchecked (img : list Z) := sf_view SF_TOKENACC_LAYOUT img.

Fixpoint index_of_name (s : string) (l : list string) : option Z :=
  match l with
  | [] => None
  | x :: r => if String.eqb x s then Some 0 else option_map Z.succ (index_of_name s r)
  end.

(* state.rs 339-371: `self.data_unchecked()?.state == AccountState::Uninitialized` *)
Definition sf_token_validate (owner : key) (img : list Z) : out unit :=
  if negb (bytes_eqb owner SF_TOKEN_ID) then Err PE_INVALID_ACCOUNT_OWNER
  else if negb (zlen img =? SF_TOKENACC_LEN) then Err PE_INVALID_ACCOUNT_DATA
  else
    do v <- sf_token_data_unchecked img;
    match view_enum v "state", index_of_name "Uninitialized" SF_ACCOUNT_STATE_VARIANTS with
    | Some s, Some u => if s =? u then Err PE_UNINITIALIZED_ACCOUNT else Ok tt
    | _, _ => Panic
    end.

Definition sf_token_data (owner : key) (writable : bool) (img : list Z) :=
  if writable then do _ <- sf_token_validate owner img; sf_token_data_unchecked img
  else sf_token_data_unchecked img.

(* the reference AccountState variant of the same NAME as the framework's variant number i *)
Definition state_of_name (s : string) : option ref_state :=
  if String.eqb s "Uninitialized" then Some Uninitialized
  else if String.eqb s "Initialized" then Some Initialized
  else if String.eqb s "Frozen" then Some Frozen
  else None.
Definition sf_state (i : Z) : option ref_state :=
  match nth_error SF_ACCOUNT_STATE_VARIANTS (Z.to_nat i) with
  | Some n => state_of_name n
  | None => None
  end.

Definition sf_token_fields (v : list (string * fval)) : option ref_account :=
  match view_key v "mint", view_key v "owner", view_u64 v "amount", view_optkey v "delegate" with
  | Some a, Some b, Some c, Some d =>
      match view_enum v "state", view_optu64 v "is_native", view_u64 v "delegated_amount",
            view_optkey v "close_authority" with
      | Some e, Some f, Some g, Some h =>
          match sf_state e with
          | Some st => Some (mkRefAccount a b c d st f g h)
          | None => None
          end
      | _, _, _, _ => None
      end
  | _, _, _, _ => None
  end.

(* ============================== observations ============================== *)
Definition bz (b : bool) : Z := if b then 1 else 0.

Definition obs_opt_key (o : option key) : list Z := match o with Some k => 1 :: k | None => [0] end.
Definition obs_opt_z (o : option Z) : list Z := match o with Some n => [1; n] | None => [0] end.

Definition obs_fval (v : fval) : list Z :=
  match v with
  | FU8 n => [n]
  | FU64 n => [n]
  | FBool b => [bz b]
  | FKey k => k
  | FEnum i => [i]
  | FPodKey tag k => [bz (pod_is_some tag); bz (pod_is_none tag)] ++ obs_opt_key (pod_into_option tag k)
  | FPodU64 tag n => [bz (pod_is_some tag); bz (pod_is_none tag)] ++ obs_opt_z (pod_into_option tag n)
  end.

Definition obs_view (r : out (list (string * fval))) : list Z :=
  match r with
  | Ok v => 0 :: List.concat (map (fun nv => obs_fval (snd nv)) v)
  | Err c => [1; c]
  | Panic => [2]
  | Fault => [3]
  end.

(* s-line of an image case: validate, data_unchecked (+ fields), data *)
Definition obs_sf_mint (owner : key) (writable : bool) (img : list Z) : list Z :=
  out_tag (sf_mint_validate owner img) ++ obs_view (sf_mint_data_unchecked img) ++ out_tag (sf_mint_data owner writable img).
Definition obs_sf_token (owner : key) (writable : bool) (img : list Z) : list Z :=
  out_tag (sf_token_validate owner img) ++ obs_view (sf_token_data_unchecked img) ++ out_tag (sf_token_data owner writable img).

Definition obs_ref_mint (r : out ref_mint) : list Z :=
  match r with
  | Ok m => [0] ++ obs_opt_key (rm_mint_authority m) ++ [rm_supply m; rm_decimals m; bz (rm_is_initialized m)]
                ++ obs_opt_key (rm_freeze_authority m)
  | Err c => [1; c]
  | Panic => [2]
  | Fault => [3]
  end.
Definition obs_ref_account (r : out ref_account) : list Z :=
  match r with
  | Ok a => [0] ++ ra_mint a ++ ra_owner a ++ [ra_amount a] ++ obs_opt_key (ra_delegate a) ++ [ref_state_u8 (ra_state a)]
                ++ obs_opt_z (ra_is_native a) ++ [ra_delegated_amount a] ++ obs_opt_key (ra_close_authority a)
  | Err c => [1; c]
  | Panic => [2]
  | Fault => [3]
  end.
(* r-line: unpack, unpack_unchecked *)
Definition obs_ref_mint_image (img : list Z) : list Z :=
  obs_ref_mint (ref_mint_unpack img) ++ obs_ref_mint (ref_mint_unpack_unchecked img).
Definition obs_ref_account_image (img : list Z) : list Z :=
  obs_ref_account (ref_account_unpack img) ++ obs_ref_account (ref_account_unpack_unchecked img).
