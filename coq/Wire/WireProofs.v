(* C16 - proofs about the wire models: for every bound instruction the framework-side encoding
   (declarations regenerated from /repo, interpreted by Wire/Desc.v) equals the reference-side one. *)
From SF Require Import Base.Prelude Gen.Gen_c16 Wire.Borsh Wire.Desc Wire.SystemWire Wire.TokenWire Wire.AtaWire.
From Coq Require Import String.
Open Scope string_scope.
Open Scope list_scope.
Open Scope Z_scope.

(* ------------------------------------------------------------------------------------------ *)
(* to_le_bytes (shift and mask) = the division form of Base.Prelude.le_bytes, for every integer *)
Lemma ref_byte_div n i : 0 <= i -> ref_byte n i = (n / 256 ^ i) mod 256.
Proof.
  intros Hi. unfold ref_byte.
  rewrite Z.shiftr_div_pow2 by lia.
  change 255 with (Z.ones 8). rewrite Z.land_ones by lia.
  replace (2 ^ (8 * i)) with (256 ^ i). 2:{ rewrite Z.pow_mul_r by lia. reflexivity. }
  reflexivity.
Qed.

Lemma ref_u64_le_eq n : ref_u64_le n = le_bytes 8 n.
Proof.
  unfold ref_u64_le. cbn [map le_bytes].
  rewrite !ref_byte_div by lia.
  rewrite !Z.div_div by lia.
  rewrite Z.div_1_r. reflexivity.
Qed.

Lemma ref_u32_le_eq n : ref_u32_le n = le_bytes 4 n.
Proof.
  unfold ref_u32_le. cbn [map le_bytes].
  rewrite !ref_byte_div by lia.
  rewrite !Z.div_div by lia.
  rewrite Z.div_1_r. reflexivity.
Qed.

Lemma le_bytes_1 d : is_u8 d = true -> le_bytes 1 d = [d].
Proof.
  unfold is_u8. intros H. apply andb_true_iff in H as [H0 H1]. zb.
  cbn [le_bytes]. now rewrite Z.mod_small by lia.
Qed.

(* u64 values round-trip through the 8 bytes (the encodings below lose nothing in range) *)
Lemma u64_roundtrip n : is_u64 n = true -> le_decode (ref_u64_le n) = n.
Proof.
  unfold is_u64. intros H. apply andb_true_iff in H as [H0 H1]. zb.
  rewrite ref_u64_le_eq. apply le_decode_le_bytes. cbn. lia.
Qed.

(* ------------------------------------------------------------------------------------------ *)
(* ids *)
Lemma ids_agree :
  SF_SYSTEM_ID = REF_SYSTEM_ID /\ SF_TOKEN_ID = REF_TOKEN_ID /\ SF_ATA_ID = REF_ATA_ID /\
  SF_RENT_ID = REF_RENT_ID /\ SF_RECENT_BLOCKHASHES_ID = REF_RECENT_BLOCKHASHES_ID.
Proof. repeat split; reflexivity. Qed.

Definition default_or_none (o : option key) (d : key) : Prop := o = None \/ o = Some d.

#[local] Hint Unfold
  ref_sys_create_account ref_sys_assign ref_sys_transfer ref_sys_advance_nonce ref_sys_withdraw_nonce
  ref_sys_initialize_nonce ref_sys_authorize_nonce ref_sys_allocate ref_sys_upgrade_nonce ref_bincode_variant
  ref_tok_ix ref_tok_pack ref_tok_initialize_mint ref_tok_initialize_mint2 ref_tok_initialize_account
  ref_tok_initialize_account2 ref_tok_initialize_account3 ref_tok_transfer ref_tok_approve ref_tok_revoke
  ref_tok_set_authority ref_tok_mint_to ref_tok_burn ref_tok_close_account ref_tok_freeze_account
  ref_tok_thaw_account ref_tok_transfer_checked ref_tok_approve_checked ref_tok_mint_to_checked
  ref_tok_burn_checked ref_tok_sync_native ref_tok_get_account_data_size ref_tok_initialize_immutable_owner
  ref_tok_amount_to_ui_amount ref_ata_create ref_ata_create_idempotent ref_ata_build ref_ata_recover_nested
  ref_ata_address ref_ata_address_with_program_id : refdb.

(* compute the interpretation of the generated declarations, keeping integer encodings and list
   structure symbolic; then both sides are the same term up to `++ []` *)
Ltac wire :=
  autounfold with refdb;
  rewrite ?ref_u64_le_eq, ?ref_u32_le_eq;
  cbv - [le_bytes app map Z.modulo Z.div];
  rewrite ?app_nil_r;
  try reflexivity.

Ltac wire8 :=
  autounfold with refdb;
  rewrite ?ref_u64_le_eq, ?ref_u32_le_eq;
  cbv - [le_bytes app map Z.modulo Z.div];
  rewrite ?app_nil_r;
  repeat match goal with
  | H : is_u8 ?d = true |- _ => rewrite ?(le_bytes_1 d H); clear H
  end;
  try reflexivity.

Ltac opt_cases :=
  repeat match goal with
  | H : default_or_none _ _ |- _ => destruct H as [H | H]; subst
  end.

(* ============================== System ============================== *)
Lemma sys_create_account_agrees funder new_account lamports space owner :
  sf_sys_create_account funder new_account lamports space owner
  = Some (ref_sys_create_account funder new_account lamports space owner).
Proof. wire. Qed.

Lemma sys_assign_agrees account owner :
  sf_sys_assign account owner = Some (ref_sys_assign account owner).
Proof. wire. Qed.

Lemma sys_transfer_agrees funder recipient lamports :
  sf_sys_transfer funder recipient lamports = Some (ref_sys_transfer funder recipient lamports).
Proof. wire. Qed.

Lemma sys_advance_nonce_agrees nonce authority :
  sf_sys_advance_nonce nonce SF_RECENT_BLOCKHASHES_ID authority = Some (ref_sys_advance_nonce nonce authority).
Proof. wire. Qed.

Lemma sys_withdraw_nonce_agrees nonce recipient rent authority lamports :
  default_or_none rent SF_RENT_ID ->
  sf_sys_withdraw_nonce nonce recipient SF_RECENT_BLOCKHASHES_ID rent authority lamports
  = Some (ref_sys_withdraw_nonce nonce authority recipient lamports).
Proof. intros Hr; opt_cases; wire. Qed.

Lemma sys_initialize_nonce_agrees nonce rent authority :
  default_or_none rent SF_RENT_ID ->
  sf_sys_initialize_nonce nonce SF_RECENT_BLOCKHASHES_ID rent authority = Some (ref_sys_initialize_nonce nonce authority).
Proof. intros Hr; opt_cases; wire. Qed.

Lemma sys_authorize_nonce_agrees nonce authority new_authority :
  sf_sys_authorize_nonce nonce authority new_authority = Some (ref_sys_authorize_nonce nonce authority new_authority).
Proof. wire. Qed.

Lemma sys_allocate_agrees account space :
  sf_sys_allocate account space = Some (ref_sys_allocate account space).
Proof. wire. Qed.

Lemma sys_upgrade_nonce_agrees nonce :
  sf_sys_upgrade_nonce nonce = Some (ref_sys_upgrade_nonce nonce).
Proof. wire. Qed.

(* ============================== SPL Token ============================== *)
Lemma tok_initialize_mint_agrees mint rent decimals mint_authority freeze_authority :
  is_u8 decimals = true -> default_or_none rent SF_RENT_ID ->
  sf_tok_initialize_mint mint rent decimals mint_authority freeze_authority
  = Some (ref_tok_initialize_mint mint mint_authority freeze_authority decimals).
Proof. intros Hd Hr; opt_cases; destruct freeze_authority; wire8. Qed.

Lemma tok_initialize_account_agrees account mint owner rent :
  default_or_none rent SF_RENT_ID ->
  sf_tok_initialize_account account mint owner rent = Some (ref_tok_initialize_account account mint owner).
Proof. intros Hr; opt_cases; wire. Qed.

Lemma multisig_ok_u8 signers m : ref_multisig_args_ok signers m = true -> is_u8 m = true.
Proof.
  unfold ref_multisig_args_ok, ref_is_valid_signer_index, is_u8. intros H. zb.
  apply andb_true_iff; split; [apply Z.leb_le | apply Z.ltb_lt]; lia.
Qed.

Lemma tok_initialize_multisig_agrees multisig rent signers m ix :
  default_or_none rent SF_RENT_ID ->
  ref_tok_initialize_multisig multisig signers m = Some ix ->
  sf_tok_initialize_multisig multisig rent signers m = Some ix.
Proof.
  intros Hr. unfold ref_tok_initialize_multisig.
  destruct (ref_multisig_args_ok signers m) eqn:Hok; [|discriminate].
  intros Hix; injection Hix as <-. pose proof (multisig_ok_u8 _ _ Hok) as Hm. clear Hok.
  opt_cases; wire8.
Qed.

Lemma tok_transfer_agrees source destination owner amount :
  sf_tok_transfer source destination owner amount = Some (ref_tok_transfer source destination owner [] amount).
Proof. wire. Qed.

Lemma tok_approve_agrees source delegate owner amount :
  sf_tok_approve source delegate owner amount = Some (ref_tok_approve source delegate owner [] amount).
Proof. wire. Qed.

Lemma tok_revoke_agrees source owner :
  sf_tok_revoke source owner = Some (ref_tok_revoke source owner []).
Proof. wire. Qed.

Lemma tok_set_authority_agrees account current_authority t new_authority :
  sf_tok_set_authority account current_authority t new_authority
  = Some (ref_tok_set_authority account new_authority t current_authority []).
Proof. destruct t; destruct new_authority; wire. Qed.

Lemma tok_mint_to_agrees mint account mint_authority amount :
  sf_tok_mint_to mint account mint_authority amount = Some (ref_tok_mint_to mint account mint_authority [] amount).
Proof. wire. Qed.

Lemma tok_burn_agrees account mint owner amount :
  sf_tok_burn account mint owner amount = Some (ref_tok_burn account mint owner [] amount).
Proof. wire. Qed.

Lemma tok_close_account_agrees account destination owner :
  sf_tok_close_account account destination owner = Some (ref_tok_close_account account destination owner []).
Proof. wire. Qed.

Lemma tok_freeze_account_agrees account mint authority :
  sf_tok_freeze_account account mint authority = Some (ref_tok_freeze_account account mint authority []).
Proof. wire. Qed.

Lemma tok_thaw_account_agrees account mint authority :
  sf_tok_thaw_account account mint authority = Some (ref_tok_thaw_account account mint authority []).
Proof. wire. Qed.

Lemma tok_transfer_checked_agrees source mint destination owner amount decimals :
  is_u8 decimals = true ->
  sf_tok_transfer_checked source mint destination owner amount decimals
  = Some (ref_tok_transfer_checked source mint destination owner [] amount decimals).
Proof. intros Hd; wire8. Qed.

Lemma tok_approve_checked_agrees source mint delegate owner amount decimals :
  is_u8 decimals = true ->
  sf_tok_approve_checked source mint delegate owner amount decimals
  = Some (ref_tok_approve_checked source mint delegate owner [] amount decimals).
Proof. intros Hd; wire8. Qed.

Lemma tok_mint_to_checked_agrees mint account mint_authority amount decimals :
  is_u8 decimals = true ->
  sf_tok_mint_to_checked mint account mint_authority amount decimals
  = Some (ref_tok_mint_to_checked mint account mint_authority [] amount decimals).
Proof. intros Hd; wire8. Qed.

Lemma tok_burn_checked_agrees account mint owner amount decimals :
  is_u8 decimals = true ->
  sf_tok_burn_checked account mint owner amount decimals
  = Some (ref_tok_burn_checked account mint owner [] amount decimals).
Proof. intros Hd; wire8. Qed.

Lemma tok_initialize_account2_agrees account mint rent owner :
  default_or_none rent SF_RENT_ID ->
  sf_tok_initialize_account2 account mint rent owner = Some (ref_tok_initialize_account2 account mint owner).
Proof. intros Hr; opt_cases; wire. Qed.

Lemma tok_sync_native_agrees account :
  sf_tok_sync_native account = Some (ref_tok_sync_native account).
Proof. wire. Qed.

Lemma tok_initialize_account3_agrees account mint owner :
  sf_tok_initialize_account3 account mint owner = Some (ref_tok_initialize_account3 account mint owner).
Proof. wire. Qed.

Lemma tok_initialize_multisig2_agrees multisig signers m ix :
  ref_tok_initialize_multisig2 multisig signers m = Some ix ->
  sf_tok_initialize_multisig2 multisig signers m = Some ix.
Proof.
  unfold ref_tok_initialize_multisig2.
  destruct (ref_multisig_args_ok signers m) eqn:Hok; [|discriminate].
  intros Hix; injection Hix as <-. pose proof (multisig_ok_u8 _ _ Hok) as Hm. clear Hok.
  wire8.
Qed.

Lemma tok_initialize_mint2_agrees mint decimals mint_authority freeze_authority :
  is_u8 decimals = true ->
  sf_tok_initialize_mint2 mint decimals mint_authority freeze_authority
  = Some (ref_tok_initialize_mint2 mint mint_authority freeze_authority decimals).
Proof. intros Hd; destruct freeze_authority; wire8. Qed.

Lemma tok_get_account_data_size_agrees mint :
  sf_tok_get_account_data_size mint = Some (ref_tok_get_account_data_size mint).
Proof. wire. Qed.

Lemma tok_initialize_immutable_owner_agrees account :
  sf_tok_initialize_immutable_owner account = Some (ref_tok_initialize_immutable_owner account).
Proof. wire. Qed.

Lemma tok_amount_to_ui_amount_agrees mint amount :
  sf_tok_amount_to_ui_amount mint amount = Some (ref_tok_amount_to_ui_amount mint amount).
Proof. wire. Qed.

(* the reference builders accept every signer count 1..11 for the two multisig initialisers: the
   hypothesis of the two multisig theorems is inhabited exactly there *)
Lemma ref_multisig_builds multisig signers m :
  (exists ix, ref_tok_initialize_multisig2 multisig signers m = Some ix) <->
  (1 <= m <= 11 /\ 1 <= zlen signers <= 11 /\ m <= zlen signers).
Proof.
  unfold ref_tok_initialize_multisig2, ref_multisig_args_ok, ref_is_valid_signer_index.
  split.
  - intros [ix H].
    destruct ((1 <=? m) && (m <=? 11) && ((1 <=? zlen signers) && (zlen signers <=? 11)) && (m <=? zlen signers)) eqn:E;
      [|discriminate].
    zb. lia.
  - intros (Hm & Hn & Hmn).
    replace ((1 <=? m) && (m <=? 11) && ((1 <=? zlen signers) && (zlen signers <=? 11)) && (m <=? zlen signers)) with true.
    + eexists; reflexivity.
    + symmetry. repeat (apply andb_true_iff; split); apply Z.leb_le; lia.
Qed.

(* Noted limitation (source: "todo: handle multisig with AccountSet enums"): the owner-authorised
   bindings declare `owner: Signer` and no signer tail, so the reference layout with a non-empty
   multisig signer list (authority not a signer, n extra read-only signers) is not expressible. *)
Ltac no_tail :=
  let H := fresh in
  intros Hne H;
  match goal with
  | signers : list key |- _ => destruct signers as [|s0 signers]; [congruence|]
  end;
  apply (f_equal (option_map (fun i => List.length (ix_metas i)))) in H;
  autounfold with refdb in H; cbv - [le_bytes map List.length Z.modulo Z.div] in H;
  cbn [List.length] in H; discriminate H.

Lemma tok_transfer_no_multisig s d o a s' d' o' a' signers :
  signers <> [] -> sf_tok_transfer s d o a <> Some (ref_tok_transfer s' d' o' signers a').
Proof. no_tail. Qed.
Lemma tok_approve_no_multisig s d o a s' d' o' a' signers :
  signers <> [] -> sf_tok_approve s d o a <> Some (ref_tok_approve s' d' o' signers a').
Proof. no_tail. Qed.
Lemma tok_revoke_no_multisig s o s' o' signers :
  signers <> [] -> sf_tok_revoke s o <> Some (ref_tok_revoke s' o' signers).
Proof. no_tail. Qed.
Lemma tok_set_authority_no_multisig a c t n a' c' t' n' signers :
  signers <> [] -> sf_tok_set_authority a c t n <> Some (ref_tok_set_authority a' n' t' c' signers).
Proof. destruct t, n; no_tail. Qed.
Lemma tok_mint_to_no_multisig s d o a s' d' o' a' signers :
  signers <> [] -> sf_tok_mint_to s d o a <> Some (ref_tok_mint_to s' d' o' signers a').
Proof. no_tail. Qed.
Lemma tok_burn_no_multisig s d o a s' d' o' a' signers :
  signers <> [] -> sf_tok_burn s d o a <> Some (ref_tok_burn s' d' o' signers a').
Proof. no_tail. Qed.
Lemma tok_close_account_no_multisig s d o s' d' o' signers :
  signers <> [] -> sf_tok_close_account s d o <> Some (ref_tok_close_account s' d' o' signers).
Proof. no_tail. Qed.
Lemma tok_freeze_account_no_multisig s d o s' d' o' signers :
  signers <> [] -> sf_tok_freeze_account s d o <> Some (ref_tok_freeze_account s' d' o' signers).
Proof. no_tail. Qed.
Lemma tok_thaw_account_no_multisig s d o s' d' o' signers :
  signers <> [] -> sf_tok_thaw_account s d o <> Some (ref_tok_thaw_account s' d' o' signers).
Proof. no_tail. Qed.
Lemma tok_transfer_checked_no_multisig s m d o a c s' m' d' o' a' c' signers :
  signers <> [] -> sf_tok_transfer_checked s m d o a c <> Some (ref_tok_transfer_checked s' m' d' o' signers a' c').
Proof. no_tail. Qed.
Lemma tok_approve_checked_no_multisig s m d o a c s' m' d' o' a' c' signers :
  signers <> [] -> sf_tok_approve_checked s m d o a c <> Some (ref_tok_approve_checked s' m' d' o' signers a' c').
Proof. no_tail. Qed.
Lemma tok_mint_to_checked_no_multisig s d o a c s' d' o' a' c' signers :
  signers <> [] -> sf_tok_mint_to_checked s d o a c <> Some (ref_tok_mint_to_checked s' d' o' signers a' c').
Proof. no_tail. Qed.
Lemma tok_burn_checked_no_multisig s d o a c s' d' o' a' c' signers :
  signers <> [] -> sf_tok_burn_checked s d o a c <> Some (ref_tok_burn_checked s' d' o' signers a' c').
Proof. no_tail. Qed.

(* ============================== Associated Token ============================== *)
Section Pda.
  Variable pda : list (list Z) -> key -> key.

  (* same seed list [wallet, token program, mint] and same program id to the same oracle *)
  Lemma ata_address_agrees wallet mint :
    sf_ata_find_address pda wallet mint = Some (ref_ata_address pda wallet mint).
  Proof. wire. Qed.

  (* any token program the client names (None = the binding's default, the SPL Token id) *)
  Lemma ata_create_agrees funder wallet mint system_program token_program :
    default_or_none system_program SF_SYSTEM_ID ->
    let tp := unwrap_or token_program SF_TOKEN_ID in
    sf_ata_create funder (ref_ata_address_with_program_id pda wallet mint tp) wallet mint system_program token_program
    = Some (ref_ata_create pda funder wallet mint tp).
  Proof. intros Hs; opt_cases; destruct token_program; wire. Qed.

  Lemma ata_create_idempotent_agrees funder wallet mint system_program token_program :
    default_or_none system_program SF_SYSTEM_ID ->
    let tp := unwrap_or token_program SF_TOKEN_ID in
    sf_ata_create_idempotent funder (ref_ata_address_with_program_id pda wallet mint tp) wallet mint system_program token_program
    = Some (ref_ata_create_idempotent pda funder wallet mint tp).
  Proof. intros Hs; opt_cases; destruct token_program; wire. Qed.

  (* with the binding's own address helper for the default token program *)
  Lemma ata_create_with_find_address funder wallet mint a :
    sf_ata_find_address pda wallet mint = Some a ->
    sf_ata_create funder a wallet mint None None = Some (ref_ata_create pda funder wallet mint REF_TOKEN_ID).
  Proof. rewrite ata_address_agrees. intros H; injection H as <-. wire. Qed.

  Lemma ata_recover_nested_agrees wallet owner_mint nested_mint token_program :
    let tp := unwrap_or token_program SF_TOKEN_ID in
    let owner_ata := ref_ata_address_with_program_id pda wallet owner_mint tp in
    let destination_ata := ref_ata_address_with_program_id pda wallet nested_mint tp in
    let nested_ata := ref_ata_address_with_program_id pda owner_ata nested_mint tp in
    sf_ata_recover_nested nested_ata nested_mint destination_ata owner_ata owner_mint wallet token_program
    = Some (ref_ata_recover_nested pda wallet owner_mint nested_mint tp).
  Proof. destruct token_program; wire. Qed.
End Pda.
