(* C16 - wire primitives.  Definitions only (proofs: Wire/WireProofs.v).

   Two families, kept apart on purpose:
   * borsh_*  : what borsh 1.x writes for the argument structs of the star_frame bindings
                (`#[derive(BorshSerialize)]`): integers little endian at their width, `Option<T>` =
                one tag byte then the value, fixed arrays / `Pubkey` = the bytes with no length
                prefix, a unit-only enum = its variant index as one byte, a struct = its fields in
                declaration order.
   * ref_*    : the primitives the reference crates use: `uN::to_le_bytes` (byte i = (n >> 8i) & 0xff),
                bincode 1.x fixint for the System program (u32 variant index, u64, raw 32-byte key),
                the hand-rolled `pack` of spl-token-interface (one tag byte, `pack_pubkey_option`),
                and SPL's COption image (4-byte tag, then the value) used by the account state.     *)
From SF Require Import Base.Prelude.


Definition key := list Z.                      (* a 32-byte public key *)
Definition is_key (k : key) : bool := (length k =? 32)%nat && bytes_ok k.

Definition is_u8 (n : Z) : bool := (0 <=? n) && (n <? 256).
Definition is_u64 (n : Z) : bool := (0 <=? n) && (n <? 18446744073709551616).

Fixpoint bytes_eqb (a b : list Z) : bool :=
  match a, b with
  | [], [] => true
  | x :: a', y :: b' => (x =? y) && bytes_eqb a' b'
  | _, _ => false
  end.

Definition unwrap_or {A} (o : option A) (d : A) : A := match o with Some v => v | None => d end.

(* ---------------------------------------------------------------------------------------------- *)
(* borsh (framework side)                                                                           *)
Definition borsh_u8 (n : Z) : list Z := le_bytes 1 n.
Definition borsh_u16 (n : Z) : list Z := le_bytes 2 n.
Definition borsh_u32 (n : Z) : list Z := le_bytes 4 n.
Definition borsh_u64 (n : Z) : list Z := le_bytes 8 n.
Definition borsh_option {A} (f : A -> list Z) (o : option A) : list Z :=
  match o with
  | None => [0]
  | Some v => 1 :: f v
  end.
Definition borsh_array {A} (f : A -> list Z) (l : list A) : list Z := concat (map f l).
(* Pubkey([u8; 32]): borsh writes a u8 array as the bytes themselves *)
Definition borsh_key (k : key) : list Z := k.
Definition borsh_unit_enum (variant_index : Z) : list Z := borsh_u8 variant_index.

(* ---------------------------------------------------------------------------------------------- *)
(* reference side                                                                                   *)
Definition ref_byte (n i : Z) : Z := Z.land (Z.shiftr n (8 * i)) 255.
Definition ref_u32_le (n : Z) : list Z := map (ref_byte n) [0; 1; 2; 3].
Definition ref_u64_le (n : Z) : list Z := map (ref_byte n) [0; 1; 2; 3; 4; 5; 6; 7].
(* `buf.extend_from_slice(key.as_ref())` / serde of `Address([u8; 32])` under bincode: the bytes *)
Definition ref_key (k : key) : list Z := k.
(* spl-token-interface instruction.rs 713-721 *)
Definition ref_pack_pubkey_option (o : option key) : list Z :=
  match o with
  | Some k => [1] ++ ref_key k
  | None => [0]
  end.

(* `array_refs!` / sub-slices: `len` bytes at offset `off` *)
Definition slice (off len : nat) (l : list Z) : list Z := firstn len (skipn off l).
