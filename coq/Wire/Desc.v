(* C16 - the framework side, generic part: how `MakeInstruction::instruction` (star_frame/src/client.rs
   37-55) turns what a binding DECLARES into a Solana instruction.  The declarations themselves
   (instruction-set enum with its repr discriminants, argument struct fields, account-set fields, all as
   Rust source text) are regenerated from /repo on every run into Gen/Gen_c16.v; this file says what
   each declared type means.  Definitions only.

     data  = bytes_of(&I::DISCRIMINANT) ++ borsh(args)            client.rs 24-35
     metas = for each account-set field, in declaration order,
             <FieldTy as ClientAccountSet>::extend_account_metas   star_frame_proc account_set/struct_impl/mod.rs 515-527 *)
From SF Require Import Base.Prelude Gen.Gen_c16 Wire.Borsh.
From Coq Require Import String.
Open Scope string_scope.
Open Scope list_scope.
Open Scope Z_scope.

Record meta := mkMeta { m_key : key; m_signer : bool; m_writable : bool }.
Record instruction := mkIx { ix_program : key; ix_data : list Z; ix_metas : list meta }.

(* ---------------------------------------------------------------------------------------------- *)
(* argument values, bound to the struct's fields BY NAME (a Rust struct literal); tuple structs use
   the field names "0", "1", ...                                                                    *)
Inductive bval :=
| VU8 (n : Z)
| VU64 (n : Z)
| VKey (k : key)
| VOptKey (o : option key)
| VAuthority (variant : string).       (* a variant of star_frame_spl's AuthorityType, by name *)

Fixpoint index_of (s : string) (l : list string) : option Z :=
  match l with
  | [] => None
  | x :: r => if String.eqb x s then Some 0 else option_map Z.succ (index_of s r)
  end.

Fixpoint lookup {A} (s : string) (l : list (string * A)) : option A :=
  match l with
  | [] => None
  | (n, v) :: r => if String.eqb n s then Some v else lookup s r
  end.

(* borsh of one field of declared Rust type `ty` *)
Definition sf_borsh (ty : string) (v : bval) : option (list Z) :=
  match v with
  | VU8 n => if String.eqb ty "u8" then Some (borsh_u8 n) else None
  | VU64 n => if String.eqb ty "u64" then Some (borsh_u64 n) else None
  | VKey k => if String.eqb ty "Pubkey" then Some (borsh_key k) else None
  | VOptKey o => if String.eqb ty "Option<Pubkey>" then Some (borsh_option borsh_key o) else None
  | VAuthority name =>
      if String.eqb ty "AuthorityType"
      then option_map borsh_unit_enum (index_of name SF_AUTHORITY_TYPE_VARIANTS)
      else None
  end.

(* a struct = its fields in DECLARATION order *)
Fixpoint sf_borsh_fields (fields : list (string * string)) (args : list (string * bval)) : option (list Z) :=
  match fields with
  | [] => Some []
  | (n, ty) :: r =>
      match lookup n args with
      | None => None
      | Some v =>
          match sf_borsh ty v, sf_borsh_fields r args with
          | Some a, Some b => Some (a ++ b)
          | _, _ => None
          end
      end
  end.

Definition sf_borsh_struct (fields : list (string * string)) (args : list (string * bval)) : option (list Z) :=
  if (List.length fields =? List.length args)%nat then sf_borsh_fields fields args else None.

(* ---------------------------------------------------------------------------------------------- *)
(* account sets.  Client-side value of a field: a key, an optional key (Sysvar / Program), or a
   vector of keys (Rest).                                                                            *)
Inductive cval :=
| CKey (k : key)
| COptKey (o : option key)
| CKeys (l : list key).

(* "W<inner>" -> inner *)
Definition unwrap_generic (w ty : string) : option string :=
  let p := String.append w "<" in
  let lt := String.length ty in
  let lp := String.length p in
  if String.prefix p ty && Nat.ltb lp lt && String.eqb (substring (lt - 1) 1 ty) ">"
  then Some (substring lp (lt - lp - 1) ty) else None.

(* SingleSetMeta {signer, writable} of a single-account type:
     AccountInfo            SingleSetMeta::default()                       impls/account_info.rs 16-18
     Signer<T> (T defaults to AccountInfo)  { signer: true, ..T::meta() }  modifiers/signer.rs 28
     Mut<T> = MaybeMut<true, T>             { writable: true, ..T::meta() } modifiers/mutable.rs 21-26 *)
Fixpoint single_meta (fuel : nat) (ty : string) : option (bool * bool) :=
  match fuel with
  | O => None
  | S f =>
      if String.eqb ty "AccountInfo" then Some (false, false)
      else if String.eqb ty "Signer" then option_map (fun sw => (true, snd sw)) (single_meta f "AccountInfo")
      else match unwrap_generic "Mut" ty with
           | Some inner => option_map (fun sw => (fst sw, true)) (single_meta f inner)
           | None =>
               match unwrap_generic "Signer" ty with
               | Some inner => option_map (fun sw => (true, snd sw)) (single_meta f inner)
               | None => None
               end
           end
  end.

(* the derived ClientAccountSet of a single set pushes one meta with the type's flags
   (struct_impl/mod.rs 242-262); Sysvar<T> and Program<T> push `accounts.unwrap_or(id)` read-only
   non-signer (account_set/sysvar.rs 66-81, program.rs 30-42); Rest<T> = Vec<T> pushes each element in
   order (rest.rs 68-82, impls/vec.rs 48-64)                                                          *)
Definition field_metas (ty : string) (c : cval) : option (list meta) :=
  match c with
  | CKey k =>
      match single_meta 8 ty with
      | Some (s, w) => Some [mkMeta k s w]
      | None => None
      end
  | COptKey o =>
      if String.eqb ty "Sysvar<Rent>" then Some [mkMeta (unwrap_or o SF_RENT_ID) false false]
      else if String.eqb ty "Program<System>" then Some [mkMeta (unwrap_or o SF_SYSTEM_ID) false false]
      else if String.eqb ty "Program<Token>" then Some [mkMeta (unwrap_or o SF_TOKEN_ID) false false]
      else None
  | CKeys l =>
      match unwrap_generic "Rest" ty with
      | Some inner =>
          match single_meta 8 inner with
          | Some (s, w) => Some (map (fun k => mkMeta k s w) l)
          | None => None
          end
      | None => None
      end
  end.

Fixpoint sf_metas_fields (fields : list (string * string)) (accts : list (string * cval)) : option (list meta) :=
  match fields with
  | [] => Some []
  | (n, ty) :: r =>
      match lookup n accts with
      | None => None
      | Some c =>
          match field_metas ty c, sf_metas_fields r accts with
          | Some a, Some b => Some (a ++ b)
          | _, _ => None
          end
      end
  end.

Definition sf_metas (fields : list (string * string)) (accts : list (string * cval)) : option (list meta) :=
  if (List.length fields =? List.length accts)%nat then sf_metas_fields fields accts else None.

(* ---------------------------------------------------------------------------------------------- *)
Definition ixdesc : Type := (string * Z * list (string * string) * list (string * string)).

Fixpoint find_ix (name : string) (l : list ixdesc) : option ixdesc :=
  match l with
  | [] => None
  | ((n, d, a, s) as x) :: r => if String.eqb n name then Some x else find_ix name r
  end.

(* None = the model cannot build it (unknown instruction / field / type text): never equal to a
   reference instruction, so a declaration the model does not understand breaks the theorems *)
Definition sf_instruction (pid : key) (repr : Z) (ixs : list ixdesc) (name : string)
           (args : list (string * bval)) (accts : list (string * cval)) : option instruction :=
  match find_ix name ixs with
  | None => None
  | Some (_, disc, afields, sfields) =>
      match sf_borsh_struct afields args, sf_metas sfields accts with
      | Some a, Some ms => Some (mkIx pid (le_bytes (Z.to_nat repr) disc ++ a) ms)
      | _, _ => None
      end
  end.

Definition sf_system := sf_instruction SF_SYSTEM_ID SF_SYSTEM_REPR SF_SYSTEM_IXS.
Definition sf_token := sf_instruction SF_TOKEN_ID SF_TOKEN_REPR SF_TOKEN_IXS.
Definition sf_ata := sf_instruction SF_ATA_ID SF_ATA_REPR SF_ATA_IXS.

(* reference AccountMeta constructors (solana-instruction): new = writable, new_readonly = read-only *)
Definition ref_new (k : key) (is_signer : bool) : meta := mkMeta k is_signer true.
Definition ref_readonly (k : key) (is_signer : bool) : meta := mkMeta k is_signer false.

(* observation of an instruction: 0 pid ndata data nmetas (key signer writable)* ; 1 = not built *)
Definition b2z (b : bool) : Z := if b then 1 else 0.
Definition obs_meta (m : meta) : list Z := m_key m ++ [b2z (m_signer m); b2z (m_writable m)].
Definition obs_ix (o : option instruction) : list Z :=
  match o with
  | None => [1]
  | Some i => [0] ++ ix_program i ++ [zlen (ix_data i)] ++ ix_data i ++ [zlen (ix_metas i)] ++ List.concat (map obs_meta (ix_metas i))
  end.
