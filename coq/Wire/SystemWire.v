(* C16 - System program.  For every instruction bound by star_frame/src/program/system.rs two
   independent functions: sf_sys_* (what the binding declares, through Wire/Desc.v) and ref_sys_*
   (solana-system-interface 2.0.0 src/instruction.rs: the builder's metas and
   `Instruction::new_with_bincode(ID, &SystemInstruction::X{..}, metas)`, bincode 1.x fixint =
   u32 LE variant index of `enum SystemInstruction`, then the fields).  Definitions only.           *)
From SF Require Import Base.Prelude Gen.Gen_c16 Wire.Borsh Wire.Desc.
From Coq Require Import String.
Open Scope string_scope.
Open Scope list_scope.
Open Scope Z_scope.

(* ids as the reference crates spell them (base58 literals decoded by hand once; K compares the
   reference builders' output with these on every run) *)
Definition REF_SYSTEM_ID : key := [0; 0; 0; 0; 0; 0; 0; 0; 0; 0; 0; 0; 0; 0; 0; 0; 0; 0; 0; 0; 0; 0; 0; 0; 0; 0; 0; 0; 0; 0; 0; 0].
(* "SysvarRent111111111111111111111111111111111" *)
Definition REF_RENT_ID : key := [6; 167; 213; 23; 25; 44; 92; 81; 33; 140; 201; 76; 61; 74; 241; 127; 88; 218; 238; 8; 155; 161; 253; 68; 227; 219; 217; 138; 0; 0; 0; 0].
(* "SysvarRecentB1ockHashes11111111111111111111" *)
Definition REF_RECENT_BLOCKHASHES_ID : key := [6; 167; 213; 23; 25; 44; 86; 142; 224; 138; 132; 95; 115; 210; 151; 136; 207; 3; 92; 49; 69; 178; 26; 179; 68; 216; 6; 46; 169; 64; 0; 0].

(* ------------------------------ framework side (system.rs) ------------------------------ *)
(* `rent` : the client value of the Sysvar<Rent> field, None = `rent: None`;
   `rb`   : the key the client passes for `recent_blockhashes: AccountInfo` (the framework offers
            account_set::sysvar::RECENT_BLOCKHASHES_ID for it)                                  *)
Definition sf_sys_create_account (funder new_account : key) (lamports space : Z) (owner : key) :=
  sf_system "CreateAccount" [("lamports", VU64 lamports); ("space", VU64 space); ("owner", VKey owner)]
            [("funder", CKey funder); ("new_account", CKey new_account)].
Definition sf_sys_assign (account owner : key) :=
  sf_system "Assign" [("owner", VKey owner)] [("account", CKey account)].
Definition sf_sys_transfer (funder recipient : key) (lamports : Z) :=
  sf_system "Transfer" [("lamports", VU64 lamports)] [("funder", CKey funder); ("recipient", CKey recipient)].
Definition sf_sys_advance_nonce (nonce rb authority : key) :=
  sf_system "AdvanceNonceAccount" []
            [("nonce_account", CKey nonce); ("recent_blockhashes", CKey rb); ("nonce_authority", CKey authority)].
Definition sf_sys_withdraw_nonce (nonce recipient rb : key) (rent : option key) (authority : key) (lamports : Z) :=
  sf_system "WithdrawNonceAccount" [("0", VU64 lamports)]
            [("nonce_account", CKey nonce); ("recipient", CKey recipient); ("recent_blockhashes", CKey rb);
             ("rent", COptKey rent); ("nonce_authority", CKey authority)].
Definition sf_sys_initialize_nonce (nonce rb : key) (rent : option key) (authority : key) :=
  sf_system "InitializeNonceAccount" [("0", VKey authority)]
            [("nonce_account", CKey nonce); ("recent_blockhashes", CKey rb); ("rent", COptKey rent)].
Definition sf_sys_authorize_nonce (nonce authority new_authority : key) :=
  sf_system "AuthorizeNonceAccount" [("0", VKey new_authority)]
            [("nonce_account", CKey nonce); ("nonce_authority", CKey authority)].
Definition sf_sys_allocate (account : key) (space : Z) :=
  sf_system "Allocate" [("space", VU64 space)] [("account", CKey account)].
Definition sf_sys_upgrade_nonce (nonce : key) :=
  sf_system "UpgradeNonceAccount" [] [("nonce_account", CKey nonce)].

(* ------------------------------ reference side ------------------------------ *)
(* enum SystemInstruction variant indices (instruction.rs 82-254): CreateAccount 0, Assign 1,
   Transfer 2, CreateAccountWithSeed 3, AdvanceNonceAccount 4, WithdrawNonceAccount 5,
   InitializeNonceAccount 6, AuthorizeNonceAccount 7, Allocate 8, AllocateWithSeed 9,
   AssignWithSeed 10, TransferWithSeed 11, UpgradeNonceAccount 12                              *)
Definition ref_bincode_variant (i : Z) : list Z := ref_u32_le i.

(* instruction.rs 408-429 *)
Definition ref_sys_create_account (from to : key) (lamports space : Z) (owner : key) : instruction :=
  mkIx REF_SYSTEM_ID (ref_bincode_variant 0 ++ ref_u64_le lamports ++ ref_u64_le space ++ ref_key owner)
       [ref_new from true; ref_new to true].
(* 623-630 *)
Definition ref_sys_assign (pubkey owner : key) : instruction :=
  mkIx REF_SYSTEM_ID (ref_bincode_variant 1 ++ ref_key owner) [ref_new pubkey true].
(* 817-823 *)
Definition ref_sys_transfer (from to : key) (lamports : Z) : instruction :=
  mkIx REF_SYSTEM_ID (ref_bincode_variant 2 ++ ref_u64_le lamports) [ref_new from true; ref_new to false].
(* 1480-1488 *)
Definition ref_sys_advance_nonce (nonce authorized : key) : instruction :=
  mkIx REF_SYSTEM_ID (ref_bincode_variant 4)
       [ref_new nonce false; ref_readonly REF_RECENT_BLOCKHASHES_ID false; ref_readonly authorized true].
(* 1563-1583 *)
Definition ref_sys_withdraw_nonce (nonce authorized to : key) (lamports : Z) : instruction :=
  mkIx REF_SYSTEM_ID (ref_bincode_variant 5 ++ ref_u64_le lamports)
       [ref_new nonce false; ref_new to false; ref_readonly REF_RECENT_BLOCKHASHES_ID false;
        ref_readonly REF_RENT_ID false; ref_readonly authorized true].
(* second instruction of create_nonce_account, 1345-1356 (no stand-alone builder exists) *)
Definition ref_sys_initialize_nonce (nonce authority : key) : instruction :=
  mkIx REF_SYSTEM_ID (ref_bincode_variant 6 ++ ref_key authority)
       [ref_new nonce false; ref_readonly REF_RECENT_BLOCKHASHES_ID false; ref_readonly REF_RENT_ID false].
(* 1646-1661 *)
Definition ref_sys_authorize_nonce (nonce authorized new_authority : key) : instruction :=
  mkIx REF_SYSTEM_ID (ref_bincode_variant 7 ++ ref_key new_authority)
       [ref_new nonce false; ref_readonly authorized true].
(* 1015-1018 *)
Definition ref_sys_allocate (pubkey : key) (space : Z) : instruction :=
  mkIx REF_SYSTEM_ID (ref_bincode_variant 8 ++ ref_u64_le space) [ref_new pubkey true].
(* 1665-1668 *)
Definition ref_sys_upgrade_nonce (nonce : key) : instruction :=
  mkIx REF_SYSTEM_ID (ref_bincode_variant 12) [ref_new nonce false].
