(* C16 - Associated Token Account program.  sf_ata_* = star_frame_spl/src/associated_token.rs
   (find_address 27-37, instructions module 146-232); ref_ata_* =
   spl-associated-token-account-interface 2.0.0 (address.rs, instruction.rs).  Definitions only.

   The program-derived-address function (SHA-256 of seeds ++ bump ++ program id ++ marker, rejected
   while on the ed25519 curve) is NOT modelled: both sides call solana-pubkey's
   `Pubkey::find_program_address`, here the Section variable `pda seeds program_id`.  What is
   compared is what each side hands to it.                                                          *)
From SF Require Import Base.Prelude Gen.Gen_c16 Wire.Borsh Wire.Desc Wire.SystemWire Wire.TokenWire.
From Coq Require Import String.
Open Scope string_scope.
Open Scope list_scope.
Open Scope Z_scope.

(* "ATokenGPvbdGVxr1b2hvZbsiqW5xWH25efTNsLJA8knL" (lib.rs 10) *)
Definition REF_ATA_ID : key := [140; 151; 37; 143; 78; 36; 137; 241; 187; 61; 16; 41; 20; 142; 13; 131; 11; 90; 19; 153; 218; 255; 16; 132; 4; 142; 123; 216; 219; 233; 248; 89].

Section Pda.
  Variable pda : list (list Z) -> key -> key.     (* fst (Pubkey::find_program_address seeds program_id) *)

  (* ------------------------------ framework side ------------------------------ *)
  (* the seed expressions of find_address_with_bump, as written in the source (Gen_c16.SF_ATA_SEEDS) *)
  Definition sf_seed_expr (wallet mint : key) (e : string) : option (list Z) :=
    if String.eqb e "wallet.as_ref()" then Some wallet
    else if String.eqb e "Token::ID.as_ref()" then Some SF_TOKEN_ID
    else if String.eqb e "mint.pubkey().as_ref()" then Some mint
    else None.

  Fixpoint sf_seed_exprs (wallet mint : key) (es : list string) : option (list (list Z)) :=
    match es with
    | [] => Some []
    | e :: r =>
        match sf_seed_expr wallet mint e, sf_seed_exprs wallet mint r with
        | Some s, Some ss => Some (s :: ss)
        | _, _ => None
        end
    end.

  (* AssociatedToken::find_address *)
  Definition sf_ata_find_address (wallet mint : key) : option key :=
    option_map (fun seeds => pda seeds SF_ATA_ID) (sf_seed_exprs wallet mint SF_ATA_SEEDS).

  Definition sf_ata_create_accounts (funder token_account wallet mint : key) (system_program token_program : option key) :=
    [("funder", CKey funder); ("token_account", CKey token_account); ("wallet", CKey wallet); ("mint", CKey mint);
     ("system_program", COptKey system_program); ("token_program", COptKey token_program)].
  Definition sf_ata_create (funder token_account wallet mint : key) (system_program token_program : option key) :=
    sf_ata "Create" [] (sf_ata_create_accounts funder token_account wallet mint system_program token_program).
  Definition sf_ata_create_idempotent (funder token_account wallet mint : key) (system_program token_program : option key) :=
    sf_ata "CreateIdempotent" [] (sf_ata_create_accounts funder token_account wallet mint system_program token_program).
  Definition sf_ata_recover_nested (nested_ata nested_mint destination_ata owner_ata owner_mint wallet : key) (token_program : option key) :=
    sf_ata "RecoverNested" []
           [("nested_ata", CKey nested_ata); ("nested_mint", CKey nested_mint); ("destination_ata", CKey destination_ata);
            ("owner_ata", CKey owner_ata); ("owner_mint", CKey owner_mint); ("wallet", CKey wallet);
            ("token_program", COptKey token_program)].

  (* ------------------------------ reference side ------------------------------ *)
  (* address.rs 49-72: seeds [wallet, token_program_id, token_mint], program id = crate::program::id() *)
  Definition ref_ata_address_with_program_id (wallet mint token_program : key) : key :=
    pda [ref_key wallet; ref_key token_program; ref_key mint] REF_ATA_ID.
  (* address.rs 27-38: with inline_spl_token::ID *)
  Definition ref_ata_address (wallet mint : key) : key := ref_ata_address_with_program_id wallet mint REF_TOKEN_ID.

  (* instruction.rs 63-88 *)
  Definition ref_ata_build (funding wallet mint token_program : key) (tag : Z) : instruction :=
    mkIx REF_ATA_ID [tag]
         [ref_new funding true;
          ref_new (ref_ata_address_with_program_id wallet mint token_program) false;
          ref_readonly wallet false;
          ref_readonly mint false;
          ref_readonly REF_SYSTEM_ID false;
          ref_readonly token_program false].
  Definition ref_ata_create (funding wallet mint token_program : key) := ref_ata_build funding wallet mint token_program 0.
  Definition ref_ata_create_idempotent (funding wallet mint token_program : key) := ref_ata_build funding wallet mint token_program 1.
  (* instruction.rs 124-158 *)
  Definition ref_ata_recover_nested (wallet owner_mint nested_mint token_program : key) : instruction :=
    let owner_ata := ref_ata_address_with_program_id wallet owner_mint token_program in
    let destination_ata := ref_ata_address_with_program_id wallet nested_mint token_program in
    let nested_ata := ref_ata_address_with_program_id owner_ata nested_mint token_program in
    mkIx REF_ATA_ID [2]
         [ref_new nested_ata false;
          ref_readonly nested_mint false;
          ref_new destination_ata false;
          ref_readonly owner_ata false;
          ref_readonly owner_mint false;
          ref_new wallet true;
          ref_readonly token_program false].
End Pda.
