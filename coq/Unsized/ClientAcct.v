(* C05 - the client-side account helpers (star_frame/src/client.rs): SerializeAccount::serialize_account writes the
   discriminant and then the serialization of the value; DeserializeAccount::deserialize_account first compares the
   discriminant prefix (check_discriminant) and REJECTS data whose discriminant differs, then deserializes the rest.
   The account types of the harness (harness/src/bin/vh_c08.rs) hold one List<u8> (u32 length prefix). *)
From SF Require Import Base.Prelude Gen.Generated Unsized.SizedInit.

Definition body_ser (bs : list Z) : list Z := le_bytes 4 (zlen bs) ++ bs.

Definition client_ser (d bs : list Z) : list Z := d ++ body_ser bs.

(* None = rejected *)
Definition client_de (d data : list Z) : option (list Z) :=
  if zlist_eqb (firstn (length d) data) d then
    let p := skipn (length d) data in
    if (length p <? 4)%nat then None
    else if le_decode (firstn 4 p) =? zlen (skipn 4 p) then Some (skipn 4 p) else None
  else None.

(* c05c case: w :: d(w) :: n :: value(n) :: len :: data(len)
   observation: the serialized account (length, bytes), then 1 (rejected) or 0 :: count :: items *)
Definition run_c05c (input : list Z) : list Z :=
  match input with
  | w :: r0 =>
      let d := firstn (Z.to_nat w) r0 in
      match skipn (Z.to_nat w) r0 with
      | n :: r1 =>
          let v := firstn (Z.to_nat n) r1 in
          match skipn (Z.to_nat n) r1 with
          | len :: r2 =>
              let data := firstn (Z.to_nat len) r2 in
              let s := client_ser d v in
              [zlen s] ++ s ++
              match client_de d data with
              | Some bs => 0 :: zlen bs :: bs
              | None => [1]
              end
          | _ => []
          end
      | _ => []
      end
  | _ => []
  end.
