(* The universe of unsized type shapes, their owned values, canonical encoding (= FromOwned),
   byte size, and well-formedness.  No proofs in this file.

   Sources: star_frame/src/unsize/impls/{checked,list,remaining_bytes,unsized_list,unsized_map}.rs,
   star_frame_proc/src/unsize/{struct_impl,enum_impl}.rs (from_owned_impl), account.rs
   (AccountDiscriminant = a fixed prefix, modelled as a leading TFixed field of a struct). *)
From SF Require Import Base.Prelude.

(* bit-pattern checks of a fixed-size (CheckedBitPattern + NoUninit + Align1) value *)
Inductive fcheck :=
| FAny (n : nat)                 (* n bytes, any bit pattern: u8, PackedValue<uN>, [u8;N], Pubkey *)
| FBool                          (* 1 byte, 0 or 1 *)
| FDisc (ds : list Z)            (* 1 byte, a unit-only #[repr(u8)] enum with these discriminants *)
| FStruct (fs : list fcheck).    (* packed struct: the generated sized part, Map's ListItemSized *)

Fixpoint fsize (c : fcheck) : nat :=
  match c with
  | FAny n => n
  | FBool => 1
  | FDisc _ => 1
  | FStruct fs => (fix go fs := match fs with [] => O | f :: r => (fsize f + go r)%nat end) fs
  end.

Fixpoint fvalid (c : fcheck) (bs : list Z) {struct c} : bool :=
  match c with
  | FAny n => true
  | FBool => match bs with [b] => (b =? 0) || (b =? 1) | _ => false end
  | FDisc ds => match bs with [b] => existsb (Z.eqb b) ds | _ => false end
  | FStruct fs =>
      (fix go fs bs :=
         match fs with
         | [] => true
         | f :: r => fvalid f (firstn (fsize f) bs) && go r (skipn (fsize f) bs)
         end) fs bs
  end.

Inductive ty :=
| TFixed (c : fcheck)
| TList (c : fcheck) (lw : nat)          (* List<T, L>: lw-byte LE length prefix, then items *)
| TRem                                   (* RemainingBytes *)
| TUList (item : ty) (ksz : nat)         (* UnsizedList<T, C>; ksz = size of the key stored beside each offset (0 = plain) *)
| TStruct (fs : list ty)
| TEnum (rw : nat) (vs : list (Z * ty)). (* integer repr of rw bytes; a unit variant has payload TStruct [] *)

Inductive val :=
| VBytes (bs : list Z)                   (* TFixed, TRem *)
| VList (items : list (list Z))          (* TList *)
| VUList (items : list (list Z * val))   (* TUList: (key bytes, element) *)
| VStruct (fs : list val)
| VEnum (d : Z) (p : val).

(* offsets of consecutive elements of the given sizes, starting at base *)
Fixpoint offsets_from (base : Z) (sizes : list Z) : list Z :=
  match sizes with
  | [] => []
  | s :: r => base :: offsets_from (base + s) r
  end.

Fixpoint find_variant (d : Z) (vs : list (Z * ty)) : option ty :=
  match vs with
  | [] => None
  | (d', t) :: r => if d =? d' then Some t else find_variant d r
  end.

Definition offset_entries (offs : list Z) (keys : list (list Z)) : list (list Z) :=
  map (fun ok => le_bytes 4 (fst ok) ++ snd ok) (combine offs keys).

Fixpoint encode (t : ty) (v : val) {struct t} : list Z :=
  match t, v with
  | TFixed c, VBytes bs => bs
  | TList c lw, VList items => le_bytes lw (zlen items) ++ concat items
  | TRem, VBytes bs => bs
  | TUList it k, VUList items =>
      let encs := map (fun kv => encode it (snd kv)) items in
      let sizes := map zlen encs in
      le_bytes 4 (zsum sizes) ++ le_bytes 4 (zlen items)
      ++ concat (offset_entries (offsets_from 0 sizes) (map fst items))
      ++ le_bytes 4 (zlen items) ++ concat encs
  | TStruct ts, VStruct vs =>
      (fix go ts vs :=
         match ts, vs with
         | t :: ts', v :: vs' => encode t v ++ go ts' vs'
         | _, _ => []
         end) ts vs
  | TEnum rw vars, VEnum d p =>
      le_bytes rw d ++
      (fix go vars :=
         match vars with
         | [] => []
         | (d', t) :: r => if d =? d' then encode t p else go r
         end) vars
  | _, _ => []
  end.

(* FromOwned::byte_size, computed from the value as the Rust code does *)
Fixpoint byte_size (t : ty) (v : val) {struct t} : Z :=
  match t, v with
  | TFixed c, VBytes bs => Z.of_nat (fsize c)
  | TList c lw, VList items => Z.of_nat lw + Z.of_nat (fsize c) * zlen items
  | TRem, VBytes bs => zlen bs
  | TUList it k, VUList items =>
      4 + 4 + zlen items * (4 + Z.of_nat k) + 4 + zsum (map (fun kv => byte_size it (snd kv)) items)
  | TStruct ts, VStruct vs =>
      (fix go ts vs :=
         match ts, vs with
         | t :: ts', v :: vs' => byte_size t v + go ts' vs'
         | _, _ => 0
         end) ts vs
  | TEnum rw vars, VEnum d p =>
      Z.of_nat rw +
      (fix go vars :=
         match vars with
         | [] => 0
         | (d', t) :: r => if d =? d' then byte_size t p else go r
         end) vars
  | _, _ => 0
  end.

Fixpoint strictly_ascending (l : list Z) : bool :=
  match l with
  | a :: ((b :: _) as r) => (a <? b) && strictly_ascending r
  | _ => true
  end.

Definition U32_LIMIT : Z := 4294967296.
Definition U64_LIMIT : Z := 18446744073709551616.

(* well-formed owned values: what the Rust types can hold and FromOwned can serialise *)
Fixpoint wf (t : ty) (v : val) {struct t} : bool :=
  match t, v with
  | TFixed c, VBytes bs => (length bs =? fsize c)%nat && bytes_ok bs && fvalid c bs
  | TList c lw, VList items =>
      (zlen items <? 256 ^ Z.of_nat lw) && (Z.of_nat (fsize c) * zlen items <? U64_LIMIT) &&
      forallb (fun it => (length it =? fsize c)%nat && bytes_ok it && fvalid c it) items
  | TRem, VBytes bs => bytes_ok bs
  | TUList it k, VUList items =>
      (zlen items <? U32_LIMIT) &&
      (zsum (map (fun kv => byte_size it (snd kv)) items) <? U32_LIMIT) &&
      ((k =? 0)%nat || strictly_ascending (map (fun kv => le_decode (fst kv)) items)) &&   (* UnsizedMap: a BTreeMap *)
      forallb (fun kv => (length (fst kv) =? k)%nat && bytes_ok (fst kv) && wf it (snd kv)) items
  | TStruct ts, VStruct vs =>
      (fix go ts vs :=
         match ts, vs with
         | [], [] => true
         | t :: ts', v :: vs' => wf t v && go ts' vs'
         | _, _ => false
         end) ts vs
  | TEnum rw vars, VEnum d p =>
      (0 <=? d) && (d <? 256 ^ Z.of_nat rw) &&
      (fix go vars :=
         match vars with
         | [] => false
         | (d', t) :: r => if d =? d' then wf t p else go r
         end) vars
  | _, _ => false
  end.

(* Shapes the macros accept: RemainingBytes (the only possibly zero-sized, consume-everything type)
   may only occur in tail position (`last`): the ZST_STATUS rule of unsize/mod.rs and struct_impl.rs *)
Fixpoint ty_ok (last : bool) (t : ty) {struct t} : bool :=
  match t with
  | TFixed c => negb (fsize c =? 0)%nat
  | TList c lw => negb (lw =? 0)%nat && (lw <=? 8)%nat && negb (fsize c =? 0)%nat
  | TRem => last
  | TUList it k => ty_ok false it
  | TStruct ts =>
      (fix go ts :=
         match ts with
         | [] => true
         | [t] => ty_ok last t
         | t :: r => ty_ok false t && go r
         end) ts
  | TEnum rw vs =>
      negb (rw =? 0)%nat && (rw <=? 8)%nat &&
      (fix go vs := match vs with [] => true | (_, t) :: r => ty_ok last t && go r end) vs
  end.

(* every fixed-size leaf of a value has a valid bit pattern (bool in {0,1}, declared enum discriminant ...) *)
Fixpoint valid_bits (t : ty) (v : val) {struct t} : bool :=
  match t, v with
  | TFixed c, VBytes bs => fvalid c bs
  | TList c lw, VList items => forallb (fvalid c) items
  | TRem, VBytes _ => true
  | TUList it k, VUList items => forallb (fun kv => valid_bits it (snd kv)) items
  | TStruct ts, VStruct vs =>
      (fix go ts vs :=
         match ts, vs with
         | [], [] => true
         | t :: ts', v :: vs' => valid_bits t v && go ts' vs'
         | _, _ => false
         end) ts vs
  | TEnum rw vars, VEnum d p =>
      (fix go vars :=
         match vars with
         | [] => false
         | (d', t) :: r => if d =? d' then valid_bits t p else go r
         end) vars
  | _, _ => false
  end.
