(* Non-default initializers in the refinement theory.
   The history theorems up to Enums.v create elements with the DEFAULT initializer only (kind 0).  The faithful model
   (Ops.init_size / Ops.init_bytes) also has the non-default initializers of the harness: for List<T, L> an array of 3
   (kind 1) or 300 (kind 2) all-ones items - which fails with E_TOPRIM when the count does not fit the length prefix -
   and for RemainingBytes the bytes [1; 1; 1] (kind 1); every other shape ignores the kind.  The dispatcher Run.exec
   issues them through three op codes: 30 (UnsizedList insert with an initializer), 71 (set_from_init at any node) and
   50 (UnsizedMap insert, both branches).
   1. `ival it kind`: the value the initializer of kind `kind` creates at a target of shape `it`, with the three facts
      the parametric theorems (UInsert.ulist_insert_general, SetData.set_data_general) ask for.
   2. The kind-generalised UnsizedMap insert (absent key and existing key).
   3. Three operations on top of Enums.zop, one step theorem, one history theorem.
   4. The dispatcher on the op codes of the new operations is descent + operation (mstepK).
   5. A concrete history. *)
From SF Require Import Base.Prelude Gen.Generated Unsized.Types Unsized.Parse Unsized.Machine Unsized.Ops Unsized.Run.
From SF Require Import Unsized.Proofs.EncodeParse Unsized.Proofs.Mem Unsized.Proofs.Notify Unsized.Proofs.Flat Unsized.Proofs.Layout
  Unsized.Proofs.Observe Unsized.Proofs.Table Unsized.Proofs.Path Unsized.Proofs.Context Unsized.Proofs.Context2 Unsized.Proofs.Focus
  Unsized.Proofs.Pos Unsized.Proofs.FocusOps Unsized.Proofs.NotifyInside Unsized.Proofs.Resize Unsized.Proofs.GenOps
  Unsized.Proofs.GenOps2 Unsized.Proofs.Init Unsized.Proofs.UInsert Unsized.Proofs.URemove Unsized.Proofs.History
  Unsized.Proofs.History2 Unsized.Proofs.NotifyInside2 Unsized.Proofs.SetData Unsized.Proofs.Keyed Unsized.Proofs.ExecTie
  Unsized.Proofs.ExecTie2 Unsized.Proofs.History3.
From SF Require Import Unsized.Proofs.EnumFacts.
From SF Require Import Unsized.Proofs.History4 Unsized.Proofs.Enums.

Arguments Z.add : simpl never.
Arguments Z.sub : simpl never.
Arguments Z.mul : simpl never.
Arguments Z.of_nat : simpl never.
Arguments Z.pow : simpl never.
Arguments Z.modulo : simpl never.

(* ---------------------------------------------------------------------------------------------- *)
(* 1. the value an initializer creates                                                             *)

(* List: n all-ones items when n fits the length prefix (n = 3 / 300 / 0 for kind 1 / 2 / anything else);
   RemainingBytes: [1; 1; 1] for kind 1, empty otherwise; every other shape: the default value, when the all-zero
   pattern is valid for it *)
Definition ival (it : ty) (kind : Z) : option val :=
  match it with
  | TList c lw =>
      if 256 ^ Z.of_nat lw <=? list_init_count kind then None
      else Some (VList (repeat (repeat 1 (fsize c)) (Z.to_nat (list_init_count kind))))
  | TRem => Some (VBytes (if kind =? 1 then [1; 1; 1] else []))
  | _ => if zero_ok it then Some (dflt it) else None
  end.

(* the side condition of well-formedness.  Whether the bytes the initializer writes are a WELL-FORMED value is not
   decided by the shape alone in one case: the all-ones item has to be a valid bit pattern of the item type (true of
   FAny, FBool, of FDisc only if 1 is one of the discriminants), and the body has to stay below 2^64 bytes.  Both hold
   of every shape of the harness family; nothing is asked of the other shapes. *)
Definition ones_ok (it : ty) (kind : Z) : bool :=
  match it with
  | TList c lw =>
      (list_init_count kind =? 0)
      || (fvalid c (repeat 1 (fsize c)) && (Z.of_nat (fsize c) * list_init_count kind <? U64_LIMIT))
  | _ => true
  end.

Lemma list_init_count_nonneg kind : 0 <= list_init_count kind.
Proof. unfold list_init_count. destruct (kind =? 1); [lia|]. destruct (kind =? 2); lia. Qed.

Lemma forallb_repeat {A} (f : A -> bool) x n : f x = true -> forallb f (repeat x n) = true.
Proof. intros H. induction n as [|n IH]; [reflexivity|]. cbn [repeat forallb]. now rewrite H, IH. Qed.

(* only List and RemainingBytes look at the kind *)
Lemma init_kind_ignored it kind :
  match it with TList _ _ | TRem => False | _ => True end ->
  init_bytes it kind = init_bytes it 0 /\ init_size it kind = init_size it 0.
Proof. destruct it; intros H; try contradiction; split; reflexivity. Qed.

(* the bytes and the announced size: no side condition *)
Lemma ival_init_bytes it kind dv : ival it kind = Some dv ->
  init_bytes it kind = Ok (encode it dv) /\ init_size it kind = zlen (encode it dv).
Proof.
  intros H.
  assert (Hd : match it with TList _ _ | TRem => False | _ => True end ->
               (if zero_ok it then Some (dflt it) else None) = Some dv ->
               init_bytes it kind = Ok (encode it dv) /\ init_size it kind = zlen (encode it dv)).
  { intros Hk H0. destruct (zero_ok it) eqn:Hz; [|discriminate]. injection H0 as <-.
    destruct (init_kind_ignored it kind Hk) as [-> ->].
    destruct (init_default_exact it (plain_all it) Hz) as (A & B & _). auto. }
  destruct it as [c|c lw| |it0 k|ts|rw vs]; cbn [ival] in H; try (apply Hd; [exact I|exact H]).
  - destruct (256 ^ Z.of_nat lw <=? list_init_count kind) eqn:E; [discriminate|]. injection H as <-. zb.
    exact (proj1 (init_list_gen c lw kind _ eq_refl (list_init_count_nonneg kind)) ltac:(lia)).
  - injection H as <-. cbn [init_bytes init_size encode]. destruct (kind =? 1); auto.
Qed.

(* the value is well-formed *)
Lemma ival_wf it kind dv : ival it kind = Some dv -> ones_ok it kind = true -> wf it dv = true.
Proof.
  intros H Ho.
  assert (Hd : (if zero_ok it then Some (dflt it) else None) = Some dv -> wf it dv = true).
  { intros H0. destruct (zero_ok it) eqn:Hz; [|discriminate]. injection H0 as <-.
    exact (proj2 (proj2 (init_default_exact it (plain_all it) Hz))). }
  destruct it as [c|c lw| |it0 k|ts|rw vs]; cbn [ival] in H; try (apply Hd; exact H).
  - destruct (256 ^ Z.of_nat lw <=? list_init_count kind) eqn:E; [discriminate|]. injection H as <-. zb.
    pose proof (list_init_count_nonneg kind) as Hn. set (n := list_init_count kind) in *.
    cbn [wf]. rewrite zlen_repeat, Z2Nat.id by lia.
    apply Z.ltb_lt in E. rewrite E. cbn [andb]. cbn [ones_ok] in Ho. fold n in Ho.
    apply orb_true_iff in Ho as [Ho|Ho].
    + zb. rewrite Ho. change (Z.to_nat 0) with O. cbn [repeat forallb]. rewrite Z.mul_0_r. reflexivity.
    + apply andb_true_iff in Ho as [Hv Hm]. rewrite Hm. cbn [andb].
      apply forallb_repeat. rewrite repeat_length, Nat.eqb_refl, bytes_ok_repeat, Hv by reflexivity. reflexivity.
  - injection H as <-. cbn [wf]. destruct (kind =? 1); reflexivity.
Qed.

(* the three facts the parametric theorems take as hypotheses *)
Lemma ival_init it kind dv : ival it kind = Some dv -> ones_ok it kind = true ->
  init_bytes it kind = Ok (encode it dv) /\ init_size it kind = zlen (encode it dv) /\ wf it dv = true.
Proof.
  intros H Ho. destruct (ival_init_bytes it kind dv H) as [A B].
  split; [exact A|]. split; [exact B|]. exact (ival_wf it kind dv H Ho).
Qed.

(* for a List `ival` is undefined exactly when the initializer fails *)
Lemma ival_none_fails c lw kind : ival (TList c lw) kind = None -> init_bytes (TList c lw) kind = Err E_TOPRIM.
Proof.
  intros H. cbn [ival] in H. destruct (256 ^ Z.of_nat lw <=? list_init_count kind) eqn:E; [|discriminate]. zb.
  exact (proj2 (init_list_gen c lw kind _ eq_refl (list_init_count_nonneg kind)) E).
Qed.

Lemma ival_list_some_iff c lw kind :
  (exists dv, ival (TList c lw) kind = Some dv) <-> list_init_count kind < 256 ^ Z.of_nat lw.
Proof.
  cbn [ival]. destruct (256 ^ Z.of_nat lw <=? list_init_count kind) eqn:E; zb; split.
  - intros [dv H]. discriminate.
  - lia.
  - intros _. exact E.
  - intros _. eexists. reflexivity.
Qed.

(* kind 0 is the default initializer *)
Lemma ival_default it : zero_ok it = true -> ival it 0 = Some (dflt it).
Proof.
  intros Hz. destruct it as [c|c lw| |it0 k|ts|rw vs]; cbn [ival]; try (rewrite Hz; reflexivity).
  - change (list_init_count 0) with 0. pose proof (pow256_pos lw) as Hp.
    destruct (256 ^ Z.of_nat lw <=? 0) eqn:E; [zb; lia|]. reflexivity.
  - reflexivity.
Qed.

(* ---------------------------------------------------------------------------------------------- *)
(* 2. UnsizedMap::insert with any initializer (Keyed.umap_insert_absent and History4.umap_insert_present are stated
      for the default initializer; their proofs use only the three facts above)                      *)
Section umap_kind.
  Variables (pi : list step) (t : ty) (v : val) (it : ty) (k : nat) (items : list (list Z * val)) (key kind : Z) (dv : val).
  Hypothesis Hres : resolve t v (pi ++ [SF 0]) = Some (TUList it k, VUList items).
  Hypothesis Hk : k <> 0%nat.
  Hypothesis Hinit : init_bytes it kind = Ok (encode it dv).
  Hypothesis Hisz : init_size it kind = zlen (encode it dv).
  Hypothesis Hdv : wf it dv = true.

  (* the key is absent: (key, dv) is inserted at the lower bound, the runner reports [1] *)
  Theorem umap_insert_absent_k ovf s top idx :
    RepF (pi ++ [SF 0]) t v s top -> 0 <= key < 256 ^ Z.of_nat k ->
    lower_bound (ukeys items) key 0 = (idx, false) ->
    m_refuse s <> 1 -> m_len s + (zlen (encode it dv) + (4 + Z.of_nat k)) <= m_cap s ->
    let items' := firstn (Z.to_nat idx) items ++ (le_bytes k key, dv) :: skipn (Z.to_nat idx) items in
    exists s' top',
      umap_insert_op ovf t s top (mpath pi) it k key kind = Ok (s', top', [1]) /\
      RepF (pi ++ [SF 0]) t (plug t v (pi ++ [SF 0]) (VUList items')) s' top' /\
      m_cap s' = m_cap s /\ m_refuse s' = m_refuse s /\
      strictly_ascending (ukeys items') = true.
  Proof.
    intros R Hkey Hlb Hnr Hroom items'. pose proof (umap_sorted pi t v it k items Hres Hk s top R) as Hsa.
    destruct (umap_prefix pi t v it k items Hres s top R) as (inner & pmb & rs & re & Hsub & Hkeys).
    destruct (lower_bound_range _ _ _ _ Hsa Hlb) as [Hidx _]. unfold ukeys in Hidx. rewrite zlen_map in Hidx.
    pose proof R as [Hpl Hok Hwf [junk Hmem] Hlen HL Hc32].
    pose proof (resolve_wf _ _ _ _ _ Hwf Hres) as HwU.
    pose proof (ulist_facts _ _ _ HwU) as F. pose proof (zlen_encode_ulist _ _ _ F) as HzX.
    pose proof (uf_n _ _ _ F) as Hn. pose proof (uf_usz _ _ _ F) as Hu.
    set (dsz := zlen (encode it dv)) in *. pose proof (zlen_nonneg (encode it dv)) as Hd0. fold dsz in Hd0.
    assert (Hin : zlen (encode (TUList it k) (VUList items)) <= m_len s).
    { rewrite Hlen, (hctx_encode _ _ _ _ _ Hres), !zlen_app.
      pose proof (zlen_nonneg (fst (hctx t v (pi ++ [SF 0]) 0))). pose proof (zlen_nonneg (snd (hctx t v (pi ++ [SF 0]) 0))). lia. }
    assert (Hsa' : strictly_ascending (ukeys items') = true).
    { unfold items', ukeys. rewrite map_insert_at. cbn [fst]. rewrite le_decode_le_bytes by exact Hkey.
      apply sa_insert; assumption. }
    assert (Hszs : map (fun kv => byte_size it (snd kv)) items = usizes it items).
    { unfold usizes, uenc. rewrite map_map. symmetry. apply map_ext_in. intros kv Hkv. apply encode_size.
      pose proof (uf_wfs _ _ _ F) as W. rewrite forallb_forall in W. exact (W _ Hkv). }
    assert (Hwf' : wf (TUList it k) (VUList items') = true).
    { pose proof HwU as W. cbn [wf] in W. apply andb_true_iff in W as [_ Hit].
      cbn [wf]. fold (ukeys items'). rewrite Hsa', orb_true_r, andb_true_r.
      assert (Hn' : zlen items' = zlen items + 1).
      { unfold items'. rewrite zlen_app, zlen_cons. unfold zlen. rewrite firstn_length, skipn_length. unfold zlen in Hidx. lia. }
      assert (Hs' : zsum (map (fun kv => byte_size it (snd kv)) items') = zsum (usizes it items) + dsz).
      { unfold items'. rewrite map_app, zsum_app. cbn [map zsum snd]. rewrite <- Hszs.
        rewrite (zsum_map_split _ items (Z.to_nat idx)), <- (encode_size _ _ Hdv). fold dsz. lia. }
      rewrite Hn', Hs'.
      destruct (zlen items + 1 <? U32_LIMIT) eqn:Ea; [|zb; unfold U32_LIMIT in *; nia].
      destruct (zsum (usizes it items) + dsz <? U32_LIMIT) eqn:Eb; [|zb; unfold U32_LIMIT in *; nia].
      cbn [andb]. apply forallb_insert_at; [exact Hit|]. cbn [fst snd].
      rewrite le_bytes_length, Nat.eqb_refl, le_bytes_ok, Hdv. reflexivity. }
    destruct (ulist_insert_general (pi ++ [SF 0]) t v it k items idx kind [le_bytes k key] dv Hres Hinit Hisz Hidx
                ltac:(constructor; [apply le_bytes_length|constructor]) ltac:(discriminate) Hwf' s top R Hnr)
      as (s' & top' & Hins & R' & Hcap & Href).
    { change (zlen [le_bytes k key]) with 1. fold dsz. lia. }
    exists s', top'. split; [|split; [exact R'|split; [exact Hcap|split; [exact Href|exact Hsa']]]].
    unfold umap_insert_op. rewrite Hsub. cbn [obind]. rewrite Hkeys. cbn [obind]. rewrite Hlb.
    rewrite mpath_snoc.  rewrite Hins. reflexivity.
  Qed.

  (* the key is present at idx: get_unsized_range(idx), get_mut(idx), then set_from_init on the element; the key stays,
     the runner reports [0] *)
  Theorem umap_insert_present_k ovf s top idx :
    RepF (pi ++ [SF 0]) t v s top -> headed it = true ->
    lower_bound (ukeys items) key 0 = (idx, true) ->
    m_refuse s <> 1 ->
    (forall kv, nth_error items (Z.to_nat idx) = Some kv ->
       0 < zlen (encode it (snd kv)) /\ m_len s + (zlen (encode it dv) - zlen (encode it (snd kv))) <= m_cap s) ->
    exists kv s' top', nth_error items (Z.to_nat idx) = Some kv /\ le_decode (fst kv) = key /\
      let items' := firstn (Z.to_nat idx) items ++ (fst kv, dv) :: skipn (S (Z.to_nat idx)) items in
      umap_insert_op ovf t s top (mpath pi) it k key kind = Ok (s', top', [0]) /\
      RepF (pi ++ [SF 0; SE (Z.to_nat idx)]) t (plug t v (pi ++ [SF 0]) (VUList items')) s' top' /\
      m_cap s' = m_cap s /\ m_refuse s' = m_refuse s /\
      ukeys items' = ukeys items.
  Proof.
    intros R Hhd Hlb Hnr Hroom.
    pose proof (umap_sorted pi t v it k items Hres Hk s top R) as Hsa.
    destruct (umap_prefix pi t v it k items Hres s top R) as (inner & pmb & rs & re & Hsub & Hkeys).
    pose proof (lower_bound_spec (ukeys items) key Hsa) as Hspec. rewrite Hlb in Hspec.
    destruct Hspec as (Hidx & _ & _ & Hnth & _). pose proof (proj1 Hnth eq_refl) as Hkey. clear Hnth.
    set (i := Z.to_nat idx) in *.
    unfold ukeys in Hkey. destruct (nth_error_map_inv _ _ _ _ Hkey) as (kv & Hkv & Hdk).
    destruct (Hroom kv Hkv) as [Hpos Hfit].
    pose proof R as [Hpl Hok Hwf [junk Hmem] Hlen HL Hc32].
    set (ax := addr_of t v (pi ++ [SF 0]) 0) in *.
    assert (Hg : get_at t top (mpath (pi ++ [SF 0])) = Some (TUList it k, PUList ax (zlen items) inner pmb rs re)).
    { rewrite <- mpath_snoc. unfold sub in Hsub.
      destruct (get_at t top (mpath pi ++ [PF 0])) as [x|]; [injection Hsub as ->; reflexivity|discriminate]. }
    assert (Hrg : ulist_range k (m_mem s) ax (zlen items) idx
                  = Ok (Some (zsum (firstn i (usizes it items)), zsum (firstn (S i) (usizes it items))))).
    { rewrite Hmem. replace idx with (Z.of_nat i) by (subst i; lia).
      exact (ulist_range_elem (pi ++ [SF 0]) t v top it k items i kv junk Hpl Hwf Hres Hkv HL _ _ _ _ _ _ Hg). }
    destruct (ulist_enter_LayP ovf (pi ++ [SF 0]) t true v s top it k items i kv junk Hpl Hok Hwf Hres Hkv HL Hmem)
      as (top1 & He & HL1).
    assert (Hpe : (pi ++ [SF 0]) ++ [SE i] = pi ++ [SF 0; SE i]) by (rewrite <- app_assoc; reflexivity).
    rewrite Hpe in HL1.
    pose proof (repf_refocus _ _ _ _ _ _ _ R HL1) as R1.
    assert (Hres1 : resolve t v (pi ++ [SF 0; SE i]) = Some (it, snd kv)).
    { rewrite <- Hpe, (resolve_app_intro _ _ _ _ _ _ Hres). cbn [resolve]. rewrite Hkv. reflexivity. }
    destruct (set_data_general ovf (pi ++ [SF 0; SE i]) t v it (snd kv) dv s top1 Hres1 Hhd Hdv Hpos R1 Hnr Hfit)
      as (s' & top' & Hs & R' & Hc & Hr).
    destruct (plug_umap_elem t v pi it k items i kv dv Hres Hkv) as [Hplug Hks].
    exists kv, s', top'. split; [exact Hkv|]. split; [exact Hdk|]. cbv zeta.  rewrite <- Hplug.
    split; [|auto].
    unfold umap_insert_op. rewrite Hsub. cbn [obind]. fold ax in Hkeys. rewrite Hkeys. cbn [obind]. rewrite Hlb.
    rewrite Hrg. cbn [obind]. rewrite mpath_snoc.  rewrite He. cbn [obind].
    replace (mpath pi ++ [PF 0; PI]) with (mpath (pi ++ [SF 0; SE i])) by (rewrite mpath_app; reflexivity).
    rewrite Hisz, Hinit, Hs. reflexivity.
  Qed.
End umap_kind.

(* ---------------------------------------------------------------------------------------------- *)
(* 3. operations with an initializer kind, on top of the operation set of Enums.v                   *)
Inductive kop :=
| KZ (o : zop)                                              (* everything of Enums.v *)
| KUInsert (pi : list step) (idx : Z) (n : nat) (kind : Z)  (* the plain list of unsized elements at pi: insert n elements made by `kind` *)
| KSetInit (pi : list step) (kind : Z)                      (* set_from_init: replace the sub-value at pi by the one `kind` makes *)
| KUMapInsert (pi : list step) (key kind : Z).              (* UnsizedMap at pi: insert (new key) or overwrite (existing key) *)

(* the owned model.
   KUInsert: the guards of History2.ostepX XUInsert with `ival it kind = Some dv` in place of zero_ok / dflt (that the new
     list is well-formed contains, as n <> 0, that dv is).
   KSetInit: the guards of History3.ostepY YSet (a target whose start pointer is its address, of positive current
     length, room in the allocation) plus `wf X dv` - see `ones_ok`: the shape alone does not decide it for a List
     whose item type rejects the all-ones pattern.
   KUMapInsert: the guards of History3.ostepY YUMapInsert with ival / `wf it dv` in place of zero_ok / dflt; on an
     existing key the guards of KSetInit for the element (History4.umap_insert_present). *)
Definition ostepK (cap : Z) (t : ty) (v : val) (o : kop) : option (val * list Z) :=
  match o with
  | KZ z => ostepZ cap t v z
  | KUInsert pi idx n kind =>
      match resolve t v pi with
      | Some (TUList it 0, VUList items) =>
          match ival it kind with
          | Some dv =>
              let items' := firstn (Z.to_nat idx) items ++ map (fun key => (key, dv)) (repeat [] n) ++ skipn (Z.to_nat idx) items in
              if (0 <=? idx) && (idx <=? zlen items) && negb (n =? 0)%nat
                 && wf (TUList it 0) (VUList items')
                 && (zlen (encode t v) + (zlen (encode it dv) + 4) * Z.of_nat n <=? cap)
              then Some (plug t v pi (VUList items'), [])
              else None
          | None => None
          end
      | _ => None
      end
  | KSetInit pi kind =>
      match resolve t v pi with
      | Some (X, xv) =>
          match ival X kind with
          | Some dv =>
              if headed X && wf X dv && (0 <? zlen (encode X xv))
                 && (zlen (encode t v) + (zlen (encode X dv) - zlen (encode X xv)) <=? cap)
              then Some (plug t v pi dv, [])
              else None
          | None => None
          end
      | None => None
      end
  | KUMapInsert pi key kind =>
      match resolve t v pi with
      | Some (W, wv) =>
          match view_ulist W wv with
          | Some (it, k, items) =>
              match ival it kind with
              | Some dv =>
                  if negb (k =? 0)%nat && strictly_ascending (ukeys items) && wf it dv
                     && (0 <=? key) && (key <? 256 ^ Z.of_nat k) then
                    let '(idx, found) := lower_bound (ukeys items) key 0 in
                    if found then
                      match nth_error items (Z.to_nat idx) with
                      | Some kv =>
                          if headed it && (0 <? zlen (encode it (snd kv)))
                             && (zlen (encode t v) + (zlen (encode it dv) - zlen (encode it (snd kv))) <=? cap)
                          then Some (plug t v (pi ++ [SF 0])
                                       (VUList (firstn (Z.to_nat idx) items ++ (fst kv, dv) :: skipn (S (Z.to_nat idx)) items)), [0])
                          else None
                      | None => None
                      end
                    else if zlen (encode t v) + (zlen (encode it dv) + (4 + Z.of_nat k)) <=? cap
                         then Some (plug t v (pi ++ [SF 0])
                                      (VUList (firstn (Z.to_nat idx) items ++ (le_bytes k key, dv) :: skipn (Z.to_nat idx) items)), [1])
                         else None
                  else None
              | None => None
              end
          | None => None
          end
      | None => None
      end
  end.

(* the machine: what the dispatcher does at the end of the path (the bodies of Run.exec codes 30, 71, 50: the type at
   the position is read from the pointer tree) *)
Definition uinsert_at (t : ty) (s : mach) (pi : list step) (idx : Z) (n : nat) (kind : Z) (top1 : ptr) : out res :=
  do ' (tc, _) <- sub t top1 (mpath pi);
  match tc with
  | TUList _ _ => ulist_insert t s top1 (mpath pi) idx kind (repeat [] n)
  | _ => SKIPPED
  end.

Definition setinit_at (ovf : bool) (t : ty) (s : mach) (pi : list step) (kind : Z) (top1 : ptr) : out res :=
  do ' (tc, _) <- sub t top1 (mpath pi);
  set_data ovf t s top1 (mpath pi) (init_size tc kind) (init_bytes tc kind).

Definition umapins_at (ovf : bool) (t : ty) (s : mach) (pi : list step) (key kind : Z) (top1 : ptr) : out res :=
  do ' (tc, _) <- sub t top1 (mpath pi);
  match tc with
  | TStruct [TUList it k] => umap_insert_op ovf t s top1 (mpath pi) it k key kind
  | _ => SKIPPED
  end.

(* path and continuation of the new operations *)
Definition kfocus (o : kop) : list step :=
  match o with KZ _ => [] | KUInsert pi _ _ _ | KSetInit pi _ | KUMapInsert pi _ _ => pi end.

Definition kop_at (ovf : bool) (t : ty) (s : mach) (o : kop) (top1 : ptr) : out res :=
  match o with
  | KZ _ => SKIPPED
  | KUInsert pi idx n kind => uinsert_at t s pi idx n kind top1
  | KSetInit pi kind => setinit_at ovf t s pi kind top1
  | KUMapInsert pi key kind => umapins_at ovf t s pi key kind top1
  end.

(* descent, then the operation *)
Definition mstepK (ovf : bool) (t : ty) (s : mach) (top : ptr) (o : kop) : out res :=
  match o with
  | KZ z => mstepZ ovf t s top z
  | _ => do top1 <- menter ovf t s top [] (kfocus o); kop_at ovf t s o top1
  end.

(* a list that is well-formed with n <> 0 copies of dv spliced in contains a well-formed dv *)
Lemma wf_spliced_elem it k (items : list (list Z * val)) i n dv :
  wf (TUList it k) (VUList (firstn i items ++ map (fun key => (key, dv)) (repeat [] n) ++ skipn i items)) = true ->
  n <> O -> wf it dv = true.
Proof.
  intros W Hn. cbn [wf] in W. apply andb_true_iff in W as [_ W]. rewrite forallb_forall in W.
  destruct n as [|n]; [congruence|].
  specialize (W ([], dv)). cbn [fst snd] in W.
  assert (Hin : In ([], dv) (firstn i items ++ map (fun key : list Z => (key, dv)) (repeat [] (S n)) ++ skipn i items)).
  { apply in_or_app. right. apply in_or_app. left. cbn [repeat map]. left. reflexivity. }
  apply W in Hin. apply andb_true_iff in Hin as [_ Hin]. exact Hin.
Qed.

Theorem kstep_refines ovf t v s top pi0 o v' obs :
  RepF pi0 t v s top -> m_refuse s <> 1 -> ostepK (m_cap s) t v o = Some (v', obs) ->
  exists s' top' pi', mstepK ovf t s top o = Ok (s', top', obs) /\ RepF pi' t v' s' top' /\
                      m_cap s' = m_cap s /\ m_refuse s' = m_refuse s.
Proof.
  intros R Hnr Ho. destruct o as [z|pi idx n kind|pi kind|pi key kind]; cbn [ostepK mstepK kfocus kop_at] in *.
  - exact (zstep_refines ovf t v s top pi0 z v' obs R Hnr Ho).
  - (* insert with an initializer *)
    apply repf_unfocus in R. pose proof R as [_ _ Hwf _ Hlen _ _].
    destruct (resolve t v pi) as [[[| | |it [|k]| |] [| |items| |]]|] eqn:Hres; try discriminate.
    destruct (ival it kind) as [dv|] eqn:Hiv; [|discriminate].
    open_if Ho. injection Ho as <- <-.
    apply andb_true_iff in Eb as [Eb Hroom]. apply andb_true_iff in Eb as [Eb Hwf'].
    apply andb_true_iff in Eb as [Eb Hn]. apply andb_true_iff in Eb as [Hi1 Hi2]. zb.
    apply Nat.eqb_neq in Hn.
    destruct (menter_ok ovf pi [] t v s top _ _ R Hres) as (top1 & Hm & R1). cbn [app mpath map] in Hm, R1.
    rewrite Hm. cbn [obind].
    pose proof R1 as [_ _ _ _ _ HL1 _].
    destruct (LayP_get_at Lay pi t v 0 top1 _ _ Hwf Hres HL1) as (node & Hg & _).
    unfold uinsert_at, sub. rewrite Hg. cbn [obind].
    destruct (ival_init_bytes it kind dv Hiv) as [Hib Hisz].
    destruct (ulist_insert_general pi t v it 0 items idx kind (repeat [] n) dv Hres Hib Hisz ltac:(lia)
                ltac:(apply Forall_forall; intros key0 Hk0; apply repeat_spec in Hk0; now subst)
                ltac:(destruct n; [congruence|discriminate]) Hwf' s top1 R1 Hnr)
      as (s' & top' & Hs & R' & Hc & Hr).
    { rewrite zlen_repeat_nil, Hlen. change (Z.of_nat 0) with 0. lia. }
    exists s', top', pi. auto.
  - (* set_from_init *)
    apply repf_unfocus in R. pose proof R as [_ _ Hwf _ Hlen _ _].
    destruct (resolve t v pi) as [[X xv]|] eqn:Hres; [|discriminate].
    destruct (ival X kind) as [dv|] eqn:Hiv; [|discriminate].
    open_if Ho. injection Ho as <- <-.
    apply andb_true_iff in Eb as [Eb Hroom]. apply andb_true_iff in Eb as [Eb Hpos]. apply andb_true_iff in Eb as [Hhd Hdv]. zb.
    destruct (menter_ok ovf pi [] t v s top _ _ R Hres) as (top1 & Hm & R1). cbn [app mpath map] in Hm, R1.
    rewrite Hm. cbn [obind].
    pose proof R1 as [_ _ _ _ _ HL1 _].
    destruct (LayP_get_at Lay pi t v 0 top1 _ _ Hwf Hres HL1) as (node & Hg & _).
    unfold setinit_at, sub. rewrite Hg. cbn [obind].
    destruct (ival_init_bytes X kind dv Hiv) as [Hib Hisz]. rewrite Hib, Hisz.
    destruct (set_data_general ovf pi t v X xv dv s top1 Hres Hhd Hdv Hpos R1 Hnr ltac:(rewrite Hlen; lia))
      as (s' & top' & Hs & R' & Hc & Hr).
    exists s', top', pi. auto.
  - (* UnsizedMap insert with an initializer *)
    apply repf_unfocus in R. pose proof R as [_ _ _ _ Hlen _ _].
    destruct (resolve t v pi) as [[W wv]|] eqn:Hres; [|discriminate].
    destruct (view_ulist W wv) as [[[it k] items]|] eqn:Hv; [|discriminate].
    apply view_ulist_some in Hv as [-> ->].
    destruct (ival it kind) as [dv|] eqn:Hiv; [|discriminate].
    destruct (at_wrapper_ready ovf t v s top pi _ _ R Hres) as (top1 & node & Hm & Hsub & R1 & Hres1).
    rewrite Hm. cbn [obind]. unfold umapins_at. rewrite Hsub. cbn [obind].
    open_if Ho.
    apply andb_true_iff in Eb as [Eb Hk2]. apply andb_true_iff in Eb as [Eb Hk1]. apply andb_true_iff in Eb as [Eb Hdv].
    apply andb_true_iff in Eb as [Hk _]. apply negb_true_iff in Hk. apply Nat.eqb_neq in Hk. zb.
    destruct (ival_init_bytes it kind dv Hiv) as [Hib Hisz].
    destruct (lower_bound (ukeys items) key 0) as [idx found] eqn:Hlb. destruct found.
    + destruct (nth_error items (Z.to_nat idx)) as [kv|] eqn:Hkv; [|discriminate].
      open_if Ho. injection Ho as <- <-.
      apply andb_true_iff in Eb as [Eb Hroom]. apply andb_true_iff in Eb as [Hhd Hpos]. zb.
      destruct (umap_insert_present_k pi t v it k items key kind dv Hres1 Hk Hib Hisz Hdv ovf s top1 idx R1 Hhd Hlb Hnr)
        as (kv' & s' & top' & Hkv' & _ & Hrest).
      { intros kv0 H0. rewrite Hkv in H0. injection H0 as <-. split; [exact Hpos|rewrite Hlen; lia]. }
      rewrite Hkv in Hkv'. injection Hkv' as <-. cbv zeta in Hrest. destruct Hrest as (Hs & R' & Hc & Hr & _).
      rewrite Hs. exists s', top', (pi ++ [SF 0; SE (Z.to_nat idx)]). auto.
    + open_if Ho. injection Ho as <- <-. zb.
      destruct (umap_insert_absent_k pi t v it k items key kind dv Hres1 Hk Hib Hisz Hdv ovf s top1 idx R1 ltac:(lia) Hlb Hnr
                  ltac:(rewrite Hlen; lia)) as (s' & top' & Hs & R' & Hc & Hr & _).
      rewrite Hs. exists s', top', (pi ++ [SF 0]). auto.
Qed.

Fixpoint orunK (cap : Z) (t : ty) (v : val) (h : list kop) : option (val * list (list Z)) :=
  match h with
  | [] => Some (v, [])
  | o :: r =>
      match ostepK cap t v o with
      | Some (v1, ob) => match orunK cap t v1 r with Some (v', l) => Some (v', ob :: l) | None => None end
      | None => None
      end
  end.

Fixpoint mrunK (ovf : bool) (t : ty) (s : mach) (top : ptr) (h : list kop) : out (mach * ptr * list (list Z)) :=
  match h with
  | [] => Ok (s, top, [])
  | o :: r =>
      do ' (s1, top1, ob) <- mstepK ovf t s top o;
      do ' (s', top', l) <- mrunK ovf t s1 top1 r;
      Ok (s', top', ob :: l)
  end.

Theorem krun_refines ovf t : forall h v s top pi0 v' obss,
  RepF pi0 t v s top -> m_refuse s <> 1 -> orunK (m_cap s) t v h = Some (v', obss) ->
  exists s' top' pi', mrunK ovf t s top h = Ok (s', top', obss) /\ RepF pi' t v' s' top' /\ m_cap s' = m_cap s.
Proof.
  induction h as [|o h IH]; intros v s top pi0 v' obss R Hnr Ho.
  - cbn in Ho. injection Ho as <- <-. exists s, top, pi0. split; [reflexivity|]. split; [exact R|reflexivity].
  - cbn [orunK] in Ho. destruct (ostepK (m_cap s) t v o) as [[v1 ob]|] eqn:E; [|discriminate].
    destruct (kstep_refines ovf t v s top pi0 o v1 ob R Hnr E) as (s1 & top1 & pi1 & Hs & R1 & Hc & Hr).
    rewrite <- Hc in Ho.
    destruct (orunK (m_cap s1) t v1 h) as [[v'' l]|] eqn:E2; [|discriminate]. injection Ho as <- <-.
    destruct (IH v1 s1 top1 pi1 v'' l R1 ltac:(congruence) E2) as (s' & top' & pi' & Hm & R' & Hc').
    cbn [mrunK]. rewrite Hs. cbn [obind]. rewrite Hm. cbn [obind].
    exists s', top', pi'. split; [reflexivity|]. split; [exact R'|congruence].
Qed.

(* ---------------------------------------------------------------------------------------------- *)
(* 4. the dispatcher on the op codes of the new operations                                          *)
Definition kop_tail (o : kop) : list Z :=
  match o with
  | KZ _ => []
  | KUInsert _ idx n kind => [30; idx; Z.of_nat n; kind]
  | KSetInit _ kind => [71; kind]
  | KUMapInsert _ key kind => [50; key; kind]
  end.

Definition enc_kop (t : ty) (v : val) (o : kop) : list Z := enc_path t v (kfocus o) ++ kop_tail o.

Definition is_new (o : kop) : Prop := match o with KZ _ => False | _ => True end.

Lemma mstepK_split ovf t s top o : is_new o ->
  mstepK ovf t s top o = (do top1 <- menter ovf t s top [] (kfocus o); kop_at ovf t s o top1).
Proof. destruct o; intros H; [contradiction|reflexivity..]. Qed.

(* one step of the dispatcher on op code 71 (30: ExecTie2.exec_uinsert, 50: Keyed.exec_50) *)
Lemma exec_set_init f ovf t s top ps kind r :
  exec (S f) ovf t s top ps (71 :: kind :: r) =
  (do ' (tc, pc) <- sub t top ps; set_data ovf t s top ps (init_size tc kind) (init_bytes tc kind)).
Proof. reflexivity. Qed.

(* at the end of the path the dispatcher performs the operation itself *)
Lemma exec_kop_tail f ovf t s top o X pc : is_new o ->
  get_at t top (mpath (kfocus o)) = Some (X, pc) ->
  exec (S f) ovf t s top (mpath (kfocus o)) (kop_tail o) = kop_at ovf t s o top.
Proof.
  intros Hnew Hg. destruct o as [z|pi idx n kind|pi kind|pi key kind]; [contradiction| | |]; cbn [kfocus kop_tail kop_at] in *.
  - rewrite exec_uinsert. unfold uinsert_at, sub. rewrite Hg. cbn [obind]. rewrite Nat2Z.id. reflexivity.
  - rewrite exec_set_init. unfold setinit_at, sub. rewrite Hg. reflexivity.
  - rewrite exec_50. unfold umapins_at, sub. rewrite Hg. reflexivity.
Qed.

(* the dispatcher on an encoded operation, against descent + operation (the form of ExecTie2.exec_tie_x).  The path may
   end at any node but the payload of a unit variant (TStruct []), into which the dispatcher does not descend. *)
Lemma exec_tie_k_gen ovf t v s top o X xv fuel :
  RepF [] t v s top -> is_new o -> resolve t v (kfocus o) = Some (X, xv) -> X <> TStruct [] ->
  (length (kfocus o) < fuel)%nat ->
  exists top1, menter ovf t s top [] (kfocus o) = Ok top1 /\
    (exec fuel ovf t s top [] (enc_kop t v o) = kop_at ovf t s o top1 \/
     exists code topk, kop_at ovf t s o top1 = Err code /\ code <> -9 /\
                       exec fuel ovf t s top [] (enc_kop t v o) = Ok (s, topk, [-1; code])).
Proof.
  intros R Hnew Hres HX Hfuel.
  exact (exec_path_x ovf t v s (kop_at ovf t s o) (kop_tail o) (kfocus o) X xv Hres HX
           (fun f top' pc Hg => exec_kop_tail f ovf t s top' o X pc Hnew Hg)
           (kfocus o) [] top fuel t v eq_refl eq_refl R Hfuel).
Qed.

(* success: the dispatcher returns exactly what descent + operation return (the form of Enums.exec_tie_switch) *)
Theorem exec_tie_k ovf t v s top o r :
  RepF [] t v s top -> is_new o ->
  (exists X xv, resolve t v (kfocus o) = Some (X, xv) /\ X <> TStruct []) ->
  mstepK ovf t s top o = Ok r ->
  forall fuel, (length (kfocus o) < fuel)%nat -> exec fuel ovf t s top [] (enc_kop t v o) = Ok r.
Proof.
  intros R Hnew (X & xv & Hres & HX) Hs fuel Hfuel.
  destruct (exec_tie_k_gen ovf t v s top o X xv fuel R Hnew Hres HX Hfuel) as (top1 & Hm & Hex).
  rewrite (mstepK_split _ _ _ _ _ Hnew), Hm in Hs. cbn [obind] in Hs.
  destruct Hex as [Hex|(code & topk & HF & _ & _)]; [rewrite Hex; exact Hs|congruence].
Qed.

(* failure: the dispatcher reports the operation's error code; with the state reached by the descent when the path
   crosses a list of unsized elements (efail), as a plain Err otherwise (the form of Enums.exec_tie_switch_err) *)
Theorem exec_tie_k_err ovf t v s top o top1 c :
  RepF [] t v s top -> is_new o ->
  (exists X xv, resolve t v (kfocus o) = Some (X, xv) /\ X <> TStruct []) ->
  menter ovf t s top [] (kfocus o) = Ok top1 -> kop_at ovf t s o top1 = Err c ->
  forall fuel, (length (kfocus o) < fuel)%nat ->
  exec fuel ovf t s top [] (enc_kop t v o) = Err c \/ exists topk, exec fuel ovf t s top [] (enc_kop t v o) = Ok (s, topk, [-1; c]).
Proof.
  intros R Hnew (X & xv & Hres & HX) Hm Hop fuel Hfuel.
  destruct (exec_tie_k_gen ovf t v s top o X xv fuel R Hnew Hres HX Hfuel) as (top1' & Hm' & Hex).
  rewrite Hm in Hm'. injection Hm' as <-.
  destruct Hex as [Hex|(code & topk & HF & _ & Hex)].
  - left. rewrite Hex. exact Hop.
  - right. exists topk. rewrite Hop in HF. injection HF as <-. exact Hex.
Qed.

(* the three instances, on the literal op-code streams *)
Corollary exec_tie_uinsert_kind ovf t v s top pi idx n kind r :
  RepF [] t v s top ->
  (exists X xv, resolve t v pi = Some (X, xv) /\ X <> TStruct []) ->
  mstepK ovf t s top (KUInsert pi idx n kind) = Ok r ->
  forall fuel, (length pi < fuel)%nat ->
  exec fuel ovf t s top [] (enc_path t v pi ++ [30; idx; Z.of_nat n; kind]) = Ok r.
Proof. intros R H Hs. exact (exec_tie_k ovf t v s top (KUInsert pi idx n kind) r R I H Hs). Qed.

Corollary exec_tie_set_init ovf t v s top pi kind r :
  RepF [] t v s top ->
  (exists X xv, resolve t v pi = Some (X, xv) /\ X <> TStruct []) ->
  mstepK ovf t s top (KSetInit pi kind) = Ok r ->
  forall fuel, (length pi < fuel)%nat -> exec fuel ovf t s top [] (enc_path t v pi ++ [71; kind]) = Ok r.
Proof. intros R H Hs. exact (exec_tie_k ovf t v s top (KSetInit pi kind) r R I H Hs). Qed.

Corollary exec_tie_umap_insert_kind ovf t v s top pi key kind r :
  RepF [] t v s top ->
  (exists X xv, resolve t v pi = Some (X, xv) /\ X <> TStruct []) ->
  mstepK ovf t s top (KUMapInsert pi key kind) = Ok r ->
  forall fuel, (length pi < fuel)%nat -> exec fuel ovf t s top [] (enc_path t v pi ++ [50; key; kind]) = Ok r.
Proof. intros R H Hs. exact (exec_tie_k ovf t v s top (KUMapInsert pi key kind) r R I H Hs). Qed.

(* an operation the owned model accepts ends at a node the dispatcher reaches *)
Lemma headed_not_unit X : headed X = true -> X <> TStruct [].
Proof. intros H ->. discriminate H. Qed.

Lemma ostepK_target cap t v o v' obs : is_new o -> ostepK cap t v o = Some (v', obs) ->
  exists X xv, resolve t v (kfocus o) = Some (X, xv) /\ X <> TStruct [].
Proof.
  intros Hnew Ho. destruct o as [z|pi idx n kind|pi kind|pi key kind]; [contradiction| | |]; cbn [ostepK kfocus] in *.
  - destruct (resolve t v pi) as [[[| | |it [|k]| |] [| |items| |]]|] eqn:Hres; try discriminate.
    eexists _, _. split; [reflexivity|discriminate].
  - destruct (resolve t v pi) as [[X xv]|] eqn:Hres; [|discriminate].
    destruct (ival X kind) as [dv|]; [|discriminate]. open_if Ho.
    apply andb_true_iff in Eb as [Eb _]. apply andb_true_iff in Eb as [Eb _]. apply andb_true_iff in Eb as [Hhd _].
    exists X, xv. split; [reflexivity|exact (headed_not_unit X Hhd)].
  - destruct (resolve t v pi) as [[W wv]|] eqn:Hres; [|discriminate].
    destruct (view_ulist W wv) as [[[it k] items]|] eqn:Hv; [|discriminate].
    apply view_ulist_some in Hv as [-> ->]. eexists _, _. split; [reflexivity|discriminate].
Qed.

(* the two together: an operation with an initializer that the owned model accepts, sent to the dispatcher as op codes,
   succeeds with the model's observation and the state it leaves represents the model's new value *)
Corollary exec_k_refines ovf t v s top o v' obs :
  RepF [] t v s top -> m_refuse s <> 1 -> is_new o -> ostepK (m_cap s) t v o = Some (v', obs) ->
  forall fuel, (length (kfocus o) < fuel)%nat ->
  exists s' top' pi', exec fuel ovf t s top [] (enc_kop t v o) = Ok (s', top', obs) /\
                      RepF pi' t v' s' top' /\ m_cap s' = m_cap s /\ m_refuse s' = m_refuse s.
Proof.
  intros R Hnr Hnew Ho fuel Hfuel.
  destruct (kstep_refines ovf t v s top [] o v' obs R Hnr Ho) as (s' & top' & pi' & Hs & R' & Hc & Hr).
  exists s', top', pi'. split; [|auto].
  exact (exec_tie_k ovf t v s top o _ R Hnew (ostepK_target _ _ _ _ _ _ Hnew Ho) Hs fuel Hfuel).
Qed.

(* ---------------------------------------------------------------------------------------------- *)
(* 5. non-vacuity: a struct with a list of unsized elements (each a List<u8, u8>), a List, an UnsizedMap and trailing
      bytes.  Two elements made by the 3-item array initializer are inserted into the list of unsized elements; the
      trailing bytes, the List and element 0 are re-initialised with kind 1; an item is inserted into a freshly
      created element (an operation of the earlier theory, on a value the new operations made); element 2 is reset
      by the default initializer; the map gets a new key with a 3-item value, an existing key is overwritten by the
      3-item value and the new key by the default value.  Evaluated in the owned model and on the machine started from
      get_ptr: same observations, canonical bytes, the value seen through the live pointers is the model's value; the
      dispatcher on the op codes of each new operation returns what mstepK returns.  The 300-item array does not fit
      the one-byte length prefix: it is outside the model's domain (ival = None) and the machine reports E_TOPRIM
      after having grown the list (finding D16, InitFail.v). *)
Example initkinds_nonvacuous :
  let L := TList (FAny 1) 1 in
  let t := TStruct [TFixed (FAny 1); TUList L 0; L; TStruct [TUList L 1]; TRem] in
  let v := VStruct [VBytes [9]; VUList [([], VList [[5]])]; VList [[7]]; VStruct [VUList [([3], VList [[9]])]]; VBytes [4]] in
  let s := mkMach (encode t v ++ zrepeat 0 512) (zlen (encode t v)) 0 0 in
  let news := [KUInsert [SF 1] 1 2 1; KSetInit [SF 4] 1; KSetInit [SF 2] 1; KSetInit [SF 1; SE 0] 1;
               KUMapInsert [SF 3] 7 1; KUMapInsert [SF 3] 3 1] in
  let h := [KUInsert [SF 1] 1 2 1; KSetInit [SF 4] 1; KSetInit [SF 2] 1; KSetInit [SF 1; SE 0] 1;
            KZ (ZY (YX (XList (GInsert [SF 1; SE 1] 0 [[4]]))));
            KSetInit [SF 1; SE 2] 0;
            KUMapInsert [SF 3] 7 1; KUMapInsert [SF 3] 3 1; KUMapInsert [SF 3] 7 0] in
  let ones := VList [[1]; [1]; [1]] in
  let v' := VStruct [VBytes [9]; VUList [([], ones); ([], VList [[4]; [1]; [1]; [1]]); ([], VList [])]; ones;
                     VStruct [VUList [([3], ones); ([7], VList [])]]; VBytes [1; 1; 1]] in
  let obss := [[]; []; []; []; []; []; [1]; [0]; [0]] in
  plain t = true /\ ty_ok true t = true /\ wf t v = true /\
  ival L 1 = Some ones /\ ones_ok L 1 = true /\ ival TRem 1 = Some (VBytes [1; 1; 1]) /\
  orunK (m_cap s) t v h = Some (v', obss) /\
  ival L 2 = None /\ ostepK (m_cap s) t v (KUInsert [SF 1] 0 1 2) = None /\
  map (enc_kop t v) news = [[1; 1; 30; 1; 2; 1]; [1; 4; 71; 1]; [1; 2; 71; 1]; [1; 1; 1; 0; 71; 1]; [1; 3; 50; 7; 1]; [1; 3; 50; 3; 1]] /\
  match get_ptr true t (m_mem s) 0 (m_len s) with
  | Ok (top, _) =>
      map (fun o => exec 4 true t s top [] (enc_kop t v o)) news = map (mstepK true t s top) news /\
      match mstepK true t s top (KUInsert [SF 1] 0 1 2) with
      | Ok (s', _, e) => e = [-1; E_TOPRIM] /\ m_len s' = m_len s + 305
      | _ => False
      end /\
      match mrunK true t s top h with
      | Ok (s', top', l) =>
          l = obss /\ ztake (m_len s') (m_mem s') = encode t v' /\ owned_ptr true t (m_mem s') top' = Ok v' /\
          top_check s' top' = true
      | _ => False
      end
  | _ => False
  end.
Proof. vm_compute. repeat split; reflexivity. Qed.

Print Assumptions ival_init_bytes.
Print Assumptions ival_wf.
Print Assumptions ival_init.
Print Assumptions ival_none_fails.
Print Assumptions ival_list_some_iff.
Print Assumptions ival_default.
Print Assumptions umap_insert_absent_k.
Print Assumptions umap_insert_present_k.
Print Assumptions kstep_refines.
Print Assumptions krun_refines.
Print Assumptions exec_tie_k.
Print Assumptions exec_tie_k_err.
Print Assumptions exec_tie_uinsert_kind.
Print Assumptions exec_tie_set_init.
Print Assumptions exec_tie_umap_insert_kind.
Print Assumptions exec_k_refines.
Print Assumptions initkinds_nonvacuous.
Print Assumptions wf_spliced_elem.
Print Assumptions ostepK_target.
Print Assumptions exec_tie_k_gen.
