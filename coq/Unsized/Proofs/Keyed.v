(* The keyed views - Set<T,L> / Map<K,V,L> (a one-field struct around a sorted List) and UnsizedMap<K,V> (a one-field
   struct around an UnsizedList whose offset entries carry the key) - refine the sorted-association-list owned model
   (BTreeSet / BTreeMap), at any path leading to the wrapping struct. *)
From SF Require Import Base.Prelude Gen.Generated Unsized.Types Unsized.Parse Unsized.Machine Unsized.Ops Unsized.Run.
From SF Require Import Unsized.Proofs.EncodeParse Unsized.Proofs.Mem Unsized.Proofs.Notify Unsized.Proofs.Flat Unsized.Proofs.Layout
  Unsized.Proofs.Table Unsized.Proofs.Path Unsized.Proofs.Context Unsized.Proofs.Context2 Unsized.Proofs.Focus Unsized.Proofs.Pos
  Unsized.Proofs.FocusOps Unsized.Proofs.NotifyInside Unsized.Proofs.Resize Unsized.Proofs.GenOps Unsized.Proofs.GenOps2
  Unsized.Proofs.Init Unsized.Proofs.UInsert Unsized.Proofs.URemove Unsized.Proofs.History.
From SF Require Import Unsized.Proofs.EnumFacts.

Arguments Z.add : simpl never.
Arguments Z.sub : simpl never.
Arguments Z.mul : simpl never.
Arguments Z.of_nat : simpl never.
Arguments Z.pow : simpl never.
Arguments Z.modulo : simpl never.

(* ---------------------------------------------------------------------------------------------- *)
(* 1. lower_bound on strictly ascending key lists                                                  *)
Lemma lower_bound_gen keys : forall k i idx found,
  strictly_ascending keys = true -> lower_bound keys k i = (idx, found) ->
  i <= idx <= i + zlen keys /\ Forall (fun x => x < k) (firstn (Z.to_nat (idx - i)) keys) /\
  Forall (fun x => k <= x) (skipn (Z.to_nat (idx - i)) keys) /\
  (found = true <-> nth_error keys (Z.to_nat (idx - i)) = Some k) /\ (found = false -> ~ In k keys).
Proof.
  induction keys as [|x r IH]; intros k i idx found Hsa H; cbn [lower_bound] in H.
  - injection H as <- <-. rewrite Z.sub_diag. change (zlen (@nil Z)) with 0. cbn [Z.to_nat firstn skipn nth_error].
    split; [lia|]. split; [constructor|]. split; [constructor|]. split; [split; discriminate|]. intros _ [].
  - destruct (strictly_ascending_lt_all _ _ Hsa) as [Hall Hr]. rewrite zlen_cons. pose proof (zlen_nonneg r) as Hr0.
    destruct (x <? k) eqn:E; zb.
    + destruct (IH k (i + 1) idx found Hr H) as (Hb & Hf & Hs & Hn & Hni).
      replace (Z.to_nat (idx - i)) with (S (Z.to_nat (idx - (i + 1)))) by lia.
      cbn [firstn skipn nth_error]. split; [lia|]. split; [constructor; assumption|]. split; [exact Hs|]. split; [exact Hn|].
      intros Hfalse [Hx|Hin]; [lia|exact (Hni Hfalse Hin)].
    + injection H as <- <-. rewrite Z.sub_diag. cbn [Z.to_nat firstn skipn nth_error].
      split; [lia|]. split; [constructor|]. split.
      { constructor; [exact E|]. eapply Forall_impl; [|exact Hall]. cbn beta. intros; lia. }
      split.
      { split; [intros Hk; zb; now subst|intros Hk; injection Hk as ->; apply Z.eqb_refl]. }
      intros Hk [Hx|Hin]; zb; [congruence|].
      rewrite Forall_forall in Hall. specialize (Hall _ Hin). lia.
Qed.

Lemma lower_bound_spec keys k : strictly_ascending keys = true ->
  let '(idx, found) := lower_bound keys k 0 in
  0 <= idx <= zlen keys /\ Forall (fun x => x < k) (firstn (Z.to_nat idx) keys) /\
  Forall (fun x => k <= x) (skipn (Z.to_nat idx) keys) /\
  (found = true <-> nth_error keys (Z.to_nat idx) = Some k) /\ (found = false -> ~ In k keys).
Proof.
  intros Hsa. destruct (lower_bound keys k 0) as [idx found] eqn:E.
  pose proof (lower_bound_gen keys k 0 idx found Hsa E) as H. rewrite Z.sub_0_r, Z.add_0_l in H. exact H.
Qed.

(* the search finds the key exactly when it is there *)
Lemma lower_bound_found_iff keys k : strictly_ascending keys = true ->
  (snd (lower_bound keys k 0) = true <-> In k keys).
Proof.
  intros Hsa. pose proof (lower_bound_spec keys k Hsa) as H. destruct (lower_bound keys k 0) as [idx found].
  destruct H as (_ & _ & _ & Hn & Hni). cbn [snd]. split.
  - intros Hf. apply Hn in Hf. eapply nth_error_In; eauto.
  - intros Hin. destruct found; [reflexivity|]. exfalso. exact (Hni eq_refl Hin).
Qed.

Lemma sa_insert_at l : forall n k, strictly_ascending l = true ->
  Forall (fun x => x < k) (firstn n l) -> Forall (fun x => k < x) (skipn n l) ->
  strictly_ascending (firstn n l ++ k :: skipn n l) = true.
Proof.
  induction l as [|x l IH]; intros n k Hsa Hlt Hgt.
  - rewrite firstn_nil, skipn_nil. reflexivity.
  - destruct n as [|n]; cbn [firstn skipn app] in *.
    + apply sa_cons_intro; assumption.
    + destruct (strictly_ascending_lt_all _ _ Hsa) as [Hall Hr].
      apply Forall_cons_iff in Hlt as [Hxk Hlt].
      apply sa_cons_intro; [|apply IH; assumption].
      apply Forall_app. split; [apply Forall_firstn'; exact Hall|].
      constructor; [exact Hxk|apply Forall_skipn'; exact Hall].
Qed.

Lemma sa_insert keys k idx : strictly_ascending keys = true -> lower_bound keys k 0 = (idx, false) ->
  strictly_ascending (firstn (Z.to_nat idx) keys ++ k :: skipn (Z.to_nat idx) keys) = true.
Proof.
  intros Hsa E. pose proof (lower_bound_spec keys k Hsa) as H. rewrite E in H.
  destruct H as (_ & Hlt & Hge & _ & Hni). apply sa_insert_at; auto.
  apply Forall_forall. intros x Hx. rewrite Forall_forall in Hge. specialize (Hge x Hx).
  assert (x <> k) by (intros ->; apply (Hni eq_refl); eapply In_skipn; eauto). lia.
Qed.

Lemma lower_bound_range keys k idx found : strictly_ascending keys = true -> lower_bound keys k 0 = (idx, found) ->
  0 <= idx <= zlen keys /\ (found = true -> idx < zlen keys).
Proof.
  intros Hsa E. pose proof (lower_bound_spec keys k Hsa) as H. rewrite E in H.
  destruct H as (Hb & _ & _ & Hn & _). split; [exact Hb|].
  intros Hf. apply Hn in Hf. assert (Z.to_nat idx < length keys)%nat by (apply nth_error_Some; congruence).
  unfold zlen. lia.
Qed.

(* ---------------------------------------------------------------------------------------------- *)
(* 2. reading the keys back from a represented state                                               *)
Definition lkeys (ksz : nat) (items : list (list Z)) : list Z := map (fun it => le_decode (firstn ksz it)) items.
Definition ukeys (items : list (list Z * val)) : list Z := map (fun kv => le_decode (fst kv)) items.

Lemma zlen_map {A B} (f : A -> B) l : zlen (map f l) = zlen l.
Proof. unfold zlen. now rewrite map_length. Qed.

Lemma lkeys_whole c items : Forall (item_ok c) items -> lkeys (fsize c) items = map le_decode items.
Proof.
  intros H. unfold lkeys. apply map_ext_in. intros it Hin. rewrite Forall_forall in H.
  destruct (H it Hin) as (Hl & _). rewrite firstn_all2 by lia. reflexivity.
Qed.

Lemma map_snd_combine {A B} (a : list A) : forall (b : list B), length a = length b -> map snd (combine a b) = b.
Proof.
  induction a as [|x a IH]; intros [|y b] H; cbn [length] in H; try discriminate; [reflexivity|].
  cbn [combine map snd]. f_equal. apply IH. lia.
Qed.

Lemma mpath_snoc pi i : mpath pi ++ [PF i] = mpath (pi ++ [SF i]).
Proof. rewrite mpath_app. reflexivity. Qed.

Section list_keys_mem.
  Variables (pi : list step) (t : ty) (v : val) (c : fcheck) (lw : nat) (items : list (list Z)).
  Hypothesis Hres : resolve t v pi = Some (TList c lw, VList items).

  Lemma list_keys_rep ksz s top : RepF pi t v s top ->
    list_keys c lw ksz (m_mem s) (addr_of t v pi 0) (Z.of_nat (fsize c) * zlen items) = Ok (lkeys ksz items).
  Proof.
    intros R. destruct (glist_facts pi t v c lw items Hres s top R) as (Hlw & Hes & Hn & Hm & Hitems).
    destruct R as [Hpl Hok Hwf [junk Hmem] Hlen HL Hc32].
    pose proof (hctx_encode _ _ _ _ _ Hres) as Henc. cbn [encode] in Henc.
    pose proof (Forall_item_len _ _ Hitems) as Hil.
    pose proof (zlen_concat_fixed _ _ Hil) as Hbody.
    unfold list_keys.
    assert (Hrd : rd (m_mem s) (addr_of t v pi 0 + Z.of_nat lw) (Z.of_nat (fsize c) * zlen items) = Ok (concat items)).
    { rewrite Hmem, Henc.
      replace ((fst (hctx t v pi 0) ++ (le_bytes lw (zlen items) ++ concat items) ++ snd (hctx t v pi 0)) ++ junk)
        with ((fst (hctx t v pi 0) ++ le_bytes lw (zlen items)) ++ concat items ++ (snd (hctx t v pi 0) ++ junk))
        by (now rewrite <- !app_assoc).
      apply rd_mid'; [unfold addr_of; rewrite zlen_app, zlen_le_bytes; lia|now rewrite Hbody]. }
    rewrite Hrd. cbn [obind]. rewrite chunks_concat; [reflexivity|lia|exact Hil|].
    unfold zlen in Hbody. nia.
  Qed.
End list_keys_mem.

Section ulist_keys_mem.
  Variables (pi : list step) (t : ty) (v : val) (it : ty) (k : nat) (items : list (list Z * val)).
  Hypothesis Hres : resolve t v pi = Some (TUList it k, VUList items).

  Lemma ulist_keys_rep s top : RepF pi t v s top ->
    ulist_keys k (m_mem s) (addr_of t v pi 0) (zlen items) = Ok (ukeys items).
  Proof.
    intros R. destruct R as [Hpl Hok Hwf [junk Hmem] Hlen HL Hc32].
    pose proof (resolve_wf _ _ _ _ _ Hwf Hres) as HwU. pose proof (ulist_facts _ _ _ HwU) as F.
    pose proof (hctx_encode _ _ _ _ _ Hres) as Henc. rewrite encode_ulist in Henc.
    unfold ulist_keys.
    assert (Hrd : rd (m_mem s) (addr_of t v pi 0 + 8) (zlen items * (4 + Z.of_nat k)) = Ok (utable it items)).
    { rewrite Hmem, Henc.
      match goal with |- rd ((?P ++ (?a ++ ?b ++ ?T ++ ?r) ++ ?Q) ++ ?J) _ _ = _ =>
        replace ((P ++ (a ++ b ++ T ++ r) ++ Q) ++ J) with ((P ++ a ++ b) ++ T ++ (r ++ Q ++ J)) by (now rewrite <- !app_assoc) end.
      apply rd_mid'; [unfold addr_of; rewrite !zlen_app, !zlen_le_bytes; change (Z.of_nat 4) with 4; lia|].
      symmetry. exact (uf_table _ _ _ F). }
    rewrite Hrd. cbn [obind]. rewrite (uf_ents _ _ _ F). f_equal.
    rewrite <- (map_map snd le_decode), map_snd_combine.
    - unfold ukeys. now rewrite map_map.
    - rewrite offsets_from_length, map_length. apply usizes_length.
  Qed.
End ulist_keys_mem.

(* ---------------------------------------------------------------------------------------------- *)
(* 3. the operations of the keyed views, as standalone definitions (the bodies of Run.exec's branches) *)
Definition set_insert_op (t : ty) (s : mach) (top : ptr) (ps : list pos) (c : fcheck) (lw : nat) (x : list Z) : out res :=
  do ' (_, lp) <- sub t top (ps ++ [PF 0]);
  match lp with
  | PList a blen =>
      do keys <- list_keys c lw (fsize c) (m_mem s) a blen;
      let '(idx, found) := lower_bound keys (le_decode x) 0 in
      if found then Ok (s, top, [0]) else
      do ' (s1, top1, _) <- list_insert t s top (ps ++ [PF 0]) idx [x];
      Ok (s1, top1, [1])
  | _ => Panic
  end.

Definition set_remove_op (t : ty) (s : mach) (top : ptr) (ps : list pos) (c : fcheck) (lw : nat) (x : list Z) : out res :=
  do ' (_, lp) <- sub t top (ps ++ [PF 0]);
  match lp with
  | PList a blen =>
      do keys <- list_keys c lw (fsize c) (m_mem s) a blen;
      let '(idx, found) := lower_bound keys (le_decode x) 0 in
      if found then
        do ' (s1, top1, _) <- list_remove t s top (ps ++ [PF 0]) idx (idx + 1);
        Ok (s1, top1, [1])
      else Ok (s, top, [0])
  | _ => Panic
  end.

Definition map_insert_op (t : ty) (s : mach) (top : ptr) (ps : list pos) (c : fcheck) (lw : nat) (key value : list Z) : out res :=
  do ' (_, lp) <- sub t top (ps ++ [PF 0]);
  match lp with
  | PList a blen =>
      do keys <- list_keys c lw (length key) (m_mem s) a blen;
      let '(idx, found) := lower_bound keys (le_decode key) 0 in
      if found then
        do m1 <- wr (m_mem s) (a + Z.of_nat lw + idx * Z.of_nat (fsize c) + zlen key) value;
        Ok (set_mem s m1, top, [1])
      else
        do ' (s1, top1, _) <- list_insert t s top (ps ++ [PF 0]) idx [key ++ value];
        Ok (s1, top1, [0])
  | _ => Panic
  end.

Definition map_remove_op (t : ty) (s : mach) (top : ptr) (ps : list pos) (c : fcheck) (lw : nat) (key : list Z) : out res :=
  do ' (_, lp) <- sub t top (ps ++ [PF 0]);
  match lp with
  | PList a blen =>
      do keys <- list_keys c lw (length key) (m_mem s) a blen;
      let '(idx, found) := lower_bound keys (le_decode key) 0 in
      if found then
        do ' (s1, top1, _) <- list_remove t s top (ps ++ [PF 0]) idx (idx + 1);
        Ok (s1, top1, [1])
      else Ok (s, top, [0])
  | _ => Panic
  end.

Definition umap_insert_op (ovf : bool) (t : ty) (s : mach) (top : ptr) (ps : list pos) (it : ty) (k : nat) (key kind : Z) : out res :=
  do ' (_, up) <- sub t top (ps ++ [PF 0]);
  match up with
  | PUList a n _ _ _ _ =>
      do keys <- ulist_keys k (m_mem s) a n;
      let '(idx, found) := lower_bound keys key 0 in
      if found then
        do rg <- ulist_range k (m_mem s) a n idx;
        match rg with
        | None => Panic
        | Some (st, _) =>
            do top1 <- ulist_enter ovf t s top (ps ++ [PF 0]) st;
            match set_data ovf t s top1 (ps ++ [PF 0; PI]) (init_size it kind) (init_bytes it kind) with
            | Ok (s2, top2, []) => Ok (s2, top2, [0])
            | Ok (s2, top2, e) => Ok (s2, top2, e)
            | Err c => efail s top1 c
            | o => o
            end
        end
      else
        match ulist_insert t s top (ps ++ [PF 0]) idx kind [le_bytes k key] with
        | Ok (s2, top2, []) => Ok (s2, top2, [1])
        | o => o
        end
  | _ => Panic
  end.

Definition umap_remove_op (t : ty) (s : mach) (top : ptr) (ps : list pos) (k : nat) (key : Z) : out res :=
  do ' (_, up) <- sub t top (ps ++ [PF 0]);
  match up with
  | PUList a n _ _ _ _ =>
      do keys <- ulist_keys k (m_mem s) a n;
      let '(idx, found) := lower_bound keys key 0 in
      if found then
        match ulist_remove t s top (ps ++ [PF 0]) idx (idx + 1) with
        | Ok (s2, top2, []) => Ok (s2, top2, [1])
        | o => o
        end
      else Ok (s, top, [0])
  | _ => Panic
  end.

(* the connection with the step function of the runner *)
Lemma exec_45 f ovf t s top ps r :
  exec (S f) ovf t s top ps (45 :: r) =
  (do ' (tc, pc) <- sub t top ps;
   match tc with TStruct [TList c lw] => set_insert_op t s top ps c lw (hd [] (fst (dec_items 1 r))) | _ => SKIPPED end).
Proof. reflexivity. Qed.

Lemma exec_46 f ovf t s top ps r :
  exec (S f) ovf t s top ps (46 :: r) =
  (do ' (tc, pc) <- sub t top ps;
   match tc with TStruct [TList c lw] => set_remove_op t s top ps c lw (hd [] (fst (dec_items 1 r))) | _ => SKIPPED end).
Proof. reflexivity. Qed.

Lemma exec_40 f ovf t s top ps r :
  exec (S f) ovf t s top ps (40 :: r) =
  (do ' (tc, pc) <- sub t top ps;
   match tc with
   | TStruct [TList c lw] => map_insert_op t s top ps c lw (hd [] (fst (dec_items 2 r))) (hd [] (tl (fst (dec_items 2 r))))
   | _ => SKIPPED
   end).
Proof. cbn [exec]. destruct (sub t top ps) as [[tc pc]| | |]; [|reflexivity..]. cbn [obind].
  destruct tc as [| | | |[|[| c lw | | | |] [|]]|]; try reflexivity.
  unfold map_insert_op. destruct (dec_items 2 r) as [kv rest]. reflexivity. Qed.

Lemma exec_41 f ovf t s top ps r :
  exec (S f) ovf t s top ps (41 :: r) =
  (do ' (tc, pc) <- sub t top ps;
   match tc with TStruct [TList c lw] => map_remove_op t s top ps c lw (hd [] (fst (dec_items 1 r))) | _ => SKIPPED end).
Proof. reflexivity. Qed.

Lemma exec_50 f ovf t s top ps key kind r :
  exec (S f) ovf t s top ps (50 :: key :: kind :: r) =
  (do ' (tc, pc) <- sub t top ps;
   match tc with TStruct [TUList it k] => umap_insert_op ovf t s top ps it k key kind | _ => SKIPPED end).
Proof. reflexivity. Qed.

Lemma exec_51 f ovf t s top ps key r :
  exec (S f) ovf t s top ps (51 :: key :: r) =
  (do ' (tc, pc) <- sub t top ps;
   match tc with TStruct [TUList it k] => umap_remove_op t s top ps k key | _ => SKIPPED end).
Proof. reflexivity. Qed.

(* ---------------------------------------------------------------------------------------------- *)
(* 4. Set<T, L>: BTreeSet::insert / remove                                                          *)
Lemma map_insert_at {A B} (f : A -> B) (l : list A) n x :
  map f (firstn n l ++ x :: skipn n l) = firstn n (map f l) ++ f x :: skipn n (map f l).
Proof. rewrite map_app. cbn [map]. now rewrite firstn_map, skipn_map. Qed.

Lemma map_remove_at {A B} (f : A -> B) (l : list A) i j :
  map f (firstn i l ++ skipn j l) = firstn i (map f l) ++ skipn j (map f l).
Proof. rewrite map_app. now rewrite firstn_map, skipn_map. Qed.

Lemma sa_remove_one l idx : 0 <= idx -> strictly_ascending l = true ->
  strictly_ascending (firstn (Z.to_nat idx) l ++ skipn (Z.to_nat (idx + 1)) l) = true.
Proof. intros H Hs. apply sa_remove; [lia|exact Hs]. Qed.

Section set_ops.
  Variables (pi : list step) (t : ty) (v : val) (c : fcheck) (lw : nat) (items : list (list Z)) (x : list Z).
  Let pi1 := pi ++ [SF 0].
  Hypothesis Hres : resolve t v pi1 = Some (TList c lw, VList items).
  Hypothesis Hsa : strictly_ascending (map le_decode items) = true.
  Let esz := Z.of_nat (fsize c).

  (* what both operations start with: the list node, its keys, the search *)
  Lemma set_prefix s top : RepF pi1 t v s top ->
    sub t top (mpath pi ++ [PF 0]) = Ok (TList c lw, PList (addr_of t v pi1 0) (esz * zlen items)) /\
    list_keys c lw (fsize c) (m_mem s) (addr_of t v pi1 0) (esz * zlen items) = Ok (map le_decode items).
  Proof.
    intros R. destruct (glist_facts pi1 t v c lw items Hres s top R) as (_ & _ & _ & _ & Hitems).
    destruct (glist_located pi1 t v c lw items Hres s top R) as (Hsub & _).
    rewrite mpath_snoc. split; [exact Hsub|]. unfold esz.
    rewrite (list_keys_rep pi1 t v c lw items Hres (fsize c) s top R). now rewrite (lkeys_whole c items Hitems).
  Qed.

  (* the value is absent: Vec::insert at the lower bound, `true` *)
  Theorem set_insert_absent s top idx :
    RepF pi1 t v s top -> item_ok c x ->
    lower_bound (map le_decode items) (le_decode x) 0 = (idx, false) ->
    m_refuse s <> 1 -> m_len s + esz <= m_cap s ->
    zlen items + 1 < 256 ^ Z.of_nat lw -> esz * (zlen items + 1) < U64_LIMIT ->
    let items' := firstn (Z.to_nat idx) items ++ x :: skipn (Z.to_nat idx) items in
    exists s' top',
      set_insert_op t s top (mpath pi) c lw x = Ok (s', top', [1]) /\
      RepF pi1 t (plug t v pi1 (VList items')) s' top' /\
      m_cap s' = m_cap s /\ m_refuse s' = m_refuse s /\
      strictly_ascending (map le_decode items') = true.
  Proof.
    intros R Hx Hlb Hnr Hroom Hfit Hmul items'.
    destruct (set_prefix s top R) as (Hsub & Hkeys).
    destruct (lower_bound_range _ _ _ _ Hsa Hlb) as [Hidx _]. rewrite zlen_map in Hidx.
    destruct (list_insert_general pi1 t v c lw items [x] idx Hres Hidx ltac:(constructor; [exact Hx|constructor])
                ltac:(discriminate) Hfit Hmul s top R Hnr) as (s' & top' & Hins & R' & Hcap & Href).
    { change (zlen [x]) with 1. fold esz. lia. }
    exists s', top'. split; [|split; [exact R'|split; [exact Hcap|split; [exact Href|]]]].
    - unfold set_insert_op. rewrite Hsub. cbn [obind]. rewrite Hkeys. cbn [obind]. rewrite Hlb.
      rewrite mpath_snoc. fold pi1. rewrite Hins. reflexivity.
    - unfold items'. rewrite map_insert_at. apply sa_insert; assumption.
  Qed.

  (* the value is present: nothing changes, `false` *)
  Theorem set_insert_present s top idx :
    RepF pi1 t v s top -> lower_bound (map le_decode items) (le_decode x) 0 = (idx, true) ->
    set_insert_op t s top (mpath pi) c lw x = Ok (s, top, [0]).
  Proof.
    intros R Hlb. destruct (set_prefix s top R) as (Hsub & Hkeys).
    unfold set_insert_op. rewrite Hsub. cbn [obind]. rewrite Hkeys. cbn [obind]. rewrite Hlb. reflexivity.
  Qed.

  (* the value is present: Vec::remove(idx), `true` *)
  Theorem set_remove_present s top idx :
    RepF pi1 t v s top -> lower_bound (map le_decode items) (le_decode x) 0 = (idx, true) ->
    let items' := firstn (Z.to_nat idx) items ++ skipn (Z.to_nat (idx + 1)) items in
    exists s' top',
      set_remove_op t s top (mpath pi) c lw x = Ok (s', top', [1]) /\
      RepF pi1 t (plug t v pi1 (VList items')) s' top' /\
      m_cap s' = m_cap s /\ m_refuse s' = m_refuse s /\
      strictly_ascending (map le_decode items') = true.
  Proof.
    intros R Hlb items'. destruct (set_prefix s top R) as (Hsub & Hkeys).
    destruct (lower_bound_range _ _ _ _ Hsa Hlb) as [Hidx Hlt]. specialize (Hlt eq_refl). rewrite zlen_map in Hidx, Hlt.
    destruct (list_remove_general pi1 t v c lw items idx (idx + 1) Hres ltac:(lia) s top R) as (s' & top' & Hrm & R' & Hcap & Href).
    exists s', top'. split; [|split; [exact R'|split; [exact Hcap|split; [exact Href|]]]].
    - unfold set_remove_op. rewrite Hsub. cbn [obind]. rewrite Hkeys. cbn [obind]. rewrite Hlb.
      rewrite mpath_snoc. fold pi1. rewrite Hrm. reflexivity.
    - unfold items'. rewrite map_remove_at. apply sa_remove_one; [lia|exact Hsa].
  Qed.

  (* the value is absent: nothing changes, `false` *)
  Theorem set_remove_absent s top idx :
    RepF pi1 t v s top -> lower_bound (map le_decode items) (le_decode x) 0 = (idx, false) ->
    set_remove_op t s top (mpath pi) c lw x = Ok (s, top, [0]).
  Proof.
    intros R Hlb. destruct (set_prefix s top R) as (Hsub & Hkeys).
    unfold set_remove_op. rewrite Hsub. cbn [obind]. rewrite Hkeys. cbn [obind]. rewrite Hlb. reflexivity.
  Qed.

  (* membership in the owned set = membership of the decoded key (items have one width and are byte strings) *)
  Lemma set_member_iff s top : RepF pi1 t v s top -> item_ok c x ->
    (In x items <-> snd (lower_bound (map le_decode items) (le_decode x) 0) = true).
  Proof.
    intros R (Hxl & Hxb & _). destruct (glist_facts pi1 t v c lw items Hres s top R) as (_ & _ & _ & _ & Hitems).
    rewrite (lower_bound_found_iff _ _ Hsa). split; [apply in_map|].
    intros Hin. apply in_map_iff in Hin as (y & Hy & Hin). rewrite Forall_forall in Hitems.
    destruct (Hitems y Hin) as (Hyl & Hyb & _).
    rewrite <- (le_decode_inj y x Hyb Hxb ltac:(congruence) Hy). exact Hin.
  Qed.
End set_ops.

(* ---------------------------------------------------------------------------------------------- *)
(* 5. UnsizedMap<K, V>: BTreeMap::insert (new key, default value) / remove                           *)
Lemma zsum_map_split {A} (f : A -> Z) (l : list A) i : zsum (map f l) = zsum (map f (firstn i l)) + zsum (map f (skipn i l)).
Proof. rewrite <- zsum_app, <- map_app, firstn_skipn. reflexivity. Qed.

Lemma forallb_insert_at {A} (f : A -> bool) l i y : forallb f l = true -> f y = true ->
  forallb f (firstn i l ++ y :: skipn i l) = true.
Proof.
  intros H Hy. rewrite forallb_forall in *. intros z Hz. apply in_app_or in Hz as [Hz|[<-|Hz]]; auto.
  - apply H. eapply In_firstn; eauto.
  - apply H. eapply In_skipn; eauto.
Qed.

Section umap_ops.
  Variables (pi : list step) (t : ty) (v : val) (it : ty) (k : nat) (items : list (list Z * val)) (key : Z).
  Let pi1 := pi ++ [SF 0].
  Hypothesis Hres : resolve t v pi1 = Some (TUList it k, VUList items).
  Hypothesis Hk : k <> 0%nat.          (* a map: the offset entries carry a key *)
  Let ax := addr_of t v pi1 0.

  (* the view's invariant is part of well-formedness *)
  Lemma umap_sorted s top : RepF pi1 t v s top -> strictly_ascending (ukeys items) = true.
  Proof.
    intros R. pose proof (resolve_wf _ _ _ _ _ (rf_wf _ _ _ _ _ R) Hres) as W. cbn [wf] in W.
    apply andb_true_iff in W as [W _]. apply andb_true_iff in W as [_ W].
    apply orb_true_iff in W as [W|W]; [apply Nat.eqb_eq in W; congruence|exact W].
  Qed.

  Lemma umap_prefix s top : RepF pi1 t v s top ->
    exists inner pmb rs re,
      sub t top (mpath pi ++ [PF 0]) = Ok (TUList it k, PUList ax (zlen items) inner pmb rs re) /\
      ulist_keys k (m_mem s) ax (zlen items) = Ok (ukeys items).
  Proof.
    intros R. destruct (ulist_located pi1 t v it k items Hres s top R) as (inner & pmb & Hsub & _).
    exists inner, pmb, ax, (ax + zlen (encode (TUList it k) (VUList items))).
    rewrite mpath_snoc. split; [exact Hsub|]. exact (ulist_keys_rep pi1 t v it k items Hres s top R).
  Qed.

  (* the key is present: Vec::remove(idx) on the sorted association list, `true` *)
  Theorem umap_remove_present s top idx :
    RepF pi1 t v s top -> lower_bound (ukeys items) key 0 = (idx, true) ->
    let items' := firstn (Z.to_nat idx) items ++ skipn (Z.to_nat (idx + 1)) items in
    exists s' top',
      umap_remove_op t s top (mpath pi) k key = Ok (s', top', [1]) /\
      RepF pi1 t (plug t v pi1 (VUList items')) s' top' /\
      m_cap s' = m_cap s /\ m_refuse s' = m_refuse s /\
      strictly_ascending (ukeys items') = true.
  Proof.
    intros R Hlb items'. pose proof (umap_sorted s top R) as Hsa.
    destruct (umap_prefix s top R) as (inner & pmb & rs & re & Hsub & Hkeys).
    destruct (lower_bound_range _ _ _ _ Hsa Hlb) as [Hidx Hlt]. specialize (Hlt eq_refl).
    unfold ukeys in Hidx, Hlt. rewrite zlen_map in Hidx, Hlt.
    destruct (ulist_remove_general pi1 t v it k items idx (idx + 1) Hres ltac:(lia) s top R) as (s' & top' & Hrm & R' & Hcap & Href).
    exists s', top'. split; [|split; [exact R'|split; [exact Hcap|split; [exact Href|]]]].
    - unfold umap_remove_op. rewrite Hsub. cbn [obind]. rewrite Hkeys. cbn [obind]. rewrite Hlb.
      rewrite mpath_snoc. fold pi1. rewrite Hrm. reflexivity.
    - unfold items', ukeys. rewrite map_remove_at. apply sa_remove_one; [lia|exact Hsa].
  Qed.

  (* the key is absent: nothing changes, `false` *)
  Theorem umap_remove_absent s top idx :
    RepF pi1 t v s top -> lower_bound (ukeys items) key 0 = (idx, false) ->
    umap_remove_op t s top (mpath pi) k key = Ok (s, top, [0]).
  Proof.
    intros R Hlb. destruct (umap_prefix s top R) as (inner & pmb & rs & re & Hsub & Hkeys).
    unfold umap_remove_op. rewrite Hsub. cbn [obind]. rewrite Hkeys. cbn [obind]. rewrite Hlb. reflexivity.
  Qed.

  (* the key is absent: (key, default) is inserted at the lower bound, `true` (the new-key branch of
     UnsizedMap::insert with the default initializer) *)
  Theorem umap_insert_absent ovf s top idx :
    RepF pi1 t v s top -> zero_ok it = true -> 0 <= key < 256 ^ Z.of_nat k ->
    lower_bound (ukeys items) key 0 = (idx, false) ->
    m_refuse s <> 1 -> m_len s + (zlen (encode it (dflt it)) + (4 + Z.of_nat k)) <= m_cap s ->
    let items' := firstn (Z.to_nat idx) items ++ (le_bytes k key, dflt it) :: skipn (Z.to_nat idx) items in
    exists s' top',
      umap_insert_op ovf t s top (mpath pi) it k key 0 = Ok (s', top', [1]) /\
      RepF pi1 t (plug t v pi1 (VUList items')) s' top' /\
      m_cap s' = m_cap s /\ m_refuse s' = m_refuse s /\
      strictly_ascending (ukeys items') = true.
  Proof.
    intros R Hz Hkey Hlb Hnr Hroom items'. pose proof (umap_sorted s top R) as Hsa.
    destruct (umap_prefix s top R) as (inner & pmb & rs & re & Hsub & Hkeys).
    destruct (lower_bound_range _ _ _ _ Hsa Hlb) as [Hidx _]. unfold ukeys in Hidx. rewrite zlen_map in Hidx.
    pose proof R as [Hpl Hok Hwf [junk Hmem] Hlen HL Hc32].
    pose proof (resolve_wf _ _ _ _ _ Hwf Hres) as HwU.
    pose proof (resolve_plain _ _ _ _ _ Hpl Hres) as HpU. cbn [plain] in HpU.
    destruct (init_default_exact it HpU Hz) as (Hinit & Hisz & Hdv).
    pose proof (ulist_facts _ _ _ HwU) as F. pose proof (zlen_encode_ulist _ _ _ F) as HzX.
    pose proof (uf_n _ _ _ F) as Hn. pose proof (uf_usz _ _ _ F) as Hu.
    set (dsz := zlen (encode it (dflt it))) in *. pose proof (zlen_nonneg (encode it (dflt it))) as Hd0. fold dsz in Hd0.
    (* the list fits the allocation, which is below 2^32 *)
    assert (Hin : zlen (encode (TUList it k) (VUList items)) <= m_len s).
    { rewrite Hlen, (hctx_encode _ _ _ _ _ Hres), !zlen_app.
      pose proof (zlen_nonneg (fst (hctx t v pi1 0))). pose proof (zlen_nonneg (snd (hctx t v pi1 0))). lia. }
    assert (Hsa' : strictly_ascending (ukeys items') = true).
    { unfold items', ukeys. rewrite map_insert_at. cbn [fst]. rewrite le_decode_le_bytes by exact Hkey.
      apply sa_insert; assumption. }
    assert (Hszs : map (fun kv => byte_size it (snd kv)) items = usizes it items).
    { unfold usizes, uenc. rewrite map_map. symmetry. apply map_ext_in. intros kv Hkv. apply encode_size.
      pose proof (uf_wfs _ _ _ F) as W. rewrite forallb_forall in W. exact (W _ Hkv). }
    assert (Hwf' : wf (TUList it k) (VUList items') = true).
    { pose proof HwU as W. cbn [wf] in W. apply andb_true_iff in W as [_ Hit].
      cbn [wf]. fold (ukeys items'). rewrite Hsa', orb_true_r, andb_true_r.
      assert (Hn' : zlen items' = zlen items + 1).
      { unfold items'. rewrite zlen_app, zlen_cons. unfold zlen. rewrite firstn_length, skipn_length. unfold zlen in Hidx. lia. }
      assert (Hs' : zsum (map (fun kv => byte_size it (snd kv)) items') = zsum (usizes it items) + dsz).
      { unfold items'. rewrite map_app, zsum_app. cbn [map zsum snd]. rewrite <- Hszs.
        rewrite (zsum_map_split _ items (Z.to_nat idx)), <- (encode_size _ _ Hdv). fold dsz. lia. }
      rewrite Hn', Hs'.
      destruct (zlen items + 1 <? U32_LIMIT) eqn:Ea; [|zb; unfold U32_LIMIT in *; nia].
      destruct (zsum (usizes it items) + dsz <? U32_LIMIT) eqn:Eb; [|zb; unfold U32_LIMIT in *; nia].
      cbn [andb]. apply forallb_insert_at; [exact Hit|]. cbn [fst snd].
      rewrite le_bytes_length, Nat.eqb_refl, le_bytes_ok, Hdv. reflexivity. }
    destruct (ulist_insert_general pi1 t v it k items idx 0 [le_bytes k key] (dflt it) Hres Hinit Hisz Hidx
                ltac:(constructor; [apply le_bytes_length|constructor]) ltac:(discriminate) Hwf' s top R Hnr)
      as (s' & top' & Hins & R' & Hcap & Href).
    { change (zlen [le_bytes k key]) with 1. fold dsz. lia. }
    exists s', top'. split; [|split; [exact R'|split; [exact Hcap|split; [exact Href|exact Hsa']]]].
    unfold umap_insert_op. rewrite Hsub. cbn [obind]. rewrite Hkeys. cbn [obind]. rewrite Hlb.
    rewrite mpath_snoc. fold pi1. rewrite Hins. reflexivity.
  Qed.
End umap_ops.

(* ---------------------------------------------------------------------------------------------- *)
(* 6. Map<K, V, L>: BTreeMap::insert / remove; an item is key bytes followed by value bytes          *)
Lemma nth_error_map_inv {A B} (f : A -> B) l i y : nth_error (map f l) i = Some y ->
  exists x, nth_error l i = Some x /\ f x = y.
Proof.
  intros H. destruct (nth_error l i) as [x|] eqn:E.
  - rewrite (map_nth_error f _ _ E) in H. injection H as <-. exists x. auto.
  - apply nth_error_None in E. assert (nth_error (map f l) i = None) by (apply nth_error_None; rewrite map_length; lia). congruence.
Qed.

Section map_ops.
  Variables (pi : list step) (t : ty) (v : val) (c : fcheck) (lw : nat) (items : list (list Z)) (key : list Z).
  Let pi1 := pi ++ [SF 0].
  Let ksz := length key.
  Hypothesis Hres : resolve t v pi1 = Some (TList c lw, VList items).
  Hypothesis Hsa : strictly_ascending (lkeys ksz items) = true.
  Let esz := Z.of_nat (fsize c).
  Let ax := addr_of t v pi1 0.

  Lemma map_prefix s top : RepF pi1 t v s top ->
    sub t top (mpath pi ++ [PF 0]) = Ok (TList c lw, PList ax (esz * zlen items)) /\
    list_keys c lw (length key) (m_mem s) ax (esz * zlen items) = Ok (lkeys ksz items).
  Proof.
    intros R. destruct (glist_located pi1 t v c lw items Hres s top R) as (Hsub & _).
    rewrite mpath_snoc. split; [exact Hsub|]. unfold esz, ax.
    exact (list_keys_rep pi1 t v c lw items Hres (length key) s top R).
  Qed.

  (* the key is present: the item is removed, `true` *)
  Theorem map_remove_present s top idx :
    RepF pi1 t v s top -> lower_bound (lkeys ksz items) (le_decode key) 0 = (idx, true) ->
    let items' := firstn (Z.to_nat idx) items ++ skipn (Z.to_nat (idx + 1)) items in
    exists s' top',
      map_remove_op t s top (mpath pi) c lw key = Ok (s', top', [1]) /\
      RepF pi1 t (plug t v pi1 (VList items')) s' top' /\
      m_cap s' = m_cap s /\ m_refuse s' = m_refuse s /\
      strictly_ascending (lkeys ksz items') = true.
  Proof.
    intros R Hlb items'. destruct (map_prefix s top R) as (Hsub & Hkeys).
    destruct (lower_bound_range _ _ _ _ Hsa Hlb) as [Hidx Hlt]. specialize (Hlt eq_refl).
    unfold lkeys in Hidx, Hlt. rewrite zlen_map in Hidx, Hlt.
    destruct (list_remove_general pi1 t v c lw items idx (idx + 1) Hres ltac:(lia) s top R) as (s' & top' & Hrm & R' & Hcap & Href).
    exists s', top'. split; [|split; [exact R'|split; [exact Hcap|split; [exact Href|]]]].
    - unfold map_remove_op. rewrite Hsub. cbn [obind]. rewrite Hkeys. cbn [obind]. rewrite Hlb.
      rewrite mpath_snoc. fold pi1. rewrite Hrm. reflexivity.
    - unfold items', lkeys. rewrite map_remove_at. apply sa_remove_one; [lia|exact Hsa].
  Qed.

  (* the key is absent: nothing changes, `false` *)
  Theorem map_remove_absent s top idx :
    RepF pi1 t v s top -> lower_bound (lkeys ksz items) (le_decode key) 0 = (idx, false) ->
    map_remove_op t s top (mpath pi) c lw key = Ok (s, top, [0]).
  Proof.
    intros R Hlb. destruct (map_prefix s top R) as (Hsub & Hkeys).
    unfold map_remove_op. rewrite Hsub. cbn [obind]. rewrite Hkeys. cbn [obind]. rewrite Hlb. reflexivity.
  Qed.

  Variable value : list Z.
  Hypothesis Hkv : item_ok c (key ++ value).

  Lemma key_of_new : le_decode (firstn ksz (key ++ value)) = le_decode key.
  Proof. unfold ksz. now rewrite firstn_app_exact. Qed.

  (* the key is absent: key ++ value is inserted at the lower bound (the runner reports 0 = "no previous value") *)
  Theorem map_insert_absent s top idx :
    RepF pi1 t v s top -> lower_bound (lkeys ksz items) (le_decode key) 0 = (idx, false) ->
    m_refuse s <> 1 -> m_len s + esz <= m_cap s ->
    zlen items + 1 < 256 ^ Z.of_nat lw -> esz * (zlen items + 1) < U64_LIMIT ->
    let items' := firstn (Z.to_nat idx) items ++ (key ++ value) :: skipn (Z.to_nat idx) items in
    exists s' top',
      map_insert_op t s top (mpath pi) c lw key value = Ok (s', top', [0]) /\
      RepF pi1 t (plug t v pi1 (VList items')) s' top' /\
      m_cap s' = m_cap s /\ m_refuse s' = m_refuse s /\
      strictly_ascending (lkeys ksz items') = true.
  Proof.
    intros R Hlb Hnr Hroom Hfit Hmul items'.
    destruct (map_prefix s top R) as (Hsub & Hkeys).
    destruct (lower_bound_range _ _ _ _ Hsa Hlb) as [Hidx _]. unfold lkeys in Hidx. rewrite zlen_map in Hidx.
    destruct (list_insert_general pi1 t v c lw items [key ++ value] idx Hres Hidx ltac:(constructor; [exact Hkv|constructor])
                ltac:(discriminate) Hfit Hmul s top R Hnr) as (s' & top' & Hins & R' & Hcap & Href).
    { change (zlen [key ++ value]) with 1. fold esz. lia. }
    exists s', top'. split; [|split; [exact R'|split; [exact Hcap|split; [exact Href|]]]].
    - unfold map_insert_op. rewrite Hsub. cbn [obind]. rewrite Hkeys. cbn [obind]. rewrite Hlb.
      rewrite mpath_snoc. fold pi1. rewrite Hins. reflexivity.
    - unfold items', lkeys. rewrite map_insert_at, key_of_new. apply sa_insert; assumption.
  Qed.

  (* the key is present: the value bytes of that item are overwritten in place (the runner reports 1 = "had a value") *)
  Theorem map_insert_present s top idx :
    RepF pi1 t v s top -> lower_bound (lkeys ksz items) (le_decode key) 0 = (idx, true) ->
    let items' := firstn (Z.to_nat idx) items ++ (key ++ value) :: skipn (S (Z.to_nat idx)) items in
    exists s',
      map_insert_op t s top (mpath pi) c lw key value = Ok (s', top, [1]) /\
      RepF pi1 t (plug t v pi1 (VList items')) s' top /\
      m_cap s' = m_cap s /\ m_refuse s' = m_refuse s /\
      lkeys ksz items' = lkeys ksz items /\ strictly_ascending (lkeys ksz items') = true.
  Proof.
    intros R Hlb items'.
    destruct (map_prefix s top R) as (Hsub & Hkeys).
    destruct (glist_facts pi1 t v c lw items Hres s top R) as (Hlw & Hes & Hn & Hm & Hitems).
    pose proof (lower_bound_spec (lkeys ksz items) (le_decode key) Hsa) as Hspec. rewrite Hlb in Hspec.
    destruct Hspec as (Hidx & _ & _ & Hnth & _). pose proof (proj1 Hnth eq_refl) as Hk. clear Hnth.
    set (i := Z.to_nat idx) in *.
    destruct (nth_error_map_inv _ _ _ _ Hk) as (cur & Hcur & Hdk).
    (* the stored key IS the key *)
    destruct Hkv as (Hnl & Hnb & Hnv). rewrite app_length in Hnl. rewrite bytes_ok_app in Hnb. apply andb_true_iff in Hnb as [Hkb Hvb].
    assert (Hcurok : item_ok c cur) by (apply (proj1 (Forall_forall _ _) Hitems); eapply nth_error_In; eauto).
    destruct Hcurok as (Hcl & Hcb & Hcv).
    assert (Hck : firstn ksz cur = key).
    { apply le_decode_inj; [apply bytes_ok_ztake with (n := Z.of_nat ksz) in Hcb; unfold ztake in Hcb; now rewrite Nat2Z.id in Hcb|exact Hkb| |exact Hdk].
      rewrite firstn_length. fold ksz in Hnl. lia. }
    set (oldv := skipn ksz cur).
    assert (Hcs : cur = key ++ oldv) by (rewrite <- Hck; subst oldv; symmetry; apply firstn_skipn).
    assert (Hzo : zlen oldv = zlen value).
    { subst oldv. unfold zlen. rewrite skipn_length. fold ksz in Hnl. lia. }
    set (hd := concat (firstn i items)). set (tl := concat (skipn (S i) items)). set (len := zlen items) in *.
    assert (Hcat : concat items = hd ++ cur ++ tl) by (apply concat_split_nth; exact Hcur).
    assert (Hhd : zlen hd = esz * idx).
    { subst hd. rewrite (zlen_concat_fixed _ (fsize c)).
      - unfold zlen at 1. rewrite firstn_length. subst esz i.
        assert (Z.to_nat idx < length items)%nat by (apply nth_error_Some; congruence). f_equal. lia.
      - apply Forall_item_len. apply Forall_firstn'. exact Hitems. }
    assert (Hlen' : zlen items' = len).
    { subst items'. rewrite zlen_app, zlen_cons. unfold zlen at 1 2. rewrite firstn_length, skipn_length. subst len. unfold zlen.
      assert (i < length items)%nat by (apply nth_error_Some; congruence). lia. }
    assert (Hitems' : Forall (item_ok c) items').
    { subst items'. apply Forall_app. split; [apply Forall_firstn'; exact Hitems|].
      constructor; [|apply Forall_skipn'; exact Hitems].
      unfold item_ok. rewrite app_length, bytes_ok_app, Hkb, Hvb. auto. }
    assert (HencX : encode (TList c lw) (VList items) = (le_bytes lw len ++ hd ++ key) ++ oldv ++ tl).
    { cbn [encode]. fold len. rewrite Hcat, Hcs, <- !app_assoc. reflexivity. }
    assert (HencX' : encode (TList c lw) (VList items') = (le_bytes lw len ++ hd ++ key) ++ value ++ tl).
    { cbn [encode]. rewrite Hlen'. subst items' hd tl. rewrite concat_app. cbn [concat]. now rewrite <- !app_assoc. }
    assert (HwfX' : wf (TList c lw) (VList items') = true).
    { cbn [wf]. rewrite (proj2 (wf_items_forall c items') Hitems'), Hlen'.
      destruct (len <? 256 ^ Z.of_nat lw) eqn:Ea; [|zb; lia].
      destruct (Z.of_nat (fsize c) * len <? U64_LIMIT) eqn:Eb; [reflexivity|zb; subst esz; lia]. }
    destruct (store_inside pi1 t v _ _ (VList items') Hres s top (le_bytes lw len ++ hd ++ key) oldv value tl R HencX HencX'
                ltac:(lia) HwfX') as (m1 & _ & Hwr & R' & Hcap').
    { intros a node HLn. destruct node; try (cbn in HLn; contradiction). cbn [Lay] in *. rewrite Hlen'. exact HLn. }
    assert (Hkeys' : lkeys ksz items' = lkeys ksz items).
    { unfold items', lkeys. rewrite map_app. cbn [map]. rewrite key_of_new, <- firstn_map, <- skipn_map.
      symmetry. apply nth_error_split3. exact Hk. }
    exists (set_mem s m1). split; [|split; [exact R'|split; [exact Hcap'|split; [reflexivity|split; [exact Hkeys'|now rewrite Hkeys']]]]].
    unfold map_insert_op. rewrite Hsub. cbn [obind]. rewrite Hkeys. cbn [obind]. rewrite Hlb.
    replace (ax + Z.of_nat lw + idx * Z.of_nat (fsize c) + zlen key) with (addr_of t v pi1 0 + zlen (le_bytes lw len ++ hd ++ key))
      by (rewrite !zlen_app, zlen_le_bytes, Hhd; subst ax esz; lia).
    rewrite Hwr. reflexivity.
  Qed.
End map_ops.

(* ---------------------------------------------------------------------------------------------- *)
(* 7. from the wrapping struct to the list inside, and from the runner's step function to the operations *)
Lemma resolve_app_intro : forall p r t v tc vc, resolve t v p = Some (tc, vc) -> resolve t v (p ++ r) = resolve tc vc r.
Proof.
  induction p as [|st p IH]; intros r t v tc vc H.
  - cbn [resolve] in H. injection H as -> ->. reflexivity.
  - cbn [app]. destruct st as [i|i|]; cbn [resolve] in *.
    + destruct t as [| | | |ts|]; try discriminate. destruct v as [| | |vs|]; try discriminate.
      destruct (nth_error ts i); [|discriminate]. destruct (nth_error vs i); [|discriminate]. now apply IH.
    + destruct t as [| | |it k| |]; try discriminate. destruct v as [| |items| |]; try discriminate.
      destruct (nth_error items i); [|discriminate]. now apply IH.
    + destruct t as [| | | | |rw vars]; try discriminate. destruct v as [| | | |d pv]; try discriminate.
      destruct (find_variant d vars); [|discriminate]. now apply IH.
Qed.

(* the one-field wrapper: the path to the container inside *)
Lemma resolve_wrapper pi t v X xv : resolve t v pi = Some (TStruct [X], VStruct [xv]) ->
  resolve t v (pi ++ [SF 0]) = Some (X, xv).
Proof. intros H. rewrite (resolve_app_intro _ _ _ _ _ _ H). reflexivity. Qed.

(* a state focused on the wrapper is focused on its field: a struct-field step needs no entering *)
Lemma repf_focus_field pi t v s top ts vs i ti vi :
  RepF pi t v s top -> resolve t v pi = Some (TStruct ts, VStruct vs) -> nth_error ts i = Some ti -> nth_error vs i = Some vi ->
  RepF (pi ++ [SF i]) t v s top.
Proof.
  intros R Hr Ht Hv. apply (repf_refocus _ _ _ _ _ _ _ R).
  exact (LayP_extend_SF pi t v 0 top ts vs i ti vi (rf_wf _ _ _ _ _ R) Hr Ht Hv (rf_top _ _ _ _ _ R)).
Qed.

Lemma repf_focus_wrapper pi t v s top X xv :
  RepF pi t v s top -> resolve t v pi = Some (TStruct [X], VStruct [xv]) -> RepF (pi ++ [SF 0]) t v s top.
Proof. intros R Hr. exact (repf_focus_field pi t v s top [X] [xv] 0 X xv R Hr eq_refl eq_refl). Qed.

Section at_wrapper.
  Variables (pi : list step) (t : ty) (v : val) (s : mach) (top : ptr).
  Hypothesis R : RepF (pi ++ [SF 0]) t v s top.

  Lemma wrapper_located W wv : resolve t v pi = Some (W, wv) -> exists node, sub t top (mpath pi) = Ok (W, node).
  Proof.
    intros Hw. pose proof (rf_top _ _ _ _ _ R) as HL. apply LayP_app in HL.
    destruct (LayP_get_at _ pi t v 0 top _ _ (rf_wf _ _ _ _ _ R) Hw HL) as (node & Hg & _).
    exists node. unfold sub. now rewrite Hg.
  Qed.

  Lemma exec_45_rep f ovf r c lw wv : resolve t v pi = Some (TStruct [TList c lw], wv) ->
    exec (S f) ovf t s top (mpath pi) (45 :: r) = set_insert_op t s top (mpath pi) c lw (hd [] (fst (dec_items 1 r))).
  Proof. intros Hw. destruct (wrapper_located _ _ Hw) as (node & Hs). rewrite exec_45, Hs. reflexivity. Qed.

  Lemma exec_46_rep f ovf r c lw wv : resolve t v pi = Some (TStruct [TList c lw], wv) ->
    exec (S f) ovf t s top (mpath pi) (46 :: r) = set_remove_op t s top (mpath pi) c lw (hd [] (fst (dec_items 1 r))).
  Proof. intros Hw. destruct (wrapper_located _ _ Hw) as (node & Hs). rewrite exec_46, Hs. reflexivity. Qed.

  Lemma exec_40_rep f ovf r c lw wv : resolve t v pi = Some (TStruct [TList c lw], wv) ->
    exec (S f) ovf t s top (mpath pi) (40 :: r) =
    map_insert_op t s top (mpath pi) c lw (hd [] (fst (dec_items 2 r))) (hd [] (tl (fst (dec_items 2 r)))).
  Proof. intros Hw. destruct (wrapper_located _ _ Hw) as (node & Hs). rewrite exec_40, Hs. reflexivity. Qed.

  Lemma exec_41_rep f ovf r c lw wv : resolve t v pi = Some (TStruct [TList c lw], wv) ->
    exec (S f) ovf t s top (mpath pi) (41 :: r) = map_remove_op t s top (mpath pi) c lw (hd [] (fst (dec_items 1 r))).
  Proof. intros Hw. destruct (wrapper_located _ _ Hw) as (node & Hs). rewrite exec_41, Hs. reflexivity. Qed.

  Lemma exec_50_rep f ovf key kind r it k wv : resolve t v pi = Some (TStruct [TUList it k], wv) ->
    exec (S f) ovf t s top (mpath pi) (50 :: key :: kind :: r) = umap_insert_op ovf t s top (mpath pi) it k key kind.
  Proof. intros Hw. destruct (wrapper_located _ _ Hw) as (node & Hs). rewrite exec_50, Hs. reflexivity. Qed.

  Lemma exec_51_rep f ovf key r it k wv : resolve t v pi = Some (TStruct [TUList it k], wv) ->
    exec (S f) ovf t s top (mpath pi) (51 :: key :: r) = umap_remove_op t s top (mpath pi) k key.
  Proof. intros Hw. destruct (wrapper_located _ _ Hw) as (node & Hs). rewrite exec_51, Hs. reflexivity. Qed.
End at_wrapper.

(* an end-to-end instance: the runner's Set insert step on a represented state focused on the wrapper *)
Corollary exec_set_insert_absent pi t v c lw items x s top idx f ovf r :
  RepF pi t v s top -> resolve t v pi = Some (TStruct [TList c lw], VStruct [VList items]) ->
  hd [] (fst (dec_items 1 r)) = x -> item_ok c x ->
  strictly_ascending (map le_decode items) = true ->
  lower_bound (map le_decode items) (le_decode x) 0 = (idx, false) ->
  m_refuse s <> 1 -> m_len s + Z.of_nat (fsize c) <= m_cap s ->
  zlen items + 1 < 256 ^ Z.of_nat lw -> Z.of_nat (fsize c) * (zlen items + 1) < U64_LIMIT ->
  let items' := firstn (Z.to_nat idx) items ++ x :: skipn (Z.to_nat idx) items in
  exists s' top',
    exec (S f) ovf t s top (mpath pi) (45 :: r) = Ok (s', top', [1]) /\
    RepF (pi ++ [SF 0]) t (plug t v (pi ++ [SF 0]) (VList items')) s' top' /\
    m_cap s' = m_cap s /\ m_refuse s' = m_refuse s /\ strictly_ascending (map le_decode items') = true.
Proof.
  intros R Hw Hx Hok Hsa Hlb Hnr Hroom Hfit Hmul items'.
  pose proof (repf_focus_wrapper _ _ _ _ _ _ _ R Hw) as R1. pose proof (resolve_wrapper _ _ _ _ _ Hw) as Hres.
  rewrite (exec_45_rep pi t v s top R1 f ovf r c lw _ Hw), Hx.
  exact (set_insert_absent pi t v c lw items x Hres Hsa s top idx R1 Hok Hlb Hnr Hroom Hfit Hmul).
Qed.

Print Assumptions lower_bound_spec.
Print Assumptions sa_insert.
Print Assumptions list_keys_rep.
Print Assumptions ulist_keys_rep.
Print Assumptions set_insert_absent.
Print Assumptions set_insert_present.
Print Assumptions set_remove_present.
Print Assumptions set_remove_absent.
Print Assumptions umap_insert_absent.
Print Assumptions umap_remove_present.
Print Assumptions umap_remove_absent.
Print Assumptions map_insert_absent.
Print Assumptions map_insert_present.
Print Assumptions map_remove_present.
Print Assumptions map_remove_absent.
Print Assumptions exec_50_rep.
Print Assumptions exec_set_insert_absent.
