(* The context of a replaced sub-value inside the NEW value; its address; plugging the same sub-value back. *)
From SF Require Import Base.Prelude Gen.Generated Unsized.Types Unsized.Parse Unsized.Machine Unsized.Ops.
From SF Require Import Unsized.Proofs.EncodeParse Unsized.Proofs.Mem Unsized.Proofs.Notify Unsized.Proofs.Flat Unsized.Proofs.Layout Unsized.Proofs.Table Unsized.Proofs.Path Unsized.Proofs.Context.
From SF Require Import Unsized.Proofs.EnumFacts.

Arguments Z.add : simpl never.
Arguments Z.sub : simpl never.
Arguments Z.mul : simpl never.
Arguments Z.of_nat : simpl never.
Arguments Z.pow : simpl never.
Arguments Z.modulo : simpl never.

Lemma firstn_set_nth {A} (l : list A) : forall i x, firstn i (set_nth i x l) = firstn i l.
Proof.
  induction l as [|a l IH]; intros [|i] x; cbn [set_nth firstn]; try reflexivity. f_equal. apply IH.
Qed.

Lemma skipn_set_nth {A} (l : list A) : forall i x, skipn (S i) (set_nth i x l) = skipn (S i) l.
Proof.
  induction l as [|a l IH]; intros [|i] x; cbn [set_nth skipn]; try reflexivity. apply IH.
Qed.

Lemma set_nth_same {A} (l : list A) : forall i x, nth_error l i = Some x -> set_nth i x l = l.
Proof.
  induction l as [|a l IH]; intros [|i] x H; cbn [nth_error] in H; try discriminate.
  - injection H as ->. reflexivity.
  - cbn [set_nth]. f_equal. exact (IH i x H).
Qed.

(* the context of the replaced sub-value inside the NEW value is the old context with the ancestors' headers adjusted *)
Lemma hctx_of_plug t v pi X xv x' d : resolve t v pi = Some (X, xv) ->
  d = zlen (encode X x') - zlen (encode X xv) ->
  hctx t (plug t v pi x') pi 0 = (fst (hctx t v pi d), snd (hctx t v pi 0)).
Proof.
  intros Hr ->. revert t v Hr. induction pi as [|[i|i|] r IH]; intros t v Hr.
  - reflexivity.
  - apply resolve_SF_inv in Hr as (ts & vs & ti & vi & -> & -> & Hti & Hvi & Hr).
    rewrite (plug_SF _ _ _ _ _ _ _ Hti Hvi).
    rewrite (hctx_SF _ _ _ _ _ _ Hti (nth_error_set_nth _ _ _ _ Hvi)).
    rewrite !(hctx_SF _ _ _ _ _ _ Hti Hvi). cbn [fst snd].
    rewrite (IH _ _ Hr), firstn_set_nth, skipn_set_nth. reflexivity.
  - apply resolve_SE_inv in Hr as (it & k & items & kv & -> & -> & Hkv & Hr).
    rewrite (plug_SE _ _ _ _ _ _ _ Hkv).
    rewrite (hctx_SE _ _ _ _ _ _ (nth_error_set_nth _ _ _ _ Hkv)).
    rewrite !(hctx_SE _ _ _ _ _ _ Hkv). cbn [fst snd].
    rewrite (IH _ _ Hr). cbn [fst snd].
    rewrite bump_zero, (usizes_set_nth _ _ _ _ _ Hkv), (keys_set_nth _ _ _ _ Hkv), uenc_set_nth,
      firstn_set_nth, skipn_set_nth.
    replace (zlen (encode it (plug it (snd kv) r x')) - zlen (encode it (snd kv)))
      with (zlen (encode X x') - zlen (encode X xv)) by (rewrite (hctx_plug_len _ _ _ _ _ x' Hr); lia).
    reflexivity.
  - apply resolve_SV_inv in Hr as (rw & vars & d0 & p & vt & -> & -> & Hf & Hr).
    rewrite (plug_SV _ _ _ _ _ _ _ Hf). rewrite !(hctx_SV _ _ _ _ _ _ Hf). cbn [fst snd].
    rewrite (IH _ _ Hr). reflexivity.
Qed.

Corollary addr_of_plug t v pi X xv x' b :
  resolve t v pi = Some (X, xv) -> addr_of t (plug t v pi x') pi b = addr_of t v pi b.
Proof.
  intros Hr. unfold addr_of. rewrite (hctx_of_plug _ _ _ _ _ x' _ Hr eq_refl). cbn [fst].
  now rewrite hctx_fst_len.
Qed.

(* the untouched-value special case *)
Lemma plug_same t v pi X xv : resolve t v pi = Some (X, xv) -> plug t v pi xv = v.
Proof.
  revert t v. induction pi as [|[i|i|] r IH]; intros t v Hr.
  - cbn [resolve] in Hr. injection Hr as _ ->. reflexivity.
  - apply resolve_SF_inv in Hr as (ts & vs & ti & vi & -> & -> & Hti & Hvi & Hr).
    rewrite (plug_SF _ _ _ _ _ _ _ Hti Hvi), (IH _ _ Hr), (set_nth_same _ _ _ Hvi). reflexivity.
  - apply resolve_SE_inv in Hr as (it & k & items & kv & -> & -> & Hkv & Hr).
    rewrite (plug_SE _ _ _ _ _ _ _ Hkv), (IH _ _ Hr).
    replace (fst kv, snd kv) with kv by (destruct kv; reflexivity).
    rewrite (set_nth_same _ _ _ Hkv). reflexivity.
  - apply resolve_SV_inv in Hr as (rw & vars & d0 & p & vt & -> & -> & Hf & Hr).
    rewrite (plug_SV _ _ _ _ _ _ _ Hf), (IH _ _ Hr). reflexivity.
Qed.

Print Assumptions hctx_of_plug.
