(* Types all of whose values occupy at least one byte: what makes the offsets of a list of unsized elements strictly
   increasing.  Every element type through which a path reaches a container is one. *)
From SF Require Import Base.Prelude Gen.Generated Unsized.Types Unsized.Parse Unsized.Machine Unsized.Ops.
From SF Require Import Unsized.Proofs.EncodeParse Unsized.Proofs.Mem Unsized.Proofs.Notify Unsized.Proofs.Flat Unsized.Proofs.Layout
  Unsized.Proofs.Table Unsized.Proofs.Path.
From SF Require Import Unsized.Proofs.EnumFacts.

Arguments Z.add : simpl never.
Arguments Z.sub : simpl never.
Arguments Z.mul : simpl never.
Arguments Z.of_nat : simpl never.
Arguments Z.pow : simpl never.
Arguments Z.modulo : simpl never.

Fixpoint tpos (t : ty) : bool :=
  match t with
  | TFixed c => negb (fsize c =? 0)%nat
  | TList _ lw => negb (lw =? 0)%nat
  | TRem => false
  | TUList _ _ => true
  | TStruct ts => (fix go ts := match ts with [] => false | t :: r => tpos t || go r end) ts
  | TEnum rw _ => negb (rw =? 0)%nat   (* the discriminant *)
  end.

Lemma tpos_struct_cons t ts : tpos (TStruct (t :: ts)) = tpos t || tpos (TStruct ts).
Proof. reflexivity. Qed.

Theorem tpos_pos : forall t v, tpos t = true -> wf t v = true -> 0 < zlen (encode t v).
Proof.
  induction t as [c|c lw| |it k IH|ts IH|rw vs IH] using ty_ind'; intros v Hp Hwf.
  - destruct v as [bs| | | |]; try (cbn in Hwf; discriminate). cbn [wf] in Hwf. zb.
    match goal with H : (_ =? _)%nat = true |- _ => apply Nat.eqb_eq in H; rename H into Hl end.
    cbn [tpos] in Hp. apply negb_true_iff, Nat.eqb_neq in Hp. cbn [encode]. unfold zlen. lia.
  - destruct v as [|items| | |]; try (cbn in Hwf; discriminate).
    cbn [tpos] in Hp. apply negb_true_iff, Nat.eqb_neq in Hp. cbn [encode].
    rewrite zlen_app, zlen_le_bytes. pose proof (zlen_nonneg (concat items)). lia.
  - discriminate.
  - destruct v as [| |items| |]; try (cbn in Hwf; discriminate).
    pose proof (ulist_facts _ _ _ Hwf) as F. rewrite (zlen_encode_ulist _ _ _ F).
    pose proof (uf_n _ _ _ F). pose proof (uf_usz _ _ _ F). nia.
  - destruct v as [| | |vs0|]; try (cbn in Hwf; discriminate).
    revert vs0 Hp Hwf. induction IH as [|t ts Ht _ IHts]; intros vs0 Hp Hwf; [discriminate|].
    destruct vs0 as [|v vs0]; [cbn in Hwf; discriminate|].
    rewrite wf_struct_cons in Hwf. apply andb_true_iff in Hwf as [Hv Hvs].
    rewrite tpos_struct_cons in Hp. rewrite encode_struct_cons, zlen_app.
    pose proof (zlen_nonneg (encode t v)). pose proof (zlen_nonneg (encode (TStruct ts) (VStruct vs0))).
    apply orb_true_iff in Hp as [Hp|Hp]; [specialize (Ht v Hp Hv); lia|specialize (IHts vs0 Hp Hvs); lia].
  - destruct v as [| | | |d pv]; try (cbn in Hwf; discriminate).
    destruct (wf_enum_inv _ _ _ _ Hwf) as (_ & vt & Hf & _).
    cbn [tpos] in Hp. apply negb_true_iff, Nat.eqb_neq in Hp.
    rewrite (zlen_encode_enum _ _ _ _ _ Hf). pose proof (zlen_nonneg (encode vt pv)). lia.
Qed.

Lemma tpos_nth ts i ti : nth_error ts i = Some ti -> tpos ti = true -> tpos (TStruct ts) = true.
Proof.
  revert i. induction ts as [|t ts IH]; intros [|i] H Hp; cbn [nth_error] in H; try discriminate.
  - injection H as ->. rewrite tpos_struct_cons, Hp. reflexivity.
  - rewrite tpos_struct_cons, (IH i H Hp). apply orb_true_r.
Qed.

Lemma ty_ok_false_nth ts i ti : ty_ok false (TStruct ts) = true -> nth_error ts i = Some ti -> ty_ok false ti = true.
Proof.
  revert i. induction ts as [|t ts IH]; intros [|i] Hok H; cbn [nth_error] in H; try discriminate.
  - injection H as ->. destruct ts as [|t2 ts]; [now rewrite ty_ok_struct_one in Hok|].
    rewrite ty_ok_struct_cons in Hok. now apply andb_true_iff in Hok as [Hok _].
  - destruct ts as [|t2 ts]; [destruct i; discriminate|].
    rewrite ty_ok_struct_cons in Hok. apply andb_true_iff in Hok as [_ Hok]. exact (IH i Hok H).
Qed.

(* a type in non-tail position through which a path reaches a container always occupies bytes *)
Theorem resolve_tpos : forall pi t v X xv,
  ty_ok false t = true -> resolve t v pi = Some (X, xv) -> container X = true -> tpos t = true.
Proof.
  induction pi as [|s r IH]; intros t v X xv Hok Hr Hc.
  - cbn [resolve] in Hr. injection Hr as <- <-.
    destruct t; try discriminate; cbn [ty_ok tpos] in *; try reflexivity.
    apply andb_true_iff in Hok as [Hok _]. apply andb_true_iff in Hok as [Hok _]. exact Hok.
  - destruct s as [i|i|]; cbn [resolve] in Hr.
    + destruct t as [| | | |ts|]; try discriminate. destruct v as [| | |vs|]; try discriminate.
      destruct (nth_error ts i) as [ti|] eqn:Et; [|discriminate]. destruct (nth_error vs i) as [vi|] eqn:Ev; [|discriminate].
      apply (tpos_nth ts i ti Et). apply (IH ti vi X xv); auto. eapply ty_ok_false_nth; eauto.
    + destruct t as [| | |it k| |]; try discriminate. reflexivity.
    + destruct t as [| | | | |rw vars]; try discriminate.
      cbn [ty_ok] in Hok. apply andb_true_iff in Hok as [Hok _]. apply andb_true_iff in Hok as [Hok _]. exact Hok.
Qed.

(* all element sizes of a well-formed list whose element type always occupies bytes are positive *)
Lemma usizes_pos it k items : tpos it = true -> wf (TUList it k) (VUList items) = true ->
  Forall (fun s => 0 < s) (usizes it items).
Proof.
  intros Hp Hwf. pose proof (uf_wfs _ _ _ (ulist_facts _ _ _ Hwf)) as Hw.
  apply Forall_forall. intros x Hin. unfold usizes, uenc in Hin. rewrite map_map in Hin.
  apply in_map_iff in Hin as [kv [<- Hin]]. apply tpos_pos; [exact Hp|].
  rewrite forallb_forall in Hw. exact (Hw kv Hin).
Qed.
