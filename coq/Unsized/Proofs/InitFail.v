(* D16, stated and machine-checked as a refutation: the clean-failure theorems of History / History4 (a failing operation
   leaves a state that still represents the owned model's value) carry the hypothesis that elements are created by the
   DEFAULT initializer, which cannot fail.  Without that hypothesis the statement is FALSE of the faithful model, exactly
   as it is false of the implementation (known finding D16): `UnsizedList::insert` with an initializer that fails
   (a 300-item array into a list with a one-byte length prefix: E_TOPRIM) has already grown the container, rewritten its
   header and shifted the offset table when the initializer runs; the error is returned and the modified value stays.
   The witness below is replayed on the implementation by the registered checks of C01 / C06 (KNOWN-FINDING D16). *)
From SF Require Import Base.Prelude Gen.Generated Unsized.Types Unsized.Parse Unsized.Machine Unsized.Ops Unsized.Run.

Definition d16_t : ty := TStruct [TUList (TList (FAny 1) 1) 0; TRem].
Definition d16_v : val := VStruct [VUList [([], VList [[5]])]; VBytes [9]].
Definition d16_s : mach := mkMach (encode d16_t d16_v ++ zrepeat 0 10240) (zlen (encode d16_t d16_v)) 0 0.

(* the full-strength statement one would like ("every failing insert is clean"), specialised to ulist_insert *)
Definition insert_failure_clean : Prop :=
  forall t v s top ps idx kind keys s' top' c,
    wf t v = true -> ztake (m_len s) (m_mem s) = encode t v ->
    get_ptr true t (m_mem s) 0 (m_len s) = Ok (top, m_len s) ->
    ulist_insert t s top ps idx kind keys = Ok (s', top', [-1; c]) ->
    ztake (m_len s') (m_mem s') = encode t v.

Theorem insert_failure_clean_refuted : ~ insert_failure_clean.
Proof.
  intros H.
  destruct (get_ptr true d16_t (m_mem d16_s) 0 (m_len d16_s)) as [[top e]| | |] eqn:G; try (vm_compute in G; discriminate).
  assert (e = m_len d16_s) by (vm_compute in G; vm_compute; congruence). subst e.
  destruct (ulist_insert d16_t d16_s top [PF 0] 0 2 [[]]) as [[[s' top'] ob]| | |] eqn:I;
    try (vm_compute in G; injection G as <-; vm_compute in I; discriminate).
  assert (ob = [-1; E_TOPRIM]) by (vm_compute in G; injection G as <-; vm_compute in I; vm_compute; congruence). subst ob.
  specialize (H d16_t d16_v d16_s top [PF 0] 0 2 [[]] s' top' E_TOPRIM eq_refl eq_refl G I).
  vm_compute in G; injection G as <-. vm_compute in I. injection I as <- <-. vm_compute in H. discriminate H.
Qed.

(* what the state looks like afterwards: the bytes still parse, as a DIFFERENT value (a phantom empty element in front),
   and they are not the canonical encoding of that value either (300 initializer bytes belong to no element) *)
Example d16_aftermath :
  match get_ptr true d16_t (m_mem d16_s) 0 (m_len d16_s) with
  | Ok (top, _) =>
      match ulist_insert d16_t d16_s top [PF 0] 0 2 [[]] with
      | Ok (s', top', e) =>
          e = [-1; E_TOPRIM] /\
          let bs := ztake (m_len s') (m_mem s') in
          let v' := VStruct [VUList [([], VList []); ([], VList [[5]])]; VBytes [9]] in
          parse true d16_t bs = Ok (v', zlen bs) /\ owned_ptr true d16_t (m_mem s') top' = Ok v' /\
          v' <> d16_v /\ bs <> encode d16_t v' /\ zlen bs = zlen (encode d16_t d16_v) + 305
      | _ => False
      end
  | _ => False
  end.
Proof. vm_compute. repeat split; try reflexivity; discriminate. Qed.

Print Assumptions insert_failure_clean_refuted.
