(* The byte context of a sub-value (Path.v): it brackets the sub-value, and with the ancestors' headers adjusted
   it brackets the replaced sub-value; resolve / plug facts; well-formedness of a plugged value. *)
From SF Require Import Base.Prelude Gen.Generated Unsized.Types Unsized.Parse Unsized.Machine Unsized.Ops.
From SF Require Import Unsized.Proofs.EncodeParse Unsized.Proofs.Mem Unsized.Proofs.Notify Unsized.Proofs.Flat Unsized.Proofs.Layout Unsized.Proofs.Table Unsized.Proofs.Path.
From SF Require Import Unsized.Proofs.EnumFacts.

Arguments Z.add : simpl never.
Arguments Z.sub : simpl never.
Arguments Z.mul : simpl never.
Arguments Z.of_nat : simpl never.
Arguments Z.pow : simpl never.
Arguments Z.modulo : simpl never.

(* ---------------------------------------------------------------------------------------------- *)
(* list helpers                                                                                    *)
Lemma nth_error_split3 {A} (l : list A) : forall i x,
  nth_error l i = Some x -> l = firstn i l ++ x :: skipn (S i) l.
Proof.
  induction l as [|y l IH]; intros [|i] x H; cbn [nth_error] in H; try discriminate.
  - injection H as ->. reflexivity.
  - cbn [firstn skipn app]. f_equal. exact (IH i x H).
Qed.

Lemma nth_error_firstn_len {A} (l : list A) i x : nth_error l i = Some x -> length (firstn i l) = i.
Proof.
  intros H. assert (i < length l)%nat by (apply nth_error_Some; congruence).
  rewrite firstn_length. lia.
Qed.

Lemma set_nth_split {A} (l : list A) : forall i x y,
  nth_error l i = Some y -> set_nth i x l = firstn i l ++ x :: skipn (S i) l.
Proof.
  induction l as [|a l IH]; intros [|i] x y H; cbn [nth_error] in H; try discriminate.
  - reflexivity.
  - cbn [set_nth firstn skipn app]. f_equal. exact (IH i x y H).
Qed.

Lemma nth_error_set_nth {A} (l : list A) : forall i x y,
  nth_error l i = Some y -> nth_error (set_nth i x l) i = Some x.
Proof.
  induction l as [|a l IH]; intros [|i] x y H; cbn [nth_error] in H; try discriminate.
  - reflexivity.
  - cbn [set_nth nth_error]. exact (IH i x y H).
Qed.

Lemma map_set_nth {A B} (f : A -> B) l : forall i x, map f (set_nth i x l) = set_nth i (f x) (map f l).
Proof.
  induction l as [|a l IH]; intros [|i] x; cbn [set_nth map]; try reflexivity. f_equal. apply IH.
Qed.

Lemma map_set_nth_same {A B} (f : A -> B) l : forall i x y,
  nth_error l i = Some y -> f x = f y -> map f (set_nth i x l) = map f l.
Proof.
  induction l as [|a l IH]; intros [|i] x y H E; cbn [nth_error] in H; try discriminate.
  - injection H as ->. cbn [set_nth map]. now rewrite E.
  - cbn [set_nth map]. f_equal. exact (IH i x y H E).
Qed.

Lemma forallb_set_nth {A} (f : A -> bool) l : forall i x,
  forallb f l = true -> f x = true -> forallb f (set_nth i x l) = true.
Proof.
  induction l as [|a l IH]; intros [|i] x Hl Hx; cbn [set_nth forallb] in *; try reflexivity;
    apply andb_true_iff in Hl as [H1 H2]; apply andb_true_iff; split; auto.
Qed.

Lemma set_nth_bump l : forall i x y, nth_error l i = Some x -> set_nth i y l = bump i (y - x) l.
Proof.
  induction l as [|a l IH]; intros [|i] x y H; cbn [nth_error] in H; try discriminate.
  - injection H as ->. rewrite bump_cons_0. cbn [set_nth]. f_equal. lia.
  - rewrite bump_cons_S. cbn [set_nth]. f_equal. exact (IH i x y H).
Qed.

Lemma bump_zero l : forall i, bump i 0 l = l.
Proof.
  induction l as [|a l IH]; intros i; [apply bump_nil|].
  destruct i as [|i]; [rewrite bump_cons_0; f_equal; lia|rewrite bump_cons_S, IH; reflexivity].
Qed.

Lemma concat_split_nth {A} (U : list (list A)) i y :
  nth_error U i = Some y -> concat U = concat (firstn i U) ++ y ++ concat (skipn (S i) U).
Proof.
  intros H. transitivity (concat (firstn i U ++ y :: skipn (S i) U)).
  - f_equal. exact (nth_error_split3 _ _ _ H).
  - rewrite concat_app. reflexivity.
Qed.

Lemma concat_set_nth {A} (U : list (list A)) i e y :
  nth_error U i = Some y -> concat (set_nth i e U) = concat (firstn i U) ++ e ++ concat (skipn (S i) U).
Proof. intros H. rewrite (set_nth_split _ _ _ _ H), concat_app. reflexivity. Qed.

(* ---------------------------------------------------------------------------------------------- *)
(* structs around field i                                                                          *)
Lemma encs_split3 tsA ti tsB vsA vi vsB : length tsA = length vsA ->
  encs (tsA ++ ti :: tsB) (vsA ++ vi :: vsB) = encs tsA vsA ++ encode ti vi ++ encs tsB vsB.
Proof. intros H. rewrite encs_app by exact H. now rewrite encs_cons. Qed.

Lemma firstn_len_eq {A B} (ts : list A) (vs : list B) i ti vi :
  nth_error ts i = Some ti -> nth_error vs i = Some vi -> length (firstn i ts) = length (firstn i vs).
Proof. intros H1 H2. now rewrite (nth_error_firstn_len _ _ _ H1), (nth_error_firstn_len _ _ _ H2). Qed.

Lemma encs_split ts vs i ti vi : nth_error ts i = Some ti -> nth_error vs i = Some vi ->
  encode (TStruct ts) (VStruct vs) =
  encs (firstn i ts) (firstn i vs) ++ encode ti vi ++ encs (skipn (S i) ts) (skipn (S i) vs).
Proof.
  intros H1 H2. pose proof (nth_error_split3 _ _ _ H1) as Hts. pose proof (nth_error_split3 _ _ _ H2) as Hvs.
  transitivity (encs (firstn i ts ++ ti :: skipn (S i) ts) (firstn i vs ++ vi :: skipn (S i) vs)).
  - rewrite <- Hts, <- Hvs. reflexivity.
  - apply encs_split3. exact (firstn_len_eq _ _ _ _ _ H1 H2).
Qed.

Lemma encs_set_nth ts vs i ti vi v' : nth_error ts i = Some ti -> nth_error vs i = Some vi ->
  encode (TStruct ts) (VStruct (set_nth i v' vs)) =
  encs (firstn i ts) (firstn i vs) ++ encode ti v' ++ encs (skipn (S i) ts) (skipn (S i) vs).
Proof.
  intros H1 H2. pose proof (nth_error_split3 _ _ _ H1) as Hts. rewrite (set_nth_split _ _ _ _ H2).
  transitivity (encs (firstn i ts ++ ti :: skipn (S i) ts) (firstn i vs ++ v' :: skipn (S i) vs)).
  - rewrite <- Hts. reflexivity.
  - apply encs_split3. exact (firstn_len_eq _ _ _ _ _ H1 H2).
Qed.

Lemma wf_struct_split3 tsA ti tsB vsA vi vsB : length tsA = length vsA ->
  wf (TStruct (tsA ++ ti :: tsB)) (VStruct (vsA ++ vi :: vsB)) =
  wf (TStruct tsA) (VStruct vsA) && (wf ti vi && wf (TStruct tsB) (VStruct vsB)).
Proof. intros H. rewrite wf_struct_app by exact H. now rewrite wf_struct_cons. Qed.

Lemma wf_struct_split ts vs i ti vi : nth_error ts i = Some ti -> nth_error vs i = Some vi ->
  wf (TStruct ts) (VStruct vs) =
  wf (TStruct (firstn i ts)) (VStruct (firstn i vs)) && (wf ti vi && wf (TStruct (skipn (S i) ts)) (VStruct (skipn (S i) vs))).
Proof.
  intros H1 H2. pose proof (nth_error_split3 _ _ _ H1) as Hts. pose proof (nth_error_split3 _ _ _ H2) as Hvs.
  transitivity (wf (TStruct (firstn i ts ++ ti :: skipn (S i) ts)) (VStruct (firstn i vs ++ vi :: skipn (S i) vs))).
  - rewrite <- Hts, <- Hvs. reflexivity.
  - apply wf_struct_split3. exact (firstn_len_eq _ _ _ _ _ H1 H2).
Qed.

Lemma wf_struct_set_nth ts vs i ti vi v' : nth_error ts i = Some ti -> nth_error vs i = Some vi ->
  wf (TStruct ts) (VStruct (set_nth i v' vs)) =
  wf (TStruct (firstn i ts)) (VStruct (firstn i vs)) && (wf ti v' && wf (TStruct (skipn (S i) ts)) (VStruct (skipn (S i) vs))).
Proof.
  intros H1 H2. pose proof (nth_error_split3 _ _ _ H1) as Hts. rewrite (set_nth_split _ _ _ _ H2).
  transitivity (wf (TStruct (firstn i ts ++ ti :: skipn (S i) ts)) (VStruct (firstn i vs ++ v' :: skipn (S i) vs))).
  - rewrite <- Hts. reflexivity.
  - apply wf_struct_split3. exact (firstn_len_eq _ _ _ _ _ H1 H2).
Qed.

Lemma ty_ok_field last ts : forall i ti, ty_ok last (TStruct ts) = true -> nth_error ts i = Some ti ->
  exists l', ty_ok l' ti = true /\ (l' = true -> last = true).
Proof.
  induction ts as [|t ts IH]; intros i ti Hok Hn; [destruct i; discriminate|].
  destruct ts as [|t2 ts].
  - destruct i as [|i]; cbn [nth_error] in Hn; [|destruct i; discriminate].
    injection Hn as ->. rewrite ty_ok_struct_one in Hok. exists last. auto.
  - rewrite ty_ok_struct_cons in Hok. apply andb_true_iff in Hok as [H1 H2].
    destruct i as [|i]; cbn [nth_error] in Hn.
    + injection Hn as ->. exists false. split; [exact H1|discriminate].
    + exact (IH i ti H2 Hn).
Qed.

Lemma plain_field ts : forall i ti, plain (TStruct ts) = true -> nth_error ts i = Some ti -> plain ti = true.
Proof.
  induction ts as [|t ts IH]; intros [|i] ti H Hn; cbn [nth_error] in Hn; try discriminate;
    rewrite plain_struct_cons in H; apply andb_true_iff in H as [H1 H2].
  - injection Hn as <-. exact H1.
  - exact (IH i ti H2 Hn).
Qed.

(* ---------------------------------------------------------------------------------------------- *)
(* lists of unsized elements around element i                                                      *)
Lemma zlen_entries_len offs1 : forall offs2 keys, length offs1 = length offs2 ->
  zlen (concat (offset_entries offs1 keys)) = zlen (concat (offset_entries offs2 keys)).
Proof.
  induction offs1 as [|o offs1 IH]; intros [|o2 offs2] keys H; cbn [length] in H; try discriminate; [reflexivity|].
  destruct keys as [|key keys]; [reflexivity|]. rewrite !offset_entries_cons. cbn [concat].
  rewrite !zlen_app, !zlen_le_bytes, (IH offs2 keys) by lia. reflexivity.
Qed.

Lemma zlen_uhdr s1 s2 keys : length s1 = length s2 -> zlen (uhdr s1 keys) = zlen (uhdr s2 keys).
Proof.
  intros H. unfold uhdr. rewrite !zlen_app, !zlen_le_bytes.
  rewrite (zlen_entries_len (offsets_from 0 s1) (offsets_from 0 s2)) by (rewrite !offsets_from_length; exact H).
  reflexivity.
Qed.

Lemma encode_ulist_uhdr it k items :
  encode (TUList it k) (VUList items) = uhdr (usizes it items) (map fst items) ++ concat (uenc it items).
Proof.
  rewrite encode_ulist. unfold uhdr, utable.
  replace (zlen (map fst items)) with (zlen items) by (unfold zlen; now rewrite map_length).
  rewrite <- !app_assoc. reflexivity.
Qed.

Lemma nth_error_uenc it items i kv :
  nth_error items i = Some kv -> nth_error (uenc it items) i = Some (encode it (snd kv)).
Proof. intros H. unfold uenc. exact (map_nth_error _ _ _ H). Qed.

Lemma encode_ulist_split it k items i kv : nth_error items i = Some kv ->
  encode (TUList it k) (VUList items) =
  uhdr (usizes it items) (map fst items) ++ concat (firstn i (uenc it items)) ++ encode it (snd kv)
  ++ concat (skipn (S i) (uenc it items)).
Proof.
  intros H. rewrite encode_ulist_uhdr. f_equal. exact (concat_split_nth _ _ _ (nth_error_uenc it _ _ _ H)).
Qed.

Lemma uenc_set_nth it items i key e' :
  uenc it (set_nth i (key, e') items) = set_nth i (encode it e') (uenc it items).
Proof. unfold uenc. rewrite map_set_nth. reflexivity. Qed.

Lemma usizes_set_nth it items i kv e' : nth_error items i = Some kv ->
  usizes it (set_nth i (fst kv, e') items) =
  bump i (zlen (encode it e') - zlen (encode it (snd kv))) (usizes it items).
Proof.
  intros H. unfold usizes at 1. rewrite uenc_set_nth, map_set_nth.
  exact (set_nth_bump _ _ _ _ (nth_error_usizes it items i kv H)).
Qed.

Lemma keys_set_nth (items : list (list Z * val)) i kv e' : nth_error items i = Some kv ->
  map fst (set_nth i (fst kv, e') items) = map fst items.
Proof. intros H. apply (map_set_nth_same _ _ _ _ _ H). reflexivity. Qed.

Lemma encode_ulist_set_nth it k items i kv e' : nth_error items i = Some kv ->
  encode (TUList it k) (VUList (set_nth i (fst kv, e') items)) =
  uhdr (bump i (zlen (encode it e') - zlen (encode it (snd kv))) (usizes it items)) (map fst items)
  ++ concat (firstn i (uenc it items)) ++ encode it e' ++ concat (skipn (S i) (uenc it items)).
Proof.
  intros H. rewrite encode_ulist_uhdr, (usizes_set_nth _ _ _ _ _ H), (keys_set_nth _ _ _ _ H), uenc_set_nth.
  f_equal. exact (concat_set_nth _ _ _ _ (nth_error_uenc it _ _ _ H)).
Qed.

Lemma wf_ulist_set_nth it k items i kv e' :
  wf (TUList it k) (VUList items) = true -> nth_error items i = Some kv -> wf it e' = true ->
  zlen (encode (TUList it k) (VUList (set_nth i (fst kv, e') items))) < U32_LIMIT ->
  wf (TUList it k) (VUList (set_nth i (fst kv, e') items)) = true.
Proof.
  intros Hwf Hkv He Hlt.
  cbn [wf] in Hwf. apply andb_true_iff in Hwf as [Hwf Hit]. apply andb_true_iff in Hwf as [Hwf Hsorted].
  apply andb_true_iff in Hwf as [Hn Husz].
  set (items' := set_nth i (fst kv, e') items) in *.
  assert (Hit' : forallb (fun kv => (length (fst kv) =? k)%nat && bytes_ok (fst kv) && wf it (snd kv)) items' = true).
  { apply forallb_set_nth; [exact Hit|]. cbn [fst snd]. rewrite He, andb_true_r.
    rewrite forallb_forall in Hit. specialize (Hit kv (nth_error_In _ _ Hkv)).
    apply andb_true_iff in Hit as [Hit _]. exact Hit. }
  assert (Hsz : map (fun kv => byte_size it (snd kv)) items' = usizes it items').
  { unfold usizes, uenc. rewrite map_map. symmetry. apply map_ext_in. intros x Hin. apply encode_size.
    rewrite forallb_forall in Hit'. specialize (Hit' x Hin). apply andb_true_iff in Hit' as [_ H]. exact H. }
  assert (Hsum : zsum (usizes it items') < U32_LIMIT).
  { rewrite encode_ulist_uhdr, zlen_app, zlen_concat_sum in Hlt. unfold usizes.
    pose proof (zlen_nonneg (uhdr (usizes it items') (map fst items'))). lia. }
  assert (Hk : map (fun kv => le_decode (fst kv)) items' = map (fun kv => le_decode (fst kv)) items).
  { apply (map_set_nth_same _ _ _ _ _ Hkv). reflexivity. }
  assert (Hl : zlen items' = zlen items) by (unfold zlen, items'; now rewrite set_nth_length).
  cbn [wf]. rewrite Hit', Hsz, Hk, Hsorted, Hl, Hn. apply Z.ltb_lt in Hsum. rewrite Hsum. reflexivity.
Qed.

(* ---------------------------------------------------------------------------------------------- *)
(* unfolding the path functions                                                                    *)
Lemma resolve_SF_inv t v i r X xv : resolve t v (SF i :: r) = Some (X, xv) ->
  exists ts vs ti vi, t = TStruct ts /\ v = VStruct vs /\ nth_error ts i = Some ti /\ nth_error vs i = Some vi /\
                      resolve ti vi r = Some (X, xv).
Proof.
  cbn [resolve]. destruct t as [c|c lw| |it k|ts|rw vars]; try discriminate.
  destruct v as [bs|items|items|vs|d0 p]; try discriminate.
  destruct (nth_error ts i) as [ti|] eqn:Hti; [|discriminate].
  destruct (nth_error vs i) as [vi|] eqn:Hvi; [|discriminate].
  intros H. exists ts, vs, ti, vi. repeat split; auto.
Qed.

Lemma resolve_SE_inv t v i r X xv : resolve t v (SE i :: r) = Some (X, xv) ->
  exists it k items kv, t = TUList it k /\ v = VUList items /\ nth_error items i = Some kv /\
                        resolve it (snd kv) r = Some (X, xv).
Proof.
  cbn [resolve]. destruct t as [c|c lw| |it k|ts|rw vars]; try discriminate.
  destruct v as [bs|items|items|vs|d0 p]; try discriminate.
  destruct (nth_error items i) as [kv|] eqn:Hkv; [|discriminate].
  intros H. exists it, k, items, kv. repeat split; auto.
Qed.

Lemma resolve_SV_inv t v r X xv : resolve t v (SV :: r) = Some (X, xv) ->
  exists rw vars d p vt, t = TEnum rw vars /\ v = VEnum d p /\ find_variant d vars = Some vt /\
                         resolve vt p r = Some (X, xv).
Proof.
  cbn [resolve]. destruct t as [c|c lw| |it k|ts|rw vars]; try discriminate.
  destruct v as [bs|items|items|vs|d0 p]; try discriminate.
  destruct (find_variant d0 vars) as [vt|] eqn:Hf; [|discriminate].
  intros H. exists rw, vars, d0, p, vt. repeat split; auto.
Qed.

Lemma plug_SV rw vars d p r x vt : find_variant d vars = Some vt ->
  plug (TEnum rw vars) (VEnum d p) (SV :: r) x = VEnum d (plug vt p r x).
Proof. intros H. cbn [plug]. now rewrite H. Qed.

Lemma hctx_SV rw vars dd p r vt : find_variant dd vars = Some vt -> forall d,
  hctx (TEnum rw vars) (VEnum dd p) (SV :: r) d = (le_bytes rw dd ++ fst (hctx vt p r d), snd (hctx vt p r d)).
Proof. intros H d. cbn [hctx]. rewrite H. destruct (hctx vt p r d); reflexivity. Qed.

Lemma plug_SF ts vs i r x ti vi : nth_error ts i = Some ti -> nth_error vs i = Some vi ->
  plug (TStruct ts) (VStruct vs) (SF i :: r) x = VStruct (set_nth i (plug ti vi r x) vs).
Proof. intros H1 H2. cbn [plug]. now rewrite H1, H2. Qed.

Lemma plug_SE it k items i r x kv : nth_error items i = Some kv ->
  plug (TUList it k) (VUList items) (SE i :: r) x = VUList (set_nth i (fst kv, plug it (snd kv) r x) items).
Proof. intros H. cbn [plug]. now rewrite H. Qed.

Lemma hctx_SF ts vs i r ti vi : nth_error ts i = Some ti -> nth_error vs i = Some vi -> forall d,
  hctx (TStruct ts) (VStruct vs) (SF i :: r) d =
  (encs (firstn i ts) (firstn i vs) ++ fst (hctx ti vi r d),
   snd (hctx ti vi r d) ++ encs (skipn (S i) ts) (skipn (S i) vs)).
Proof. intros H1 H2 d. cbn [hctx]. rewrite H1, H2. destruct (hctx ti vi r d); reflexivity. Qed.

Lemma hctx_SE it k items i r kv : nth_error items i = Some kv -> forall d,
  hctx (TUList it k) (VUList items) (SE i :: r) d =
  (uhdr (bump i d (usizes it items)) (map fst items) ++ concat (firstn i (uenc it items)) ++ fst (hctx it (snd kv) r d),
   snd (hctx it (snd kv) r d) ++ concat (skipn (S i) (uenc it items))).
Proof. intros H d. cbn [hctx]. rewrite H. destruct (hctx it (snd kv) r d); reflexivity. Qed.

(* ---------------------------------------------------------------------------------------------- *)
(* the context does not depend on d except in the ancestors' headers, whose length is fixed         *)
Lemma hctx_snd t v pi d : snd (hctx t v pi d) = snd (hctx t v pi 0).
Proof.
  revert t v. induction pi as [|[i|i|] r IH]; intros t v; [reflexivity| | |].
  - destruct t as [c|c lw| |it k|ts|rw vars]; try reflexivity.
    destruct v as [bs|items|items|vs|d0 p]; try reflexivity.
    destruct (nth_error ts i) as [ti|] eqn:Hti; [|cbn [hctx]; rewrite Hti; reflexivity].
    destruct (nth_error vs i) as [vi|] eqn:Hvi; [|cbn [hctx]; rewrite Hti, Hvi; reflexivity].
    rewrite !(hctx_SF _ _ _ _ _ _ Hti Hvi). cbn [snd]. now rewrite IH.
  - destruct t as [c|c lw| |it k|ts|rw vars]; try reflexivity.
    destruct v as [bs|items|items|vs|d0 p]; try reflexivity.
    destruct (nth_error items i) as [kv|] eqn:Hkv; [|cbn [hctx]; rewrite Hkv; reflexivity].
    rewrite !(hctx_SE _ _ _ _ _ _ Hkv). cbn [snd]. now rewrite IH.
  - destruct t as [c|c lw| |it k|ts|rw vars]; try reflexivity.
    destruct v as [bs|items|items|vs|d0 p]; try reflexivity.
    destruct (find_variant d0 vars) as [vt|] eqn:Hf; [|cbn [hctx]; rewrite Hf; reflexivity].
    rewrite !(hctx_SV _ _ _ _ _ _ Hf). cbn [snd]. now rewrite IH.
Qed.

Lemma hctx_fst_len t v pi d : zlen (fst (hctx t v pi d)) = zlen (fst (hctx t v pi 0)).
Proof.
  revert t v. induction pi as [|[i|i|] r IH]; intros t v; [reflexivity| | |].
  - destruct t as [c|c lw| |it k|ts|rw vars]; try reflexivity.
    destruct v as [bs|items|items|vs|d0 p]; try reflexivity.
    destruct (nth_error ts i) as [ti|] eqn:Hti; [|cbn [hctx]; rewrite Hti; reflexivity].
    destruct (nth_error vs i) as [vi|] eqn:Hvi; [|cbn [hctx]; rewrite Hti, Hvi; reflexivity].
    rewrite !(hctx_SF _ _ _ _ _ _ Hti Hvi). cbn [fst]. rewrite !zlen_app, IH. reflexivity.
  - destruct t as [c|c lw| |it k|ts|rw vars]; try reflexivity.
    destruct v as [bs|items|items|vs|d0 p]; try reflexivity.
    destruct (nth_error items i) as [kv|] eqn:Hkv; [|cbn [hctx]; rewrite Hkv; reflexivity].
    rewrite !(hctx_SE _ _ _ _ _ _ Hkv). cbn [fst]. rewrite !zlen_app, IH.
    rewrite (zlen_uhdr (bump i d (usizes it items)) (bump i 0 (usizes it items))) by (rewrite !bump_length; reflexivity).
    reflexivity.
  - destruct t as [c|c lw| |it k|ts|rw vars]; try reflexivity.
    destruct v as [bs|items|items|vs|d0 p]; try reflexivity.
    destruct (find_variant d0 vars) as [vt|] eqn:Hf; [|cbn [hctx]; rewrite Hf; reflexivity].
    rewrite !(hctx_SV _ _ _ _ _ _ Hf). cbn [fst]. rewrite !zlen_app, IH. reflexivity.
Qed.

(* the context brackets the sub-value *)
Lemma hctx_encode t v pi X xv :
  resolve t v pi = Some (X, xv) -> encode t v = fst (hctx t v pi 0) ++ encode X xv ++ snd (hctx t v pi 0).
Proof.
  revert t v. induction pi as [|[i|i|] r IH]; intros t v Hr.
  - cbn [resolve] in Hr. injection Hr as -> ->. cbn [hctx fst snd app]. now rewrite app_nil_r.
  - apply resolve_SF_inv in Hr as (ts & vs & ti & vi & -> & -> & Hti & Hvi & Hr).
    rewrite !(hctx_SF _ _ _ _ _ _ Hti Hvi). cbn [fst snd].
    rewrite (encs_split _ _ _ _ _ Hti Hvi), (IH _ _ Hr). rewrite <- !app_assoc. reflexivity.
  - apply resolve_SE_inv in Hr as (it & k & items & kv & -> & -> & Hkv & Hr).
    rewrite !(hctx_SE _ _ _ _ _ _ Hkv). cbn [fst snd].
    rewrite (encode_ulist_split _ _ _ _ _ Hkv), (IH _ _ Hr), bump_zero. rewrite <- !app_assoc. reflexivity.
  - apply resolve_SV_inv in Hr as (rw & vars & d0 & p & vt & -> & -> & Hf & Hr).
    rewrite !(hctx_SV _ _ _ _ _ _ Hf). cbn [fst snd].
    rewrite (encode_enum_some _ _ _ _ _ Hf), (IH _ _ Hr). rewrite <- !app_assoc. reflexivity.
Qed.

(* ... and, with the ancestors' headers adjusted by the size difference, the value with the sub-value replaced *)
Lemma hctx_plug t v pi X xv x' :
  resolve t v pi = Some (X, xv) ->
  encode t (plug t v pi x') =
  fst (hctx t v pi (zlen (encode X x') - zlen (encode X xv))) ++ encode X x' ++ snd (hctx t v pi 0).
Proof.
  revert t v. induction pi as [|[i|i|] r IH]; intros t v Hr.
  - cbn [resolve] in Hr. injection Hr as -> ->. cbn [plug hctx fst snd app]. now rewrite app_nil_r.
  - apply resolve_SF_inv in Hr as (ts & vs & ti & vi & -> & -> & Hti & Hvi & Hr).
    rewrite (plug_SF _ _ _ _ _ _ _ Hti Hvi), !(hctx_SF _ _ _ _ _ _ Hti Hvi). cbn [fst snd].
    rewrite (encs_set_nth _ _ _ _ _ _ Hti Hvi), (IH _ _ Hr). rewrite <- !app_assoc. reflexivity.
  - apply resolve_SE_inv in Hr as (it & k & items & kv & -> & -> & Hkv & Hr).
    rewrite (plug_SE _ _ _ _ _ _ _ Hkv), !(hctx_SE _ _ _ _ _ _ Hkv). cbn [fst snd].
    rewrite (encode_ulist_set_nth _ _ _ _ _ _ Hkv).
    pose proof (IH _ _ Hr) as Hp. pose proof (hctx_encode _ _ _ _ _ Hr) as He.
    assert (Hd : zlen (encode it (plug it (snd kv) r x')) - zlen (encode it (snd kv)) =
                 zlen (encode X x') - zlen (encode X xv)).
    { pose proof (f_equal (@zlen Z) Hp) as Hp'. pose proof (f_equal (@zlen Z) He) as He'.
      rewrite !zlen_app in Hp', He'. rewrite hctx_fst_len in Hp'. lia. }
    rewrite Hd, Hp. rewrite <- !app_assoc. reflexivity.
  - apply resolve_SV_inv in Hr as (rw & vars & d0 & p & vt & -> & -> & Hf & Hr).
    rewrite (plug_SV _ _ _ _ _ _ _ Hf), !(hctx_SV _ _ _ _ _ _ Hf). cbn [fst snd].
    rewrite (encode_enum_some _ _ _ _ _ Hf), (IH _ _ Hr). rewrite <- !app_assoc. reflexivity.
Qed.

Lemma hctx_plug_len t v pi X xv x' :
  resolve t v pi = Some (X, xv) ->
  zlen (encode t (plug t v pi x')) = zlen (encode t v) + (zlen (encode X x') - zlen (encode X xv)).
Proof.
  intros Hr. rewrite (hctx_plug _ _ _ _ _ x' Hr), (hctx_encode _ _ _ _ _ Hr), !zlen_app, hctx_fst_len. lia.
Qed.

(* ---------------------------------------------------------------------------------------------- *)
(* resolve after plug, and what the sub-value inherits                                             *)
Lemma resolve_plug t v pi X xv x' : resolve t v pi = Some (X, xv) -> resolve t (plug t v pi x') pi = Some (X, x').
Proof.
  revert t v. induction pi as [|[i|i|] r IH]; intros t v Hr.
  - cbn [resolve] in Hr. injection Hr as -> ->. reflexivity.
  - apply resolve_SF_inv in Hr as (ts & vs & ti & vi & -> & -> & Hti & Hvi & Hr).
    rewrite (plug_SF _ _ _ _ _ _ _ Hti Hvi). cbn [resolve].
    rewrite Hti, (nth_error_set_nth _ _ _ _ Hvi). exact (IH _ _ Hr).
  - apply resolve_SE_inv in Hr as (it & k & items & kv & -> & -> & Hkv & Hr).
    rewrite (plug_SE _ _ _ _ _ _ _ Hkv). cbn [resolve].
    rewrite (nth_error_set_nth _ _ _ _ Hkv). cbn [snd]. exact (IH _ _ Hr).
  - apply resolve_SV_inv in Hr as (rw & vars & d0 & p & vt & -> & -> & Hf & Hr).
    rewrite (plug_SV _ _ _ _ _ _ _ Hf). cbn [resolve]. rewrite Hf. exact (IH _ _ Hr).
Qed.

Lemma resolve_plain t v pi X xv : plain t = true -> resolve t v pi = Some (X, xv) -> plain X = true.
Proof.
  revert t v. induction pi as [|[i|i|] r IH]; intros t v Hp Hr.
  - cbn [resolve] in Hr. injection Hr as -> ->. exact Hp.
  - apply resolve_SF_inv in Hr as (ts & vs & ti & vi & -> & -> & Hti & Hvi & Hr).
    exact (IH _ _ (plain_field _ _ _ Hp Hti) Hr).
  - apply resolve_SE_inv in Hr as (it & k & items & kv & -> & -> & Hkv & Hr).
    cbn [plain] in Hp. exact (IH _ _ Hp Hr).
  - apply resolve_SV_inv in Hr as (rw & vars & d0 & p & vt & -> & -> & Hf & Hr).
    exact (IH _ _ (plain_enum_find _ _ _ _ Hp Hf) Hr).
Qed.

Lemma resolve_wf t v pi X xv : wf t v = true -> resolve t v pi = Some (X, xv) -> wf X xv = true.
Proof.
  revert t v. induction pi as [|[i|i|] r IH]; intros t v Hwf Hr.
  - cbn [resolve] in Hr. injection Hr as -> ->. exact Hwf.
  - apply resolve_SF_inv in Hr as (ts & vs & ti & vi & -> & -> & Hti & Hvi & Hr).
    rewrite (wf_struct_split _ _ _ _ _ Hti Hvi) in Hwf.
    apply andb_true_iff in Hwf as [_ Hwf]. apply andb_true_iff in Hwf as [Hwf _]. exact (IH _ _ Hwf Hr).
  - apply resolve_SE_inv in Hr as (it & k & items & kv & -> & -> & Hkv & Hr).
    pose proof (ulist_facts _ _ _ Hwf) as F.
    exact (IH _ _ (wf_nth _ _ _ _ (uf_wfs _ _ _ F) Hkv) Hr).
  - apply resolve_SV_inv in Hr as (rw & vars & d0 & p & vt & -> & -> & Hf & Hr).
    destruct (wf_enum_inv _ _ _ _ Hwf) as (_ & vt' & Hf' & Hp). rewrite Hf in Hf'. injection Hf' as <-.
    exact (IH _ _ Hp Hr).
Qed.

(* the sub-value's position: last only if everything above it is last *)
Lemma resolve_ty_ok t v pi X xv last :
  ty_ok last t = true -> resolve t v pi = Some (X, xv) -> exists l', ty_ok l' X = true /\ (l' = true -> last = true).
Proof.
  revert t v last. induction pi as [|[i|i|] r IH]; intros t v last Hok Hr.
  - cbn [resolve] in Hr. injection Hr as -> ->. exists last. auto.
  - apply resolve_SF_inv in Hr as (ts & vs & ti & vi & -> & -> & Hti & Hvi & Hr).
    destruct (ty_ok_field _ _ _ _ Hok Hti) as (l1 & Hok1 & Hl1).
    destruct (IH _ _ _ Hok1 Hr) as (l2 & Hok2 & Hl2). exists l2. auto.
  - apply resolve_SE_inv in Hr as (it & k & items & kv & -> & -> & Hkv & Hr).
    cbn [ty_ok] in Hok. destruct (IH _ _ _ Hok Hr) as (l2 & Hok2 & Hl2).
    exists l2. split; [exact Hok2|]. intros H. discriminate (Hl2 H).
  - apply resolve_SV_inv in Hr as (rw & vars & d0 & p & vt & -> & -> & Hf & Hr).
    exact (IH _ _ _ (ty_ok_enum_variant _ _ _ _ _ Hok Hf) Hr).
Qed.

(* ---------------------------------------------------------------------------------------------- *)
(* a container reached in non-tail position has a non-empty encoding                               *)
Lemma container_pos X xv : container X = true -> ty_ok false X = true -> wf X xv = true -> 0 < zlen (encode X xv).
Proof.
  destruct X as [c|c lw| |it k|ts|rw vars]; cbn [container]; try discriminate; intros _ Hok Hwf.
  - destruct xv as [bs|items|items|vs|d0 p]; try (cbn in Hwf; discriminate).
    cbn [ty_ok] in Hok. zb.
    repeat match goal with H : (_ =? _)%nat = false |- _ => apply Nat.eqb_neq in H end.
    cbn [encode]. rewrite zlen_app, zlen_le_bytes. pose proof (zlen_nonneg (concat items)). lia.
  - (* TRem was closed by discriminate: ty_ok false TRem = false *)
    destruct xv as [bs|items|items|vs|d0 p]; try (cbn in Hwf; discriminate).
    rewrite encode_ulist, !zlen_app, !zlen_le_bytes. change (Z.of_nat 4) with 4.
    pose proof (zlen_nonneg (utable it items)). pose proof (zlen_nonneg (concat (uenc it items))). lia.
Qed.

Lemma resolve_elem_pos t v pi X xv :
  ty_ok false t = true -> wf t v = true -> resolve t v pi = Some (X, xv) -> container X = true ->
  0 < zlen (encode t v).
Proof.
  intros Hok Hwf Hr Hc.
  destruct (resolve_ty_ok _ _ _ _ _ _ Hok Hr) as (l' & Hok' & Hl').
  assert (l' = false) as -> by (destruct l'; [discriminate (Hl' eq_refl)|reflexivity]).
  pose proof (container_pos _ _ Hc Hok' (resolve_wf _ _ _ _ _ Hwf Hr)) as Hpos.
  rewrite (hctx_encode _ _ _ _ _ Hr), !zlen_app.
  pose proof (zlen_nonneg (fst (hctx t v pi 0))). pose proof (zlen_nonneg (snd (hctx t v pi 0))). lia.
Qed.

(* ---------------------------------------------------------------------------------------------- *)
(* replacing the sub-value keeps the whole value well-formed as long as the total stays below 2^32 *)
Lemma wf_plug t v pi X xv x' :
  wf t v = true -> resolve t v pi = Some (X, xv) -> wf X x' = true ->
  zlen (encode t (plug t v pi x')) < U32_LIMIT -> wf t (plug t v pi x') = true.
Proof.
  revert t v. induction pi as [|[i|i|] r IH]; intros t v Hwf Hr Hx Hlt.
  - cbn [resolve] in Hr. injection Hr as -> ->. cbn [plug]. exact Hx.
  - apply resolve_SF_inv in Hr as (ts & vs & ti & vi & -> & -> & Hti & Hvi & Hr).
    rewrite (plug_SF _ _ _ _ _ _ _ Hti Hvi) in *.
    rewrite (wf_struct_split _ _ _ _ _ Hti Hvi) in Hwf.
    apply andb_true_iff in Hwf as [HA HB]. apply andb_true_iff in HB as [Hi HB].
    rewrite (wf_struct_set_nth _ _ _ _ _ _ Hti Hvi), HA, HB.
    rewrite (encs_set_nth _ _ _ _ _ _ Hti Hvi), !zlen_app in Hlt.
    rewrite (IH _ _ Hi Hr Hx); [reflexivity|].
    pose proof (zlen_nonneg (encs (firstn i ts) (firstn i vs))).
    pose proof (zlen_nonneg (encs (skipn (S i) ts) (skipn (S i) vs))). lia.
  - apply resolve_SE_inv in Hr as (it & k & items & kv & -> & -> & Hkv & Hr).
    rewrite (plug_SE _ _ _ _ _ _ _ Hkv) in *.
    pose proof (ulist_facts _ _ _ Hwf) as F.
    pose proof (wf_nth _ _ _ _ (uf_wfs _ _ _ F) Hkv) as Hwkv.
    assert (He : wf it (plug it (snd kv) r x') = true).
    { apply (IH _ _ Hwkv Hr Hx).
      rewrite (encode_ulist_set_nth _ _ _ _ _ _ Hkv), !zlen_app in Hlt.
      match type of Hlt with zlen ?a + (zlen ?b + (_ + zlen ?c)) < _ =>
        pose proof (zlen_nonneg a); pose proof (zlen_nonneg b); pose proof (zlen_nonneg c) end. lia. }
    apply wf_ulist_set_nth; assumption.
  - apply resolve_SV_inv in Hr as (rw & vars & d0 & p & vt & -> & -> & Hf & Hr).
    rewrite (plug_SV _ _ _ _ _ _ _ Hf) in *.
    destruct (wf_enum_inv _ _ _ _ Hwf) as (Hd & vt' & Hf' & Hp). rewrite Hf in Hf'. injection Hf' as <-.
    rewrite (zlen_encode_enum _ _ _ _ _ Hf) in Hlt.
    rewrite wf_enum, Hf. rewrite (IH _ _ Hp Hr Hx) by lia.
    destruct (0 <=? d0) eqn:E1; [|zb; lia]. destruct (d0 <? 256 ^ Z.of_nat rw) eqn:E2; [|zb; lia]. reflexivity.
Qed.

Print Assumptions hctx_plug. Print Assumptions wf_plug.
