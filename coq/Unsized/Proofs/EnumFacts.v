(* Unfolding equations for enum shapes: every machine function walks the association list of variants with a
   nested fixpoint; here each of them is restated through `find_variant`, so that later proofs never unfold
   those fixpoints.  Plus the facts an enum value / shape gives. *)
From SF Require Import Base.Prelude Gen.Generated Unsized.Types Unsized.Parse Unsized.Machine Unsized.Ops.
From SF Require Import Unsized.Proofs.EncodeParse Unsized.Proofs.Mem Unsized.Proofs.Notify.

Arguments Z.add : simpl never.
Arguments Z.sub : simpl never.
Arguments Z.mul : simpl never.
Arguments Z.of_nat : simpl never.
Arguments Z.pow : simpl never.
Arguments Z.modulo : simpl never.

(* the induction hypothesis ty_ind' gives at an enum, used at the live variant *)
Lemma Forall_find_variant (P : ty -> Prop) vs d vt :
  Forall (fun dv : Z * ty => P (snd dv)) vs -> find_variant d vs = Some vt -> P vt.
Proof.
  induction 1 as [|[d' t'] vs Ht _ IH]; cbn [find_variant]; [discriminate|].
  destruct (d =? d'); [intros [= <-]; exact Ht|exact IH].
Qed.

Lemma find_variant_In d vs vt : find_variant d vs = Some vt -> In (d, vt) vs.
Proof.
  induction vs as [|[d' t'] vs IH]; cbn [find_variant]; [discriminate|].
  destruct (d =? d') eqn:E; [intros [= <-]; apply Z.eqb_eq in E; subst; now left|intros H; right; now apply IH].
Qed.

Lemma Forall_find_variant_pair (Q : Z * ty -> Prop) vs d vt : Forall Q vs -> find_variant d vs = Some vt -> Q (d, vt).
Proof. intros H Hf. rewrite Forall_forall in H. apply H. now apply find_variant_In. Qed.

(* IHv : the statement being proved by `induction t using ty_ind'`, at the live variant *)
Ltac enum_ih IH Hf IHv := pose proof (Forall_find_variant_pair _ _ _ _ IH Hf) as IHv; cbn beta iota delta [snd] in IHv.

(* ---------------------------------------------------------------------------------------------- *)
(* values and shapes                                                                               *)
Lemma wf_enum_inv rw vs d p : wf (TEnum rw vs) (VEnum d p) = true ->
  0 <= d < 256 ^ Z.of_nat rw /\ exists vt, find_variant d vs = Some vt /\ wf vt p = true.
Proof.
  rewrite wf_enum. intros H. apply andb_true_iff in H as [H Hp]. apply andb_true_iff in H as [H1 H2]. zb.
  split; [lia|]. destruct (find_variant d vs) as [vt|]; [|discriminate]. exists vt. split; [reflexivity|exact Hp].
Qed.

Lemma wf_enum_val rw vs v : wf (TEnum rw vs) v = true -> exists d p, v = VEnum d p.
Proof. destruct v as [| | | |d p]; try (cbn; discriminate). intros _. now exists d, p. Qed.

Lemma encode_enum_some rw vs d p vt : find_variant d vs = Some vt ->
  encode (TEnum rw vs) (VEnum d p) = le_bytes rw d ++ encode vt p.
Proof. intros H. now rewrite encode_enum, H. Qed.

Lemma zlen_encode_enum rw vs d p vt : find_variant d vs = Some vt ->
  zlen (encode (TEnum rw vs) (VEnum d p)) = Z.of_nat rw + zlen (encode vt p).
Proof. intros H. now rewrite (encode_enum_some _ _ _ _ _ H), zlen_app, zlen_le_bytes. Qed.

Lemma ty_ok_enum_rw last rw vs : ty_ok last (TEnum rw vs) = true -> 1 <= Z.of_nat rw <= 8.
Proof.
  cbn [ty_ok]. intros H. apply andb_true_iff in H as [H _]. apply andb_true_iff in H as [H1 H2].
  apply negb_true_iff, Nat.eqb_neq in H1. apply Nat.leb_le in H2. lia.
Qed.

Lemma ty_ok_enum_false last rw vs : ty_ok last (TEnum rw vs) = true -> last = false ->
  forall d vt, find_variant d vs = Some vt -> ty_ok false vt = true.
Proof. intros H -> d vt Hf. eapply ty_ok_enum_variant; eauto. Qed.

(* ---------------------------------------------------------------------------------------------- *)
(* machine functions                                                                               *)
Lemma get_ptr_enum ovf rw vs m base avail :
  get_ptr ovf (TEnum rw vs) m base avail =
  if avail <? Z.of_nat rw then Err E_ADV else
  do h <- rd m base (Z.of_nat rw);
  match find_variant (le_decode h) vs with
  | None => Err E_INVALID_DATA
  | Some vt => do ' (q, n) <- get_ptr ovf vt m (base + Z.of_nat rw) (avail - Z.of_nat rw);
               Ok (PEnum base (le_decode h) q, Z.of_nat rw + n)
  end.
Proof.
  cbn [get_ptr]. destruct (avail <? Z.of_nat rw); [reflexivity|].
  destruct (rd m base (Z.of_nat rw)) as [h| | |]; cbn [obind]; try reflexivity.
  induction vs as [|[d' t'] vs IH]; cbn [find_variant]; [reflexivity|].
  destruct (le_decode h =? d'); [reflexivity|exact IH].
Qed.

Lemma check_ptrs_enum st d q lo hi cursor :
  check_ptrs (PEnum st d q) lo hi cursor =
  if (cursor <=? st) && in_range st lo hi then check_ptrs q lo hi st else (false, st).
Proof. reflexivity. Qed.

Lemma data_len_enum rw vs m st d q :
  data_len (TEnum rw vs) m (PEnum st d q) =
  match find_variant d vs with
  | None => Panic
  | Some vt => do n <- data_len vt m q; Ok (Z.of_nat rw + n)
  end.
Proof.
  cbn [data_len]. induction vs as [|[d' t'] vs IH]; cbn [find_variant]; [reflexivity|].
  destruct (d =? d'); [reflexivity|exact IH].
Qed.

Lemma owned_ptr_enum ovf rw vs m st d q :
  owned_ptr ovf (TEnum rw vs) m (PEnum st d q) =
  match find_variant d vs with
  | None => Panic
  | Some vt => do v <- owned_ptr ovf vt m q; Ok (VEnum d v)
  end.
Proof.
  cbn [owned_ptr]. induction vs as [|[d' t'] vs IH]; cbn [find_variant]; [reflexivity|].
  destruct (d =? d'); [reflexivity|exact IH].
Qed.

Lemma notify_enum rw vs st d q src c m :
  notify (TEnum rw vs) (PEnum st d q) src c m =
  match find_variant d vs with
  | None => Panic
  | Some vt => do ' (q', m') <- notify vt q src c m; Ok (PEnum (if src <? st then st + c else st) d q', m')
  end.
Proof.
  cbn [notify]. induction vs as [|[d' t'] vs IH]; cbn [find_variant]; [reflexivity|].
  destruct (d =? d'); [reflexivity|exact IH].
Qed.

Lemma after_enum_find src rw vs st d q :
  after src (TEnum rw vs) (PEnum st d q) =
  (src <? st) && match find_variant d vs with Some vt => after src vt q | None => false end.
Proof.
  cbn [after]. f_equal. induction vs as [|[d' t'] vs IH]; cbn [find_variant]; [reflexivity|].
  destruct (d =? d'); [reflexivity|exact IH].
Qed.

Lemma valid_bits_enum rw vs d p :
  valid_bits (TEnum rw vs) (VEnum d p) = match find_variant d vs with Some vt => valid_bits vt p | None => false end.
Proof.
  cbn [valid_bits]. induction vs as [|[d' t'] vs IH]; cbn [find_variant]; [reflexivity|].
  destruct (d =? d'); [reflexivity|exact IH].
Qed.

Lemma get_at_PV rw vs st d q vt r : find_variant d vs = Some vt ->
  get_at (TEnum rw vs) (PEnum st d q) (PV :: r) = get_at vt q r.
Proof. intros H. cbn [get_at]. now rewrite H. Qed.

Lemma set_at_PV rw vs st d q vt r new : find_variant d vs = Some vt ->
  set_at (TEnum rw vs) (PEnum st d q) (PV :: r) new = PEnum st d (set_at vt q r new).
Proof. intros H. cbn [set_at]. now rewrite H. Qed.
