(* One history-level refinement theorem for the whole operation set: everything of History2 (lists, trailing bytes,
   element-level operations of lists of unsized elements), whole-value replacement (set_from_owned, SetData.v) and
   the keyed views Set / Map / UnsizedMap (Keyed.v), at any nesting depth, for every finite history.  The owned model
   of the keyed views is the sorted vector (BTreeSet / BTreeMap): it is only defined on strictly ascending key lists,
   decides present / absent with lower_bound, and preserves sortedness, so a history of keyed operations on the same
   view never leaves the model's domain. *)
From SF Require Import Base.Prelude Gen.Generated Unsized.Types Unsized.Parse Unsized.Machine Unsized.Ops Unsized.Run.
From SF Require Import Unsized.Proofs.EncodeParse Unsized.Proofs.Mem Unsized.Proofs.Notify Unsized.Proofs.Flat Unsized.Proofs.Layout
  Unsized.Proofs.Observe Unsized.Proofs.Table Unsized.Proofs.Path Unsized.Proofs.Context Unsized.Proofs.Context2 Unsized.Proofs.Focus
  Unsized.Proofs.Pos Unsized.Proofs.FocusOps Unsized.Proofs.NotifyInside Unsized.Proofs.Resize Unsized.Proofs.GenOps
  Unsized.Proofs.GenOps2 Unsized.Proofs.Init Unsized.Proofs.UInsert Unsized.Proofs.URemove Unsized.Proofs.History
  Unsized.Proofs.History2 Unsized.Proofs.NotifyInside2 Unsized.Proofs.SetData Unsized.Proofs.Keyed.
From SF Require Import Unsized.Proofs.EnumFacts.

Arguments Z.add : simpl never.
Arguments Z.sub : simpl never.
Arguments Z.mul : simpl never.
Arguments Z.of_nat : simpl never.
Arguments Z.pow : simpl never.
Arguments Z.modulo : simpl never.

(* ---------------------------------------------------------------------------------------------- *)
(* 1. decidable equality of shapes (the owned model of set_from_owned checks that the value it is given has the
      type of the sub-value it replaces)                                                            *)
Lemma zlist_eqb_eq : forall a b, zlist_eqb a b = true -> a = b.
Proof.
  induction a as [|x a IH]; intros [|y b] H; cbn [zlist_eqb] in H; try discriminate; [reflexivity|].
  apply andb_true_iff in H as [H1 H2]. apply Z.eqb_eq in H1. subst y. f_equal. now apply IH.
Qed.

Fixpoint fcheck_eqb (a b : fcheck) {struct a} : bool :=
  match a, b with
  | FAny n, FAny m => (n =? m)%nat
  | FBool, FBool => true
  | FDisc ds, FDisc es => zlist_eqb ds es
  | FStruct fs, FStruct gs =>
      (fix go (fs gs : list fcheck) {struct fs} : bool :=
         match fs, gs with
         | [], [] => true
         | f :: r, g :: r' => fcheck_eqb f g && go r r'
         | _, _ => false
         end) fs gs
  | _, _ => false
  end.

Lemma fcheck_eqb_eq : forall a b, fcheck_eqb a b = true -> a = b.
Proof.
  fix IH 1. intros [n| |ds|fs] [m| |es|gs] H; cbn [fcheck_eqb] in H; try discriminate H.
  - apply Nat.eqb_eq in H. now subst.
  - reflexivity.
  - apply zlist_eqb_eq in H. now subst.
  - f_equal. revert gs H. induction fs as [|f fs IHfs]; intros [|g gs] H; try discriminate H; [reflexivity|].
    apply andb_true_iff in H as [H1 H2]. f_equal; [apply IH; exact H1|apply IHfs; exact H2].
Qed.

Fixpoint ty_eqb (a b : ty) {struct a} : bool :=
  match a, b with
  | TFixed c, TFixed d => fcheck_eqb c d
  | TList c lw, TList d lw' => fcheck_eqb c d && (lw =? lw')%nat
  | TRem, TRem => true
  | TUList it k, TUList it' k' => ty_eqb it it' && (k =? k')%nat
  | TStruct ts, TStruct us =>
      (fix go (ts us : list ty) {struct ts} : bool :=
         match ts, us with
         | [], [] => true
         | x :: r, y :: r' => ty_eqb x y && go r r'
         | _, _ => false
         end) ts us
  | TEnum rw vs, TEnum rw' ws =>
      (rw =? rw')%nat &&
      (fix go (vs ws : list (Z * ty)) {struct vs} : bool :=
         match vs, ws with
         | [], [] => true
         | (d, x) :: r, (e, y) :: r' => (d =? e) && ty_eqb x y && go r r'
         | _, _ => false
         end) vs ws
  | _, _ => false
  end.

Lemma ty_eqb_eq : forall a b, ty_eqb a b = true -> a = b.
Proof.
  fix IH 1. intros [c|c lw| |it k|ts|rw vs] [d|d lw'| |it' k'|us|rw' ws] H; cbn [ty_eqb] in H; try discriminate H.
  - apply fcheck_eqb_eq in H. now subst.
  - apply andb_true_iff in H as [H1 H2]. apply fcheck_eqb_eq in H1. apply Nat.eqb_eq in H2. now subst.
  - reflexivity.
  - apply andb_true_iff in H as [H1 H2]. apply IH in H1. apply Nat.eqb_eq in H2. now subst.
  - f_equal. revert us H. induction ts as [|x ts IHts]; intros [|y us] H; try discriminate H; [reflexivity|].
    apply andb_true_iff in H as [H1 H2]. f_equal; [apply IH; exact H1|apply IHts; exact H2].
  - apply andb_true_iff in H as [H0 H]. apply Nat.eqb_eq in H0. subst rw'. f_equal.
    revert ws H. induction vs as [|[d x] vs IHvs]; intros [|[e y] ws] H; try discriminate H; [reflexivity|].
    apply andb_true_iff in H as [H1 H3]. apply andb_true_iff in H1 as [H1 H2]. apply Z.eqb_eq in H1. subst e.
    f_equal; [f_equal; apply IH; exact H2|apply IHvs; exact H3].
Qed.

(* ---------------------------------------------------------------------------------------------- *)
(* 2. the one-field wrappers of the keyed views                                                    *)
Definition view_list (W : ty) (wv : val) : option (fcheck * nat * list (list Z)) :=
  match W, wv with
  | TStruct [TList c lw], VStruct [VList items] => Some (c, lw, items)
  | _, _ => None
  end.

Definition view_ulist (W : ty) (wv : val) : option (ty * nat * list (list Z * val)) :=
  match W, wv with
  | TStruct [TUList it k], VStruct [VUList items] => Some (it, k, items)
  | _, _ => None
  end.

Lemma view_list_some W wv c lw items : view_list W wv = Some (c, lw, items) ->
  W = TStruct [TList c lw] /\ wv = VStruct [VList items].
Proof.
  intros H. unfold view_list in H.
  destruct W as [| | | |[|[|c' lw'| | | |] [|]]|]; try discriminate H.
  destruct wv as [| | |[|[|items'| | |] [|]]|]; try discriminate H.
  injection H as -> -> ->. auto.
Qed.

Lemma view_ulist_some W wv it k items : view_ulist W wv = Some (it, k, items) ->
  W = TStruct [TUList it k] /\ wv = VStruct [VUList items].
Proof.
  intros H. unfold view_ulist in H.
  destruct W as [| | | |[|[| | |it' k'| |] [|]]|]; try discriminate H.
  destruct wv as [| | |[|[| |items'| |] [|]]|]; try discriminate H.
  injection H as -> -> ->. auto.
Qed.

Lemma plug_app_intro : forall p r t v tc vc x, resolve t v p = Some (tc, vc) ->
  plug t v (p ++ r) x = plug t v p (plug tc vc r x).
Proof.
  induction p as [|st p IH]; intros r t v tc vc x H.
  - cbn [resolve] in H. injection H as -> ->. reflexivity.
  - cbn [app]. destruct st as [i|i|]; cbn [resolve] in H.
    + destruct t as [| | | |ts|]; try discriminate. destruct v as [| | |vs|]; try discriminate.
      destruct (nth_error ts i) as [ti|] eqn:Et; [|discriminate]. destruct (nth_error vs i) as [vi|] eqn:Ev; [|discriminate].
      cbn [plug]. rewrite Et, Ev. f_equal. f_equal. now apply IH.
    + destruct t as [| | |it k| |]; try discriminate. destruct v as [| |items| |]; try discriminate.
      destruct (nth_error items i) as [kv|] eqn:En; [|discriminate].
      cbn [plug]. rewrite En. f_equal. f_equal. f_equal. now apply IH.
    + destruct t as [| | | | |rw vars]; try discriminate. destruct v as [| | | |d pv]; try discriminate.
      destruct (find_variant d vars) as [vt|] eqn:Ef; [|discriminate].
      cbn [plug]. rewrite Ef. f_equal. now apply IH.
Qed.

(* replacing the container inside a wrapper leaves a wrapper around the new container *)
Lemma plug_wrapper t v pi X xv x' : resolve t v pi = Some (TStruct [X], VStruct [xv]) ->
  resolve t (plug t v (pi ++ [SF 0]) x') pi = Some (TStruct [X], VStruct [x']).
Proof.
  intros H. rewrite (plug_app_intro _ _ _ _ _ _ x' H). cbn [plug nth_error set_nth].
  exact (resolve_plug _ _ _ _ _ _ H).
Qed.

(* ---------------------------------------------------------------------------------------------- *)
(* 3. operations                                                                                   *)
Inductive yop :=
| YX (o : xop)                                             (* everything of History2 *)
| YSet (pi : list step) (X : ty) (x' : val)                (* set_from_owned: replace the sub-value (of type X) at pi by x' *)
| YSetInsert (pi : list step) (x : list Z)                 (* Set at pi (wrapper struct of one sorted list): insert x *)
| YSetRemove (pi : list step) (x : list Z)
| YMapInsert (pi : list step) (key value : list Z)         (* Map at pi: insert or overwrite *)
| YMapRemove (pi : list step) (key : list Z)
| YUMapInsert (pi : list step) (key : Z)                   (* UnsizedMap at pi: insert a NEW key with a default value *)
| YUMapRemove (pi : list step) (key : Z).

(* room / length-prefix / multiplication conditions of a one-item List::insert *)
Definition room1 (cap : Z) (t : ty) (v : val) (c : fcheck) (lw : nat) (items : list (list Z)) : bool :=
  (zlen items + 1 <? 256 ^ Z.of_nat lw) && (Z.of_nat (fsize c) * (zlen items + 1) <? U64_LIMIT)
  && (zlen (encode t v) + Z.of_nat (fsize c) <=? cap).

(* the owned model: the new value and the operation's observation (the [0] / [1] flag of the keyed operations) *)
Definition ostepY (cap : Z) (t : ty) (v : val) (o : yop) : option (val * list Z) :=
  match o with
  | YX x => match ostepX cap t v x with Some v' => Some (v', []) | None => None end
  | YSet pi X x' =>
      match resolve t v pi with
      | Some (Xr, xv) =>
          if ty_eqb Xr X && headed X && wf X x' && (0 <? zlen (encode X xv))
             && (zlen (encode t v) + (zlen (encode X x') - zlen (encode X xv)) <=? cap)
          then Some (plug t v pi x', [])
          else None
      | None => None
      end
  | YSetInsert pi x =>                                      (* BTreeSet::insert *)
      match resolve t v pi with
      | Some (W, wv) =>
          match view_list W wv with
          | Some (c, lw, items) =>
              if strictly_ascending (map le_decode items) && item_okb c x then
                let '(idx, found) := lower_bound (map le_decode items) (le_decode x) 0 in
                if found then Some (v, [0])
                else if room1 cap t v c lw items
                     then Some (plug t v (pi ++ [SF 0]) (VList (firstn (Z.to_nat idx) items ++ x :: skipn (Z.to_nat idx) items)), [1])
                     else None
              else None
          | None => None
          end
      | None => None
      end
  | YSetRemove pi x =>                                      (* BTreeSet::remove *)
      match resolve t v pi with
      | Some (W, wv) =>
          match view_list W wv with
          | Some (c, lw, items) =>
              if strictly_ascending (map le_decode items) then
                let '(idx, found) := lower_bound (map le_decode items) (le_decode x) 0 in
                if found
                then Some (plug t v (pi ++ [SF 0]) (VList (firstn (Z.to_nat idx) items ++ skipn (Z.to_nat (idx + 1)) items)), [1])
                else Some (v, [0])
              else None
          | None => None
          end
      | None => None
      end
  | YMapInsert pi key value =>                              (* BTreeMap::insert *)
      match resolve t v pi with
      | Some (W, wv) =>
          match view_list W wv with
          | Some (c, lw, items) =>
              if strictly_ascending (lkeys (length key) items) && item_okb c (key ++ value) then
                let '(idx, found) := lower_bound (lkeys (length key) items) (le_decode key) 0 in
                if found
                then Some (plug t v (pi ++ [SF 0])
                             (VList (firstn (Z.to_nat idx) items ++ (key ++ value) :: skipn (S (Z.to_nat idx)) items)), [1])
                else if room1 cap t v c lw items
                     then Some (plug t v (pi ++ [SF 0])
                                  (VList (firstn (Z.to_nat idx) items ++ (key ++ value) :: skipn (Z.to_nat idx) items)), [0])
                     else None
              else None
          | None => None
          end
      | None => None
      end
  | YMapRemove pi key =>                                    (* BTreeMap::remove *)
      match resolve t v pi with
      | Some (W, wv) =>
          match view_list W wv with
          | Some (c, lw, items) =>
              if strictly_ascending (lkeys (length key) items) then
                let '(idx, found) := lower_bound (lkeys (length key) items) (le_decode key) 0 in
                if found
                then Some (plug t v (pi ++ [SF 0]) (VList (firstn (Z.to_nat idx) items ++ skipn (Z.to_nat (idx + 1)) items)), [1])
                else Some (v, [0])
              else None
          | None => None
          end
      | None => None
      end
  | YUMapInsert pi key =>                                   (* UnsizedMap::insert of a new key, default value *)
      match resolve t v pi with
      | Some (W, wv) =>
          match view_ulist W wv with
          | Some (it, k, items) =>
              if negb (k =? 0)%nat && strictly_ascending (ukeys items) && zero_ok it
                 && (0 <=? key) && (key <? 256 ^ Z.of_nat k)
                 && (zlen (encode t v) + (zlen (encode it (dflt it)) + (4 + Z.of_nat k)) <=? cap) then
                let '(idx, found) := lower_bound (ukeys items) key 0 in
                if found then None                           (* overwriting an existing key: not covered *)
                else Some (plug t v (pi ++ [SF 0])
                             (VUList (firstn (Z.to_nat idx) items ++ (le_bytes k key, dflt it) :: skipn (Z.to_nat idx) items)), [1])
              else None
          | None => None
          end
      | None => None
      end
  | YUMapRemove pi key =>                                   (* UnsizedMap::remove *)
      match resolve t v pi with
      | Some (W, wv) =>
          match view_ulist W wv with
          | Some (it, k, items) =>
              if negb (k =? 0)%nat && strictly_ascending (ukeys items) then
                let '(idx, found) := lower_bound (ukeys items) key 0 in
                if found
                then Some (plug t v (pi ++ [SF 0]) (VUList (firstn (Z.to_nat idx) items ++ skipn (Z.to_nat (idx + 1)) items)), [1])
                else Some (v, [0])
              else None
          | None => None
          end
      | None => None
      end
  end.

(* the machine: descent to the wrapper, its type read from the pointer tree (as Run.exec does), then the operation *)
Definition with_wrapper (ovf : bool) (t : ty) (s : mach) (top : ptr) (pi : list step) (k : ptr -> ty -> out res) : out res :=
  do top1 <- menter ovf t s top [] pi;
  do ' (tc, _) <- sub t top1 (mpath pi);
  k top1 tc.

Definition mstepY (ovf : bool) (t : ty) (s : mach) (top : ptr) (o : yop) : out res :=
  match o with
  | YX x => mstepX ovf t s top x
  | YSet pi X x' =>
      do top1 <- menter ovf t s top [] pi;
      set_data ovf t s top1 (mpath pi) (zlen (encode X x')) (Ok (encode X x'))
  | YSetInsert pi x =>
      with_wrapper ovf t s top pi (fun top1 tc =>
        match tc with TStruct [TList c lw] => set_insert_op t s top1 (mpath pi) c lw x | _ => SKIPPED end)
  | YSetRemove pi x =>
      with_wrapper ovf t s top pi (fun top1 tc =>
        match tc with TStruct [TList c lw] => set_remove_op t s top1 (mpath pi) c lw x | _ => SKIPPED end)
  | YMapInsert pi key value =>
      with_wrapper ovf t s top pi (fun top1 tc =>
        match tc with TStruct [TList c lw] => map_insert_op t s top1 (mpath pi) c lw key value | _ => SKIPPED end)
  | YMapRemove pi key =>
      with_wrapper ovf t s top pi (fun top1 tc =>
        match tc with TStruct [TList c lw] => map_remove_op t s top1 (mpath pi) c lw key | _ => SKIPPED end)
  | YUMapInsert pi key =>
      with_wrapper ovf t s top pi (fun top1 tc =>
        match tc with TStruct [TUList it k] => umap_insert_op ovf t s top1 (mpath pi) it k key 0 | _ => SKIPPED end)
  | YUMapRemove pi key =>
      with_wrapper ovf t s top pi (fun top1 tc =>
        match tc with TStruct [TUList it k] => umap_remove_op t s top1 (mpath pi) k key | _ => SKIPPED end)
  end.

(* ---------------------------------------------------------------------------------------------- *)
(* 4. one step                                                                                     *)
Lemma item_okb_ok c x : item_okb c x = true -> item_ok c x.
Proof.
  unfold item_okb, item_ok. intros H. apply andb_true_iff in H as [H H3]. apply andb_true_iff in H as [H1 H2].
  apply Nat.eqb_eq in H1. auto.
Qed.

(* the descent to a wrapper ends in a state focused on the container inside it *)
Lemma at_wrapper_ready ovf t v s top pi X xv :
  RepF [] t v s top -> resolve t v pi = Some (TStruct [X], VStruct [xv]) ->
  exists top1 node,
    menter ovf t s top [] pi = Ok top1 /\ sub t top1 (mpath pi) = Ok (TStruct [X], node) /\
    RepF (pi ++ [SF 0]) t v s top1 /\ resolve t v (pi ++ [SF 0]) = Some (X, xv).
Proof.
  intros R Hres.
  destruct (menter_ok ovf pi [] t v s top _ _ R Hres) as (top1 & Hm & R1). cbn [app mpath map] in Hm, R1.
  pose proof (repf_focus_wrapper _ _ _ _ _ _ _ R1 Hres) as R2.
  destruct (wrapper_located pi t v s top1 R2 _ _ Hres) as (node & Hsub).
  exists top1, node. split; [exact Hm|]. split; [exact Hsub|]. split; [exact R2|]. exact (resolve_wrapper _ _ _ _ _ Hres).
Qed.

Ltac open_if Ho :=
  match type of Ho with (if ?b then _ else _) = _ => let E := fresh "Eb" in destruct b eqn:E; [|discriminate Ho] end.

Theorem ystep_refines ovf t v s top pi0 o v' obs :
  RepF pi0 t v s top -> m_refuse s <> 1 -> ostepY (m_cap s) t v o = Some (v', obs) ->
  exists s' top' pi', mstepY ovf t s top o = Ok (s', top', obs) /\ RepF pi' t v' s' top' /\
                      m_cap s' = m_cap s /\ m_refuse s' = m_refuse s.
Proof.
  intros R Hnr Ho.
  destruct o as [x|pi X x'|pi x|pi x|pi key value|pi key|pi key|pi key]; cbn [ostepY mstepY] in *.
  - (* History2 *)
    destruct (ostepX (m_cap s) t v x) as [v1|] eqn:E; [|discriminate]. injection Ho as <- <-.
    destruct (xstep_refines ovf t v s top pi0 x v1 R Hnr E) as (s' & top' & Hs & R' & Hc & Hr).
    exists s', top', (xfocus x). auto.
  - (* set_from_owned *)
    apply repf_unfocus in R. pose proof R as [_ _ _ _ Hlen _ _].
    destruct (resolve t v pi) as [[Xr xv]|] eqn:Hres; [|discriminate].
    open_if Ho. injection Ho as <- <-.
    apply andb_true_iff in Eb as [Eb Hroom]. apply andb_true_iff in Eb as [Eb Hpos]. apply andb_true_iff in Eb as [Eb Hwf'].
    apply andb_true_iff in Eb as [Heq Hhd]. apply ty_eqb_eq in Heq. subst Xr. zb.
    destruct (menter_ok ovf pi [] t v s top _ _ R Hres) as (top1 & Hm & R1). cbn [app mpath map] in Hm, R1.
    rewrite Hm. cbn [obind].
    destruct (set_data_general ovf pi t v X xv x' s top1 Hres Hhd Hwf' Hpos R1 Hnr ltac:(rewrite Hlen; lia))
      as (s' & top' & Hs & R' & Hc & Hr).
    exists s', top', pi. auto.
  - (* Set insert *)
    apply repf_unfocus in R. pose proof R as [_ _ _ _ Hlen _ _].
    destruct (resolve t v pi) as [[W wv]|] eqn:Hres; [|discriminate].
    destruct (view_list W wv) as [[[c lw] items]|] eqn:Hv; [|discriminate].
    apply view_list_some in Hv as [-> ->].
    destruct (at_wrapper_ready ovf t v s top pi _ _ R Hres) as (top1 & node & Hm & Hsub & R1 & Hres1).
    unfold with_wrapper. rewrite Hm. cbn [obind]. rewrite Hsub. cbn [obind].
    open_if Ho. apply andb_true_iff in Eb as [Hsa Hit]. apply item_okb_ok in Hit.
    destruct (lower_bound (map le_decode items) (le_decode x) 0) as [idx found] eqn:Hlb. destruct found.
    + injection Ho as <- <-. rewrite (set_insert_present pi t v c lw items x Hres1 s top1 idx R1 Hlb).
      exists s, top1, (pi ++ [SF 0]). auto.
    + open_if Ho. injection Ho as <- <-. unfold room1 in *. zb.
      destruct (set_insert_absent pi t v c lw items x Hres1 Hsa s top1 idx R1 Hit Hlb Hnr ltac:(rewrite Hlen; lia) ltac:(lia) ltac:(lia))
        as (s' & top' & Hs & R' & Hc & Hr & _).
      rewrite Hs. exists s', top', (pi ++ [SF 0]). auto.
  - (* Set remove *)
    apply repf_unfocus in R.
    destruct (resolve t v pi) as [[W wv]|] eqn:Hres; [|discriminate].
    destruct (view_list W wv) as [[[c lw] items]|] eqn:Hv; [|discriminate].
    apply view_list_some in Hv as [-> ->].
    destruct (at_wrapper_ready ovf t v s top pi _ _ R Hres) as (top1 & node & Hm & Hsub & R1 & Hres1).
    unfold with_wrapper. rewrite Hm. cbn [obind]. rewrite Hsub. cbn [obind].
    open_if Ho. rename Eb into Hsa.
    destruct (lower_bound (map le_decode items) (le_decode x) 0) as [idx found] eqn:Hlb. destruct found.
    + injection Ho as <- <-.
      destruct (set_remove_present pi t v c lw items x Hres1 Hsa s top1 idx R1 Hlb) as (s' & top' & Hs & R' & Hc & Hr & _).
      rewrite Hs. exists s', top', (pi ++ [SF 0]). auto.
    + injection Ho as <- <-. rewrite (set_remove_absent pi t v c lw items x Hres1 s top1 idx R1 Hlb).
      exists s, top1, (pi ++ [SF 0]). auto.
  - (* Map insert *)
    apply repf_unfocus in R. pose proof R as [_ _ _ _ Hlen _ _].
    destruct (resolve t v pi) as [[W wv]|] eqn:Hres; [|discriminate].
    destruct (view_list W wv) as [[[c lw] items]|] eqn:Hv; [|discriminate].
    apply view_list_some in Hv as [-> ->].
    destruct (at_wrapper_ready ovf t v s top pi _ _ R Hres) as (top1 & node & Hm & Hsub & R1 & Hres1).
    unfold with_wrapper. rewrite Hm. cbn [obind]. rewrite Hsub. cbn [obind].
    open_if Ho. apply andb_true_iff in Eb as [Hsa Hit]. apply item_okb_ok in Hit.
    destruct (lower_bound (lkeys (length key) items) (le_decode key) 0) as [idx found] eqn:Hlb. destruct found.
    + injection Ho as <- <-.
      destruct (map_insert_present pi t v c lw items key Hres1 Hsa value Hit s top1 idx R1 Hlb) as (s' & Hs & R' & Hc & Hr & _).
      rewrite Hs. exists s', top1, (pi ++ [SF 0]). auto.
    + open_if Ho. injection Ho as <- <-. unfold room1 in *. zb.
      destruct (map_insert_absent pi t v c lw items key Hres1 Hsa value Hit s top1 idx R1 Hlb Hnr
                  ltac:(rewrite Hlen; lia) ltac:(lia) ltac:(lia)) as (s' & top' & Hs & R' & Hc & Hr & _).
      rewrite Hs. exists s', top', (pi ++ [SF 0]). auto.
  - (* Map remove *)
    apply repf_unfocus in R.
    destruct (resolve t v pi) as [[W wv]|] eqn:Hres; [|discriminate].
    destruct (view_list W wv) as [[[c lw] items]|] eqn:Hv; [|discriminate].
    apply view_list_some in Hv as [-> ->].
    destruct (at_wrapper_ready ovf t v s top pi _ _ R Hres) as (top1 & node & Hm & Hsub & R1 & Hres1).
    unfold with_wrapper. rewrite Hm. cbn [obind]. rewrite Hsub. cbn [obind].
    open_if Ho. rename Eb into Hsa.
    destruct (lower_bound (lkeys (length key) items) (le_decode key) 0) as [idx found] eqn:Hlb. destruct found.
    + injection Ho as <- <-.
      destruct (map_remove_present pi t v c lw items key Hres1 Hsa s top1 idx R1 Hlb) as (s' & top' & Hs & R' & Hc & Hr & _).
      rewrite Hs. exists s', top', (pi ++ [SF 0]). auto.
    + injection Ho as <- <-. rewrite (map_remove_absent pi t v c lw items key Hres1 s top1 idx R1 Hlb).
      exists s, top1, (pi ++ [SF 0]). auto.
  - (* UnsizedMap insert (new key) *)
    apply repf_unfocus in R. pose proof R as [_ _ _ _ Hlen _ _].
    destruct (resolve t v pi) as [[W wv]|] eqn:Hres; [|discriminate].
    destruct (view_ulist W wv) as [[[it k] items]|] eqn:Hv; [|discriminate].
    apply view_ulist_some in Hv as [-> ->].
    destruct (at_wrapper_ready ovf t v s top pi _ _ R Hres) as (top1 & node & Hm & Hsub & R1 & Hres1).
    unfold with_wrapper. rewrite Hm. cbn [obind]. rewrite Hsub. cbn [obind].
    open_if Ho.
    apply andb_true_iff in Eb as [Eb Hroom]. apply andb_true_iff in Eb as [Eb Hk2]. apply andb_true_iff in Eb as [Eb Hk1].
    apply andb_true_iff in Eb as [Eb Hz]. apply andb_true_iff in Eb as [Hk _].
    apply negb_true_iff in Hk. apply Nat.eqb_neq in Hk. zb.
    destruct (lower_bound (ukeys items) key 0) as [idx found] eqn:Hlb. destruct found; [discriminate|].
    injection Ho as <- <-.
    destruct (umap_insert_absent pi t v it k items key Hres1 Hk ovf s top1 idx R1 Hz ltac:(lia) Hlb Hnr ltac:(rewrite Hlen; lia))
      as (s' & top' & Hs & R' & Hc & Hr & _).
    rewrite Hs. exists s', top', (pi ++ [SF 0]). auto.
  - (* UnsizedMap remove *)
    apply repf_unfocus in R.
    destruct (resolve t v pi) as [[W wv]|] eqn:Hres; [|discriminate].
    destruct (view_ulist W wv) as [[[it k] items]|] eqn:Hv; [|discriminate].
    apply view_ulist_some in Hv as [-> ->].
    destruct (at_wrapper_ready ovf t v s top pi _ _ R Hres) as (top1 & node & Hm & Hsub & R1 & Hres1).
    unfold with_wrapper. rewrite Hm. cbn [obind]. rewrite Hsub. cbn [obind].
    open_if Ho. apply andb_true_iff in Eb as [Hk _]. apply negb_true_iff in Hk. apply Nat.eqb_neq in Hk.
    destruct (lower_bound (ukeys items) key 0) as [idx found] eqn:Hlb. destruct found.
    + injection Ho as <- <-.
      destruct (umap_remove_present pi t v it k items key Hres1 Hk s top1 idx R1 Hlb) as (s' & top' & Hs & R' & Hc & Hr & _).
      rewrite Hs. exists s', top', (pi ++ [SF 0]). auto.
    + injection Ho as <- <-. rewrite (umap_remove_absent pi t v it k items key Hres1 s top1 idx R1 Hlb).
      exists s, top1, (pi ++ [SF 0]). auto.
Qed.

(* ---------------------------------------------------------------------------------------------- *)
(* 5. histories: the value / state is threaded, the observations are collected in order             *)
Fixpoint orunY (cap : Z) (t : ty) (v : val) (h : list yop) : option (val * list (list Z)) :=
  match h with
  | [] => Some (v, [])
  | o :: r =>
      match ostepY cap t v o with
      | Some (v1, ob) => match orunY cap t v1 r with Some (v', l) => Some (v', ob :: l) | None => None end
      | None => None
      end
  end.

Fixpoint mrunY (ovf : bool) (t : ty) (s : mach) (top : ptr) (h : list yop) : out (mach * ptr * list (list Z)) :=
  match h with
  | [] => Ok (s, top, [])
  | o :: r =>
      do ' (s1, top1, ob) <- mstepY ovf t s top o;
      do ' (s', top', l) <- mrunY ovf t s1 top1 r;
      Ok (s', top', ob :: l)
  end.

Theorem yrun_refines ovf t : forall h v s top pi0 v' obss,
  RepF pi0 t v s top -> m_refuse s <> 1 -> orunY (m_cap s) t v h = Some (v', obss) ->
  exists s' top' pi', mrunY ovf t s top h = Ok (s', top', obss) /\ RepF pi' t v' s' top' /\ m_cap s' = m_cap s.
Proof.
  induction h as [|o h IH]; intros v s top pi0 v' obss R Hnr Ho.
  - cbn in Ho. injection Ho as <- <-. exists s, top, pi0. split; [reflexivity|]. split; [exact R|reflexivity].
  - cbn [orunY] in Ho. destruct (ostepY (m_cap s) t v o) as [[v1 ob]|] eqn:E; [|discriminate].
    destruct (ystep_refines ovf t v s top pi0 o v1 ob R Hnr E) as (s1 & top1 & pi1 & Hs & R1 & Hc & Hr).
    rewrite <- Hc in Ho.
    destruct (orunY (m_cap s1) t v1 h) as [[v'' l]|] eqn:E2; [|discriminate]. injection Ho as <- <-.
    destruct (IH v1 s1 top1 pi1 v'' l R1 ltac:(congruence) E2) as (s' & top' & pi' & Hm & R' & Hc').
    cbn [mrunY]. rewrite Hs. cbn [obind]. rewrite Hm. cbn [obind].
    exists s', top', pi'. split; [reflexivity|]. split; [exact R'|congruence].
Qed.

(* ---------------------------------------------------------------------------------------------- *)
(* 6. the keyed operations never leave the owned model's domain: after a step the view at the same path is again a
      wrapper around a strictly ascending list (pure facts about the owned model, no machine)         *)
Definition sorted_view (t : ty) (v : val) (o : yop) : Prop :=
  match o with
  | YSetInsert pi _ | YSetRemove pi _ =>
      exists c lw items, resolve t v pi = Some (TStruct [TList c lw], VStruct [VList items]) /\
                         strictly_ascending (map le_decode items) = true
  | YMapInsert pi key _ | YMapRemove pi key =>
      exists c lw items, resolve t v pi = Some (TStruct [TList c lw], VStruct [VList items]) /\
                         strictly_ascending (lkeys (length key) items) = true
  | YUMapInsert pi _ | YUMapRemove pi _ =>
      exists it k items, resolve t v pi = Some (TStruct [TUList it k], VStruct [VUList items]) /\ k <> 0%nat /\
                         strictly_ascending (ukeys items) = true
  | _ => True
  end.

(* the model is only defined on sorted views ... *)
Theorem ostepY_domain cap t v o v' obs : ostepY cap t v o = Some (v', obs) -> sorted_view t v o.
Proof.
  intros Ho. destruct o as [x|pi X x'|pi x|pi x|pi key value|pi key|pi key|pi key]; cbn [ostepY sorted_view] in *; try exact I.
  all: destruct (resolve t v pi) as [[W wv]|] eqn:Hres; [|discriminate].
  1-4: destruct (view_list W wv) as [[[c lw] items]|] eqn:Hv; [|discriminate]; apply view_list_some in Hv as [-> ->];
       open_if Ho; exists c, lw, items; split; [reflexivity|].
  5-6: destruct (view_ulist W wv) as [[[it k] items]|] eqn:Hv; [|discriminate]; apply view_ulist_some in Hv as [-> ->];
       open_if Ho; exists it, k, items; split; [reflexivity|].
  - now apply andb_true_iff in Eb as [? _].
  - exact Eb.
  - now apply andb_true_iff in Eb as [? _].
  - exact Eb.
  - repeat (apply andb_true_iff in Eb as [Eb ?]). apply negb_true_iff in Eb. apply Nat.eqb_neq in Eb. auto.
  - apply andb_true_iff in Eb as [Eb ?]. apply negb_true_iff in Eb. apply Nat.eqb_neq in Eb. auto.
Qed.

(* ... and keeps them sorted *)
Theorem ostepY_keeps_sorted cap t v o v' obs : ostepY cap t v o = Some (v', obs) -> sorted_view t v' o.
Proof.
  intros Ho. pose proof (ostepY_domain _ _ _ _ _ _ Ho) as Hdom.
  destruct o as [x|pi X x'|pi x|pi x|pi key value|pi key|pi key|pi key]; cbn [ostepY sorted_view] in *; try exact I.
  all: destruct (resolve t v pi) as [[W wv]|] eqn:Hres; [|discriminate].
  1-4: destruct (view_list W wv) as [[[c lw] items]|] eqn:Hv; [|discriminate]; apply view_list_some in Hv as [-> ->]; open_if Ho.
  5-6: destruct (view_ulist W wv) as [[[it k] items]|] eqn:Hv; [|discriminate]; apply view_ulist_some in Hv as [-> ->]; open_if Ho.
  - (* Set insert *)
    apply andb_true_iff in Eb as [Hsa _].
    destruct (lower_bound (map le_decode items) (le_decode x) 0) as [idx found] eqn:Hlb. destruct found.
    + injection Ho as <- <-. rewrite Hres. exact Hdom.
    + open_if Ho. injection Ho as <- <-. eexists c, lw, _. split; [exact (plug_wrapper _ _ _ _ _ _ Hres)|].
      rewrite map_insert_at. apply sa_insert; assumption.
  - (* Set remove *)
    rename Eb into Hsa.
    destruct (lower_bound (map le_decode items) (le_decode x) 0) as [idx found] eqn:Hlb. destruct found.
    + injection Ho as <- <-. eexists c, lw, _. split; [exact (plug_wrapper _ _ _ _ _ _ Hres)|].
      destruct (lower_bound_range _ _ _ _ Hsa Hlb) as [Hidx _].
      rewrite map_remove_at. apply sa_remove_one; [lia|exact Hsa].
    + injection Ho as <- <-. rewrite Hres. exact Hdom.
  - (* Map insert *)
    apply andb_true_iff in Eb as [Hsa _].
    destruct (lower_bound (lkeys (length key) items) (le_decode key) 0) as [idx found] eqn:Hlb. destruct found.
    + injection Ho as <- <-. eexists c, lw, _. split; [exact (plug_wrapper _ _ _ _ _ _ Hres)|].
      pose proof (lower_bound_spec (lkeys (length key) items) (le_decode key) Hsa) as Hspec. rewrite Hlb in Hspec.
      destruct Hspec as (_ & _ & _ & Hnth & _). pose proof (proj1 Hnth eq_refl) as Hk.
      unfold lkeys at 1. change (match items with [] => [] | _ :: l => skipn (Z.to_nat idx) l end) with (skipn (S (Z.to_nat idx)) items). rewrite map_app, map_cons. cbn beta. rewrite key_of_new, <- firstn_map, <- skipn_map.
      fold (lkeys (length key) items). rewrite <- (nth_error_split3 _ _ _ Hk). exact Hsa.
    + open_if Ho. injection Ho as <- <-. eexists c, lw, _. split; [exact (plug_wrapper _ _ _ _ _ _ Hres)|].
      unfold lkeys at 1. rewrite map_insert_at, key_of_new. fold (lkeys (length key) items). apply sa_insert; assumption.
  - (* Map remove *)
    rename Eb into Hsa.
    destruct (lower_bound (lkeys (length key) items) (le_decode key) 0) as [idx found] eqn:Hlb. destruct found.
    + injection Ho as <- <-. eexists c, lw, _. split; [exact (plug_wrapper _ _ _ _ _ _ Hres)|].
      destruct (lower_bound_range _ _ _ _ Hsa Hlb) as [Hidx _].
      unfold lkeys at 1. rewrite map_remove_at. fold (lkeys (length key) items). apply sa_remove_one; [lia|exact Hsa].
    + injection Ho as <- <-. rewrite Hres. exact Hdom.
  - (* UnsizedMap insert *)
    apply andb_true_iff in Eb as [Eb Hroom]. apply andb_true_iff in Eb as [Eb Hk2]. apply andb_true_iff in Eb as [Eb Hk1].
    apply andb_true_iff in Eb as [Eb Hz]. apply andb_true_iff in Eb as [Hk Hsa].
    apply negb_true_iff in Hk. apply Nat.eqb_neq in Hk. zb.
    destruct (lower_bound (ukeys items) key 0) as [idx found] eqn:Hlb. destruct found; [discriminate|].
    injection Ho as <- <-. eexists it, k, _. split; [exact (plug_wrapper _ _ _ _ _ _ Hres)|]. split; [exact Hk|].
    unfold ukeys at 1. rewrite map_insert_at. cbn [fst]. rewrite le_decode_le_bytes by lia.
    fold (ukeys items). apply sa_insert; assumption.
  - (* UnsizedMap remove *)
    apply andb_true_iff in Eb as [Hk Hsa]. apply negb_true_iff in Hk. apply Nat.eqb_neq in Hk.
    destruct (lower_bound (ukeys items) key 0) as [idx found] eqn:Hlb. destruct found.
    + injection Ho as <- <-. eexists it, k, _. split; [exact (plug_wrapper _ _ _ _ _ _ Hres)|]. split; [exact Hk|].
      destruct (lower_bound_range _ _ _ _ Hsa Hlb) as [Hidx _].
      unfold ukeys at 1. rewrite map_remove_at. fold (ukeys items). apply sa_remove_one; [lia|exact Hsa].
    + injection Ho as <- <-. rewrite Hres. exact Hdom.
Qed.

(* the instance asked for: after a Set insert the list at pi ++ [SF 0] is strictly ascending *)
Corollary ostepY_set_insert_sorted cap t v pi x v' obs :
  ostepY cap t v (YSetInsert pi x) = Some (v', obs) ->
  exists c lw items', resolve t v' (pi ++ [SF 0]) = Some (TList c lw, VList items') /\
                      strictly_ascending (map le_decode items') = true.
Proof.
  intros Ho. destruct (ostepY_keeps_sorted _ _ _ _ _ _ Ho) as (c & lw & items' & Hres & Hsa).
  exists c, lw, items'. split; [exact (resolve_wrapper _ _ _ _ _ Hres)|exact Hsa].
Qed.

(* ---------------------------------------------------------------------------------------------- *)
(* 7. non-vacuity: a value with a Set, a Map, an UnsizedMap, a list of unsized elements whose element holds a Set,
      a List and trailing bytes; a history exercising every constructor (both branches of every keyed operation,
      a keyed operation and whole-value replacements below an element of a list of unsized elements), evaluated in
      the owned model and on the machine started from get_ptr: same observations, canonical bytes, same value  *)
Example yrun_nonvacuous_all_ops :
  let setT := TStruct [TList (FAny 1) 4] in                          (* Set<u8> *)
  let mapT := TStruct [TList (FStruct [FAny 1; FAny 2]) 4] in        (* Map<u8, [u8; 2]> *)
  let umapT := TStruct [TUList (TList (FAny 1) 1) 1] in              (* UnsizedMap<u8, List<u8, u8>> *)
  let elT := TStruct [TFixed (FAny 1); TStruct [TList (FAny 1) 1]] in
  let t := TStruct [setT; mapT; umapT; TUList elT 0; TList (FAny 1) 1; TRem] in
  let v := VStruct [VStruct [VList [[2]; [5]]]; VStruct [VList [[1; 0; 0]; [4; 7; 7]]]; VStruct [VUList [([3], VList [[9]])]];
                    VUList [([], VStruct [VBytes [1]; VStruct [VList [[4]]]])]; VList [[1]]; VBytes [9]] in
  let s := mkMach (encode t v ++ zrepeat 0 10240) (zlen (encode t v)) 0 0 in
  let h := [YSetInsert [SF 0] [3]; YSetInsert [SF 0] [5]; YSetRemove [SF 0] [2]; YSetRemove [SF 0] [7];
            YMapInsert [SF 1] [2] [8; 8]; YMapInsert [SF 1] [4] [6; 6]; YMapRemove [SF 1] [1]; YMapRemove [SF 1] [9];
            YUMapInsert [SF 2] 1; YUMapInsert [SF 2] 200; YUMapRemove [SF 2] 3; YUMapRemove [SF 2] 77;
            YSetInsert [SF 3; SE 0; SF 1] [1];
            YSet [SF 4] (TList (FAny 1) 1) (VList [[1]; [2]; [3]]);
            YSet [SF 3; SE 0] elT (VStruct [VBytes [6]; VStruct [VList []]]);
            YSet [SF 2; SF 0; SE 0] (TList (FAny 1) 1) (VList [[1]; [1]]);
            YX (XList (GInsert [SF 4] 0 [[7]])); YX (XRemLen [SF 5] 3); YSetInsert [SF 3; SE 0; SF 1] [8]] in
  let v' := VStruct [VStruct [VList [[3]; [5]]]; VStruct [VList [[2; 8; 8]; [4; 6; 6]]];
                     VStruct [VUList [([1], VList [[1]; [1]]); ([200], VList [])]];
                     VUList [([], VStruct [VBytes [6]; VStruct [VList [[8]]]])]; VList [[7]; [1]; [2]; [3]]; VBytes [9; 0; 0]] in
  let obss := [[1]; [0]; [1]; [0]; [0]; [1]; [1]; [0]; [1]; [1]; [1]; [0]; [1]; []; []; []; []; []; [1]] in
  plain t = true /\ ty_ok true t = true /\ wf t v = true /\
  orunY (m_cap s) t v h = Some (v', obss) /\
  match get_ptr true t (m_mem s) 0 (m_len s) with
  | Ok (top, _) =>
      match mrunY true t s top h with
      | Ok (s', top', l) =>
          l = obss /\ ztake (m_len s') (m_mem s') = encode t v' /\ owned_ptr true t (m_mem s') top' = Ok v' /\
          top_check s' top' = true
      | _ => False
      end
  | _ => False
  end.
Proof. vm_compute. repeat split; reflexivity. Qed.

Print Assumptions ystep_refines.
Print Assumptions yrun_refines.
Print Assumptions ostepY_keeps_sorted.
