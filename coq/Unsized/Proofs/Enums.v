(* Enums in the refinement theory.
   1. `plain` (the hypothesis name the layout theory carries) holds of EVERY shape.
   2. Variant switching by the generated setter set_<variant>(DefaultInit) (Run.exec code 60 = Ops.set_data with the
      bytes of EnumInitVariant(DefaultInit)) at the end of ANY path refines assigning the default value of the new
      variant on the owned model.
   3. One history theorem for the whole operation set of History3 plus the switch.
   4. The dispatcher Run.exec on the op-code stream of a switch is descent + set_data (mstepZ).
   5. A concrete history: an enum inside a list of unsized elements inside a struct is switched to a data variant,
      the list inside the payload grows, the enum is switched back to the unit variant. *)
From SF Require Import Base.Prelude Gen.Generated Unsized.Types Unsized.Parse Unsized.Machine Unsized.Ops Unsized.Run.
From SF Require Import Unsized.Proofs.EncodeParse Unsized.Proofs.Mem Unsized.Proofs.Notify Unsized.Proofs.Flat Unsized.Proofs.Layout
  Unsized.Proofs.Observe Unsized.Proofs.Table Unsized.Proofs.Path Unsized.Proofs.Context Unsized.Proofs.Context2 Unsized.Proofs.Focus
  Unsized.Proofs.Pos Unsized.Proofs.FocusOps Unsized.Proofs.NotifyInside Unsized.Proofs.Resize Unsized.Proofs.GenOps
  Unsized.Proofs.GenOps2 Unsized.Proofs.Init Unsized.Proofs.UInsert Unsized.Proofs.URemove Unsized.Proofs.History
  Unsized.Proofs.History2 Unsized.Proofs.NotifyInside2 Unsized.Proofs.SetData Unsized.Proofs.Keyed Unsized.Proofs.ExecTie
  Unsized.Proofs.ExecTie2 Unsized.Proofs.History3.
From SF Require Import Unsized.Proofs.EnumFacts.

Arguments Z.add : simpl never.
Arguments Z.sub : simpl never.
Arguments Z.mul : simpl never.
Arguments Z.of_nat : simpl never.
Arguments Z.pow : simpl never.
Arguments Z.modulo : simpl never.

(* ---------------------------------------------------------------------------------------------- *)
(* 1. every shape is covered by the layout theory                                                  *)
Theorem plain_all : forall t, plain t = true.
Proof.
  induction t as [c|c lw| |it k IH|ts IH|rw vs IH] using ty_ind'.
  - reflexivity.
  - reflexivity.
  - reflexivity.
  - cbn [plain]. exact IH.
  - induction IH as [|t ts Ht _ IHts]; [reflexivity|].
    rewrite plain_struct_cons, Ht, IHts. reflexivity.
  - cbn [plain]. induction IH as [|[d t] vs Ht _ IHvs]; [reflexivity|].
    cbn [snd] in Ht. rewrite Ht, IHvs. reflexivity.
Qed.

(* ---------------------------------------------------------------------------------------------- *)
(* 2. the switch                                                                                   *)

(* the value and the bytes of EnumInitVariant<d>(DefaultInit) *)
Lemma init_variant_exact rw vs d vt :
  find_variant d vs = Some vt -> 0 <= d < 256 ^ Z.of_nat rw -> zero_ok vt = true ->
  init_variant rw d vt 0 = Ok (encode (TEnum rw vs) (VEnum d (dflt vt))) /\
  init_variant_size rw vt 0 = zlen (encode (TEnum rw vs) (VEnum d (dflt vt))) /\
  wf (TEnum rw vs) (VEnum d (dflt vt)) = true.
Proof.
  intros Hf [Hd1 Hd2] Hz.
  destruct (init_default_exact vt (plain_all vt) Hz) as (Hib & Hisz & Hdw).
  unfold init_variant, init_variant_size. rewrite Hib. cbn [obind].
  rewrite (encode_enum_some _ _ _ _ _ Hf), zlen_app, zlen_le_bytes, Hisz.
  split; [reflexivity|]. split; [reflexivity|].
  rewrite wf_enum, Hf, Hdw. apply Z.leb_le in Hd1. apply Z.ltb_lt in Hd2. rewrite Hd1, Hd2. reflexivity.
Qed.

(* an enum reached by a path of a represented value occupies at least its discriminant *)
Lemma resolve_enum_pos pi t v rw vs xv last :
  ty_ok last t = true -> wf t v = true -> resolve t v pi = Some (TEnum rw vs, xv) ->
  0 < zlen (encode (TEnum rw vs) xv).
Proof.
  intros Hok Hwf Hres.
  pose proof (resolve_wf _ _ _ _ _ Hwf Hres) as HwfX.
  destruct (resolve_ty_ok _ _ _ _ _ _ Hok Hres) as (l' & HokX & _).
  pose proof (ty_ok_enum_rw _ _ _ HokX) as Hrw.
  destruct (wf_enum_val _ _ _ HwfX) as (d0 & p0 & ->).
  destruct (wf_enum_inv _ _ _ _ HwfX) as (_ & vt0 & Hf0 & _).
  rewrite (zlen_encode_enum _ _ _ _ _ Hf0). pose proof (zlen_nonneg (encode vt0 p0)). lia.
Qed.

Theorem enum_switch_general ovf pi t v rw vs xv d vt s top :
  resolve t v pi = Some (TEnum rw vs, xv) -> find_variant d vs = Some vt ->
  0 <= d < 256 ^ Z.of_nat rw -> zero_ok vt = true ->
  RepF pi t v s top -> m_refuse s <> 1 ->
  m_len s + (Z.of_nat rw + init_size vt 0 - zlen (encode (TEnum rw vs) xv)) <= m_cap s ->
  exists s' top', set_data ovf t s top (mpath pi) (init_variant_size rw vt 0) (init_variant rw d vt 0) = Ok (s', top', []) /\
                  RepF pi t (plug t v pi (VEnum d (dflt vt))) s' top' /\ m_cap s' = m_cap s /\ m_refuse s' = m_refuse s.
Proof.
  intros Hres Hf Hd Hz R Hnr Hroom.
  pose proof R as [Hpl Hok Hwf _ _ _ _].
  pose proof (resolve_enum_pos _ _ _ _ _ _ _ Hok Hwf Hres) as Hpos.
  destruct (init_variant_exact rw vs d vt Hf Hd Hz) as (Hib & Hisz & HwfX').
  rewrite Hib, Hisz.
  apply (set_data_general ovf pi t v (TEnum rw vs) xv (VEnum d (dflt vt)) s top Hres eq_refl HwfX' Hpos R Hnr).
  rewrite <- Hisz. unfold init_variant_size. exact Hroom.
Qed.

(* ---------------------------------------------------------------------------------------------- *)
(* 3. histories with the switch as an operation                                                    *)
Inductive zop := ZY (o : yop) | ZSwitch (pi : list step) (d : Z).

Definition ostepZ (cap : Z) (t : ty) (v : val) (o : zop) : option (val * list Z) :=
  match o with
  | ZY y => ostepY cap t v y
  | ZSwitch pi d =>
      match resolve t v pi with
      | Some (TEnum rw vs, xv) =>
          match find_variant d vs with
          | Some vt =>
              if (0 <=? d) && (d <? 256 ^ Z.of_nat rw) && zero_ok vt
                 && (zlen (encode t v) + (Z.of_nat rw + init_size vt 0 - zlen (encode (TEnum rw vs) xv)) <=? cap)
              then Some (plug t v pi (VEnum d (dflt vt)), []) else None
          | None => None
          end
      | _ => None
      end
  end.

Definition mstepZ (ovf : bool) (t : ty) (s : mach) (top : ptr) (o : zop) : out res :=
  match o with
  | ZY y => mstepY ovf t s top y
  | ZSwitch pi d =>
      do top1 <- menter ovf t s top [] pi;
      do ' (tc, _) <- sub t top1 (mpath pi);
      match tc with
      | TEnum rw vs =>
          match find_variant d vs with
          | Some vt => set_data ovf t s top1 (mpath pi) (init_variant_size rw vt 0) (init_variant rw d vt 0)
          | None => SKIPPED
          end
      | _ => SKIPPED
      end
  end.

(* what the switch does once the descent is done (the continuation of mstepZ, the body of Run.exec code 60) *)
Definition switch_at (ovf : bool) (t : ty) (s : mach) (pi : list step) (d : Z) (top1 : ptr) : out res :=
  do ' (tc, _) <- sub t top1 (mpath pi);
  match tc with
  | TEnum rw vs =>
      match find_variant d vs with
      | Some vt => set_data ovf t s top1 (mpath pi) (init_variant_size rw vt 0) (init_variant rw d vt 0)
      | None => SKIPPED
      end
  | _ => SKIPPED
  end.

Lemma mstepZ_switch ovf t s top pi d :
  mstepZ ovf t s top (ZSwitch pi d) = (do top1 <- menter ovf t s top [] pi; switch_at ovf t s pi d top1).
Proof. reflexivity. Qed.

Theorem zstep_refines ovf t v s top pi0 o v' obs :
  RepF pi0 t v s top -> m_refuse s <> 1 -> ostepZ (m_cap s) t v o = Some (v', obs) ->
  exists s' top' pi', mstepZ ovf t s top o = Ok (s', top', obs) /\ RepF pi' t v' s' top' /\
                      m_cap s' = m_cap s /\ m_refuse s' = m_refuse s.
Proof.
  intros R Hnr Ho. destruct o as [y|pi d].
  - exact (ystep_refines ovf t v s top pi0 y v' obs R Hnr Ho).
  - cbn [ostepZ] in Ho. rewrite mstepZ_switch.
    apply repf_unfocus in R. pose proof R as [_ _ Hwf _ Hlen _ _].
    destruct (resolve t v pi) as [[X xv]|] eqn:Hres; [|discriminate].
    destruct X as [| | | | |rw vs]; try discriminate.
    destruct (find_variant d vs) as [vt|] eqn:Hf; [|discriminate].
    open_if Ho. injection Ho as <- <-.
    apply andb_true_iff in Eb as [Eb Hroom]. apply andb_true_iff in Eb as [Eb Hz]. apply andb_true_iff in Eb as [Hd1 Hd2]. zb.
    destruct (menter_ok ovf pi [] t v s top _ _ R Hres) as (top1 & Hm & R1). cbn [app mpath map] in Hm, R1.
    rewrite Hm. cbn [obind].
    pose proof R1 as [_ _ _ _ _ HL1 _].
    destruct (LayP_get_at Lay pi t v 0 top1 _ _ Hwf Hres HL1) as (node & Hg & _).
    unfold switch_at, sub. rewrite Hg. cbn [obind]. rewrite Hf.
    destruct (enum_switch_general ovf pi t v rw vs xv d vt s top1 Hres Hf ltac:(lia) Hz R1 Hnr ltac:(rewrite Hlen; lia))
      as (s' & top' & Hs & R' & Hc & Hr).
    exists s', top', pi. auto.
Qed.

Fixpoint orunZ (cap : Z) (t : ty) (v : val) (h : list zop) : option (val * list (list Z)) :=
  match h with
  | [] => Some (v, [])
  | o :: r =>
      match ostepZ cap t v o with
      | Some (v1, ob) => match orunZ cap t v1 r with Some (v', l) => Some (v', ob :: l) | None => None end
      | None => None
      end
  end.

Fixpoint mrunZ (ovf : bool) (t : ty) (s : mach) (top : ptr) (h : list zop) : out (mach * ptr * list (list Z)) :=
  match h with
  | [] => Ok (s, top, [])
  | o :: r =>
      do ' (s1, top1, ob) <- mstepZ ovf t s top o;
      do ' (s', top', l) <- mrunZ ovf t s1 top1 r;
      Ok (s', top', ob :: l)
  end.

Theorem zrun_refines ovf t : forall h v s top pi0 v' obss,
  RepF pi0 t v s top -> m_refuse s <> 1 -> orunZ (m_cap s) t v h = Some (v', obss) ->
  exists s' top' pi', mrunZ ovf t s top h = Ok (s', top', obss) /\ RepF pi' t v' s' top' /\ m_cap s' = m_cap s.
Proof.
  induction h as [|o h IH]; intros v s top pi0 v' obss R Hnr Ho.
  - cbn in Ho. injection Ho as <- <-. exists s, top, pi0. split; [reflexivity|]. split; [exact R|reflexivity].
  - cbn [orunZ] in Ho. destruct (ostepZ (m_cap s) t v o) as [[v1 ob]|] eqn:E; [|discriminate].
    destruct (zstep_refines ovf t v s top pi0 o v1 ob R Hnr E) as (s1 & top1 & pi1 & Hs & R1 & Hc & Hr).
    rewrite <- Hc in Ho.
    destruct (orunZ (m_cap s1) t v1 h) as [[v'' l]|] eqn:E2; [|discriminate]. injection Ho as <- <-.
    destruct (IH v1 s1 top1 pi1 v'' l R1 ltac:(congruence) E2) as (s' & top' & pi' & Hm & R' & Hc').
    cbn [mrunZ]. rewrite Hs. cbn [obind]. rewrite Hm. cbn [obind].
    exists s', top', pi'. split; [reflexivity|]. split; [exact R'|congruence].
Qed.

(* ---------------------------------------------------------------------------------------------- *)
(* 4. the dispatcher on the op codes of a switch                                                   *)
Definition enc_switch (t : ty) (v : val) (pi : list step) (d : Z) : list Z := enc_path t v pi ++ [60; d].

(* one step of the dispatcher on op code 60 *)
Lemma exec_switch f ovf t s top ps d r :
  exec (S f) ovf t s top ps (60 :: d :: r) =
  (do ' (tc, pc) <- sub t top ps;
   match tc with
   | TEnum rw vs =>
       match find_variant d vs with
       | None => SKIPPED
       | Some vt =>
           match set_data ovf t s top ps (init_variant_size rw vt 0) (init_variant rw d vt 0) with
           | Ok (s1, top1, []) =>
               match r, vt with
               | [], _ => Ok (s1, top1, [])
               | _, TStruct [] => Ok (s1, top1, [])
               | _, _ =>
                   match exec f ovf t s1 top1 (ps ++ [PV]) r with
                   | Err c => if c =? -9 then SKIPPED else efail s1 top1 c
                   | o => o
                   end
               end
           | o => o
           end
       end
   | _ => SKIPPED
   end).
Proof. reflexivity. Qed.

(* at the end of the path (the type there is an enum) the dispatcher performs the switch itself *)
Lemma exec_switch_tail f ovf t s top pi d rw vs pc :
  get_at t top (mpath pi) = Some (TEnum rw vs, pc) ->
  exec (S f) ovf t s top (mpath pi) [60; d] = switch_at ovf t s pi d top.
Proof.
  intros Hg. rewrite exec_switch. unfold switch_at, sub. rewrite Hg. cbn [obind].
  destruct (find_variant d vs) as [vt|]; [|reflexivity].
  destruct (set_data ovf t s top (mpath pi) (init_variant_size rw vt 0) (init_variant rw d vt 0)) as [[[s1 top1] [|e l]]| | |];
    reflexivity.
Qed.

(* the dispatcher on an encoded switch, against descent + switch (the form of ExecTie2.exec_tie_x) *)
Lemma exec_tie_switch_gen ovf t v s top pi d rw vs xv fuel :
  RepF [] t v s top -> resolve t v pi = Some (TEnum rw vs, xv) -> (length pi < fuel)%nat ->
  exists top1, menter ovf t s top [] pi = Ok top1 /\
    (exec fuel ovf t s top [] (enc_switch t v pi d) = switch_at ovf t s pi d top1 \/
     exists code topk, switch_at ovf t s pi d top1 = Err code /\ code <> -9 /\
                       exec fuel ovf t s top [] (enc_switch t v pi d) = Ok (s, topk, [-1; code])).
Proof.
  intros R Hres Hfuel.
  exact (exec_path_x ovf t v s (switch_at ovf t s pi d) [60; d] pi (TEnum rw vs) xv Hres ltac:(discriminate)
           (fun f top' pc Hg => exec_switch_tail f ovf t s top' pi d rw vs pc Hg)
           pi [] top fuel t v eq_refl eq_refl R Hfuel).
Qed.

(* success: the dispatcher returns exactly what descent + switch return (the form of ExecTie.exec_tie_ok) *)
Theorem exec_tie_switch ovf t v s top pi d r :
  RepF [] t v s top ->
  (exists X xv, resolve t v pi = Some (X, xv) /\ (exists rw vs, X = TEnum rw vs)) ->
  mstepZ ovf t s top (ZSwitch pi d) = Ok r ->
  forall fuel, (length pi < fuel)%nat -> exec fuel ovf t s top [] (enc_path t v pi ++ [60; d]) = Ok r.
Proof.
  intros R (X & xv & Hres & rw & vs & ->) Hs fuel Hfuel.
  destruct (exec_tie_switch_gen ovf t v s top pi d rw vs xv fuel R Hres Hfuel) as (top1 & Hm & Hex).
  rewrite mstepZ_switch, Hm in Hs. cbn [obind] in Hs. unfold enc_switch in Hex.
  destruct Hex as [Hex|(code & topk & HF & _ & _)]; [rewrite Hex; exact Hs|congruence].
Qed.

(* failure: the dispatcher reports the error code of the switch; with the state reached by the descent when the path
   crosses a list of unsized elements (efail), as a plain Err otherwise (the form of ExecTie.exec_tie_err) *)
Theorem exec_tie_switch_err ovf t v s top pi d top1 c :
  RepF [] t v s top ->
  (exists X xv, resolve t v pi = Some (X, xv) /\ (exists rw vs, X = TEnum rw vs)) ->
  menter ovf t s top [] pi = Ok top1 -> switch_at ovf t s pi d top1 = Err c ->
  forall fuel, (length pi < fuel)%nat ->
  exec fuel ovf t s top [] (enc_path t v pi ++ [60; d]) = Err c \/
  exists topk, exec fuel ovf t s top [] (enc_path t v pi ++ [60; d]) = Ok (s, topk, [-1; c]).
Proof.
  intros R (X & xv & Hres & rw & vs & ->) Hm Hop fuel Hfuel.
  destruct (exec_tie_switch_gen ovf t v s top pi d rw vs xv fuel R Hres Hfuel) as (top1' & Hm' & Hex).
  rewrite Hm in Hm'. injection Hm' as <-. unfold enc_switch in Hex.
  destruct Hex as [Hex|(code & topk & HF & _ & Hex)].
  - left. rewrite Hex. exact Hop.
  - right. exists topk. rewrite Hop in HF. injection HF as <-. exact Hex.
Qed.

(* the two together: a switch the owned model accepts, sent to the dispatcher as op codes, succeeds and the state it
   leaves represents the model's new value *)
Corollary exec_switch_refines ovf t v s top pi d v' obs :
  RepF [] t v s top -> m_refuse s <> 1 -> ostepZ (m_cap s) t v (ZSwitch pi d) = Some (v', obs) ->
  forall fuel, (length pi < fuel)%nat ->
  exists s' top', exec fuel ovf t s top [] (enc_path t v pi ++ [60; d]) = Ok (s', top', obs) /\
                  RepF pi t v' s' top' /\ m_cap s' = m_cap s /\ m_refuse s' = m_refuse s /\
                  obs = [] /\ exists rw vs xv vt, resolve t v pi = Some (TEnum rw vs, xv) /\ find_variant d vs = Some vt /\
                                                  v' = plug t v pi (VEnum d (dflt vt)).
Proof.
  intros R Hnr Ho fuel Hfuel.
  destruct (zstep_refines ovf t v s top [] (ZSwitch pi d) v' obs R Hnr Ho) as (s' & top' & pi' & Hs & _ & _ & _).
  cbn [ostepZ] in Ho.
  destruct (resolve t v pi) as [[X xv]|] eqn:Hres; [|discriminate].
  destruct X as [| | | | |rw vs]; try discriminate.
  destruct (find_variant d vs) as [vt|] eqn:Hf; [|discriminate].
  open_if Ho. injection Ho as <- <-.
  pose proof (exec_tie_switch ovf t v s top pi d _ R
                (ex_intro _ _ (ex_intro _ _ (conj Hres (ex_intro _ rw (ex_intro _ vs eq_refl))))) Hs fuel Hfuel) as Hex.
  (* the state is the one of enum_switch_general, focused at pi *)
  apply andb_true_iff in Eb as [Eb Hroom]. apply andb_true_iff in Eb as [Eb Hz]. apply andb_true_iff in Eb as [Hd1 Hd2]. zb.
  pose proof R as [_ _ Hwf _ Hlen _ _].
  destruct (menter_ok ovf pi [] t v s top _ _ R Hres) as (top1 & Hm & R1). cbn [app mpath map] in Hm, R1.
  pose proof R1 as [_ _ _ _ _ HL1 _].
  destruct (LayP_get_at Lay pi t v 0 top1 _ _ Hwf Hres HL1) as (node & Hg & _).
  destruct (enum_switch_general ovf pi t v rw vs xv d vt s top1 Hres Hf ltac:(lia) Hz R1 Hnr ltac:(rewrite Hlen; lia))
    as (s2 & top2 & Hs2 & R2 & Hc2 & Hr2).
  rewrite mstepZ_switch, Hm in Hs. cbn [obind] in Hs. unfold switch_at, sub in Hs. rewrite Hg in Hs. cbn [obind] in Hs.
  rewrite Hf, Hs2 in Hs. injection Hs as <- <-.
  exists s2, top2. split; [exact Hex|]. split; [exact R2|]. split; [exact Hc2|]. split; [exact Hr2|]. split; [reflexivity|].
  exists rw, vs, xv, vt. auto.
Qed.

(* ---------------------------------------------------------------------------------------------- *)
(* 5. non-vacuity: an enum inside a list of unsized elements inside a struct.  Element 0 (the unit variant 0) is
      switched to the data variant 3 (an empty list), an item is inserted into the list inside the payload (path
      through SV), and the element is switched back to the unit variant; evaluated in the owned model and on the
      machine started from get_ptr: same observations, canonical bytes, the value seen through the live pointers
      is the model's value - after two steps and after all three; the dispatcher on the op codes of the first
      switch returns what mstepZ returns *)
Example enums_nonvacuous :
  let E := TEnum 1 [(0, TStruct []); (3, TList (FAny 1) 1)] in
  let t := TStruct [TFixed (FAny 1); TUList E 0; TList (FAny 1) 1] in
  let v := VStruct [VBytes [9]; VUList [([], VEnum 0 (VStruct [])); ([], VEnum 3 (VList [[5]]))]; VList [[7]]] in
  let s := mkMach (encode t v ++ zrepeat 0 32) (zlen (encode t v)) 0 0 in
  let h := [ZSwitch [SF 1; SE 0] 3;
            ZY (YX (XList (GInsert [SF 1; SE 0; SV] 0 [[4]])));
            ZSwitch [SF 1; SE 0] 0] in
  let v2 := VStruct [VBytes [9]; VUList [([], VEnum 3 (VList [[4]])); ([], VEnum 3 (VList [[5]]))]; VList [[7]]] in
  let v3 := VStruct [VBytes [9]; VUList [([], VEnum 0 (VStruct [])); ([], VEnum 3 (VList [[5]]))]; VList [[7]]] in
  plain t = true /\ ty_ok true t = true /\ wf t v = true /\
  orunZ (m_cap s) t v (firstn 2 h) = Some (v2, [[]; []]) /\
  orunZ (m_cap s) t v h = Some (v3, [[]; []; []]) /\
  enc_switch t v [SF 1; SE 0] 3 = [1; 1; 1; 0; 60; 3] /\
  match get_ptr true t (m_mem s) 0 (m_len s) with
  | Ok (top, _) =>
      exec 3 true t s top [] (enc_switch t v [SF 1; SE 0] 3) = mstepZ true t s top (ZSwitch [SF 1; SE 0] 3) /\
      match mrunZ true t s top (firstn 2 h) with
      | Ok (s', top', l) =>
          l = [[]; []] /\ ztake (m_len s') (m_mem s') = encode t v2 /\ owned_ptr true t (m_mem s') top' = Ok v2 /\
          top_check s' top' = true
      | _ => False
      end /\
      match mrunZ true t s top h with
      | Ok (s', top', l) =>
          l = [[]; []; []] /\ ztake (m_len s') (m_mem s') = encode t v3 /\ owned_ptr true t (m_mem s') top' = Ok v3 /\
          top_check s' top' = true
      | _ => False
      end
  | _ => False
  end.
Proof. vm_compute. repeat split; reflexivity. Qed.

Print Assumptions plain_all.
Print Assumptions enum_switch_general.
Print Assumptions zstep_refines.
Print Assumptions zrun_refines.
Print Assumptions exec_tie_switch.
Print Assumptions exec_tie_switch_err.
Print Assumptions exec_switch_refines.
Print Assumptions enums_nonvacuous.
