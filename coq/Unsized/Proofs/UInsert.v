(* UnsizedList::insert_all_with_offsets (default initializer) on a list of unsized elements located ANYWHERE inside a
   value refines Vec::splice(idx..idx, defaults) on the owned model: same success, and the new machine state holds the
   owned model's new value with every ancestor header, offset table and live pointer updated. *)
From SF Require Import Base.Prelude Gen.Generated Unsized.Types Unsized.Parse Unsized.Machine Unsized.Ops.
From SF Require Import Unsized.Proofs.EncodeParse Unsized.Proofs.Mem Unsized.Proofs.Notify Unsized.Proofs.Flat Unsized.Proofs.Layout
  Unsized.Proofs.Table Unsized.Proofs.Path Unsized.Proofs.Context Unsized.Proofs.Context2 Unsized.Proofs.Focus Unsized.Proofs.Pos
  Unsized.Proofs.FocusOps Unsized.Proofs.NotifyInside Unsized.Proofs.Resize Unsized.Proofs.GenOps.
From SF Require Import Unsized.Proofs.EnumFacts.

Arguments Z.add : simpl never.
Arguments Z.sub : simpl never.
Arguments Z.mul : simpl never.
Arguments Z.of_nat : simpl never.
Arguments Z.pow : simpl never.
Arguments Z.modulo : simpl never.

(* ---------------------------------------------------------------------------------------------- *)
(* list helpers                                                                                    *)
Lemma map_const_repeat {A B} (x : B) (l : list A) : map (fun _ => x) l = repeat x (length l).
Proof. induction l as [|y l IH]; cbn [map length repeat]; [reflexivity|now rewrite IH]. Qed.

Lemma zsum_repeat x n : zsum (repeat x n) = Z.of_nat n * x.
Proof. induction n as [|n IH]; cbn [repeat zsum]; [lia|rewrite IH; lia]. Qed.

Lemma zlen_concat_repeat (b : list Z) n : zlen (concat (repeat b n)) = Z.of_nat n * zlen b.
Proof. induction n as [|n IH]; cbn [repeat concat]; [reflexivity|rewrite zlen_app, IH; lia]. Qed.

Lemma offsets_from_app a : forall b b0, offsets_from b0 (a ++ b) = offsets_from b0 a ++ offsets_from (b0 + zsum a) b.
Proof.
  induction a as [|x a IH]; intros b b0; cbn [app offsets_from zsum].
  - f_equal. lia.
  - f_equal. rewrite IH. f_equal. f_equal. lia.
Qed.

Lemma zlen_nil_inv {A} (l : list A) : zlen l <= 0 -> l = [].
Proof. destruct l; [reflexivity|rewrite zlen_cons; pose proof (zlen_nonneg l); lia]. Qed.

(* ---------------------------------------------------------------------------------------------- *)
(* memory primitives, stated against explicit decompositions                                       *)
Lemma wr_at (m m' a b c b' : list Z) x :
  m = a ++ b ++ c -> m' = a ++ b' ++ c -> x = zlen a -> zlen b' = zlen b -> wr m x b' = Ok m'.
Proof. intros -> -> -> H. now apply wr_mid. Qed.

Lemma rd32_at (m a c : list Z) n x : m = a ++ le_bytes 4 n ++ c -> x = zlen a -> 0 <= n < U32_LIMIT -> rd32 m x = Ok n.
Proof. intros -> -> H. now apply rd32_mid. Qed.

Lemma mmove_up_at (m m' a t z c : list Z) d s l :
  m = a ++ (t ++ z) ++ c -> m' = a ++ ztake (zlen z) (t ++ z) ++ t ++ c ->
  s = zlen a -> d = zlen a + zlen z -> l = zlen t -> mmove m d s l = Ok m'.
Proof. intros -> -> -> -> ->. now apply mmove_up. Qed.

(* adjust_offsets only touches the entries from `start` on: whatever bytes the first `start` entries hold *)
Lemma adjust_offsets_suffix (k : nat) (m m' A0 JUNK B0 : list Z) offs keys tbl start n1 c :
  m = A0 ++ JUNK ++ concat (offset_entries offs keys) ++ B0 ->
  m' = A0 ++ JUNK ++ concat (offset_entries (map (fun o => o + c) offs) keys) ++ B0 ->
  tbl = zlen A0 -> 0 <= start -> zlen JUNK = start * (4 + Z.of_nat k) -> n1 = start + zlen offs ->
  length offs = length keys -> Forall (fun key => length key = k) keys ->
  Forall (fun o => 0 <= o < U32_LIMIT) offs -> Forall (fun o => 0 <= o + c < U32_LIMIT) offs ->
  adjust_offsets m tbl n1 (4 + Z.of_nat k) start c = Ok m'.
Proof.
  intros -> -> -> Hs HJ -> Hl Hk Ho Hc. rewrite adjust_offsets_eq.
  pose proof (zlen_nonneg offs) as Hn0.
  destruct (start + zlen offs =? 0) eqn:E0.
  { zb. rewrite (zlen_nil_inv offs) by lia. reflexivity. }
  destruct (c =? 0) eqn:Ec.
  { zb. subst c. rewrite (map_ext _ (fun o => o)) by (intros; lia). now rewrite map_id. }
  destruct (start + zlen offs <=? start) eqn:Es.
  { zb. rewrite (zlen_nil_inv offs) by lia. reflexivity. }
  zb.
  set (j := if c <? 0 then 0%nat else (length offs - 1)%nat).
  assert (Hchk : (if c <? 0 then start else start + zlen offs - 1) = start + Z.of_nat j).
  { unfold j, zlen in *. destruct (c <? 0); lia. }
  rewrite Hchk.
  assert (Hj : (j < length offs)%nat) by (unfold j, zlen in *; destruct (c <? 0); lia).
  destruct (nth_error offs j) as [oc|] eqn:En; [|apply nth_error_None in En; lia].
  assert (Hoc : 0 <= oc + c < U32_LIMIT).
  { rewrite Forall_forall in Hc. apply Hc. eapply nth_error_In; eauto. }
  assert (HP : zlen (A0 ++ JUNK) = zlen A0 + start * (4 + Z.of_nat k)) by (rewrite zlen_app, HJ; lia).
  replace (A0 ++ JUNK ++ concat (offset_entries offs keys) ++ B0)
    with ((A0 ++ JUNK) ++ concat (offset_entries offs keys) ++ B0) by (now rewrite <- app_assoc).
  rewrite (rd32_table k B0 offs keys (A0 ++ JUNK) j oc _ Hl Hk Ho En) by (rewrite HP; lia).
  cbn [obind].
  destruct ((oc + c <? 0) || (U32_LIMIT <=? oc + c)) eqn:Eb.
  { apply orb_true_iff in Eb as [Eb|Eb]; zb; lia. }
  replace (Z.to_nat (start + zlen offs - start)) with (length offs) by (unfold zlen; lia).
  rewrite (adj_go_spec k B0 (zlen A0) (start + zlen offs) c offs keys (A0 ++ JUNK) start Hl Hk Ho Hc HP eq_refl).
  now rewrite <- app_assoc.
Qed.

(* the offset entries of the new elements, written one by one over whatever was there *)
Lemma write_new_offsets_spec (k : nat) tbl idx ins isz : forall keys P JUNK B i,
  Forall (fun key => length key = k) keys ->
  zlen P = tbl + (idx + i) * (4 + Z.of_nat k) -> zlen JUNK = zlen keys * (4 + Z.of_nat k) ->
  0 <= isz -> 0 <= i -> 0 <= ins -> ins + (i + zlen keys) * isz < U32_LIMIT ->
  write_new_offsets (P ++ JUNK ++ B) tbl (4 + Z.of_nat k) idx ins isz keys i
  = Ok (P ++ concat (offset_entries (offsets_from (ins + i * isz) (repeat isz (length keys))) keys) ++ B).
Proof.
  induction keys as [|key r IH]; intros P JUNK B i Hk HP HJ Hisz Hi Hins Hb.
  - change (zlen (@nil (list Z))) with 0 in HJ. rewrite (zlen_nil_inv JUNK) by lia. reflexivity.
  - apply Forall_cons_iff in Hk as [Hk1 Hk2]. rewrite zlen_cons in *. pose proof (zlen_nonneg r) as Hr0.
    cbn [write_new_offsets]. destruct (U32_LIMIT <=? ins + i * isz) eqn:E; [zb; nia|].
    assert (He : 0 <= 4 + Z.of_nat k <= zlen JUNK) by nia.
    rewrite <- (ztake_zdrop (4 + Z.of_nat k) JUNK), <- app_assoc.
    rewrite (wr_mid' P (ztake (4 + Z.of_nat k) JUNK) _ (le_bytes 4 (ins + i * isz) ++ key)).
    2:{ lia. }
    2:{ rewrite zlen_app, zlen_le_bytes, zlen_ztake by lia. unfold zlen. rewrite Hk1. change (Z.of_nat 4) with 4. lia. }
    cbn [obind].
    pose proof (IH (P ++ le_bytes 4 (ins + i * isz) ++ key) (zdrop (4 + Z.of_nat k) JUNK) B (i + 1) Hk2) as HI.
    rewrite <- !app_assoc in HI. rewrite <- !app_assoc. rewrite HI; try lia.
    + cbn [length repeat offsets_from]. rewrite offset_entries_cons. cbn [concat]. rewrite <- !app_assoc.
      do 3 f_equal. replace (ins + (i + 1) * isz) with (ins + i * isz + isz) by lia. reflexivity.
    + pose proof (zlen_entry_prefix k P (ins + i * isz) key tbl (idx + i) Hk1 HP) as HZ.
      rewrite HZ. lia.
    + rewrite zlen_zdrop by lia. lia.
Qed.

(* ---------------------------------------------------------------------------------------------- *)
(* the byte surgery of insert_all_with_offsets after add_bytes opened the gap G at the insertion point:
   offset entries from idx on and the data before the insertion point move up by to_add entries, both copies of
   len and unsized_size are updated, the offsets after the new elements are adjusted, the new elements and
   their offset entries are written *)
Local Notation tab o ks := (concat (offset_entries o ks)).
Ltac zl := rewrite ?zlen_app, ?zlen_le_bytes; change (Z.of_nat 4) with 4; try lia.

Lemma insert_bytes (k : nat) (Pk R D1 D2 G ib : list Z) offsA keysA offsB keysB keys usz a1 n idx to_add isz off :
  a1 = zlen Pk -> idx = zlen offsA -> n = zlen offsA + zlen offsB -> to_add = zlen keys -> isz = zlen ib -> off = zlen D1 ->
  zlen G = (isz + (4 + Z.of_nat k)) * to_add ->
  length offsA = length keysA -> length offsB = length keysB ->
  Forall (fun key => length key = k) keysA -> Forall (fun key => length key = k) keysB ->
  Forall (fun key => length key = k) keys ->
  Forall (fun o => 0 <= o < U32_LIMIT) offsB -> Forall (fun o => 0 <= o + to_add * isz < U32_LIMIT) offsB ->
  0 <= usz < U32_LIMIT -> off + to_add * isz < U32_LIMIT ->
  exists m1 m2 m3 m4 m5 m6,
    mmove (Pk ++ le_bytes 4 usz ++ le_bytes 4 n ++ tab offsA keysA ++ tab offsB keysB ++ le_bytes 4 n ++ D1 ++ G ++ D2 ++ R)
          (a1 + 8 + idx * (4 + Z.of_nat k) + to_add * (4 + Z.of_nat k)) (a1 + 8 + idx * (4 + Z.of_nat k))
          (ulist_dbase k a1 n + off - (a1 + 8 + idx * (4 + Z.of_nat k))) = Ok m1 /\
    wr m1 (a1 + 4) (le_bytes 4 (n + to_add)) = Ok m2 /\
    wr m2 (a1 + 8 + (n + to_add) * (4 + Z.of_nat k)) (le_bytes 4 (n + to_add)) = Ok m3 /\
    rd32 m3 a1 = Ok usz /\
    wr m3 a1 (le_bytes 4 (usz + to_add * isz)) = Ok m4 /\
    adjust_offsets m4 (a1 + 8) (n + to_add) (4 + Z.of_nat k) (idx + to_add) (to_add * isz) = Ok m5 /\
    wr m5 (ulist_dbase k a1 (n + to_add) + off) (concat (repeat ib (length keys))) = Ok m6 /\
    write_new_offsets m6 (a1 + 8) (4 + Z.of_nat k) idx off isz keys 0
    = Ok (Pk ++ le_bytes 4 (usz + to_add * isz) ++ le_bytes 4 (n + to_add) ++ tab offsA keysA
          ++ tab (offsets_from off (repeat isz (length keys))) keys
          ++ tab (map (fun o => o + to_add * isz) offsB) keysB ++ le_bytes 4 (n + to_add) ++ D1
          ++ concat (repeat ib (length keys)) ++ D2 ++ R).
Proof.
  intros -> -> -> -> -> -> HG HlA HlB HkA HkB Hk HoB HcB Husz Hoff.
  set (esz := 4 + Z.of_nat k) in *.
  set (TA := tab offsA keysA). set (TB := tab offsB keysB).
  set (TB' := tab (map (fun o => o + zlen keys * zlen ib) offsB) keysB).
  set (TN := tab (offsets_from (zlen D1) (repeat (zlen ib) (length keys))) keys).
  set (n := zlen offsA + zlen offsB). set (n1 := n + zlen keys).
  pose proof (zlen_nonneg offsA) as HnA. pose proof (zlen_nonneg offsB) as HnB. pose proof (zlen_nonneg keys) as Hnk.
  pose proof (zlen_nonneg ib) as Hnib. pose proof (zlen_nonneg D1) as HnD1. pose proof (zlen_nonneg Pk) as HnPk.
  assert (Hesz : 4 <= esz) by (subst esz; lia).
  assert (HzTA : zlen TA = zlen offsA * esz).
  { subst TA esz. rewrite (zlen_offset_entries _ _ k HlA HkA). unfold zlen. rewrite HlA. reflexivity. }
  assert (HzTB : zlen TB = zlen offsB * esz).
  { subst TB esz. rewrite (zlen_offset_entries _ _ k HlB HkB). unfold zlen. rewrite HlB. reflexivity. }
  assert (HzTB' : zlen TB' = zlen offsB * esz).
  { subst TB' esz. rewrite (zlen_offset_entries _ _ k); [unfold zlen; rewrite HlB; reflexivity|now rewrite map_length|exact HkB]. }
  set (G1 := ztake (zlen keys * esz) G). set (G2 := zdrop (zlen keys * esz) G).
  assert (HGs : G = G1 ++ G2) by (symmetry; apply ztake_zdrop).
  assert (HzG1 : zlen G1 = zlen keys * esz) by (subst G1; apply zlen_ztake; nia).
  assert (HzG2 : zlen G2 = zlen keys * zlen ib) by (subst G2; rewrite zlen_zdrop by nia; nia).
  set (T := TB ++ le_bytes 4 n ++ D1).
  set (G1' := ztake (zlen G1) (T ++ G1)).
  assert (HzG1' : zlen G1' = zlen keys * esz).
  { subst G1'. rewrite zlen_ztake; [exact HzG1|]. rewrite zlen_app. pose proof (zlen_nonneg T). lia. }
  exists (Pk ++ le_bytes 4 usz ++ le_bytes 4 n ++ TA ++ G1' ++ TB ++ le_bytes 4 n ++ D1 ++ G2 ++ D2 ++ R).
  exists (Pk ++ le_bytes 4 usz ++ le_bytes 4 n1 ++ TA ++ G1' ++ TB ++ le_bytes 4 n ++ D1 ++ G2 ++ D2 ++ R).
  exists (Pk ++ le_bytes 4 usz ++ le_bytes 4 n1 ++ TA ++ G1' ++ TB ++ le_bytes 4 n1 ++ D1 ++ G2 ++ D2 ++ R).
  exists (Pk ++ le_bytes 4 (usz + zlen keys * zlen ib) ++ le_bytes 4 n1 ++ TA ++ G1' ++ TB ++ le_bytes 4 n1 ++ D1 ++ G2 ++ D2 ++ R).
  exists (Pk ++ le_bytes 4 (usz + zlen keys * zlen ib) ++ le_bytes 4 n1 ++ TA ++ G1' ++ TB' ++ le_bytes 4 n1 ++ D1 ++ G2 ++ D2 ++ R).
  exists (Pk ++ le_bytes 4 (usz + zlen keys * zlen ib) ++ le_bytes 4 n1 ++ TA ++ G1' ++ TB' ++ le_bytes 4 n1 ++ D1
          ++ concat (repeat ib (length keys)) ++ D2 ++ R).
  repeat split.
  - apply (mmove_up_at _ _ (Pk ++ le_bytes 4 usz ++ le_bytes 4 n ++ TA) T G1 (G2 ++ D2 ++ R)).
    + rewrite HGs. subst T. now rewrite <- !app_assoc.
    + fold G1'. subst T. now rewrite <- !app_assoc.
    + zl.
    + zl.
    + subst T. unfold ulist_dbase. fold esz. zl.
  - apply (wr_at _ _ (Pk ++ le_bytes 4 usz) (le_bytes 4 n) (TA ++ G1' ++ TB ++ le_bytes 4 n ++ D1 ++ G2 ++ D2 ++ R));
      [now rewrite <- !app_assoc|now rewrite <- !app_assoc|zl|now rewrite !zlen_le_bytes].
  - apply (wr_at _ _ (Pk ++ le_bytes 4 usz ++ le_bytes 4 n1 ++ TA ++ G1' ++ TB) (le_bytes 4 n) (D1 ++ G2 ++ D2 ++ R));
      [now rewrite <- !app_assoc|now rewrite <- !app_assoc|zl; subst n1 n; lia|now rewrite !zlen_le_bytes].
  - eapply rd32_at; [reflexivity|reflexivity|exact Husz].
  - eapply (wr_at _ _ Pk (le_bytes 4 usz)); [reflexivity|reflexivity|reflexivity|now rewrite !zlen_le_bytes].
  - apply (adjust_offsets_suffix k _ _ (Pk ++ le_bytes 4 (usz + zlen keys * zlen ib) ++ le_bytes 4 n1) (TA ++ G1')
             (le_bytes 4 n1 ++ D1 ++ G2 ++ D2 ++ R) offsB keysB); auto.
    + now rewrite <- !app_assoc.
    + now rewrite <- !app_assoc.
    + zl.
    + lia.
    + zl.
    + subst n1 n. lia.
  - apply (wr_at _ _ (Pk ++ le_bytes 4 (usz + zlen keys * zlen ib) ++ le_bytes 4 n1 ++ TA ++ G1' ++ TB' ++ le_bytes 4 n1 ++ D1)
             G2 (D2 ++ R)); [now rewrite <- !app_assoc|now rewrite <- !app_assoc| |].
    + unfold ulist_dbase. fold esz. zl.
    + rewrite zlen_concat_repeat, HzG2. unfold zlen. lia.
  - replace (Pk ++ le_bytes 4 (usz + zlen keys * zlen ib) ++ le_bytes 4 n1 ++ TA ++ G1' ++ TB' ++ le_bytes 4 n1 ++ D1
             ++ concat (repeat ib (length keys)) ++ D2 ++ R)
      with ((Pk ++ le_bytes 4 (usz + zlen keys * zlen ib) ++ le_bytes 4 n1 ++ TA) ++ G1'
            ++ (TB' ++ le_bytes 4 n1 ++ D1 ++ concat (repeat ib (length keys)) ++ D2 ++ R)) by (now rewrite <- !app_assoc).
    subst esz. rewrite (write_new_offsets_spec k (zlen Pk + 8) (zlen offsA) (zlen D1) (zlen ib) keys); auto; try lia.
    + replace (zlen D1 + 0 * zlen ib) with (zlen D1) by lia. fold TN. now rewrite <- !app_assoc.
    + zl.
Qed.

(* ---------------------------------------------------------------------------------------------- *)
(* pointer trees: the node written by set_at is the node read back; a resize notification never changes the
   possible_mut_borrow flag of any list node                                                            *)
Lemma get_at_set_at ps : forall t p X old new, get_at t p ps = Some (X, old) -> get_at t (set_at t p ps new) ps = Some (X, new).
Proof.
  induction ps as [|[i| |] r IH]; intros t p X old new H.
  - cbn [get_at set_at] in *. now injection H as -> _.
  - cbn [get_at set_at] in *. destruct t as [| | | |ts|]; try discriminate. destruct p as [| | | |qs|]; try discriminate.
    destruct (nth_error ts i) as [ti|] eqn:Et; try discriminate. destruct (nth_error qs i) as [qi|] eqn:Eq; try discriminate.
    cbn [get_at]. rewrite ?Et, (nth_error_set_nth _ _ _ _ Eq). eapply IH; eauto.
  - cbn [get_at set_at] in *. destruct t as [| | |it k| |]; try discriminate.
    destruct p as [| | |a n [q|] pmb rs re| |]; try discriminate. cbn [get_at]. eapply IH; eauto.
  - cbn [get_at set_at] in *. destruct t as [| | | | |rw vs]; try discriminate. destruct p as [| | | | |st d q]; try discriminate.
    destruct (find_variant d vs) as [vt|] eqn:Ev; try discriminate. cbn [get_at]. rewrite Ev. eapply IH; eauto.
Qed.

Lemma notify_fields_nth ts : forall qs src c m qs' m' i ti qi,
  notify_fields ts qs src c m = Ok (qs', m') -> nth_error ts i = Some ti -> nth_error qs i = Some qi ->
  exists qi' mi mi', notify ti qi src c mi = Ok (qi', mi') /\ nth_error qs' i = Some qi'.
Proof.
  induction ts as [|t ts IH]; intros qs src c m qs' m' i ti qi H Ht Hq; [destruct i; discriminate|].
  destruct qs as [|q qs]; [destruct i; discriminate|].
  cbn [notify_fields] in H.
  destruct (notify t q src c m) as [[q' m1]| | |] eqn:E1; cbn [obind] in H; try discriminate.
  destruct (notify_fields ts qs src c m1) as [[r' m2]| | |] eqn:E2; cbn [obind] in H; try discriminate.
  injection H as <- <-.
  destruct i as [|i]; cbn [nth_error] in *.
  - injection Ht as <-. injection Hq as <-. exists q', m, m1. split; [exact E1|reflexivity].
  - exact (IH _ _ _ _ _ _ _ _ _ E2 Ht Hq).
Qed.

Lemma notify_keeps_pmb pi : forall t p src c m p' m' it k a n inner pmb rs re,
  notify t p src c m = Ok (p', m') -> get_at t p (mpath pi) = Some (TUList it k, PUList a n inner pmb rs re) ->
  exists a' n' inner' rs' re', get_at t p' (mpath pi) = Some (TUList it k, PUList a' n' inner' pmb rs' re').
Proof.
  induction pi as [|[i|i|] r IH]; intros t p src c m p' m' it k a n inner pmb rs re H Hg.
  - cbn [mpath map get_at] in *. injection Hg as -> ->. cbn [notify] in H.
    destruct (src <? a).
    { destruct inner as [q|]; [|injection H as <- _; eauto 10].
      destruct (notify it q src c m) as [[q' m1]| | |]; cbn [obind] in H; try discriminate. injection H as <- _. eauto 10. }
    destruct (src =? a); [injection H as <- _; eauto 10|].
    destruct (rd32 m a) as [usz| | |]; cbn [obind] in H; try discriminate.
    destruct (src <? _); [|injection H as <- _; eauto 10].
    destruct inner as [q|]; [|discriminate].
    destruct (notify it q src c m) as [[q' m1]| | |]; cbn [obind] in H; try discriminate.
    destruct (wr m1 a _) as [m2| | |]; cbn [obind] in H; try discriminate.
    destruct (read_offsets m2 _ _ _ _) as [offs| | |]; cbn [obind] in H; try discriminate.
    destruct (adjust_offsets m2 _ _ _ _ _) as [m3| | |]; cbn [obind] in H; try discriminate.
    injection H as <- _. eauto 10.
  - cbn [mpath map mstep_of get_at] in Hg. destruct t as [| | | |ts|]; try discriminate. destruct p as [| | | |qs|]; try discriminate.
    destruct (nth_error ts i) as [ti|] eqn:Et; try discriminate. destruct (nth_error qs i) as [qi|] eqn:Eq; try discriminate.
    rewrite notify_struct in H.
    destruct (notify_fields ts qs src c m) as [[qs' mm]| | |] eqn:E; cbn [obind] in H; try discriminate. injection H as <- _.
    destruct (notify_fields_nth _ _ _ _ _ _ _ _ _ _ E Et Eq) as (qi' & mi & mi' & Hn & Hq').
    destruct (IH _ _ _ _ _ _ _ _ _ _ _ _ _ _ _ Hn Hg) as (a' & n' & inner' & rs' & re' & Hg').
    exists a', n', inner', rs', re'. cbn [mpath map mstep_of get_at]. rewrite Et, Hq'. exact Hg'.
  - cbn [mpath map mstep_of get_at] in Hg. destruct t as [| | |jt kk| |]; try discriminate.
    destruct p as [| | |b nn [q|] pm rs0 re0| |]; try discriminate.
    cbn [notify] in H.
    destruct (src <? b).
    { destruct (notify jt q src c m) as [[q' m1]| | |] eqn:En; cbn [obind] in H; try discriminate. injection H as <- _.
      destruct (IH _ _ _ _ _ _ _ _ _ _ _ _ _ _ _ En Hg) as (a' & n' & inner' & rs' & re' & Hg').
      exists a', n', inner', rs', re'. exact Hg'. }
    destruct (src =? b); [injection H as <- _; exists a, n, inner, rs, re; exact Hg|].
    destruct (rd32 m b) as [usz| | |]; cbn [obind] in H; try discriminate.
    destruct (src <? _); [|injection H as <- _; exists a, n, inner, rs, re; exact Hg].
    destruct (notify jt q src c m) as [[q' m1]| | |] eqn:En; cbn [obind] in H; try discriminate.
    destruct (wr m1 b _) as [m2| | |]; cbn [obind] in H; try discriminate.
    destruct (read_offsets m2 _ _ _ _) as [offs| | |]; cbn [obind] in H; try discriminate.
    destruct (adjust_offsets m2 _ _ _ _ _) as [m3| | |]; cbn [obind] in H; try discriminate.
    injection H as <- _.
    destruct (IH _ _ _ _ _ _ _ _ _ _ _ _ _ _ _ En Hg) as (a' & n' & inner' & rs' & re' & Hg').
    exists a', n', inner', rs', re'. exact Hg'.
  - cbn [mpath map mstep_of get_at] in Hg. destruct t as [| | | | |rw vars]; try discriminate.
    destruct p as [| | | | |st d q]; try discriminate.
    destruct (find_variant d vars) as [vt|] eqn:Ef; try discriminate.
    rewrite notify_enum, Ef in H.
    destruct (notify vt q src c m) as [[q' m1]| | |] eqn:En; cbn [obind] in H; try discriminate. injection H as <- _.
    destruct (IH _ _ _ _ _ _ _ _ _ _ _ _ _ _ _ En Hg) as (a' & n' & inner' & rs' & re' & Hg').
    exists a', n', inner', rs', re'. cbn [mpath map mstep_of get_at]. rewrite Ef. exact Hg'.
Qed.

Lemma add_bytes_keeps_pmb pi t s top src start amount s1 top1 it k a n inner pmb rs re :
  add_bytes t s top src start amount = Ok (s1, top1) ->
  get_at t top (mpath pi) = Some (TUList it k, PUList a n inner pmb rs re) ->
  exists a' n' inner' rs' re', get_at t top1 (mpath pi) = Some (TUList it k, PUList a' n' inner' pmb rs' re').
Proof.
  unfold add_bytes. intros H Hg.
  destruct (negb (top_check s top)); try discriminate.
  destruct ((start <? 0) || (m_len s <? start)); try discriminate.
  destruct (amount =? 0); [injection H as _ <-; eauto 10|].
  destruct (realloc s (m_len s + amount)) as [s0| | |]; cbn [obind] in H; try discriminate.
  destruct (if start =? m_len s then _ else _) as [m1| | |]; cbn [obind] in H; try discriminate.
  destruct (notify t top src amount m1) as [[top' m2]| | |] eqn:En; cbn [obind] in H; try discriminate.
  injection H as _ <-. eapply notify_keeps_pmb; eauto.
Qed.

(* ---------------------------------------------------------------------------------------------- *)
(* the encoding pieces of a list with default elements spliced in                                  *)
Lemma usizes_app it a b : usizes it (a ++ b) = usizes it a ++ usizes it b.
Proof. unfold usizes, uenc. now rewrite !map_app. Qed.
Lemma usizes_firstn it l i : usizes it (firstn i l) = firstn i (usizes it l).
Proof. unfold usizes, uenc. now rewrite !firstn_map. Qed.
Lemma usizes_skipn it l i : usizes it (skipn i l) = skipn i (usizes it l).
Proof. unfold usizes, uenc. now rewrite !skipn_map. Qed.
Lemma usizes_new it dv (keys : list (list Z)) :
  usizes it (map (fun key => (key, dv)) keys) = repeat (zlen (encode it dv)) (length keys).
Proof. unfold usizes, uenc. rewrite !map_map. cbn [snd]. apply map_const_repeat. Qed.
Lemma uenc_app it a b : uenc it (a ++ b) = uenc it a ++ uenc it b.
Proof. unfold uenc. now rewrite !map_app. Qed.
Lemma uenc_firstn it l i : uenc it (firstn i l) = firstn i (uenc it l).
Proof. unfold uenc. now rewrite !firstn_map. Qed.
Lemma uenc_skipn it l i : uenc it (skipn i l) = skipn i (uenc it l).
Proof. unfold uenc. now rewrite !skipn_map. Qed.
Lemma uenc_new it dv (keys : list (list Z)) : uenc it (map (fun key => (key, dv)) keys) = repeat (encode it dv) (length keys).
Proof. unfold uenc. rewrite !map_map. cbn [snd]. apply map_const_repeat. Qed.
Lemma keys_new (dv : val) (keys : list (list Z)) : map fst (map (fun key => (key, dv)) keys) = keys.
Proof. rewrite map_map. cbn [fst]. apply map_id. Qed.

Section uinsert.
  Variables (pi : list step) (t : ty) (v : val) (it : ty) (k : nat) (items : list (list Z * val)).
  Variables (idx kind : Z) (keys : list (list Z)) (dv : val).
  Hypothesis Hres : resolve t v pi = Some (TUList it k, VUList items).
  (* the initializer writes the encoding of a well-formed value dv of exactly the announced size *)
  Hypothesis Hinit : init_bytes it kind = Ok (encode it dv).
  Hypothesis Hisz : init_size it kind = zlen (encode it dv).
  Hypothesis Hdv : wf it dv = true.
  Hypothesis Hidx : 0 <= idx <= zlen items.
  Hypothesis Hkeys : Forall (fun key => length key = k) keys.
  Hypothesis Hne : keys <> [].
  Let new := map (fun key => (key, dv)) keys.
  Let items' := firstn (Z.to_nat idx) items ++ new ++ skipn (Z.to_nat idx) items.
  (* the new list is well-formed: count and total size below 2^32, keys of a map still ascending *)
  Hypothesis Hwf' : wf (TUList it k) (VUList items') = true.
  Let v' := plug t v pi (VUList items').
  Let amount := (zlen (encode it dv) + (4 + Z.of_nat k)) * zlen keys.

  Theorem ulist_insert_general s top :
    RepF pi t v s top -> m_refuse s <> 1 -> m_len s + amount <= m_cap s ->
    exists s' top', ulist_insert t s top (mpath pi) idx kind keys = Ok (s', top', []) /\ RepF pi t v' s' top' /\
                    m_cap s' = m_cap s /\ m_refuse s' = m_refuse s.
  Proof.
    intros R Hnref Hroom.
    pose proof R as [Hpl Hok Hwf [junk Hmem] Hlen HL Hc32].
    pose proof (resolve_wf _ _ _ _ _ Hwf Hres) as HwU.
    pose proof (resolve_plain _ _ _ _ _ Hpl Hres) as HpU. cbn [plain] in HpU.
    destruct (resolve_ty_ok _ _ _ _ _ _ Hok Hres) as (l' & HokU & _). cbn [ty_ok] in HokU.
    pose proof (ulist_facts _ _ _ HwU) as F. pose proof (ulist_facts _ _ _ Hwf') as F'.
    set (i := Z.to_nat idx) in *.
    set (ib := encode it dv) in *.
    set (sizes := usizes it items) in *. set (keys0 := map fst items) in *. set (encs := uenc it items) in *.
    set (a := addr_of t v pi 0).
    set (off := zsum (firstn i sizes)).
    pose proof (zlen_nonneg items) as Hn0. pose proof (zlen_nonneg keys) as Hk0. pose proof (zlen_nonneg ib) as Hib0.
    assert (Hto : 0 < zlen keys).
    { destruct keys as [|x0 l0]; [congruence|]. rewrite zlen_cons. pose proof (zlen_nonneg l0). lia. }
    assert (Hi : (i <= length items)%nat) by (subst i; unfold zlen in *; lia).
    assert (Hidxi : idx = Z.of_nat i) by (subst i; lia).
    assert (Hls : length sizes = length items) by apply usizes_length.
    assert (Hlk0 : length keys0 = length items) by (subst keys0; apply map_length).
    (* the new list *)
    assert (Hsizes' : usizes it items' = firstn i sizes ++ repeat (zlen ib) (length keys) ++ skipn i sizes).
    { subst items' new. now rewrite !usizes_app, usizes_firstn, usizes_skipn, usizes_new. }
    assert (Hencs' : uenc it items' = firstn i encs ++ repeat ib (length keys) ++ skipn i encs).
    { subst items' new. now rewrite !uenc_app, uenc_firstn, uenc_skipn, uenc_new. }
    assert (Hkeys' : map fst items' = firstn i keys0 ++ keys ++ skipn i keys0).
    { subst items' new keys0. now rewrite !map_app, keys_new, firstn_map, skipn_map. }
    assert (Hn' : zlen items' = zlen items + zlen keys).
    { subst items' new. rewrite !zlen_app. unfold zlen. rewrite firstn_length, skipn_length, map_length. lia. }
    assert (Husz' : zsum (usizes it items') = zsum sizes + zlen keys * zlen ib).
    { rewrite Hsizes', !zsum_app, zsum_repeat, (zsum_firstn_skipn sizes i). unfold zlen at 2. lia. }
    pose proof (uf_usz _ _ _ F) as Hu. fold sizes in Hu. pose proof (uf_usz _ _ _ F') as Hu'. rewrite Husz' in Hu'.
    pose proof (uf_n _ _ _ F') as Hnn'. rewrite Hn' in Hnn'.
    pose proof (zsum_firstn_le sizes i (usizes_nonneg it items)) as Hoffb. fold off in Hoffb.
    assert (Hsz' : zlen (encode (TUList it k) (VUList items')) = zlen (encode (TUList it k) (VUList items)) + amount).
    { rewrite (zlen_encode_ulist _ _ _ F), (zlen_encode_ulist _ _ _ F'), Hn', Husz'. fold sizes. subst amount. fold ib. lia. }
    assert (Hamt : 0 < amount) by (subst amount; fold ib; nia).
    (* 1. the list's own node *)
    destruct (LayP_get_at Lay pi t v 0 top _ _ Hwf Hres HL) as (node & Hg & HLn).
    destruct node as [| | |a0 n0 inner pmb rs re| |]; try (cbn [Lay] in HLn; contradiction).
    cbn [Lay] in HLn. fold a in HLn. destruct HLn as (-> & -> & -> & Hre & Hin).
    assert (Hio : inner_ok (PUList a (zlen items) inner pmb a re) = true).
    { unfold inner_ok. destruct inner as [q0|]; [|reflexivity]. destruct pmb; [|reflexivity].
      destruct Hin as (j & kvj & Hj & Hq0).
      destruct (elem_inside it k items a j kvj F Hj) as [He1 He2].
      destruct (check_ptrs_Lay it false (snd kvj) _ q0 a re a HpU HokU (wf_nth _ _ _ _ (uf_wfs _ _ _ F) Hj) Hq0) as (c' & Hc & _); try nia.
      now rewrite Hc. }
    assert (Hafter : match inner with Some q => after a it q = true | None => True end).
    { destruct inner as [q0|]; [|exact I]. destruct pmb; [|exact Hin].
      destruct Hin as (j & kvj & Hj & Hq0).
      destruct (elem_inside it k items a j kvj F Hj) as [He1 He2].
      apply (Lay_after it (snd kvj) _ q0 a HpU (wf_nth _ _ _ _ (uf_wfs _ _ _ F) Hj) Hq0). nia. }
    (* 2. possible_mut_borrow is cleared *)
    set (top0 := set_at t top (mpath pi) (PUList a (zlen items) inner false a re)).
    assert (HL0 : LayP Lay pi t v 0 top0).
    { apply (LayP_set_at Lay Lay pi t v 0 top _ _ _ Hwf Hres HL). fold a. cbn [Lay]. repeat split; auto. }
    assert (R0 : RepF pi t v s top0) by (constructor; eauto).
    pose proof (get_at_set_at _ _ _ _ _ (PUList a (zlen items) inner false a re) Hg) as Hg0. fold top0 in Hg0.
    (* 3. the offset of the insertion point *)
    pose proof (hctx_encode _ _ _ _ _ Hres) as Henc.
    set (P0 := fst (hctx t v pi 0)) in *. set (Q := snd (hctx t v pi 0)) in *.
    assert (HP0 : zlen P0 = a) by (subst a P0; unfold addr_of; lia).
    assert (Hlo : length (offsets_from 0 sizes) = length keys0) by (rewrite offsets_from_length; lia).
    pose proof (uf_keys _ _ _ F) as HkF. fold keys0 in HkF. pose proof (uf_offs _ _ _ F) as HoF. fold sizes in HoF.
    assert (Hoff : ulist_offset k (m_mem s) a (zlen items) idx = Ok off).
    { unfold ulist_offset. rewrite Hmem, Henc, encode_ulist. unfold utable. fold sizes keys0 encs.
      destruct ((0 <=? idx) && (idx <? zlen items)) eqn:E.
      - zb.
        replace ((P0 ++ (le_bytes 4 (zsum sizes) ++ le_bytes 4 (zlen items) ++ concat (offset_entries (offsets_from 0 sizes) keys0) ++
                        le_bytes 4 (zlen items) ++ concat encs) ++ Q) ++ junk)
          with ((P0 ++ le_bytes 4 (zsum sizes) ++ le_bytes 4 (zlen items)) ++ concat (offset_entries (offsets_from 0 sizes) keys0) ++
                (le_bytes 4 (zlen items) ++ concat encs ++ Q ++ junk)) by (rewrite <- !app_assoc; reflexivity).
        assert (Hil : (i < length sizes)%nat) by (unfold zlen in *; lia).
        apply (rd32_table k _ _ _ _ i _ _ Hlo HkF HoF (nth_error_offsets_from0 _ i Hil)).
        zl.
      - assert (idx = zlen items) by (apply andb_false_iff in E as [E|E]; zb; lia).
        subst off. rewrite firstn_all2 by (unfold zlen in *; lia).
        rewrite <- !app_assoc. apply rd32_mid; [lia|exact Hu]. }
    (* 4. add_bytes *)
    set (A := uhdr sizes keys0 ++ concat (firstn i encs)). set (B := concat (skipn i encs)).
    assert (HencX : encode (TUList it k) (VUList items) = A ++ B).
    { rewrite encode_ulist_uhdr. fold sizes keys0 encs. rewrite (concat_split encs i). subst A B. now rewrite app_assoc. }
    assert (HzA : zlen A = 12 + zlen items * (4 + Z.of_nat k) + off).
    { subst A. rewrite zlen_app. subst sizes keys0 encs. rewrite (zlen_uhdr_usizes _ _ _ F), zsum_firstn_usizes. reflexivity. }
    destruct (add_bytes_inside pi t v (TUList it k) (VUList items) (VUList items') Hres eq_refl s top0
                A B amount R0 HencX Hamt Hsz' Hnref Hroom)
      as (s1 & top1 & G & J & Hadd & Hmem1 & HG & Hlen1 & Hcap1 & Href1 & HL1).
    fold a in Hadd.
    unfold ulist_insert, sub. rewrite Hg. cbn [obind]. rewrite Hio. cbn [negb set_pmb]. fold top0.
    destruct (zlen items <? idx) eqn:E1; [zb; lia|].
    rewrite Hoff. cbn [obind]. rewrite Hisz. fold ib.
    replace (a + zlen A) with (ulist_dbase k a (zlen items) + off) in Hadd by (unfold ulist_dbase; lia).
    unfold amount in Hadd. fold ib in Hadd. rewrite Hadd. cbn [catch].
    (* 5. the list's own node after the broadcast: its range grew, possible_mut_borrow is still clear *)
    pose proof (resolve_plug t v pi _ _ (VUList items') Hres) as Hres'. fold v' in Hres', HL1.
    assert (Hwf2 : wf t v' = true).
    { apply (wf_plug t v pi _ _ (VUList items') Hwf Hres Hwf').
      rewrite (hctx_plug_len t v pi _ _ (VUList items') Hres), Hsz'. unfold m_cap in *. lia. }
    assert (Hax' : addr_of t v' pi 0 = a) by (subst v' a; eapply addr_of_plug; eauto).
    destruct (LayP_get_at _ pi t v' 0 top1 _ _ Hwf2 Hres' HL1) as (node1 & Hg1 & (node0 & HE0 & ->)).
    rewrite Hax' in HE0.
    destruct node0 as [| | |a0 n0 inner1 pmb1 rs1 re1| |]; try (cbn [Lay] in HE0; contradiction).
    cbn [Lay] in HE0. destruct HE0 as (-> & -> & -> & -> & Hin1).
    cbn [own_notify] in Hg1.
    destruct (add_bytes_keeps_pmb pi _ _ _ _ _ _ _ _ _ _ _ _ _ _ _ _ Hadd Hg0) as (a2 & n2 & inner2 & rs2 & re2 & Hg2).
    rewrite Hg1 in Hg2. injection Hg2 as _ _ _ Hpmb _ _. subst pmb1.
    rewrite Hg1. cbn [obind].
    (* 6. the byte surgery *)
    set (Pk := fst (hctx t v pi amount)) in *.
    assert (HPk : zlen Pk = a) by (subst Pk a; unfold addr_of; rewrite hctx_fst_len; lia).
    set (offsA := offsets_from 0 (firstn i sizes)). set (offsB := offsets_from off (skipn i sizes)).
    set (keysA := firstn i keys0). set (keysB := skipn i keys0).
    set (D1 := concat (firstn i encs)) in *. set (D2 := concat (skipn i encs)) in *.
    assert (Hoffs : offsets_from 0 sizes = offsA ++ offsB).
    { rewrite <- (firstn_skipn i sizes) at 1. rewrite offsets_from_app. subst offsA offsB off. now rewrite Z.add_0_l. }
    assert (HlA : length offsA = length keysA).
    { subst offsA keysA. rewrite offsets_from_length, !firstn_length. lia. }
    assert (HlB : length offsB = length keysB).
    { subst offsB keysB. rewrite offsets_from_length, !skipn_length. lia. }
    assert (Htab : concat (offset_entries (offsets_from 0 sizes) keys0)
                   = concat (offset_entries offsA keysA) ++ concat (offset_entries offsB keysB)).
    { rewrite Hoffs. rewrite <- (firstn_skipn i keys0) at 1. apply table_app. exact HlA. }
    assert (Hzk0 : zlen keys0 = zlen items) by (unfold zlen; now rewrite Hlk0).
    assert (Hmem1' : m_mem s1 = Pk ++ le_bytes 4 (zsum sizes) ++ le_bytes 4 (zlen items) ++ concat (offset_entries offsA keysA)
                               ++ concat (offset_entries offsB keysB) ++ le_bytes 4 (zlen items) ++ D1 ++ G ++ D2 ++ Q ++ J).
    { rewrite Hmem1. subst A B. unfold uhdr. rewrite Htab, Hzk0, <- !app_assoc. reflexivity. }
    assert (HzoA : zlen offsA = idx).
    { subst offsA. unfold zlen. rewrite offsets_from_length, firstn_length. lia. }
    assert (HzoB : zlen offsB = zlen items - idx).
    { subst offsB. unfold zlen. rewrite offsets_from_length, skipn_length. unfold zlen in *. lia. }
    assert (HzD1 : zlen D1 = off) by (subst D1 encs off sizes; apply zsum_firstn_usizes).
    assert (HbB : Forall (fun o => off <= o <= zsum sizes) offsB).
    { subst offsB. eapply Forall_impl; [|exact (offsets_bounds (skipn i sizes) off (Forall_skipn' _ _ _ (usizes_nonneg it items)))].
      cbn beta. intros o Ho. rewrite (zsum_firstn_skipn sizes i). fold off. lia. }
    assert (HG' : zlen G = (zlen ib + (4 + Z.of_nat k)) * zlen keys) by (subst amount; fold ib in HG; exact HG).
    assert (HkA : Forall (fun key => length key = k) keysA) by (subst keysA; apply Forall_firstn'; exact HkF).
    assert (HkB : Forall (fun key => length key = k) keysB) by (subst keysB; apply Forall_skipn'; exact HkF).
    assert (HoB : Forall (fun o => 0 <= o < U32_LIMIT) offsB).
    { eapply Forall_impl; [|exact HbB]. cbn beta. intros o Ho. lia. }
    assert (HcB : Forall (fun o => 0 <= o + zlen keys * zlen ib < U32_LIMIT) offsB).
    { eapply Forall_impl; [|exact HbB]. cbn beta. intros o Ho. nia. }
    destruct (insert_bytes k Pk (Q ++ J) D1 D2 G ib offsA keysA offsB keysB keys (zsum sizes) a (zlen items) idx (zlen keys) (zlen ib) off
                (eq_sym HPk) (eq_sym HzoA) ltac:(lia) eq_refl eq_refl (eq_sym HzD1) HG' HlA HlB HkA HkB Hkeys HoB HcB Hu ltac:(lia))
      as (m1 & m2 & m3 & m4 & m5 & m6 & H1 & H2 & H3 & H4 & H5 & H6 & H7 & H8).
    rewrite <- Hmem1' in H1. rewrite H1. cbn [obind].
    destruct (U32_LIMIT <=? zlen items + zlen keys) eqn:E2; [zb; lia|].
    rewrite H2. cbn [obind]. rewrite H3. cbn [obind]. rewrite H4. cbn [obind].
    destruct (U32_LIMIT <=? zlen keys * zlen ib) eqn:E3; [zb; nia|].
    destruct (U32_LIMIT <=? zsum sizes + zlen keys * zlen ib) eqn:E4; [zb; lia|].
    rewrite H5. cbn [obind]. rewrite H6. cbn [obind]. rewrite Hinit. fold ib.
    replace (Z.to_nat (zlen keys)) with (length keys) by (unfold zlen; lia).
    rewrite H7. cbn [obind]. rewrite H8. cbn [obind].
    (* 7. the new state *)
    assert (Hzk' : zlen (map fst items') = zlen items + zlen keys) by (rewrite <- Hn'; unfold zlen; now rewrite map_length).
    assert (Hoffs' : offsets_from 0 (usizes it items')
                     = offsA ++ offsets_from off (repeat (zlen ib) (length keys)) ++ map (fun o => o + zlen keys * zlen ib) offsB).
    { rewrite Hsizes', !offsets_from_app, zsum_repeat. fold offsA. rewrite Z.add_0_l. fold off. f_equal. f_equal.
      subst offsB. rewrite <- offsets_from_shift. reflexivity. }
    assert (HencX' : encode (TUList it k) (VUList items') =
                     le_bytes 4 (zsum sizes + zlen keys * zlen ib) ++ le_bytes 4 (zlen items + zlen keys) ++
                     concat (offset_entries offsA keysA) ++
                     concat (offset_entries (offsets_from off (repeat (zlen ib) (length keys))) keys) ++
                     concat (offset_entries (map (fun o => o + zlen keys * zlen ib) offsB) keysB) ++
                     le_bytes 4 (zlen items + zlen keys) ++ D1 ++ concat (repeat ib (length keys)) ++ D2).
    { rewrite encode_ulist_uhdr. unfold uhdr. rewrite Husz', Hzk', Hoffs', Hkeys', Hencs'. fold keysA keysB.
      rewrite (table_app _ _ _ _ HlA), table_app by (now rewrite offsets_from_length, repeat_length).
      rewrite !concat_app. fold D1 D2. rewrite <- !app_assoc. reflexivity. }
    assert (Henc' : encode t v' = Pk ++ encode (TUList it k) (VUList items') ++ Q).
    { subst v' Pk Q. rewrite (hctx_plug t v pi _ _ (VUList items') Hres).
      replace (zlen (encode (TUList it k) (VUList items')) - zlen (encode (TUList it k) (VUList items))) with amount by lia.
      reflexivity. }
    assert (Hfin : Pk ++ le_bytes 4 (zsum sizes + zlen keys * zlen ib) ++ le_bytes 4 (zlen items + zlen keys) ++
                   concat (offset_entries offsA keysA) ++
                   concat (offset_entries (offsets_from off (repeat (zlen ib) (length keys))) keys) ++
                   concat (offset_entries (map (fun o => o + zlen keys * zlen ib) offsB) keysB) ++
                   le_bytes 4 (zlen items + zlen keys) ++ D1 ++ concat (repeat ib (length keys)) ++ D2 ++ Q ++ J
                   = encode t v' ++ J).
    { rewrite Henc', HencX', <- !app_assoc. reflexivity. }
    rewrite Hfin.
    assert (Hcapf : zlen (encode t v' ++ J) = m_cap s).
    { rewrite <- Hcap1. unfold m_cap. rewrite Hmem1, Henc', !zlen_app, Hsz', HencX, !zlen_app, HG. fold Q. lia. }
    eexists _, _. split; [reflexivity|].
    split; [|split; [unfold m_cap; cbn [set_mem m_mem]; exact Hcapf|cbn [set_mem m_refuse]; exact Href1]].
    constructor; cbn [set_mem m_mem m_len]; auto.
    - exists J. reflexivity.
    - rewrite Hlen1, Hlen. subst v'. rewrite (hctx_plug_len t v pi _ _ (VUList items') Hres), Hsz'. lia.
    - apply (LayP_set_at _ Lay pi t v' 0 top1 _ _ _ Hwf2 Hres' HL1). rewrite Hax'. cbn [Lay].
      repeat split; auto. rewrite Hsz'. lia.
    - unfold m_cap. cbn [set_mem m_mem]. rewrite Hcapf. exact Hc32.
  Qed.
End uinsert.

Print Assumptions ulist_insert_general.
