(* 1. The dispatcher Run.exec tied to History2.mstepX for the FULL operation set (in-place stores, RemainingBytes::set_len,
      element-level insert / remove_range / clear of lists of unsized elements), at any nesting depth.
   2. Failures of the new operations are clean (C06): index / range errors precede every write; a refused or
      impossible growth is InvalidRealloc with nothing written.  The operations on lists of unsized elements have
      already cleared possible_mut_borrow when they fail: they return Ops.efail = Ok with the untouched machine
      state, that pointer tree, and the error code in the extra observation. *)
From SF Require Import Base.Prelude Gen.Generated Unsized.Types Unsized.Parse Unsized.Machine Unsized.Ops.
From SF Require Import Unsized.Proofs.EncodeParse Unsized.Proofs.Mem Unsized.Proofs.Notify Unsized.Proofs.Flat Unsized.Proofs.Layout
  Unsized.Proofs.Observe Unsized.Proofs.Table Unsized.Proofs.Path Unsized.Proofs.Context Unsized.Proofs.Context2 Unsized.Proofs.Focus
  Unsized.Proofs.Pos Unsized.Proofs.FocusOps Unsized.Proofs.NotifyInside Unsized.Proofs.Resize Unsized.Proofs.GenOps
  Unsized.Proofs.GenOps2 Unsized.Proofs.Init Unsized.Proofs.UInsert Unsized.Proofs.URemove Unsized.Proofs.History
  Unsized.Proofs.History2.
From SF Require Import Unsized.Run Unsized.Proofs.ExecTie.
From SF Require Import Unsized.Proofs.EnumFacts.

Arguments Z.add : simpl never.
Arguments Z.sub : simpl never.
Arguments Z.mul : simpl never.
Arguments Z.of_nat : simpl never.
Arguments Z.pow : simpl never.
Arguments Z.modulo : simpl never.

(* ---------------------------------------------------------------------------------------------- *)
(* the op-code encoding of the full operation set (the case-file format: harness/src/nodes.rs)     *)
Definition enc_xop (t : ty) (v : val) (o : xop) : list Z :=
  match o with
  | XList g => enc_op t v g
  | XWrite pi idx item => enc_path t v pi ++ 14 :: idx :: zlen item :: item
  | XRemLen pi len => enc_path t v pi ++ [20; len]
  | XRemWrite pi idx b => enc_path t v pi ++ [21; idx; b]
  | XUInsert pi idx n => enc_path t v pi ++ [30; idx; Z.of_nat n; 0]
  | XURemove pi st en => enc_path t v pi ++ [31; st; en]
  | XUClear pi => enc_path t v pi ++ [33]
  end.

(* one step of the dispatcher on the six new op codes *)
Lemma exec_write f ovf t s top ps idx r :
  exec (S f) ovf t s top ps (14 :: idx :: r) =
  (do ' (tc, pc) <- sub t top ps;
   match tc with TList _ _ => list_write t s top ps idx (hd [] (fst (dec_items 1 r))) | _ => SKIPPED end).
Proof. reflexivity. Qed.

Lemma exec_rem_len f ovf t s top ps len r :
  exec (S f) ovf t s top ps (20 :: len :: r) =
  (do ' (tc, pc) <- sub t top ps; match tc with TRem => rem_set_len t s top ps len | _ => SKIPPED end).
Proof. reflexivity. Qed.

Lemma exec_rem_write f ovf t s top ps idx b r :
  exec (S f) ovf t s top ps (21 :: idx :: b :: r) =
  (do ' (tc, pc) <- sub t top ps; match tc with TRem => rem_write t s top ps idx b | _ => SKIPPED end).
Proof. reflexivity. Qed.

Lemma exec_uinsert f ovf t s top ps idx n kind r :
  exec (S f) ovf t s top ps (30 :: idx :: n :: kind :: r) =
  (do ' (tc, pc) <- sub t top ps;
   match tc with TUList _ _ => ulist_insert t s top ps idx kind (repeat [] (Z.to_nat n)) | _ => SKIPPED end).
Proof. reflexivity. Qed.

Lemma exec_uremove f ovf t s top ps st en r :
  exec (S f) ovf t s top ps (31 :: st :: en :: r) =
  (do ' (tc, pc) <- sub t top ps; match tc with TUList _ _ => ulist_remove t s top ps st en | _ => SKIPPED end).
Proof. reflexivity. Qed.

Lemma exec_uclear f ovf t s top ps r :
  exec (S f) ovf t s top ps (33 :: r) =
  (do ' (tc, pc) <- sub t top ps; match tc with TUList _ _ => ulist_clear t s top ps | _ => SKIPPED end).
Proof. reflexivity. Qed.

Lemma dec_items_one item : dec_items 1 (zlen item :: item) = ([item], []).
Proof. cbn [dec_items dec_bytes]. rewrite ztake_all, zdrop_all. reflexivity. Qed.

(* ---------------------------------------------------------------------------------------------- *)
(* ExecTie.exec_path for a path that resolves to ANY type X but the empty struct (the payload of a unit variant,
   into which the dispatcher does not descend): descent, then F at the end                           *)
Lemma exec_path_x ovf t v s (F : ptr -> out res) tail pi X xv :
  resolve t v pi = Some (X, xv) -> X <> TStruct [] ->
  (forall f top' pc, get_at t top' (mpath pi) = Some (X, pc) ->
                     exec (S f) ovf t s top' (mpath pi) tail = F top') ->
  forall r pre top fuel tc vc,
  pre ++ r = pi -> resolve t v pre = Some (tc, vc) -> RepF pre t v s top -> (length r < fuel)%nat ->
  exists top1, menter ovf t s top (mpath pre) r = Ok top1 /\
    (exec fuel ovf t s top (mpath pre) (enc_path tc vc r ++ tail) = F top1 \/
     exists code topk, F top1 = Err code /\ code <> -9 /\
                       exec fuel ovf t s top (mpath pre) (enc_path tc vc r ++ tail) = Ok (s, topk, [-1; code])).
Proof.
  intros Hres HXne Hfin. induction r as [|st r IH]; intros pre top fuel tc vc Hpi Hpre0 R Hfuel.
  - rewrite app_nil_r in Hpi. subst pre. exists top. split; [reflexivity|]. left.
    destruct fuel as [|f]; [cbn [length] in Hfuel; lia|].
    pose proof R as [Hpl Hok Hwf _ _ HL _].
    destruct (LayP_get_at Lay pi t v 0 top _ _ Hwf Hres HL) as (node & Hg & _).
    cbn [enc_path app]. exact (Hfin f top node Hg).
  - destruct fuel as [|f]; [lia|]. cbn [length] in Hfuel.
    rewrite <- Hpi in Hres.
    destruct (resolve_app pre (st :: r) t v _ _ Hres) as (tc' & vc' & Hpre & Hrest).
    rewrite Hpre0 in Hpre. injection Hpre as <- <-. pose proof Hpre0 as Hpre.
    pose proof R as [Hpl Hok Hwf [junk Hmem] Hlen HL Hc32].
    assert (Hpi' : (pre ++ [st]) ++ r = pi) by (rewrite <- app_assoc; exact Hpi).
    destruct (LayP_get_at Lay pre t v 0 top _ _ Hwf Hpre HL) as (node & Hg & HE).
    destruct st as [i|i|]; cbn [menter resolve enc_path app] in *.
    + destruct tc as [| | | |ts|]; try discriminate. destruct vc as [| | |vs|]; try discriminate.
      destruct (nth_error ts i) as [ti|] eqn:Et; [|discriminate]. destruct (nth_error vs i) as [vi|] eqn:Ev; [|discriminate].
      pose proof (LayP_extend_SF pre t v 0 top ts vs i ti vi Hwf Hpre Et Ev HL) as HL'.
      assert (Hpre' : resolve t v (pre ++ [SF i]) = Some (ti, vi)).
      { rewrite (resolve_app_eq _ [SF i] _ _ _ _ Hpre). cbn [resolve]. now rewrite Et, Ev. }
      destruct (IH (pre ++ [SF i]) top f ti vi Hpi' Hpre' (repf_refocus _ _ _ _ _ _ _ R HL') ltac:(lia)) as (top1 & Hm & Hex).
      rewrite mpath_app in Hm, Hex. cbn [mpath map mstep_of] in Hm, Hex.
      exists top1. split; [exact Hm|].
      rewrite exec_descend. unfold sub. rewrite Hg. cbn [obind]. rewrite Nat2Z.id. exact Hex.
    + destruct tc as [| | |it k| |]; try discriminate. destruct vc as [| |items| |]; try discriminate.
      destruct (nth_error items i) as [kv|] eqn:En; [|discriminate].
      destruct node as [| | |a n inner pmb rs re| |]; try (cbn in HE; contradiction).
      rewrite exec_descend. unfold sub. rewrite Hg. cbn [obind].
      rewrite Hmem.
      rewrite (ulist_range_elem pre t v top it k items i kv junk Hpl Hwf Hpre En HL a n inner pmb rs re Hg). cbn [obind].
      destruct (ulist_enter_LayP ovf pre t true v s top it k items i kv junk Hpl Hok Hwf Hpre En HL Hmem) as (top1 & He & HL1).
      rewrite He. cbn [obind].
      assert (Hpre' : resolve t v (pre ++ [SE i]) = Some (it, snd kv)).
      { rewrite (resolve_app_eq _ [SE i] _ _ _ _ Hpre). cbn [resolve]. now rewrite En. }
      destruct (IH (pre ++ [SE i]) top1 f it (snd kv) Hpi' Hpre' (repf_refocus _ _ _ _ _ _ _ R HL1) ltac:(lia)) as (top' & Hm & Hex).
      rewrite mpath_app in Hm, Hex. cbn [mpath map mstep_of] in Hm, Hex.
      exists top'. split; [exact Hm|].
      destruct Hex as [Hex|(code & topk & HF & Hne & Hex)]; rewrite Hex.
      * destruct (F top') as [x|code| |] eqn:HF; [left; reflexivity| |left; reflexivity|left; reflexivity].
        destruct (code =? -9) eqn:E9.
        -- zb. subst code. left. reflexivity.
        -- zb. right. exists code, top1. split; [reflexivity|]. split; [exact E9|reflexivity].
      * right. exists code, topk. split; [exact HF|]. split; [exact Hne|reflexivity].
    + destruct tc as [| | | | |rw vars]; try discriminate. destruct vc as [| | | |d pv]; try discriminate.
      destruct (find_variant d vars) as [vt|] eqn:Ef; [|discriminate].
      destruct node as [| | | | |st0 d' q]; try (cbn in HE; contradiction).
      apply Lay_enum in HE. destruct HE as (_ & -> & _).
      pose proof (LayP_extend_SV pre t v 0 top rw vars d pv vt Hwf Hpre Ef HL) as HL'.
      assert (Hpre' : resolve t v (pre ++ [SV]) = Some (vt, pv)).
      { rewrite (resolve_app_eq _ [SV] _ _ _ _ Hpre). cbn [resolve]. now rewrite Ef. }
      destruct (IH (pre ++ [SV]) top f vt pv Hpi' Hpre' (repf_refocus _ _ _ _ _ _ _ R HL') ltac:(lia)) as (top1 & Hm & Hex).
      rewrite mpath_app in Hm, Hex. cbn [mpath map mstep_of] in Hm, Hex.
      exists top1. split; [exact Hm|].
      cbn beta iota. cbn [app].
      rewrite exec_descend. unfold sub. rewrite Hg. cbn [obind]. rewrite Z.eqb_refl, Ef. cbn [negb].
      destruct vt as [| | | |[|f0 fs]|]; try exact Hex.
      apply resolve_unit_struct in Hrest. contradiction.
Qed.

(* success of "descent then F" is success of the dispatcher with the same result *)
Lemma exec_tie_gen ovf t v s top pi X xv tail (F : ptr -> out res) r :
  RepF [] t v s top -> resolve t v pi = Some (X, xv) -> X <> TStruct [] ->
  (forall f top' pc, get_at t top' (mpath pi) = Some (X, pc) ->
                     exec (S f) ovf t s top' (mpath pi) tail = F top') ->
  (do top1 <- menter ovf t s top [] pi; F top1) = Ok r ->
  forall fuel, (length pi < fuel)%nat -> exec fuel ovf t s top [] (enc_path t v pi ++ tail) = Ok r.
Proof.
  intros R Hres HXne Hfin Hs fuel Hfuel.
  destruct (exec_path_x ovf t v s F tail pi X xv Hres HXne Hfin pi [] top fuel t v eq_refl eq_refl R Hfuel) as (top1 & Hm & Hex).
  cbn [mpath map] in Hm, Hex. rewrite Hm in Hs. cbn [obind] in Hs.
  destruct Hex as [Hex|(code & topk & HF & _ & _)]; [rewrite Hex; exact Hs|congruence].
Qed.

(* the same with an error of F: its code is reported, with the state reached by the descent when the path crosses a
   list of unsized elements (efail), as a plain Err otherwise *)
Lemma exec_tie_gen_err ovf t v s top pi X xv tail (F : ptr -> out res) top1 c :
  RepF [] t v s top -> resolve t v pi = Some (X, xv) -> X <> TStruct [] ->
  (forall f top' pc, get_at t top' (mpath pi) = Some (X, pc) ->
                     exec (S f) ovf t s top' (mpath pi) tail = F top') ->
  menter ovf t s top [] pi = Ok top1 -> F top1 = Err c ->
  forall fuel, (length pi < fuel)%nat ->
  exec fuel ovf t s top [] (enc_path t v pi ++ tail) = Err c \/
  exists topk, exec fuel ovf t s top [] (enc_path t v pi ++ tail) = Ok (s, topk, [-1; c]).
Proof.
  intros R Hres HXne Hfin Hm Hop fuel Hfuel.
  destruct (exec_path_x ovf t v s F tail pi X xv Hres HXne Hfin pi [] top fuel t v eq_refl eq_refl R Hfuel) as (top1' & Hm' & Hex).
  cbn [mpath map] in Hm', Hex. rewrite Hm in Hm'. injection Hm' as <-.
  destruct Hex as [Hex|(code & topk & HF & _ & Hex)].
  - left. rewrite Hex. exact Hop.
  - right. exists topk. rewrite Hop in HF. injection HF as <-. exact Hex.
Qed.

(* the op codes after the path *)
Definition xop_tail (o : xop) : list Z :=
  match o with
  | XList g => op_tail g
  | XWrite _ idx item => 14 :: idx :: zlen item :: item
  | XRemLen _ len => [20; len]
  | XRemWrite _ idx b => [21; idx; b]
  | XUInsert _ idx n => [30; idx; Z.of_nat n; 0]
  | XURemove _ st en => [31; st; en]
  | XUClear _ => [33]
  end.

Lemma enc_xop_split t v o : enc_xop t v o = enc_path t v (xfocus o) ++ xop_tail o.
Proof. destruct o as [g| | | | | |]; try reflexivity. apply enc_op_split. Qed.

(* the kind of container each operation addresses *)
Definition xop_kind (o : xop) (X : ty) : Prop :=
  match o with
  | XList _ | XWrite _ _ _ => exists c lw, X = TList c lw
  | XRemLen _ _ | XRemWrite _ _ _ => X = TRem
  | XUInsert _ _ _ | XURemove _ _ _ | XUClear _ => exists it k, X = TUList it k
  end.

(* at the end of the path (the type there is of the operation's kind) the dispatcher calls the operation itself *)
Lemma exec_xop_tail f ovf t s top o X pc :
  xop_kind o X -> get_at t top (mpath (xfocus o)) = Some (X, pc) ->
  exec (S f) ovf t s top (mpath (xfocus o)) (xop_tail o) = mopX t s top o.
Proof.
  intros Hk Hg.
  destruct o as [g|pi idx item|pi len|pi idx b|pi idx n|pi st en|pi]; cbn [xop_kind xop_tail xfocus mopX] in *.
  - destruct Hk as (c & lw & ->). exact (exec_op_tail f ovf t s top g c lw pc Hg).
  - destruct Hk as (c & lw & ->). rewrite exec_write. unfold sub. rewrite Hg. cbn [obind].
    rewrite dec_items_one. reflexivity.
  - subst X. rewrite exec_rem_len. unfold sub. rewrite Hg. reflexivity.
  - subst X. rewrite exec_rem_write. unfold sub. rewrite Hg. reflexivity.
  - destruct Hk as (it & k & ->). rewrite exec_uinsert. unfold sub. rewrite Hg. cbn [obind].
    rewrite Nat2Z.id. reflexivity.
  - destruct Hk as (it & k & ->). rewrite exec_uremove. unfold sub. rewrite Hg. reflexivity.
  - destruct Hk as (it & k & ->). rewrite exec_uclear. unfold sub. rewrite Hg. reflexivity.
Qed.

(* an operation the owned model accepts addresses a container of its kind *)
Lemma ostepX_kind cap t v o v' : ostepX cap t v o = Some v' ->
  exists X xv, resolve t v (xfocus o) = Some (X, xv) /\ xop_kind o X.
Proof.
  intros Ho.
  destruct o as [g|pi idx item|pi len|pi idx b|pi idx n|pi st en|pi]; cbn [ostepX xfocus xop_kind] in *.
  - destruct g as [pi idx new|pi st en]; cbn [ostepG focus_of] in *;
      destruct (resolve t v pi) as [[[| c lw | | | |] [|items| | |]]|] eqn:Hres; try discriminate; eauto 6.
  - destruct (resolve t v pi) as [[[| c lw | | | |] [|items| | |]]|] eqn:Hres; try discriminate; eauto 6.
  - destruct (resolve t v pi) as [[[| | | | |] [bs| | | |]]|] eqn:Hres; try discriminate; eauto 6.
  - destruct (resolve t v pi) as [[[| | | | |] [bs| | | |]]|] eqn:Hres; try discriminate; eauto 6.
  - destruct (resolve t v pi) as [[[| | |it [|k]| |] [| |items| |]]|] eqn:Hres; try discriminate; eauto 6.
  - destruct (resolve t v pi) as [[[| | |it k| |] [| |items| |]]|] eqn:Hres; try discriminate; eauto 6.
  - destruct (resolve t v pi) as [[[| | |it k| |] [| |[|kv items]| |]]|] eqn:Hres; try discriminate; eauto 6.
Qed.

(* the dispatcher on an encoded operation of the full set, against descent + operation *)
Lemma exec_tie_x ovf t v s top o X xv fuel :
  RepF [] t v s top -> resolve t v (xfocus o) = Some (X, xv) -> xop_kind o X -> (length (xfocus o) < fuel)%nat ->
  exists top1, menter ovf t s top [] (xfocus o) = Ok top1 /\
    (exec fuel ovf t s top [] (enc_xop t v o) = mopX t s top1 o \/
     exists code topk, mopX t s top1 o = Err code /\ code <> -9 /\
                       exec fuel ovf t s top [] (enc_xop t v o) = Ok (s, topk, [-1; code])).
Proof.
  intros R Hres Hk Hfuel. rewrite enc_xop_split.
  assert (HXne : X <> TStruct []).
  { destruct o; cbn [xop_kind] in Hk; try (destruct Hk as (? & ? & ->); discriminate); subst X; discriminate. }
  exact (exec_path_x ovf t v s (fun top' => mopX t s top' o) (xop_tail o) (xfocus o) X xv Hres HXne
           (fun f top' pc Hg => exec_xop_tail f ovf t s top' o X pc Hk Hg)
           (xfocus o) [] top fuel t v eq_refl eq_refl R Hfuel).
Qed.

(* success: the dispatcher returns exactly what descent + operation return *)
Theorem exec_tie_x_ok ovf t v s top o r :
  RepF [] t v s top -> (exists v', ostepX (m_cap s) t v o = Some v') ->
  mstepX ovf t s top o = Ok r ->
  forall fuel, (length (xfocus o) < fuel)%nat -> exec fuel ovf t s top [] (enc_xop t v o) = Ok r.
Proof.
  intros R [v' Ho] Hs fuel Hfuel.
  destruct (ostepX_kind _ _ _ _ _ Ho) as (X & xv & Hres & Hk).
  destruct (exec_tie_x ovf t v s top o X xv fuel R Hres Hk Hfuel) as (top1 & Hm & Hex).
  unfold mstepX in Hs. rewrite Hm in Hs. cbn [obind] in Hs.
  destruct Hex as [Hex|(code & topk & HF & _ & _)]; [rewrite Hex; exact Hs|congruence].
Qed.

(* failure: the dispatcher reports the operation's error code; with the state reached by the descent when the path
   crosses a list of unsized elements (efail), as a plain Err otherwise *)
Theorem exec_tie_x_err ovf t v s top o top1 c :
  RepF [] t v s top ->
  (exists X xv, resolve t v (xfocus o) = Some (X, xv) /\ xop_kind o X) ->
  menter ovf t s top [] (xfocus o) = Ok top1 -> mopX t s top1 o = Err c ->
  forall fuel, (length (xfocus o) < fuel)%nat ->
  exec fuel ovf t s top [] (enc_xop t v o) = Err c \/ exists topk, exec fuel ovf t s top [] (enc_xop t v o) = Ok (s, topk, [-1; c]).
Proof.
  intros R (X & xv & Hres & Hk) Hm Hop fuel Hfuel.
  destruct (exec_tie_x ovf t v s top o X xv fuel R Hres Hk Hfuel) as (top1' & Hm' & Hex).
  rewrite Hm in Hm'. injection Hm' as <-.
  destruct Hex as [Hex|(code & topk & HF & _ & Hex)].
  - left. rewrite Hex. exact Hop.
  - right. exists topk. rewrite Hop in HF. injection HF as <-. exact Hex.
Qed.

(* a call that failed after clearing possible_mut_borrow (Ops.efail = Ok with the code in the extra observation) is,
   like every Ok result, returned unchanged by the dispatcher *)
Corollary exec_tie_x_efail ovf t v s top o top1 s' top0 c :
  RepF [] t v s top ->
  (exists X xv, resolve t v (xfocus o) = Some (X, xv) /\ xop_kind o X) ->
  menter ovf t s top [] (xfocus o) = Ok top1 -> mopX t s top1 o = Ok (s', top0, [-1; c]) ->
  forall fuel, (length (xfocus o) < fuel)%nat -> exec fuel ovf t s top [] (enc_xop t v o) = Ok (s', top0, [-1; c]).
Proof.
  intros R (X & xv & Hres & Hk) Hm Hop fuel Hfuel.
  destruct (exec_tie_x ovf t v s top o X xv fuel R Hres Hk Hfuel) as (top1' & Hm' & Hex).
  rewrite Hm in Hm'. injection Hm' as <-.
  destruct Hex as [Hex|(code & topk & HF & _ & _)]; [rewrite Hex; exact Hop|congruence].
Qed.

(* ============================================================================================== *)
(* 2. clean failures of the new operations (C06)                                                   *)

(* index errors of the in-place stores, as one statement about mopX: a plain Err, before any write *)
Lemma store_index_error_g t v s top o :
  RepF (xfocus o) t v s top ->
  match o with
  | XWrite pi idx _ => exists c lw items, resolve t v pi = Some (TList c lw, VList items) /\ (idx < 0 \/ zlen items <= idx)
  | XRemWrite pi idx _ => exists bs, resolve t v pi = Some (TRem, VBytes bs) /\ (idx < 0 \/ zlen bs <= idx)
  | _ => False
  end ->
  mopX t s top o = Err E_INDEX.
Proof.
  intros R H. destruct o as [g|pi idx item|pi len|pi idx b|pi idx n|pi st en|pi]; try contradiction; cbn [xfocus mopX] in *.
  - destruct H as (c & lw & items & Hres & Hi). exact (list_write_index_error_g pi t v c lw items item Hres s top R idx Hi).
  - destruct H as (bs & Hres & Hi). exact (rem_write_index_error_g pi t v bs Hres s top idx b R Hi).
Qed.

(* every initializer announces a non-negative size *)
Lemma init_size_nonneg t : forall kind, 0 <= init_size t kind.
Proof.
  induction t as [c|c lw| |it k IH|ts IH|rw vs IH] using ty_ind'; intros kind.
  - cbn [init_size]. lia.
  - rewrite init_size_list. unfold list_init_count. destruct (kind =? 1); [lia|]. destruct (kind =? 2); lia.
  - cbn [init_size]. destruct (kind =? 1); lia.
  - cbn [init_size]. lia.
  - induction IH as [|t0 ts0 H0 _ IH2]; [change (init_size (TStruct []) kind) with 0; lia|].
    rewrite init_size_struct_cons. specialize (H0 0). lia.
  - destruct vs as [|[d vt] r]; cbn [init_size]; [lia|].
    inversion IH as [|dv r' H1 H2]; subst. cbn [snd] in H1. specialize (H1 0). lia.
Qed.

(* ---------------------------------------------------------------------------------------------- *)
(* lists of unsized elements: the checks precede every write; the call returns efail = Ok with the untouched machine
   state, the pointer tree with possible_mut_borrow cleared, and the error code in the extra observation *)
Section uerrors.
  Variables (pi : list step) (t : ty) (v : val) (it : ty) (k : nat) (items : list (list Z * val)).
  Hypothesis Hres : resolve t v pi = Some (TUList it k, VUList items).

  Lemma ulist_insert_index_error_g s top idx kind keys :
    RepF pi t v s top -> zlen items < idx ->
    exists top0, ulist_insert t s top (mpath pi) idx kind keys = Ok (s, top0, [-1; E_INDEX]) /\ RepF pi t v s top0.
  Proof.
    intros R Hi. destruct (ulist_located pi t v it k items Hres s top R) as (inner & pmb & Hsub & Hio & R0 & _).
    eexists. split; [|exact R0].
    unfold ulist_insert. rewrite Hsub. cbn [obind]. rewrite Hio. cbn [negb set_pmb].
    destruct (zlen items <? idx) eqn:E; [reflexivity|zb; lia].
  Qed.

  (* en < st excludes the clear() fast path (st = 0 and en = len) by itself *)
  Lemma ulist_remove_range_error_g s top st en :
    RepF pi t v s top -> en < st ->
    exists top0, ulist_remove t s top (mpath pi) st en = Ok (s, top0, [-1; E_RANGE]) /\ RepF pi t v s top0.
  Proof.
    intros R Hi. destruct (ulist_located pi t v it k items Hres s top R) as (inner & pmb & Hsub & Hio & R0 & _).
    pose proof (zlen_nonneg items) as Hn0.
    eexists. split; [|exact R0].
    unfold ulist_remove. rewrite Hsub. cbn [obind]. rewrite Hio. cbn [negb set_pmb].
    destruct ((st =? 0) && (en =? zlen items)) eqn:E0; [zb; lia|].
    destruct (en <? st) eqn:E1; [reflexivity|zb; lia].
  Qed.

  Lemma ulist_remove_index_error_g s top st en :
    RepF pi t v s top -> st <= en -> zlen items < en ->
    exists top0, ulist_remove t s top (mpath pi) st en = Ok (s, top0, [-1; E_INDEX]) /\ RepF pi t v s top0.
  Proof.
    intros R Hse Hi. destruct (ulist_located pi t v it k items Hres s top R) as (inner & pmb & Hsub & Hio & R0 & _).
    eexists. split; [|exact R0].
    unfold ulist_remove. rewrite Hsub. cbn [obind]. rewrite Hio. cbn [negb set_pmb].
    destruct ((st =? 0) && (en =? zlen items)) eqn:E0; [zb; lia|].
    destruct (en <? st) eqn:E1; [zb; lia|].
    destruct (zlen items <? en) eqn:E2; [reflexivity|zb; lia].
  Qed.

  (* growth refused / beyond the allocation: InvalidRealloc out of add_bytes, nothing written *)
  Lemma ulist_insert_realloc_error_g s top idx kind keys :
    RepF pi t v s top -> 0 <= idx <= zlen items -> keys <> [] ->
    (m_refuse s = 1 \/ m_cap s < m_len s + (init_size it kind + (4 + Z.of_nat k)) * zlen keys) ->
    exists top0, ulist_insert t s top (mpath pi) idx kind keys = Ok (s, top0, [-1; E_REALLOC]) /\ RepF pi t v s top0.
  Proof.
    intros R Hi Hne Hfail.
    destruct (ulist_located pi t v it k items Hres s top R) as (inner & pmb & Hsub & Hio & R0 & _).
    pose proof (repf_top_check _ _ _ _ _ R0) as Hchk.
    pose proof R as [Hpl Hok Hwf [junk Hmem] Hlen HL Hc32].
    pose proof (resolve_wf _ _ _ _ _ Hwf Hres) as HwU. pose proof (ulist_facts _ _ _ HwU) as F.
    pose proof (zlen_encode_ulist _ _ _ F) as HzX.
    pose proof (hctx_encode _ _ _ _ _ Hres) as Henc.
    pose proof (init_size_nonneg it kind) as Hisz.
    set (ax := addr_of t v pi 0) in *.
    set (P0 := fst (hctx t v pi 0)) in *. set (Q := snd (hctx t v pi 0)) in *.
    assert (HaP : ax = zlen P0) by (subst ax P0; unfold addr_of; lia).
    set (off := zsum (firstn (Z.to_nat idx) (usizes it items))).
    pose proof (zsum_firstn_le (usizes it items) (Z.to_nat idx) (usizes_nonneg it items)) as Hoffb. fold off in Hoffb.
    assert (Hoff : ulist_offset k (m_mem s) ax (zlen items) idx = Ok off).
    { rewrite Hmem, Henc, <- !app_assoc, HaP. exact (ulist_offset_mem it k items idx P0 (Q ++ junk) HwU Hi). }
    assert (Hto : 0 < zlen keys).
    { destruct keys as [|x0 l0]; [congruence|]. rewrite zlen_cons. pose proof (zlen_nonneg l0). lia. }
    assert (Hold : m_len s = zlen P0 + (12 + zlen items * (4 + Z.of_nat k) + zsum (usizes it items)) + zlen Q).
    { rewrite Hlen, Henc, !zlen_app, HzX. lia. }
    pose proof (zlen_nonneg P0). pose proof (zlen_nonneg Q). pose proof (zlen_nonneg items).
    eexists. split; [|exact R0].
    unfold ulist_insert. rewrite Hsub. cbn [obind]. rewrite Hio. cbn [negb set_pmb].
    destruct (zlen items <? idx) eqn:E1; [zb; lia|].
    rewrite Hoff. cbn [obind].
    unfold add_bytes. rewrite Hchk. cbn [negb]. unfold ulist_dbase.
    set (amount := (init_size it kind + (4 + Z.of_nat k)) * zlen keys) in *.
    assert (Hamt : 0 < amount) by (subst amount; nia).
    match goal with |- context [if ?b then Err E_PTR_OOB else _] => destruct b eqn:E3 end.
    { apply orb_true_iff in E3. destruct E3; zb; nia. }
    destruct (amount =? 0) eqn:E4; [zb; lia|].
    unfold realloc.
    destruct (m_len s <? m_len s + amount) eqn:E5; [|zb; lia].
    destruct (m_refuse s =? 1) eqn:E6; cbn [andb]; [reflexivity|].
    destruct (m_cap s <? m_len s + amount) eqn:E7; [reflexivity|].
    zb. destruct Hfail; lia.
  Qed.
End uerrors.

(* RemainingBytes::set_len beyond the allocation / refused: InvalidRealloc (a plain Err), nothing written *)
Lemma rem_set_len_realloc_error_g pi t v bs s top len :
  resolve t v pi = Some (TRem, VBytes bs) -> RepF pi t v s top -> zlen bs < len ->
  (m_refuse s = 1 \/ m_cap s < m_len s + (len - zlen bs)) ->
  rem_set_len t s top (mpath pi) len = Err E_REALLOC.
Proof.
  intros Hres R Hl Hfail. pose proof (repf_top_check _ _ _ _ _ R) as Hchk.
  destruct (grem_located pi t v bs Hres s top R) as (Hsub & _).
  pose proof R as [_ _ _ [junk Hmem] Hlen _ _].
  pose proof (hctx_encode _ _ _ _ _ Hres) as Henc. cbn [encode] in Henc.
  set (ax := addr_of t v pi 0) in *.
  assert (0 <= ax /\ ax + zlen bs <= m_len s) as [Ha0 Hin].
  { subst ax. unfold addr_of. rewrite Hlen, Henc, !zlen_app.
    pose proof (zlen_nonneg (fst (hctx t v pi 0))). pose proof (zlen_nonneg (snd (hctx t v pi 0))). lia. }
  pose proof (zlen_nonneg bs).
  unfold rem_set_len. rewrite Hsub. cbn [obind].
  destruct (zlen bs =? len) eqn:E0; [zb; lia|].
  destruct (zlen bs <? len) eqn:E1; [|zb; lia].
  unfold add_bytes. rewrite Hchk. cbn [negb].
  match goal with |- context [if ?b then Err E_PTR_OOB else _] => destruct b eqn:E3 end.
  { apply orb_true_iff in E3. destruct E3; zb; lia. }
  destruct (len - zlen bs =? 0) eqn:E4; [zb; lia|].
  unfold realloc.
  destruct (m_len s <? m_len s + (len - zlen bs)) eqn:E5; [|zb; lia].
  destruct (m_refuse s =? 1) eqn:E6; cbn [andb]; [reflexivity|].
  destruct (m_cap s <? m_len s + (len - zlen bs)) eqn:E7; [reflexivity|].
  zb. destruct Hfail; lia.
Qed.

(* ---------------------------------------------------------------------------------------------- *)
(* the failures of the new operations as one table, and one theorem in the style of History.gstep_error: the descent
   succeeds, the operation reports the table's code - as a plain Err (in-place stores, set_len) or as efail
   (lists of unsized elements) - with the machine state untouched, and the pointer tree it leaves still represents
   the same value *)
Definition oerrX (cap refuse : Z) (t : ty) (v : val) (o : xop) : option Z :=
  match o with
  | XList g => oerrG cap refuse t v g
  | XWrite pi idx _ =>
      match resolve t v pi with
      | Some (TList c lw, VList items) => if (idx <? 0) || (zlen items <=? idx) then Some E_INDEX else None
      | _ => None
      end
  | XRemWrite pi idx _ =>
      match resolve t v pi with
      | Some (TRem, VBytes bs) => if (idx <? 0) || (zlen bs <=? idx) then Some E_INDEX else None
      | _ => None
      end
  | XRemLen pi len =>
      match resolve t v pi with
      | Some (TRem, VBytes bs) =>
          if (zlen bs <? len) && ((refuse =? 1) || (cap <? zlen (encode t v) + (len - zlen bs))) then Some E_REALLOC else None
      | _ => None
      end
  | XUInsert pi idx n =>
      match resolve t v pi with
      | Some (TUList it k, VUList items) =>
          if zlen items <? idx then Some E_INDEX
          else if (0 <=? idx) && negb (n =? 0)%nat
                  && ((refuse =? 1) || (cap <? zlen (encode t v) + (init_size it 0 + (4 + Z.of_nat k)) * Z.of_nat n))
          then Some E_REALLOC else None
      | _ => None
      end
  | XURemove pi st en =>
      match resolve t v pi with
      | Some (TUList it k, VUList items) =>
          if en <? st then Some E_RANGE else if zlen items <? en then Some E_INDEX else None
      | _ => None
      end
  | XUClear _ => None
  end.

Theorem xstep_error ovf t v s top pi0 o code :
  RepF pi0 t v s top -> oerrX (m_cap s) (m_refuse s) t v o = Some code ->
  exists top1, menter ovf t s top [] (xfocus o) = Ok top1 /\
    ((mopX t s top1 o = Err code /\ RepF (xfocus o) t v s top1) \/
     (exists top0, mopX t s top1 o = Ok (s, top0, [-1; code]) /\ RepF (xfocus o) t v s top0)).
Proof.
  intros R He.
  destruct o as [g|pi idx item|pi len|pi idx b|pi idx n|pi st en|pi]; cbn [oerrX mopX xfocus] in *.
  - destruct (gstep_error ovf t v s top pi0 g code R He) as (top1 & Hm & Hop & R1). exists top1. auto.
  - apply repf_unfocus in R.
    destruct (resolve t v pi) as [[[| c lw | | | |] [|items| | |]]|] eqn:Hres; try discriminate.
    destruct (menter_ok ovf pi [] t v s top _ _ R Hres) as (top1 & Hm & R1). cbn [app mpath map] in Hm, R1.
    exists top1. split; [exact Hm|]. left. split; [|exact R1].
    match type of He with (if ?b then _ else _) = _ => destruct b eqn:Eb end; [|discriminate]. injection He as <-.
    apply (list_write_index_error_g pi t v c lw items item Hres s top1 R1 idx).
    apply orb_true_iff in Eb. destruct Eb; zb; lia.
  - apply repf_unfocus in R. pose proof R as [_ _ _ _ Hlen _ _].
    destruct (resolve t v pi) as [[[| | | | |] [bs| | | |]]|] eqn:Hres; try discriminate.
    destruct (menter_ok ovf pi [] t v s top _ _ R Hres) as (top1 & Hm & R1). cbn [app mpath map] in Hm, R1.
    exists top1. split; [exact Hm|]. left. split; [|exact R1].
    match type of He with (if ?b then _ else _) = _ => destruct b eqn:Eb end; [|discriminate]. injection He as <-.
    apply andb_true_iff in Eb as [E1 E2]. zb.
    apply (rem_set_len_realloc_error_g pi t v bs s top1 len Hres R1 E1).
    apply orb_true_iff in E2. destruct E2; zb; [left; assumption|right; lia].
  - apply repf_unfocus in R.
    destruct (resolve t v pi) as [[[| | | | |] [bs| | | |]]|] eqn:Hres; try discriminate.
    destruct (menter_ok ovf pi [] t v s top _ _ R Hres) as (top1 & Hm & R1). cbn [app mpath map] in Hm, R1.
    exists top1. split; [exact Hm|]. left. split; [|exact R1].
    match type of He with (if ?b then _ else _) = _ => destruct b eqn:Eb end; [|discriminate]. injection He as <-.
    apply (rem_write_index_error_g pi t v bs Hres s top1 idx b R1).
    apply orb_true_iff in Eb. destruct Eb; zb; lia.
  - apply repf_unfocus in R. pose proof R as [_ _ _ _ Hlen _ _].
    destruct (resolve t v pi) as [[[| | |it k| |] [| |items| |]]|] eqn:Hres; try discriminate.
    destruct (menter_ok ovf pi [] t v s top _ _ R Hres) as (top1 & Hm & R1). cbn [app mpath map] in Hm, R1.
    exists top1. split; [exact Hm|]. right.
    destruct (zlen items <? idx) eqn:E1.
    { injection He as <-. zb. exact (ulist_insert_index_error_g pi t v it k items Hres s top1 idx 0 (repeat [] n) R1 E1). }
    match type of He with (if ?b then _ else _) = _ => destruct b eqn:Eb end; [|discriminate]. injection He as <-.
    apply andb_true_iff in Eb as [Eb E4]. apply andb_true_iff in Eb as [E2 E3]. zb.
    apply Nat.eqb_neq in E3.
    apply (ulist_insert_realloc_error_g pi t v it k items Hres s top1 idx 0 (repeat [] n) R1); [lia| |].
    + destruct n; [congruence|discriminate].
    + rewrite zlen_repeat_nil. apply orb_true_iff in E4. destruct E4; zb; [left; assumption|right; lia].
  - apply repf_unfocus in R.
    destruct (resolve t v pi) as [[[| | |it k| |] [| |items| |]]|] eqn:Hres; try discriminate.
    destruct (menter_ok ovf pi [] t v s top _ _ R Hres) as (top1 & Hm & R1). cbn [app mpath map] in Hm, R1.
    exists top1. split; [exact Hm|]. right.
    destruct (en <? st) eqn:E1.
    { injection He as <-. zb. exact (ulist_remove_range_error_g pi t v it k items Hres s top1 st en R1 E1). }
    destruct (zlen items <? en) eqn:E2; [|discriminate].
    injection He as <-. zb. exact (ulist_remove_index_error_g pi t v it k items Hres s top1 st en R1 E1 E2).
  - discriminate.
Qed.

Print Assumptions exec_tie_x_ok. Print Assumptions exec_tie_x_err. Print Assumptions exec_tie_x_efail.
Print Assumptions ulist_insert_realloc_error_g. Print Assumptions rem_set_len_realloc_error_g. Print Assumptions xstep_error.
