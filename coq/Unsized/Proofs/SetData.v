(* Whole-value replacement (ExclusiveWrapper::set_from_owned, Ops.set_data with the canonical bytes of an owned value)
   of the sub-value at the end of ANY path - behind any number of struct fields and elements of lists of unsized
   elements - refines assignment on the owned model: the value is resized AT ITS OWN START ADDRESS (the source of the
   notification is the value's start, so the value's own pointers are notified of a resize at their own start and every
   later pointer is shifted - NotifyInside2), the new bytes are written over it and its pointer tree is rebuilt by
   get_ptr; every ancestor header and offset table is adjusted by the broadcast. *)
From SF Require Import Base.Prelude Gen.Generated Unsized.Types Unsized.Parse Unsized.Machine Unsized.Ops.
From SF Require Import Unsized.Proofs.EncodeParse Unsized.Proofs.Mem Unsized.Proofs.Notify Unsized.Proofs.Flat Unsized.Proofs.Layout
  Unsized.Proofs.Table Unsized.Proofs.Path Unsized.Proofs.Context Unsized.Proofs.Context2 Unsized.Proofs.Focus Unsized.Proofs.Pos
  Unsized.Proofs.FocusOps Unsized.Proofs.NotifyInside Unsized.Proofs.Resize Unsized.Proofs.GenOps Unsized.Proofs.GenOps2.
From SF Require Import Unsized.Proofs.NotifyInside2.
From SF Require Import Unsized.Proofs.EnumFacts.

Arguments Z.add : simpl never.
Arguments Z.sub : simpl never.
Arguments Z.mul : simpl never.
Arguments Z.of_nat : simpl never.
Arguments Z.pow : simpl never.
Arguments Z.modulo : simpl never.

(* ---------------------------------------------------------------------------------------------- *)
(* add_bytes / remove_bytes issued on behalf of ANY sub-value of positive size (Resize.v for containers): nothing is
   said about the sub-value's own node afterwards                                                   *)
Section resize_any.
  Variables (pi : list step) (t : ty) (v : val) (X : ty) (xv xv' : val).
  Hypothesis Hres : resolve t v pi = Some (X, xv).
  Hypothesis Hpos : 0 < zlen (encode X xv).

  Let P0 := fst (hctx t v pi 0).
  Let Q := snd (hctx t v pi 0).
  Let ax := addr_of t v pi 0.

  Lemma add_bytes_inside_any s top (A B : list Z) k :
    RepF pi t v s top -> encode X xv = A ++ B -> 0 < k ->
    zlen (encode X xv') = zlen (encode X xv) + k ->
    m_refuse s <> 1 -> m_len s + k <= m_cap s ->
    exists s1 top1 G J,
      add_bytes t s top ax (ax + zlen A) k = Ok (s1, top1) /\
      m_mem s1 = fst (hctx t v pi k) ++ (A ++ G ++ B) ++ Q ++ J /\ zlen G = k /\
      m_len s1 = m_len s + k /\ m_cap s1 = m_cap s /\ m_refuse s1 = m_refuse s /\
      LayP ETrue pi t (plug t v pi xv') 0 top1.
  Proof.
    intros R HAB Hk Hsz Hnref Hroom. pose proof (repf_top_check _ _ _ _ _ R) as Hchk. pose proof (repf_cap _ _ _ _ _ R) as Hcap.
    destruct R as [Hpl Hok Hwf [junk Hmem] Hlen HL Hc32].
    pose proof (hctx_encode _ _ _ _ _ Hres) as Henc. fold P0 Q in Henc. rewrite HAB in Henc.
    pose proof (zlen_nonneg P0). pose proof (zlen_nonneg A). pose proof (zlen_nonneg B). pose proof (zlen_nonneg Q).
    assert (Hold : zlen (encode t v) = zlen P0 + zlen A + zlen B + zlen Q) by (rewrite Henc, !zlen_app; lia).
    assert (Hax : ax = zlen P0) by (subst ax P0; unfold addr_of; lia).
    unfold add_bytes. rewrite Hchk. cbn [negb].
    set (start := ax + zlen A).
    assert (0 <= start <= m_len s) as Hst by (subst start; lia).
    destruct ((start <? 0) || (m_len s <? start)) eqn:E3; [apply orb_true_iff in E3; destruct E3; zb; lia|].
    destruct (k =? 0) eqn:E4; [zb; lia|].
    (* realloc *)
    assert (k <= zlen junk) as Hjk by (unfold m_cap in Hroom; rewrite Hmem, zlen_app, Hlen in Hroom; lia).
    set (J := zdrop k junk).
    assert (Hjunk : junk = ztake k junk ++ J) by (symmetry; apply ztake_zdrop).
    unfold realloc.
    destruct (m_len s <? m_len s + k) eqn:E5; [|zb; lia].
    destruct (m_refuse s =? 1) eqn:E6; [zb; congruence|]. cbn [andb].
    destruct (m_cap s <? m_len s + k) eqn:E7; [zb; lia|].
    assert (Hwr0 : wr (m_mem s) (m_len s) (zrepeat 0 (m_len s + k - m_len s)) = Ok (encode t v ++ zrepeat 0 k ++ J)).
    { rewrite Hmem, Hlen. rewrite Hjunk at 1. replace (zlen _ + k - zlen _) with k by lia.
      apply wr_mid'; [reflexivity|]. rewrite zlen_zrepeat, zlen_ztake by lia. reflexivity. }
    rewrite Hwr0. cbn [obind m_mem m_len].
    (* memmove *)
    set (A' := P0 ++ A). set (T := B ++ Q).
    assert (HA' : zlen A' = start) by (subst A' start; rewrite zlen_app; lia).
    assert (HT : zlen T = m_len s - start) by (subst T start; rewrite zlen_app; lia).
    assert (Hm1 : encode t v ++ zrepeat 0 k ++ J = A' ++ (T ++ zrepeat 0 k) ++ J).
    { rewrite Henc. subst A' T. now rewrite <- !app_assoc. }
    assert (Hmv : (if start =? m_len s then Ok (encode t v ++ zrepeat 0 k ++ J)
                   else mmove (encode t v ++ zrepeat 0 k ++ J) (start + k) start (m_len s - start))
                  = Ok (A' ++ ztake k (T ++ zrepeat 0 k) ++ T ++ J)).
    { rewrite Hm1. destruct (start =? m_len s) eqn:E8.
      - zb. assert (T = []) as -> by (destruct T; [reflexivity|rewrite zlen_cons in HT; pose proof (zlen_nonneg T); lia]).
        cbn [app]. rewrite <- (zlen_zrepeat 0 k) at 2 by lia. rewrite ztake_all. reflexivity.
      - rewrite <- HT, <- HA'. apply mmove_up. symmetry. apply zlen_zrepeat. lia. }
    rewrite Hmv. cbn [obind].
    set (G := ztake k (T ++ zrepeat 0 k)).
    assert (HG : zlen G = k) by (subst G; rewrite zlen_ztake; [reflexivity|rewrite zlen_app, zlen_zrepeat by lia; pose proof (zlen_nonneg T); lia]).
    (* the broadcast *)
    assert (Hmem2 : A' ++ G ++ T ++ J = [] ++ P0 ++ (A ++ G ++ B) ++ Q ++ J).
    { subst A' T. cbn [app]. now rewrite <- !app_assoc. }
    rewrite Hmem2.
    destruct (notify_inside_plain pi t true v top X xv xv' k (A ++ G ++ B) [] J Hpl Hok Hwf Hres Hpos HL) as (p' & Hn & HL'); try lia.
    { rewrite HAB, !zlen_app. lia. }
    change (zlen (@nil Z)) with 0 in Hn. fold ax P0 Q in Hn. rewrite Hn. cbn [obind].
    exists (set_mem {| m_mem := encode t v ++ zrepeat 0 k ++ J; m_len := m_len s + k; m_grow := m_grow s + 1; m_refuse := m_refuse s |}
                    ([] ++ fst (hctx t v pi k) ++ (A ++ G ++ B) ++ Q ++ J)), p', G, J.
    split; [reflexivity|]. cbn [set_mem m_mem m_len m_refuse app].
    repeat split; auto.
    unfold m_cap. cbn [set_mem m_mem]. rewrite Hmem. rewrite !zlen_app, (hctx_fst_len t v pi k). fold P0.
    rewrite HG, Hold. pose proof (zlen_nonneg J). assert (zlen junk = k + zlen J) by (rewrite Hjunk at 1; rewrite zlen_app, zlen_ztake by lia; lia). lia.
  Qed.

  Lemma remove_bytes_inside_any s top (A R B : list Z) :
    RepF pi t v s top -> encode X xv = A ++ R ++ B -> 0 < zlen R ->
    zlen (encode X xv') = zlen (encode X xv) - zlen R ->
    exists s1 top1 J,
      remove_bytes t s top ax (ax + zlen A) (ax + zlen A + zlen R) = Ok (s1, top1) /\
      m_mem s1 = fst (hctx t v pi (- zlen R)) ++ (A ++ B) ++ Q ++ J /\
      m_len s1 = m_len s - zlen R /\ m_cap s1 = m_cap s /\ m_refuse s1 = m_refuse s /\
      LayP ETrue pi t (plug t v pi xv') 0 top1.
  Proof.
    intros Rp HARB HR Hsz. pose proof (repf_top_check _ _ _ _ _ Rp) as Hchk. pose proof (repf_cap _ _ _ _ _ Rp) as Hcap.
    destruct Rp as [Hpl Hok Hwf [junk Hmem] Hlen HL Hc32].
    pose proof (hctx_encode _ _ _ _ _ Hres) as Henc. fold P0 Q in Henc. rewrite HARB in Henc.
    pose proof (zlen_nonneg P0). pose proof (zlen_nonneg A). pose proof (zlen_nonneg B). pose proof (zlen_nonneg Q).
    set (k := zlen R) in *.
    assert (Hold : zlen (encode t v) = zlen P0 + zlen A + k + zlen B + zlen Q) by (rewrite Henc, !zlen_app; subst k; lia).
    assert (Hax : ax = zlen P0) by (subst ax P0; unfold addr_of; lia).
    unfold remove_bytes. rewrite Hchk. cbn [negb].
    set (end_ := ax + zlen A + k). set (start := ax + zlen A).
    assert (Hse : 0 <= start /\ start < end_ /\ end_ <= m_len s) by (subst start end_; lia).
    destruct ((start <? 0) || (m_len s <? start)) eqn:E3; [apply orb_true_iff in E3; destruct E3; zb; lia|].
    destruct ((end_ <? start) || (m_len s <? end_)) eqn:E4; [apply orb_true_iff in E4; destruct E4; zb; lia|].
    assert (Hamt : end_ - start = k) by (subst start end_; lia).
    rewrite Hamt. destruct (k =? 0) eqn:E5; [zb; lia|].
    set (A' := P0 ++ A). set (T := B ++ Q).
    assert (HA' : zlen A' = start) by (subst A' start; rewrite zlen_app; lia).
    assert (HT : zlen T = m_len s - end_) by (subst T end_; rewrite zlen_app; lia).
    assert (Hm0 : m_mem s = A' ++ R ++ T ++ junk) by (rewrite Hmem, Henc; subst A' T; now rewrite <- !app_assoc).
    assert (Hmv : (if end_ =? m_len s then Ok (m_mem s) else mmove (m_mem s) start end_ (m_len s - end_))
                  = Ok (A' ++ T ++ zdrop (zlen T) (R ++ T) ++ junk)).
    { rewrite Hm0. destruct (end_ =? m_len s) eqn:E6.
      - zb. assert (T = []) as -> by (destruct T; [reflexivity|rewrite zlen_cons in HT; pose proof (zlen_nonneg T); lia]).
        cbn [app]. change (zlen (@nil Z)) with 0. rewrite app_nil_r. reflexivity.
      - rewrite <- HT. replace end_ with (zlen A' + zlen R) by (subst k; lia). rewrite <- HA'. apply mmove_down. }
    rewrite Hmv. cbn [obind].
    set (H' := zdrop (zlen T) (R ++ T)).
    unfold realloc. cbn [set_mem m_len m_mem m_grow m_refuse].
    destruct (m_len s <? m_len s - k) eqn:E7; [zb; lia|]. cbn [andb].
    unfold m_cap. cbn [set_mem m_mem m_len m_grow m_refuse].
    destruct (zlen (A' ++ T ++ H' ++ junk) <? m_len s - k) eqn:E8.
    { zb. rewrite !zlen_app in E8. pose proof (zlen_nonneg H'). pose proof (zlen_nonneg junk). pose proof (zlen_nonneg T). lia. }
    cbn [obind m_mem].
    assert (Hmem2 : A' ++ T ++ H' ++ junk = [] ++ P0 ++ (A ++ B) ++ Q ++ H' ++ junk).
    { subst A' T. cbn [app]. now rewrite <- !app_assoc. }
    rewrite Hmem2.
    destruct (notify_inside_plain pi t true v top X xv xv' (- k) (A ++ B) [] (H' ++ junk) Hpl Hok Hwf Hres Hpos HL) as (p' & Hn & HL'); try lia.
    { rewrite HARB, !zlen_app. subst k. lia. }
    { rewrite HARB, !zlen_app. subst k. lia. }
    change (zlen (@nil Z)) with 0 in Hn. fold ax P0 Q in Hn. rewrite Hn. cbn [obind].
    eexists _, p', (H' ++ junk).
    split; [reflexivity|]. cbn [set_mem m_mem m_len m_refuse app].
    repeat split; auto.
    unfold m_cap. cbn [set_mem m_mem]. rewrite Hmem. rewrite !zlen_app, (hctx_fst_len t v pi (- k)). fold P0.
    assert (zlen H' = k).
    { subst H'. rewrite zlen_zdrop by (rewrite zlen_app; pose proof (zlen_nonneg T); subst k; lia). rewrite zlen_app. subst k. lia. }
    rewrite Hold. lia.
  Qed.
End resize_any.

(* ---------------------------------------------------------------------------------------------- *)
(* UnsizedType::data_len through a layout is the encoded size                                      *)
Fixpoint data_len_fields (ts : list ty) (m : list Z) (ps : list ptr) : out Z :=
  match ts, ps with
  | t :: ts', q :: ps' => do a <- data_len t m q; do b <- data_len_fields ts' m ps'; Ok (a + b)
  | _, _ => Ok 0
  end.

Lemma data_len_struct ts m ps : data_len (TStruct ts) m (PStruct ps) = data_len_fields ts m ps.
Proof.
  cbn [data_len]. revert ps. induction ts as [|t ts IH]; intros [|q ps]; try reflexivity.
  cbn [data_len_fields]. destruct (data_len t m q) as [a| | |]; cbn [obind]; try reflexivity.
  now rewrite IH.
Qed.

Definition dl_stmt (X : ty) : Prop :=
  forall xv pre post node, plain X = true -> wf X xv = true -> Lay X xv (zlen pre) node ->
    data_len X (pre ++ encode X xv ++ post) node = Ok (zlen (encode X xv)).

Lemma data_len_Lay_all : forall X, dl_stmt X.
Proof.
  induction X as [cc|cc lw| |it k IH|ts IH|rw vs IH] using ty_ind'; intros xv pre post node Hpl Hwf HL.
  - destruct xv as [bs| | | |]; try (cbn in Hwf; discriminate). destruct node as [a0| | | | |]; try (cbn [Lay] in HL; contradiction).
    cbn [wf] in Hwf. zb.
    match goal with H : (_ =? _)%nat = true |- _ => apply Nat.eqb_eq in H; rename H into Hl end.
    cbn [data_len encode]. f_equal. unfold zlen. lia.
  - destruct xv as [|items| | |]; try (cbn in Hwf; discriminate). destruct node as [|a0 bl| | | |]; try (cbn [Lay] in HL; contradiction).
    cbn [Lay] in HL. destruct HL as [_ ->].
    cbn [wf] in Hwf. apply andb_true_iff in Hwf as [_ Hit]. destruct (wf_list_items _ _ Hit) as [Hlen _].
    cbn [data_len encode]. rewrite zlen_app, zlen_le_bytes, (zlen_concat_fixed _ _ Hlen). f_equal. lia.
  - destruct xv as [bs| | | |]; try (cbn in Hwf; discriminate). destruct node as [| |a0 l| | |]; try (cbn [Lay] in HL; contradiction).
    cbn [Lay] in HL. destruct HL as [_ ->]. reflexivity.
  - destruct xv as [| |items| |]; try (cbn in Hwf; discriminate).
    destruct node as [| | |a0 n inner pmb rs re| |]; try (cbn [Lay] in HL; contradiction).
    cbn [Lay] in HL. destruct HL as (-> & -> & _).
    pose proof (ulist_facts _ _ _ Hwf) as F. pose proof (zlen_encode_ulist _ _ _ F) as Hsz.
    pose proof (uf_usz _ _ _ F) as Hu.
    assert (Hrd : rd32 (pre ++ encode (TUList it k) (VUList items) ++ post) (zlen pre) = Ok (zsum (usizes it items))).
    { rewrite encode_ulist, <- !app_assoc. apply rd32_mid; [reflexivity|exact Hu]. }
    cbn [data_len]. rewrite Hrd. cbn [obind]. rewrite Hsz. f_equal. lia.
  - destruct xv as [| | |vs0|]; try (cbn in Hwf; discriminate).
    destruct node as [| | | |ps|]; try (cbn [Lay] in HL; contradiction).
    rewrite Lay_struct in HL. rewrite data_len_struct.
    change (encode (TStruct ts) (VStruct vs0)) with (encs ts vs0).
    revert vs0 ps pre Hpl Hwf HL. induction IH as [|t ts Ht _ IHts]; intros vs0 ps pre Hpl Hwf HL.
    + destruct vs0; [|cbn in Hwf; discriminate]. destruct ps; [|contradiction]. reflexivity.
    + destruct vs0 as [|v vs0]; [cbn in Hwf; discriminate|]. destruct ps as [|q ps]; [contradiction|].
      rewrite wf_struct_cons in Hwf. apply andb_true_iff in Hwf as [Hv Hvs].
      rewrite plain_struct_cons in Hpl. apply andb_true_iff in Hpl as [Hp1 Hp2].
      cbn [Lay_fields] in HL. destruct HL as [HLq HLr].
      rewrite encs_cons, <- app_assoc. cbn [data_len_fields].
      rewrite (Ht v pre (encs ts vs0 ++ post) q Hp1 Hv HLq). cbn [obind].
      specialize (IHts vs0 ps (pre ++ encode t v) Hp2 Hvs).
      rewrite zlen_app, <- app_assoc in IHts. rewrite (IHts HLr). cbn [obind]. rewrite zlen_app. reflexivity.
  - destruct xv as [| | | |d pv]; try (cbn in Hwf; discriminate).
    destruct node as [| | | | |st d' q]; try (cbn [Lay] in HL; contradiction).
    apply Lay_enum in HL. destruct HL as (-> & -> & vt' & Hf' & HLq).
    destruct (wf_enum_inv _ _ _ _ Hwf) as (Hd & vt & Hf & Hp). rewrite Hf in Hf'. injection Hf' as <-.
    pose proof (plain_enum_find _ _ _ _ Hpl Hf) as Hplv.
    enum_ih IH Hf IHv.
    rewrite data_len_enum, Hf, (encode_enum_some _ _ _ _ _ Hf), <- app_assoc.
    specialize (IHv pv (pre ++ le_bytes rw d) post q Hplv Hp).
    rewrite zlen_app, zlen_le_bytes, <- app_assoc in IHv. rewrite (IHv HLq). cbn [obind].
    rewrite zlen_app, zlen_le_bytes. reflexivity.
Qed.

Lemma data_len_Lay : forall X xv pre post node, plain X = true -> wf X xv = true -> Lay X xv (zlen pre) node ->
  data_len X (pre ++ encode X xv ++ post) node = Ok (zlen (encode X xv)).
Proof. exact data_len_Lay_all. Qed.

(* ---------------------------------------------------------------------------------------------- *)
(* UnsizedType::start_ptr through a layout: the machine takes a struct's start from its FIRST field and gives an
   empty struct the start 0 (Machine.start_of), so the start address of a value is the address it is laid out at
   exactly for the shapes whose chain of first fields ends in a non-struct                          *)
Fixpoint headed (t : ty) : bool :=
  match t with
  | TStruct ts => match ts with [] => false | f :: _ => headed f end
  | _ => true      (* an enum's start pointer is the address of its discriminant *)
  end.

Lemma start_of_Lay : forall X xv a node, headed X = true -> Lay X xv a node -> start_of node = a.
Proof.
  induction X as [cc|cc lw| |it k IH|ts IH|rw vs IH] using ty_ind'; intros xv a node Hh HL.
  - destruct xv, node; cbn [Lay] in HL; try contradiction. cbn [start_of]. exact HL.
  - destruct xv, node; cbn [Lay] in HL; try contradiction. cbn [start_of]. exact (proj1 HL).
  - destruct xv, node; cbn [Lay] in HL; try contradiction. cbn [start_of]. exact (proj1 HL).
  - destruct xv, node; cbn [Lay] in HL; try contradiction. cbn [start_of]. exact (proj1 HL).
  - destruct xv as [| | |vs0|]; try (destruct node; cbn [Lay] in HL; contradiction).
    destruct node as [| | | |ps|]; try (cbn [Lay] in HL; contradiction).
    rewrite Lay_struct in HL. destruct ts as [|f ts]; [discriminate|].
    destruct vs0 as [|v vs0]; [contradiction|]. destruct ps as [|q ps]; [contradiction|].
    cbn [Lay_fields] in HL. destruct HL as [HLq _]. cbn [headed] in Hh. cbn [start_of].
    apply Forall_cons_iff in IH as [Hf _]. exact (Hf v a q Hh HLq).
  - destruct xv as [| | | |d pv]; try (destruct node; cbn [Lay] in HL; contradiction).
    destruct node as [| | | | |st d' q]; try (cbn [Lay] in HL; contradiction).
    apply Lay_enum in HL. destruct HL as (-> & _). reflexivity.
Qed.

(* the counterexample that makes `headed` necessary: a struct whose first field is an empty struct *)
Example start_of_empty_head :
  let X := TStruct [TStruct []; TFixed (FAny 1)] in
  let xv := VStruct [VStruct []; VBytes [7]] in
  Lay X xv 5 (lay0 X xv 5) /\ start_of (lay0 X xv 5) = 0 /\ 0 < zlen (encode X xv).
Proof. vm_compute. repeat split; reflexivity. Qed.

(* ---------------------------------------------------------------------------------------------- *)
Section gset.
  Variables (pi : list step) (t : ty) (v : val) (X : ty) (xv xv' : val).
  Hypothesis Hres : resolve t v pi = Some (X, xv).
  Hypothesis Hpos : 0 < zlen (encode X xv).

  Let Q := snd (hctx t v pi 0).
  Let ax := addr_of t v pi 0.

  (* the three-way resize of set_data_inner *)
  Lemma set_data_resize s top :
    RepF pi t v s top -> m_refuse s <> 1 -> m_len s + (zlen (encode X xv') - zlen (encode X xv)) <= m_cap s ->
    exists s1 top1 H J,
      (if zlen (encode X xv) <? zlen (encode X xv') then add_bytes t s top ax ax (zlen (encode X xv') - zlen (encode X xv))
       else if zlen (encode X xv) =? zlen (encode X xv') then Ok (s, top)
       else remove_bytes t s top ax ax (ax + (zlen (encode X xv) - zlen (encode X xv')))) = Ok (s1, top1) /\
      m_mem s1 = fst (hctx t v pi (zlen (encode X xv') - zlen (encode X xv))) ++ H ++ Q ++ J /\
      zlen H = zlen (encode X xv') /\
      m_len s1 = m_len s + (zlen (encode X xv') - zlen (encode X xv)) /\ m_cap s1 = m_cap s /\ m_refuse s1 = m_refuse s /\
      LayP ETrue pi t (plug t v pi xv') 0 top1.
  Proof.
    intros R Hnref Hroom.
    destruct (zlen (encode X xv) <? zlen (encode X xv')) eqn:E1; zb.
    - (* grow at the start of the value *)
      destruct (add_bytes_inside_any pi t v X xv xv' Hres Hpos s top [] (encode X xv)
                  (zlen (encode X xv') - zlen (encode X xv)) R eq_refl ltac:(lia) ltac:(lia) Hnref Hroom)
        as (s1 & top1 & G & J & Hadd & Hmem1 & HG & Hlen1 & Hcap1 & Href1 & HL1).
      change (zlen (@nil Z)) with 0 in Hadd. rewrite Z.add_0_r in Hadd. fold ax in Hadd.
      exists s1, top1, (G ++ encode X xv), J.
      split; [exact Hadd|]. split; [exact Hmem1|]. split; [rewrite zlen_app; lia|].
      repeat split; assumption.
    - destruct (zlen (encode X xv) =? zlen (encode X xv')) eqn:E2; zb.
      + (* same size: no resize *)
        destruct R as [Hpl Hok Hwf [junk Hmem] Hlen HL Hc32].
        exists s, top, (encode X xv), junk.
        replace (zlen (encode X xv') - zlen (encode X xv)) with 0 by lia.
        split; [reflexivity|].
        split; [rewrite Hmem, (hctx_encode _ _ _ _ _ Hres), <- !app_assoc; reflexivity|].
        split; [exact E2|]. split; [lia|]. split; [reflexivity|]. split; [reflexivity|].
        apply (LayP_plug_same Lay ETrue pi t v 0 top X xv xv' Hres); [lia| |exact HL].
        intros a node _. exact I.
      + (* shrink: the first cur - new bytes of the value go *)
        set (k := zlen (encode X xv) - zlen (encode X xv')).
        pose proof (zlen_nonneg (encode X xv')) as Hn0.
        assert (Hk : 0 <= k <= zlen (encode X xv)) by (subst k; lia).
        assert (HR : zlen (ztake k (encode X xv)) = k) by (apply zlen_ztake; exact Hk).
        assert (HB : zlen (zdrop k (encode X xv)) = zlen (encode X xv')) by (rewrite zlen_zdrop by exact Hk; subst k; lia).
        destruct (remove_bytes_inside_any pi t v X xv xv' Hres Hpos s top [] (ztake k (encode X xv)) (zdrop k (encode X xv)) R)
          as (s1 & top1 & J & Hrem & Hmem1 & Hlen1 & Hcap1 & Href1 & HL1).
        { cbn [app]. symmetry. apply ztake_zdrop. }
        { rewrite HR. subst k. lia. }
        { rewrite HR. subst k. lia. }
        change (zlen (@nil Z)) with 0 in Hrem. rewrite Z.add_0_r, HR in Hrem. fold ax in Hrem.
        rewrite HR in Hmem1, Hlen1. cbn [app] in Hmem1.
        replace (- k) with (zlen (encode X xv') - zlen (encode X xv)) in Hmem1 by (subst k; lia).
        exists s1, top1, (zdrop k (encode X xv)), J.
        split; [exact Hrem|]. split; [exact Hmem1|]. split; [exact HB|].
        split; [subst k; lia|]. repeat split; assumption.
  Qed.

  Hypothesis Hhd : headed X = true.
  Hypothesis HwfX' : wf X xv' = true.

  Theorem set_data_general_sec ovf s top :
    RepF pi t v s top -> m_refuse s <> 1 -> m_len s + (zlen (encode X xv') - zlen (encode X xv)) <= m_cap s ->
    exists s' top', set_data ovf t s top (mpath pi) (zlen (encode X xv')) (Ok (encode X xv')) = Ok (s', top', []) /\
                    RepF pi t (plug t v pi xv') s' top' /\ m_cap s' = m_cap s /\ m_refuse s' = m_refuse s.
  Proof.
    intros R Hnref Hroom.
    pose proof (repf_cap _ _ _ _ _ R) as Hcap.
    destruct (set_data_resize s top R Hnref Hroom) as (s1 & top1 & H & J & Hrs & Hmem1 & HH & Hlen1 & Hcap1 & Href1 & HL1).
    destruct R as [Hpl Hok Hwf [junk Hmem] Hlen HL Hc32].
    pose proof (resolve_plain _ _ _ _ _ Hpl Hres) as HplX.
    pose proof (resolve_wf _ _ _ _ _ Hwf Hres) as HwfX.
    destruct (resolve_ty_ok _ _ _ _ _ _ Hok Hres) as (l' & HokX & _).
    destruct (LayP_get_at Lay pi t v 0 top _ _ Hwf Hres HL) as (node & Hg & HE). fold ax in HE.
    pose proof (hctx_encode _ _ _ _ _ Hres) as Henc. fold Q in Henc.
    assert (Hax : ax = zlen (fst (hctx t v pi 0))) by (subst ax; unfold addr_of; lia).
    (* 1. locate, current length, start address *)
    assert (Hdl : data_len X (m_mem s) node = Ok (zlen (encode X xv))).
    { rewrite Hmem, Henc, <- !app_assoc. apply data_len_Lay; auto; rewrite <- Hax; exact HE. }
    pose proof (start_of_Lay X xv ax node Hhd HE) as Hst.
    unfold set_data, sub. rewrite Hg. cbn [obind]. rewrite Hdl. cbn [obind]. rewrite Hst.
    (* 2. the resize *)
    rewrite Hrs. cbn [obind].
    (* 3. the new bytes, the rebuilt pointer tree *)
    set (Pd := fst (hctx t v pi (zlen (encode X xv') - zlen (encode X xv)))) in *.
    assert (HPd : zlen Pd = ax) by (subst Pd; rewrite hctx_fst_len; lia).
    rewrite Hmem1.
    assert (Hw : wr (Pd ++ H ++ Q ++ J) ax (encode X xv') = Ok (Pd ++ encode X xv' ++ Q ++ J))
      by (apply wr_mid'; [now rewrite HPd|now rewrite HH]).
    rewrite Hw. cbn [obind].
    assert (Hgp : get_ptr ovf X (Pd ++ encode X xv' ++ Q ++ J) ax (zlen (encode X xv'))
                  = Ok (lay0 X xv' ax, zlen (encode X xv'))).
    { pose proof (get_ptr_lay0 ovf X l' xv' Pd (Q ++ J) 0 HplX HokX HwfX' ltac:(lia) (fun _ => eq_refl) (zlen_nonneg _)) as G.
      rewrite Z.add_0_r, HPd in G. exact G. }
    rewrite Hgp. cbn [obind].
    (* 4. the new state *)
    pose proof (resolve_plug t v pi _ _ xv' Hres) as Hres'.
    pose proof (hctx_plug_len t v pi _ _ xv' Hres) as Hlen'.
    assert (Henc' : encode t (plug t v pi xv') = Pd ++ encode X xv' ++ Q) by (subst Pd Q; exact (hctx_plug t v pi _ _ xv' Hres)).
    assert (Hwf' : wf t (plug t v pi xv') = true).
    { apply (wf_plug t v pi _ _ xv' Hwf Hres HwfX'). rewrite Hlen'. unfold m_cap in *. lia. }
    assert (Hax' : addr_of t (plug t v pi xv') pi 0 = ax) by (subst ax; eapply addr_of_plug; eauto).
    assert (Hcap' : zlen (Pd ++ encode X xv' ++ Q ++ J) = zlen (m_mem s)).
    { unfold m_cap in Hcap1. rewrite <- Hcap1, Hmem1, !zlen_app, HH. reflexivity. }
    eexists _, _. split; [reflexivity|].
    split; [|split; [unfold m_cap; cbn [set_mem m_mem]; exact Hcap'|cbn [set_mem m_refuse]; exact Href1]].
    constructor; cbn [set_mem m_mem m_len]; auto.
    - exists J. rewrite Henc', <- !app_assoc. reflexivity.
    - rewrite Hlen1, Hlen, Hlen'. reflexivity.
    - apply (LayP_set_at ETrue Lay pi t (plug t v pi xv') 0 top1 _ _ _ Hwf' Hres' HL1). rewrite Hax'.
      apply lay0_Lay; assumption.
    - unfold m_cap in *. cbn [set_mem m_mem]. rewrite Hcap'. exact Hc32.
  Qed.
End gset.

(* whole-value replacement at any path refines assignment on the owned model *)
Theorem set_data_general ovf pi t v X xv xv' s top :
  resolve t v pi = Some (X, xv) -> headed X = true -> wf X xv' = true -> 0 < zlen (encode X xv) ->
  RepF pi t v s top -> m_refuse s <> 1 -> m_len s + (zlen (encode X xv') - zlen (encode X xv)) <= m_cap s ->
  exists s' top', set_data ovf t s top (mpath pi) (zlen (encode X xv')) (Ok (encode X xv')) = Ok (s', top', []) /\
                  RepF pi t (plug t v pi xv') s' top' /\ m_cap s' = m_cap s /\ m_refuse s' = m_refuse s.
Proof.
  intros Hres Hhd HwfX' Hpos R Hnref Hroom.
  exact (set_data_general_sec pi t v X xv xv' Hres Hpos Hhd HwfX' ovf s top R Hnref Hroom).
Qed.

(* the form the interpreter issues it in (Run.v: `set_data ovf t s top ps (byte_size tc v) (Ok (encode tc v))`) *)
Corollary set_data_general_byte_size ovf pi t v X xv xv' s top :
  resolve t v pi = Some (X, xv) -> headed X = true -> wf X xv' = true -> 0 < zlen (encode X xv) ->
  RepF pi t v s top -> m_refuse s <> 1 -> m_len s + (byte_size X xv' - zlen (encode X xv)) <= m_cap s ->
  exists s' top', set_data ovf t s top (mpath pi) (byte_size X xv') (Ok (encode X xv')) = Ok (s', top', []) /\
                  RepF pi t (plug t v pi xv') s' top' /\ m_cap s' = m_cap s /\ m_refuse s' = m_refuse s.
Proof.
  intros Hres Hhd HwfX' Hpos R Hnref Hroom. rewrite <- (encode_size X xv' HwfX') in *.
  exact (set_data_general ovf pi t v X xv xv' s top Hres Hhd HwfX' Hpos R Hnref Hroom).
Qed.

(* sanity, on a concrete state: the value at the end of the path is an enum (headed), and it is replaced by a value of
   a DIFFERENT variant of a different size (3 payload bytes shrink to none, then grow to 4): the machine's memory is the
   encoding of the plugged value and the pointer tree is its canonical layout *)
Example set_data_enum_switch :
  let X := TEnum 1 [(0, TStruct []); (3, TList (FAny 1) 1); (7, TStruct [TFixed (FAny 2); TList (FAny 1) 1])] in
  let t := TStruct [TFixed (FAny 1); X; TList (FAny 1) 1] in
  let v := VStruct [VBytes [9]; VEnum 3 (VList [[5]; [6]]); VList [[7]]] in
  let x1 := VEnum 0 (VStruct []) in
  let x2 := VEnum 7 (VStruct [VBytes [1; 2]; VList [[8]]]) in
  let s := mkMach (encode t v ++ [0; 0; 0; 0]) (zlen (encode t v)) 0 0 in
  headed X = true /\
  match get_ptr true t (m_mem s) 0 (m_len s) with
  | Ok (top, _) =>
      match set_data true t s top [PF 1] (byte_size X x1) (Ok (encode X x1)) with
      | Ok (s1, top1, []) =>
          ztake (m_len s1) (m_mem s1) = encode t (plug t v [SF 1] x1) /\ top1 = lay0 t (plug t v [SF 1] x1) 0 /\
          match set_data true t s1 top1 [PF 1] (byte_size X x2) (Ok (encode X x2)) with
          | Ok (s2, top2, []) =>
              ztake (m_len s2) (m_mem s2) = encode t (plug t v [SF 1] x2) /\ top2 = lay0 t (plug t v [SF 1] x2) 0
          | _ => False
          end
      | _ => False
      end
  | _ => False
  end.
Proof. vm_compute. repeat split; reflexivity. Qed.

Print Assumptions set_data_general.
Print Assumptions set_data_general_byte_size.
