(* Histories of list operations at ANY nesting depth: the pointer machine (descent through get_mut / get_exclusive
   at every list of unsized elements on the way, then List::insert_all / remove_range) refines the owned model
   (Vec::splice / Vec::drain on the sub-value the path leads to), for every enum-free shape, every value, every
   path and every finite history.  Every reachable state is observably the owned model's value. *)
From SF Require Import Base.Prelude Gen.Generated Unsized.Types Unsized.Parse Unsized.Machine Unsized.Ops.
From SF Require Import Unsized.Proofs.EncodeParse Unsized.Proofs.Mem Unsized.Proofs.Notify Unsized.Proofs.Flat Unsized.Proofs.Layout
  Unsized.Proofs.Observe Unsized.Proofs.Table Unsized.Proofs.Path Unsized.Proofs.Context Unsized.Proofs.Context2 Unsized.Proofs.Focus
  Unsized.Proofs.Pos Unsized.Proofs.FocusOps Unsized.Proofs.NotifyInside Unsized.Proofs.Resize Unsized.Proofs.GenOps.
From SF Require Import Unsized.Proofs.EnumFacts.

Arguments Z.add : simpl never.
Arguments Z.sub : simpl never.
Arguments Z.mul : simpl never.
Arguments Z.of_nat : simpl never.
Arguments Z.pow : simpl never.
Arguments Z.modulo : simpl never.

(* ---------------------------------------------------------------------------------------------- *)
(* the machine's descent: struct fields are static; at a list of unsized elements the element's range is read
   from the offset table and the element is entered (exactly Run.exec's code 1) *)
Fixpoint menter (ovf : bool) (t : ty) (s : mach) (top : ptr) (ps : list pos) (pi : list step) {struct pi} : out ptr :=
  match pi with
  | [] => Ok top
  | SF i :: r => menter ovf t s top (ps ++ [PF i]) r
  | SE i :: r =>
      do ' (tc, pc) <- sub t top ps;
      match tc, pc with
      | TUList it k, PUList a n _ _ _ _ =>
          do rg <- ulist_range k (m_mem s) a n (Z.of_nat i);
          match rg with
          | None => Err E_INDEX
          | Some (st, _) => do top1 <- ulist_enter ovf t s top ps st; menter ovf t s top1 (ps ++ [PI]) r
          end
      | _, _ => Panic
      end
  | SV :: r => menter ovf t s top (ps ++ [PV]) r      (* the live variant's payload: static *)
  end.

Lemma resolve_app : forall p r t v X xv, resolve t v (p ++ r) = Some (X, xv) ->
  exists tc vc, resolve t v p = Some (tc, vc) /\ resolve tc vc r = Some (X, xv).
Proof.
  induction p as [|st p IH]; intros r t v X xv H; [exists t, v; split; [reflexivity|exact H]|].
  cbn [app] in H. destruct st as [i|i|]; cbn [resolve] in *.
  - destruct t as [| | | |ts|]; try discriminate. destruct v as [| | |vs|]; try discriminate.
    destruct (nth_error ts i); [|discriminate]. destruct (nth_error vs i); [|discriminate]. now apply IH.
  - destruct t as [| | |it k| |]; try discriminate. destruct v as [| |items| |]; try discriminate.
    destruct (nth_error items i); [|discriminate]. now apply IH.
  - destruct t as [| | | | |rw vars]; try discriminate. destruct v as [| | | |d pv]; try discriminate.
    destruct (find_variant d vars); [|discriminate]. now apply IH.
Qed.

Lemma resolve_app_eq : forall p r t v tc vc, resolve t v p = Some (tc, vc) -> resolve t v (p ++ r) = resolve tc vc r.
Proof.
  induction p as [|st p IH]; intros r t v tc vc H.
  - cbn [resolve] in H. injection H as -> ->. reflexivity.
  - cbn [app]. destruct st as [i|i|]; cbn [resolve] in *.
    + destruct t as [| | | |ts|]; try discriminate. destruct v as [| | |vs|]; try discriminate.
      destruct (nth_error ts i); [|discriminate]. destruct (nth_error vs i); [|discriminate]. now apply IH.
    + destruct t as [| | |it k| |]; try discriminate. destruct v as [| |items| |]; try discriminate.
      destruct (nth_error items i); [|discriminate]. now apply IH.
    + destruct t as [| | | | |rw vars]; try discriminate. destruct v as [| | | |d pv]; try discriminate.
      destruct (find_variant d vars); [|discriminate]. now apply IH.
Qed.

Lemma mpath_app p r : mpath (p ++ r) = mpath p ++ mpath r.
Proof. unfold mpath. apply map_app. Qed.

Lemma repf_refocus pi pi' t v s top top' : RepF pi t v s top -> LayP Lay pi' t v 0 top' -> RepF pi' t v s top'.
Proof. intros [? ? ? ? ? ? ?] H. constructor; auto. Qed.

Lemma menter_ok ovf : forall r pre t v s top X xv,
  RepF pre t v s top -> resolve t v (pre ++ r) = Some (X, xv) ->
  exists top', menter ovf t s top (mpath pre) r = Ok top' /\ RepF (pre ++ r) t v s top'.
Proof.
  induction r as [|st r IH]; intros pre t v s top X xv R Hres.
  - exists top. rewrite app_nil_r. split; [reflexivity|exact R].
  - destruct (resolve_app pre (st :: r) t v X xv Hres) as (tc & vc & Hpre & Hrest).
    pose proof R as [Hpl Hok Hwf [junk Hmem] Hlen HL Hc32].
    replace (pre ++ st :: r) with ((pre ++ [st]) ++ r) in * by (now rewrite <- app_assoc).
    destruct st as [i|i|]; cbn [menter resolve] in *.
    + destruct tc as [| | | |ts|]; try discriminate. destruct vc as [| | |vs|]; try discriminate.
      destruct (nth_error ts i) as [ti|] eqn:Et; [|discriminate]. destruct (nth_error vs i) as [vi|] eqn:Ev; [|discriminate].
      pose proof (LayP_extend_SF pre t v 0 top ts vs i ti vi Hwf Hpre Et Ev HL) as HL'.
      destruct (IH (pre ++ [SF i]) t v s top X xv (repf_refocus _ _ _ _ _ _ _ R HL') Hres) as (top' & Hm & R').
      exists top'. rewrite mpath_app in Hm. split; [exact Hm|exact R'].
    + destruct tc as [| | |it k| |]; try discriminate. destruct vc as [| |items| |]; try discriminate.
      destruct (nth_error items i) as [kv|] eqn:En; [|discriminate].
      destruct (LayP_get_at Lay pre t v 0 top _ _ Hwf Hpre HL) as (node & Hg & HE).
      destruct node as [| | |a n inner pmb rs re| |]; try (cbn in HE; contradiction).
      unfold sub. rewrite Hg. cbn [obind].
      rewrite Hmem.
      rewrite (ulist_range_elem pre t v top it k items i kv junk Hpl Hwf Hpre En HL a n inner pmb rs re Hg). cbn [obind].
      destruct (ulist_enter_LayP ovf pre t true v s top it k items i kv junk Hpl Hok Hwf Hpre En HL Hmem) as (top1 & He & HL1).
      rewrite He. cbn [obind].
      destruct (IH (pre ++ [SE i]) t v s top1 X xv (repf_refocus _ _ _ _ _ _ _ R HL1) Hres) as (top' & Hm & R').
      exists top'. rewrite mpath_app in Hm. split; [exact Hm|exact R'].
    + destruct tc as [| | | | |rw vars]; try discriminate. destruct vc as [| | | |d pv]; try discriminate.
      destruct (find_variant d vars) as [vt|] eqn:Ef; [|discriminate].
      pose proof (LayP_extend_SV pre t v 0 top rw vars d pv vt Hwf Hpre Ef HL) as HL'.
      destruct (IH (pre ++ [SV]) t v s top X xv (repf_refocus _ _ _ _ _ _ _ R HL') Hres) as (top' & Hm & R').
      exists top'. rewrite mpath_app in Hm. split; [exact Hm|exact R'].
Qed.

(* ---------------------------------------------------------------------------------------------- *)
(* operations, owned model, machine                                                                *)
Inductive gop :=
| GInsert (pi : list step) (idx : Z) (new : list (list Z))     (* the list at pi: Vec::splice(idx..idx, new) *)
| GRemove (pi : list step) (st en : Z).                        (* the list at pi: Vec::drain(st..en) *)

(* Some = the operation succeeds with this new value; None = it fails (value unchanged) *)
Definition ostepG (cap : Z) (t : ty) (v : val) (o : gop) : option val :=
  match o with
  | GInsert pi idx new =>
      match resolve t v pi with
      | Some (TList c lw, VList items) =>
          if (0 <=? idx) && (idx <=? zlen items) && negb (zlen new =? 0) && forallb (item_okb c) new
             && (zlen items + zlen new <? 256 ^ Z.of_nat lw)
             && (Z.of_nat (fsize c) * (zlen items + zlen new) <? U64_LIMIT)
             && (zlen (encode t v) + Z.of_nat (fsize c) * zlen new <=? cap)
          then Some (plug t v pi (VList (firstn (Z.to_nat idx) items ++ new ++ skipn (Z.to_nat idx) items)))
          else None
      | _ => None
      end
  | GRemove pi st en =>
      match resolve t v pi with
      | Some (TList c lw, VList items) =>
          if (0 <=? st) && (st <? en) && (en <=? zlen items)
          then Some (plug t v pi (VList (firstn (Z.to_nat st) items ++ skipn (Z.to_nat en) items)))
          else None
      | _ => None
      end
  end.

Definition mstepG (ovf : bool) (t : ty) (s : mach) (top : ptr) (o : gop) : out res :=
  match o with
  | GInsert pi idx new => do top1 <- menter ovf t s top [] pi; list_insert t s top1 (mpath pi) idx new
  | GRemove pi st en => do top1 <- menter ovf t s top [] pi; list_remove t s top1 (mpath pi) st en
  end.

Definition focus_of (o : gop) : list step := match o with GInsert pi _ _ | GRemove pi _ _ => pi end.

Lemma repf_unfocus pi t v s top : RepF pi t v s top -> RepF [] t v s top.
Proof.
  intros R. pose proof R as [Hpl Hok Hwf _ _ HL _]. apply (repf_refocus _ _ _ _ _ _ _ R).
  apply Lay_LayP_nil. apply (LayP_Lay pi); auto.
Qed.

Theorem gstep_refines ovf t v s top pi0 o v' :
  RepF pi0 t v s top -> m_refuse s <> 1 -> ostepG (m_cap s) t v o = Some v' ->
  exists s' top', mstepG ovf t s top o = Ok (s', top', []) /\ RepF (focus_of o) t v' s' top' /\
                  m_cap s' = m_cap s /\ m_refuse s' = m_refuse s.
Proof.
  intros R Hnr Ho. apply repf_unfocus in R. pose proof R as [_ _ _ _ Hlen _ _].
  destruct o as [pi idx new|pi st en]; cbn [ostepG mstepG focus_of] in *.
  - destruct (resolve t v pi) as [[[| c lw | | | |] [|items| | |]]|] eqn:Hres; try discriminate.
    match type of Ho with (if ?b then _ else _) = _ => destruct b eqn:Eb end; [|discriminate].
    injection Ho as <-. zb.
    destruct (menter_ok ovf pi [] t v s top _ _ R Hres) as (top1 & Hm & R1).
    cbn [app mpath map] in Hm, R1. rewrite Hm. cbn [obind].
    assert (Forall (item_ok c) new) as Hnew.
    { apply Forall_forall. intros it Hin. match goal with H : forallb _ new = true |- _ => rewrite forallb_forall in H; specialize (H it Hin) end.
      unfold item_okb in *. zb. match goal with H : (_ =? _)%nat = true |- _ => apply Nat.eqb_eq in H end. unfold item_ok. auto. }
    assert (new <> []) as Hne by (intros ->; change (zlen (@nil (list Z))) with 0 in *; lia).
    destruct (list_insert_general pi t v c lw items new idx Hres ltac:(lia) Hnew Hne ltac:(lia) ltac:(lia) s top1 R1 Hnr)
      as (s' & top' & Hs & R' & Hc & Hr); [rewrite Hlen; lia|].
    exists s', top'. auto.
  - destruct (resolve t v pi) as [[[| c lw | | | |] [|items| | |]]|] eqn:Hres; try discriminate.
    match type of Ho with (if ?b then _ else _) = _ => destruct b eqn:Eb end; [|discriminate].
    injection Ho as <-. zb.
    destruct (menter_ok ovf pi [] t v s top _ _ R Hres) as (top1 & Hm & R1).
    cbn [app mpath map] in Hm, R1. rewrite Hm. cbn [obind].
    destruct (list_remove_general pi t v c lw items st en Hres ltac:(lia) s top1 R1) as (s' & top' & Hs & R' & Hc & Hr).
    exists s', top'. auto.
Qed.

(* histories *)
Fixpoint orunG (cap : Z) (t : ty) (v : val) (h : list gop) : option val :=
  match h with
  | [] => Some v
  | o :: r => match ostepG cap t v o with Some v1 => orunG cap t v1 r | None => None end
  end.

Fixpoint mrunG (ovf : bool) (t : ty) (s : mach) (top : ptr) (h : list gop) : out (mach * ptr) :=
  match h with
  | [] => Ok (s, top)
  | o :: r => do ' (s1, top1, _) <- mstepG ovf t s top o; mrunG ovf t s1 top1 r
  end.

Theorem grun_refines ovf t : forall h v s top pi0 v',
  RepF pi0 t v s top -> m_refuse s <> 1 -> orunG (m_cap s) t v h = Some v' ->
  exists s' top' pi', mrunG ovf t s top h = Ok (s', top') /\ RepF pi' t v' s' top' /\ m_cap s' = m_cap s.
Proof.
  induction h as [|o h IH]; intros v s top pi0 v' R Hnr Ho.
  - cbn in Ho. injection Ho as <-. exists s, top, pi0. split; [reflexivity|]. split; [exact R|reflexivity].
  - cbn [orunG] in Ho. destruct (ostepG (m_cap s) t v o) as [v1|] eqn:E; [|discriminate].
    destruct (gstep_refines ovf t v s top pi0 o v1 R Hnr E) as (s1 & top1 & Hs & R1 & Hc & Hr).
    cbn [mrunG]. rewrite Hs. cbn [obind]. rewrite <- Hc in Ho.
    destruct (IH v1 s1 top1 _ v' R1 ltac:(congruence) Ho) as (s' & top' & pi' & Hm & R' & Hc').
    exists s', top', pi'. split; [exact Hm|]. split; [exact R'|congruence].
Qed.

(* ---------------------------------------------------------------------------------------------- *)
(* what is observable in a represented state, and borrowing                                        *)
Theorem repf_observable ovf pi t v s top :
  RepF pi t v s top ->
  owned_ptr ovf t (m_mem s) top = Ok v /\
  ztake (m_len s) (m_mem s) = encode t v /\
  m_len s = byte_size t v /\
  parse ovf t (ztake (m_len s) (m_mem s)) = Ok (v, m_len s) /\
  top_check s top = true.
Proof.
  intros R. pose proof (repf_top_check _ _ _ _ _ R) as Hchk.
  destruct R as [Hpl Hok Hwf [junk Hmem] Hlen HL Hc32].
  assert (ztake (m_len s) (m_mem s) = encode t v) as Hb by (rewrite Hmem, Hlen; apply ztake_app_exact).
  apply LayP_Lay in HL; auto.
  repeat split; auto.
  - rewrite Hmem. exact (owned_ptr_Lay ovf t true v top [] junk Hpl Hok Hwf HL).
  - rewrite Hlen. now apply encode_size.
  - rewrite Hb, Hlen, (encode_size _ _ Hwf). now apply parse_encode.
Qed.

Theorem repf_borrow ovf t v s :
  plain t = true -> ty_ok true t = true -> wf t v = true ->
  (exists junk, m_mem s = encode t v ++ junk) -> m_len s = zlen (encode t v) -> m_cap s < U32_LIMIT ->
  exists top, get_ptr ovf t (m_mem s) 0 (m_len s) = Ok (top, m_len s) /\ RepF [] t v s top.
Proof.
  intros Hpl Hok Hwf [junk Hmem] Hlen Hc32. exists (lay0 t v 0). split.
  - rewrite Hmem, Hlen.
    pose proof (get_ptr_lay0 ovf t true v [] junk 0 Hpl Hok Hwf ltac:(lia) ltac:(auto) ltac:(apply zlen_nonneg)) as H.
    cbn [app] in H. change (zlen (@nil Z)) with 0 in H. rewrite Z.add_0_r in H. exact H.
  - constructor; auto; [exists junk; exact Hmem|]. apply Lay_LayP_nil. now apply lay0_Lay.
Qed.

(* ---------------------------------------------------------------------------------------------- *)
(* failing operations at any depth (C06): the machine returns the owned model's error, nothing has been written,
   the state reached by the descent still represents the same value, and the history continues from it   *)
Definition oerrG (cap refuse : Z) (t : ty) (v : val) (o : gop) : option Z :=
  match o with
  | GInsert pi idx new =>
      match resolve t v pi with
      | Some (TList c lw, VList items) =>
          if zlen items <? idx then Some E_INDEX
          else if 256 ^ Z.of_nat lw <=? zlen items + zlen new then Some E_TOPRIM
          else if (0 <=? idx) && negb (zlen new =? 0)
                  && ((refuse =? 1) || (cap <? zlen (encode t v) + Z.of_nat (fsize c) * zlen new))
          then Some E_REALLOC else None
      | _ => None
      end
  | GRemove pi st en =>
      match resolve t v pi with
      | Some (TList c lw, VList items) =>
          if en <? st then Some E_RANGE else if zlen items <? en then Some E_INDEX else None
      | _ => None
      end
  end.

Definition mopG (t : ty) (s : mach) (top1 : ptr) (o : gop) : out res :=
  match o with
  | GInsert pi idx new => list_insert t s top1 (mpath pi) idx new
  | GRemove pi st en => list_remove t s top1 (mpath pi) st en
  end.

Theorem gstep_error ovf t v s top pi0 o code :
  RepF pi0 t v s top -> oerrG (m_cap s) (m_refuse s) t v o = Some code ->
  exists top1, menter ovf t s top [] (focus_of o) = Ok top1 /\ mopG t s top1 o = Err code /\
               RepF (focus_of o) t v s top1.
Proof.
  intros R He. apply repf_unfocus in R. pose proof R as [_ _ _ _ Hlen _ _].
  destruct o as [pi idx new|pi st en]; cbn [oerrG mopG focus_of] in *.
  - destruct (resolve t v pi) as [[[| c lw | | | |] [|items| | |]]|] eqn:Hres; try discriminate.
    destruct (menter_ok ovf pi [] t v s top _ _ R Hres) as (top1 & Hm & R1). cbn [app mpath map] in Hm, R1.
    exists top1. split; [exact Hm|]. split; [|exact R1].
    destruct (zlen items <? idx) eqn:E1.
    { injection He as <-. zb. eapply list_insert_index_error_g; eauto. }
    destruct (256 ^ Z.of_nat lw <=? zlen items + zlen new) eqn:E2.
    { injection He as <-. zb. eapply list_insert_prefix_error_g; eauto. }
    match type of He with (if ?b then _ else _) = _ => destruct b eqn:Eb end; [|discriminate].
    injection He as <-. zb.
    eapply list_insert_realloc_error_g; eauto; try lia.
    all: try (intros ->; change (zlen (@nil (list Z))) with 0 in *; lia).
    all: try (match goal with H : _ || _ = true |- _ => apply orb_true_iff in H; destruct H as [H|H]; zb end; [left; lia|right; lia]).
  - destruct (resolve t v pi) as [[[| c lw | | | |] [|items| | |]]|] eqn:Hres; try discriminate.
    destruct (menter_ok ovf pi [] t v s top _ _ R Hres) as (top1 & Hm & R1). cbn [app mpath map] in Hm, R1.
    exists top1. split; [exact Hm|]. split; [|exact R1].
    destruct (en <? st) eqn:E1.
    { injection He as <-. zb. eapply list_remove_range_error_g; eauto. }
    destruct (zlen items <? en) eqn:E2; [|discriminate].
    injection He as <-. zb. eapply list_remove_index_error_g; eauto.
Qed.

(* histories in which operations may fail: the owned model keeps its value on a failure, the machine keeps the
   state reached by the descent; every reachable state still represents the owned model's value *)
Inductive outcome := Done (v : val) | Failed (code : Z).

Definition ostepE (cap refuse : Z) (t : ty) (v : val) (o : gop) : option outcome :=
  match ostepG cap t v o with
  | Some v1 => if refuse =? 1 then None else Some (Done v1)
  | None => match oerrG cap refuse t v o with Some c => Some (Failed c) | None => None end
  end.

Fixpoint orunE (cap refuse : Z) (t : ty) (v : val) (h : list gop) : option (val * list (option Z)) :=
  match h with
  | [] => Some (v, [])
  | o :: r =>
      match ostepE cap refuse t v o with
      | Some (Done v1) => match orunE cap refuse t v1 r with Some (v', l) => Some (v', None :: l) | None => None end
      | Some (Failed c) => match orunE cap refuse t v r with Some (v', l) => Some (v', Some c :: l) | None => None end
      | None => None
      end
  end.

Fixpoint mrunE (ovf : bool) (t : ty) (s : mach) (top : ptr) (h : list gop) : out (mach * ptr * list (option Z)) :=
  match h with
  | [] => Ok (s, top, [])
  | o :: r =>
      do top1 <- menter ovf t s top [] (focus_of o);
      match mopG t s top1 o with
      | Ok (s1, top2, _) => do ' (s', top', l) <- mrunE ovf t s1 top2 r; Ok (s', top', None :: l)
      | Err c => do ' (s', top', l) <- mrunE ovf t s top1 r; Ok (s', top', Some c :: l)     (* Run.exec: efail s top1 c *)
      | Panic => Panic
      | Fault => Fault
      end
  end.

Lemma mstepG_split ovf t s top o : mstepG ovf t s top o = (do top1 <- menter ovf t s top [] (focus_of o); mopG t s top1 o).
Proof. destruct o; reflexivity. Qed.

Theorem grunE_refines ovf t : forall h v s top pi0 v' l,
  RepF pi0 t v s top -> m_refuse s <> 1 -> orunE (m_cap s) (m_refuse s) t v h = Some (v', l) ->
  exists s' top' pi', mrunE ovf t s top h = Ok (s', top', l) /\ RepF pi' t v' s' top'.
Proof.
  induction h as [|o h IH]; intros v s top pi0 v' l R Hnr Ho.
  - cbn in Ho. injection Ho as <- <-. exists s, top, pi0. split; [reflexivity|exact R].
  - cbn [orunE] in Ho. unfold ostepE in Ho.
    destruct (ostepG (m_cap s) t v o) as [v1|] eqn:E.
    + destruct (m_refuse s =? 1) eqn:Er; [zb; congruence|].
      destruct (gstep_refines ovf t v s top pi0 o v1 R Hnr E) as (s1 & top1 & Hs & R1 & Hc & Hr).
      destruct (orunE (m_cap s) (m_refuse s) t v1 h) as [[v'' l']|] eqn:E2; [|discriminate]. injection Ho as <- <-.
      rewrite <- Hc, <- Hr in E2.
      destruct (IH v1 s1 top1 _ v'' l' R1 ltac:(congruence) E2) as (s' & top' & pi' & Hm & R').
      rewrite mstepG_split in Hs. cbn [mrunE].
      destruct (menter ovf t s top [] (focus_of o)) as [tp| | |]; cbn [obind] in Hs |- *; try discriminate.
      rewrite Hs, Hm. cbn [obind]. exists s', top', pi'. split; [reflexivity|exact R'].
    + destruct (oerrG (m_cap s) (m_refuse s) t v o) as [c|] eqn:E1; [|discriminate].
      destruct (gstep_error ovf t v s top pi0 o c R E1) as (top1 & Hm1 & Hop & R1).
      destruct (orunE (m_cap s) (m_refuse s) t v h) as [[v'' l']|] eqn:E2; [|discriminate]. injection Ho as <- <-.
      destruct (IH v s top1 _ v'' l' R1 Hnr E2) as (s' & top' & pi' & Hm & R').
      cbn [mrunE]. rewrite Hm1. cbn [obind]. rewrite Hop, Hm. cbn [obind].
      exists s', top', pi'. split; [reflexivity|exact R'].
Qed.
