(* The resize notification for a container that sits INSIDE a value, at the end of a path through struct fields and
   elements of lists of unsized elements: every ancestor list header on the path is fixed (unsized_size and the offsets
   after the element the path goes through), every pointer located after the container is shifted, everything before it
   is left alone, and the container's own node is notified of its own resize. *)
From SF Require Import Base.Prelude Gen.Generated Unsized.Types Unsized.Parse Unsized.Machine Unsized.Ops.
From SF Require Import Unsized.Proofs.EncodeParse Unsized.Proofs.Mem Unsized.Proofs.Notify Unsized.Proofs.Flat Unsized.Proofs.Layout
  Unsized.Proofs.Table Unsized.Proofs.Path Unsized.Proofs.Context Unsized.Proofs.Focus Unsized.Proofs.Pos.
From SF Require Import Unsized.Proofs.EnumFacts.

Arguments Z.add : simpl never.
Arguments Z.sub : simpl never.
Arguments Z.mul : simpl never.
Arguments Z.of_nat : simpl never.
Arguments Z.pow : simpl never.
Arguments Z.modulo : simpl never.

(* the node the path ends in, after the notification: the old node of the old value, notified of its own resize *)
Definition EndNotified (xv : val) (c : Z) : ty -> val -> Z -> ptr -> Prop :=
  fun tX _ a node => exists node0, Lay tX xv a node0 /\ node = own_notify node0 c.

(* ---------------------------------------------------------------------------------------------- *)
(* a container notified of its own resize                                                          *)
Lemma notify_own X xv b node c m : container X = true -> Lay X xv b node ->
  notify X node b c m = Ok (own_notify node c, m).
Proof.
  destruct X as [cc|cc lw| |it k|ts|rw vars]; cbn [container]; try discriminate; intros _ HL;
    destruct xv as [bs|items|items|vs|d0 p0]; try (cbn [Lay] in HL; contradiction);
    destruct node as [a|a bl|a l|a n inner pmb rs re|fs|st d q]; try (cbn [Lay] in HL; contradiction);
    cbn [Lay] in HL.
  - destruct HL as [-> _]. cbn [notify own_notify]. rewrite Z.ltb_irrefl. reflexivity.
  - destruct HL as [-> _]. cbn [notify own_notify]. rewrite Z.ltb_irrefl, Z.eqb_refl. reflexivity.
  - destruct HL as (-> & _). cbn [notify own_notify]. rewrite Z.ltb_irrefl, Z.eqb_refl. reflexivity.
Qed.

(* ---------------------------------------------------------------------------------------------- *)
(* list helpers: a list split around its i-th element                                              *)
Lemma firstn_mid {A} (a : list A) x b i : length a = i -> firstn i (a ++ x :: b) = a.
Proof. intros <-. apply firstn_app_exact. Qed.

Lemma skipn_mid {A} (a : list A) x b i : length a = i -> skipn (S i) (a ++ x :: b) = b.
Proof.
  intros <-. change (a ++ x :: b) with (a ++ [x] ++ b). rewrite app_assoc.
  replace (S (length a)) with (length (a ++ [x])) by (rewrite app_length; cbn [length]; lia).
  apply skipn_app_exact.
Qed.

Lemma nth_error_mid {A} (a : list A) x b i : length a = i -> nth_error (a ++ x :: b) i = Some x.
Proof. intros <-. rewrite nth_error_app2 by lia. rewrite Nat.sub_diag. reflexivity. Qed.

Lemma firstn_bump l : forall i d, firstn i (bump i d l) = firstn i l.
Proof.
  induction l as [|y l IH]; intros i d; [now rewrite bump_nil|].
  destruct i as [|i]; [reflexivity|]. rewrite bump_cons_S. cbn [firstn]. now rewrite IH.
Qed.

(* ---------------------------------------------------------------------------------------------- *)
(* structs split around field i                                                                    *)
Lemma plain_struct_app a b : plain (TStruct (a ++ b)) = plain (TStruct a) && plain (TStruct b).
Proof.
  induction a as [|t a IH]; [reflexivity|]. cbn [app]. rewrite !plain_struct_cons, IH. now rewrite andb_assoc.
Qed.

(* every field before another one is in non-tail position *)
Lemma ty_ok_struct_prefix last tsA : forall t tsB,
  ty_ok last (TStruct (tsA ++ t :: tsB)) = true -> forallb (ty_ok false) tsA = true.
Proof.
  induction tsA as [|a tsA IH]; intros t tsB H; [reflexivity|].
  cbn [app] in H. destruct (tsA ++ t :: tsB) as [|x rest] eqn:E; [destruct tsA; discriminate|].
  rewrite ty_ok_struct_cons in H. apply andb_true_iff in H as [H1 H2].
  cbn [forallb]. rewrite H1. apply (IH t tsB). rewrite E. exact H2.
Qed.

(* a field that is followed by another one is in non-tail position *)
Lemma field_not_last last tsA : forall ti tsB,
  ty_ok last (TStruct (tsA ++ ti :: tsB)) = true -> tsB <> [] -> ty_ok false ti = true.
Proof.
  induction tsA as [|a tsA IH]; intros ti tsB H Hne.
  - cbn [app] in H. destruct tsB as [|t2 tsB]; [congruence|].
    rewrite ty_ok_struct_cons in H. now apply andb_true_iff in H as [H _].
  - cbn [app] in H. destruct (tsA ++ ti :: tsB) as [|x rest] eqn:E; [destruct tsA; discriminate|].
    rewrite ty_ok_struct_cons in H. apply andb_true_iff in H as [_ H2].
    apply (IH ti tsB); [rewrite E; exact H2|exact Hne].
Qed.

Lemma notify_fields_split3 tsA ti tsB psA q psB src c m : length tsA = length psA ->
  notify_fields (tsA ++ ti :: tsB) (psA ++ q :: psB) src c m =
  (do ' (a, m1) <- notify_fields tsA psA src c m;
   do ' (q', m2) <- notify ti q src c m1;
   do ' (b, m3) <- notify_fields tsB psB src c m2;
   Ok (a ++ q' :: b, m3)).
Proof.
  intros Hl. rewrite notify_fields_app by exact Hl.
  destruct (notify_fields tsA psA src c m) as [[a m1]| | |]; cbn [obind]; try reflexivity.
  cbn [notify_fields]. destruct (notify ti q src c m1) as [[q' m2]| | |]; cbn [obind]; try reflexivity.
  destruct (notify_fields tsB psB src c m2) as [[b m3]| | |]; reflexivity.
Qed.

(* the fields after the one the path goes through: shifted if there are any *)
Lemma notify_fields_behind tsB vsB psB bB src c m :
  plain (TStruct tsB) = true -> wf (TStruct tsB) (VStruct vsB) = true -> Lay_fields tsB vsB psB bB ->
  (tsB <> [] -> src < bB) ->
  notify_fields tsB psB src c m = Ok (map (shift c) psB, m).
Proof.
  intros Hpl Hwf HL Hlt. destruct tsB as [|t tsB].
  - destruct vsB; [|cbn in Hwf; discriminate]. destruct psB; [reflexivity|contradiction].
  - apply (notify_fields_shift (t :: tsB) vsB psB bB src c m Hpl Hwf HL). apply Hlt. discriminate.
Qed.

(* ---------------------------------------------------------------------------------------------- *)
(* a container reached through a type in non-tail position lies strictly inside it                 *)
Lemma inside_lt t v pi X xv :
  ty_ok false t = true -> wf t v = true -> resolve t v pi = Some (X, xv) -> container X = true ->
  0 < zlen (encode X xv) /\
  zlen (encode t v) = zlen (fst (hctx t v pi 0)) + zlen (encode X xv) + zlen (snd (hctx t v pi 0)).
Proof.
  intros Hok Hwf Hr Hc.
  destruct (resolve_ty_ok _ _ _ _ _ _ Hok Hr) as (l' & Hok' & Hl').
  assert (l' = false) as -> by (destruct l'; [discriminate (Hl' eq_refl)|reflexivity]).
  split; [exact (container_pos _ _ Hc Hok' (resolve_wf _ _ _ _ _ Hwf Hr))|].
  rewrite (hctx_encode _ _ _ _ _ Hr), !zlen_app. lia.
Qed.

(* ---------------------------------------------------------------------------------------------- *)
(* the header of a list of unsized elements                                                        *)
Lemma zlen_uhdr_eq (k : nat) sizes keys : length sizes = length keys -> Forall (fun key => length key = k) keys ->
  zlen (uhdr sizes keys) = 12 + zlen keys * (4 + Z.of_nat k).
Proof.
  intros Hl Hk. unfold uhdr. rewrite !zlen_app, !zlen_le_bytes.
  rewrite (zlen_offset_entries _ _ k); [|rewrite offsets_from_length; exact Hl|exact Hk].
  change (Z.of_nat 4) with 4. lia.
Qed.

Lemma rd32_uhdr pre sizes keys D : 0 <= zsum sizes < U32_LIMIT ->
  rd32 (pre ++ uhdr sizes keys ++ D) (zlen pre) = Ok (zsum sizes).
Proof. intros H. unfold uhdr. rewrite <- !app_assoc. apply rd32_mid; [reflexivity|exact H]. Qed.

(* offsets lie between the start and the end of the data; those from index j on, after the first j elements *)
Lemma offsets_bounds sizes : forall b, Forall (fun s => 0 <= s) sizes ->
  Forall (fun o => b <= o <= b + zsum sizes) (offsets_from b sizes).
Proof.
  induction sizes as [|s r IH]; intros b H; cbn [offsets_from]; [constructor|].
  apply Forall_cons_iff in H as [Hs Hr]. pose proof (zsum_nonneg _ Hr). cbn [zsum]. constructor; [lia|].
  eapply Forall_impl; [|exact (IH (b + s) Hr)]. cbn beta. intros o Ho. lia.
Qed.

Lemma offsets_skipn_bounds sizes : forall j b, Forall (fun s => 0 <= s) sizes ->
  Forall (fun o => b + zsum (firstn j sizes) <= o <= b + zsum sizes) (skipn j (offsets_from b sizes)).
Proof.
  induction sizes as [|s r IH]; intros j b H.
  - destruct j; cbn [offsets_from skipn]; constructor.
  - destruct j as [|j].
    + cbn [skipn firstn]. eapply Forall_impl; [|exact (offsets_bounds (s :: r) b H)]. cbn beta.
      intros o Ho. cbn [zsum] in *. lia.
    + apply Forall_cons_iff in H as [Hs Hr]. cbn [offsets_from skipn firstn zsum].
      eapply Forall_impl; [|exact (IH j (b + s) Hr)]. cbn beta. intros o Ho. lia.
Qed.

(* rewriting the header after element i changed size by c: unsized_size, then the offsets after i (located by
   searching the offset table for the position delta inside element i) *)
Lemma ulist_hdr_update (k : nat) pre sizes keys (i : nat) x delta c D :
  length sizes = length keys -> Forall (fun key => length key = k) keys ->
  Forall (fun s => 0 < s) sizes -> nth_error sizes i = Some x -> 0 <= delta < x ->
  zsum sizes < U32_LIMIT -> zsum sizes + c < U32_LIMIT -> 0 <= x + c -> zlen keys < U32_LIMIT ->
  exists m2,
    wr (pre ++ uhdr sizes keys ++ D) (zlen pre) (le_bytes 4 (zsum sizes + c)) = Ok m2 /\
    read_offsets m2 (zlen pre + 8) (4 + Z.of_nat k) (Z.to_nat (zlen keys)) 0 = Ok (offsets_from 0 sizes) /\
    adjust_offsets m2 (zlen pre + 8) (zlen keys) (4 + Z.of_nat k)
      (search_offsets (offsets_from 0 sizes) (zsum (firstn i sizes) + delta) 0) c
    = Ok (pre ++ uhdr (bump i c sizes) keys ++ D).
Proof.
  intros Hl Hk Hp Hn Hd Hu Huc Hxc Hnk.
  assert (Hnn : Forall (fun s => 0 <= s) sizes) by (eapply Forall_impl; [|exact Hp]; cbn beta; intros; lia).
  pose proof (search_offsets_inside sizes i x delta Hp Hn Hd) as Hs.
  pose proof (offsets_from_bump sizes i x c 0 Hn) as Hob.
  set (offs := offsets_from 0 sizes) in *.
  assert (Hlo : length offs = length keys) by (unfold offs; rewrite offsets_from_length; exact Hl).
  assert (Ho : Forall (fun o => 0 <= o < U32_LIMIT) offs).
  { eapply Forall_impl; [|exact (offsets_bounds sizes 0 Hnn)]. cbn beta. intros o Hoo. lia. }
  assert (Hc : Forall (fun o => 0 <= o + c < U32_LIMIT) (skipn (S i) offs)).
  { eapply Forall_impl; [|exact (offsets_skipn_bounds sizes (S i) 0 Hnn)]. cbn beta. intros o Hoo.
    rewrite (zsum_firstn_S _ _ _ Hn) in Hoo. pose proof (zsum_firstn_pos_nonneg sizes i Hp). lia. }
  set (A := pre ++ le_bytes 4 (zsum sizes + c) ++ le_bytes 4 (zlen keys)).
  set (B := le_bytes 4 (zlen keys) ++ D).
  assert (HzA : zlen A = zlen pre + 8).
  { unfold A. rewrite !zlen_app, !zlen_le_bytes. change (Z.of_nat 4) with 4. lia. }
  exists (A ++ concat (offset_entries offs keys) ++ B). split; [|split].
  - unfold uhdr, A, B. fold offs. rewrite <- !app_assoc. apply wr_mid'; [reflexivity|now rewrite !zlen_le_bytes].
  - rewrite <- HzA. replace (Z.to_nat (zlen keys)) with (length offs) by (rewrite Hlo; unfold zlen; lia).
    apply read_offsets_table; assumption.
  - rewrite <- HzA, Hs. replace (zlen keys) with (zlen offs) by (unfold zlen; now rewrite Hlo).
    replace (Z.of_nat i + 1) with (Z.of_nat (S i)) by lia.
    rewrite (adjust_offsets_table k A B offs keys (S i) c Hlo Hk Ho Hc).
    unfold uhdr, A, B. rewrite Hob, (zsum_bump _ _ _ _ Hn), <- !app_assoc. reflexivity.
Qed.

(* the "inside me" branch of the notification of a list of unsized elements *)
Lemma notify_ulist_inside it k a n q pmb rs re src c m usz q' m1 m2 offs m3 :
  a < src -> rd32 m a = Ok usz -> src < a + (8 + n * (4 + Z.of_nat k) + 4 + usz) ->
  notify it q src c m = Ok (q', m1) ->
  wr m1 a (le_bytes 4 (usz + c)) = Ok m2 ->
  read_offsets m2 (a + 8) (4 + Z.of_nat k) (Z.to_nat n) 0 = Ok offs ->
  n <> 0 ->
  adjust_offsets m2 (a + 8) n (4 + Z.of_nat k) (search_offsets offs (src - (a + 8 + n * (4 + Z.of_nat k) + 4)) 0) c = Ok m3 ->
  notify (TUList it k) (PUList a n (Some q) pmb rs re) src c m = Ok (PUList a n (Some q') pmb rs (re + c), m3).
Proof.
  intros Ha Hrd Hin Hq Hwr Hro Hn0 Hadj. cbn [notify].
  destruct (src <? a) eqn:E1; [zb; lia|]. destruct (src =? a) eqn:E2; [zb; lia|].
  rewrite Hrd. cbn [obind].
  destruct (src <? a + (8 + n * (4 + Z.of_nat k) + 4 + usz)) eqn:E3; [|zb; lia].
  rewrite Hq. cbn [obind]. rewrite Hwr. cbn [obind]. rewrite Hro. cbn [obind].
  destruct (n =? 0) eqn:E4; [zb; lia|]. rewrite Hadj. reflexivity.
Qed.

(* ---------------------------------------------------------------------------------------------- *)
Section Inside.
Variables (X : ty) (xv xv' : val) (c : Z) (h : list Z).
Hypothesis HcX : container X = true.
Hypothesis Hh : zlen h = zlen (encode X xv) + c.
Hypothesis Hx' : zlen (encode X xv') = zlen (encode X xv) + c.
Hypothesis Hnn : 0 <= zlen (encode X xv) + c.

Definition ni_stmt (pi : list step) : Prop :=
  forall t last v p pre post,
    plain t = true -> ty_ok last t = true -> wf t v = true ->
    resolve t v pi = Some (X, xv) ->
    LayP Lay pi t v (zlen pre) p ->
    zlen (encode t v) + c < U32_LIMIT ->
    exists p',
      notify t p (addr_of t v pi (zlen pre)) c (pre ++ fst (hctx t v pi 0) ++ h ++ snd (hctx t v pi 0) ++ post)
      = Ok (p', pre ++ fst (hctx t v pi c) ++ h ++ snd (hctx t v pi 0) ++ post)
      /\ LayP (EndNotified xv c) pi t (plug t v pi xv') (zlen pre) p'.

Lemma ni_nil : ni_stmt [].
Proof.
  intros t last v p pre post Hpl Hok Hwf Hr HL Hlt.
  cbn [resolve] in Hr. injection Hr as -> ->.
  cbn [LayP] in HL. unfold addr_of. cbn [hctx fst snd app plug LayP].
  change (zlen (@nil Z)) with 0. rewrite Z.add_0_r.
  exists (own_notify p c). split.
  - apply (notify_own X xv); assumption.
  - exists p. split; [exact HL|reflexivity].
Qed.

(* the struct step on an explicitly split struct *)
Lemma ni_SF_core tsA ti tsB vsA vi vsB psA q psB last r pre post :
  ni_stmt r ->
  length tsA = length vsA -> length tsA = length psA ->
  plain (TStruct (tsA ++ ti :: tsB)) = true -> ty_ok last (TStruct (tsA ++ ti :: tsB)) = true ->
  wf (TStruct (tsA ++ ti :: tsB)) (VStruct (vsA ++ vi :: vsB)) = true ->
  resolve ti vi r = Some (X, xv) ->
  Lay_fields tsA vsA psA (zlen pre) ->
  LayP Lay r ti vi (zlen pre + zlen (encs tsA vsA)) q ->
  Lay_fields tsB vsB psB (zlen pre + zlen (encs tsA vsA) + zlen (encode ti vi)) ->
  zlen (encs tsA vsA) + zlen (encode ti vi) + zlen (encs tsB vsB) + c < U32_LIMIT ->
  exists q',
    notify_fields (tsA ++ ti :: tsB) (psA ++ q :: psB) (zlen pre + zlen (encs tsA vsA) + zlen (fst (hctx ti vi r 0))) c
      (pre ++ (encs tsA vsA ++ fst (hctx ti vi r 0)) ++ h ++ (snd (hctx ti vi r 0) ++ encs tsB vsB) ++ post)
    = Ok (psA ++ q' :: map (shift c) psB,
          pre ++ (encs tsA vsA ++ fst (hctx ti vi r c)) ++ h ++ (snd (hctx ti vi r 0) ++ encs tsB vsB) ++ post)
    /\ LayP (EndNotified xv c) r ti (plug ti vi r xv') (zlen pre + zlen (encs tsA vsA)) q'
    /\ Lay_fields tsB vsB (map (shift c) psB) (zlen pre + zlen (encs tsA vsA) + zlen (encode ti (plug ti vi r xv'))).
Proof.
  intros IH HlA HlAp Hpl Hok Hwf Hr HLA HLq HLB Hlt.
  rewrite plain_struct_app, plain_struct_cons in Hpl.
  apply andb_true_iff in Hpl as [HplA Hpl]. apply andb_true_iff in Hpl as [Hpli HplB].
  rewrite (wf_struct_split3 _ _ _ _ _ _ HlA) in Hwf.
  apply andb_true_iff in Hwf as [HwA Hwf]. apply andb_true_iff in Hwf as [Hwi HwB].
  pose proof (ty_ok_struct_prefix _ _ _ _ Hok) as HokA.
  destruct (ty_ok_field _ _ (length tsA) ti Hok (nth_error_mid _ _ _ _ eq_refl)) as (li & Hoki & Hli).
  pose proof (zlen_nonneg (encs tsA vsA)) as HnA. pose proof (zlen_nonneg (encs tsB vsB)) as HnB.
  pose proof (zlen_nonneg (fst (hctx ti vi r 0))) as HnP. pose proof (zlen_nonneg (snd (hctx ti vi r 0))) as HnQ.
  destruct (IH ti li vi q (pre ++ encs tsA vsA) (encs tsB vsB ++ post) Hpli Hoki Hwi Hr) as (q' & Hnq & HLq').
  { rewrite zlen_app. exact HLq. }
  { lia. }
  unfold addr_of in Hnq. rewrite zlen_app in Hnq, HLq'. rewrite <- ?app_assoc in Hnq.
  exists q'. split; [|split].
  - rewrite notify_fields_split3 by exact HlAp. rewrite <- ?app_assoc.
    rewrite (notify_fields_past tsA vsA psA pre _ _ c HplA HokA HwA HLA) by lia. cbn [obind].
    rewrite Hnq. cbn [obind].
    rewrite (notify_fields_behind tsB vsB psB _ _ c _ HplB HwB HLB); [reflexivity|].
    intros Hne. pose proof (field_not_last _ _ _ _ Hok Hne) as Hf.
    destruct (inside_lt _ _ _ _ _ Hf Hwi Hr HcX) as [Hpos Hlen]. lia.
  - exact HLq'.
  - rewrite (hctx_plug_len _ _ _ _ _ xv' Hr).
    replace (zlen pre + zlen (encs tsA vsA) + (zlen (encode ti vi) + (zlen (encode X xv') - zlen (encode X xv))))
      with (zlen pre + zlen (encs tsA vsA) + zlen (encode ti vi) + c) by lia.
    apply Lay_fields_shift; assumption.
Qed.

Lemma ni_SF i r : ni_stmt r -> ni_stmt (SF i :: r).
Proof.
  intros IH t last v p pre post Hpl Hok Hwf Hr HL Hlt.
  apply resolve_SF_inv in Hr as (ts & vs & ti & vi & -> & -> & Hti & Hvi & Hr).
  destruct p as [| | | |ps|]; try (cbn [LayP] in HL; contradiction).
  cbn [LayP] in HL. destruct HL as (ti0 & vi0 & q & Hti0 & Hvi0 & Hq & HLA & HLq & HLB).
  rewrite Hti in Hti0. injection Hti0 as <-. rewrite Hvi in Hvi0. injection Hvi0 as <-.
  pose proof (nth_error_split3 _ _ _ Hti) as Ets. pose proof (nth_error_split3 _ _ _ Hvi) as Evs.
  pose proof (nth_error_split3 _ _ _ Hq) as Eps.
  pose proof (firstn_len_eq _ _ _ _ _ Hti Hvi) as HlA. pose proof (firstn_len_eq _ _ _ _ _ Hti Hq) as HlAp.
  pose proof (nth_error_firstn_len _ _ _ Hq) as HlenP. pose proof (nth_error_firstn_len _ _ _ Hvi) as HlenV.
  destruct (ni_SF_core (firstn i ts) ti (skipn (S i) ts) (firstn i vs) vi (skipn (S i) vs)
              (firstn i ps) q (skipn (S i) ps) last r pre post IH HlA HlAp) as (q' & Hn & HLq' & HLB').
  - rewrite <- Ets. exact Hpl.
  - rewrite <- Ets. exact Hok.
  - rewrite <- Ets, <- Evs. exact Hwf.
  - exact Hr.
  - exact HLA.
  - exact HLq.
  - exact HLB.
  - rewrite (encs_split _ _ _ _ _ Hti Hvi), !zlen_app in Hlt. lia.
  - exists (PStruct (firstn i ps ++ q' :: map (shift c) (skipn (S i) ps))). split.
    + rewrite notify_struct. unfold addr_of. rewrite !(hctx_SF _ _ _ _ _ _ Hti Hvi). cbn [fst snd].
      rewrite zlen_app, Z.add_assoc.
      replace (notify_fields ts ps) with
        (notify_fields (firstn i ts ++ ti :: skipn (S i) ts) (firstn i ps ++ q :: skipn (S i) ps))
        by (rewrite <- Ets, <- Eps; reflexivity).
      rewrite Hn. reflexivity.
    + rewrite (plug_SF _ _ _ _ _ _ _ Hti Hvi). cbn [LayP].
      exists ti, (plug ti vi r xv'), q'.
      split; [exact Hti|]. split; [exact (nth_error_set_nth _ _ _ _ Hvi)|].
      split; [exact (nth_error_mid _ _ _ _ HlenP)|].
      rewrite (set_nth_split _ _ _ _ Hvi).
      rewrite (firstn_mid _ _ _ _ HlenV), (firstn_mid _ _ _ _ HlenP), (skipn_mid _ _ _ _ HlenV), (skipn_mid _ _ _ _ HlenP).
      split; [exact HLA|]. split; [exact HLq'|exact HLB'].
Qed.

(* the element step: the "inside me" branch of the list the path goes through *)
Lemma ni_SE i r : ni_stmt r -> ni_stmt (SE i :: r).
Proof.
  intros IH t last v p pre post Hpl Hok Hwf Hr0 HL Hlt.
  pose proof Hr0 as Hr.
  apply resolve_SE_inv in Hr as (it & k & items & kv & -> & -> & Hkv & Hr).
  destruct p as [| | |a n inner pmb rs re| |]; try (cbn [LayP] in HL; contradiction).
  cbn [LayP] in HL. destruct HL as (-> & -> & -> & -> & kv0 & q & Hkv0 & -> & HLq).
  rewrite Hkv in Hkv0. injection Hkv0 as <-.
  cbn [plain] in Hpl. cbn [ty_ok] in Hok.
  pose proof (ulist_facts _ _ _ Hwf) as F.
  pose proof (wf_nth _ _ _ _ (uf_wfs _ _ _ F) Hkv) as Hwkv.
  pose proof (usizes_pos _ _ _ (resolve_tpos _ _ _ _ _ Hok Hr HcX) Hwf) as Hpos.
  pose proof (nth_error_usizes it _ _ _ Hkv) as Hsz.
  destruct (inside_lt _ _ _ _ _ Hok Hwkv Hr HcX) as [HXpos Hlen].
  destruct (elem_inside _ _ _ (zlen pre) _ _ F Hkv) as [He1 He2].
  pose proof (zlen_encode_ulist _ _ _ F) as Htot.
  pose proof (uf_n _ _ _ F) as Hn. pose proof (uf_usz _ _ _ F) as Hu.
  assert (Hprod : 0 <= zlen items * (4 + Z.of_nat k)) by (apply Z.mul_nonneg_nonneg; lia).
  assert (Hlk : length (usizes it items) = length (map fst items)) by (unfold usizes, uenc; now rewrite !map_length).
  assert (Hzk : zlen (map fst items) = zlen items) by (unfold zlen; now rewrite map_length).
  pose proof (zlen_uhdr_eq k _ _ Hlk (uf_keys _ _ _ F)) as HzH. rewrite Hzk in HzH.
  assert (HzF : zlen (concat (firstn i (uenc it items))) = zsum (firstn i (usizes it items))).
  { rewrite zlen_concat_sum. unfold usizes. now rewrite firstn_map. }
  assert (Hpre' : zlen (pre ++ uhdr (usizes it items) (map fst items) ++ concat (firstn i (uenc it items)))
                  = elem_addr it k items (zlen pre) i).
  { rewrite !zlen_app, HzH, HzF. unfold elem_addr. lia. }
  assert (Hn0 : zlen items <> 0).
  { assert (i < length items)%nat by (apply nth_error_Some; congruence). unfold zlen. lia. }
  pose proof (zlen_nonneg (fst (hctx it (snd kv) r 0))) as HnP. pose proof (zlen_nonneg (snd (hctx it (snd kv) r 0))) as HnQ.
  (* the element *)
  destruct (IH it false (snd kv) q (pre ++ uhdr (usizes it items) (map fst items) ++ concat (firstn i (uenc it items)))
              (concat (skipn (S i) (uenc it items)) ++ post) Hpl Hok Hwkv Hr) as (q' & Hnq & HLq').
  { rewrite Hpre'. exact HLq. }
  { lia. }
  unfold addr_of in Hnq. rewrite Hpre' in Hnq, HLq'. rewrite <- ?app_assoc in Hnq.
  (* the header *)
  destruct (ulist_hdr_update k pre (usizes it items) (map fst items) i (zlen (encode it (snd kv)))
              (zlen (fst (hctx it (snd kv) r 0))) c
              (concat (firstn i (uenc it items)) ++ fst (hctx it (snd kv) r c) ++ h ++ snd (hctx it (snd kv) r 0)
               ++ concat (skipn (S i) (uenc it items)) ++ post)
              Hlk (uf_keys _ _ _ F) Hpos Hsz) as (m2 & Hwr & Hrd & Hadj); try lia.
  rewrite Hzk in Hrd, Hadj.
  exists (PUList (zlen pre) (zlen items) (Some q') pmb (zlen pre) (zlen pre + zlen (encode (TUList it k) (VUList items)) + c)).
  split.
  - unfold addr_of. rewrite !(hctx_SE _ _ _ _ _ _ Hkv). cbn [fst snd]. rewrite bump_zero. rewrite <- ?app_assoc.
    assert (Hsrc : zlen pre + zlen (uhdr (usizes it items) (map fst items) ++ concat (firstn i (uenc it items))
                                    ++ fst (hctx it (snd kv) r 0))
                   = elem_addr it k items (zlen pre) i + zlen (fst (hctx it (snd kv) r 0))).
    { rewrite <- Hpre', !zlen_app. lia. }
    rewrite Hsrc.
    eapply (notify_ulist_inside it k _ _ q pmb _ _ _ c _ (zsum (usizes it items)) q' _ m2 (offsets_from 0 (usizes it items)) _).
    + lia.
    + apply rd32_uhdr. exact Hu.
    + lia.
    + exact Hnq.
    + exact Hwr.
    + exact Hrd.
    + exact Hn0.
    + replace (elem_addr it k items (zlen pre) i + zlen (fst (hctx it (snd kv) r 0))
               - (zlen pre + 8 + zlen items * (4 + Z.of_nat k) + 4))
        with (zsum (firstn i (usizes it items)) + zlen (fst (hctx it (snd kv) r 0))) by (unfold elem_addr; lia).
      exact Hadj.
  - pose proof (hctx_plug_len _ _ _ _ _ xv' Hr0) as Hpl'.
    rewrite (plug_SE _ _ _ _ _ _ _ Hkv) in *. cbn [LayP].
    assert (Hl' : zlen (set_nth i (fst kv, plug it (snd kv) r xv') items) = zlen items)
      by (unfold zlen; now rewrite set_nth_length).
    split; [reflexivity|]. split; [now rewrite Hl'|]. split; [reflexivity|]. split; [lia|].
    exists (fst kv, plug it (snd kv) r xv'), q'.
    split; [exact (nth_error_set_nth _ _ _ _ Hkv)|]. split; [reflexivity|]. cbn [snd].
    replace (elem_addr it k (set_nth i (fst kv, plug it (snd kv) r xv') items) (zlen pre) i)
      with (elem_addr it k items (zlen pre) i); [exact HLq'|].
    unfold elem_addr. rewrite Hl', (usizes_set_nth _ _ _ _ _ Hkv), firstn_bump. reflexivity.
Qed.

(* the variant step: the enum's start pointer lies at or before the source and stays; the payload is notified *)
Lemma ni_SV r : ni_stmt r -> ni_stmt (SV :: r).
Proof.
  intros IH t last v p pre post Hpl Hok Hwf Hr0 HL Hlt.
  pose proof Hr0 as Hr.
  apply resolve_SV_inv in Hr as (rw & vars & d0 & pv & vt & -> & -> & Hf & Hr).
  destruct p as [| | | | |st d' q]; try (cbn [LayP] in HL; contradiction).
  cbn [LayP] in HL. destruct HL as (-> & -> & vt' & Hf' & HLq). rewrite Hf in Hf'. injection Hf' as <-.
  destruct (wf_enum_inv _ _ _ _ Hwf) as (_ & vt' & Hf' & Hwi). rewrite Hf in Hf'. injection Hf' as <-.
  pose proof (plain_enum_find _ _ _ _ Hpl Hf) as Hplv.
  pose proof (ty_ok_enum_variant _ _ _ _ _ Hok Hf) as Hokv.
  rewrite (zlen_encode_enum _ _ _ _ _ Hf) in Hlt.
  pose proof (zlen_nonneg (fst (hctx vt pv r 0))) as HnP.
  destruct (IH vt last pv q (pre ++ le_bytes rw d0) post Hplv Hokv Hwi Hr) as (q' & Hnq & HLq').
  { rewrite zlen_app, zlen_le_bytes. exact HLq. }
  { lia. }
  unfold addr_of in Hnq. rewrite zlen_app, zlen_le_bytes in Hnq, HLq'. rewrite <- ?app_assoc in Hnq.
  exists (PEnum (zlen pre) d0 q'). split.
  - unfold addr_of. rewrite !(hctx_SV _ _ _ _ _ _ Hf). cbn [fst snd]. rewrite zlen_app, zlen_le_bytes, Z.add_assoc.
    rewrite <- ?app_assoc. rewrite notify_enum, Hf, Hnq. cbn [obind].
    destruct (_ <? zlen pre) eqn:E; [zb; lia|reflexivity].
  - rewrite (plug_SV _ _ _ _ _ _ _ Hf). cbn [LayP]. split; [reflexivity|]. split; [reflexivity|].
    exists vt. split; [exact Hf|exact HLq'].
Qed.

End Inside.

Theorem notify_inside : forall pi t last v p X xv xv' c h pre post,
  plain t = true -> ty_ok last t = true -> wf t v = true ->
  resolve t v pi = Some (X, xv) -> container X = true ->
  LayP Lay pi t v (zlen pre) p ->
  zlen h = zlen (encode X xv) + c ->
  zlen (encode X xv') = zlen (encode X xv) + c ->
  0 <= zlen (encode X xv) + c ->
  zlen (encode t v) + c < U32_LIMIT ->
  exists p',
    notify t p (addr_of t v pi (zlen pre)) c (pre ++ fst (hctx t v pi 0) ++ h ++ snd (hctx t v pi 0) ++ post)
    = Ok (p', pre ++ fst (hctx t v pi c) ++ h ++ snd (hctx t v pi 0) ++ post)
    /\ LayP (EndNotified xv c) pi t (plug t v pi xv') (zlen pre) p'.
Proof.
  intros pi t last v p X xv xv' c h pre post Hpl Hok Hwf Hr HcX HL Hh Hx' Hnn Hlt.
  revert t last v p pre post Hpl Hok Hwf Hr HL Hlt.
  change (ni_stmt X xv xv' c h pi).
  induction pi as [|[i|i|] r IH].
  - apply ni_nil; assumption.
  - apply ni_SF; assumption.
  - apply ni_SE; assumption.
  - apply ni_SV; assumption.
Qed.

Print Assumptions notify_own.
Print Assumptions notify_inside.
