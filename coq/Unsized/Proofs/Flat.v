(* Refinement of the pointer machine to the plain owned model for FLAT shapes: generated structs whose
   fields are fixed-size values, lists (any prefix width) and a trailing RemainingBytes.  This is the
   fragment where every live pointer is a field pointer; lists of unsized elements add the offset-table
   bookkeeping and are covered by the correspondence check (and by the general lemmas of Notify.v). *)
From SF Require Import Base.Prelude Gen.Generated Unsized.Types Unsized.Parse Unsized.Machine Unsized.Ops.
From SF Require Import Unsized.Proofs.EncodeParse Unsized.Proofs.Mem.

Arguments Z.add : simpl never.
Arguments Z.sub : simpl never.
Arguments Z.mul : simpl never.
Arguments Z.of_nat : simpl never.
Arguments Z.pow : simpl never.
Arguments Z.modulo : simpl never.

Definition leaf (t : ty) : bool :=
  match t with TFixed _ | TList _ _ | TRem => true | _ => false end.

Definition not_rem (t : ty) : bool := match t with TRem => false | _ => true end.

(* the pointer of a leaf value located at address b *)
Definition lay1 (t : ty) (v : val) (b : Z) : ptr :=
  match t, v with
  | TList c lw, VList items => PList b (Z.of_nat (fsize c) * zlen items)
  | TRem, VBytes bs => PRem b (zlen bs)
  | _, _ => PFixed b
  end.

Fixpoint lay (ts : list ty) (vs : list val) (b : Z) : list ptr :=
  match ts, vs with
  | t :: ts', v :: vs' => lay1 t v b :: lay ts' vs' (b + zlen (encode t v))
  | _, _ => []
  end.

Definition encs (ts : list ty) (vs : list val) : list Z := encode (TStruct ts) (VStruct vs).

Lemma encs_cons t ts v vs : encs (t :: ts) (v :: vs) = encode t v ++ encs ts vs.
Proof. reflexivity. Qed.

Lemma encs_app tsA vsA tsB vsB :
  length tsA = length vsA -> encs (tsA ++ tsB) (vsA ++ vsB) = encs tsA vsA ++ encs tsB vsB.
Proof.
  revert vsA. induction tsA as [|t tsA IH]; intros [|v vsA] Hl; cbn in Hl; try lia; [reflexivity|].
  cbn [app]. rewrite !encs_cons, IH by lia. now rewrite app_assoc.
Qed.

Lemma lay_app tsA vsA tsB vsB b :
  length tsA = length vsA ->
  lay (tsA ++ tsB) (vsA ++ vsB) b = lay tsA vsA b ++ lay tsB vsB (b + zlen (encs tsA vsA)).
Proof.
  revert vsA b. induction tsA as [|t tsA IH]; intros [|v vsA] b Hl; cbn in Hl; try lia.
  - cbn [app lay]. change (encs [] []) with (@nil Z). change (zlen (@nil Z)) with 0. f_equal. lia.
  - cbn [app lay]. rewrite IH by lia. rewrite encs_cons, zlen_app. f_equal. f_equal. f_equal. lia.
Qed.

Lemma lay_length ts vs b : length ts = length vs -> length (lay ts vs b) = length ts.
Proof. revert vs b. induction ts as [|t ts IH]; intros [|v vs] b Hl; cbn in *; try lia. now rewrite IH by lia. Qed.

Lemma wf_struct_lengths ts vs : wf (TStruct ts) (VStruct vs) = true -> length ts = length vs.
Proof.
  revert vs. induction ts as [|t ts IH]; intros [|v vs] H; try (cbn in H; discriminate); [reflexivity|].
  rewrite wf_struct_cons in H. apply andb_true_iff in H as [_ H]. cbn. now rewrite (IH _ H).
Qed.

Lemma wf_struct_app tsA vsA tsB vsB :
  length tsA = length vsA ->
  wf (TStruct (tsA ++ tsB)) (VStruct (vsA ++ vsB)) = wf (TStruct tsA) (VStruct vsA) && wf (TStruct tsB) (VStruct vsB).
Proof.
  revert vsA. induction tsA as [|t tsA IH]; intros [|v vsA] Hl; cbn in Hl; try lia; [reflexivity|].
  cbn [app]. rewrite !wf_struct_cons, IH by lia. now rewrite andb_assoc.
Qed.

(* ---------------------------------------------------------------------------------------------- *)
(* the notification broadcast over field pointers                                                  *)
Fixpoint notify_fields (ts : list ty) (ps : list ptr) (src c : Z) (m : list Z) : out (list ptr * list Z) :=
  match ts, ps with
  | t :: ts', q :: ps' =>
      do ' (q', m1) <- notify t q src c m;
      do ' (r', m2) <- notify_fields ts' ps' src c m1;
      Ok (q' :: r', m2)
  | _, _ => Ok ([], m)
  end.

Lemma notify_struct ts ps src c m :
  notify (TStruct ts) (PStruct ps) src c m = (do ' (ps', m') <- notify_fields ts ps src c m; Ok (PStruct ps', m')).
Proof.
  cbn [notify]. f_equal. revert ps m. induction ts as [|t ts IH]; intros [|q ps] m; try reflexivity.
  cbn [notify_fields]. destruct (notify t q src c m) as [[q' m1]| | |]; cbn [obind]; try reflexivity.
  now rewrite IH.
Qed.

Lemma notify_fields_app tsA psA tsB psB src c m :
  length tsA = length psA ->
  notify_fields (tsA ++ tsB) (psA ++ psB) src c m =
  (do ' (a, m1) <- notify_fields tsA psA src c m; do ' (b, m2) <- notify_fields tsB psB src c m1; Ok (a ++ b, m2)).
Proof.
  revert psA m. induction tsA as [|t tsA IH]; intros [|q psA] m Hl; cbn in Hl; try lia.
  - cbn [app notify_fields obind]. destruct (notify_fields tsB psB src c m) as [[b m2]| | |]; reflexivity.
  - cbn [app notify_fields]. destruct (notify t q src c m) as [[q' m1]| | |]; cbn [obind]; try reflexivity.
    rewrite IH by lia. destruct (notify_fields tsA psA src c m1) as [[a m2]| | |]; cbn [obind]; try reflexivity.
    destruct (notify_fields tsB psB src c m2) as [[b m3]| | |]; reflexivity.
Qed.

(* a resize strictly before all the fields shifts every pointer *)
Lemma notify_fields_after ts : forall vs b src c m,
  forallb leaf ts = true -> wf (TStruct ts) (VStruct vs) = true -> src < b ->
  notify_fields ts (lay ts vs b) src c m = Ok (lay ts vs (b + c), m).
Proof.
  induction ts as [|t ts IH]; intros [|v vs] b src c m Hleaf Hwf Hlt; try (cbn in Hwf; discriminate); [reflexivity|].
  cbn [forallb] in Hleaf. apply andb_true_iff in Hleaf as [Ht Hts].
  rewrite wf_struct_cons in Hwf. apply andb_true_iff in Hwf as [Hv Hvs].
  cbn [lay notify_fields].
  assert (notify t (lay1 t v b) src c m = Ok (lay1 t v (b + c), m)) as Hn.
  { destruct t; try discriminate; destruct v; try (cbn in Hv; discriminate); cbn [lay1 notify];
      (destruct (src <? b) eqn:E; [reflexivity|zb; lia]). }
  rewrite Hn. cbn [obind]. pose proof (zlen_nonneg (encode t v)).
  rewrite (IH vs (b + zlen (encode t v)) src c m Hts Hvs) by lia. cbn [obind].
  replace (b + zlen (encode t v) + c) with (b + c + zlen (encode t v)) by lia. reflexivity.
Qed.

(* a resize at or after the end of the fields leaves them alone (no RemainingBytes among them) *)
Lemma notify_fields_before ts : forall vs b src c m,
  forallb leaf ts = true -> forallb not_rem ts = true -> wf (TStruct ts) (VStruct vs) = true ->
  b + zlen (encs ts vs) <= src ->
  notify_fields ts (lay ts vs b) src c m = Ok (lay ts vs b, m).
Proof.
  induction ts as [|t ts IH]; intros [|v vs] b src c m Hleaf Hnr Hwf Hle; try (cbn in Hwf; discriminate); [reflexivity|].
  cbn [forallb] in Hleaf, Hnr. apply andb_true_iff in Hleaf as [Ht Hts]. apply andb_true_iff in Hnr as [Hr Hrs].
  rewrite wf_struct_cons in Hwf. apply andb_true_iff in Hwf as [Hv Hvs].
  rewrite encs_cons, zlen_app in Hle. pose proof (zlen_nonneg (encode t v)). pose proof (zlen_nonneg (encs ts vs)).
  cbn [lay notify_fields].
  assert (notify t (lay1 t v b) src c m = Ok (lay1 t v b, m)) as Hn.
  { destruct t; try discriminate; destruct v; try (cbn in Hv; discriminate); cbn [lay1 notify];
      (destruct (src <? b) eqn:E; [zb; lia|reflexivity]). }
  rewrite Hn. cbn [obind]. rewrite (IH vs _ src c m Hts Hrs Hvs) by lia. reflexivity.
Qed.

(* ---------------------------------------------------------------------------------------------- *)
(* check_pointers on a layout                                                                      *)
Fixpoint check_fields (ps : list ptr) (lo hi cursor : Z) : bool * Z :=
  match ps with
  | [] => (true, cursor)
  | f :: r => let '(b, c1) := check_ptrs f lo hi cursor in if b then check_fields r lo hi c1 else (false, c1)
  end.

Lemma check_struct ps lo hi cursor : check_ptrs (PStruct ps) lo hi cursor = check_fields ps lo hi cursor.
Proof. cbn [check_ptrs]. revert cursor. induction ps as [|f r IH]; intros cursor; [reflexivity|].
  cbn [check_fields]. destruct (check_ptrs f lo hi cursor) as [b c1]. destruct b; [apply IH|reflexivity]. Qed.

(* every field pointer of a layout lies in [b, b + size]; only a trailing empty RemainingBytes can sit at the end *)
Lemma check_fields_lay ts : forall vs b hi cursor,
  forallb leaf ts = true -> ty_ok true (TStruct ts) = true -> wf (TStruct ts) (VStruct vs) = true ->
  0 <= cursor <= b -> b + zlen (encs ts vs) <= hi ->
  fst (check_fields (lay ts vs b) 0 hi cursor) = true.
Proof.
  induction ts as [|t ts IH]; intros [|v vs] b hi cursor Hleaf Hok Hwf Hc Hhi; try (cbn in Hwf; discriminate); [reflexivity|].
  cbn [forallb] in Hleaf. apply andb_true_iff in Hleaf as [Ht Hts].
  rewrite wf_struct_cons in Hwf. apply andb_true_iff in Hwf as [Hv Hvs].
  rewrite encs_cons, zlen_app in Hhi. pose proof (zlen_nonneg (encode t v)). pose proof (zlen_nonneg (encs ts vs)).
  cbn [lay check_fields].
  destruct ts as [|t2 ts].
  - (* last field: may be RemainingBytes *)
    destruct vs; [|cbn in Hvs; discriminate]. cbn [lay check_fields].
    destruct t; try discriminate; destruct v; try (cbn in Hv; discriminate); cbn [lay1 check_ptrs fst snd].
    + (* fixed: size >= 1 *)
      rewrite ty_ok_struct_one in Hok. cbn [ty_ok] in Hok. cbn [wf] in Hv. zb.
      repeat match goal with H : (_ =? _)%nat = _ |- _ => first [apply Nat.eqb_eq in H | apply Nat.eqb_neq in H] end.
      cbn [encode] in *. assert (1 <= zlen bs) by (unfold zlen; lia).
      unfold in_range. destruct (cursor <=? b) eqn:E1; [|zb; lia]. destruct (0 <=? b) eqn:E2; [|zb; lia].
      destruct (b <? hi) eqn:E3; [reflexivity|zb; lia].
    + rewrite ty_ok_struct_one in Hok. cbn [ty_ok] in Hok. zb.
      repeat match goal with H : (_ =? _)%nat = _ |- _ => first [apply Nat.eqb_eq in H | apply Nat.eqb_neq in H] end.
      cbn [encode] in *. rewrite zlen_app, zlen_le_bytes in *. pose proof (zlen_nonneg (concat items)).
      unfold in_range. destruct (cursor <=? b) eqn:E1; [|zb; lia]. destruct (0 <=? b) eqn:E2; [|zb; lia].
      destruct (b <? hi) eqn:E3; [reflexivity|zb; lia].
    + unfold in_range. destruct (cursor <=? b) eqn:E1; [|zb; lia]. destruct (0 <=? b) eqn:E2; [|zb; lia].
      cbn [andb]. destruct (b <? hi) eqn:E3; [reflexivity|]. cbn [orb]. destruct (b =? hi) eqn:E4; [reflexivity|].
      zb. cbn [encode] in *. lia.
  - rewrite ty_ok_struct_cons in Hok. apply andb_true_iff in Hok as [Hok1 Hok2].
    assert (1 <= zlen (encode t v)) as Hsz.
    { destruct t; try discriminate; destruct v; try (cbn in Hv; discriminate); cbn [ty_ok] in Hok1.
      - cbn [wf] in Hv. zb.
        repeat match goal with H : (_ =? _)%nat = _ |- _ => first [apply Nat.eqb_eq in H | apply Nat.eqb_neq in H] end.
        cbn [encode]. unfold zlen. lia.
      - zb. repeat match goal with H : (_ =? _)%nat = _ |- _ => first [apply Nat.eqb_eq in H | apply Nat.eqb_neq in H] end.
        cbn [encode]. rewrite zlen_app, zlen_le_bytes. pose proof (zlen_nonneg (concat items)). lia. }
    assert (check_ptrs (lay1 t v b) 0 hi cursor = (true, b)) as Hc1.
    { destruct t; try discriminate; destruct v; try (cbn in Hv; discriminate); cbn [lay1 check_ptrs ty_ok] in *; try discriminate;
        unfold in_range; (destruct (cursor <=? b) eqn:E1; [|zb; lia]); (destruct (0 <=? b) eqn:E2; [|zb; lia]);
        (destruct (b <? hi) eqn:E3; [reflexivity|zb; lia]). }
    rewrite Hc1. apply IH; auto; lia.
Qed.

(* ---------------------------------------------------------------------------------------------- *)
(* the representation invariant                                                                    *)
Record Rep (ts : list ty) (vs : list val) (s : mach) (top : ptr) : Prop := mkRep {
  rep_leaf : forallb leaf ts = true;
  rep_ok : ty_ok true (TStruct ts) = true;
  rep_wf : wf (TStruct ts) (VStruct vs) = true;
  rep_mem : exists junk, m_mem s = encs ts vs ++ junk;
  rep_len : m_len s = zlen (encs ts vs);
  rep_top : top = PStruct (lay ts vs 0);
}.

Lemma rep_cap ts vs s top : Rep ts vs s top -> zlen (encs ts vs) <= m_cap s.
Proof.
  intros [_ _ _ [junk Hm] _ _]. unfold m_cap. rewrite Hm, zlen_app. pose proof (zlen_nonneg junk). lia.
Qed.

(* no debug / drop-time pointer assertion can fire in a represented state *)
Lemma rep_top_check ts vs s top : Rep ts vs s top -> top_check s top = true.
Proof.
  intros R. pose proof (rep_cap _ _ _ _ R) as Hcap. destruct R as [Hl Hok Hwf _ _ ->].
  unfold top_check. rewrite check_struct. apply check_fields_lay; auto; lia.
Qed.

(* ---------------------------------------------------------------------------------------------- *)
(* focusing on one field                                                                           *)
Lemma get_at_field tsA t tsB psA p psB :
  length tsA = length psA ->
  get_at (TStruct (tsA ++ t :: tsB)) (PStruct (psA ++ p :: psB)) [PF (length tsA)] = Some (t, p).
Proof.
  intros Hl. cbn [get_at]. rewrite nth_error_app2 by lia. rewrite Nat.sub_diag. cbn [nth_error].
  rewrite Hl, nth_error_app2 by lia. rewrite Nat.sub_diag. reflexivity.
Qed.

Lemma set_nth_app {A} (a : list A) x b y : set_nth (length a) y (a ++ x :: b) = a ++ y :: b.
Proof. induction a as [|h a IH]; cbn [length set_nth app]; [reflexivity|now rewrite IH]. Qed.

Lemma set_at_field tsA t tsB psA p psB q :
  length tsA = length psA ->
  set_at (TStruct (tsA ++ t :: tsB)) (PStruct (psA ++ p :: psB)) [PF (length tsA)] q = PStruct (psA ++ q :: psB).
Proof.
  intros Hl. cbn [set_at]. rewrite nth_error_app2 by lia. rewrite Nat.sub_diag. cbn [nth_error].
  rewrite Hl, nth_error_app2 by lia. rewrite Nat.sub_diag. cbn [nth_error set_at]. now rewrite set_nth_app.
Qed.

Lemma forallb_app_iff {A} (f : A -> bool) a b : forallb f (a ++ b) = true <-> forallb f a = true /\ forallb f b = true.
Proof. rewrite forallb_app, andb_true_iff. reflexivity. Qed.

(* in a well-typed struct, RemainingBytes can only be the last field *)
Lemma ty_ok_prefix_not_rem last tsA t tsB :
  ty_ok last (TStruct (tsA ++ t :: tsB)) = true -> forallb leaf tsA = true -> forallb not_rem tsA = true.
Proof.
  induction tsA as [|a tsA IH]; intros Hok Hl; [reflexivity|].
  cbn [forallb] in *. apply andb_true_iff in Hl as [Ha Hl].
  cbn [app] in Hok. destruct (tsA ++ t :: tsB) as [|x r] eqn:E; [destruct tsA; discriminate|].
  rewrite ty_ok_struct_cons in Hok. apply andb_true_iff in Hok as [H1 H2].
  rewrite (IH H2 Hl), andb_true_r. destruct a; try reflexivity. cbn in H1. discriminate.
Qed.

Lemma ty_ok_struct_tail last t ts : ts <> [] -> ty_ok last (TStruct (t :: ts)) = true -> ty_ok last (TStruct ts) = true.
Proof. destruct ts; [congruence|]. intros _ H. rewrite ty_ok_struct_cons in H. now apply andb_true_iff in H as [_ H]. Qed.

Lemma ty_ok_struct_app_r last tsA tsB : tsB <> [] -> ty_ok last (TStruct (tsA ++ tsB)) = true -> ty_ok last (TStruct tsB) = true.
Proof.
  intros Hne. induction tsA as [|a tsA IH]; intros H; [exact H|].
  apply IH. cbn [app] in H. apply (ty_ok_struct_tail last a (tsA ++ tsB)); [destruct tsA; [exact Hne|discriminate]|exact H].
Qed.

(* ---------------------------------------------------------------------------------------------- *)
(* List::insert_all on a field of a flat struct refines Vec::splice                                *)
Definition item_ok (c : fcheck) (it : list Z) : Prop :=
  length it = fsize c /\ bytes_ok it = true /\ fvalid c it = true.

Lemma In_firstn {A} (x : A) n l : In x (firstn n l) -> In x l.
Proof. intros H. rewrite <- (firstn_skipn n l). apply in_or_app. now left. Qed.
Lemma In_skipn {A} (x : A) n l : In x (skipn n l) -> In x l.
Proof. intros H. rewrite <- (firstn_skipn n l). apply in_or_app. now right. Qed.

Lemma concat_split (items : list (list Z)) (n : nat) :
  concat items = concat (firstn n items) ++ concat (skipn n items).
Proof. rewrite <- concat_app, firstn_skipn. reflexivity. Qed.

Lemma wf_items_forall c items :
  forallb (fun it => (length it =? fsize c)%nat && bytes_ok it && fvalid c it) items = true <->
  Forall (item_ok c) items.
Proof.
  unfold item_ok. rewrite forallb_forall, Forall_forall. split; intros H it Hin; specialize (H it Hin).
  - zb. match goal with H : (_ =? _)%nat = true |- _ => apply Nat.eqb_eq in H end. auto.
  - destruct H as (H1 & H2 & H3). now rewrite H1, Nat.eqb_refl, H2, H3.
Qed.

Lemma Forall_item_len c items : Forall (item_ok c) items -> Forall (fun it => length it = fsize c) items.
Proof. apply Forall_impl. intros it (H & _). exact H. Qed.

Section insert.
  Variables (tsA tsB : list ty) (vsA vsB : list val) (c : fcheck) (lw : nat) (items new : list (list Z)).
  Variable idx : Z.
  Let ts := tsA ++ TList c lw :: tsB.
  Let vs := vsA ++ VList items :: vsB.
  Let items' := firstn (Z.to_nat idx) items ++ new ++ skipn (Z.to_nat idx) items.
  Let vs' := vsA ++ VList items' :: vsB.
  Let esz := Z.of_nat (fsize c).

  Hypothesis HlenA : length tsA = length vsA.
  Hypothesis Hidx : 0 <= idx <= zlen items.
  Hypothesis Hnew : Forall (item_ok c) new.
  Hypothesis Hnew_ne : new <> [].
  Hypothesis Hfit : zlen items + zlen new < 256 ^ Z.of_nat lw.
  Hypothesis Hmul : esz * (zlen items + zlen new) < U64_LIMIT.

  Lemma list_insert_refines s top :
    Rep ts vs s top -> m_refuse s <> 1 -> m_len s + esz * zlen new <= m_cap s ->
    exists s', list_insert (TStruct ts) s top [PF (length tsA)] idx new = Ok (s', PStruct (lay ts vs' 0), [])
               /\ Rep ts vs' s' (PStruct (lay ts vs' 0)).
  Proof.
    intros R Hnref Hroom. pose proof (rep_top_check _ _ _ _ R) as Hchk. pose proof (rep_cap _ _ _ _ R) as Hcap.
    destruct R as [Hleaf Hok Hwf [junk Hmem] Hlen ->].
    pose proof (wf_struct_lengths _ _ Hwf) as HL.
    subst ts vs. rewrite wf_struct_app in Hwf by exact HlenA. apply andb_true_iff in Hwf as [HwfA HwfLB].
    rewrite wf_struct_cons in HwfLB. apply andb_true_iff in HwfLB as [HwfL HwfB].
    cbn [wf] in HwfL. apply andb_true_iff in HwfL as [HwfL Hitems]. apply andb_true_iff in HwfL as [Hn Hm]. zb.
    apply wf_items_forall in Hitems.
    apply forallb_app_iff in Hleaf as [HleafA HleafLB]. cbn [forallb] in HleafLB. apply andb_true_iff in HleafLB as [_ HleafB].
    pose proof (ty_ok_prefix_not_rem _ _ _ _ Hok HleafA) as HnrA.
    assert (ty_ok false (TList c lw) = true \/ tsB = []) as HokL.
    { destruct tsB; [right; reflexivity|left].
      apply (ty_ok_struct_app_r true tsA (TList c lw :: t :: l)) in Hok; [|discriminate].
      rewrite ty_ok_struct_cons in Hok. now apply andb_true_iff in Hok as [Hok _]. }
    assert ((lw =? 0)%nat = false /\ (fsize c =? 0)%nat = false) as [Hlw Hes].
    { assert (ty_ok false (TList c lw) = true) as H.
      { destruct HokL as [H| ->]; [exact H|].
        apply (ty_ok_struct_app_r true tsA [TList c lw]) in Hok; [|discriminate]. exact Hok. }
      cbn [ty_ok] in H. zb. split; assumption. }
    apply Nat.eqb_neq in Hlw, Hes.
    assert (0 < esz) as Hesz by (subst esz; lia).
    pose proof (zlen_nonneg items) as Hi0. pose proof (zlen_nonneg new) as Hn0.
    assert (0 < zlen new) as Hnpos.
    { destruct new as [|x0 l0] eqn:En; [congruence|]. rewrite zlen_cons. pose proof (zlen_nonneg l0). lia. }
    (* the pieces of memory *)
    set (EA := encs tsA vsA) in *. set (EB := encs tsB vsB) in *.
    set (hd := concat (firstn (Z.to_nat idx) items)). set (tl := concat (skipn (Z.to_nat idx) items)).
    set (a := zlen EA). set (len := zlen items). set (n := zlen new). set (k := esz * n).
    assert (Hcat : concat items = hd ++ tl) by apply concat_split.
    assert (Hhd : zlen hd = esz * idx).
    { subst hd. rewrite (zlen_concat_fixed _ (fsize c)).
      - unfold zlen at 1. rewrite firstn_length. unfold zlen in Hidx. subst esz. f_equal. lia.
      - apply Forall_item_len. apply Forall_forall. intros x Hx. apply (proj1 (Forall_forall _ _) Hitems). eapply In_firstn; eauto. }
    assert (Hbody : zlen (concat items) = esz * len) by (apply zlen_concat_fixed; now apply Forall_item_len).
    assert (Hcnew : zlen (concat new) = k) by (apply zlen_concat_fixed; now apply Forall_item_len).
    assert (Htl : zlen tl = esz * (len - idx)).
    { assert (zlen hd + zlen tl = esz * len) by (rewrite <- zlen_app, <- Hcat; exact Hbody). lia. }
    assert (Henc : encs (tsA ++ TList c lw :: tsB) (vsA ++ VList items :: vsB) = EA ++ (le_bytes lw len ++ hd ++ tl) ++ EB).
    { rewrite encs_app by exact HlenA. rewrite encs_cons. cbn [encode]. rewrite Hcat. reflexivity. }
    rewrite Henc in Hmem, Hlen, Hcap.
    assert (Hold : zlen (EA ++ (le_bytes lw len ++ hd ++ tl) ++ EB) = a + Z.of_nat lw + esz * len + zlen EB).
    { rewrite !zlen_app, zlen_le_bytes, Hhd, Htl. lia. }
    pose proof (zlen_nonneg EA). pose proof (zlen_nonneg EB).
    (* capacity: junk starts with k bytes that the realloc zero-fills *)
    assert (k <= zlen junk) as Hjk.
    { unfold m_cap in Hroom. rewrite Hmem, zlen_app, Hlen in Hroom. subst k n. lia. }
    set (J := zdrop k junk).
    assert (0 <= k) by (subst k; nia).
    assert (Hjunk : junk = ztake k junk ++ J) by (symmetry; apply ztake_zdrop).
    (* 1. locate the field *)
    unfold list_insert, sub.
    rewrite (lay_app tsA vsA (TList c lw :: tsB) (VList items :: vsB) 0 HlenA) in Hchk |- *.
    cbn [lay lay1] in Hchk |- *. fold EA a in Hchk |- *. rewrite !Z.add_0_l in Hchk |- *.
    rewrite get_at_field by (rewrite lay_length; lia). cbn [obind].
    (* 2. read the length prefix *)
    unfold list_len.
    assert (Hrd : rd (m_mem s) a (Z.of_nat lw) = Ok (le_bytes lw len)).
    { rewrite Hmem, <- !app_assoc. apply rd_mid'; [reflexivity|now rewrite zlen_le_bytes]. }
    rewrite Hrd. cbn [obind]. rewrite le_decode_le_bytes by lia.
    fold esz len in Hchk |- *. replace (esz * len / esz) with len by (rewrite Z.mul_comm, Z.div_mul; lia).
    rewrite Z.eqb_refl. cbn [obind].
    destruct (len <? idx) eqn:E1; [zb; lia|].
    destruct (256 ^ Z.of_nat lw <=? len + zlen new) eqn:E2; [zb; lia|].
    (* 3. add_bytes *)
    unfold add_bytes. rewrite Hchk. cbn [negb].
    set (start := a + Z.of_nat lw + idx * esz).
    assert (0 <= start <= m_len s) as Hst by (rewrite Hlen, Hold; subst start; nia).
    destruct ((start <? 0) || (m_len s <? start)) eqn:E3; [apply orb_true_iff in E3; destruct E3; zb; lia|].
    fold n k. destruct (k =? 0) eqn:E4; [zb; subst k; nia|].
    (* realloc *)
    unfold realloc.
    destruct (m_len s <? m_len s + k) eqn:E5; [|zb; lia].
    destruct (m_refuse s =? 1) eqn:E6; [zb; congruence|]. cbn [andb].
    destruct (m_cap s <? m_len s + k) eqn:E7; [zb; subst k n; lia|].
    assert (Hwr0 : wr (m_mem s) (m_len s) (zrepeat 0 (m_len s + k - m_len s)) =
                   Ok ((EA ++ (le_bytes lw len ++ hd ++ tl) ++ EB) ++ zrepeat 0 k ++ J)).
    { rewrite Hmem, Hlen. rewrite Hjunk at 1.
      replace (zlen _ + k - zlen _) with k by lia.
      apply wr_mid'; [reflexivity|]. rewrite zlen_zrepeat, zlen_ztake by lia. reflexivity. }
    rewrite Hwr0. cbn [obind m_mem m_len].
    (* memmove *)
    set (A' := EA ++ le_bytes lw len ++ hd). set (T := tl ++ EB).
    assert (HA' : zlen A' = start).
    { subst A' start. rewrite !zlen_app, zlen_le_bytes, Hhd. fold a. lia. }
    assert (HT : zlen T = m_len s - start).
    { subst T. rewrite zlen_app, Htl, Hlen, Hold. subst start. lia. }
    assert (Hm1 : (EA ++ (le_bytes lw len ++ hd ++ tl) ++ EB) ++ zrepeat 0 k ++ J = A' ++ (T ++ zrepeat 0 k) ++ J).
    { subst A' T. now rewrite <- !app_assoc. }
    assert (Hmv : (if start =? m_len s then Ok ((EA ++ (le_bytes lw len ++ hd ++ tl) ++ EB) ++ zrepeat 0 k ++ J)
                   else mmove ((EA ++ (le_bytes lw len ++ hd ++ tl) ++ EB) ++ zrepeat 0 k ++ J) (start + k) start (m_len s - start))
                  = Ok (A' ++ ztake k (T ++ zrepeat 0 k) ++ T ++ J)).
    { rewrite Hm1. destruct (start =? m_len s) eqn:E8.
      - zb. assert (T = []) as -> by (destruct T; [reflexivity|rewrite zlen_cons in HT; pose proof (zlen_nonneg T); lia]).
        cbn [app]. rewrite <- (zlen_zrepeat 0 k) at 2 by lia. rewrite ztake_all. reflexivity.
      - rewrite <- HT, <- HA'. apply mmove_up. now rewrite zlen_zrepeat. }
    rewrite Hmv. cbn [obind].
    set (G := ztake k (T ++ zrepeat 0 k)).
    assert (HG : zlen G = k) by (subst G; rewrite zlen_ztake; [reflexivity|rewrite zlen_app, zlen_zrepeat by lia; pose proof (zlen_nonneg T); lia]).
    (* 4. the broadcast *)
    rewrite notify_struct, notify_fields_app by (rewrite lay_length; lia).
    rewrite notify_fields_before; auto.
    2:{ fold EA a. lia. }
    cbn [obind notify_fields notify].
    destruct (a <? a) eqn:E9; [zb; lia|]. cbn [obind].
    set (L := zlen (encode (TList c lw) (VList items))).
    assert (HLpos : Z.of_nat lw <= L) by (subst L; cbn [encode]; rewrite zlen_app, zlen_le_bytes; pose proof (zlen_nonneg (concat items)); lia).
    rewrite notify_fields_after; auto; [|lia]. cbn [obind].
    (* 5. the field's own update *)
    rewrite get_at_field by (rewrite lay_length; lia). cbn [obind start_of set_mem m_mem].
    rewrite set_at_field by (rewrite lay_length; lia).
    assert (Hw1 : wr (A' ++ G ++ T ++ J) a (le_bytes lw (len + n)) = Ok (EA ++ le_bytes lw (len + n) ++ hd ++ G ++ T ++ J)).
    { subst A'. rewrite <- !app_assoc. apply wr_mid'; [reflexivity|now rewrite !zlen_le_bytes]. }
    rewrite Hw1. cbn [obind].
    assert (Hw2 : wr (EA ++ le_bytes lw (len + n) ++ hd ++ G ++ T ++ J) (a + Z.of_nat lw + idx * esz) (concat new)
                  = Ok (EA ++ le_bytes lw (len + n) ++ hd ++ concat new ++ T ++ J)).
    { replace (EA ++ le_bytes lw (len + n) ++ hd ++ G ++ T ++ J) with ((EA ++ le_bytes lw (len + n) ++ hd) ++ G ++ T ++ J) by (now rewrite <- !app_assoc).
      replace (EA ++ le_bytes lw (len + n) ++ hd ++ concat new ++ T ++ J) with ((EA ++ le_bytes lw (len + n) ++ hd) ++ concat new ++ T ++ J) by (now rewrite <- !app_assoc).
      apply wr_mid'; [|now rewrite Hcnew, HG]. rewrite !zlen_app, zlen_le_bytes, Hhd. fold a. lia. }
    rewrite Hw2. cbn [obind].
    (* 6. the new state represents the spliced value *)
    assert (Hitems' : Forall (item_ok c) items').
    { subst items'. apply Forall_app. split; [|apply Forall_app; split; [exact Hnew|]].
      - apply Forall_forall. intros x Hx. apply (proj1 (Forall_forall _ _) Hitems). eapply In_firstn; eauto.
      - apply Forall_forall. intros x Hx. apply (proj1 (Forall_forall _ _) Hitems). eapply In_skipn; eauto. }
    assert (Hlen' : zlen items' = len + n).
    { subst items'. rewrite !zlen_app. unfold zlen at 1 3. rewrite firstn_length, skipn_length. unfold zlen in Hidx. subst len n. unfold zlen. lia. }
    assert (Hcat' : concat items' = hd ++ concat new ++ tl).
    { subst items' hd tl. now rewrite !concat_app. }
    assert (Henc' : encs (tsA ++ TList c lw :: tsB) vs' = EA ++ (le_bytes lw (len + n) ++ hd ++ concat new ++ tl) ++ EB).
    { subst vs'. rewrite encs_app by exact HlenA. rewrite encs_cons. cbn [encode]. rewrite Hlen', Hcat'. reflexivity. }
    assert (Hlay' : lay (tsA ++ TList c lw :: tsB) vs' 0 =
                    lay tsA vsA 0 ++ PList a (esz * (len + n)) :: lay tsB vsB (a + L + k)).
    { subst vs'. rewrite lay_app by exact HlenA. cbn [lay lay1]. fold EA a. rewrite !Z.add_0_l. rewrite Hlen'. fold esz.
      f_equal. f_equal. f_equal. subst L. cbn [encode]. rewrite Hcat', Hcat, !zlen_app, !zlen_le_bytes, Hcnew. lia. }
    eexists. split.
    - rewrite Hlay'. replace ((len + n) * esz) with (esz * (len + n)) by lia. reflexivity.
    - constructor; cbn [m_mem m_len].
      + apply forallb_app_iff. split; [exact HleafA|]. cbn [forallb leaf]. exact HleafB.
      + exact Hok.
      + subst vs'. rewrite wf_struct_app by exact HlenA. rewrite HwfA. rewrite wf_struct_cons, HwfB. cbn [wf].
        rewrite (proj2 (wf_items_forall c items') Hitems'), Hlen'.
        destruct (len + n <? 256 ^ Z.of_nat lw) eqn:Ea; [|zb; subst len n; lia].
        destruct (Z.of_nat (fsize c) * (len + n) <? U64_LIMIT) eqn:Eb; [reflexivity|zb; subst esz len n; lia].
      + exists J. rewrite Henc'. subst T. now rewrite <- !app_assoc.
      + cbn [m_len set_mem]. rewrite Henc', Hlen, Hold. rewrite !zlen_app, zlen_le_bytes, Hhd, Hcnew, Htl. subst k. nia.
      + reflexivity.
  Qed.
End insert.

(* ---------------------------------------------------------------------------------------------- *)
(* List::remove_range refines Vec::drain                                                           *)
Section remove.
  Variables (tsA tsB : list ty) (vsA vsB : list val) (c : fcheck) (lw : nat) (items : list (list Z)).
  Variables st en : Z.
  Let ts := tsA ++ TList c lw :: tsB.
  Let vs := vsA ++ VList items :: vsB.
  Let items' := firstn (Z.to_nat st) items ++ skipn (Z.to_nat en) items.
  Let vs' := vsA ++ VList items' :: vsB.
  Let esz := Z.of_nat (fsize c).

  Hypothesis HlenA : length tsA = length vsA.
  Hypothesis Hrange : 0 <= st < en /\ en <= zlen items.

  Lemma skipn_skipn' {A} (x y : nat) (l : list A) : skipn x (skipn y l) = skipn (y + x) l.
  Proof. revert l. induction y as [|y IH]; intros l; [reflexivity|]. destruct l; [now rewrite !skipn_nil|]. cbn [skipn Nat.add]. apply IH. Qed.

  Lemma concat_split3 (l : list (list Z)) (i j : nat) : (i <= j)%nat ->
    concat l = concat (firstn i l) ++ concat (firstn (j - i) (skipn i l)) ++ concat (skipn j l).
  Proof.
    intros Hij. rewrite (concat_split l i) at 1. f_equal.
    rewrite (concat_split (skipn i l) (j - i)). f_equal. f_equal. rewrite skipn_skipn'. f_equal. lia.
  Qed.

  Lemma list_remove_refines s top :
    Rep ts vs s top ->
    exists s', list_remove (TStruct ts) s top [PF (length tsA)] st en = Ok (s', PStruct (lay ts vs' 0), [])
               /\ Rep ts vs' s' (PStruct (lay ts vs' 0)).
  Proof.
    intros R. pose proof (rep_top_check _ _ _ _ R) as Hchk. pose proof (rep_cap _ _ _ _ R) as Hcap.
    destruct R as [Hleaf Hok Hwf [junk Hmem] Hlen ->].
    subst ts vs. rewrite wf_struct_app in Hwf by exact HlenA. apply andb_true_iff in Hwf as [HwfA HwfLB].
    rewrite wf_struct_cons in HwfLB. apply andb_true_iff in HwfLB as [HwfL HwfB].
    cbn [wf] in HwfL. apply andb_true_iff in HwfL as [HwfL Hitems]. apply andb_true_iff in HwfL as [Hn Hm]. zb.
    apply wf_items_forall in Hitems.
    apply forallb_app_iff in Hleaf as [HleafA HleafLB]. cbn [forallb] in HleafLB. apply andb_true_iff in HleafLB as [_ HleafB].
    pose proof (ty_ok_prefix_not_rem _ _ _ _ Hok HleafA) as HnrA.
    assert ((lw =? 0)%nat = false /\ (fsize c =? 0)%nat = false) as [Hlw Hes].
    { assert (ty_ok false (TList c lw) = true) as H.
      { destruct tsB as [|t l].
        - apply (ty_ok_struct_app_r true tsA [TList c lw]) in Hok; [|discriminate]. exact Hok.
        - apply (ty_ok_struct_app_r true tsA (TList c lw :: t :: l)) in Hok; [|discriminate].
          rewrite ty_ok_struct_cons in Hok. now apply andb_true_iff in Hok as [Hok _]. }
      cbn [ty_ok] in H. zb. split; assumption. }
    apply Nat.eqb_neq in Hlw, Hes.
    assert (0 < esz) as Hesz by (subst esz; lia).
    pose proof (zlen_nonneg items) as Hi0. destruct Hrange as [[Hst0 Hsten] Hen].
    set (EA := encs tsA vsA) in *. set (EB := encs tsB vsB) in *.
    set (hd := concat (firstn (Z.to_nat st) items)).
    set (rm := concat (firstn (Z.to_nat en - Z.to_nat st) (skipn (Z.to_nat st) items))).
    set (tl := concat (skipn (Z.to_nat en) items)).
    set (a := zlen EA). set (len := zlen items). set (k := esz * (en - st)).
    assert (Hcat : concat items = hd ++ rm ++ tl) by (apply concat_split3; lia).
    assert (Hitlen : Forall (fun it => length it = fsize c) items) by now apply Forall_item_len.
    assert (Hhd : zlen hd = esz * st).
    { subst hd. rewrite (zlen_concat_fixed _ (fsize c)).
      - unfold zlen at 1. rewrite firstn_length. unfold zlen in Hen. subst esz. f_equal. lia.
      - apply Forall_forall. intros x Hx. apply (proj1 (Forall_forall _ _) Hitlen). eapply In_firstn; eauto. }
    assert (Htl : zlen tl = esz * (len - en)).
    { subst tl. rewrite (zlen_concat_fixed _ (fsize c)).
      - unfold zlen at 1. rewrite skipn_length. subst len. unfold zlen in *. subst esz. f_equal. lia.
      - apply Forall_forall. intros x Hx. apply (proj1 (Forall_forall _ _) Hitlen). eapply In_skipn; eauto. }
    assert (Hbody : zlen (concat items) = esz * len) by (apply zlen_concat_fixed; assumption).
    assert (Hrm : zlen rm = k).
    { assert (zlen hd + zlen rm + zlen tl = esz * len) by (rewrite <- !zlen_app, <- app_assoc, <- Hcat; exact Hbody). subst k. nia. }
    assert (Henc : encs (tsA ++ TList c lw :: tsB) (vsA ++ VList items :: vsB) = EA ++ (le_bytes lw len ++ hd ++ rm ++ tl) ++ EB).
    { rewrite encs_app by exact HlenA. rewrite encs_cons. cbn [encode]. rewrite Hcat. reflexivity. }
    rewrite Henc in Hmem, Hlen, Hcap.
    assert (Hold : zlen (EA ++ (le_bytes lw len ++ hd ++ rm ++ tl) ++ EB) = a + Z.of_nat lw + esz * len + zlen EB).
    { rewrite !zlen_app, zlen_le_bytes, Hhd, Hrm, Htl. subst k. nia. }
    pose proof (zlen_nonneg EA). pose proof (zlen_nonneg EB).
    assert (0 < k) by (subst k; nia).
    unfold list_remove, sub.
    rewrite (lay_app tsA vsA (TList c lw :: tsB) (VList items :: vsB) 0 HlenA) in Hchk |- *.
    cbn [lay lay1] in Hchk |- *. fold EA a in Hchk |- *. rewrite !Z.add_0_l in Hchk |- *.
    rewrite get_at_field by (rewrite lay_length; lia). cbn [obind].
    unfold list_len.
    assert (Hrd : rd (m_mem s) a (Z.of_nat lw) = Ok (le_bytes lw len)).
    { rewrite Hmem, <- !app_assoc. apply rd_mid'; [reflexivity|now rewrite zlen_le_bytes]. }
    rewrite Hrd. cbn [obind]. rewrite le_decode_le_bytes by lia.
    fold esz len in Hchk |- *. replace (esz * len / esz) with len by (rewrite Z.mul_comm, Z.div_mul; lia).
    rewrite Z.eqb_refl. cbn [obind].
    destruct (en <? st) eqn:E1; [zb; lia|]. destruct (len <? en) eqn:E2; [zb; lia|].
    (* remove_bytes *)
    unfold remove_bytes. rewrite Hchk. cbn [negb].
    set (start := a + Z.of_nat lw + st * esz). set (end_ := a + Z.of_nat lw + en * esz).
    assert (Hse : 0 <= start /\ start < end_ /\ end_ <= m_len s) by (rewrite Hlen, Hold; subst start end_; nia).
    destruct ((start <? 0) || (m_len s <? start)) eqn:E3; [apply orb_true_iff in E3; destruct E3; zb; lia|].
    destruct ((end_ <? start) || (m_len s <? end_)) eqn:E4; [apply orb_true_iff in E4; destruct E4; zb; lia|].
    assert (Hamt : end_ - start = k) by (subst start end_ k; nia).
    rewrite Hamt. destruct (k =? 0) eqn:E5; [zb; lia|].
    set (A' := EA ++ le_bytes lw len ++ hd). set (T := tl ++ EB).
    assert (HA' : zlen A' = start) by (subst A' start; rewrite !zlen_app, zlen_le_bytes, Hhd; fold a; lia).
    assert (HT : zlen T = m_len s - end_) by (subst T; rewrite zlen_app, Htl, Hlen, Hold; subst end_; nia).
    assert (Hm0 : m_mem s = A' ++ rm ++ T ++ junk) by (rewrite Hmem; subst A' T; now rewrite <- !app_assoc).
    assert (Hmv : (if end_ =? m_len s then Ok (m_mem s) else mmove (m_mem s) start end_ (m_len s - end_))
                  = Ok (A' ++ T ++ zdrop (zlen T) (rm ++ T) ++ junk)).
    { rewrite Hm0. destruct (end_ =? m_len s) eqn:E6.
      - zb. assert (T = []) as -> by (destruct T; [reflexivity|rewrite zlen_cons in HT; pose proof (zlen_nonneg T); lia]).
        cbn [app]. change (zlen (@nil Z)) with 0. rewrite app_nil_r. reflexivity.
      - rewrite <- HT. replace end_ with (zlen A' + zlen rm) by lia. rewrite <- HA'. apply mmove_down. }
    rewrite Hmv. cbn [obind].
    set (H' := zdrop (zlen T) (rm ++ T)).
    (* realloc (shrink) *)
    unfold realloc. cbn [set_mem m_len m_mem m_grow m_refuse].
    destruct (m_len s <? m_len s - k) eqn:E7; [zb; lia|]. cbn [andb].
    unfold m_cap. cbn [set_mem m_mem m_len m_grow m_refuse].
    destruct (zlen (A' ++ T ++ H' ++ junk) <? m_len s - k) eqn:E8.
    { zb. rewrite !zlen_app in E8. pose proof (zlen_nonneg H'). pose proof (zlen_nonneg junk). pose proof (zlen_nonneg T). lia. }
    cbn [obind m_mem].
    (* broadcast *)
    rewrite notify_struct, notify_fields_app by (rewrite lay_length; lia).
    rewrite notify_fields_before; auto.
    2:{ fold EA a. lia. }
    cbn [obind notify_fields notify].
    destruct (a <? a) eqn:E9; [zb; lia|]. cbn [obind].
    set (L := zlen (encode (TList c lw) (VList items))).
    assert (HLpos : Z.of_nat lw <= L) by (subst L; cbn [encode]; rewrite zlen_app, zlen_le_bytes; pose proof (zlen_nonneg (concat items)); lia).
    rewrite notify_fields_after; auto; [|lia]. cbn [obind].
    rewrite get_at_field by (rewrite lay_length; lia). cbn [obind start_of set_mem m_mem].
    rewrite set_at_field by (rewrite lay_length; lia).
    assert (Hw1 : wr (A' ++ T ++ H' ++ junk) a (le_bytes lw (len - (en - st))) = Ok (EA ++ le_bytes lw (len - (en - st)) ++ hd ++ T ++ H' ++ junk)).
    { subst A'. rewrite <- !app_assoc. apply wr_mid'; [reflexivity|now rewrite !zlen_le_bytes]. }
    rewrite Hw1. cbn [obind].
    assert (Hitems' : Forall (item_ok c) items').
    { subst items'. apply Forall_app. split.
      - apply Forall_forall. intros x Hx. apply (proj1 (Forall_forall _ _) Hitems). eapply In_firstn; eauto.
      - apply Forall_forall. intros x Hx. apply (proj1 (Forall_forall _ _) Hitems). eapply In_skipn; eauto. }
    assert (Hlen' : zlen items' = len - (en - st)).
    { subst items'. rewrite zlen_app. unfold zlen at 1 2. rewrite firstn_length, skipn_length. subst len. unfold zlen in *. lia. }
    assert (Hcat' : concat items' = hd ++ tl) by (subst items' hd tl; now rewrite concat_app).
    assert (Henc' : encs (tsA ++ TList c lw :: tsB) vs' = EA ++ (le_bytes lw (len - (en - st)) ++ hd ++ tl) ++ EB).
    { subst vs'. rewrite encs_app by exact HlenA. rewrite encs_cons. cbn [encode]. rewrite Hlen', Hcat'. reflexivity. }
    assert (Hlay' : lay (tsA ++ TList c lw :: tsB) vs' 0 =
                    lay tsA vsA 0 ++ PList a (esz * (len - (en - st))) :: lay tsB vsB (a + L + - k)).
    { subst vs'. rewrite lay_app by exact HlenA. cbn [lay lay1]. fold EA a. rewrite !Z.add_0_l. rewrite Hlen'. fold esz.
      f_equal. f_equal. f_equal. subst L. cbn [encode]. rewrite Hcat', Hcat, !zlen_app, !zlen_le_bytes, Hrm. lia. }
    eexists. split.
    - rewrite Hlay'. replace ((len - (en - st)) * esz) with (esz * (len - (en - st))) by lia. reflexivity.
    - constructor; cbn [m_mem m_len].
      + apply forallb_app_iff. split; [exact HleafA|]. cbn [forallb leaf]. exact HleafB.
      + exact Hok.
      + subst vs'. rewrite wf_struct_app by exact HlenA. rewrite HwfA. rewrite wf_struct_cons, HwfB. cbn [wf].
        rewrite (proj2 (wf_items_forall c items') Hitems'), Hlen'.
        destruct (len - (en - st) <? 256 ^ Z.of_nat lw) eqn:Ea; [|zb; subst len; lia].
        destruct (Z.of_nat (fsize c) * (len - (en - st)) <? U64_LIMIT) eqn:Eb; [reflexivity|zb; subst esz len; nia].
      + exists (H' ++ junk). rewrite Henc'. subst T. now rewrite <- !app_assoc.
      + cbn [m_len set_mem]. rewrite Henc', Hlen, Hold. rewrite !zlen_app, zlen_le_bytes, Hhd, Htl. subst k. nia.
      + reflexivity.
  Qed.
End remove.

(* ---------------------------------------------------------------------------------------------- *)
(* failing operations: the error is the owned model's and nothing has been touched                 *)
(* (an `Err` outcome of the machine carries no state: the call returned before any write)          *)
Section errors.
  Variables (tsA tsB : list ty) (vsA vsB : list val) (c : fcheck) (lw : nat) (items : list (list Z)).
  Let ts := tsA ++ TList c lw :: tsB.
  Let vs := vsA ++ VList items :: vsB.
  Let esz := Z.of_nat (fsize c).
  Hypothesis HlenA : length tsA = length vsA.

  (* common prefix of both list operations: locate the field, read its length *)
  Lemma list_field_located s top :
    Rep ts vs s top ->
    sub (TStruct ts) top [PF (length tsA)] = Ok (TList c lw, PList (zlen (encs tsA vsA)) (esz * zlen items)) /\
    list_len lw c (m_mem s) (zlen (encs tsA vsA)) (esz * zlen items) = Ok (zlen items) /\
    (fsize c <> 0)%nat.
  Proof.
    intros R. destruct R as [Hleaf Hok Hwf [junk Hmem] Hlen ->].
    subst ts vs. rewrite wf_struct_app in Hwf by exact HlenA. apply andb_true_iff in Hwf as [HwfA HwfLB].
    rewrite wf_struct_cons in HwfLB. apply andb_true_iff in HwfLB as [HwfL HwfB].
    cbn [wf] in HwfL. apply andb_true_iff in HwfL as [HwfL Hitems]. apply andb_true_iff in HwfL as [Hn Hm]. zb.
    apply forallb_app_iff in Hleaf as [HleafA _].
    assert ((lw =? 0)%nat = false /\ (fsize c =? 0)%nat = false) as [Hlw Hes].
    { assert (ty_ok false (TList c lw) = true) as H.
      { destruct tsB as [|t l].
        - apply (ty_ok_struct_app_r true tsA [TList c lw]) in Hok; [|discriminate]. exact Hok.
        - apply (ty_ok_struct_app_r true tsA (TList c lw :: t :: l)) in Hok; [|discriminate].
          rewrite ty_ok_struct_cons in Hok. now apply andb_true_iff in Hok as [Hok _]. }
      cbn [ty_ok] in H. zb. split; assumption. }
    apply Nat.eqb_neq in Hlw, Hes. pose proof (zlen_nonneg items).
    split; [|split; [|exact Hes]].
    - unfold sub. rewrite lay_app by exact HlenA. cbn [lay lay1]. rewrite !Z.add_0_l.
      rewrite get_at_field by (rewrite lay_length; lia). reflexivity.
    - unfold list_len.
      assert (Hrd : rd (m_mem s) (zlen (encs tsA vsA)) (Z.of_nat lw) = Ok (le_bytes lw (zlen items))).
      { rewrite Hmem, encs_app by exact HlenA. rewrite encs_cons. cbn [encode]. rewrite <- !app_assoc.
        apply rd_mid'; [reflexivity|now rewrite zlen_le_bytes]. }
      rewrite Hrd. cbn [obind]. rewrite le_decode_le_bytes by lia. subst esz.
      replace (Z.of_nat (fsize c) * zlen items / Z.of_nat (fsize c)) with (zlen items) by (rewrite Z.mul_comm, Z.div_mul; lia).
      now rewrite Z.eqb_refl.
  Qed.

  Lemma list_insert_index_error s top idx new :
    Rep ts vs s top -> zlen items < idx ->
    list_insert (TStruct ts) s top [PF (length tsA)] idx new = Err E_INDEX.
  Proof.
    intros R Hi. destruct (list_field_located s top R) as (Hs & Hl & _).
    unfold list_insert. rewrite Hs. cbn [obind]. fold esz. rewrite Hl. cbn [obind].
    destruct (zlen items <? idx) eqn:E; [reflexivity|zb; lia].
  Qed.

  Lemma list_insert_prefix_error s top idx new :
    Rep ts vs s top -> idx <= zlen items -> 256 ^ Z.of_nat lw <= zlen items + zlen new ->
    list_insert (TStruct ts) s top [PF (length tsA)] idx new = Err E_TOPRIM.
  Proof.
    intros R Hi Hp. destruct (list_field_located s top R) as (Hs & Hl & _).
    unfold list_insert. rewrite Hs. cbn [obind]. fold esz. rewrite Hl. cbn [obind].
    destruct (zlen items <? idx) eqn:E; [zb; lia|].
    destruct (256 ^ Z.of_nat lw <=? zlen items + zlen new) eqn:E2; [reflexivity|zb; lia].
  Qed.

  (* growth beyond the allocation, or refused by the data access: InvalidRealloc, before any byte moves *)
  Lemma list_insert_realloc_error s top idx new :
    Rep ts vs s top -> 0 <= idx <= zlen items -> zlen items + zlen new < 256 ^ Z.of_nat lw -> new <> [] ->
    (m_refuse s = 1 \/ m_cap s < m_len s + esz * zlen new) ->
    list_insert (TStruct ts) s top [PF (length tsA)] idx new = Err E_REALLOC.
  Proof.
    intros R Hi Hp Hne Hfail. pose proof (rep_top_check _ _ _ _ R) as Hchk.
    destruct (list_field_located s top R) as (Hs & Hl & Hes).
    pose proof R as [_ _ _ [junk Hmem] Hlen Htop].
    unfold list_insert. rewrite Hs. cbn [obind]. fold esz. rewrite Hl. cbn [obind].
    destruct (zlen items <? idx) eqn:E; [zb; lia|].
    destruct (256 ^ Z.of_nat lw <=? zlen items + zlen new) eqn:E2; [zb; lia|].
    unfold add_bytes. rewrite Hchk. cbn [negb].
    assert (0 < esz) by (subst esz; lia).
    assert (0 < zlen new) by (destruct new as [|x l]; [congruence|rewrite zlen_cons; pose proof (zlen_nonneg l); lia]).
    pose proof (zlen_nonneg (encs tsA vsA)). pose proof (zlen_nonneg items).
    assert (zlen (encs tsA vsA) + Z.of_nat lw + esz * zlen items <= m_len s) as Hin.
    { rewrite Hlen. subst ts vs. rewrite encs_app by exact HlenA. rewrite encs_cons. cbn [encode].
      rewrite !zlen_app, zlen_le_bytes.
      destruct R as [_ _ Hwf _ _ _]. rewrite wf_struct_app in Hwf by exact HlenA. apply andb_true_iff in Hwf as [_ Hwf].
      rewrite wf_struct_cons in Hwf. apply andb_true_iff in Hwf as [Hwf _]. cbn [wf] in Hwf.
      apply andb_true_iff in Hwf as [_ Hit]. apply wf_items_forall in Hit.
      rewrite (zlen_concat_fixed items (fsize c)) by (now apply Forall_item_len). fold esz.
      pose proof (zlen_nonneg (encs tsB vsB)). lia. }
    match goal with |- context [if ?b then Err E_PTR_OOB else _] => destruct b eqn:E3 end.
    { apply orb_true_iff in E3. destruct E3; zb; nia. }
    destruct (esz * zlen new =? 0) eqn:E4; [zb; nia|].
    unfold realloc.
    destruct (m_len s <? m_len s + esz * zlen new) eqn:E5; [|zb; nia].
    destruct Hfail as [Hr|Hc].
    - rewrite Hr, Z.eqb_refl. reflexivity.
    - destruct (m_refuse s =? 1); [reflexivity|]. cbn [andb].
      destruct (m_cap s <? m_len s + esz * zlen new) eqn:E6; [reflexivity|zb; lia].
  Qed.

  Lemma list_remove_range_error s top st en :
    Rep ts vs s top -> en < st -> list_remove (TStruct ts) s top [PF (length tsA)] st en = Err E_RANGE.
  Proof.
    intros R Hi. destruct (list_field_located s top R) as (Hs & Hl & _).
    unfold list_remove. rewrite Hs. cbn [obind]. fold esz. rewrite Hl. cbn [obind].
    destruct (en <? st) eqn:E; [reflexivity|zb; lia].
  Qed.

  Lemma list_remove_index_error s top st en :
    Rep ts vs s top -> st <= en -> zlen items < en -> list_remove (TStruct ts) s top [PF (length tsA)] st en = Err E_INDEX.
  Proof.
    intros R Hi Hj. destruct (list_field_located s top R) as (Hs & Hl & _).
    unfold list_remove. rewrite Hs. cbn [obind]. fold esz. rewrite Hl. cbn [obind].
    destruct (en <? st) eqn:E; [zb; lia|]. destruct (zlen items <? en) eqn:E2; [reflexivity|zb; lia].
  Qed.
End errors.

(* ---------------------------------------------------------------------------------------------- *)
(* capacity and the fault-injection flag are untouched by the list operations (any shape)          *)
From SF Require Import Unsized.Proofs.Notify.

Lemma list_insert_frame t s top ps idx new s' top' e :
  list_insert t s top ps idx new = Ok (s', top', e) -> m_cap s' = m_cap s /\ m_refuse s' = m_refuse s.
Proof.
  unfold list_insert. destruct (sub t top ps) as [[lt lp]| | |]; cbn [obind]; try discriminate.
  destruct lt; try discriminate. destruct lp; try discriminate.
  destruct (list_len _ _ _ _ _) as [old| | |]; cbn [obind]; try discriminate.
  destruct (old <? idx); [discriminate|]. destruct (_ <=? _); [discriminate|].
  destruct (add_bytes _ _ _ _ _ _) as [[s1 top1]| | |] eqn:E1; cbn [obind]; try discriminate.
  destruct (sub t top1 ps) as [[lt1 lp1]| | |]; cbn [obind]; try discriminate.
  destruct (wr (m_mem s1) _ _) as [m1| | |] eqn:E2; cbn [obind]; try discriminate.
  destruct (wr m1 _ _) as [m2| | |] eqn:E3; cbn [obind]; try discriminate.
  intros H; injection H as <- _ _. unfold m_cap. cbn [set_mem m_mem m_refuse].
  apply wr_len in E2, E3. pose proof (add_bytes_cap _ _ _ _ _ _ _ _ E1) as Hc. unfold m_cap in Hc.
  split; [lia|eapply add_bytes_refuse; eauto].
Qed.

Lemma list_remove_frame t s top ps st en s' top' e :
  list_remove t s top ps st en = Ok (s', top', e) -> m_cap s' = m_cap s /\ m_refuse s' = m_refuse s.
Proof.
  unfold list_remove. destruct (sub t top ps) as [[lt lp]| | |]; cbn [obind]; try discriminate.
  destruct lt; try discriminate. destruct lp; try discriminate.
  destruct (list_len _ _ _ _ _) as [old| | |]; cbn [obind]; try discriminate.
  destruct (en <? st); [discriminate|]. destruct (old <? en); [discriminate|].
  destruct (remove_bytes _ _ _ _ _ _) as [[s1 top1]| | |] eqn:E1; cbn [obind]; try discriminate.
  destruct (sub t top1 ps) as [[lt1 lp1]| | |]; cbn [obind]; try discriminate.
  destruct (wr (m_mem s1) _ _) as [m1| | |] eqn:E2; cbn [obind]; try discriminate.
  intros H; injection H as <- _ _. unfold m_cap. cbn [set_mem m_mem m_refuse].
  apply wr_len in E2. pose proof (remove_bytes_cap _ _ _ _ _ _ _ _ E1) as Hc. unfold m_cap in Hc.
  split; [lia|eapply remove_bytes_refuse; eauto].
Qed.

(* ---------------------------------------------------------------------------------------------- *)
(* histories                                                                                       *)
Inductive fop :=
| FInsert (i : nat) (idx : Z) (new : list (list Z))     (* field i: Vec::splice(idx..idx, new) *)
| FRemove (i : nat) (st en : Z).                        (* field i: Vec::drain(st..en) *)

Definition mstep (ts : list ty) (s : mach) (top : ptr) (o : fop) : out res :=
  match o with
  | FInsert i idx new => list_insert (TStruct ts) s top [PF i] idx new
  | FRemove i st en => list_remove (TStruct ts) s top [PF i] st en
  end.

Definition item_okb (c : fcheck) (it : list Z) : bool := (length it =? fsize c)%nat && bytes_ok it && fvalid c it.

(* the owned model: Some = the operation succeeds with this new value; None = it fails (value unchanged) *)
Definition ostep (cap : Z) (ts : list ty) (vs : list val) (o : fop) : option (list val) :=
  match o with
  | FInsert i idx new =>
      match nth_error ts i, nth_error vs i with
      | Some (TList c lw), Some (VList items) =>
          if (0 <=? idx) && (idx <=? zlen items) && negb (zlen new =? 0) && forallb (item_okb c) new
             && (zlen items + zlen new <? 256 ^ Z.of_nat lw)
             && (Z.of_nat (fsize c) * (zlen items + zlen new) <? U64_LIMIT)
             && (zlen (encs ts vs) + Z.of_nat (fsize c) * zlen new <=? cap)
          then Some (set_nth i (VList (firstn (Z.to_nat idx) items ++ new ++ skipn (Z.to_nat idx) items)) vs)
          else None
      | _, _ => None
      end
  | FRemove i st en =>
      match nth_error ts i, nth_error vs i with
      | Some (TList c lw), Some (VList items) =>
          if (0 <=? st) && (st <? en) && (en <=? zlen items)
          then Some (set_nth i (VList (firstn (Z.to_nat st) items ++ skipn (Z.to_nat en) items)) vs)
          else None
      | _, _ => None
      end
  end.

Lemma nth_error_split2 {A B} (l1 : list A) (l2 : list B) i x y :
  length l1 = length l2 -> nth_error l1 i = Some x -> nth_error l2 i = Some y ->
  exists a1 b1 a2 b2, l1 = a1 ++ x :: b1 /\ l2 = a2 ++ y :: b2 /\ length a1 = i /\ length a2 = i.
Proof.
  intros Hl H1 H2. apply nth_error_split in H1 as (a1 & b1 & -> & <-). apply nth_error_split in H2 as (a2 & b2 & -> & E).
  exists a1, b1, a2, b2. auto.
Qed.

Lemma set_nth_app' {A} (a : list A) x b y n : length a = n -> set_nth n y (a ++ x :: b) = a ++ y :: b.
Proof. intros <-. apply set_nth_app. Qed.

Theorem flat_step_refines ts vs s top o vs' :
  Rep ts vs s top -> m_refuse s <> 1 -> ostep (m_cap s) ts vs o = Some vs' ->
  exists s', mstep ts s top o = Ok (s', PStruct (lay ts vs' 0), []) /\
             Rep ts vs' s' (PStruct (lay ts vs' 0)) /\ m_cap s' = m_cap s /\ m_refuse s' = m_refuse s.
Proof.
  intros R Hnr Ho. pose proof R as [_ _ Hwf _ Hlen _]. pose proof (wf_struct_lengths _ _ Hwf) as HL.
  destruct o as [i idx new|i st en]; cbn [ostep mstep] in *.
  - destruct (nth_error ts i) as [[| c lw | | | |]|] eqn:E1; try discriminate.
    destruct (nth_error vs i) as [[|items| | |]|] eqn:E2; try discriminate.
    destruct (nth_error_split2 ts vs i _ _ HL E1 E2) as (tsA & tsB & vsA & vsB & -> & -> & HA & HB).
    match type of Ho with (if ?b then _ else _) = _ => destruct b eqn:Eb end; [|discriminate].
    injection Ho as <-. zb.
    rewrite (set_nth_app' _ _ _ _ _ HB). rewrite <- HA.
    assert (Forall (item_ok c) new) as Hnew.
    { apply Forall_forall. intros it Hin. match goal with H : forallb _ new = true |- _ => rewrite forallb_forall in H; specialize (H it Hin) end.
      unfold item_okb in *. zb. match goal with H : (_ =? _)%nat = true |- _ => apply Nat.eqb_eq in H end. unfold item_ok. auto. }
    assert (new <> []) as Hne by (intros ->; change (zlen (@nil (list Z))) with 0 in *; lia).
    destruct (list_insert_refines tsA tsB vsA vsB c lw items new idx ltac:(lia) ltac:(lia) Hnew Hne ltac:(lia) ltac:(lia) s top R Hnr)
      as (s' & Hs & R'); [rewrite Hlen; lia|].
    exists s'. split; [exact Hs|]. split; [exact R'|]. eapply list_insert_frame; eauto.
  - destruct (nth_error ts i) as [[| c lw | | | |]|] eqn:E1; try discriminate.
    destruct (nth_error vs i) as [[|items| | |]|] eqn:E2; try discriminate.
    destruct (nth_error_split2 ts vs i _ _ HL E1 E2) as (tsA & tsB & vsA & vsB & -> & -> & HA & HB).
    match type of Ho with (if ?b then _ else _) = _ => destruct b eqn:Eb end; [|discriminate].
    injection Ho as <-. zb.
    rewrite (set_nth_app' _ _ _ _ _ HB). rewrite <- HA.
    destruct (list_remove_refines tsA tsB vsA vsB c lw items st en ltac:(lia) ltac:(lia) s top R) as (s' & Hs & R').
    exists s'. split; [exact Hs|]. split; [exact R'|]. eapply list_remove_frame; eauto.
Qed.

(* every reachable state of a history of successful operations represents the owned model's value *)
Fixpoint orun (cap : Z) (ts : list ty) (vs : list val) (h : list fop) : option (list val) :=
  match h with
  | [] => Some vs
  | o :: r => match ostep cap ts vs o with Some vs1 => orun cap ts vs1 r | None => None end
  end.

Fixpoint mrun (ts : list ty) (s : mach) (top : ptr) (h : list fop) : out (mach * ptr) :=
  match h with
  | [] => Ok (s, top)
  | o :: r => do ' (s1, top1, _) <- mstep ts s top o; mrun ts s1 top1 r
  end.

Theorem flat_run_refines ts : forall h vs s top vs',
  Rep ts vs s top -> m_refuse s <> 1 -> orun (m_cap s) ts vs h = Some vs' ->
  exists s', mrun ts s top h = Ok (s', PStruct (lay ts vs' 0)) /\ Rep ts vs' s' (PStruct (lay ts vs' 0)).
Proof.
  induction h as [|o h IH]; intros vs s top vs' R Hnr Ho.
  - cbn in Ho. injection Ho as <-. exists s. split; [|destruct R; subst; constructor; auto].
    cbn. destruct R as [_ _ _ _ _ ->]. reflexivity.
  - cbn [orun] in Ho. destruct (ostep (m_cap s) ts vs o) as [vs1|] eqn:E; [|discriminate].
    destruct (flat_step_refines ts vs s top o vs1 R Hnr E) as (s1 & Hs & R1 & Hc & Hr).
    cbn [mrun]. rewrite Hs. cbn [obind]. rewrite <- Hc in Ho.
    apply (IH vs1 s1 _ vs' R1); [congruence|exact Ho].
Qed.

(* ---------------------------------------------------------------------------------------------- *)
(* what is observable in a represented state                                                       *)
Fixpoint owned_ptr_fields (ovf : bool) (ts : list ty) (m : list Z) (ps : list ptr) : out (list val) :=
  match ts, ps with
  | t :: ts', q :: ps' => do v <- owned_ptr ovf t m q; do vs <- owned_ptr_fields ovf ts' m ps'; Ok (v :: vs)
  | _, _ => Ok []
  end.

Lemma owned_ptr_struct ovf ts m ps :
  owned_ptr ovf (TStruct ts) m (PStruct ps) = (do l <- owned_ptr_fields ovf ts m ps; Ok (VStruct l)).
Proof.
  cbn [owned_ptr]. f_equal. revert ps. induction ts as [|t ts IH]; intros [|q ps]; try reflexivity.
  cbn [owned_ptr_fields]. destruct (owned_ptr ovf t m q); cbn [obind]; try reflexivity. now rewrite IH.
Qed.

Lemma owned_ptr_fields_lay ovf ts : forall vs pre post,
  forallb leaf ts = true -> ty_ok true (TStruct ts) = true -> wf (TStruct ts) (VStruct vs) = true ->
  owned_ptr_fields ovf ts (pre ++ encs ts vs ++ post) (lay ts vs (zlen pre)) = Ok vs.
Proof.
  induction ts as [|t ts IH]; intros [|v vs] pre post Hleaf Hok Hwf; try (cbn in Hwf; discriminate); [reflexivity|].
  cbn [forallb] in Hleaf. apply andb_true_iff in Hleaf as [Ht Hts].
  rewrite wf_struct_cons in Hwf. apply andb_true_iff in Hwf as [Hv Hvs].
  rewrite encs_cons. cbn [lay owned_ptr_fields].
  assert (owned_ptr ovf t (pre ++ (encode t v ++ encs ts vs) ++ post) (lay1 t v (zlen pre)) = Ok v) as H1.
  { rewrite <- app_assoc.
    destruct t; try discriminate; destruct v; try (cbn in Hv; discriminate); cbn [lay1 owned_ptr encode].
    - cbn [wf] in Hv. zb. match goal with H : (_ =? _)%nat = true |- _ => apply Nat.eqb_eq in H; rename H into Hl end.
      rewrite rd_mid'; [reflexivity|reflexivity|unfold zlen; lia].
    - cbn [wf] in Hv. apply andb_true_iff in Hv as [Hv Hit]. destruct (wf_list_items _ _ Hit) as [Hlen Hval].
      assert ((fsize c =? 0)%nat = false) as Hes.
      { destruct ts as [|t2 ts].
        - rewrite ty_ok_struct_one in Hok. cbn [ty_ok] in Hok. zb. assumption.
        - rewrite ty_ok_struct_cons in Hok. apply andb_true_iff in Hok as [Hok _]. cbn [ty_ok] in Hok. zb. assumption. }
      apply Nat.eqb_neq in Hes.
      rewrite <- !app_assoc.
      replace (pre ++ le_bytes lw (zlen items) ++ concat items ++ encs ts vs ++ post)
        with ((pre ++ le_bytes lw (zlen items)) ++ concat items ++ encs ts vs ++ post) by (now rewrite <- app_assoc).
      rewrite rd_mid'; [|rewrite zlen_app, zlen_le_bytes; lia|now rewrite (zlen_concat_fixed _ _ Hlen)].
      cbn [obind]. rewrite chunks_concat; [now rewrite Hval|lia|assumption|].
      apply Nat2Z.inj_le. fold (zlen items). fold (zlen (concat items)). rewrite (zlen_concat_fixed _ _ Hlen).
      pose proof (zlen_nonneg items). assert (1 <= Z.of_nat (fsize c)) by lia. nia.
    - rewrite rd_mid'; reflexivity. }
  rewrite H1. cbn [obind].
  specialize (IH vs (pre ++ encode t v) post Hts).
  rewrite zlen_app, <- !app_assoc in IH. rewrite <- !app_assoc. rewrite IH; [reflexivity| |exact Hvs].
  destruct ts as [|t2 ts]; [reflexivity|]. rewrite ty_ok_struct_cons in Hok. now apply andb_true_iff in Hok as [_ Hok].
Qed.

(* C01: the value read through the still-live accessors is the owned model's value;
   C02: the first data_len bytes are the canonical serialization; a fresh parse gives the same value *)
Theorem rep_observable ovf ts vs s top :
  Rep ts vs s top ->
  owned_ptr ovf (TStruct ts) (m_mem s) top = Ok (VStruct vs) /\
  ztake (m_len s) (m_mem s) = encode (TStruct ts) (VStruct vs) /\
  m_len s = byte_size (TStruct ts) (VStruct vs) /\
  parse ovf (TStruct ts) (ztake (m_len s) (m_mem s)) = Ok (VStruct vs, m_len s).
Proof.
  intros [Hleaf Hok Hwf [junk Hmem] Hlen ->].
  assert (ztake (m_len s) (m_mem s) = encs ts vs) as Hb by (rewrite Hmem, Hlen; apply ztake_app_exact).
  repeat split.
  - rewrite owned_ptr_struct, Hmem.
    pose proof (owned_ptr_fields_lay ovf ts vs [] junk Hleaf Hok Hwf) as H. cbn [app] in H.
    change (zlen (@nil Z)) with 0 in H. rewrite H. reflexivity.
  - exact Hb.
  - rewrite Hlen. apply encode_size. exact Hwf.
  - rewrite Hb, Hlen. unfold encs. rewrite (encode_size _ _ Hwf). apply parse_encode; assumption.
Qed.

(* ---------------------------------------------------------------------------------------------- *)
(* borrowing: get_ptr on canonical bytes yields the layout, so a fresh exclusive borrow is represented *)
Fixpoint get_ptr_fields (ovf : bool) (ts : list ty) (m : list Z) (base avail : Z) : out (list ptr * Z) :=
  match ts with
  | [] => Ok ([], 0)
  | t :: r =>
      do ' (p, n) <- get_ptr ovf t m base avail;
      do ' (ps, k) <- get_ptr_fields ovf r m (base + n) (avail - n);
      Ok (p :: ps, n + k)
  end.

Lemma get_ptr_struct ovf ts m base avail :
  get_ptr ovf (TStruct ts) m base avail = (do ' (ps, n) <- get_ptr_fields ovf ts m base avail; Ok (PStruct ps, n)).
Proof.
  cbn [get_ptr]. f_equal. revert base avail. induction ts as [|t ts IH]; intros base avail; [reflexivity|].
  cbn [get_ptr_fields]. destruct (get_ptr ovf t m base avail) as [[p n]| | |]; cbn [obind]; try reflexivity. now rewrite IH.
Qed.

Lemma get_ptr_fields_lay ovf ts : forall vs pre post,
  forallb leaf ts = true -> ty_ok true (TStruct ts) = true -> wf (TStruct ts) (VStruct vs) = true ->
  get_ptr_fields ovf ts (pre ++ encs ts vs ++ post) (zlen pre) (zlen (encs ts vs)) = Ok (lay ts vs (zlen pre), zlen (encs ts vs)).
Proof.
  induction ts as [|t ts IH]; intros [|v vs] pre post Hleaf Hok Hwf; try (cbn in Hwf; discriminate); [reflexivity|].
  cbn [forallb] in Hleaf. apply andb_true_iff in Hleaf as [Ht Hts].
  rewrite wf_struct_cons in Hwf. apply andb_true_iff in Hwf as [Hv Hvs].
  rewrite encs_cons. cbn [lay get_ptr_fields].
  pose proof (zlen_nonneg (encode t v)) as He0. pose proof (zlen_nonneg (encs ts vs)) as Hr0.
  assert (get_ptr ovf t (pre ++ (encode t v ++ encs ts vs) ++ post) (zlen pre) (zlen (encode t v ++ encs ts vs))
          = Ok (lay1 t v (zlen pre), zlen (encode t v))) as H1.
  { rewrite <- app_assoc, zlen_app.
    destruct t; try discriminate; destruct v; try (cbn in Hv; discriminate); cbn [lay1 get_ptr encode] in *.
    - cbn [wf] in Hv. zb. match goal with H : (_ =? _)%nat = true |- _ => apply Nat.eqb_eq in H; rename H into Hl end.
      assert (zlen bs = Z.of_nat (fsize c)) as Hz by (unfold zlen; lia).
      destruct (zlen bs + zlen (encs ts vs) <? Z.of_nat (fsize c)) eqn:E; [zb; lia|].
      rewrite rd_mid'; [|reflexivity|lia]. cbn [obind].
      match goal with H : fvalid c bs = true |- _ => rewrite H end. now rewrite Hz.
    - cbn [wf] in Hv. apply andb_true_iff in Hv as [Hv Hit]. apply andb_true_iff in Hv as [Hn Hm]. zb.
      destruct (wf_list_items _ _ Hit) as [Hlen Hval].
      pose proof (zlen_concat_fixed _ _ Hlen) as Hbody. pose proof (zlen_nonneg items).
      rewrite zlen_app, zlen_le_bytes in *. pose proof (zlen_nonneg (concat items)).
      destruct (_ <? Z.of_nat lw) eqn:E; [zb; lia|].
      rewrite <- !app_assoc. rewrite rd_mid'; [|reflexivity|now rewrite zlen_le_bytes]. cbn [obind].
      rewrite le_decode_le_bytes by lia.
      destruct (U64_LIMIT <=? _) eqn:E2; [zb; lia|]. cbn [andb].
      rewrite Z.mod_small by (split; [apply Z.mul_nonneg_nonneg; lia|lia]).
      destruct (_ <? Z.of_nat (fsize c) * zlen items) eqn:E3; [zb; lia|].
      rewrite Hbody. reflexivity.
    - (* RemainingBytes is last: nothing follows *)
      destruct ts as [|t2 ts]; [|rewrite ty_ok_struct_cons in Hok; apply andb_true_iff in Hok as [Hok _]; cbn in Hok; discriminate].
      destruct vs; [|cbn in Hvs; discriminate]. change (encs [] []) with (@nil Z). change (zlen (@nil Z)) with 0.
      rewrite Z.add_0_r. reflexivity. }
  rewrite H1. cbn [obind].
  specialize (IH vs (pre ++ encode t v) post Hts).
  rewrite zlen_app, <- !app_assoc in IH. rewrite <- !app_assoc.
  replace (zlen (encode t v ++ encs ts vs) - zlen (encode t v)) with (zlen (encs ts vs)) by (rewrite zlen_app; lia).
  rewrite IH; [cbn [obind]; now rewrite zlen_app| |exact Hvs].
  destruct ts as [|t2 ts]; [reflexivity|]. rewrite ty_ok_struct_cons in Hok. now apply andb_true_iff in Hok as [_ Hok].
Qed.

Theorem rep_borrow ovf ts vs s :
  forallb leaf ts = true -> ty_ok true (TStruct ts) = true -> wf (TStruct ts) (VStruct vs) = true ->
  (exists junk, m_mem s = encs ts vs ++ junk) -> m_len s = zlen (encs ts vs) ->
  exists top, get_ptr ovf (TStruct ts) (m_mem s) 0 (m_len s) = Ok (top, m_len s) /\ Rep ts vs s top.
Proof.
  intros Hleaf Hok Hwf [junk Hmem] Hlen.
  exists (PStruct (lay ts vs 0)). split.
  - rewrite get_ptr_struct, Hmem, Hlen.
    pose proof (get_ptr_fields_lay ovf ts vs [] junk Hleaf Hok Hwf) as H. cbn [app] in H.
    change (zlen (@nil Z)) with 0 in H. rewrite H. reflexivity.
  - constructor; auto. exists junk. exact Hmem.
Qed.
