(* Paths into a value (struct field / element of a list of unsized elements), the byte context of the
   sub-value a path leads to, and the layout relation focused along a path.  Definitions and small facts;
   the theorems about them are in Context.v (bytes), Focus.v (pointer trees) and NotifyInside.v. *)
From SF Require Import Base.Prelude Gen.Generated Unsized.Types Unsized.Parse Unsized.Machine Unsized.Ops.
From SF Require Import Unsized.Proofs.EncodeParse Unsized.Proofs.Mem Unsized.Proofs.Notify Unsized.Proofs.Flat Unsized.Proofs.Layout Unsized.Proofs.Table.
From SF Require Import Unsized.Proofs.EnumFacts.

Arguments Z.add : simpl never.
Arguments Z.sub : simpl never.
Arguments Z.mul : simpl never.
Arguments Z.of_nat : simpl never.
Arguments Z.pow : simpl never.
Arguments Z.modulo : simpl never.

Inductive step := SF (i : nat) | SE (i : nat) | SV.   (* struct field / element of a list of unsized elements / the live variant's payload *)

(* the machine's path: an element step goes through the recorded inner pointer *)
Definition mstep_of (s : step) : pos := match s with SF i => PF i | SE _ => PI | SV => PV end.
Definition mpath (pi : list step) : list pos := map mstep_of pi.

Fixpoint resolve (t : ty) (v : val) (pi : list step) {struct pi} : option (ty * val) :=
  match pi with
  | [] => Some (t, v)
  | SF i :: r =>
      match t, v with
      | TStruct ts, VStruct vs =>
          match nth_error ts i, nth_error vs i with
          | Some ti, Some vi => resolve ti vi r
          | _, _ => None
          end
      | _, _ => None
      end
  | SE i :: r =>
      match t, v with
      | TUList it _, VUList items =>
          match nth_error items i with
          | Some kv => resolve it (snd kv) r
          | None => None
          end
      | _, _ => None
      end
  | SV :: r =>
      match t, v with
      | TEnum _ vs, VEnum d p =>
          match find_variant d vs with
          | Some vt => resolve vt p r
          | None => None
          end
      | _, _ => None
      end
  end.

(* replace the sub-value at the path *)
Fixpoint plug (t : ty) (v : val) (pi : list step) (x : val) {struct pi} : val :=
  match pi with
  | [] => x
  | SF i :: r =>
      match t, v with
      | TStruct ts, VStruct vs =>
          match nth_error ts i, nth_error vs i with
          | Some ti, Some vi => VStruct (set_nth i (plug ti vi r x) vs)
          | _, _ => v
          end
      | _, _ => v
      end
  | SE i :: r =>
      match t, v with
      | TUList it _, VUList items =>
          match nth_error items i with
          | Some kv => VUList (set_nth i (fst kv, plug it (snd kv) r x) items)
          | None => v
          end
      | _, _ => v
      end
  | SV :: r =>
      match t, v with
      | TEnum _ vs, VEnum d p =>
          match find_variant d vs with
          | Some vt => VEnum d (plug vt p r x)
          | None => v
          end
      | _, _ => v
      end
  end.

(* the 12 + n * (4 + k) header bytes of a list of unsized elements whose elements have the given sizes *)
Definition uhdr (sizes : list Z) (keys : list (list Z)) : list Z :=
  le_bytes 4 (zsum sizes) ++ le_bytes 4 (zlen keys) ++ concat (offset_entries (offsets_from 0 sizes) keys)
  ++ le_bytes 4 (zlen keys).

(* the bytes of `encode t v` before and after the sub-value at the path, where every ancestor list of unsized
   elements on the path accounts for a sub-value that is d bytes LONGER than the one v holds (d = 0: the context
   as it is; d = c: the context after the sub-value grew by c) *)
Fixpoint hctx (t : ty) (v : val) (pi : list step) (d : Z) {struct pi} : list Z * list Z :=
  match pi with
  | [] => ([], [])
  | SF i :: r =>
      match t, v with
      | TStruct ts, VStruct vs =>
          match nth_error ts i, nth_error vs i with
          | Some ti, Some vi =>
              let '(P, Q) := hctx ti vi r d in
              (encs (firstn i ts) (firstn i vs) ++ P, Q ++ encs (skipn (S i) ts) (skipn (S i) vs))
          | _, _ => ([], [])
          end
      | _, _ => ([], [])
      end
  | SE i :: r =>
      match t, v with
      | TUList it k, VUList items =>
          match nth_error items i with
          | Some kv =>
              let '(P, Q) := hctx it (snd kv) r d in
              (uhdr (bump i d (usizes it items)) (map fst items) ++ concat (firstn i (uenc it items)) ++ P,
               Q ++ concat (skipn (S i) (uenc it items)))
          | None => ([], [])
          end
      | _, _ => ([], [])
      end
  | SV :: r =>
      match t, v with
      | TEnum rw vs, VEnum dd p =>
          match find_variant dd vs with
          | Some vt => let '(P, Q) := hctx vt p r d in (le_bytes rw dd ++ P, Q)
          | None => ([], [])
          end
      | _, _ => ([], [])
      end
  end.

(* address of the sub-value when the value sits at b *)
Definition addr_of (t : ty) (v : val) (pi : list step) (b : Z) : Z := b + zlen (fst (hctx t v pi 0)).

(* containers: the types whose values resize themselves *)
Definition container (t : ty) : bool := match t with TList _ _ | TRem | TUList _ _ => true | _ => false end.

(* what a container's own pointer becomes when it is notified of its own resize (source = its own address):
   lists and trailing bytes keep their metadata (the operation updates it afterwards), a list of unsized elements
   extends its range *)
Definition own_notify (p : ptr) (c : Z) : ptr :=
  match p with
  | PUList a n inner pmb rs re => PUList a n inner pmb rs (re + c)
  | _ => p
  end.

(* the layout relation focused along a path: off the path it is Lay; every list of unsized elements ON the path
   records the pointer of exactly the element the path goes through; the node the path ends in satisfies E *)
Fixpoint LayP (E : ty -> val -> Z -> ptr -> Prop) (pi : list step) (t : ty) (v : val) (b : Z) (p : ptr) {struct pi} : Prop :=
  match pi with
  | [] => E t v b p
  | SF i :: r =>
      match t, v, p with
      | TStruct ts, VStruct vs, PStruct ps =>
          exists ti vi pi',
            nth_error ts i = Some ti /\ nth_error vs i = Some vi /\ nth_error ps i = Some pi' /\
            Lay_fields (firstn i ts) (firstn i vs) (firstn i ps) b /\
            LayP E r ti vi (b + zlen (encs (firstn i ts) (firstn i vs))) pi' /\
            Lay_fields (skipn (S i) ts) (skipn (S i) vs) (skipn (S i) ps)
                       (b + zlen (encs (firstn i ts) (firstn i vs)) + zlen (encode ti vi))
      | _, _, _ => False
      end
  | SE i :: r =>
      match t, v, p with
      | TUList it k, VUList items, PUList a n inner pmb rs re =>
          a = b /\ n = zlen items /\ rs = b /\ re = b + zlen (encode (TUList it k) (VUList items)) /\
          exists kv q, nth_error items i = Some kv /\ inner = Some q /\
                       LayP E r it (snd kv) (elem_addr it k items b i) q
      | _, _, _ => False
      end
  | SV :: r =>
      match t, v, p with
      | TEnum rw vs, VEnum d pv, PEnum st d' q =>
          st = b /\ d' = d /\ exists vt, find_variant d vs = Some vt /\ LayP E r vt pv (b + Z.of_nat rw) q
      | _, _, _ => False
      end
  end.

(* sanity: on a concrete nested value the context brackets the sub-value's encoding, before and after a change *)
Example hctx_example :
  let t := TStruct [TList (FAny 1) 4; TUList (TStruct [TFixed (FAny 2); TList (FAny 1) 1]) 0; TList (FAny 1) 4] in
  let e x y := VStruct [VBytes [x; x]; VList y] in
  let v := VStruct [VList [[1]]; VUList [([], e 3 [[5]; [6]]); ([], e 4 []); ([], e 5 [[9]])]; VList [[9]]] in
  let pi := [SF 1; SE 1; SF 1] in
  let x' := VList [[7]; [7]; [7]] in
  resolve t v pi = Some (TList (FAny 1) 1, VList []) /\
  (let '(P, Q) := hctx t v pi 0 in encode t v = P ++ encode (TList (FAny 1) 1) (VList []) ++ Q) /\
  (let '(P, Q) := hctx t v pi 3 in encode t (plug t v pi x') = P ++ encode (TList (FAny 1) 1) x' ++ Q) /\
  zlen (fst (hctx t v pi 3)) = zlen (fst (hctx t v pi 0)) /\
  addr_of t v pi 0 = 5 + (12 + 12) + 5 + 2.
Proof. vm_compute. repeat split; reflexivity. Qed.
