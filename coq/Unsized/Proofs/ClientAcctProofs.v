(* C05, client-side account helpers: round trip behind the discriminant, and rejection of every other discriminant. *)
From SF Require Import Base.Prelude Gen.Generated Unsized.SizedInit Unsized.Proofs.SizedInitProofs Unsized.ClientAcct.
From SF Require Import Unsized.Proofs.EncodeParse.

Lemma firstn_app_exact {A} (a b : list A) : firstn (length a) (a ++ b) = a.
Proof. now rewrite firstn_app, Nat.sub_diag, firstn_O, app_nil_r, firstn_all. Qed.

Lemma skipn_app_exact {A} (a b : list A) : skipn (length a) (a ++ b) = b.
Proof. now rewrite skipn_app, Nat.sub_diag, skipn_all, skipn_O. Qed.

Lemma firstn_app_len {A} (a b : list A) k : length a = k -> firstn k (a ++ b) = a.
Proof. intros <-. apply firstn_app_exact. Qed.

Lemma skipn_app_len {A} (a b : list A) k : length a = k -> skipn k (a ++ b) = b.
Proof. intros <-. apply skipn_app_exact. Qed.

Lemma zlist_eqb_false a b : a <> b -> zlist_eqb a b = false.
Proof. intros H. destruct (zlist_eqb a b) eqn:E; [apply zlist_eqb_eq in E; contradiction|reflexivity]. Qed.

(* deserializing what serialize_account wrote gives the value back *)
Theorem client_roundtrip d bs :
  zlen bs < 256 ^ 4 -> client_de d (client_ser d bs) = Some bs.
Proof.
  intros Hn. unfold client_de, client_ser, body_ser.
  rewrite firstn_app_exact, zlist_eqb_refl, skipn_app_exact.
  assert (length (le_bytes 4 (zlen bs)) = 4%nat) as H4 by apply le_bytes_length.
  assert ((length (le_bytes 4 (zlen bs) ++ bs) <? 4)%nat = false) as Hl.
  { apply Nat.ltb_ge. rewrite app_length, H4. lia. }
  rewrite Hl. rewrite (firstn_app_len _ bs 4%nat H4), (skipn_app_len _ bs 4%nat H4).
  assert (0 <= zlen bs < 256 ^ Z.of_nat 4) as Hr.
  { pose proof (zlen_nonneg bs). replace (256 ^ Z.of_nat 4) with (256 ^ 4) by reflexivity. split; [assumption|exact Hn]. }
  rewrite (le_decode_le_bytes 4 (zlen bs) Hr). now rewrite Z.eqb_refl.
Qed.

(* data whose discriminant prefix differs is rejected, whatever follows *)
Theorem client_rejects_other_discriminant d data :
  firstn (length d) data <> d -> client_de d data = None.
Proof. intros H. unfold client_de. now rewrite (zlist_eqb_false _ _ H). Qed.

(* in particular the serialization of the same value under ANOTHER discriminant of the same width *)
Corollary client_rejects_sibling_account d d' bs :
  length d' = length d -> d' <> d -> client_de d (client_ser d' bs) = None.
Proof.
  intros Hl Hne. apply client_rejects_other_discriminant. unfold client_ser. rewrite <- Hl, firstn_app_exact. exact Hne.
Qed.

Example client_nonvacuous :
  client_de [1; 2] (client_ser [1; 2] [7; 8; 9]) = Some [7; 8; 9] /\ client_de [1; 2] (client_ser [1; 3] [7; 8; 9]) = None /\
  run_c05c [2; 1; 2; 1; 7; 7; 1; 3; 1; 0; 0; 0; 7] = [7; 1; 2; 1; 0; 0; 0; 7; 1].
Proof. vm_compute. repeat split; reflexivity. Qed.

Print Assumptions client_roundtrip.
Print Assumptions client_rejects_other_discriminant.
Print Assumptions client_rejects_sibling_account.
