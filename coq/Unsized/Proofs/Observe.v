(* Observability through ANY layout: reading a value with owned_from_ptr through a pointer tree related to it
   by `Lay` (the canonical tree up to what lists of unsized elements remember about the element last handed
   out) yields the value, for every enum-free shape - structs, lists, trailing bytes, lists (k = 0) and maps
   (k > 0) of unsized elements nested to any depth.  This is the general-shape version of
   Flat.owned_ptr_fields_lay. *)
From SF Require Import Base.Prelude Gen.Generated Unsized.Types Unsized.Parse Unsized.Machine Unsized.Ops.
From SF Require Import Unsized.Proofs.EncodeParse Unsized.Proofs.Mem Unsized.Proofs.Notify Unsized.Proofs.Flat Unsized.Proofs.Layout.
From SF Require Import Unsized.Proofs.EnumFacts.

Arguments Z.add : simpl never.
Arguments Z.sub : simpl never.
Arguments Z.mul : simpl never.
Arguments Z.of_nat : simpl never.
Arguments Z.pow : simpl never.
Arguments Z.modulo : simpl never.

Definition own_stmt (ovf : bool) (t : ty) : Prop :=
  forall last v p pre post, plain t = true -> ty_ok last t = true -> wf t v = true -> Lay t v (zlen pre) p ->
    owned_ptr ovf t (pre ++ encode t v ++ post) p = Ok v.

(* ---------------------------------------------------------------------------------------------- *)
(* the element loops of owned_from_ptr on a list / map of unsized elements                          *)
Section uloops.
  Variables (ovf : bool) (it : ty).

  Definition oloop0 (m : list Z) (usz dbase : Z) :=
    fix go (ents : list (Z * list Z)) : out (list (list Z * val)) :=
      match ents with
      | [] => Ok []
      | (off, key) :: r =>
          if usz <? off then Panic else
          do ' (q, _) <- get_ptr ovf it m (dbase + off) (usz - off);
          do v <- owned_ptr ovf it m q;
          do vs <- go r;
          Ok ((key, v) :: vs)
      end.

  Definition nxt (usz : Z) (r : list (Z * list Z)) : Z :=
    match r with (o2, _) :: _ => o2 | [] => usz end.

  Definition oloopk (m : list Z) (usz dbase : Z) :=
    fix go (ents : list (Z * list Z)) : out (list (list Z * val)) :=
      match ents with
      | [] => Ok []
      | (off, key) :: r =>
          let en := match r with (o2, _) :: _ => o2 | [] => usz end in
          if (en <? off) || (usz <? en) then Err EC_POINTER_OUT_OF_BOUNDS else
          match get_ptr ovf it m (dbase + off) (en - off) with
          | Ok (q, _) => do v <- owned_ptr ovf it m q; do vs <- go r; Ok ((key, v) :: vs)
          | Err _ => Ok []
          | Panic => Panic
          | Fault => Fault
          end
      end.

  Lemma owned_ptr_ulist k m a n inner pmb rs re :
    owned_ptr ovf (TUList it k) m (PUList a n inner pmb rs re) =
    (do usz <- rd32 m a;
     do ob <- rd m (a + 8) (n * (4 + Z.of_nat k));
     if (k =? 0)%nat then
       do l <- oloop0 m usz (a + 8 + n * (4 + Z.of_nat k) + 4) (split_entries k n ob); Ok (VUList l)
     else
       do l <- oloopk m usz (a + 8 + n * (4 + Z.of_nat k) + 4) (split_entries k n ob); Ok (VUList (bt_collect l))).
  Proof. reflexivity. Qed.

  Lemma oloop0_cons m usz dbase off key r :
    oloop0 m usz dbase ((off, key) :: r) =
    if usz <? off then Panic else
    do ' (q, _) <- get_ptr ovf it m (dbase + off) (usz - off);
    do v <- owned_ptr ovf it m q;
    do vs <- oloop0 m usz dbase r;
    Ok ((key, v) :: vs).
  Proof. reflexivity. Qed.

  Lemma oloopk_cons m usz dbase off key r :
    oloopk m usz dbase ((off, key) :: r) =
    if (nxt usz r <? off) || (usz <? nxt usz r) then Err EC_POINTER_OUT_OF_BOUNDS else
    match get_ptr ovf it m (dbase + off) (nxt usz r - off) with
    | Ok (q, _) => do v <- owned_ptr ovf it m q; do vs <- oloopk m usz dbase r; Ok ((key, v) :: vs)
    | Err _ => Ok []
    | Panic => Panic
    | Fault => Fault
    end.
  Proof. reflexivity. Qed.

  Lemma uenc_cons key v items : uenc it ((key, v) :: items) = encode it v :: uenc it items.
  Proof. reflexivity. Qed.
  Lemma usizes_cons key v items : usizes it ((key, v) :: items) = zlen (encode it v) :: usizes it items.
  Proof. reflexivity. Qed.

  (* what the induction on the shape provides for the element type *)
  Hypothesis Hgp : forall v pre post extra, wf it v = true -> 0 <= extra -> extra <= zlen post ->
    get_ptr ovf it (pre ++ encode it v ++ post) (zlen pre) (zlen (encode it v) + extra)
    = Ok (lay0 it v (zlen pre), zlen (encode it v)).
  Hypothesis Hown : forall v pre post, wf it v = true ->
    owned_ptr ovf it (pre ++ encode it v ++ post) (lay0 it v (zlen pre)) = Ok v.

  Lemma oloop0_ok (M0 post : list Z) (items : list (list Z * val)) : forall (D m : list Z) (usz : Z),
    forallb (fun kv => wf it (snd kv)) items = true ->
    m = M0 ++ D ++ concat (uenc it items) ++ post ->
    usz = zlen D + zlen (concat (uenc it items)) ->
    oloop0 m usz (zlen M0) (combine (offsets_from (zlen D) (usizes it items)) (map fst items)) = Ok items.
  Proof.
    induction items as [|[key v] items IH]; intros D m usz Hwf Hm Hu; [reflexivity|].
    cbn [forallb snd] in Hwf. apply andb_true_iff in Hwf as [Hv Hr].
    rewrite uenc_cons in Hm, Hu. rewrite usizes_cons. cbn [concat] in Hm, Hu.
    cbn [map fst offsets_from combine]. rewrite oloop0_cons.
    set (rest := concat (uenc it items)) in *.
    pose proof (zlen_nonneg D). pose proof (zlen_nonneg (encode it v)). pose proof (zlen_nonneg rest).
    rewrite zlen_app in Hu.
    destruct (usz <? zlen D) eqn:E; [zb; lia|].
    assert (m = (M0 ++ D) ++ encode it v ++ (rest ++ post)) as Hm2 by (rewrite Hm; now rewrite <- !app_assoc).
    assert (get_ptr ovf it m (zlen M0 + zlen D) (usz - zlen D) = Ok (lay0 it v (zlen (M0 ++ D)), zlen (encode it v))) as G.
    { rewrite Hm2. replace (zlen M0 + zlen D) with (zlen (M0 ++ D)) by (rewrite zlen_app; lia).
      replace (usz - zlen D) with (zlen (encode it v) + zlen rest) by lia.
      apply Hgp; [exact Hv|lia|rewrite zlen_app; pose proof (zlen_nonneg post); lia]. }
    rewrite G. cbn [obind].
    assert (owned_ptr ovf it m (lay0 it v (zlen (M0 ++ D))) = Ok v) as O by (rewrite Hm2; apply Hown; exact Hv).
    rewrite O. cbn [obind].
    specialize (IH (D ++ encode it v) m usz Hr).
    rewrite zlen_app in IH. rewrite IH; [reflexivity| |fold rest; lia].
    rewrite Hm. fold rest. now rewrite <- !app_assoc.
  Qed.

  Lemma oloopk_ok (M0 post : list Z) (items : list (list Z * val)) : forall (D m : list Z) (usz : Z),
    forallb (fun kv => wf it (snd kv)) items = true ->
    m = M0 ++ D ++ concat (uenc it items) ++ post ->
    usz = zlen D + zlen (concat (uenc it items)) ->
    oloopk m usz (zlen M0) (combine (offsets_from (zlen D) (usizes it items)) (map fst items)) = Ok items.
  Proof.
    induction items as [|[key v] items IH]; intros D m usz Hwf Hm Hu; [reflexivity|].
    cbn [forallb snd] in Hwf. apply andb_true_iff in Hwf as [Hv Hr].
    rewrite uenc_cons in Hm, Hu. rewrite usizes_cons. cbn [concat] in Hm, Hu.
    cbn [map fst offsets_from combine]. rewrite oloopk_cons.
    assert (nxt usz (combine (offsets_from (zlen D + zlen (encode it v)) (usizes it items)) (map fst items))
            = zlen D + zlen (encode it v)) as Hen.
    { destruct items as [|[k2 v2] items']; [|reflexivity].
      cbn [map combine nxt]. rewrite Hu. unfold uenc. cbn [map concat]. now rewrite app_nil_r. }
    rewrite Hen.
    set (rest := concat (uenc it items)) in *.
    pose proof (zlen_nonneg D). pose proof (zlen_nonneg (encode it v)). pose proof (zlen_nonneg rest).
    rewrite zlen_app in Hu.
    match goal with |- context [if ?c then _ else _] => destruct c eqn:E end.
    { exfalso. apply orb_true_iff in E. destruct E; zb; lia. }
    assert (m = (M0 ++ D) ++ encode it v ++ (rest ++ post)) as Hm2 by (rewrite Hm; now rewrite <- !app_assoc).
    assert (get_ptr ovf it m (zlen M0 + zlen D) (zlen D + zlen (encode it v) - zlen D)
            = Ok (lay0 it v (zlen (M0 ++ D)), zlen (encode it v))) as G.
    { rewrite Hm2. replace (zlen M0 + zlen D) with (zlen (M0 ++ D)) by (rewrite zlen_app; lia).
      replace (zlen D + zlen (encode it v) - zlen D) with (zlen (encode it v) + 0) by lia.
      apply Hgp; [exact Hv|lia|rewrite zlen_app; pose proof (zlen_nonneg post); lia]. }
    rewrite G.
    assert (owned_ptr ovf it m (lay0 it v (zlen (M0 ++ D))) = Ok v) as O by (rewrite Hm2; apply Hown; exact Hv).
    rewrite O. cbn [obind].
    specialize (IH (D ++ encode it v) m usz Hr).
    rewrite zlen_app in IH. rewrite IH; [reflexivity| |fold rest; lia].
    rewrite Hm. fold rest. now rewrite <- !app_assoc.
  Qed.

  (* the list / map itself, through any recorded inner pointer, borrow flag and range *)
  Lemma owned_ptr_ulist_any k items pre post inner pmb rs re :
    wf (TUList it k) (VUList items) = true ->
    owned_ptr ovf (TUList it k) (pre ++ encode (TUList it k) (VUList items) ++ post)
      (PUList (zlen pre) (zlen items) inner pmb rs re) = Ok (VUList items).
  Proof.
    intros Hwf.
    assert ((k =? 0)%nat || strictly_ascending (map (fun kv => le_decode (fst kv)) items) = true) as Hsorted.
    { pose proof Hwf as W. cbn [wf] in W. apply andb_true_iff in W as [W _]. apply andb_true_iff in W as [_ W]. exact W. }
    pose proof (ulist_facts _ _ _ Hwf) as F. destruct F as [Hn Hu Hwfs Hk Ht Hd Hoffs Hents].
    rewrite owned_ptr_ulist.
    set (n := zlen items) in *. set (usz := zsum (usizes it items)) in *.
    set (M0 := pre ++ le_bytes 4 usz ++ le_bytes 4 n ++ utable it items ++ le_bytes 4 n).
    remember (pre ++ encode (TUList it k) (VUList items) ++ post) as m eqn:Hm.
    rewrite encode_ulist in Hm. fold n usz in Hm. rewrite <- !app_assoc in Hm.
    assert (rd32 m (zlen pre) = Ok usz) as R1 by (rewrite Hm; apply rd32_mid; [reflexivity|lia]).
    assert (rd m (zlen pre + 8) (n * (4 + Z.of_nat k)) = Ok (utable it items)) as R2.
    { rewrite Hm.
      replace (pre ++ le_bytes 4 usz ++ le_bytes 4 n ++ utable it items ++ le_bytes 4 n ++ concat (uenc it items) ++ post)
        with ((pre ++ le_bytes 4 usz ++ le_bytes 4 n) ++ utable it items ++ le_bytes 4 n ++ concat (uenc it items) ++ post)
        by (now rewrite <- !app_assoc).
      apply rd_mid'; [rewrite !zlen_app, !zlen_le_bytes; lia|now rewrite Ht]. }
    assert (zlen pre + 8 + n * (4 + Z.of_nat k) + 4 = zlen M0) as HM0.
    { unfold M0. rewrite !zlen_app, !zlen_le_bytes, Ht. lia. }
    assert (m = M0 ++ [] ++ concat (uenc it items) ++ post) as Hm0.
    { rewrite Hm. unfold M0. cbn [app]. now rewrite <- !app_assoc. }
    assert (usz = zlen (@nil Z) + zlen (concat (uenc it items))) as Hu0.
    { change (zlen (@nil Z)) with 0. rewrite Hd. unfold usz. lia. }
    rewrite R1. cbn [obind]. rewrite R2. cbn [obind]. rewrite Hents, HM0.
    destruct (k =? 0)%nat eqn:Ek.
    - pose proof (oloop0_ok M0 post items [] m usz Hwfs Hm0 Hu0) as L.
      change (zlen (@nil Z)) with 0 in L. rewrite L. reflexivity.
    - pose proof (oloopk_ok M0 post items [] m usz Hwfs Hm0 Hu0) as L.
      change (zlen (@nil Z)) with 0 in L. rewrite L. cbn [obind].
      cbn [orb] in Hsorted. rewrite bt_collect_sorted; [reflexivity|exact Hsorted].
  Qed.
End uloops.

(* ---------------------------------------------------------------------------------------------- *)
Theorem owned_ptr_Lay ovf : forall t, own_stmt ovf t.
Proof.
  induction t as [c|c lw| |it k IH|ts IH|rw vs IH] using ty_ind'; intros last v p pre post Hpl Hok Hwf HL.
  - (* fixed *)
    destruct v as [bs| | | |]; try (cbn in Hwf; discriminate). destruct p; try (cbn [Lay] in HL; contradiction).
    cbn [Lay] in HL. subst addr.
    cbn [wf] in Hwf. zb. match goal with H : (_ =? _)%nat = true |- _ => apply Nat.eqb_eq in H; rename H into Hl end.
    cbn [owned_ptr encode]. rewrite rd_mid'; [reflexivity|reflexivity|unfold zlen; lia].
  - (* list *)
    destruct v as [|items| | |]; try (cbn in Hwf; discriminate). destruct p; try (cbn [Lay] in HL; contradiction).
    cbn [Lay] in HL. destruct HL as [-> ->].
    cbn [wf] in Hwf. apply andb_true_iff in Hwf as [Hwf Hit]. destruct (wf_list_items _ _ Hit) as [Hlen Hval].
    cbn [ty_ok] in Hok. zb. repeat match goal with H : (_ =? _)%nat = false |- _ => apply Nat.eqb_neq in H end.
    cbn [owned_ptr encode]. rewrite <- !app_assoc.
    replace (pre ++ le_bytes lw (zlen items) ++ concat items ++ post)
      with ((pre ++ le_bytes lw (zlen items)) ++ concat items ++ post) by (now rewrite <- app_assoc).
    rewrite rd_mid'; [|rewrite zlen_app, zlen_le_bytes; lia|now rewrite (zlen_concat_fixed _ _ Hlen)].
    cbn [obind]. rewrite chunks_concat; [now rewrite Hval|lia|assumption|].
    apply Nat2Z.inj_le. fold (zlen items). fold (zlen (concat items)). rewrite (zlen_concat_fixed _ _ Hlen).
    pose proof (zlen_nonneg items). assert (1 <= Z.of_nat (fsize c)) by lia. nia.
  - (* remaining bytes *)
    destruct v as [bs| | | |]; try (cbn in Hwf; discriminate). destruct p; try (cbn [Lay] in HL; contradiction).
    cbn [Lay] in HL. destruct HL as [-> ->].
    cbn [owned_ptr encode]. rewrite rd_mid'; reflexivity.
  - (* list / map of unsized elements *)
    destruct v as [| |items| |]; try (cbn in Hwf; discriminate).
    destruct p as [| | |a n inner pmb rs re| |]; try (cbn [Lay] in HL; contradiction).
    cbn [Lay] in HL. destruct HL as (-> & -> & _).
    cbn [plain] in Hpl. cbn [ty_ok] in Hok.
    apply owned_ptr_ulist_any; [| |exact Hwf].
    + intros v0 pre0 post0 extra Hv0 He0 He1.
      apply (get_ptr_lay0 ovf it false v0 pre0 post0 extra Hpl Hok Hv0 He0); [discriminate|exact He1].
    + intros v0 pre0 post0 Hv0.
      apply (IH false v0 _ pre0 post0 Hpl Hok Hv0). apply lay0_Lay; assumption.
  - (* struct *)
    destruct v as [| | |vs0|]; try (cbn in Hwf; discriminate).
    destruct p as [| | | |ps|]; try (cbn [Lay] in HL; contradiction).
    rewrite Lay_struct in HL. rewrite owned_ptr_struct.
    enough (owned_ptr_fields ovf ts (pre ++ encode (TStruct ts) (VStruct vs0) ++ post) ps = Ok vs0) as -> by reflexivity.
    revert vs0 ps pre last Hpl Hok Hwf HL.
    induction IH as [|t ts Ht _ IHts]; intros vs0 ps pre last Hpl Hok Hwf HL.
    + destruct vs0; [|cbn in Hwf; discriminate]. reflexivity.
    + destruct vs0 as [|v vs0]; [cbn in Hwf; discriminate|]. destruct ps as [|q ps]; [contradiction|].
      rewrite wf_struct_cons in Hwf. apply andb_true_iff in Hwf as [Hv Hvs].
      rewrite plain_struct_cons in Hpl. apply andb_true_iff in Hpl as [Hp1 Hp2].
      cbn [Lay_fields] in HL. destruct HL as [HLq HLr].
      assert (exists l1, ty_ok l1 t = true /\ ty_ok last (TStruct ts) = true) as (l1 & Hok1 & Hok2).
      { destruct ts as [|t2 ts]; [exists last; rewrite ty_ok_struct_one in Hok; split; [exact Hok|reflexivity]|].
        rewrite ty_ok_struct_cons in Hok. apply andb_true_iff in Hok as [H1 H2]. exists false. split; assumption. }
      rewrite encode_struct_cons, <- app_assoc. cbn [owned_ptr_fields].
      rewrite (Ht l1 v q pre (encode (TStruct ts) (VStruct vs0) ++ post) Hp1 Hok1 Hv HLq). cbn [obind].
      specialize (IHts vs0 ps (pre ++ encode t v) last Hp2 Hok2 Hvs).
      rewrite zlen_app, <- app_assoc in IHts. rewrite (IHts HLr). reflexivity.
  - (* enum *)
    destruct v as [| | | |d pv]; try (cbn in Hwf; discriminate).
    destruct p as [| | | | |st d' q]; try (cbn [Lay] in HL; contradiction).
    apply Lay_enum in HL. destruct HL as (-> & -> & vt' & Hf' & HLq).
    destruct (wf_enum_inv _ _ _ _ Hwf) as (Hd & vt & Hf & Hp). rewrite Hf in Hf'. injection Hf' as <-.
    pose proof (ty_ok_enum_variant _ _ _ _ _ Hok Hf) as Hokv.
    pose proof (plain_enum_find _ _ _ _ Hpl Hf) as Hplv.
    enum_ih IH Hf IHv.
    rewrite owned_ptr_enum, Hf, (encode_enum_some _ _ _ _ _ Hf), <- app_assoc.
    specialize (IHv last pv q (pre ++ le_bytes rw d) post Hplv Hokv Hp).
    rewrite zlen_app, zlen_le_bytes, <- app_assoc in IHv. rewrite (IHv HLq). reflexivity.
Qed.

(* the canonical tree (what get_ptr builds, Layout.get_ptr_lay0) is one such layout *)
Corollary owned_ptr_lay0 ovf t last v pre post : plain t = true -> ty_ok last t = true -> wf t v = true ->
  owned_ptr ovf t (pre ++ encode t v ++ post) (lay0 t v (zlen pre)) = Ok v.
Proof.
  intros Hpl Hok Hwf. apply (owned_ptr_Lay ovf t last v _ pre post Hpl Hok Hwf). apply lay0_Lay; assumption.
Qed.

Print Assumptions owned_ptr_Lay.
Print Assumptions owned_ptr_lay0.
