(* C03, second half: an element accessor of ANOTHER buffer that was swapped into a list of unsized elements is reported by
   the first resizing operation on that list, before any byte moves.  Every resizing operation of UnsizedList (insert,
   remove_range, clear - unsized_list.rs `check_inner_initialized` at the top of each) asks whether the remembered element
   pointer lies inside the list's own data; `Notify.foreign_pointer_detected` says a pointer tree with an address outside
   that range fails the test; together: the operation panics with the machine untouched.  (The seeded change C03n moved the
   test of `remove_range` behind the line that clears the flag the test looks at - the order these lemmas are about.) *)
From SF Require Import Base.Prelude Gen.Generated Unsized.Types Unsized.Parse Unsized.Machine Unsized.Ops.
From SF Require Import Unsized.Proofs.Notify.

(* the remembered element pointer q of a list with data range rs..re, flag set, one address of q outside the range *)
Lemma foreign_inner_not_ok a n q rs re x :
  rs <= re -> In x (addrs q) -> (x < rs \/ re < x) -> inner_ok (PUList a n (Some q) true rs re) = false.
Proof. intros Hr Hin Hout. cbn [inner_ok]. exact (foreign_pointer_detected q rs re rs x Hr Hin Hout). Qed.

Section foreign.
  Variables (t : ty) (s : mach) (top : ptr) (ps : list pos) (it : ty) (k : nat) (up : ptr).
  Hypothesis Hsub : sub t top ps = Ok (TUList it k, up).
  Hypothesis Hbad : inner_ok up = false.

  Lemma up_is_ulist : exists a n inner pmb rs re, up = PUList a n inner pmb rs re.
  Proof. destruct up as [| | |a n inner pmb rs re| |]; try discriminate Hbad. now exists a, n, inner, pmb, rs, re. Qed.

  Theorem ulist_insert_reports_foreign idx kind keys : ulist_insert t s top ps idx kind keys = Panic.
  Proof.
    destruct up_is_ulist as (a & n & inner & pmb & rs & re & E). unfold ulist_insert. rewrite Hsub. cbn [obind].
    rewrite E in *. rewrite Hbad. reflexivity.
  Qed.

  Theorem ulist_remove_reports_foreign st en : ulist_remove t s top ps st en = Panic.
  Proof.
    destruct up_is_ulist as (a & n & inner & pmb & rs & re & E). unfold ulist_remove. rewrite Hsub. cbn [obind].
    rewrite E in *. rewrite Hbad. reflexivity.
  Qed.

  Theorem ulist_clear_reports_foreign : ulist_clear t s top ps = Panic.
  Proof.
    destruct up_is_ulist as (a & n & inner & pmb & rs & re & E). unfold ulist_clear. rewrite Hsub. cbn [obind].
    rewrite E in *. rewrite Hbad. reflexivity.
  Qed.
End foreign.

Print Assumptions foreign_inner_not_ok.
Print Assumptions ulist_insert_reports_foreign.
Print Assumptions ulist_remove_reports_foreign.
Print Assumptions ulist_clear_reports_foreign.
