(* The offset table of a list of unsized elements as it sits in memory: reading it back, locating the
   element a resize happened in, and rewriting the offsets after it (UnsizedList::adjust_offsets). *)
From SF Require Import Base.Prelude Gen.Generated Unsized.Types Unsized.Parse Unsized.Machine.
From SF Require Import Unsized.Proofs.EncodeParse Unsized.Proofs.Mem Unsized.Proofs.Notify Unsized.Proofs.Flat Unsized.Proofs.Layout.
From SF Require Import Unsized.Proofs.EnumFacts.
Arguments Z.add : simpl never. Arguments Z.sub : simpl never. Arguments Z.mul : simpl never.
Arguments Z.of_nat : simpl never. Arguments Z.pow : simpl never. Arguments Z.modulo : simpl never.

(* add d to the i-th element / to every element from index `start` on *)
Definition bump (i : nat) (d : Z) (l : list Z) : list Z :=
  firstn i l ++ match skipn i l with x :: r => (x + d) :: r | [] => [] end.
Definition bump_from (start : nat) (d : Z) (l : list Z) : list Z :=
  firstn start l ++ map (fun o => o + d) (skipn start l).

(* ---------------------------------------------------------------------------------------------- *)
(* bump / bump_from                                                                                *)
Lemma bump_nil i d : bump i d [] = [].
Proof. destruct i; reflexivity. Qed.
Lemma bump_cons_0 d x r : bump 0 d (x :: r) = (x + d) :: r.
Proof. reflexivity. Qed.
Lemma bump_cons_S i d x r : bump (S i) d (x :: r) = x :: bump i d r.
Proof. reflexivity. Qed.
Lemma bump_from_0 d l : bump_from 0 d l = map (fun o => o + d) l.
Proof. reflexivity. Qed.
Lemma bump_from_cons_S s d x r : bump_from (S s) d (x :: r) = x :: bump_from s d r.
Proof. reflexivity. Qed.

Lemma zsum_bump l i x d : nth_error l i = Some x -> zsum (bump i d l) = zsum l + d.
Proof.
  revert i. induction l as [|y l IH]; intros [|i] H; cbn [nth_error] in H; try discriminate.
  - injection H as ->. rewrite bump_cons_0. cbn [zsum]. lia.
  - rewrite bump_cons_S. cbn [zsum]. rewrite (IH i H). lia.
Qed.

Lemma bump_length l i d : length (bump i d l) = length l.
Proof.
  revert i. induction l as [|y l IH]; intros i; [now rewrite bump_nil|].
  destruct i as [|i]; [reflexivity|]. rewrite bump_cons_S. cbn [length]. now rewrite IH.
Qed.

Lemma bump_from_length l s d : length (bump_from s d l) = length l.
Proof. unfold bump_from. rewrite app_length, map_length, <- app_length, firstn_skipn. reflexivity. Qed.

Lemma bump_from_zero s l : bump_from s 0 l = l.
Proof.
  unfold bump_from. rewrite (map_ext _ (fun o => o)) by (intros; lia). rewrite map_id. apply firstn_skipn.
Qed.

Lemma offsets_from_shift sizes b d : offsets_from (b + d) sizes = map (fun o => o + d) (offsets_from b sizes).
Proof.
  revert b. induction sizes as [|s r IH]; intros b; [reflexivity|].
  cbn [offsets_from map]. f_equal. rewrite <- IH. f_equal. lia.
Qed.

Lemma offsets_from_bump sizes i x d b0 :
  nth_error sizes i = Some x -> offsets_from b0 (bump i d sizes) = bump_from (S i) d (offsets_from b0 sizes).
Proof.
  revert i b0. induction sizes as [|s r IH]; intros [|i] b0 H; cbn [nth_error] in H; try discriminate.
  - injection H as ->. rewrite bump_cons_0. cbn [offsets_from]. rewrite bump_from_cons_S, bump_from_0.
    f_equal. rewrite <- offsets_from_shift. f_equal. lia.
  - rewrite bump_cons_S. cbn [offsets_from]. rewrite bump_from_cons_S. f_equal. apply IH. exact H.
Qed.

(* ---------------------------------------------------------------------------------------------- *)
(* list helpers                                                                                    *)
Lemma Forall_firstn' {A} (P : A -> Prop) n l : Forall P l -> Forall P (firstn n l).
Proof. intros H. revert n. induction H; intros [|n]; cbn [firstn]; constructor; auto. Qed.

Lemma Forall_skipn' {A} (P : A -> Prop) n l : Forall P l -> Forall P (skipn n l).
Proof. intros H. revert n. induction H; intros [|n]; cbn [skipn]; try (constructor; assumption); auto. Qed.

Lemma nth_error_skipn_in {A} (l : list A) s j x : (s <= j)%nat -> nth_error l j = Some x -> In x (skipn s l).
Proof.
  revert l j. induction s as [|s IH]; intros l j Hle H.
  - cbn [skipn]. eapply nth_error_In; eauto.
  - destruct l as [|y l]; [destruct j; discriminate|]. destruct j as [|j]; [lia|].
    cbn [skipn]. cbn [nth_error] in H. apply (IH l j); [lia|exact H].
Qed.

Lemma offset_entries_cons o offs key keys :
  offset_entries (o :: offs) (key :: keys) = (le_bytes 4 o ++ key) :: offset_entries offs keys.
Proof. reflexivity. Qed.

Lemma offset_entries_app a b ka kb : length a = length ka ->
  offset_entries (a ++ b) (ka ++ kb) = offset_entries a ka ++ offset_entries b kb.
Proof.
  revert ka. induction a as [|o a IH]; intros [|key ka] H; cbn [length] in H; try discriminate; [reflexivity|].
  cbn [app]. rewrite !offset_entries_cons, IH by lia. reflexivity.
Qed.

Lemma table_app a b ka kb : length a = length ka ->
  concat (offset_entries (a ++ b) (ka ++ kb)) = concat (offset_entries a ka) ++ concat (offset_entries b kb).
Proof. intros H. now rewrite offset_entries_app, concat_app. Qed.

Lemma table_split s offs keys : length offs = length keys ->
  concat (offset_entries offs keys) =
  concat (offset_entries (firstn s offs) (firstn s keys)) ++ concat (offset_entries (skipn s offs) (skipn s keys)).
Proof. intros H. rewrite <- table_app by (rewrite !firstn_length; lia). now rewrite !firstn_skipn. Qed.

(* ---------------------------------------------------------------------------------------------- *)
(* reading the table                                                                               *)
Lemma zlen_entry_prefix (k : nat) (P : list Z) o key tbl i :
  length key = k -> zlen P = tbl + i * (4 + Z.of_nat k) ->
  zlen (P ++ le_bytes 4 o ++ key) = tbl + (i + 1) * (4 + Z.of_nat k).
Proof.
  intros Hk HP. rewrite !zlen_app, zlen_le_bytes, HP. unfold zlen. rewrite Hk. change (Z.of_nat 4) with 4. lia.
Qed.

Lemma read_offsets_gen (k : nat) (B : list Z) tbl : forall offs keys P i,
  length offs = length keys -> Forall (fun key => length key = k) keys -> Forall (fun o => 0 <= o < U32_LIMIT) offs ->
  zlen P = tbl + i * (4 + Z.of_nat k) ->
  read_offsets (P ++ concat (offset_entries offs keys) ++ B) tbl (4 + Z.of_nat k) (length offs) i = Ok offs.
Proof.
  induction offs as [|o offs IH]; intros [|key keys] P i Hl Hk Ho HP; cbn [length] in Hl; try discriminate; [reflexivity|].
  apply Forall_cons_iff in Hk as [Hk1 Hk2]. apply Forall_cons_iff in Ho as [Ho1 Ho2].
  rewrite offset_entries_cons. cbn [concat length read_offsets]. rewrite <- !app_assoc.
  rewrite (rd32_mid P _ o) by (try lia; assumption). cbn [obind].
  assert (Hl' : length offs = length keys) by lia.
  pose proof (IH keys (P ++ le_bytes 4 o ++ key) (i + 1) Hl' Hk2 Ho2 (zlen_entry_prefix k P o key tbl i Hk1 HP)) as HI.
  rewrite <- !app_assoc in HI. rewrite HI. reflexivity.
Qed.

Lemma read_offsets_table (k : nat) (A B : list Z) offs keys :
  length offs = length keys -> Forall (fun key => length key = k) keys -> Forall (fun o => 0 <= o < U32_LIMIT) offs ->
  read_offsets (A ++ concat (offset_entries offs keys) ++ B) (zlen A) (4 + Z.of_nat k) (length offs) 0 = Ok offs.
Proof. intros Hl Hk Ho. apply read_offsets_gen; auto. lia. Qed.

(* entry j of the table *)
Lemma rd32_table (k : nat) (B : list Z) : forall offs keys P j o x,
  length offs = length keys -> Forall (fun key => length key = k) keys -> Forall (fun o => 0 <= o < U32_LIMIT) offs ->
  nth_error offs j = Some o -> x = zlen P + Z.of_nat j * (4 + Z.of_nat k) ->
  rd32 (P ++ concat (offset_entries offs keys) ++ B) x = Ok o.
Proof.
  induction offs as [|o0 offs IH]; intros [|key keys] P j o x Hl Hk Ho Hn Hx; cbn [length] in Hl; try discriminate.
  - destruct j; discriminate.
  - apply Forall_cons_iff in Hk as [Hk1 Hk2]. apply Forall_cons_iff in Ho as [Ho1 Ho2].
    rewrite offset_entries_cons. cbn [concat]. rewrite <- !app_assoc.
    destruct j as [|j]; cbn [nth_error] in Hn.
    + injection Hn as ->. apply rd32_mid; [lia|assumption].
    + assert (Hl' : length offs = length keys) by lia.
      pose proof (IH keys (P ++ le_bytes 4 o0 ++ key) j o x Hl' Hk2 Ho2 Hn) as HI.
      rewrite <- !app_assoc in HI. apply HI.
      rewrite (zlen_entry_prefix k P o0 key (zlen P) 0 Hk1) by lia. lia.
Qed.

(* ---------------------------------------------------------------------------------------------- *)
(* locating a resize                                                                               *)
Lemma zsum_firstn_pos_nonneg (l : list Z) i : Forall (fun s => 0 < s) l -> 0 <= zsum (firstn i l).
Proof.
  intros H. apply zsum_nonneg. apply Forall_firstn'. eapply Forall_impl; [|exact H]. cbn beta. intros; lia.
Qed.

Lemma search_offsets_gen : forall sizes b acc i x delta,
  Forall (fun s => 0 < s) sizes -> nth_error sizes i = Some x -> 0 <= delta < x ->
  search_offsets (offsets_from b sizes) (b + zsum (firstn i sizes) + delta) acc = acc + Z.of_nat i + 1.
Proof.
  induction sizes as [|s r IH]; intros b acc [|i] x delta Hp Hn Hd; cbn [nth_error] in Hn; try discriminate.
  - injection Hn as ->. cbn [firstn zsum offsets_from search_offsets].
    destruct (b <? b + 0 + delta) eqn:E1; zb.
    + destruct r as [|s2 r]; cbn [offsets_from search_offsets]; [lia|].
      destruct (b + x <? b + 0 + delta) eqn:E2; zb; [lia|].
      destruct (b + x =? b + 0 + delta) eqn:E3; zb; lia.
    + destruct (b =? b + 0 + delta) eqn:E2; zb; lia.
  - apply Forall_cons_iff in Hp as [Hs Hr].
    pose proof (zsum_firstn_pos_nonneg r i Hr).
    cbn [firstn zsum offsets_from search_offsets].
    destruct (b <? b + (s + zsum (firstn i r)) + delta) eqn:E1; zb; [|lia].
    replace (b + (s + zsum (firstn i r)) + delta) with ((b + s) + zsum (firstn i r) + delta) by lia.
    rewrite (IH (b + s) (acc + 1) i x delta Hr Hn Hd). lia.
Qed.

Lemma search_offsets_inside sizes i x delta :
  Forall (fun s => 0 < s) sizes -> nth_error sizes i = Some x -> 0 <= delta < x ->
  search_offsets (offsets_from 0 sizes) (zsum (firstn i sizes) + delta) 0 = Z.of_nat i + 1.
Proof.
  intros Hp Hn Hd.
  replace (zsum (firstn i sizes) + delta) with (0 + zsum (firstn i sizes) + delta) by lia.
  rewrite (search_offsets_gen sizes 0 0 i x delta Hp Hn Hd). lia.
Qed.

(* ---------------------------------------------------------------------------------------------- *)
(* rewriting the offsets                                                                           *)
Definition adj_go (tbl n esz change : Z) : nat -> Z -> list Z -> out (list Z) :=
  fix go (fuel : nat) (i : Z) (m : list Z) : out (list Z) :=
    match fuel with
    | O => Ok m
    | S f =>
        if n <=? i then Ok m else
        do o <- rd32 m (tbl + i * esz);
        do m' <- wr m (tbl + i * esz) (le_bytes 4 ((o + change) mod U32_LIMIT));
        go f (i + 1) m'
    end.

Lemma adj_go_S tbl n esz change f i m :
  adj_go tbl n esz change (S f) i m =
  if n <=? i then Ok m else
  do o <- rd32 m (tbl + i * esz);
  do m' <- wr m (tbl + i * esz) (le_bytes 4 ((o + change) mod U32_LIMIT));
  adj_go tbl n esz change f (i + 1) m'.
Proof. reflexivity. Qed.

Lemma adjust_offsets_eq m tbl n esz start change :
  adjust_offsets m tbl n esz start change =
  if n =? 0 then Ok m else
  if change =? 0 then Ok m else
  if n <=? start then Ok m else
  do c <- rd32 m (tbl + (if change <? 0 then start else n - 1) * esz);
  if (c + change <? 0) || (U32_LIMIT <=? c + change) then Err E_ARITH else
  adj_go tbl n esz change (Z.to_nat (n - start)) start m.
Proof. reflexivity. Qed.

Lemma adj_go_spec (k : nat) (B : list Z) tbl n c : forall offs keys P i,
  length offs = length keys -> Forall (fun key => length key = k) keys ->
  Forall (fun o => 0 <= o < U32_LIMIT) offs -> Forall (fun o => 0 <= o + c < U32_LIMIT) offs ->
  zlen P = tbl + i * (4 + Z.of_nat k) -> n = i + zlen offs ->
  adj_go tbl n (4 + Z.of_nat k) c (length offs) i (P ++ concat (offset_entries offs keys) ++ B)
  = Ok (P ++ concat (offset_entries (map (fun o => o + c) offs) keys) ++ B).
Proof.
  induction offs as [|o offs IH]; intros [|key keys] P i Hl Hk Ho Hc HP Hn; cbn [length] in Hl; try discriminate; [reflexivity|].
  apply Forall_cons_iff in Hk as [Hk1 Hk2]. apply Forall_cons_iff in Ho as [Ho1 Ho2]. apply Forall_cons_iff in Hc as [Hc1 Hc2].
  cbn [length map]. rewrite adj_go_S. rewrite zlen_cons in Hn. pose proof (zlen_nonneg offs).
  destruct (n <=? i) eqn:E; [zb; lia|].
  rewrite !offset_entries_cons. cbn [concat]. rewrite <- !app_assoc.
  rewrite (rd32_mid P _ o) by (try lia; assumption). cbn [obind].
  rewrite Z.mod_small by lia.
  rewrite (wr_mid' P (le_bytes 4 o) _ (le_bytes 4 (o + c))) by (rewrite ?zlen_le_bytes; lia). cbn [obind].
  assert (Hl' : length offs = length keys) by lia.
  assert (Hn' : n = (i + 1) + zlen offs) by lia.
  pose proof (IH keys (P ++ le_bytes 4 (o + c) ++ key) (i + 1) Hl' Hk2 Ho2 Hc2
                (zlen_entry_prefix k P (o + c) key tbl i Hk1 HP) Hn') as HI.
  rewrite <- !app_assoc in HI. exact HI.
Qed.

Lemma adjust_offsets_table (k : nat) (A B : list Z) offs keys (start : nat) c :
  length offs = length keys -> Forall (fun key => length key = k) keys -> Forall (fun o => 0 <= o < U32_LIMIT) offs ->
  Forall (fun o => 0 <= o + c < U32_LIMIT) (skipn start offs) ->
  adjust_offsets (A ++ concat (offset_entries offs keys) ++ B) (zlen A) (zlen offs) (4 + Z.of_nat k) (Z.of_nat start) c
  = Ok (A ++ concat (offset_entries (bump_from start c offs) keys) ++ B).
Proof.
  intros Hl Hk Ho Hc. rewrite adjust_offsets_eq.
  destruct (zlen offs =? 0) eqn:E0.
  { zb. destruct offs as [|o offs]; [|rewrite zlen_cons in E0; pose proof (zlen_nonneg offs); lia].
    unfold bump_from. rewrite firstn_nil, skipn_nil. reflexivity. }
  destruct (c =? 0) eqn:Ec.
  { zb. subst c. now rewrite bump_from_zero. }
  destruct (zlen offs <=? Z.of_nat start) eqn:Es.
  { zb. unfold zlen in Es. unfold bump_from. rewrite skipn_all2, firstn_all2 by lia. cbn [map]. now rewrite app_nil_r. }
  zb. assert (Hs : (start < length offs)%nat) by (unfold zlen in Es; lia).
  (* the checked element *)
  set (chk := if c <? 0 then start else (length offs - 1)%nat).
  assert (Hchk : (if c <? 0 then Z.of_nat start else zlen offs - 1) = Z.of_nat chk).
  { unfold chk, zlen. destruct (c <? 0); lia. }
  assert (Hchk2 : (start <= chk < length offs)%nat) by (unfold chk; destruct (c <? 0); lia).
  rewrite Hchk.
  destruct (nth_error offs chk) as [oc|] eqn:En; [|apply nth_error_None in En; lia].
  assert (Hoc : 0 <= oc + c < U32_LIMIT).
  { rewrite Forall_forall in Hc. apply Hc. apply (nth_error_skipn_in offs start chk oc); [lia|exact En]. }
  rewrite (rd32_table k B offs keys A chk oc _ Hl Hk Ho En eq_refl). cbn [obind].
  destruct ((oc + c <? 0) || (U32_LIMIT <=? oc + c)) eqn:Eb.
  { apply orb_true_iff in Eb as [Eb|Eb]; zb; lia. }
  (* the loop *)
  assert (Hl1 : length (firstn start offs) = length (firstn start keys)) by (rewrite !firstn_length; lia).
  assert (Hl2 : length (skipn start offs) = length (skipn start keys)) by (rewrite !skipn_length; lia).
  replace (Z.to_nat (zlen offs - Z.of_nat start)) with (length (skipn start offs))
    by (rewrite skipn_length; unfold zlen; lia).
  assert (HP : zlen (A ++ concat (offset_entries (firstn start offs) (firstn start keys)))
               = zlen A + Z.of_nat start * (4 + Z.of_nat k)).
  { rewrite zlen_app, (zlen_offset_entries _ _ k Hl1 (Forall_firstn' _ _ _ Hk)).
    unfold zlen at 2. rewrite firstn_length. lia. }
  assert (Hn : zlen offs = Z.of_nat start + zlen (skipn start offs)).
  { unfold zlen. rewrite skipn_length. lia. }
  pose proof (adj_go_spec k B (zlen A) (zlen offs) c (skipn start offs) (skipn start keys)
                (A ++ concat (offset_entries (firstn start offs) (firstn start keys))) (Z.of_nat start)
                Hl2 (Forall_skipn' _ _ _ Hk) (Forall_skipn' _ _ _ Ho) Hc HP Hn) as HG.
  rewrite <- !app_assoc in HG.
  rewrite (table_split start offs keys Hl).
  assert (Hr : concat (offset_entries (bump_from start c offs) keys) =
               concat (offset_entries (firstn start offs) (firstn start keys)) ++
               concat (offset_entries (map (fun o => o + c) (skipn start offs)) (skipn start keys))).
  { unfold bump_from. rewrite <- (table_app _ _ _ _ Hl1). now rewrite firstn_skipn. }
  rewrite Hr, <- !app_assoc. exact HG.
Qed.

Print Assumptions adjust_offsets_table. Print Assumptions search_offsets_inside. Print Assumptions read_offsets_table.
