(* UnsizedList::remove_range / clear on a list of unsized elements located ANYWHERE inside a value refine
   Vec::drain(st..en) / Vec::clear on the owned model: same success, and the new machine state holds the owned
   model's new value with every ancestor header, offset table and live pointer updated.
   remove_range first closes the gap in its own offset table with a raw memmove and only then calls remove_bytes:
   at that moment the memory is NOT an encoding; `remove_bytes_inside'` is the variant of Resize.remove_bytes_inside
   that only looks at the bytes outside the container. *)
From SF Require Import Base.Prelude Gen.Generated Unsized.Types Unsized.Parse Unsized.Machine Unsized.Ops.
From SF Require Import Unsized.Proofs.EncodeParse Unsized.Proofs.Mem Unsized.Proofs.Notify Unsized.Proofs.Flat Unsized.Proofs.Layout
  Unsized.Proofs.Table Unsized.Proofs.Path Unsized.Proofs.Context Unsized.Proofs.Context2 Unsized.Proofs.Focus Unsized.Proofs.Pos
  Unsized.Proofs.FocusOps Unsized.Proofs.NotifyInside Unsized.Proofs.Resize Unsized.Proofs.GenOps.
From SF Require Import Unsized.Proofs.EnumFacts.

Arguments Z.add : simpl never.
Arguments Z.sub : simpl never.
Arguments Z.mul : simpl never.
Arguments Z.of_nat : simpl never.
Arguments Z.pow : simpl never.
Arguments Z.modulo : simpl never.

(* ---------------------------------------------------------------------------------------------- *)
(* 1. the notification broadcast never touches the possible_mut_borrow flag of the node a path ends in *)
Definition pmb_of (p : ptr) : bool := match p with PUList _ _ _ b _ _ => b | _ => false end.

Lemma notify_fields_nth ts : forall ps src c m ps' m' i ti qi,
  notify_fields ts ps src c m = Ok (ps', m') -> nth_error ts i = Some ti -> nth_error ps i = Some qi ->
  exists qi' m1 m2, nth_error ps' i = Some qi' /\ notify ti qi src c m1 = Ok (qi', m2).
Proof.
  induction ts as [|t ts IH]; intros ps src c m ps' m' i ti qi H Ht Hq; [destruct i; discriminate|].
  destruct ps as [|q ps]; [destruct i; discriminate|].
  cbn [notify_fields] in H.
  destruct (notify t q src c m) as [[q' m1]| | |] eqn:E1; cbn [obind] in H; try discriminate.
  destruct (notify_fields ts ps src c m1) as [[r' m2]| | |] eqn:E2; cbn [obind] in H; try discriminate.
  injection H as <- <-.
  destruct i as [|i]; cbn [nth_error] in *.
  - injection Ht as <-. injection Hq as <-. exists q', m, m1. split; [reflexivity|exact E1].
  - exact (IH _ _ _ _ _ _ _ _ _ E2 Ht Hq).
Qed.

Lemma notify_ulist_shape it k a n inner pmb rs re src c m p' m' :
  notify (TUList it k) (PUList a n inner pmb rs re) src c m = Ok (p', m') ->
  exists a' inner' rs' re', p' = PUList a' n inner' pmb rs' re' /\
    match inner with
    | Some q => inner' = Some q \/ exists q' m0 m1, inner' = Some q' /\ notify it q src c m0 = Ok (q', m1)
    | None => inner' = None
    end.
Proof.
  intros H. cbn [notify] in H.
  destruct (src <? a).
  { destruct inner as [q|].
    - destruct (notify it q src c m) as [[q' m1]| | |] eqn:E; cbn [obind] in H; try discriminate.
      injection H as <- _. eexists _, _, _, _. split; [reflexivity|]. right. exists q', m, m1. split; [reflexivity|exact E].
    - injection H as <- _. eexists _, _, _, _. split; reflexivity. }
  destruct (src =? a).
  { injection H as <- _. eexists _, _, _, _. split; [reflexivity|]. destruct inner; [left|]; reflexivity. }
  destruct (rd32 m a) as [usz| | |]; cbn [obind] in H; try discriminate.
  destruct (src <? a + (8 + n * (4 + Z.of_nat k) + 4 + usz)).
  - destruct inner as [q|]; [|discriminate].
    destruct (notify it q src c m) as [[q' m1]| | |] eqn:E; cbn [obind] in H; try discriminate.
    destruct (wr m1 a (le_bytes 4 (usz + c))) as [m2| | |]; cbn [obind] in H; try discriminate.
    destruct (read_offsets m2 (a + 8) (4 + Z.of_nat k) (Z.to_nat n) 0) as [offs| | |]; cbn [obind] in H; try discriminate.
    match type of H with obind ?e _ = _ => destruct e as [m3| | |]; cbn [obind] in H; try discriminate end.
    injection H as <- _. eexists _, _, _, _. split; [reflexivity|]. right. exists q', m, m1. split; [reflexivity|exact E].
  - injection H as <- _. eexists _, _, _, _. split; [reflexivity|]. destruct inner; [left|]; reflexivity.
Qed.

Lemma notify_keeps_pmb pi : forall t p src c m p' m' it k node,
  notify t p src c m = Ok (p', m') -> get_at t p (mpath pi) = Some (TUList it k, node) ->
  exists node', get_at t p' (mpath pi) = Some (TUList it k, node') /\ pmb_of node' = pmb_of node.
Proof.
  induction pi as [|[i|i|] r IH]; intros t p src c m p' m' it k node Hn Hg.
  - cbn [mpath map get_at] in *. injection Hg as -> ->.
    destruct node as [| | |a n inner pmb rs re| |]; try (cbn [notify] in Hn; discriminate).
    destruct (notify_ulist_shape _ _ _ _ _ _ _ _ _ _ _ _ _ Hn) as (a' & inner' & rs' & re' & -> & _).
    eexists. split; reflexivity.
  - cbn [mpath map mstep_of get_at] in *.
    destruct t as [| | | |ts|]; try discriminate. destruct p as [| | | |qs|]; try discriminate.
    destruct (nth_error ts i) as [ti|] eqn:Hti; [|discriminate].
    destruct (nth_error qs i) as [qi|] eqn:Hqi; [|discriminate].
    rewrite notify_struct in Hn.
    destruct (notify_fields ts qs src c m) as [[ps' m2]| | |] eqn:E; cbn [obind] in Hn; try discriminate.
    injection Hn as <- _.
    destruct (notify_fields_nth _ _ _ _ _ _ _ _ _ _ E Hti Hqi) as (qi' & m0 & m1 & Hq' & Hnq).
    destruct (IH _ _ _ _ _ _ _ _ _ _ Hnq Hg) as (node' & Hg' & Hp).
    exists node'. split; [|exact Hp]. cbn [get_at]. rewrite ?Hti, Hq'. exact Hg'.
  - cbn [mpath map mstep_of get_at] in *.
    destruct t as [| | |it0 k0| |]; try discriminate. destruct p as [| | |a n inner pmb rs re| |]; try discriminate.
    destruct inner as [q|]; [|discriminate].
    destruct (notify_ulist_shape _ _ _ _ _ _ _ _ _ _ _ _ _ Hn) as (a' & inner' & rs' & re' & -> & Hi).
    destruct Hi as [->|(q' & m0 & m1 & -> & Hnq)].
    + exists node. split; [exact Hg|reflexivity].
    + destruct (IH _ _ _ _ _ _ _ _ _ _ Hnq Hg) as (node' & Hg' & Hp).
      exists node'. split; [exact Hg'|exact Hp].
  - cbn [mpath map mstep_of get_at] in *.
    destruct t as [| | | | |rw vars]; try discriminate. destruct p as [| | | | |st d q]; try discriminate.
    destruct (find_variant d vars) as [vt|] eqn:Ef; [|discriminate].
    rewrite notify_enum, Ef in Hn.
    destruct (notify vt q src c m) as [[q' m1]| | |] eqn:Hnq; cbn [obind] in Hn; try discriminate. injection Hn as <- _.
    destruct (IH _ _ _ _ _ _ _ _ _ _ Hnq Hg) as (node' & Hg' & Hp).
    exists node'. split; [|exact Hp]. cbn [get_at]. rewrite Ef. exact Hg'.
Qed.

(* ---------------------------------------------------------------------------------------------- *)
(* 2. remove_bytes issued by a container whose OWN bytes are arbitrary (A, R: any bytes of the right length) *)
Section resize'.
  Variables (pi : list step) (t : ty) (v : val) (X : ty) (xv xv' : val).
  Hypothesis Hres : resolve t v pi = Some (X, xv).
  Hypothesis HcX : container X = true.

  Let P0 := fst (hctx t v pi 0).
  Let Q := snd (hctx t v pi 0).
  Let ax := addr_of t v pi 0.

  Lemma remove_bytes_inside' s0 top (A R B junk : list Z) :
    plain t = true -> ty_ok true t = true -> wf t v = true -> LayP Lay pi t v 0 top ->
    m_mem s0 = P0 ++ (A ++ R ++ B) ++ Q ++ junk ->
    m_len s0 = zlen (encode t v) -> m_cap s0 < U32_LIMIT ->
    zlen (A ++ R ++ B) = zlen (encode X xv) -> 0 < zlen R ->
    zlen (encode X xv') = zlen (encode X xv) - zlen R ->
    exists s1 top1 J,
      remove_bytes t s0 top ax (ax + zlen A) (ax + zlen A + zlen R) = Ok (s1, top1) /\
      m_mem s1 = fst (hctx t v pi (- zlen R)) ++ (A ++ B) ++ Q ++ J /\
      m_len s1 = m_len s0 - zlen R /\ m_cap s1 = m_cap s0 /\ m_refuse s1 = m_refuse s0 /\
      LayP (EndNotified xv (- zlen R)) pi t (plug t v pi xv') 0 top1 /\
      (forall it k node, get_at t top (mpath pi) = Some (TUList it k, node) ->
         exists node', get_at t top1 (mpath pi) = Some (TUList it k, node') /\ pmb_of node' = pmb_of node).
  Proof.
    intros Hpl Hok Hwf HL Hmem Hlen Hc32 HzARB HR Hsz.
    pose proof (hctx_encode _ _ _ _ _ Hres) as Henc. fold P0 Q in Henc.
    pose proof (zlen_nonneg P0). pose proof (zlen_nonneg A). pose proof (zlen_nonneg B). pose proof (zlen_nonneg Q).
    pose proof (zlen_nonneg junk) as Hj0.
    set (k := zlen R) in *.
    assert (Hold : zlen (encode t v) = zlen P0 + zlen A + k + zlen B + zlen Q).
    { rewrite Henc, !zlen_app, <- HzARB, !zlen_app. subst k. lia. }
    assert (Hcap : m_cap s0 = zlen (encode t v) + zlen junk).
    { unfold m_cap. rewrite Hmem, !zlen_app, Hold. subst k. lia. }
    assert (Hchk : top_check s0 top = true).
    { pose proof (LayP_Lay _ _ _ _ _ Hpl Hwf HL) as HL'.
      destruct (check_ptrs_Lay t true v 0 top 0 (m_cap s0) 0 Hpl Hok Hwf HL') as (c' & Hc & _); try lia.
      unfold top_check. now rewrite Hc. }
    assert (Hax : ax = zlen P0) by (subst ax P0; unfold addr_of; lia).
    unfold remove_bytes. rewrite Hchk. cbn [negb].
    set (end_ := ax + zlen A + k). set (start := ax + zlen A).
    assert (Hse : 0 <= start /\ start < end_ /\ end_ <= m_len s0) by (subst start end_; lia).
    destruct ((start <? 0) || (m_len s0 <? start)) eqn:E3; [apply orb_true_iff in E3; destruct E3; zb; lia|].
    destruct ((end_ <? start) || (m_len s0 <? end_)) eqn:E4; [apply orb_true_iff in E4; destruct E4; zb; lia|].
    assert (Hamt : end_ - start = k) by (subst start end_; lia).
    rewrite Hamt. destruct (k =? 0) eqn:E5; [zb; lia|].
    set (A' := P0 ++ A). set (T := B ++ Q).
    assert (HA' : zlen A' = start) by (subst A' start; rewrite zlen_app; lia).
    assert (HT : zlen T = m_len s0 - end_) by (subst T end_; rewrite zlen_app; lia).
    assert (Hm0 : m_mem s0 = A' ++ R ++ T ++ junk) by (rewrite Hmem; subst A' T; now rewrite <- !app_assoc).
    assert (Hmv : (if end_ =? m_len s0 then Ok (m_mem s0) else mmove (m_mem s0) start end_ (m_len s0 - end_))
                  = Ok (A' ++ T ++ zdrop (zlen T) (R ++ T) ++ junk)).
    { rewrite Hm0. destruct (end_ =? m_len s0) eqn:E6.
      - zb. assert (T = []) as -> by (destruct T; [reflexivity|rewrite zlen_cons in HT; pose proof (zlen_nonneg T); lia]).
        cbn [app]. change (zlen (@nil Z)) with 0. rewrite app_nil_r. reflexivity.
      - rewrite <- HT. replace end_ with (zlen A' + zlen R) by (subst k; lia). rewrite <- HA'. apply mmove_down. }
    rewrite Hmv. cbn [obind].
    set (H' := zdrop (zlen T) (R ++ T)).
    unfold realloc. cbn [set_mem m_len m_mem m_grow m_refuse].
    destruct (m_len s0 <? m_len s0 - k) eqn:E7; [zb; lia|]. cbn [andb].
    unfold m_cap. cbn [set_mem m_mem m_len m_grow m_refuse].
    destruct (zlen (A' ++ T ++ H' ++ junk) <? m_len s0 - k) eqn:E8.
    { zb. rewrite !zlen_app in E8. pose proof (zlen_nonneg H'). pose proof (zlen_nonneg T). lia. }
    cbn [obind m_mem].
    assert (Hmem2 : A' ++ T ++ H' ++ junk = [] ++ P0 ++ (A ++ B) ++ Q ++ H' ++ junk).
    { subst A' T. cbn [app]. now rewrite <- !app_assoc. }
    rewrite Hmem2.
    rewrite !zlen_app in HzARB.
    destruct (notify_inside pi t true v top X xv xv' (- k) (A ++ B) [] (H' ++ junk) Hpl Hok Hwf Hres HcX HL) as (p' & Hn & HL'); try lia.
    { rewrite !zlen_app. subst k. lia. }
    change (zlen (@nil Z)) with 0 in Hn. fold ax P0 Q in Hn. rewrite Hn. cbn [obind].
    eexists _, p', (H' ++ junk).
    split; [reflexivity|]. cbn [set_mem m_mem m_len m_refuse app].
    assert (zlen H' = k).
    { subst H'. rewrite zlen_zdrop by (rewrite zlen_app; pose proof (zlen_nonneg T); subst k; lia). rewrite zlen_app. subst k. lia. }
    repeat split; auto.
    - unfold m_cap. cbn [set_mem m_mem]. rewrite Hmem. rewrite !zlen_app, (hctx_fst_len t v pi (- k)). fold P0. lia.
    - intros it0 k0 node Hg. exact (notify_keeps_pmb pi _ _ _ _ _ _ _ _ _ _ Hn Hg).
  Qed.
End resize'.

(* ---------------------------------------------------------------------------------------------- *)
(* 3. list helpers: offsets / keys of a list with a range of elements taken out                     *)
Lemma offsets_from_app a : forall b c, offsets_from b (a ++ c) = offsets_from b a ++ offsets_from (b + zsum a) c.
Proof.
  induction a as [|x a IH]; intros b c; cbn [app offsets_from zsum]; [f_equal; lia|].
  f_equal. rewrite IH. f_equal. f_equal. lia.
Qed.

Lemma firstn_offsets_from l : forall i b, firstn i (offsets_from b l) = offsets_from b (firstn i l).
Proof.
  induction l as [|x l IH]; intros [|i] b; cbn [firstn offsets_from]; try reflexivity. f_equal. apply IH.
Qed.

Lemma skipn_offsets_from l : forall i b, skipn i (offsets_from b l) = offsets_from (b + zsum (firstn i l)) (skipn i l).
Proof.
  induction l as [|x l IH]; intros [|i] b; cbn [skipn firstn offsets_from zsum]; try reflexivity.
  - replace (b + 0) with b by lia. reflexivity.
  - rewrite IH. f_equal. lia.
Qed.

Lemma offsets_remove sizes i j : (i <= j)%nat -> (j <= length sizes)%nat ->
  bump_from i (- (zsum (firstn j sizes) - zsum (firstn i sizes)))
    (firstn i (offsets_from 0 sizes) ++ skipn j (offsets_from 0 sizes))
  = offsets_from 0 (firstn i sizes ++ skipn j sizes).
Proof.
  intros Hij Hj. unfold bump_from.
  assert (Hl : length (firstn i (offsets_from 0 sizes)) = i) by (rewrite firstn_length, offsets_from_length; lia).
  rewrite <- Hl at 1. rewrite firstn_app_exact. rewrite <- Hl at 2. rewrite skipn_app_exact.
  rewrite firstn_offsets_from, skipn_offsets_from, offsets_from_app, <- offsets_from_shift.
  f_equal. f_equal. lia.
Qed.

Lemma sa_cons_intro x l : Forall (fun y => x < y) l -> strictly_ascending l = true -> strictly_ascending (x :: l) = true.
Proof.
  intros Hall Hs. destruct l as [|y l]; [reflexivity|]. apply Forall_cons_iff in Hall as [Hxy _].
  cbn [strictly_ascending] in *. rewrite Hs. apply Z.ltb_lt in Hxy. now rewrite Hxy.
Qed.

Lemma sa_skipn l : forall j, strictly_ascending l = true -> strictly_ascending (skipn j l) = true.
Proof.
  induction l as [|x l IH]; intros [|j] H; cbn [skipn]; try assumption; try reflexivity.
  apply IH. exact (proj2 (strictly_ascending_lt_all _ _ H)).
Qed.

Lemma sa_remove l : forall i j, (i <= j)%nat -> strictly_ascending l = true ->
  strictly_ascending (firstn i l ++ skipn j l) = true.
Proof.
  induction l as [|x l IH]; intros i j Hij H.
  - rewrite firstn_nil, skipn_nil. reflexivity.
  - destruct i as [|i]; [cbn [firstn app]; now apply sa_skipn|].
    destruct j as [|j]; [lia|]. cbn [firstn skipn app].
    destruct (strictly_ascending_lt_all _ _ H) as [Hall Hs].
    apply sa_cons_intro; [|apply IH; [lia|exact Hs]].
    apply Forall_app. split; [apply Forall_firstn'|apply Forall_skipn']; exact Hall.
Qed.

Lemma forallb_remove {A} (f : A -> bool) l i j : forallb f l = true -> forallb f (firstn i l ++ skipn j l) = true.
Proof.
  intros H. rewrite forallb_forall in *. intros x Hx. apply in_app_or in Hx as [Hx|Hx]; apply H; [eapply In_firstn|eapply In_skipn]; eauto.
Qed.

Lemma utable_head it items : items <> [] -> exists T', utable it items = le_bytes 4 0 ++ T'.
Proof.
  destruct items as [|[key e] rest]; [congruence|]. intros _. unfold utable, usizes, uenc.
  cbn [map offsets_from fst]. rewrite offset_entries_cons. cbn [concat]. rewrite <- app_assoc. eexists; reflexivity.
Qed.

(* get_offset(idx) on the canonical bytes of the list, wherever they sit *)
Lemma ulist_offset_mem it k items idx (P B : list Z) :
  wf (TUList it k) (VUList items) = true -> 0 <= idx <= zlen items ->
  ulist_offset k (P ++ encode (TUList it k) (VUList items) ++ B) (zlen P) (zlen items) idx
  = Ok (zsum (firstn (Z.to_nat idx) (usizes it items))).
Proof.
  intros Hwf Hidx. pose proof (ulist_facts _ _ _ Hwf) as F.
  destruct F as [Hn Hu _ Hk Ht Hd Ho _].
  pose proof (usizes_length it items) as Hls.
  assert (Hlo : length (offsets_from 0 (usizes it items)) = length (map fst items))
    by (rewrite offsets_from_length, map_length; exact Hls).
  unfold ulist_offset.
  destruct ((0 <=? idx) && (idx <? zlen items)) eqn:E.
  - apply andb_true_iff in E as [E1 E2]. zb.
    rewrite encode_ulist. unfold utable.
    replace (P ++ (le_bytes 4 (zsum (usizes it items)) ++ le_bytes 4 (zlen items) ++
                   concat (offset_entries (offsets_from 0 (usizes it items)) (map fst items)) ++
                   le_bytes 4 (zlen items) ++ concat (uenc it items)) ++ B)
      with ((P ++ le_bytes 4 (zsum (usizes it items)) ++ le_bytes 4 (zlen items)) ++
            concat (offset_entries (offsets_from 0 (usizes it items)) (map fst items)) ++
            (le_bytes 4 (zlen items) ++ concat (uenc it items) ++ B))
      by (rewrite <- !app_assoc; reflexivity).
    assert (Hjs : (Z.to_nat idx < length (usizes it items))%nat) by (unfold zlen in E2; lia).
    apply (rd32_table k _ _ _ _ (Z.to_nat idx) _ _ Hlo Hk Ho (nth_error_offsets_from0 _ _ Hjs)).
    rewrite !zlen_app, !zlen_le_bytes. change (Z.of_nat 4) with 4. lia.
  - assert (idx = zlen items) as -> by (apply andb_false_iff in E as [E|E]; zb; lia).
    rewrite (firstn_all2 (n := Z.to_nat (zlen items))) by (rewrite Hls; unfold zlen; lia).
    rewrite encode_ulist, <- !app_assoc. apply rd32_mid; [reflexivity|exact Hu].
Qed.

(* ---------------------------------------------------------------------------------------------- *)
(* 4. the located list: its node, check_inner_initialized, and the tree with possible_mut_borrow cleared *)
Section ulocated.
  Variables (pi : list step) (t : ty) (v : val) (it : ty) (k : nat) (items : list (list Z * val)).
  Hypothesis Hres : resolve t v pi = Some (TUList it k, VUList items).
  Let ax := addr_of t v pi 0.
  Let re := ax + zlen (encode (TUList it k) (VUList items)).

  Lemma ulist_located s top : RepF pi t v s top ->
    exists inner pmb,
      sub t top (mpath pi) = Ok (TUList it k, PUList ax (zlen items) inner pmb ax re) /\
      inner_ok (PUList ax (zlen items) inner pmb ax re) = true /\
      RepF pi t v s (set_at t top (mpath pi) (PUList ax (zlen items) inner false ax re)) /\
      get_at t (set_at t top (mpath pi) (PUList ax (zlen items) inner false ax re)) (mpath pi)
      = Some (TUList it k, PUList ax (zlen items) inner false ax re).
  Proof.
    intros R. destruct R as [Hpl Hok Hwf Hm Hlen HL Hc32].
    destruct (LayP_get_at Lay pi t v 0 top _ _ Hwf Hres HL) as (node & Hg & HLn).
    destruct node as [| | |a n inner pmb rs re0| |]; try (cbn [Lay] in HLn; contradiction).
    cbn [Lay] in HLn. destruct HLn as (-> & -> & -> & -> & Hin). fold ax re in Hg, Hin |- *.
    pose proof (resolve_wf _ _ _ _ _ Hwf Hres) as HwU.
    pose proof (resolve_plain _ _ _ _ _ Hpl Hres) as HpU. cbn [plain] in HpU.
    destruct (resolve_ty_ok _ _ _ _ _ _ Hok Hres) as (l' & HokU & _). cbn [ty_ok] in HokU.
    pose proof (ulist_facts _ _ _ HwU) as F. pose proof (uf_n _ _ _ F) as Hn.
    exists inner, pmb. split; [unfold sub; now rewrite Hg|]. split; [|split].
    - unfold inner_ok. destruct inner as [q0|]; [|reflexivity]. destruct pmb; [|reflexivity].
      destruct Hin as (j & kvj & Hj & Hq0).
      destruct (elem_inside it k items ax j kvj F Hj) as [He1 He2].
      destruct (check_ptrs_Lay it false (snd kvj) _ q0 ax re ax
                  HpU HokU (wf_nth _ _ _ _ (uf_wfs _ _ _ F) Hj) Hq0) as (c' & Hc & _); try (unfold re; nia).
      now rewrite Hc.
    - constructor; auto.
      apply (LayP_set_at Lay Lay pi t v 0 top _ _ _ Hwf Hres HL). fold ax. cbn [Lay].
      repeat (split; [reflexivity|]).
      destruct inner as [q0|]; [|exact I]. destruct pmb; [|exact Hin].
      destruct Hin as (j & kvj & Hj & Hq0).
      destruct (elem_inside it k items ax j kvj F Hj) as [He1 He2].
      apply (Lay_after it (snd kvj) _ q0 ax HpU (wf_nth _ _ _ _ (uf_wfs _ _ _ F) Hj) Hq0). nia.
    - pose proof (LayP_set_at Lay (fun _ _ _ nd => nd = PUList ax (zlen items) inner false ax re) pi t v 0 top _ _
                    (PUList ax (zlen items) inner false ax re) Hwf Hres HL eq_refl) as HL2.
      destruct (LayP_get_at _ pi t v 0 _ _ _ Hwf Hres HL2) as (node & Hg2 & ->). exact Hg2.
  Qed.
End ulocated.

(* ---------------------------------------------------------------------------------------------- *)
(* 5. clear                                                                                         *)
Section uclear.
  Variables (pi : list step) (t : ty) (v : val) (it : ty) (k : nat) (items : list (list Z * val)).
  Hypothesis Hres : resolve t v pi = Some (TUList it k, VUList items).
  Hypothesis Hne : items <> [].

  Theorem ulist_clear_general s top :
    RepF pi t v s top ->
    exists s' top', ulist_clear t s top (mpath pi) = Ok (s', top', []) /\ RepF pi t (plug t v pi (VUList [])) s' top' /\
                    m_cap s' = m_cap s /\ m_refuse s' = m_refuse s.
  Proof.
    intros R.
    destruct (ulist_located pi t v it k items Hres s top R) as (inner & pmb & Hsub & Hio & R0 & Hg0).
    set (ax := addr_of t v pi 0) in *.
    pose proof R as [Hpl Hok Hwf [junk Hmem] Hlen HL Hc32].
    pose proof (rf_top _ _ _ _ _ R0) as HL0.
    pose proof (resolve_wf _ _ _ _ _ Hwf Hres) as HwU. pose proof (ulist_facts _ _ _ HwU) as F.
    pose proof (zlen_encode_ulist _ _ _ F) as HzX.
    pose proof (uf_n _ _ _ F) as Hn. pose proof (uf_usz _ _ _ F) as Hu.
    destruct (utable_head it items Hne) as (T' & HT').
    set (n := zlen items) in *. set (usz := zsum (usizes it items)) in *. set (esz := 4 + Z.of_nat k).
    assert (Hn1 : 1 <= n).
    { subst n. destruct items as [|x l]; [congruence|]. rewrite zlen_cons. pose proof (zlen_nonneg l). lia. }
    set (A := le_bytes 4 usz ++ le_bytes 4 n ++ le_bytes 4 0).
    set (Rr := T' ++ le_bytes 4 n ++ concat (uenc it items)).
    assert (HencX : encode (TUList it k) (VUList items) = A ++ Rr ++ []).
    { rewrite encode_ulist, HT'. subst A Rr. fold n usz. rewrite app_nil_r, <- !app_assoc. reflexivity. }
    assert (HzA : zlen A = 12) by (subst A; rewrite !zlen_app, !zlen_le_bytes; reflexivity).
    assert (HzR : zlen Rr = n * esz + usz).
    { rewrite HencX, !zlen_app, HzA in HzX. change (zlen (@nil Z)) with 0 in HzX. subst esz. lia. }
    assert (HRpos : 0 < zlen Rr) by (subst esz; nia).
    assert (HencX' : encode (TUList it k) (VUList []) = le_bytes 4 0 ++ le_bytes 4 0 ++ le_bytes 4 0) by reflexivity.
    assert (Hsz' : zlen (encode (TUList it k) (VUList [])) = zlen (encode (TUList it k) (VUList items)) - zlen Rr).
    { rewrite HencX', HencX, !zlen_app, HzA, !zlen_le_bytes. change (zlen (@nil Z)) with 0. change (Z.of_nat 4) with 4. lia. }
    assert (HwfX' : wf (TUList it k) (VUList []) = true).
    { cbn [wf map zsum forallb strictly_ascending]. rewrite orb_true_r. reflexivity. }
    pose proof (hctx_encode _ _ _ _ _ Hres) as Henc.
    set (P0 := fst (hctx t v pi 0)) in *. set (Q := snd (hctx t v pi 0)) in *.
    assert (HaP : ax = zlen P0) by (subst ax P0; unfold addr_of; lia).
    assert (Hmem' : m_mem s = P0 ++ (A ++ Rr ++ []) ++ Q ++ junk).
    { rewrite Hmem, Henc, HencX, <- !app_assoc. reflexivity. }
    (* locate; check_inner_initialized; unsized_size *)
    unfold ulist_clear. rewrite Hsub. cbn [obind]. rewrite Hio. cbn [negb set_pmb].
    assert (Hrd : rd32 (m_mem s) ax = Ok usz).
    { rewrite Hmem'. subst A. rewrite <- !app_assoc. apply rd32_mid; [exact HaP|exact Hu]. }
    rewrite Hrd. cbn [obind]. unfold ulist_dbase.
    (* remove_bytes *)
    destruct (remove_bytes_inside' pi t v (TUList it k) (VUList items) (VUList []) Hres eq_refl s _ A Rr [] junk
                Hpl Hok Hwf HL0 Hmem' Hlen Hc32) as (s1 & top1 & J & Hrem & Hmem1 & Hlen1 & Hcap1 & Href1 & HL1 & Hpmb);
      [now rewrite HencX|exact HRpos|exact Hsz'|].
    fold ax in Hrem.
    replace (ax + 8 + 4) with (ax + zlen A) by lia.
    replace (ax + 8 + n * (4 + Z.of_nat k) + 4 + usz) with (ax + zlen A + zlen Rr) by (subst esz; lia).
    rewrite Hrem. cbn [catch].
    (* the node after the broadcast *)
    set (v' := plug t v pi (VUList [])) in *.
    pose proof (resolve_plug t v pi _ _ (VUList []) Hres) as Hres'. fold v' in Hres'.
    assert (Hwf' : wf t v' = true).
    { apply (wf_plug t v pi _ _ (VUList []) Hwf Hres HwfX').
      rewrite (hctx_plug_len t v pi _ _ (VUList []) Hres), Hsz'.
      pose proof (repf_cap _ _ _ _ _ R). lia. }
    assert (Hax' : addr_of t v' pi 0 = ax) by (subst v' ax; eapply addr_of_plug; eauto).
    destruct (LayP_get_at _ pi t v' 0 top1 _ _ Hwf' Hres' HL1) as (node1 & Hg1 & (node0 & HE0 & ->)).
    rewrite Hax' in HE0.
    destruct node0 as [| | |a0 n0 inner0 pmb0 rs0 re0| |]; try (cbn [Lay] in HE0; contradiction).
    cbn [Lay] in HE0. destruct HE0 as (-> & -> & -> & -> & Hin0). fold n in Hg1, Hin0.
    cbn [own_notify] in Hg1.
    destruct (Hpmb _ _ _ Hg0) as (node' & Hg1' & Hp'). rewrite Hg1 in Hg1'. injection Hg1' as <-.
    cbn [pmb_of] in Hp'. subst pmb0.
    unfold sub. rewrite Hg1. cbn [obind].
    (* the three header words *)
    fold Q in Hmem1. rewrite Hmem1.
    set (Pk := fst (hctx t v pi (- zlen Rr))) in *.
    assert (HPk : zlen Pk = ax) by (subst Pk ax; unfold addr_of; rewrite hctx_fst_len; lia).
    assert (Hw1 : wr (Pk ++ (A ++ []) ++ Q ++ J) (ax + 4) (le_bytes 4 0)
                  = Ok (Pk ++ le_bytes 4 usz ++ le_bytes 4 0 ++ le_bytes 4 0 ++ Q ++ J)).
    { subst A. rewrite app_nil_r.
      replace (Pk ++ (le_bytes 4 usz ++ le_bytes 4 n ++ le_bytes 4 0) ++ Q ++ J)
        with ((Pk ++ le_bytes 4 usz) ++ le_bytes 4 n ++ (le_bytes 4 0 ++ Q ++ J)) by (now rewrite <- !app_assoc).
      replace (Pk ++ le_bytes 4 usz ++ le_bytes 4 0 ++ le_bytes 4 0 ++ Q ++ J)
        with ((Pk ++ le_bytes 4 usz) ++ le_bytes 4 0 ++ (le_bytes 4 0 ++ Q ++ J)) by (now rewrite <- !app_assoc).
      apply wr_mid'; [rewrite zlen_app, zlen_le_bytes, HPk; reflexivity|now rewrite !zlen_le_bytes]. }
    rewrite Hw1. cbn [obind].
    assert (Hw2 : wr (Pk ++ le_bytes 4 usz ++ le_bytes 4 0 ++ le_bytes 4 0 ++ Q ++ J) (ax + 8) (le_bytes 4 0)
                  = Ok (Pk ++ le_bytes 4 usz ++ le_bytes 4 0 ++ le_bytes 4 0 ++ Q ++ J)).
    { replace (Pk ++ le_bytes 4 usz ++ le_bytes 4 0 ++ le_bytes 4 0 ++ Q ++ J)
        with ((Pk ++ le_bytes 4 usz ++ le_bytes 4 0) ++ le_bytes 4 0 ++ (Q ++ J)) by (now rewrite <- !app_assoc).
      apply wr_mid'; [rewrite !zlen_app, !zlen_le_bytes, HPk; change (Z.of_nat 4) with 4; lia|reflexivity]. }
    rewrite Hw2. cbn [obind].
    assert (Hw3 : wr (Pk ++ le_bytes 4 usz ++ le_bytes 4 0 ++ le_bytes 4 0 ++ Q ++ J) ax (le_bytes 4 0)
                  = Ok (Pk ++ le_bytes 4 0 ++ le_bytes 4 0 ++ le_bytes 4 0 ++ Q ++ J)).
    { apply wr_mid'; [now rewrite HPk|now rewrite !zlen_le_bytes]. }
    rewrite Hw3. cbn [obind].
    (* the new state *)
    assert (Henc' : encode t v' = Pk ++ (le_bytes 4 0 ++ le_bytes 4 0 ++ le_bytes 4 0) ++ Q).
    { subst v' Pk Q. rewrite (hctx_plug t v pi _ _ (VUList []) Hres), HencX'.
      replace (zlen (le_bytes 4 0 ++ le_bytes 4 0 ++ le_bytes 4 0) - zlen (encode (TUList it k) (VUList items))) with (- zlen Rr)
        by (rewrite <- HencX'; lia). reflexivity. }
    assert (HcapE : zlen (Pk ++ le_bytes 4 0 ++ le_bytes 4 0 ++ le_bytes 4 0 ++ Q ++ J) = m_cap s).
    { rewrite <- Hcap1. unfold m_cap. rewrite Hmem1. subst A. rewrite !zlen_app, !zlen_le_bytes. change (zlen (@nil Z)) with 0. lia. }
    eexists _, _. split; [reflexivity|]. split; [|split; [unfold m_cap; cbn [set_mem m_mem]; exact HcapE|cbn [set_mem m_refuse]; exact Href1]].
    constructor; cbn [set_mem m_mem m_len]; auto.
    - exists J. rewrite Henc'. now rewrite <- !app_assoc.
    - rewrite Hlen1, Hlen. subst v'. rewrite (hctx_plug_len t v pi _ _ (VUList []) Hres), Hsz'. lia.
    - apply (LayP_set_at _ Lay pi t v' 0 top1 _ _ _ Hwf' Hres' HL1). rewrite Hax'. cbn [Lay].
      split; [reflexivity|]. split; [reflexivity|]. split; [reflexivity|]. split; [rewrite Hsz'; lia|].
      destruct inner0 as [q|]; [exact Hin0|exact I].
    - unfold m_cap. cbn [set_mem m_mem]. rewrite HcapE. exact Hc32.
  Qed.
End uclear.

(* ---------------------------------------------------------------------------------------------- *)
(* 6. remove_range                                                                                  *)
Section uremove.
  Variables (pi : list step) (t : ty) (v : val) (it : ty) (k : nat) (items : list (list Z * val)).
  Variables st en : Z.
  Hypothesis Hres : resolve t v pi = Some (TUList it k, VUList items).
  Hypothesis Hrange : 0 <= st < en /\ en <= zlen items.
  Let items' := firstn (Z.to_nat st) items ++ skipn (Z.to_nat en) items.
  Let v' := plug t v pi (VUList items').

  Theorem ulist_remove_general s top :
    RepF pi t v s top ->
    exists s' top', ulist_remove t s top (mpath pi) st en = Ok (s', top', []) /\ RepF pi t v' s' top' /\
                    m_cap s' = m_cap s /\ m_refuse s' = m_refuse s.
  Proof.
    intros R.
    destruct (ulist_located pi t v it k items Hres s top R) as (inner & pmb & Hsub & Hio & R0 & Hg0).
    destruct Hrange as [[Hst0 Hsten] Hen].
    unfold ulist_remove. rewrite Hsub. cbn [obind]. rewrite Hio. cbn [negb set_pmb].
    destruct ((st =? 0) && (en =? zlen items)) eqn:Eclr.
    { (* the whole list: clear *)
      apply andb_true_iff in Eclr as [E1 E2]. zb.
      assert (Hne : items <> []) by (intros ->; change (zlen (@nil (list Z * val))) with 0 in Hen; lia).
      destruct (ulist_clear_general pi t v it k items Hres Hne s _ R0) as (s' & top' & Hc & R' & Hcap & Href).
      exists s', top'. split; [exact Hc|]. split; [|split; assumption].
      unfold v', items'. rewrite E1, E2. change (Z.to_nat 0) with 0%nat. cbn [firstn app].
      unfold zlen. rewrite Nat2Z.id, skipn_all. exact R'. }
    destruct (en <? st) eqn:Ea; [zb; lia|]. destruct (zlen items <? en) eqn:Eb; [zb; lia|]. clear Eclr Ea Eb.
    pose proof R as [Hpl Hok Hwf [junk Hmem] Hlen HL Hc32].
    pose proof (rf_top _ _ _ _ _ R0) as HL0.
    pose proof (resolve_wf _ _ _ _ _ Hwf Hres) as HwU. pose proof (ulist_facts _ _ _ HwU) as F.
    pose proof (zlen_encode_ulist _ _ _ F) as HzX.
    pose proof (uf_n _ _ _ F) as Hn. pose proof (uf_usz _ _ _ F) as Hu.
    pose proof (uf_keys _ _ _ F) as Hk. pose proof (uf_offs _ _ _ F) as Ho. pose proof (uf_data _ _ _ F) as Hd.
    pose proof (usizes_length it items) as Hls. pose proof (usizes_nonneg it items) as Hnn.
    set (ax := addr_of t v pi 0) in *. set (esz := 4 + Z.of_nat k) in *.
    set (n := zlen items) in *. set (sizes := usizes it items) in *. set (usz := zsum sizes) in *.
    set (keys := map fst items) in *. set (offs := offsets_from 0 sizes) in *. set (U := uenc it items) in *.
    set (i := Z.to_nat st). set (j := Z.to_nat en).
    assert (Hi : Z.of_nat i = st) by (subst i; lia). assert (Hj : Z.of_nat j = en) by (subst j; lia).
    assert (Hij : (i <= j)%nat) by lia. assert (Hjn : (j <= length items)%nat) by (unfold n, zlen in Hen; lia).
    assert (Hlk : length keys = length items) by (subst keys; now rewrite map_length).
    assert (Hlo : length offs = length keys) by (subst offs; rewrite offsets_from_length; lia).
    assert (HlU : length U = length items) by (subst U; unfold uenc; now rewrite map_length).
    set (so := zsum (firstn i sizes)). set (eo := zsum (firstn j sizes)).
    assert (Hso : 0 <= so <= eo).
    { subst so eo. replace (firstn i sizes) with (firstn i (firstn j sizes)) by (rewrite firstn_firstn; f_equal; lia).
      apply zsum_firstn_le. now apply Forall_firstn'. }
    assert (Heo : eo <= usz) by (subst eo usz; apply zsum_firstn_le; exact Hnn).
    assert (Hesz : 4 <= esz) by (subst esz; lia).
    (* the offset table and the element bytes, split at st and en *)
    set (E1 := concat (offset_entries (firstn i offs) (firstn i keys))).
    set (Er := concat (offset_entries (skipn i (firstn j offs)) (skipn i (firstn j keys)))).
    set (E3 := concat (offset_entries (skipn j offs) (skipn j keys))).
    assert (Htbl : utable it items = E1 ++ Er ++ E3).
    { unfold utable. fold sizes offs keys. rewrite (table_split j offs keys Hlo).
      rewrite (table_split i (firstn j offs) (firstn j keys)) by (rewrite !firstn_length; lia).
      rewrite !firstn_firstn, Nat.min_l by lia. subst E1 Er E3. now rewrite <- app_assoc. }
    assert (HzE1 : zlen E1 = st * esz).
    { subst E1. rewrite (zlen_offset_entries _ _ k); [|rewrite !firstn_length; lia|now apply Forall_firstn'].
      unfold zlen. rewrite firstn_length. f_equal. lia. }
    assert (HzEr : zlen Er = (en - st) * esz).
    { subst Er. rewrite (zlen_offset_entries _ _ k); [|rewrite !skipn_length, !firstn_length; lia|now apply Forall_skipn', Forall_firstn'].
      unfold zlen. rewrite skipn_length, firstn_length. f_equal. lia. }
    assert (HzE3 : zlen E3 = (n - en) * esz).
    { subst E3. rewrite (zlen_offset_entries _ _ k); [|rewrite !skipn_length; lia|now apply Forall_skipn'].
      unfold zlen. rewrite skipn_length. f_equal. subst n. unfold zlen. lia. }
    set (D1 := concat (firstn i U)). set (Dr := concat (firstn (j - i) (skipn i U))). set (D3 := concat (skipn j U)).
    assert (HD : concat U = D1 ++ Dr ++ D3) by (apply concat_split_3; exact Hij).
    assert (HzD1 : zlen D1 = so) by (subst D1 U so sizes; apply zsum_firstn_usizes).
    assert (HzD3 : zlen D3 = usz - eo).
    { subst D3 U. rewrite zsum_skipn_usizes. fold sizes. subst usz eo. rewrite (zsum_firstn_skipn sizes j). lia. }
    assert (HzDr : zlen Dr = eo - so).
    { fold U in Hd. rewrite HD, !zlen_app in Hd. lia. }
    assert (HencX : encode (TUList it k) (VUList items)
                    = le_bytes 4 usz ++ le_bytes 4 n ++ E1 ++ Er ++ E3 ++ le_bytes 4 n ++ D1 ++ Dr ++ D3).
    { rewrite encode_ulist, Htbl. fold U. rewrite HD, <- !app_assoc. reflexivity. }
    pose proof (hctx_encode _ _ _ _ _ Hres) as Henc.
    set (P0 := fst (hctx t v pi 0)) in *. set (Q := snd (hctx t v pi 0)) in *.
    assert (HaP : ax = zlen P0) by (subst ax P0; unfold addr_of; lia).
    assert (Hmem0 : m_mem s = P0 ++ le_bytes 4 usz ++ le_bytes 4 n ++ E1 ++ Er ++ E3 ++ le_bytes 4 n ++ D1 ++ Dr ++ D3 ++ Q ++ junk).
    { rewrite Hmem, Henc, HencX, <- !app_assoc. reflexivity. }
    (* the new list *)
    set (sizes' := firstn i sizes ++ skipn j sizes). set (keys' := firstn i keys ++ skipn j keys).
    set (n1 := n - (en - st)).
    assert (Hus' : usizes it items' = sizes').
    { unfold items', usizes, uenc. fold i j. rewrite !map_app, <- !firstn_map, <- !skipn_map. reflexivity. }
    assert (Hue' : uenc it items' = firstn i U ++ skipn j U).
    { unfold items', uenc. fold i j. rewrite !map_app, <- !firstn_map, <- !skipn_map. reflexivity. }
    assert (Hk' : map fst items' = keys').
    { unfold items'. fold i j. rewrite !map_app, <- !firstn_map, <- !skipn_map. reflexivity. }
    assert (Hn' : zlen items' = n1).
    { unfold items'. fold i j. rewrite zlen_app. unfold zlen at 1 2. rewrite firstn_length, skipn_length. subst n1 n. unfold zlen. lia. }
    assert (Hsum' : zsum sizes' = usz - (eo - so)).
    { subst sizes'. rewrite zsum_app. fold so. subst usz eo. rewrite (zsum_firstn_skipn sizes j). lia. }
    assert (HwfX' : wf (TUList it k) (VUList items') = true).
    { pose proof HwU as W. cbn [wf] in W. apply andb_true_iff in W as [W Hit]. apply andb_true_iff in W as [W Hsorted].
      assert (Hit' : forallb (fun kv => (length (fst kv) =? k)%nat && bytes_ok (fst kv) && wf it (snd kv)) items' = true)
        by (apply forallb_remove; exact Hit).
      assert (Hsz : map (fun kv => byte_size it (snd kv)) items' = usizes it items').
      { unfold usizes, uenc. rewrite map_map. symmetry. apply map_ext_in. intros x Hin. apply encode_size.
        rewrite forallb_forall in Hit'. specialize (Hit' x Hin). apply andb_true_iff in Hit' as [_ H]. exact H. }
      cbn [wf]. rewrite Hit', Hsz, Hus', Hsum', Hn', andb_true_r.
      destruct (n1 <? U32_LIMIT) eqn:Ea; [|zb; subst n1; lia].
      destruct (usz - (eo - so) <? U32_LIMIT) eqn:Eb; [|zb; lia]. cbn [andb].
      destruct (k =? 0)%nat; [reflexivity|]. cbn [orb] in *.
      unfold items'. fold i j. rewrite map_app, <- firstn_map, <- skipn_map. apply sa_remove; assumption. }
    pose proof (ulist_facts _ _ _ HwfX') as F'.
    assert (HencX' : encode (TUList it k) (VUList items')
                     = le_bytes 4 (usz - (eo - so)) ++ le_bytes 4 n1 ++ concat (offset_entries (offsets_from 0 sizes') keys')
                       ++ le_bytes 4 n1 ++ D1 ++ D3).
    { rewrite encode_ulist. unfold utable. rewrite Hus', Hk', Hue', Hn', Hsum', concat_app. reflexivity. }
    (* reads *)
    assert (Hmem' : m_mem s = P0 ++ encode (TUList it k) (VUList items) ++ (Q ++ junk)).
    { rewrite Hmem, Henc, <- !app_assoc. reflexivity. }
    assert (Hrso : ulist_offset k (m_mem s) ax n st = Ok so).
    { rewrite Hmem', HaP. apply ulist_offset_mem; [exact HwU|fold n; lia]. }
    assert (Hreo : ulist_offset k (m_mem s) ax n en = Ok eo).
    { rewrite Hmem', HaP. apply ulist_offset_mem; [exact HwU|fold n; lia]. }
    rewrite Hrso. cbn [obind]. rewrite Hreo. cbn [obind]. unfold ulist_dbase. fold esz.
    (* the memmove that closes the gap in the offset table *)
    set (Ma := P0 ++ le_bytes 4 usz ++ le_bytes 4 n ++ E1). set (Mt := E3 ++ le_bytes 4 n ++ D1).
    set (Mc := Dr ++ D3 ++ Q ++ junk). set (H := zdrop (zlen Mt) (Er ++ Mt)).
    assert (HzMa : zlen Ma = ax + 8 + st * esz).
    { subst Ma. rewrite !zlen_app, !zlen_le_bytes, HzE1. change (Z.of_nat 4) with 4. lia. }
    assert (HzMt : zlen Mt = (n - en) * esz + 4 + so).
    { subst Mt. rewrite !zlen_app, !zlen_le_bytes, HzE3, HzD1. change (Z.of_nat 4) with 4. lia. }
    assert (HzH : zlen H = zlen Er).
    { subst H. pose proof (zlen_nonneg Mt). pose proof (zlen_nonneg Er).
      rewrite zlen_zdrop by (rewrite zlen_app; lia). rewrite zlen_app. lia. }
    assert (Hmv : mmove (m_mem s) (ax + 8 + st * esz) (ax + 8 + en * esz) (ax + 8 + n * esz + 4 + so - (ax + 8 + en * esz))
                  = Ok (Ma ++ Mt ++ H ++ Mc)).
    { replace (m_mem s) with (Ma ++ Er ++ Mt ++ Mc) by (rewrite Hmem0; subst Ma Mt Mc; now rewrite <- !app_assoc).
      replace (ax + 8 + en * esz) with (zlen Ma + zlen Er) by (rewrite HzMa, HzEr; lia).
      replace (ax + 8 + st * esz) with (zlen Ma) by (rewrite HzMa; lia).
      replace (ax + 8 + n * esz + 4 + so - (zlen Ma + zlen Er)) with (zlen Mt) by (rewrite HzMa, HzEr, HzMt; lia).
      apply mmove_down. }
    rewrite Hmv. cbn [obind].
    set (A' := le_bytes 4 usz ++ le_bytes 4 n ++ E1 ++ E3 ++ le_bytes 4 n ++ D1). set (R' := H ++ Dr).
    assert (Hm1 : Ma ++ Mt ++ H ++ Mc = P0 ++ (A' ++ R' ++ D3) ++ Q ++ junk).
    { subst Ma Mt Mc A' R'. now rewrite <- !app_assoc. }
    rewrite Hm1.
    assert (HzA' : zlen A' = 8 + st * esz + (n - en) * esz + 4 + so).
    { subst A'. rewrite !zlen_app, !zlen_le_bytes, HzE1, HzE3, HzD1. change (Z.of_nat 4) with 4. lia. }
    assert (HzR' : zlen R' = (en - st) * esz + (eo - so)).
    { subst R'. rewrite zlen_app, HzH, HzEr, HzDr. lia. }
    assert (HRpos : 0 < zlen R') by nia.
    assert (HzARB : zlen (A' ++ R' ++ D3) = zlen (encode (TUList it k) (VUList items))).
    { rewrite !zlen_app, HzA', HzR', HzD3, HzX. fold n esz sizes usz. lia. }
    assert (Hsz' : zlen (encode (TUList it k) (VUList items')) = zlen (encode (TUList it k) (VUList items)) - zlen R').
    { rewrite (zlen_encode_ulist _ _ _ F'), HzX, Hus', Hsum', Hn', HzR'. fold n esz sizes usz. subst n1. lia. }
    set (s0 := set_mem s (P0 ++ (A' ++ R' ++ D3) ++ Q ++ junk)).
    assert (Hcap0 : m_cap s0 = m_cap s).
    { unfold m_cap. subst s0. cbn [set_mem m_mem]. rewrite <- Hm1. symmetry.
      rewrite <- (mmove_len _ _ _ _ _ Hmv). reflexivity. }
    (* remove_bytes *)
    destruct (remove_bytes_inside' pi t v (TUList it k) (VUList items) (VUList items') Hres eq_refl s0 _ A' R' D3 junk
                Hpl Hok Hwf HL0 eq_refl Hlen ltac:(rewrite Hcap0; exact Hc32) HzARB HRpos Hsz')
      as (s1 & top1 & J & Hrem & Hmem1 & Hlen1 & Hcap1 & Href1 & HL1 & Hpmb).
    fold ax in Hrem.
    replace (ax + 8 + n * esz + 4 + so - esz * (en - st)) with (ax + zlen A') by (rewrite HzA'; lia).
    replace (ax + 8 + n * esz + 4 + eo) with (ax + zlen A' + zlen R') by (rewrite HzA', HzR'; lia).
    rewrite Hrem. cbn [catch].
    (* the node after the broadcast *)
    pose proof (resolve_plug t v pi _ _ (VUList items') Hres) as Hres'. fold v' in Hres', HL1.
    assert (Hwf' : wf t v' = true).
    { apply (wf_plug t v pi _ _ (VUList items') Hwf Hres HwfX').
      rewrite (hctx_plug_len t v pi _ _ (VUList items') Hres), Hsz'.
      pose proof (repf_cap _ _ _ _ _ R). lia. }
    assert (Hax' : addr_of t v' pi 0 = ax) by (unfold v', ax; eapply addr_of_plug; eauto).
    destruct (LayP_get_at _ pi t v' 0 top1 _ _ Hwf' Hres' HL1) as (node1 & Hg1 & (node0 & HE0 & ->)).
    rewrite Hax' in HE0.
    destruct node0 as [| | |a0 n0 inner0 pmb0 rs0 re0| |]; try (cbn [Lay] in HE0; contradiction).
    cbn [Lay] in HE0. destruct HE0 as (-> & -> & -> & -> & Hin0). fold n in Hg1, Hin0.
    cbn [own_notify] in Hg1.
    destruct (Hpmb _ _ _ Hg0) as (node' & Hg1' & Hp'). rewrite Hg1 in Hg1'. injection Hg1' as <-.
    cbn [pmb_of] in Hp'. subst pmb0.
    unfold sub. rewrite Hg1. cbn [obind].
    (* the list's own header: len, trailing copy of len, unsized_size, offsets from st on *)
    fold Q in Hmem1. rewrite Hmem1.
    set (Pk := fst (hctx t v pi (- zlen R'))) in *.
    assert (HPk : zlen Pk = ax) by (subst Pk ax; unfold addr_of; rewrite hctx_fst_len; lia).
    set (T := D1 ++ D3 ++ Q ++ J).
    assert (Hw1 : wr (Pk ++ (A' ++ D3) ++ Q ++ J) (ax + 4) (le_bytes 4 n1)
                  = Ok (Pk ++ le_bytes 4 usz ++ le_bytes 4 n1 ++ E1 ++ E3 ++ le_bytes 4 n ++ T)).
    { subst A' T.
      replace (Pk ++ ((le_bytes 4 usz ++ le_bytes 4 n ++ E1 ++ E3 ++ le_bytes 4 n ++ D1) ++ D3) ++ Q ++ J)
        with ((Pk ++ le_bytes 4 usz) ++ le_bytes 4 n ++ (E1 ++ E3 ++ le_bytes 4 n ++ D1 ++ D3 ++ Q ++ J)) by (now rewrite <- !app_assoc).
      replace (Pk ++ le_bytes 4 usz ++ le_bytes 4 n1 ++ E1 ++ E3 ++ le_bytes 4 n ++ D1 ++ D3 ++ Q ++ J)
        with ((Pk ++ le_bytes 4 usz) ++ le_bytes 4 n1 ++ (E1 ++ E3 ++ le_bytes 4 n ++ D1 ++ D3 ++ Q ++ J)) by (now rewrite <- !app_assoc).
      apply wr_mid'; [rewrite zlen_app, zlen_le_bytes, HPk; reflexivity|now rewrite !zlen_le_bytes]. }
    rewrite Hw1. cbn [obind].
    assert (Hw2 : wr (Pk ++ le_bytes 4 usz ++ le_bytes 4 n1 ++ E1 ++ E3 ++ le_bytes 4 n ++ T) (ax + 8 + n1 * esz) (le_bytes 4 n1)
                  = Ok (Pk ++ le_bytes 4 usz ++ le_bytes 4 n1 ++ E1 ++ E3 ++ le_bytes 4 n1 ++ T)).
    { replace (Pk ++ le_bytes 4 usz ++ le_bytes 4 n1 ++ E1 ++ E3 ++ le_bytes 4 n ++ T)
        with ((Pk ++ le_bytes 4 usz ++ le_bytes 4 n1 ++ E1 ++ E3) ++ le_bytes 4 n ++ T) by (now rewrite <- !app_assoc).
      replace (Pk ++ le_bytes 4 usz ++ le_bytes 4 n1 ++ E1 ++ E3 ++ le_bytes 4 n1 ++ T)
        with ((Pk ++ le_bytes 4 usz ++ le_bytes 4 n1 ++ E1 ++ E3) ++ le_bytes 4 n1 ++ T) by (now rewrite <- !app_assoc).
      apply wr_mid'; [|now rewrite !zlen_le_bytes].
      rewrite !zlen_app, !zlen_le_bytes, HPk, HzE1, HzE3. change (Z.of_nat 4) with 4. subst n1. lia. }
    rewrite Hw2. cbn [obind].
    assert (Hr3 : rd32 (Pk ++ le_bytes 4 usz ++ le_bytes 4 n1 ++ E1 ++ E3 ++ le_bytes 4 n1 ++ T) ax = Ok usz).
    { apply rd32_mid; [now rewrite HPk|exact Hu]. }
    rewrite Hr3. cbn [obind].
    destruct (usz - (eo - so) <? 0) eqn:Ec; [zb; lia|].
    set (usz' := usz - (eo - so)).
    assert (Hw4 : wr (Pk ++ le_bytes 4 usz ++ le_bytes 4 n1 ++ E1 ++ E3 ++ le_bytes 4 n1 ++ T) ax (le_bytes 4 usz')
                  = Ok (Pk ++ le_bytes 4 usz' ++ le_bytes 4 n1 ++ E1 ++ E3 ++ le_bytes 4 n1 ++ T)).
    { apply wr_mid'; [now rewrite HPk|now rewrite !zlen_le_bytes]. }
    rewrite Hw4. cbn [obind].
    set (offs1 := firstn i offs ++ skipn j offs).
    assert (Hl1f : length (firstn i offs) = length (firstn i keys)) by (rewrite !firstn_length; lia).
    assert (Hli : length (firstn i offs) = i) by (rewrite firstn_length; lia).
    assert (Hl1 : length offs1 = length keys') by (subst offs1 keys'; rewrite !app_length, !firstn_length, !skipn_length; lia).
    assert (HE13 : E1 ++ E3 = concat (offset_entries offs1 keys')).
    { subst E1 E3 offs1 keys'. now rewrite (table_app _ _ _ _ Hl1f). }
    assert (Hk1 : Forall (fun key => length key = k) keys').
    { subst keys'. apply Forall_app. split; [now apply Forall_firstn'|now apply Forall_skipn']. }
    assert (Ho1 : Forall (fun o => 0 <= o < U32_LIMIT) offs1).
    { subst offs1. apply Forall_app. split; [now apply Forall_firstn'|now apply Forall_skipn']. }
    assert (Hc1 : Forall (fun o => 0 <= o + - (eo - so) < U32_LIMIT) (skipn i offs1)).
    { subst offs1. rewrite <- Hli at 1. rewrite skipn_app_exact.
      eapply Forall_impl; [|exact (offsets_skipn_bounds sizes j 0 Hnn)]. cbn beta. fold eo usz. intros o Hoo. lia. }
    assert (Hzo1 : zlen offs1 = n1).
    { unfold zlen. rewrite Hl1. subst keys'. rewrite app_length, firstn_length, skipn_length. subst n1 n. unfold zlen. lia. }
    assert (Hadj : adjust_offsets (Pk ++ le_bytes 4 usz' ++ le_bytes 4 n1 ++ E1 ++ E3 ++ le_bytes 4 n1 ++ T) (ax + 8) n1 esz st (- (eo - so))
                   = Ok (Pk ++ le_bytes 4 usz' ++ le_bytes 4 n1 ++ concat (offset_entries (offsets_from 0 sizes') keys') ++ le_bytes 4 n1 ++ T)).
    { pose proof (adjust_offsets_table k (Pk ++ le_bytes 4 usz' ++ le_bytes 4 n1) (le_bytes 4 n1 ++ T) offs1 keys' i (- (eo - so))
                    Hl1 Hk1 Ho1 Hc1) as HA.
      rewrite Hzo1, Hi in HA. fold esz in HA.
      replace (zlen (Pk ++ le_bytes 4 usz' ++ le_bytes 4 n1)) with (ax + 8) in HA
        by (rewrite !zlen_app, !zlen_le_bytes, HPk; change (Z.of_nat 4) with 4; lia).
      subst offs1 offs eo so. rewrite (offsets_remove sizes i j Hij ltac:(lia)) in HA. fold sizes' in HA.
      rewrite <- HE13, <- !app_assoc in HA. rewrite <- HA. f_equal. }
    rewrite Hadj. cbn [obind].
    (* the new state *)
    assert (Henc' : encode t v' = Pk ++ encode (TUList it k) (VUList items') ++ Q).
    { unfold v'. subst Pk Q. rewrite (hctx_plug t v pi _ _ (VUList items') Hres).
      replace (zlen (encode (TUList it k) (VUList items')) - zlen (encode (TUList it k) (VUList items))) with (- zlen R') by lia.
      reflexivity. }
    assert (HcapE : zlen (Pk ++ le_bytes 4 usz' ++ le_bytes 4 n1 ++ concat (offset_entries (offsets_from 0 sizes') keys') ++ le_bytes 4 n1 ++ T) = m_cap s).
    { rewrite <- Hcap0, <- Hcap1. unfold m_cap. rewrite Hmem1. subst A' T. rewrite !zlen_app, !zlen_le_bytes.
      rewrite (zlen_entries_len (offsets_from 0 sizes') offs1 keys')
        by (subst offs1 sizes' offs; rewrite !app_length, !firstn_length, !skipn_length, !offsets_from_length, !app_length, !firstn_length, !skipn_length; reflexivity).
      rewrite <- HE13, zlen_app. lia. }
    eexists _, _. split; [reflexivity|]. split; [|split; [unfold m_cap; cbn [set_mem m_mem]; exact HcapE|cbn [set_mem m_refuse]; exact Href1]].
    constructor; cbn [set_mem m_mem m_len]; auto.
    - exists J. rewrite Henc', HencX'. subst T usz'. now rewrite <- !app_assoc.
    - rewrite Hlen1. subst s0. cbn [set_mem m_len]. rewrite Hlen. unfold v'.
      rewrite (hctx_plug_len t v pi _ _ (VUList items') Hres), Hsz'. lia.
    - apply (LayP_set_at _ Lay pi t v' 0 top1 _ _ _ Hwf' Hres' HL1). rewrite Hax'. cbn [Lay].
      split; [reflexivity|]. split; [now rewrite Hn'|]. split; [reflexivity|]. split; [rewrite Hsz'; lia|].
      destruct inner0 as [q|]; [exact Hin0|exact I].
    - unfold m_cap. cbn [set_mem m_mem]. rewrite HcapE. exact Hc32.
  Qed.
End uremove.

Print Assumptions ulist_remove_general.
Print Assumptions ulist_clear_general.
