(* Three more public operations on a container located ANYWHERE inside a value refine the owned model:
     List::index_mut + store            Vec[idx] = item                       (list_write, no resize)
     RemainingBytes::set_len            Vec::resize(len, 0) / Vec::truncate   (rem_set_len)
     RemainingBytes index_mut + store   Vec[idx] = b                          (rem_write, no resize)
   The in-place stores keep every encoded size, hence every ancestor header and the whole pointer tree
   (LayP_plug_same, store_inside); RemainingBytes is only reachable in tail position (resolve_rem_tail), so the
   bytes that growth exposes are exactly the zeroes the realloc wrote (add_bytes_inside_G). *)
From SF Require Import Base.Prelude Gen.Generated Unsized.Types Unsized.Parse Unsized.Machine Unsized.Ops.
From SF Require Import Unsized.Proofs.EncodeParse Unsized.Proofs.Mem Unsized.Proofs.Notify Unsized.Proofs.Flat Unsized.Proofs.Layout
  Unsized.Proofs.Table Unsized.Proofs.Path Unsized.Proofs.Context Unsized.Proofs.Context2 Unsized.Proofs.Focus Unsized.Proofs.Pos
  Unsized.Proofs.FocusOps Unsized.Proofs.NotifyInside Unsized.Proofs.Resize Unsized.Proofs.GenOps.
From SF Require Import Unsized.Proofs.EnumFacts.

Arguments Z.add : simpl never.
Arguments Z.sub : simpl never.
Arguments Z.mul : simpl never.
Arguments Z.of_nat : simpl never.
Arguments Z.pow : simpl never.
Arguments Z.modulo : simpl never.

(* ---------------------------------------------------------------------------------------------- *)
(* small byte-list facts                                                                           *)
Lemma ztake_zrepeat_all {A} (x : A) k : 0 <= k -> ztake k (zrepeat x k) = zrepeat x k.
Proof. intros H. unfold ztake, zrepeat. apply firstn_all2. rewrite repeat_length. lia. Qed.

Lemma bytes_ok_app a b : bytes_ok (a ++ b) = bytes_ok a && bytes_ok b.
Proof. unfold bytes_ok. apply forallb_app. Qed.

Lemma bytes_ok_zrepeat0 k : bytes_ok (zrepeat 0 k) = true.
Proof. unfold zrepeat. induction (Z.to_nat k) as [|n IH]; [reflexivity|]. cbn [repeat bytes_ok forallb]. exact IH. Qed.

Lemma bytes_ok_ztake n bs : bytes_ok bs = true -> bytes_ok (ztake n bs) = true.
Proof.
  unfold bytes_ok, ztake. rewrite !forallb_forall. intros H x Hx. apply H. eapply In_firstn; eauto.
Qed.

Lemma bytes_ok_zdrop n bs : bytes_ok bs = true -> bytes_ok (zdrop n bs) = true.
Proof.
  unfold bytes_ok, zdrop. rewrite !forallb_forall. intros H x Hx. apply H. eapply In_skipn; eauto.
Qed.

(* a byte list split around position idx *)
Lemma zsplit_at (bs : list Z) idx : 0 <= idx < zlen bs ->
  exists x, bs = ztake idx bs ++ x :: zdrop (idx + 1) bs.
Proof.
  intros H. assert (Hn : (Z.to_nat idx < length bs)%nat) by (unfold zlen in H; lia).
  destruct (nth_error bs (Z.to_nat idx)) as [x|] eqn:E; [|apply nth_error_None in E; lia].
  exists x. unfold ztake, zdrop. replace (Z.to_nat (idx + 1)) with (S (Z.to_nat idx)) by lia.
  exact (nth_error_split3 _ _ _ E).
Qed.

(* ---------------------------------------------------------------------------------------------- *)
(* replacing the sub-value a path leads to by one of the SAME encoded size keeps the whole focused layout: no
   address, no header field and no recorded range of any ancestor depends on anything but sizes *)
Lemma LayP_plug_same (E E' : ty -> val -> Z -> ptr -> Prop) pi : forall t v b p X xv x',
  resolve t v pi = Some (X, xv) -> zlen (encode X x') = zlen (encode X xv) ->
  (forall a node, E X xv a node -> E' X x' a node) ->
  LayP E pi t v b p -> LayP E' pi t (plug t v pi x') b p.
Proof.
  induction pi as [|[i|i|] r IH]; intros t v b p X xv x' Hr Hsz HE HL.
  - cbn [resolve] in Hr. injection Hr as <- <-. cbn [plug LayP] in *. exact (HE _ _ HL).
  - apply resolve_SF_inv in Hr as (ts & vs & ti & vi & -> & -> & Hti & Hvi & Hr).
    destruct p as [| | | |ps|]; try (cbn [LayP] in HL; contradiction).
    cbn [LayP] in HL. destruct HL as (ti' & vi' & qi & Hti' & Hvi' & Hqi & HA & HLi & HB).
    rewrite Hti in Hti'. injection Hti' as <-. rewrite Hvi in Hvi'. injection Hvi' as <-.
    assert (Hl : zlen (encode ti (plug ti vi r x')) = zlen (encode ti vi))
      by (rewrite (hctx_plug_len _ _ _ _ _ x' Hr); lia).
    rewrite (plug_SF _ _ _ _ _ _ _ Hti Hvi). cbn [LayP].
    exists ti, (plug ti vi r x'), qi.
    rewrite Context2.firstn_set_nth, Context2.skipn_set_nth, (nth_error_set_nth _ _ _ _ Hvi), Hl.
    repeat split; auto. exact (IH _ _ _ _ _ _ _ Hr Hsz HE HLi).
  - pose proof Hr as Hr0.
    apply resolve_SE_inv in Hr as (it & k & items & kv & -> & -> & Hkv & Hr).
    destruct p as [| | |a n inner pmb rs re| |]; try (cbn [LayP] in HL; contradiction).
    cbn [LayP] in HL. destruct HL as (-> & -> & -> & -> & kv' & q & Hkv' & -> & HLi).
    rewrite Hkv in Hkv'. injection Hkv' as <-.
    pose proof (hctx_plug_len _ _ _ _ _ x' Hr0) as Hl0.
    rewrite (plug_SE _ _ _ _ _ _ _ Hkv) in *. cbn [LayP].
    assert (Hl' : zlen (set_nth i (fst kv, plug it (snd kv) r x') items) = zlen items)
      by (unfold zlen; now rewrite set_nth_length).
    split; [reflexivity|]. split; [now rewrite Hl'|]. split; [reflexivity|]. split; [lia|].
    exists (fst kv, plug it (snd kv) r x'), q.
    split; [exact (nth_error_set_nth _ _ _ _ Hkv)|]. split; [reflexivity|]. cbn [snd].
    replace (elem_addr it k (set_nth i (fst kv, plug it (snd kv) r x') items) b i) with (elem_addr it k items b i).
    + exact (IH _ _ _ _ _ _ _ Hr Hsz HE HLi).
    + unfold elem_addr. rewrite Hl', (usizes_set_nth _ _ _ _ _ Hkv), firstn_bump. reflexivity.
  - apply resolve_SV_inv in Hr as (rw & vars & d0 & pv & vt & -> & -> & Hf & Hr).
    destruct p as [| | | | |st d' q]; try (cbn [LayP] in HL; contradiction).
    cbn [LayP] in HL. destruct HL as (-> & -> & vt' & Hf' & HLi). rewrite Hf in Hf'. injection Hf' as <-.
    rewrite (plug_SV _ _ _ _ _ _ _ Hf). cbn [LayP]. split; [reflexivity|]. split; [reflexivity|].
    exists vt. split; [exact Hf|]. exact (IH _ _ _ _ _ _ _ Hr Hsz HE HLi).
Qed.

(* ---------------------------------------------------------------------------------------------- *)
(* an in-place store of |new| = |cur| bytes inside the sub-value at the end of a path *)
Section gstore.
  Variables (pi : list step) (t : ty) (v : val) (X : ty) (xv x' : val).
  Hypothesis Hres : resolve t v pi = Some (X, xv).

  Lemma store_inside s top (A cur new B : list Z) :
    RepF pi t v s top ->
    encode X xv = A ++ cur ++ B -> encode X x' = A ++ new ++ B -> zlen new = zlen cur ->
    wf X x' = true -> (forall a node, Lay X xv a node -> Lay X x' a node) ->
    exists m1,
      rd (m_mem s) (addr_of t v pi 0 + zlen A) (zlen cur) = Ok cur /\
      wr (m_mem s) (addr_of t v pi 0 + zlen A) new = Ok m1 /\
      RepF pi t (plug t v pi x') (set_mem s m1) top /\ m_cap (set_mem s m1) = m_cap s.
  Proof.
    intros R HX HX' Hnc HwfX' HLay.
    pose proof (repf_cap _ _ _ _ _ R) as Hcap.
    destruct R as [Hpl Hok Hwf [junk Hmem] Hlen HL Hc32].
    pose proof (hctx_encode _ _ _ _ _ Hres) as Henc.
    assert (Hsz : zlen (encode X x') = zlen (encode X xv)) by (rewrite HX, HX', !zlen_app; lia).
    assert (Henc' : encode t (plug t v pi x') = fst (hctx t v pi 0) ++ (A ++ new ++ B) ++ snd (hctx t v pi 0)).
    { rewrite (hctx_plug t v pi _ _ x' Hres), Hsz, Z.sub_diag, HX'. reflexivity. }
    assert (Hlen' : zlen (encode t (plug t v pi x')) = zlen (encode t v))
      by (rewrite (hctx_plug_len _ _ _ _ _ x' Hres); lia).
    unfold addr_of. rewrite Z.add_0_l.
    set (P0 := fst (hctx t v pi 0)) in *. set (Q := snd (hctx t v pi 0)) in *.
    assert (Hm : m_mem s = (P0 ++ A) ++ cur ++ (B ++ Q ++ junk)) by (rewrite Hmem, Henc, HX, <- !app_assoc; reflexivity).
    assert (Hax : zlen P0 + zlen A = zlen (P0 ++ A)) by (rewrite zlen_app; lia).
    assert (Hcap' : zlen ((P0 ++ A) ++ new ++ B ++ Q ++ junk) = zlen (m_mem s)).
    { rewrite Hm, !zlen_app, Hnc. reflexivity. }
    exists ((P0 ++ A) ++ new ++ (B ++ Q ++ junk)).
    split; [rewrite Hm; apply rd_mid'; [exact Hax|reflexivity]|].
    split; [rewrite Hm; apply wr_mid'; [exact Hax|exact Hnc]|].
    split; [|unfold m_cap; cbn [set_mem m_mem]; exact Hcap'].
    constructor; cbn [set_mem m_mem m_len]; auto.
    - apply (wf_plug _ _ _ _ _ _ Hwf Hres HwfX'). lia.
    - exists junk. rewrite Henc', <- !app_assoc. reflexivity.
    - lia.
    - exact (LayP_plug_same Lay Lay pi t v 0 top X xv x' Hres Hsz HLay HL).
    - unfold m_cap in *. cbn [set_mem m_mem]. rewrite Hcap'. exact Hc32.
  Qed.
End gstore.

(* ---------------------------------------------------------------------------------------------- *)
(* 1. List index_mut + store                                                                       *)
Section gwrite.
  Variables (pi : list step) (t : ty) (v : val) (c : fcheck) (lw : nat) (items : list (list Z)) (idx : Z) (item : list Z).
  Hypothesis Hres : resolve t v pi = Some (TList c lw, VList items).
  Hypothesis Hidx : 0 <= idx < zlen items.
  Hypothesis Hitem : item_ok c item.
  Let items' := firstn (Z.to_nat idx) items ++ item :: skipn (S (Z.to_nat idx)) items.

  Theorem list_write_general s top :
    RepF pi t v s top ->
    exists s', list_write t s top (mpath pi) idx item = Ok (s', top, []) /\ RepF pi t (plug t v pi (VList items')) s' top /\
               m_cap s' = m_cap s /\ m_refuse s' = m_refuse s.
  Proof.
    intros R.
    destruct (glist_facts pi t v c lw items Hres s top R) as (Hlw & Hes & Hn & Hm & Hitems).
    destruct (glist_located pi t v c lw items Hres s top R) as (Hsub & Hll).
    set (esz := Z.of_nat (fsize c)) in *. set (ax := addr_of t v pi 0) in *. set (len := zlen items) in *.
    assert (0 < esz) as Hesz by (subst esz; lia).
    assert (Hnlt : (Z.to_nat idx < length items)%nat) by (subst len; unfold zlen in Hidx; lia).
    destruct (nth_error items (Z.to_nat idx)) as [cur|] eqn:Hcur; [|apply nth_error_None in Hcur; lia].
    set (hd := concat (firstn (Z.to_nat idx) items)). set (tl := concat (skipn (S (Z.to_nat idx)) items)).
    assert (Hcat : concat items = hd ++ cur ++ tl) by (apply concat_split_nth; exact Hcur).
    assert (Hhd : zlen hd = esz * idx).
    { subst hd. rewrite (zlen_concat_fixed _ (fsize c)).
      - unfold zlen at 1. rewrite firstn_length. subst esz. f_equal. lia.
      - apply Forall_item_len. apply Forall_forall. intros x Hx. apply (proj1 (Forall_forall _ _) Hitems). eapply In_firstn; eauto. }
    assert (Hcurok : item_ok c cur) by (apply (proj1 (Forall_forall _ _) Hitems); eapply nth_error_In; eauto).
    destruct Hcurok as (Hcl & Hcb & Hcv). pose proof Hitem as (Hil & Hib & Hiv).
    assert (Hzc : zlen cur = esz) by (subst esz; unfold zlen; now rewrite Hcl).
    assert (Hzi : zlen item = esz) by (subst esz; unfold zlen; now rewrite Hil).
    assert (Hlen' : zlen items' = len).
    { subst items'. rewrite zlen_app, zlen_cons. unfold zlen at 1 2. rewrite firstn_length, skipn_length. subst len. unfold zlen. lia. }
    assert (Hitems' : Forall (item_ok c) items').
    { subst items'. apply Forall_app. split; [|constructor; [exact Hitem|]].
      - apply Forall_forall. intros x Hx. apply (proj1 (Forall_forall _ _) Hitems). eapply In_firstn; eauto.
      - apply Forall_forall. intros x Hx. apply (proj1 (Forall_forall _ _) Hitems). eapply In_skipn; eauto. }
    assert (HencX : encode (TList c lw) (VList items) = (le_bytes lw len ++ hd) ++ cur ++ tl).
    { cbn [encode]. fold len. rewrite Hcat. now rewrite <- app_assoc. }
    assert (HencX' : encode (TList c lw) (VList items') = (le_bytes lw len ++ hd) ++ item ++ tl).
    { cbn [encode]. rewrite Hlen'. subst items' hd tl. rewrite concat_app. cbn [concat]. now rewrite <- !app_assoc. }
    assert (HwfX' : wf (TList c lw) (VList items') = true).
    { cbn [wf]. rewrite (proj2 (wf_items_forall c items') Hitems'), Hlen'.
      destruct (len <? 256 ^ Z.of_nat lw) eqn:Ea; [|zb; subst len; lia].
      destruct (Z.of_nat (fsize c) * len <? U64_LIMIT) eqn:Eb; [reflexivity|zb; subst esz len; lia]. }
    destruct (store_inside pi t v _ _ (VList items') Hres s top (le_bytes lw len ++ hd) cur item tl R HencX HencX'
                ltac:(lia) HwfX') as (m1 & Hrd & Hwr & R' & Hcap').
    { intros a node HLn. destruct node; try (cbn in HLn; contradiction). cbn [Lay] in *. rewrite Hlen'. exact HLn. }
    fold ax in Hrd, Hwr. rewrite Hzc in Hrd.
    unfold list_write. rewrite Hsub. cbn [obind]. fold esz len. rewrite Hll. cbn [obind].
    destruct ((idx <? 0) || (len <=? idx)) eqn:E1; [apply orb_true_iff in E1; destruct E1; zb; lia|].
    replace (ax + Z.of_nat lw + idx * esz) with (ax + zlen (le_bytes lw len ++ hd))
      by (rewrite zlen_app, zlen_le_bytes, Hhd; lia).
    rewrite Hrd. cbn [obind]. rewrite Hcv. cbn [negb]. rewrite Hwr. cbn [obind].
    exists (set_mem s m1). split; [reflexivity|]. split; [exact R'|]. split; [exact Hcap'|reflexivity].
  Qed.

  Lemma list_write_index_error_g s top' : RepF pi t v s top' -> forall i, (i < 0 \/ zlen items <= i) ->
    list_write t s top' (mpath pi) i item = Err E_INDEX.
  Proof.
    clear Hidx Hitem.
    intros R i Hi. destruct (glist_located pi t v c lw items Hres s top' R) as (Hs & Hl).
    unfold list_write. rewrite Hs. cbn [obind]. rewrite Hl. cbn [obind].
    destruct ((i <? 0) || (zlen items <=? i)) eqn:E; [reflexivity|]. apply orb_false_iff in E as [E1 E2]. zb. lia.
  Qed.
End gwrite.

(* ---------------------------------------------------------------------------------------------- *)
(* RemainingBytes is only reachable in tail position: nothing follows it in the encoding           *)
Lemma resolve_rem_last t v pi xv last : ty_ok last t = true -> resolve t v pi = Some (TRem, xv) -> last = true.
Proof.
  intros Hok Hr. destruct (resolve_ty_ok _ _ _ _ _ _ Hok Hr) as (l' & Hl & Himp). cbn [ty_ok] in Hl. auto.
Qed.

Lemma resolve_rem_tail pi : forall t v xv last,
  ty_ok last t = true -> resolve t v pi = Some (TRem, xv) -> snd (hctx t v pi 0) = [].
Proof.
  induction pi as [|[i|i|] r IH]; intros t v xv last Hok Hr.
  - reflexivity.
  - apply resolve_SF_inv in Hr as (ts & vs & ti & vi & -> & -> & Hti & Hvi & Hr).
    rewrite (hctx_SF _ _ _ _ _ _ Hti Hvi). cbn [snd].
    destruct (ty_ok_field _ _ _ _ Hok Hti) as (l1 & Hok1 & _).
    rewrite (IH _ _ _ _ Hok1 Hr). cbn [app].
    destruct (skipn (S i) ts) as [|t2 tsB] eqn:E; [reflexivity|].
    exfalso. pose proof (nth_error_split3 _ _ _ Hti) as Ets. rewrite E in Ets. rewrite Ets in Hok.
    assert (Hf : ty_ok false ti = true) by (apply (field_not_last _ _ _ _ Hok); discriminate).
    discriminate (resolve_rem_last _ _ _ _ _ Hf Hr).
  - apply resolve_SE_inv in Hr as (it & k & items & kv & -> & -> & Hkv & Hr).
    cbn [ty_ok] in Hok. discriminate (resolve_rem_last _ _ _ _ _ Hok Hr).
  - apply resolve_SV_inv in Hr as (rw & vars & d0 & pv & vt & -> & -> & Hf & Hr).
    rewrite (hctx_SV _ _ _ _ _ _ Hf). cbn [snd].
    exact (IH _ _ _ _ (ty_ok_enum_variant _ _ _ _ _ Hok Hf) Hr).
Qed.

(* ---------------------------------------------------------------------------------------------- *)
(* Resize.add_bytes_inside, also saying WHAT the k exposed bytes are: the first k bytes of (the rest of the value
   followed by the k zeroes the realloc appended) *)
Section resizeG.
  Variables (pi : list step) (t : ty) (v : val) (X : ty) (xv xv' : val).
  Hypothesis Hres : resolve t v pi = Some (X, xv).
  Hypothesis HcX : container X = true.

  Let P0 := fst (hctx t v pi 0).
  Let Q := snd (hctx t v pi 0).
  Let ax := addr_of t v pi 0.

  Lemma add_bytes_inside_G s top (A B : list Z) k :
    RepF pi t v s top -> encode X xv = A ++ B -> 0 < k ->
    zlen (encode X xv') = zlen (encode X xv) + k ->
    m_refuse s <> 1 -> m_len s + k <= m_cap s ->
    exists s1 top1 G J,
      add_bytes t s top ax (ax + zlen A) k = Ok (s1, top1) /\
      m_mem s1 = fst (hctx t v pi k) ++ (A ++ G ++ B) ++ Q ++ J /\ zlen G = k /\
      G = ztake k ((B ++ Q) ++ zrepeat 0 k) /\
      m_len s1 = m_len s + k /\ m_cap s1 = m_cap s /\ m_refuse s1 = m_refuse s /\
      LayP (EndNotified xv k) pi t (plug t v pi xv') 0 top1.
  Proof.
    intros R HAB Hk Hsz Hnref Hroom. pose proof (repf_top_check _ _ _ _ _ R) as Hchk. pose proof (repf_cap _ _ _ _ _ R) as Hcap.
    destruct R as [Hpl Hok Hwf [junk Hmem] Hlen HL Hc32].
    pose proof (hctx_encode _ _ _ _ _ Hres) as Henc. fold P0 Q in Henc. rewrite HAB in Henc.
    pose proof (zlen_nonneg P0). pose proof (zlen_nonneg A). pose proof (zlen_nonneg B). pose proof (zlen_nonneg Q).
    assert (Hold : zlen (encode t v) = zlen P0 + zlen A + zlen B + zlen Q) by (rewrite Henc, !zlen_app; lia).
    assert (Hax : ax = zlen P0) by (subst ax P0; unfold addr_of; lia).
    unfold add_bytes. rewrite Hchk. cbn [negb].
    set (start := ax + zlen A).
    assert (0 <= start <= m_len s) as Hst by (subst start; lia).
    destruct ((start <? 0) || (m_len s <? start)) eqn:E3; [apply orb_true_iff in E3; destruct E3; zb; lia|].
    destruct (k =? 0) eqn:E4; [zb; lia|].
    assert (k <= zlen junk) as Hjk by (unfold m_cap in Hroom; rewrite Hmem, zlen_app, Hlen in Hroom; lia).
    set (J := zdrop k junk).
    assert (Hjunk : junk = ztake k junk ++ J) by (symmetry; apply ztake_zdrop).
    unfold realloc.
    destruct (m_len s <? m_len s + k) eqn:E5; [|zb; lia].
    destruct (m_refuse s =? 1) eqn:E6; [zb; congruence|]. cbn [andb].
    destruct (m_cap s <? m_len s + k) eqn:E7; [zb; lia|].
    assert (Hwr0 : wr (m_mem s) (m_len s) (zrepeat 0 (m_len s + k - m_len s)) = Ok (encode t v ++ zrepeat 0 k ++ J)).
    { rewrite Hmem, Hlen. rewrite Hjunk at 1. replace (zlen _ + k - zlen _) with k by lia.
      apply wr_mid'; [reflexivity|]. rewrite zlen_zrepeat, zlen_ztake by lia. reflexivity. }
    rewrite Hwr0. cbn [obind m_mem m_len].
    set (A' := P0 ++ A). set (T := B ++ Q).
    assert (HA' : zlen A' = start) by (subst A' start; rewrite zlen_app; lia).
    assert (HT : zlen T = m_len s - start) by (subst T start; rewrite zlen_app; lia).
    assert (Hm1 : encode t v ++ zrepeat 0 k ++ J = A' ++ (T ++ zrepeat 0 k) ++ J).
    { rewrite Henc. subst A' T. now rewrite <- !app_assoc. }
    assert (Hmv : (if start =? m_len s then Ok (encode t v ++ zrepeat 0 k ++ J)
                   else mmove (encode t v ++ zrepeat 0 k ++ J) (start + k) start (m_len s - start))
                  = Ok (A' ++ ztake k (T ++ zrepeat 0 k) ++ T ++ J)).
    { rewrite Hm1. destruct (start =? m_len s) eqn:E8.
      - zb. assert (T = []) as -> by (destruct T; [reflexivity|rewrite zlen_cons in HT; pose proof (zlen_nonneg T); lia]).
        cbn [app]. rewrite ztake_zrepeat_all by lia. reflexivity.
      - rewrite <- HT, <- HA'. apply mmove_up. symmetry. apply zlen_zrepeat. lia. }
    rewrite Hmv. cbn [obind].
    set (G := ztake k (T ++ zrepeat 0 k)).
    assert (HG : zlen G = k) by (subst G; rewrite zlen_ztake; [reflexivity|rewrite zlen_app, zlen_zrepeat by lia; pose proof (zlen_nonneg T); lia]).
    assert (Hmem2 : A' ++ G ++ T ++ J = [] ++ P0 ++ (A ++ G ++ B) ++ Q ++ J).
    { subst A' T. cbn [app]. now rewrite <- !app_assoc. }
    rewrite Hmem2.
    destruct (notify_inside pi t true v top X xv xv' k (A ++ G ++ B) [] J Hpl Hok Hwf Hres HcX HL) as (p' & Hn & HL'); try lia.
    { rewrite HAB, !zlen_app. lia. }
    { pose proof (zlen_nonneg (encode X xv)). lia. }
    change (zlen (@nil Z)) with 0 in Hn. fold ax P0 Q in Hn. rewrite Hn. cbn [obind].
    exists (set_mem {| m_mem := encode t v ++ zrepeat 0 k ++ J; m_len := m_len s + k; m_grow := m_grow s + 1; m_refuse := m_refuse s |}
                    ([] ++ fst (hctx t v pi k) ++ (A ++ G ++ B) ++ Q ++ J)), p', G, J.
    split; [reflexivity|]. cbn [set_mem m_mem m_len m_refuse app].
    split; [reflexivity|]. split; [exact HG|]. split; [reflexivity|]. split; [reflexivity|].
    split; [|split; [reflexivity|exact HL']].
    unfold m_cap. cbn [set_mem m_mem]. rewrite Hmem. rewrite !zlen_app, (hctx_fst_len t v pi k). fold P0.
    rewrite HG, Hold. pose proof (zlen_nonneg J). assert (zlen junk = k + zlen J) by (rewrite Hjunk at 1; rewrite zlen_app, zlen_ztake by lia; lia). lia.
  Qed.
End resizeG.

(* ---------------------------------------------------------------------------------------------- *)
(* 2. RemainingBytes::set_len and the in-place byte store                                          *)
Section grem.
  Variables (pi : list step) (t : ty) (v : val) (bs : list Z).
  Hypothesis Hres : resolve t v pi = Some (TRem, VBytes bs).

  (* the located node *)
  Lemma grem_located s top : RepF pi t v s top ->
    sub t top (mpath pi) = Ok (TRem, PRem (addr_of t v pi 0) (zlen bs)) /\ bytes_ok bs = true.
  Proof.
    intros [Hpl Hok Hwf _ _ HL _].
    pose proof (resolve_wf _ _ _ _ _ Hwf Hres) as HwfX. cbn [wf] in HwfX.
    destruct (LayP_get_at Lay pi t v 0 top _ _ Hwf Hres HL) as (node & Hg & HE).
    destruct node; try (cbn in HE; contradiction). cbn [Lay] in HE. destruct HE as [-> ->].
    split; [unfold sub; now rewrite Hg|exact HwfX].
  Qed.

  Theorem rem_set_len_general s top len :
    RepF pi t v s top -> m_refuse s <> 1 -> 0 <= len -> m_len s + (len - zlen bs) <= m_cap s ->
    exists s' top', rem_set_len t s top (mpath pi) len = Ok (s', top', []) /\
      RepF pi t (plug t v pi (VBytes (if len <=? zlen bs then ztake len bs else bs ++ zrepeat 0 (len - zlen bs)))) s' top' /\
      m_cap s' = m_cap s /\ m_refuse s' = m_refuse s.
  Proof.
    intros R Hnref Hlen0 Hroom.
    destruct (grem_located s top R) as (Hsub & Hbok).
    pose proof (repf_cap _ _ _ _ _ R) as Hcap.
    pose proof R as [Hpl Hok Hwf [junk Hmem] Hlen HL Hc32].
    pose proof (resolve_rem_tail pi t v _ true Hok Hres) as HQ.
    pose proof (zlen_nonneg bs) as Hb0.
    set (ax := addr_of t v pi 0) in *.
    unfold rem_set_len. rewrite Hsub. cbn [obind].
    destruct (zlen bs =? len) eqn:E0.
    { zb. subst len. rewrite Z.leb_refl, ztake_all, (plug_same _ _ _ _ _ Hres). exists s, top. auto. }
    zb. destruct (zlen bs <? len) eqn:E1; zb.
    - (* grow: Vec::resize(len, 0) *)
      destruct (len <=? zlen bs) eqn:E2; [zb; lia|]. clear E2.
      set (k := len - zlen bs) in *. set (bs' := bs ++ zrepeat 0 k).
      assert (HencX : encode TRem (VBytes bs) = bs ++ []) by (cbn [encode]; now rewrite app_nil_r).
      assert (Hsz' : zlen (encode TRem (VBytes bs')) = zlen (encode TRem (VBytes bs)) + k).
      { cbn [encode]. subst bs'. rewrite zlen_app, zlen_zrepeat by lia. reflexivity. }
      destruct (add_bytes_inside_G pi t v TRem (VBytes bs) (VBytes bs') Hres eq_refl s top bs [] k R HencX
                  ltac:(lia) Hsz' Hnref ltac:(lia))
        as (s1 & top1 & G & J & Hadd & Hmem1 & HG & HGeq & Hlen1 & Hcap1 & Href1 & HL1).
      fold ax in Hadd. rewrite Hadd. cbn [obind].
      rewrite HQ in HGeq, Hmem1. cbn [app] in HGeq. rewrite ztake_zrepeat_all in HGeq by lia. subst G.
      pose proof (resolve_plug t v pi _ _ (VBytes bs') Hres) as Hres'.
      set (v' := plug t v pi (VBytes bs')) in *.
      assert (HwfX' : wf TRem (VBytes bs') = true).
      { cbn [wf]. subst bs'. now rewrite bytes_ok_app, Hbok, bytes_ok_zrepeat0. }
      assert (Hwf' : wf t v' = true).
      { apply (wf_plug t v pi _ _ (VBytes bs') Hwf Hres HwfX').
        rewrite (hctx_plug_len t v pi _ _ (VBytes bs') Hres), Hsz'. unfold m_cap in *. lia. }
      assert (Hax' : addr_of t v' pi 0 = ax) by (subst v' ax; eapply addr_of_plug; eauto).
      destruct (LayP_get_at _ pi t v' 0 top1 _ _ Hwf' Hres' HL1) as (node1 & Hg1 & (node0 & HE0 & ->)).
      rewrite Hax' in HE0.
      destruct node0; try (cbn in HE0; contradiction). cbn [Lay] in HE0. destruct HE0 as [-> ->].
      cbn [own_notify] in Hg1.
      unfold sub. rewrite Hg1. cbn [obind start_of].
      assert (Henc' : encode t v' = fst (hctx t v pi k) ++ bs' ++ []).
      { subst v'. rewrite (hctx_plug t v pi _ _ (VBytes bs') Hres), HQ.
        replace (zlen (encode TRem (VBytes bs')) - zlen (encode TRem (VBytes bs))) with k by lia. reflexivity. }
      eexists _, _. split; [reflexivity|]. split; [|split; [exact Hcap1|exact Href1]].
      constructor; auto.
      + exists J. rewrite Hmem1, Henc'. subst bs'. cbn [app]. rewrite !app_nil_r, <- !app_assoc. reflexivity.
      + rewrite Hlen1, Hlen. subst v'. rewrite (hctx_plug_len t v pi _ _ (VBytes bs') Hres), Hsz'. lia.
      + apply (LayP_set_at _ Lay pi t v' 0 top1 _ _ _ Hwf' Hres' HL1). rewrite Hax'. cbn [Lay].
        split; [reflexivity|]. subst bs'. rewrite zlen_app, zlen_zrepeat by lia. lia.
      + rewrite Hcap1. exact Hc32.
    - (* shrink: Vec::truncate(len) *)
      destruct (len <=? zlen bs) eqn:E2; [clear E2|zb; lia].
      set (A := ztake len bs). set (Rm := zdrop len bs).
      assert (HA : zlen A = len) by (subst A; apply zlen_ztake; lia).
      assert (HR : zlen Rm = zlen bs - len) by (subst Rm; apply zlen_zdrop; lia).
      assert (HencX : encode TRem (VBytes bs) = A ++ Rm ++ []).
      { cbn [encode]. subst A Rm. now rewrite app_nil_r, ztake_zdrop. }
      assert (Hsz' : zlen (encode TRem (VBytes A)) = zlen (encode TRem (VBytes bs)) - zlen Rm) by (cbn [encode]; lia).
      destruct (remove_bytes_inside pi t v TRem (VBytes bs) (VBytes A) Hres eq_refl s top A Rm [] R HencX ltac:(lia) Hsz')
        as (s1 & top1 & J & Hrem & Hmem1 & Hlen1 & Hcap1 & Href1 & HL1).
      replace (ax + len) with (ax + zlen A) by lia.
      replace (ax + zlen bs) with (ax + zlen A + zlen Rm) by lia.
      fold ax in Hrem. rewrite Hrem. cbn [obind].
      rewrite HQ in Hmem1.
      pose proof (resolve_plug t v pi _ _ (VBytes A) Hres) as Hres'.
      set (v' := plug t v pi (VBytes A)) in *.
      assert (HwfX' : wf TRem (VBytes A) = true) by (cbn [wf]; subst A; now apply bytes_ok_ztake).
      assert (Hwf' : wf t v' = true).
      { apply (wf_plug t v pi _ _ (VBytes A) Hwf Hres HwfX').
        rewrite (hctx_plug_len t v pi _ _ (VBytes A) Hres), Hsz'. lia. }
      assert (Hax' : addr_of t v' pi 0 = ax) by (subst v' ax; eapply addr_of_plug; eauto).
      destruct (LayP_get_at _ pi t v' 0 top1 _ _ Hwf' Hres' HL1) as (node1 & Hg1 & (node0 & HE0 & ->)).
      rewrite Hax' in HE0.
      destruct node0; try (cbn in HE0; contradiction). cbn [Lay] in HE0. destruct HE0 as [-> ->].
      cbn [own_notify] in Hg1.
      unfold sub. rewrite Hg1. cbn [obind start_of].
      assert (Henc' : encode t v' = fst (hctx t v pi (- zlen Rm)) ++ A ++ []).
      { subst v'. rewrite (hctx_plug t v pi _ _ (VBytes A) Hres), HQ.
        replace (zlen (encode TRem (VBytes A)) - zlen (encode TRem (VBytes bs))) with (- zlen Rm) by lia. reflexivity. }
      eexists _, _. split; [reflexivity|]. split; [|split; [exact Hcap1|exact Href1]].
      constructor; auto.
      + exists J. rewrite Hmem1, Henc'. cbn [app]. rewrite !app_nil_r, <- !app_assoc. reflexivity.
      + rewrite Hlen1, Hlen. subst v'. rewrite (hctx_plug_len t v pi _ _ (VBytes A) Hres), Hsz'. lia.
      + apply (LayP_set_at _ Lay pi t v' 0 top1 _ _ _ Hwf' Hres' HL1). rewrite Hax'. cbn [Lay].
        split; [reflexivity|]. lia.
      + rewrite Hcap1. exact Hc32.
  Qed.

  Theorem rem_write_general s top idx b :
    RepF pi t v s top -> 0 <= idx < zlen bs -> 0 <= b < 256 ->
    exists s', rem_write t s top (mpath pi) idx b = Ok (s', top, []) /\
      RepF pi t (plug t v pi (VBytes (ztake idx bs ++ b :: zdrop (idx + 1) bs))) s' top /\
      m_cap s' = m_cap s /\ m_refuse s' = m_refuse s.
  Proof.
    intros R Hidx Hb.
    destruct (grem_located s top R) as (Hsub & Hbok).
    destruct (zsplit_at bs idx Hidx) as (x & Hsplit).
    set (A := ztake idx bs) in *. set (B := zdrop (idx + 1) bs) in *.
    assert (HA : zlen A = idx) by (subst A; apply zlen_ztake; lia).
    assert (HencX : encode TRem (VBytes bs) = A ++ [x] ++ B) by (cbn [encode app]; exact Hsplit).
    assert (HencX' : encode TRem (VBytes (A ++ b :: B)) = A ++ [b] ++ B) by reflexivity.
    assert (HwfX' : wf TRem (VBytes (A ++ b :: B)) = true).
    { cbn [wf]. rewrite bytes_ok_app. cbn [bytes_ok forallb]. fold (bytes_ok B).
      subst A B. rewrite bytes_ok_ztake, bytes_ok_zdrop by exact Hbok.
      unfold is_byte. destruct (0 <=? b) eqn:E1; [|zb; lia]. destruct (b <? 256) eqn:E2; [reflexivity|zb; lia]. }
    destruct (store_inside pi t v _ _ (VBytes (A ++ b :: B)) Hres s top A [x] [b] B R HencX HencX' eq_refl HwfX')
      as (m1 & _ & Hwr & R' & Hcap').
    { intros a node HLn. destruct node; try (cbn in HLn; contradiction). cbn [Lay] in *.
      destruct HLn as [-> ->]. split; [reflexivity|]. rewrite Hsplit at 1. rewrite !zlen_app, !zlen_cons. reflexivity. }
    rewrite HA in Hwr.
    unfold rem_write. rewrite Hsub. cbn [obind].
    destruct ((idx <? 0) || (zlen bs <=? idx)) eqn:E1; [apply orb_true_iff in E1; destruct E1; zb; lia|].
    rewrite Hwr. cbn [obind].
    exists (set_mem s m1). split; [reflexivity|]. split; [exact R'|]. split; [exact Hcap'|reflexivity].
  Qed.

  Lemma rem_write_index_error_g s top idx b : RepF pi t v s top -> (idx < 0 \/ zlen bs <= idx) ->
    rem_write t s top (mpath pi) idx b = Err E_INDEX.
  Proof.
    intros R Hi. destruct (grem_located s top R) as (Hsub & _).
    unfold rem_write. rewrite Hsub. cbn [obind].
    destruct ((idx <? 0) || (zlen bs <=? idx)) eqn:E; [reflexivity|]. apply orb_false_iff in E as [E1 E2]. zb. lia.
  Qed.
End grem.

Print Assumptions list_write_general.
Print Assumptions rem_set_len_general.
Print Assumptions rem_write_general.
