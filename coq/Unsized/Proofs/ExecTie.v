(* The dispatcher Run.exec (what the correspondence check executes, through run_ops / run_steps) is tied to the
   functions the refinement theorems of History.v are about: on the op-code list that encodes a list operation at
   any nesting depth, exec performs exactly History.menter (the descent) followed by Ops.list_insert /
   Ops.list_remove; an error of the operation is reported as a plain Err when the path crosses no list of unsized
   elements, and with the state reached by the descent (Ops.efail) when it does. *)
From SF Require Import Base.Prelude Gen.Generated Unsized.Types Unsized.Parse Unsized.Machine Unsized.Ops.
From SF Require Import Unsized.Proofs.EncodeParse Unsized.Proofs.Mem Unsized.Proofs.Notify Unsized.Proofs.Flat Unsized.Proofs.Layout
  Unsized.Proofs.Observe Unsized.Proofs.Table Unsized.Proofs.Path Unsized.Proofs.Context Unsized.Proofs.Context2 Unsized.Proofs.Focus
  Unsized.Proofs.Pos Unsized.Proofs.FocusOps Unsized.Proofs.NotifyInside Unsized.Proofs.Resize Unsized.Proofs.GenOps.
From SF Require Import Unsized.Run Unsized.Proofs.History.
From SF Require Import Unsized.Proofs.EnumFacts.

Arguments Z.add : simpl never.
Arguments Z.sub : simpl never.
Arguments Z.mul : simpl never.
Arguments Z.of_nat : simpl never.
Arguments Z.pow : simpl never.
Arguments Z.modulo : simpl never.

(* ---------------------------------------------------------------------------------------------- *)
(* the op-code encoding of an operation (the case-file format: harness/src/nodes.rs)               *)
(* a step into an enum's live variant is `1 :: d` with d the discriminant the caller expects (enum_impl.rs `get()`):
   the encoding of a path reads the live discriminants off the value the path is taken in *)
Fixpoint enc_path (t : ty) (v : val) (pi : list step) {struct pi} : list Z :=
  match pi with
  | [] => []
  | SF i :: r =>
      1 :: Z.of_nat i ::
      match t, v with
      | TStruct ts, VStruct vs =>
          match nth_error ts i, nth_error vs i with Some ti, Some vi => enc_path ti vi r | _, _ => [] end
      | _, _ => []
      end
  | SE i :: r =>
      1 :: Z.of_nat i ::
      match t, v with
      | TUList it _, VUList items => match nth_error items i with Some kv => enc_path it (snd kv) r | None => [] end
      | _, _ => []
      end
  | SV :: r =>
      match t, v with
      | TEnum _ vs, VEnum d p => 1 :: d :: match find_variant d vs with Some vt => enc_path vt p r | None => [] end
      | _, _ => []
      end
  end.
Definition enc_items (items : list (list Z)) : list Z := flat_map (fun it => zlen it :: it) items.
Definition enc_op (t : ty) (v : val) (o : gop) : list Z :=
  match o with
  | GInsert pi idx new => enc_path t v pi ++ 10 :: idx :: zlen new :: enc_items new
  | GRemove pi st en => enc_path t v pi ++ [11; st; en]
  end.

(* a unit variant's payload (TStruct []) leads nowhere but to itself *)
Lemma resolve_unit_struct v r X xv : resolve (TStruct []) v r = Some (X, xv) -> X = TStruct [].
Proof.
  destruct r as [|[i|i|] r]; cbn [resolve].
  - now intros [= <- _].
  - destruct v; try discriminate. destruct i; discriminate.
  - discriminate.
  - discriminate.
Qed.

Lemma ztake_zlen_app {A} (a b : list A) : ztake (zlen a) (a ++ b) = a.
Proof.
  unfold ztake, zlen. rewrite Nat2Z.id, firstn_app, Nat.sub_diag, firstn_all. cbn [firstn]. apply app_nil_r.
Qed.

Lemma zdrop_zlen_app {A} (a b : list A) : zdrop (zlen a) (a ++ b) = b.
Proof.
  unfold zdrop, zlen. rewrite Nat2Z.id, skipn_app, Nat.sub_diag, skipn_all. reflexivity.
Qed.

Lemma dec_items_enc items rest : dec_items (length items) (enc_items items ++ rest) = (items, rest).
Proof.
  induction items as [|it items IH]; [reflexivity|].
  unfold enc_items in *. cbn [flat_map length dec_items app]. rewrite <- !app_assoc.
  unfold dec_bytes. rewrite ztake_zlen_app, zdrop_zlen_app, IH. reflexivity.
Qed.

(* ---------------------------------------------------------------------------------------------- *)
(* one step of the dispatcher on the three op codes concerned                                      *)
Lemma exec_descend f ovf t s top ps i r :
  exec (S f) ovf t s top ps (1 :: i :: r) =
  (do ' (tc, pc) <- sub t top ps;
   match tc, pc with
   | TStruct _, _ => exec f ovf t s top (ps ++ [PF (Z.to_nat i)]) r
   | TUList it k, PUList a n _ _ _ _ =>
       do rg <- ulist_range k (m_mem s) a n i;
       match rg with
       | None => Err E_INDEX
       | Some (st, _) =>
           do top1 <- ulist_enter ovf t s top ps st;
           match exec f ovf t s top1 (ps ++ [PI]) r with
           | Err c => if c =? -9 then SKIPPED else efail s top1 c
           | o => o
           end
       end
   | TEnum rw vs, PEnum _ d _ =>
       if negb (i =? d) then Ok (s, top, [-1]) else
       match find_variant d vs with
       | Some (TStruct []) => Ok (s, top, [-2])
       | Some _ => exec f ovf t s top (ps ++ [PV]) r
       | None => Panic
       end
   | _, _ => SKIPPED
   end).
Proof. reflexivity. Qed.

Lemma exec_insert f ovf t s top ps idx n r :
  exec (S f) ovf t s top ps (10 :: idx :: n :: r) =
  (do ' (tc, pc) <- sub t top ps;
   match tc with TList _ _ => list_insert t s top ps idx (fst (dec_items (Z.to_nat n) r)) | _ => SKIPPED end).
Proof. reflexivity. Qed.

Lemma exec_remove f ovf t s top ps st en r :
  exec (S f) ovf t s top ps (11 :: st :: en :: r) =
  (do ' (tc, pc) <- sub t top ps;
   match tc with TList _ _ => list_remove t s top ps st en | _ => SKIPPED end).
Proof. reflexivity. Qed.

(* the op codes after the path, and what they do at the list the path leads to *)
Definition op_tail (o : gop) : list Z :=
  match o with
  | GInsert _ idx new => 10 :: idx :: zlen new :: enc_items new
  | GRemove _ st en => [11; st; en]
  end.

Lemma enc_op_split t v o : enc_op t v o = enc_path t v (focus_of o) ++ op_tail o.
Proof. destruct o; reflexivity. Qed.

(* at the end of the path (the type there is a List) the dispatcher calls the operation itself *)
Lemma exec_op_tail f ovf t s top o c lw pc :
  get_at t top (mpath (focus_of o)) = Some (TList c lw, pc) ->
  exec (S f) ovf t s top (mpath (focus_of o)) (op_tail o) = mopG t s top o.
Proof.
  intros Hg. destruct o as [pi idx new|pi st en]; cbn [op_tail focus_of mopG] in *.
  - rewrite exec_insert. unfold sub. rewrite Hg. cbn [obind].
    unfold zlen at 1. rewrite Nat2Z.id.
    pose proof (dec_items_enc new []) as H. rewrite app_nil_r in H. rewrite H. reflexivity.
  - rewrite exec_remove. unfold sub. rewrite Hg. cbn [obind]. reflexivity.
Qed.

(* ---------------------------------------------------------------------------------------------- *)
(* the generalised statement: `pre` has been entered, `r` remains.  The dispatcher's result is the result F of the
   final operation in the state reached by menter - except that an error code (other than the internal -9) of the
   final operation, once the remaining path has crossed a list of unsized elements, is reported together with the
   state reached by the descent (efail) *)
Lemma exec_path ovf t v s (F : ptr -> out res) tail pi c lw xv :
  resolve t v pi = Some (TList c lw, xv) ->
  (forall f top' pc, get_at t top' (mpath pi) = Some (TList c lw, pc) ->
                     exec (S f) ovf t s top' (mpath pi) tail = F top') ->
  forall r pre top fuel tc vc,
  pre ++ r = pi -> resolve t v pre = Some (tc, vc) -> RepF pre t v s top -> (length r < fuel)%nat ->
  exists top1, menter ovf t s top (mpath pre) r = Ok top1 /\
    (exec fuel ovf t s top (mpath pre) (enc_path tc vc r ++ tail) = F top1 \/
     exists code topk, F top1 = Err code /\ code <> -9 /\
                       exec fuel ovf t s top (mpath pre) (enc_path tc vc r ++ tail) = Ok (s, topk, [-1; code])).
Proof.
  intros Hres Hfin. induction r as [|st r IH]; intros pre top fuel tc vc Hpi Hpre0 R Hfuel.
  - rewrite app_nil_r in Hpi. subst pre. exists top. split; [reflexivity|]. left.
    destruct fuel as [|f]; [cbn [length] in Hfuel; lia|].
    pose proof R as [Hpl Hok Hwf _ _ HL _].
    destruct (LayP_get_at Lay pi t v 0 top _ _ Hwf Hres HL) as (node & Hg & _).
    cbn [enc_path app]. exact (Hfin f top node Hg).
  - destruct fuel as [|f]; [lia|]. cbn [length] in Hfuel.
    rewrite <- Hpi in Hres.
    destruct (resolve_app pre (st :: r) t v _ _ Hres) as (tc' & vc' & Hpre & Hrest).
    rewrite Hpre0 in Hpre. injection Hpre as <- <-. pose proof Hpre0 as Hpre.
    pose proof R as [Hpl Hok Hwf [junk Hmem] Hlen HL Hc32].
    assert (Hpi' : (pre ++ [st]) ++ r = pi) by (rewrite <- app_assoc; exact Hpi).
    destruct (LayP_get_at Lay pre t v 0 top _ _ Hwf Hpre HL) as (node & Hg & HE).
    destruct st as [i|i|]; cbn [menter resolve enc_path app] in *.
    + destruct tc as [| | | |ts|]; try discriminate. destruct vc as [| | |vs|]; try discriminate.
      destruct (nth_error ts i) as [ti|] eqn:Et; [|discriminate]. destruct (nth_error vs i) as [vi|] eqn:Ev; [|discriminate].
      pose proof (LayP_extend_SF pre t v 0 top ts vs i ti vi Hwf Hpre Et Ev HL) as HL'.
      assert (Hpre' : resolve t v (pre ++ [SF i]) = Some (ti, vi)).
      { rewrite (resolve_app_eq _ [SF i] _ _ _ _ Hpre). cbn [resolve]. now rewrite Et, Ev. }
      destruct (IH (pre ++ [SF i]) top f ti vi Hpi' Hpre' (repf_refocus _ _ _ _ _ _ _ R HL') ltac:(lia)) as (top1 & Hm & Hex).
      rewrite mpath_app in Hm, Hex. cbn [mpath map mstep_of] in Hm, Hex.
      exists top1. split; [exact Hm|].
      rewrite exec_descend. unfold sub. rewrite Hg. cbn [obind]. rewrite Nat2Z.id. exact Hex.
    + destruct tc as [| | |it k| |]; try discriminate. destruct vc as [| |items| |]; try discriminate.
      destruct (nth_error items i) as [kv|] eqn:En; [|discriminate].
      destruct node as [| | |a n inner pmb rs re| |]; try (cbn in HE; contradiction).
      rewrite exec_descend. unfold sub. rewrite Hg. cbn [obind].
      rewrite Hmem.
      rewrite (ulist_range_elem pre t v top it k items i kv junk Hpl Hwf Hpre En HL a n inner pmb rs re Hg). cbn [obind].
      destruct (ulist_enter_LayP ovf pre t true v s top it k items i kv junk Hpl Hok Hwf Hpre En HL Hmem) as (top1 & He & HL1).
      rewrite He. cbn [obind].
      assert (Hpre' : resolve t v (pre ++ [SE i]) = Some (it, snd kv)).
      { rewrite (resolve_app_eq _ [SE i] _ _ _ _ Hpre). cbn [resolve]. now rewrite En. }
      destruct (IH (pre ++ [SE i]) top1 f it (snd kv) Hpi' Hpre' (repf_refocus _ _ _ _ _ _ _ R HL1) ltac:(lia)) as (top' & Hm & Hex).
      rewrite mpath_app in Hm, Hex. cbn [mpath map mstep_of] in Hm, Hex.
      exists top'. split; [exact Hm|].
      destruct Hex as [Hex|(code & topk & HF & Hne & Hex)]; rewrite Hex.
      * destruct (F top') as [x|code| |] eqn:HF; [left; reflexivity| |left; reflexivity|left; reflexivity].
        destruct (code =? -9) eqn:E9.
        -- zb. subst code. left. reflexivity.
        -- zb. right. exists code, top1. split; [reflexivity|]. split; [exact E9|reflexivity].
      * right. exists code, topk. split; [exact HF|]. split; [exact Hne|reflexivity].
    + destruct tc as [| | | | |rw vars]; try discriminate. destruct vc as [| | | |d pv]; try discriminate.
      destruct (find_variant d vars) as [vt|] eqn:Ef; [|discriminate].
      destruct node as [| | | | |st0 d' q]; try (cbn in HE; contradiction).
      apply Lay_enum in HE. destruct HE as (_ & -> & _).
      pose proof (LayP_extend_SV pre t v 0 top rw vars d pv vt Hwf Hpre Ef HL) as HL'.
      assert (Hpre' : resolve t v (pre ++ [SV]) = Some (vt, pv)).
      { rewrite (resolve_app_eq _ [SV] _ _ _ _ Hpre). cbn [resolve]. now rewrite Ef. }
      destruct (IH (pre ++ [SV]) top f vt pv Hpi' Hpre' (repf_refocus _ _ _ _ _ _ _ R HL') ltac:(lia)) as (top1 & Hm & Hex).
      rewrite mpath_app in Hm, Hex. cbn [mpath map mstep_of] in Hm, Hex.
      exists top1. split; [exact Hm|].
      cbn beta iota. cbn [app].
      rewrite exec_descend. unfold sub. rewrite Hg. cbn [obind]. rewrite Z.eqb_refl, Ef. cbn [negb].
      destruct vt as [| | | |[|f0 fs]|]; try exact Hex.
      apply resolve_unit_struct in Hrest. discriminate Hrest.
Qed.

(* the dispatcher on an encoded operation, against descent + operation *)
Lemma exec_tie ovf t v s top o c lw xv fuel :
  RepF [] t v s top -> resolve t v (focus_of o) = Some (TList c lw, xv) -> (length (focus_of o) < fuel)%nat ->
  exists top1, menter ovf t s top [] (focus_of o) = Ok top1 /\
    (exec fuel ovf t s top [] (enc_op t v o) = mopG t s top1 o \/
     exists code topk, mopG t s top1 o = Err code /\ code <> -9 /\
                       exec fuel ovf t s top [] (enc_op t v o) = Ok (s, topk, [-1; code])).
Proof.
  intros R Hres Hfuel. rewrite enc_op_split.
  exact (exec_path ovf t v s (fun top' => mopG t s top' o) (op_tail o) (focus_of o) c lw xv Hres
           (fun f top' pc Hg => exec_op_tail f ovf t s top' o c lw pc Hg)
           (focus_of o) [] top fuel t v eq_refl eq_refl R Hfuel).
Qed.

(* ---------------------------------------------------------------------------------------------- *)
(* success: the dispatcher returns exactly what descent + operation return *)
Theorem exec_tie_ok ovf t v s top o r :
  RepF [] t v s top ->
  (exists X xv, resolve t v (focus_of o) = Some (X, xv) /\ (exists c lw, X = TList c lw)) ->
  mstepG ovf t s top o = Ok r ->
  forall fuel, (length (focus_of o) < fuel)%nat -> exec fuel ovf t s top [] (enc_op t v o) = Ok r.
Proof.
  intros R (X & xv & Hres & c & lw & ->) Hs fuel Hfuel.
  destruct (exec_tie ovf t v s top o c lw xv fuel R Hres Hfuel) as (top1 & Hm & Hex).
  rewrite mstepG_split, Hm in Hs. cbn [obind] in Hs.
  destruct Hex as [Hex|(code & topk & HF & _ & _)]; [rewrite Hex; exact Hs|congruence].
Qed.

(* failure: the dispatcher reports the operation's error code; with the state reached by the descent when the path
   crosses a list of unsized elements (efail), as a plain Err otherwise *)
Theorem exec_tie_err ovf t v s top o top1 c :
  RepF [] t v s top ->
  (exists X xv, resolve t v (focus_of o) = Some (X, xv) /\ (exists cc lw, X = TList cc lw)) ->
  menter ovf t s top [] (focus_of o) = Ok top1 -> mopG t s top1 o = Err c -> c <> -9 ->
  forall fuel, (length (focus_of o) < fuel)%nat ->
  exec fuel ovf t s top [] (enc_op t v o) = Err c \/ exists topk, exec fuel ovf t s top [] (enc_op t v o) = Ok (s, topk, [-1; c]).
Proof.
  intros R (X & xv & Hres & cc & lw & ->) Hm Hop _ fuel Hfuel.
  destruct (exec_tie ovf t v s top o cc lw xv fuel R Hres Hfuel) as (top1' & Hm' & Hex).
  rewrite Hm in Hm'. injection Hm' as <-.
  destruct Hex as [Hex|(code & topk & HF & _ & Hex)].
  - left. rewrite Hex. exact Hop.
  - right. exists topk. rewrite Hop in HF. injection HF as <-. exact Hex.
Qed.

(* sanity, on a concrete state: a list inside the live variant of an enum; the path goes through SV and its encoding
   carries the live discriminant 3 *)
Example exec_tie_enum_path :
  let X := TEnum 1 [(0, TStruct []); (3, TList (FAny 1) 1)] in
  let t := TStruct [TFixed (FAny 1); X; TList (FAny 1) 1] in
  let v := VStruct [VBytes [9]; VEnum 3 (VList [[5]; [6]]); VList [[7]]] in
  let o := GInsert [SF 1; SV] 1 [[4]] in
  let s := mkMach (encode t v ++ [0; 0; 0; 0]) (zlen (encode t v)) 0 0 in
  enc_op t v o = [1; 1; 1; 3; 10; 1; 1; 1; 4] /\
  match get_ptr true t (m_mem s) 0 (m_len s) with
  | Ok (top, _) =>
      match mstepG true t s top o with
      | Ok (s1, top1, e) =>
          exec 5 true t s top [] (enc_op t v o) = Ok (s1, top1, e) /\
          ztake (m_len s1) (m_mem s1) = encode t (plug t v [SF 1; SV] (VList [[5]; [4]; [6]]))
      | _ => False
      end
  | _ => False
  end.
Proof. vm_compute. repeat split; reflexivity. Qed.

Print Assumptions exec_tie_ok. Print Assumptions exec_tie_err.
