(* The canonical pointer tree of a value, for EVERY enum-free shape (structs, lists, trailing bytes, lists and
   maps of unsized elements nested to any depth), and what a program observes through it:

     get_ptr on canonical bytes yields the canonical tree           (a fresh exclusive / shared borrow)
     check_pointers accepts it inside any range that contains it    (no debug / drop-time assertion fires)
     owned_from_ptr through it yields the value                     (observability)

   This generalises the static half of Flat.v from field pointers to trees with offset tables. *)
From SF Require Import Base.Prelude Gen.Generated Unsized.Types Unsized.Parse Unsized.Machine Unsized.Ops.
From SF Require Import Unsized.Proofs.EncodeParse Unsized.Proofs.Mem Unsized.Proofs.Notify Unsized.Proofs.Flat.

Arguments Z.add : simpl never.
Arguments Z.sub : simpl never.
Arguments Z.mul : simpl never.
Arguments Z.of_nat : simpl never.
Arguments Z.pow : simpl never.
Arguments Z.modulo : simpl never.

(* enum-free shapes *)
Fixpoint plain (t : ty) : bool :=
  match t with
  | TFixed _ | TList _ _ | TRem => true
  | TUList it _ => plain it
  | TStruct ts => (fix go ts := match ts with [] => true | t :: r => plain t && go r end) ts
  | TEnum _ _ => false
  end.

Lemma plain_struct_cons t ts : plain (TStruct (t :: ts)) = plain t && plain (TStruct ts).
Proof. reflexivity. Qed.

(* the pointer tree get_ptr builds for value v of type t located at address b *)
Fixpoint lay0 (t : ty) (v : val) (b : Z) {struct t} : ptr :=
  match t, v with
  | TList c lw, VList items => PList b (Z.of_nat (fsize c) * zlen items)
  | TRem, VBytes bs => PRem b (zlen bs)
  | TUList it k, VUList items => PUList b (zlen items) None false b (b + zlen (encode (TUList it k) (VUList items)))
  | TStruct ts, VStruct vs =>
      PStruct ((fix go ts vs b :=
                  match ts, vs with
                  | t :: ts', v :: vs' => lay0 t v b :: go ts' vs' (b + zlen (encode t v))
                  | _, _ => []
                  end) ts vs b)
  | _, _ => PFixed b
  end.

Fixpoint lay0_fields (ts : list ty) (vs : list val) (b : Z) : list ptr :=
  match ts, vs with
  | t :: ts', v :: vs' => lay0 t v b :: lay0_fields ts' vs' (b + zlen (encode t v))
  | _, _ => []
  end.

Lemma lay0_struct ts vs b : lay0 (TStruct ts) (VStruct vs) b = PStruct (lay0_fields ts vs b).
Proof. reflexivity. Qed.

(* ---------------------------------------------------------------------------------------------- *)
(* the shape of the encoding of a list of unsized elements                                         *)
Definition uenc (it : ty) (items : list (list Z * val)) : list (list Z) := map (fun kv => encode it (snd kv)) items.
Definition usizes (it : ty) (items : list (list Z * val)) : list Z := map zlen (uenc it items).
Definition utable (it : ty) (items : list (list Z * val)) : list Z :=
  concat (offset_entries (offsets_from 0 (usizes it items)) (map fst items)).

Lemma encode_ulist it k items :
  encode (TUList it k) (VUList items) =
  le_bytes 4 (zsum (usizes it items)) ++ le_bytes 4 (zlen items) ++ utable it items
  ++ le_bytes 4 (zlen items) ++ concat (uenc it items).
Proof. reflexivity. Qed.

Record ufacts (it : ty) (k : nat) (items : list (list Z * val)) : Prop := mkUfacts {
  uf_n : 0 <= zlen items < U32_LIMIT;
  uf_usz : 0 <= zsum (usizes it items) < U32_LIMIT;
  uf_wfs : forallb (fun kv => wf it (snd kv)) items = true;
  uf_keys : Forall (fun key => length key = k) (map fst items);
  uf_table : zlen (utable it items) = zlen items * (4 + Z.of_nat k);
  uf_data : zlen (concat (uenc it items)) = zsum (usizes it items);
  uf_offs : Forall (fun o => 0 <= o < U32_LIMIT) (offsets_from 0 (usizes it items));
  uf_ents : split_entries k (zlen items) (utable it items) = combine (offsets_from 0 (usizes it items)) (map fst items);
}.

Lemma ulist_facts it k items : wf (TUList it k) (VUList items) = true -> ufacts it k items.
Proof.
  intros Hwf. cbn [wf] in Hwf.
  apply andb_true_iff in Hwf as [Hwf Hit]. apply andb_true_iff in Hwf as [Hwf _].
  apply andb_true_iff in Hwf as [Hn Husz]. zb.
  assert (forallb (fun kv => wf it (snd kv)) items = true) as Hwfs.
  { rewrite forallb_forall in *. intros kv Hin. specialize (Hit kv Hin). zb. assumption. }
  assert (Forall (fun key => length key = k) (map fst items)) as Hk.
  { apply Forall_forall. intros key Hin. apply in_map_iff in Hin as [[k' e] [<- Hin]].
    rewrite forallb_forall in Hit. specialize (Hit _ Hin). cbn [fst] in *. zb.
    match goal with H : (_ =? _)%nat = true |- _ => now apply Nat.eqb_eq in H end. }
  assert (usizes it items = map (fun kv => byte_size it (snd kv)) items) as Hsz.
  { unfold usizes, uenc. rewrite map_map. apply map_ext_in. intros [key e] Hin. cbn [snd]. apply encode_size.
    rewrite forallb_forall in Hwfs. apply (Hwfs _ Hin). }
  rewrite <- Hsz in Husz.
  assert (Forall (fun x => 0 <= x) (usizes it items)) as Hpos.
  { apply Forall_forall. intros x Hin. unfold usizes in Hin. apply in_map_iff in Hin as [e [<- _]]. apply zlen_nonneg. }
  pose proof (zsum_nonneg _ Hpos) as Hs0. pose proof (zlen_nonneg items) as Hn0.
  assert (length (offsets_from 0 (usizes it items)) = length (map fst items)) as Hlo.
  { unfold usizes, uenc. now rewrite offsets_from_length, !map_length. }
  assert (zlen (map fst items) = zlen items) as Hnk by (unfold zlen; now rewrite map_length).
  assert (Forall (fun o => 0 <= o < U32_LIMIT) (offsets_from 0 (usizes it items))) as Hoff.
  { assert (forall sz base, 0 <= base -> Forall (fun x => 0 <= x) sz -> base + zsum sz < U32_LIMIT ->
            Forall (fun o => 0 <= o < U32_LIMIT) (offsets_from base sz)) as Hgen.
    { induction sz as [|x r IHr]; intros base Hb Hp Hlt; cbn [offsets_from]; [constructor|].
      inversion Hp; subst. cbn [zsum] in Hlt. pose proof (zsum_nonneg r H2).
      constructor; [lia|]. apply IHr; auto; lia. }
    apply Hgen; [lia|assumption|lia]. }
  constructor; auto; try lia.
  - unfold utable. rewrite (zlen_offset_entries _ _ k Hlo Hk). now rewrite Hnk.
  - apply zlen_concat_sum.
  - unfold utable. rewrite <- Hnk. apply split_entries_entries; assumption.
Qed.

Lemma zlen_encode_ulist it k items : ufacts it k items ->
  zlen (encode (TUList it k) (VUList items)) = 12 + zlen items * (4 + Z.of_nat k) + zsum (usizes it items).
Proof.
  intros F. rewrite encode_ulist, !zlen_app, !zlen_le_bytes, (uf_table _ _ _ F), (uf_data _ _ _ F). lia.
Qed.

(* ---------------------------------------------------------------------------------------------- *)
(* get_ptr on canonical bytes                                                                      *)
Definition gp_stmt (ovf : bool) (t : ty) : Prop :=
  forall last v pre post extra, plain t = true -> ty_ok last t = true -> wf t v = true ->
    0 <= extra -> (last = true -> extra = 0) -> extra <= zlen post ->
    get_ptr ovf t (pre ++ encode t v ++ post) (zlen pre) (zlen (encode t v) + extra)
    = Ok (lay0 t v (zlen pre), zlen (encode t v)).

Lemma rd32_mid (a c : list Z) n x : x = zlen a -> 0 <= n < U32_LIMIT -> rd32 (a ++ le_bytes 4 n ++ c) x = Ok n.
Proof.
  intros -> Hn. unfold rd32. rewrite rd_mid'; [|reflexivity|now rewrite zlen_le_bytes]. cbn [obind]. now rewrite le32.
Qed.

Theorem get_ptr_lay0 ovf : forall t, gp_stmt ovf t.
Proof.
  induction t as [c|c lw| |it k IH|ts IH|rw vs IH] using ty_ind'; intros last v pre post extra Hpl Hok Hwf Hex Hlast Hpost.
  - destruct v as [bs| | | |]; try (cbn in Hwf; discriminate). cbn [wf] in Hwf. zb.
    match goal with H : (_ =? _)%nat = true |- _ => apply Nat.eqb_eq in H; rename H into Hl end.
    assert (zlen bs = Z.of_nat (fsize c)) as Hz by (unfold zlen; lia).
    cbn [get_ptr encode lay0]. rewrite Hz.
    destruct (_ <? Z.of_nat (fsize c)) eqn:E; [zb; lia|].
    rewrite rd_mid'; [|reflexivity|lia]. cbn [obind].
    match goal with H : fvalid c bs = true |- _ => rewrite H end. reflexivity.
  - destruct v as [|items| | |]; try (cbn in Hwf; discriminate). cbn [wf] in Hwf.
    apply andb_true_iff in Hwf as [Hwf Hit]. apply andb_true_iff in Hwf as [Hn Hm]. zb.
    destruct (wf_list_items _ _ Hit) as [Hlen Hval].
    pose proof (zlen_concat_fixed _ _ Hlen) as Hbody. pose proof (zlen_nonneg items).
    cbn [get_ptr encode lay0]. rewrite zlen_app, zlen_le_bytes in *. pose proof (zlen_nonneg (concat items)).
    destruct (_ <? Z.of_nat lw) eqn:E; [zb; lia|].
    rewrite <- !app_assoc. rewrite rd_mid'; [|reflexivity|now rewrite zlen_le_bytes]. cbn [obind].
    rewrite le_decode_le_bytes by lia.
    destruct (U64_LIMIT <=? _) eqn:E2; [zb; lia|]. cbn [andb].
    rewrite Z.mod_small by (split; [apply Z.mul_nonneg_nonneg; lia|lia]).
    destruct (_ <? Z.of_nat (fsize c) * zlen items) eqn:E3; [zb; lia|].
    rewrite Hbody. reflexivity.
  - destruct v as [bs| | | |]; try (cbn in Hwf; discriminate).
    cbn [ty_ok] in Hok. rewrite (Hlast Hok). cbn [get_ptr encode lay0]. now rewrite Z.add_0_r.
  - destruct v as [| |items| |]; try (cbn in Hwf; discriminate).
    pose proof (ulist_facts _ _ _ Hwf) as F. pose proof (zlen_encode_ulist _ _ _ F) as Hsz.
    destruct F as [Hn Hu _ _ Ht Hd _ _].
    cbn [get_ptr lay0]. rewrite Hsz. rewrite encode_ulist, <- !app_assoc.
    set (n := zlen items) in *. set (usz := zsum (usizes it items)) in *.
    pose proof (zlen_nonneg (utable it items)).
    destruct (_ <? 4) eqn:E1; [zb; lia|].
    rewrite rd32_mid by (auto; lia). cbn [obind].
    destruct (_ - 4 <? 4) eqn:E2; [zb; lia|].
    replace (pre ++ le_bytes 4 usz ++ le_bytes 4 n ++ utable it items ++ le_bytes 4 n ++ concat (uenc it items) ++ post)
      with ((pre ++ le_bytes 4 usz) ++ le_bytes 4 n ++ utable it items ++ le_bytes 4 n ++ concat (uenc it items) ++ post)
      by now rewrite <- app_assoc.
    rewrite rd32_mid by (rewrite ?zlen_app, ?zlen_le_bytes; auto; lia). cbn [obind].
    destruct (_ - 8 <? _) eqn:E3; [zb; lia|].
    destruct (_ - 8 - _ <? 4) eqn:E4; [zb; lia|].
    destruct (_ - 12 - _ <? usz) eqn:E5; [zb; lia|].
    repeat (f_equal; try lia).
  - destruct v as [| | |vs0|]; try (cbn in Hwf; discriminate).
    rewrite get_ptr_struct, lay0_struct.
    enough (get_ptr_fields ovf ts (pre ++ encode (TStruct ts) (VStruct vs0) ++ post) (zlen pre)
              (zlen (encode (TStruct ts) (VStruct vs0)) + extra)
            = Ok (lay0_fields ts vs0 (zlen pre), zlen (encode (TStruct ts) (VStruct vs0)))) as -> by reflexivity.
    revert vs0 pre last Hpl Hok Hwf Hlast.
    induction IH as [|t ts Ht _ IHts]; intros vs0 pre last Hpl Hok Hwf Hlast.
    + destruct vs0; [|cbn in Hwf; discriminate]. reflexivity.
    + destruct vs0 as [|v vs0]; [cbn in Hwf; discriminate|].
      rewrite wf_struct_cons in Hwf. apply andb_true_iff in Hwf as [Hv Hvs].
      rewrite plain_struct_cons in Hpl. apply andb_true_iff in Hpl as [Hp1 Hp2].
      rewrite encode_struct_cons, <- app_assoc. cbn [get_ptr_fields lay0_fields].
      pose proof (zlen_nonneg (encode t v)). pose proof (zlen_nonneg (encode (TStruct ts) (VStruct vs0))).
      rewrite zlen_app.
      destruct ts as [|t2 ts].
      * rewrite ty_ok_struct_one in Hok. destruct vs0; [|cbn in Hvs; discriminate].
        rewrite encode_struct_nil. cbn [app]. change (zlen (@nil Z)) with 0. rewrite Z.add_0_r.
        rewrite (Ht last v pre post extra Hp1 Hok Hv Hex Hlast Hpost). cbn [obind get_ptr_fields]. f_equal. f_equal. lia.
      * rewrite ty_ok_struct_cons in Hok. apply andb_true_iff in Hok as [Hok1 Hok2].
        replace (zlen (encode t v) + zlen (encode (TStruct (t2 :: ts)) (VStruct vs0)) + extra)
          with (zlen (encode t v) + (zlen (encode (TStruct (t2 :: ts)) (VStruct vs0)) + extra)) by lia.
        rewrite (Ht false v pre (encode (TStruct (t2 :: ts)) (VStruct vs0) ++ post)
                   (zlen (encode (TStruct (t2 :: ts)) (VStruct vs0)) + extra) Hp1 Hok1 Hv);
          [|lia|discriminate|rewrite zlen_app; lia].
        cbn [obind].
        specialize (IHts vs0 (pre ++ encode t v) last Hp2 Hok2 Hvs Hlast).
        rewrite zlen_app, <- app_assoc in IHts.
        replace (zlen (encode t v) + (zlen (encode (TStruct (t2 :: ts)) (VStruct vs0)) + extra) - zlen (encode t v))
          with (zlen (encode (TStruct (t2 :: ts)) (VStruct vs0)) + extra) by lia.
        rewrite IHts. reflexivity.
  - cbn in Hpl. discriminate.
Qed.
