(* The canonical pointer tree of a value, for EVERY enum-free shape (structs, lists, trailing bytes, lists and
   maps of unsized elements nested to any depth), and what a program observes through it:

     get_ptr on canonical bytes yields the canonical tree           (a fresh exclusive / shared borrow)
     check_pointers accepts it inside any range that contains it    (no debug / drop-time assertion fires)
     owned_from_ptr through it yields the value                     (observability)

   This generalises the static half of Flat.v from field pointers to trees with offset tables. *)
From SF Require Import Base.Prelude Gen.Generated Unsized.Types Unsized.Parse Unsized.Machine Unsized.Ops.
From SF Require Import Unsized.Proofs.EncodeParse Unsized.Proofs.EnumFacts Unsized.Proofs.Mem Unsized.Proofs.Notify Unsized.Proofs.Flat.

Arguments Z.add : simpl never.
Arguments Z.sub : simpl never.
Arguments Z.mul : simpl never.
Arguments Z.of_nat : simpl never.
Arguments Z.pow : simpl never.
Arguments Z.modulo : simpl never.

(* the shapes covered by the layout theory.  This used to exclude enums; it now holds of EVERY shape
   (`plain_all` below) and is kept as a hypothesis name only so that the statements of the theory read as before. *)
Fixpoint plain (t : ty) : bool :=
  match t with
  | TFixed _ | TList _ _ | TRem => true
  | TUList it _ => plain it
  | TStruct ts => (fix go ts := match ts with [] => true | t :: r => plain t && go r end) ts
  | TEnum _ vs => (fix go vs := match vs with [] => true | (_, t) :: r => plain t && go r end) vs
  end.

Lemma plain_enum_find rw vs d vt : plain (TEnum rw vs) = true -> find_variant d vs = Some vt -> plain vt = true.
Proof.
  cbn [plain]. induction vs as [|[d' t'] r IH]; cbn [find_variant]; [discriminate|].
  intros H Hf. apply andb_true_iff in H as [H1 H2]. destruct (d =? d'); [now injection Hf as <-|now apply IH].
Qed.

Lemma plain_struct_cons t ts : plain (TStruct (t :: ts)) = plain t && plain (TStruct ts).
Proof. reflexivity. Qed.

(* the pointer tree get_ptr builds for value v of type t located at address b *)
Fixpoint lay0 (t : ty) (v : val) (b : Z) {struct t} : ptr :=
  match t, v with
  | TList c lw, VList items => PList b (Z.of_nat (fsize c) * zlen items)
  | TRem, VBytes bs => PRem b (zlen bs)
  | TUList it k, VUList items => PUList b (zlen items) None false b (b + zlen (encode (TUList it k) (VUList items)))
  | TStruct ts, VStruct vs =>
      PStruct ((fix go ts vs b :=
                  match ts, vs with
                  | t :: ts', v :: vs' => lay0 t v b :: go ts' vs' (b + zlen (encode t v))
                  | _, _ => []
                  end) ts vs b)
  | TEnum rw vars, VEnum d p =>
      (* StartPointer { start = the discriminant's address; data = the live variant's pointer behind it } *)
      (fix go vars :=
         match vars with
         | [] => PFixed b
         | (d', vt) :: r => if d =? d' then PEnum b d (lay0 vt p (b + Z.of_nat rw)) else go r
         end) vars
  | _, _ => PFixed b
  end.

Lemma lay0_enum rw vs d p b vt : find_variant d vs = Some vt ->
  lay0 (TEnum rw vs) (VEnum d p) b = PEnum b d (lay0 vt p (b + Z.of_nat rw)).
Proof.
  cbn [lay0]. induction vs as [|[d' t'] r IH]; cbn [find_variant]; [discriminate|].
  destruct (d =? d'); [now intros [= <-]|exact IH].
Qed.

Fixpoint lay0_fields (ts : list ty) (vs : list val) (b : Z) : list ptr :=
  match ts, vs with
  | t :: ts', v :: vs' => lay0 t v b :: lay0_fields ts' vs' (b + zlen (encode t v))
  | _, _ => []
  end.

Lemma lay0_struct ts vs b : lay0 (TStruct ts) (VStruct vs) b = PStruct (lay0_fields ts vs b).
Proof. reflexivity. Qed.

(* ---------------------------------------------------------------------------------------------- *)
(* the shape of the encoding of a list of unsized elements                                         *)
Definition uenc (it : ty) (items : list (list Z * val)) : list (list Z) := map (fun kv => encode it (snd kv)) items.
Definition usizes (it : ty) (items : list (list Z * val)) : list Z := map zlen (uenc it items).
Definition utable (it : ty) (items : list (list Z * val)) : list Z :=
  concat (offset_entries (offsets_from 0 (usizes it items)) (map fst items)).

Lemma encode_ulist it k items :
  encode (TUList it k) (VUList items) =
  le_bytes 4 (zsum (usizes it items)) ++ le_bytes 4 (zlen items) ++ utable it items
  ++ le_bytes 4 (zlen items) ++ concat (uenc it items).
Proof. reflexivity. Qed.

Record ufacts (it : ty) (k : nat) (items : list (list Z * val)) : Prop := mkUfacts {
  uf_n : 0 <= zlen items < U32_LIMIT;
  uf_usz : 0 <= zsum (usizes it items) < U32_LIMIT;
  uf_wfs : forallb (fun kv => wf it (snd kv)) items = true;
  uf_keys : Forall (fun key => length key = k) (map fst items);
  uf_table : zlen (utable it items) = zlen items * (4 + Z.of_nat k);
  uf_data : zlen (concat (uenc it items)) = zsum (usizes it items);
  uf_offs : Forall (fun o => 0 <= o < U32_LIMIT) (offsets_from 0 (usizes it items));
  uf_ents : split_entries k (zlen items) (utable it items) = combine (offsets_from 0 (usizes it items)) (map fst items);
}.

Lemma ulist_facts it k items : wf (TUList it k) (VUList items) = true -> ufacts it k items.
Proof.
  intros Hwf. cbn [wf] in Hwf.
  apply andb_true_iff in Hwf as [Hwf Hit]. apply andb_true_iff in Hwf as [Hwf _].
  apply andb_true_iff in Hwf as [Hn Husz]. zb.
  assert (forallb (fun kv => wf it (snd kv)) items = true) as Hwfs.
  { rewrite forallb_forall in *. intros kv Hin. specialize (Hit kv Hin). zb. assumption. }
  assert (Forall (fun key => length key = k) (map fst items)) as Hk.
  { apply Forall_forall. intros key Hin. apply in_map_iff in Hin as [[k' e] [<- Hin]].
    rewrite forallb_forall in Hit. specialize (Hit _ Hin). cbn [fst] in *. zb.
    match goal with H : (_ =? _)%nat = true |- _ => now apply Nat.eqb_eq in H end. }
  assert (usizes it items = map (fun kv => byte_size it (snd kv)) items) as Hsz.
  { unfold usizes, uenc. rewrite map_map. apply map_ext_in. intros [key e] Hin. cbn [snd]. apply encode_size.
    rewrite forallb_forall in Hwfs. apply (Hwfs _ Hin). }
  rewrite <- Hsz in Husz.
  assert (Forall (fun x => 0 <= x) (usizes it items)) as Hpos.
  { apply Forall_forall. intros x Hin. unfold usizes in Hin. apply in_map_iff in Hin as [e [<- _]]. apply zlen_nonneg. }
  pose proof (zsum_nonneg _ Hpos) as Hs0. pose proof (zlen_nonneg items) as Hn0.
  assert (length (offsets_from 0 (usizes it items)) = length (map fst items)) as Hlo.
  { unfold usizes, uenc. now rewrite offsets_from_length, !map_length. }
  assert (zlen (map fst items) = zlen items) as Hnk by (unfold zlen; now rewrite map_length).
  assert (Forall (fun o => 0 <= o < U32_LIMIT) (offsets_from 0 (usizes it items))) as Hoff.
  { assert (forall sz base, 0 <= base -> Forall (fun x => 0 <= x) sz -> base + zsum sz < U32_LIMIT ->
            Forall (fun o => 0 <= o < U32_LIMIT) (offsets_from base sz)) as Hgen.
    { induction sz as [|x r IHr]; intros base Hb Hp Hlt; cbn [offsets_from]; [constructor|].
      inversion Hp; subst. cbn [zsum] in Hlt. pose proof (zsum_nonneg r H2).
      constructor; [lia|]. apply IHr; auto; lia. }
    apply Hgen; [lia|assumption|lia]. }
  constructor; auto; try lia.
  - unfold utable. rewrite (zlen_offset_entries _ _ k Hlo Hk). now rewrite Hnk.
  - apply zlen_concat_sum.
  - unfold utable. rewrite <- Hnk. apply split_entries_entries; assumption.
Qed.

Lemma zlen_encode_ulist it k items : ufacts it k items ->
  zlen (encode (TUList it k) (VUList items)) = 12 + zlen items * (4 + Z.of_nat k) + zsum (usizes it items).
Proof.
  intros F. rewrite encode_ulist, !zlen_app, !zlen_le_bytes, (uf_table _ _ _ F), (uf_data _ _ _ F). lia.
Qed.

(* ---------------------------------------------------------------------------------------------- *)
(* get_ptr on canonical bytes                                                                      *)
Definition gp_stmt (ovf : bool) (t : ty) : Prop :=
  forall last v pre post extra, plain t = true -> ty_ok last t = true -> wf t v = true ->
    0 <= extra -> (last = true -> extra = 0) -> extra <= zlen post ->
    get_ptr ovf t (pre ++ encode t v ++ post) (zlen pre) (zlen (encode t v) + extra)
    = Ok (lay0 t v (zlen pre), zlen (encode t v)).

Lemma rd32_mid (a c : list Z) n x : x = zlen a -> 0 <= n < U32_LIMIT -> rd32 (a ++ le_bytes 4 n ++ c) x = Ok n.
Proof.
  intros -> Hn. unfold rd32. rewrite rd_mid'; [|reflexivity|now rewrite zlen_le_bytes]. cbn [obind]. now rewrite le32.
Qed.

Theorem get_ptr_lay0 ovf : forall t, gp_stmt ovf t.
Proof.
  induction t as [c|c lw| |it k IH|ts IH|rw vs IH] using ty_ind'; intros last v pre post extra Hpl Hok Hwf Hex Hlast Hpost.
  - destruct v as [bs| | | |]; try (cbn in Hwf; discriminate). cbn [wf] in Hwf. zb.
    match goal with H : (_ =? _)%nat = true |- _ => apply Nat.eqb_eq in H; rename H into Hl end.
    assert (zlen bs = Z.of_nat (fsize c)) as Hz by (unfold zlen; lia).
    cbn [get_ptr encode lay0]. rewrite Hz.
    destruct (_ <? Z.of_nat (fsize c)) eqn:E; [zb; lia|].
    rewrite rd_mid'; [|reflexivity|lia]. cbn [obind].
    match goal with H : fvalid c bs = true |- _ => rewrite H end. reflexivity.
  - destruct v as [|items| | |]; try (cbn in Hwf; discriminate). cbn [wf] in Hwf.
    apply andb_true_iff in Hwf as [Hwf Hit]. apply andb_true_iff in Hwf as [Hn Hm]. zb.
    destruct (wf_list_items _ _ Hit) as [Hlen Hval].
    pose proof (zlen_concat_fixed _ _ Hlen) as Hbody. pose proof (zlen_nonneg items).
    cbn [get_ptr encode lay0]. rewrite zlen_app, zlen_le_bytes in *. pose proof (zlen_nonneg (concat items)).
    destruct (_ <? Z.of_nat lw) eqn:E; [zb; lia|].
    rewrite <- !app_assoc. rewrite rd_mid'; [|reflexivity|now rewrite zlen_le_bytes]. cbn [obind].
    rewrite le_decode_le_bytes by lia.
    destruct (U64_LIMIT <=? _) eqn:E2; [zb; lia|]. cbn [andb].
    rewrite Z.mod_small by (split; [apply Z.mul_nonneg_nonneg; lia|lia]).
    destruct (_ <? Z.of_nat (fsize c) * zlen items) eqn:E3; [zb; lia|].
    rewrite Hbody. reflexivity.
  - destruct v as [bs| | | |]; try (cbn in Hwf; discriminate).
    cbn [ty_ok] in Hok. rewrite (Hlast Hok). cbn [get_ptr encode lay0]. now rewrite Z.add_0_r.
  - destruct v as [| |items| |]; try (cbn in Hwf; discriminate).
    pose proof (ulist_facts _ _ _ Hwf) as F. pose proof (zlen_encode_ulist _ _ _ F) as Hsz.
    destruct F as [Hn Hu _ _ Ht Hd _ _].
    cbn [get_ptr lay0]. rewrite Hsz. rewrite encode_ulist, <- !app_assoc.
    set (n := zlen items) in *. set (usz := zsum (usizes it items)) in *.
    pose proof (zlen_nonneg (utable it items)).
    destruct (_ <? 4) eqn:E1; [zb; lia|].
    rewrite rd32_mid by (auto; lia). cbn [obind].
    destruct (_ - 4 <? 4) eqn:E2; [zb; lia|].
    replace (pre ++ le_bytes 4 usz ++ le_bytes 4 n ++ utable it items ++ le_bytes 4 n ++ concat (uenc it items) ++ post)
      with ((pre ++ le_bytes 4 usz) ++ le_bytes 4 n ++ utable it items ++ le_bytes 4 n ++ concat (uenc it items) ++ post)
      by now rewrite <- app_assoc.
    rewrite rd32_mid by (rewrite ?zlen_app, ?zlen_le_bytes; auto; lia). cbn [obind].
    destruct (_ - 8 <? _) eqn:E3; [zb; lia|].
    destruct (_ - 8 - _ <? 4) eqn:E4; [zb; lia|].
    destruct (_ - 12 - _ <? usz) eqn:E5; [zb; lia|].
    repeat (f_equal; try lia).
  - destruct v as [| | |vs0|]; try (cbn in Hwf; discriminate).
    rewrite get_ptr_struct, lay0_struct.
    enough (get_ptr_fields ovf ts (pre ++ encode (TStruct ts) (VStruct vs0) ++ post) (zlen pre)
              (zlen (encode (TStruct ts) (VStruct vs0)) + extra)
            = Ok (lay0_fields ts vs0 (zlen pre), zlen (encode (TStruct ts) (VStruct vs0)))) as -> by reflexivity.
    revert vs0 pre last Hpl Hok Hwf Hlast.
    induction IH as [|t ts Ht _ IHts]; intros vs0 pre last Hpl Hok Hwf Hlast.
    + destruct vs0; [|cbn in Hwf; discriminate]. reflexivity.
    + destruct vs0 as [|v vs0]; [cbn in Hwf; discriminate|].
      rewrite wf_struct_cons in Hwf. apply andb_true_iff in Hwf as [Hv Hvs].
      rewrite plain_struct_cons in Hpl. apply andb_true_iff in Hpl as [Hp1 Hp2].
      rewrite encode_struct_cons, <- app_assoc. cbn [get_ptr_fields lay0_fields].
      pose proof (zlen_nonneg (encode t v)). pose proof (zlen_nonneg (encode (TStruct ts) (VStruct vs0))).
      rewrite zlen_app.
      destruct ts as [|t2 ts].
      * rewrite ty_ok_struct_one in Hok. destruct vs0; [|cbn in Hvs; discriminate].
        rewrite encode_struct_nil. cbn [app]. change (zlen (@nil Z)) with 0. rewrite Z.add_0_r.
        rewrite (Ht last v pre post extra Hp1 Hok Hv Hex Hlast Hpost). cbn [obind get_ptr_fields]. f_equal. f_equal. lia.
      * rewrite ty_ok_struct_cons in Hok. apply andb_true_iff in Hok as [Hok1 Hok2].
        replace (zlen (encode t v) + zlen (encode (TStruct (t2 :: ts)) (VStruct vs0)) + extra)
          with (zlen (encode t v) + (zlen (encode (TStruct (t2 :: ts)) (VStruct vs0)) + extra)) by lia.
        rewrite (Ht false v pre (encode (TStruct (t2 :: ts)) (VStruct vs0) ++ post)
                   (zlen (encode (TStruct (t2 :: ts)) (VStruct vs0)) + extra) Hp1 Hok1 Hv);
          [|lia|discriminate|rewrite zlen_app; lia].
        cbn [obind].
        specialize (IHts vs0 (pre ++ encode t v) last Hp2 Hok2 Hvs Hlast).
        rewrite zlen_app, <- app_assoc in IHts.
        replace (zlen (encode t v) + (zlen (encode (TStruct (t2 :: ts)) (VStruct vs0)) + extra) - zlen (encode t v))
          with (zlen (encode (TStruct (t2 :: ts)) (VStruct vs0)) + extra) by lia.
        rewrite IHts. reflexivity.
  - destruct v as [| | | |d p]; try (cbn in Hwf; discriminate).
    destruct (wf_enum_inv _ _ _ _ Hwf) as (Hd & vt & Hf & Hp).
    pose proof (ty_ok_enum_rw _ _ _ Hok) as Hrw.
    pose proof (ty_ok_enum_variant _ _ _ _ _ Hok Hf) as Hokv.
    pose proof (plain_enum_find _ _ _ _ Hpl Hf) as Hplv.
    enum_ih IH Hf IHv.
    rewrite get_ptr_enum, (lay0_enum _ _ _ _ _ _ Hf), (encode_enum_some _ _ _ _ _ Hf), zlen_app, zlen_le_bytes.
    pose proof (zlen_nonneg (encode vt p)).
    destruct (_ <? Z.of_nat rw) eqn:E; [zb; lia|].
    rewrite <- app_assoc. rewrite rd_mid'; [|reflexivity|now rewrite zlen_le_bytes]. cbn [obind].
    rewrite le_decode_le_bytes by lia. rewrite Hf.
    specialize (IHv last p (pre ++ le_bytes rw d) post extra Hplv Hokv Hp Hex Hlast Hpost).
    rewrite zlen_app, zlen_le_bytes, <- app_assoc in IHv.
    replace (Z.of_nat rw + zlen (encode vt p) + extra - Z.of_nat rw) with (zlen (encode vt p) + extra) by lia.
    rewrite IHv. reflexivity.
Qed.

(* ---------------------------------------------------------------------------------------------- *)
(* the layout RELATION: the canonical tree up to what lists of unsized elements remember about the element
   last handed out.  While `possible_mut_borrow` is set the recorded inner pointer is the layout of one of
   the elements at its current address; otherwise it is a leftover all of whose addresses lie after the
   list's own (it is only ever shifted together with the list, and - since D26 - never checked).       *)
Definition elem_addr (it : ty) (k : nat) (items : list (list Z * val)) (b : Z) (i : nat) : Z :=
  b + 12 + zlen items * (4 + Z.of_nat k) + zsum (firstn i (usizes it items)).

Fixpoint Lay (t : ty) (v : val) (b : Z) (p : ptr) {struct t} : Prop :=
  match t, v, p with
  | TFixed c, VBytes _, PFixed a => a = b
  | TList c lw, VList items, PList a bl => a = b /\ bl = Z.of_nat (fsize c) * zlen items
  | TRem, VBytes bs, PRem a l => a = b /\ l = zlen bs
  | TUList it k, VUList items, PUList a n inner pmb rs re =>
      a = b /\ n = zlen items /\ rs = b /\ re = b + zlen (encode (TUList it k) (VUList items)) /\
      match inner with
      | None => True
      | Some q =>
          if pmb then exists i kv, nth_error items i = Some kv /\ Lay it (snd kv) (elem_addr it k items b i) q
          else after b it q = true
      end
  | TStruct ts, VStruct vs, PStruct ps =>
      (fix go ts vs ps b :=
         match ts, vs, ps with
         | [], [], [] => True
         | t :: ts', v :: vs', q :: ps' => Lay t v b q /\ go ts' vs' ps' (b + zlen (encode t v))
         | _, _, _ => False
         end) ts vs ps b
  | TEnum rw vars, VEnum d p, PEnum st d' q =>
      st = b /\ d' = d /\
      (fix go vars :=
         match vars with
         | [] => False
         | (d'', vt) :: r => if d =? d'' then Lay vt p (b + Z.of_nat rw) q else go r
         end) vars
  | _, _, _ => False
  end.

Lemma Lay_enum rw vs d p b st d' q :
  Lay (TEnum rw vs) (VEnum d p) b (PEnum st d' q) <->
  st = b /\ d' = d /\ exists vt, find_variant d vs = Some vt /\ Lay vt p (b + Z.of_nat rw) q.
Proof.
  cbn [Lay]. split.
  - intros (-> & -> & H). repeat split. induction vs as [|[d'' t''] r IH]; cbn [find_variant]; [contradiction|].
    destruct (d =? d''); [exists t''; split; [reflexivity|exact H]|now apply IH].
  - intros (-> & -> & vt & Hf & H). repeat split. induction vs as [|[d'' t''] r IH]; cbn [find_variant] in Hf; [discriminate|].
    destruct (d =? d''); [now injection Hf as ->|now apply IH].
Qed.

Fixpoint Lay_fields (ts : list ty) (vs : list val) (ps : list ptr) (b : Z) : Prop :=
  match ts, vs, ps with
  | [], [], [] => True
  | t :: ts', v :: vs', q :: ps' => Lay t v b q /\ Lay_fields ts' vs' ps' (b + zlen (encode t v))
  | _, _, _ => False
  end.

Lemma Lay_struct ts vs ps b : Lay (TStruct ts) (VStruct vs) b (PStruct ps) = Lay_fields ts vs ps b.
Proof.
  cbn [Lay]. revert vs ps b. induction ts as [|t ts IH]; intros [|v vs] [|q ps] b; try reflexivity.
  cbn [Lay_fields]. now rewrite IH.
Qed.

Theorem lay0_Lay : forall t v b, plain t = true -> wf t v = true -> Lay t v b (lay0 t v b).
Proof.
  induction t as [c|c lw| |it k IH|ts IH|rw vs IH] using ty_ind'; intros v b Hpl Hwf.
  - destruct v; try (cbn in Hwf; discriminate). reflexivity.
  - destruct v; try (cbn in Hwf; discriminate). cbn. auto.
  - destruct v; try (cbn in Hwf; discriminate). cbn. auto.
  - destruct v; try (cbn in Hwf; discriminate). cbn [lay0 Lay]. auto.
  - destruct v as [| | |vs0|]; try (cbn in Hwf; discriminate). rewrite lay0_struct, Lay_struct.
    revert vs0 b Hpl Hwf. induction IH as [|t ts Ht _ IHts]; intros vs0 b Hpl Hwf.
    + destruct vs0; [exact I|cbn in Hwf; discriminate].
    + destruct vs0 as [|v vs0]; [cbn in Hwf; discriminate|].
      rewrite wf_struct_cons in Hwf. apply andb_true_iff in Hwf as [Hv Hvs].
      rewrite plain_struct_cons in Hpl. apply andb_true_iff in Hpl as [Hp1 Hp2].
      cbn [lay0_fields Lay_fields]. split; [apply Ht; assumption|apply IHts; assumption].
  - destruct v as [| | | |d p]; try (cbn in Hwf; discriminate).
    destruct (wf_enum_inv _ _ _ _ Hwf) as (Hd & vt & Hf & Hp).
    enum_ih IH Hf IHv.
    rewrite (lay0_enum _ _ _ _ _ _ Hf). apply Lay_enum. split; [reflexivity|]. split; [reflexivity|].
    exists vt. split; [exact Hf|]. apply IHv; [exact (plain_enum_find _ _ _ _ Hpl Hf)|exact Hp].
Qed.

(* ---------------------------------------------------------------------------------------------- *)
(* positive size of everything but a trailing RemainingBytes and empty structs                      *)
Lemma zsum_firstn_le (l : list Z) i : Forall (fun x => 0 <= x) l -> 0 <= zsum (firstn i l) <= zsum l.
Proof.
  revert i. induction l as [|x l IH]; intros i H; [destruct i; cbn; lia|].
  inversion H; subst. destruct i; cbn [firstn zsum]; [pose proof (zsum_nonneg _ H3); lia|].
  specialize (IH i H3). lia.
Qed.

Lemma usizes_nonneg it items : Forall (fun x => 0 <= x) (usizes it items).
Proof. apply Forall_forall. intros x Hin. unfold usizes in Hin. apply in_map_iff in Hin as [e [<- _]]. apply zlen_nonneg. Qed.

Lemma nth_error_usizes it items i kv :
  nth_error items i = Some kv -> nth_error (usizes it items) i = Some (zlen (encode it (snd kv))).
Proof. intros H. unfold usizes, uenc. rewrite map_map. now rewrite (map_nth_error _ _ _ H). Qed.

Lemma zsum_firstn_S (l : list Z) i x : nth_error l i = Some x -> zsum (firstn (S i) l) = zsum (firstn i l) + x.
Proof.
  revert i. induction l as [|y l IH]; intros [|i] H; cbn [nth_error] in H; try discriminate.
  - injection H as ->. cbn [firstn zsum]. lia.
  - change (firstn (S (S i)) (y :: l)) with (y :: firstn (S i) l). change (firstn (S i) (y :: l)) with (y :: firstn i l).
    cbn [zsum]. rewrite (IH i H). lia.
Qed.

Lemma elem_inside it k items b i kv : ufacts it k items -> nth_error items i = Some kv ->
  b + 12 + zlen items * (4 + Z.of_nat k) <= elem_addr it k items b i /\
  elem_addr it k items b i + zlen (encode it (snd kv)) <= b + zlen (encode (TUList it k) (VUList items)).
Proof.
  intros F Hn. rewrite (zlen_encode_ulist _ _ _ F). unfold elem_addr.
  pose proof (zsum_firstn_le (usizes it items) i (usizes_nonneg it items)).
  pose proof (zsum_firstn_le (usizes it items) (S i) (usizes_nonneg it items)) as H2.
  rewrite (zsum_firstn_S _ _ _ (nth_error_usizes it _ _ _ Hn)) in H2. lia.
Qed.

(* ---------------------------------------------------------------------------------------------- *)
(* check_pointers accepts every layout that lies inside the range                                   *)
Definition chk_stmt (t : ty) : Prop :=
  forall last v b p lo hi cursor, plain t = true -> ty_ok last t = true -> wf t v = true -> Lay t v b p ->
    lo <= b -> cursor <= b -> b + zlen (encode t v) <= hi ->
    exists c', check_ptrs p lo hi cursor = (true, c') /\ cursor <= c' <= b + zlen (encode t v).

Lemma wf_nth it (items : list (list Z * val)) i kv :
  forallb (fun kv => wf it (snd kv)) items = true -> nth_error items i = Some kv -> wf it (snd kv) = true.
Proof. intros H Hn. rewrite forallb_forall in H. apply H. eapply nth_error_In; eauto. Qed.

Theorem check_ptrs_Lay : forall t, chk_stmt t.
Proof.
  induction t as [c|c lw| |it k IH|ts IH|rw vs IH] using ty_ind'; intros last v b p lo hi cursor Hpl Hok Hwf HL Hlo Hcur Hhi.
  - destruct v as [bs| | | |]; try (cbn in Hwf; discriminate). destruct p; try (cbn in HL; contradiction). cbn in HL. subst addr.
    cbn [wf] in Hwf. zb. match goal with H : (_ =? _)%nat = true |- _ => apply Nat.eqb_eq in H; rename H into Hl end.
    cbn [ty_ok] in Hok. zb. match goal with H : (_ =? _)%nat = false |- _ => apply Nat.eqb_neq in H; rename H into Hnz end.
    cbn [encode] in *. assert (zlen bs = Z.of_nat (fsize c)) as Hz by (unfold zlen; lia).
    exists b. cbn [check_ptrs]. unfold in_range.
    destruct (cursor <=? b) eqn:E1; [|zb; lia]. destruct (lo <=? b) eqn:E2; [|zb; lia]. destruct (b <? hi) eqn:E3; [|zb; lia].
    split; [reflexivity|lia].
  - destruct v as [|items| | |]; try (cbn in Hwf; discriminate). destruct p; try (cbn in HL; contradiction). cbn in HL. destruct HL as [-> ->].
    cbn [ty_ok] in Hok. zb. repeat match goal with H : (_ =? _)%nat = false |- _ => apply Nat.eqb_neq in H end.
    cbn [encode] in *. rewrite zlen_app, zlen_le_bytes in *. pose proof (zlen_nonneg (concat items)).
    exists b. cbn [check_ptrs]. unfold in_range.
    destruct (cursor <=? b) eqn:E1; [|zb; lia]. destruct (lo <=? b) eqn:E2; [|zb; lia]. destruct (b <? hi) eqn:E3; [|zb; lia].
    split; [reflexivity|lia].
  - destruct v as [bs| | | |]; try (cbn in Hwf; discriminate). destruct p; try (cbn in HL; contradiction). cbn in HL. destruct HL as [-> ->].
    cbn [encode] in *. pose proof (zlen_nonneg bs).
    exists b. cbn [check_ptrs]. unfold in_range.
    destruct (cursor <=? b) eqn:E1; [|zb; lia]. destruct (lo <=? b) eqn:E2; [|zb; lia]. cbn [andb].
    destruct (b <? hi) eqn:E3; [split; [reflexivity|lia]|]. destruct (b =? hi) eqn:E4; [split; [reflexivity|lia]|zb; lia].
  - destruct v as [| |items| |]; try (cbn in Hwf; discriminate).
    destruct p as [| | |a n inner pmb rs re| |]; try (cbn in HL; contradiction).
    cbn [Lay] in HL. destruct HL as (-> & -> & -> & -> & Hin).
    pose proof (ulist_facts _ _ _ Hwf) as F. pose proof (zlen_encode_ulist _ _ _ F) as Hsz.
    pose proof (uf_n _ _ _ F). pose proof (uf_usz _ _ _ F).
    exists b. cbn [check_ptrs]. unfold in_range.
    destruct (cursor <=? b) eqn:E1; [|zb; lia]. destruct (lo <=? b) eqn:E2; [|zb; lia].
    destruct (b <? hi) eqn:E3; [|zb; nia]. cbn [andb].
    assert (match inner with Some q => if pmb then fst (check_ptrs q lo hi lo) else true | None => true end = true) as ->.
    { destruct inner as [q|]; [|reflexivity]. destruct pmb; [|reflexivity].
      destruct Hin as (i & kv & Hn & Hq). cbn [ty_ok] in Hok.
      destruct (elem_inside it k items b i kv F Hn) as [He1 He2].
      destruct (IH false (snd kv) _ q lo hi lo Hpl Hok (wf_nth _ _ _ _ (uf_wfs _ _ _ F) Hn) Hq) as (c' & Hc & _); try nia.
      now rewrite Hc. }
    split; [reflexivity|nia].
  - destruct v as [| | |vs0|]; try (cbn in Hwf; discriminate).
    destruct p as [| | | |ps|]; try (cbn in HL; contradiction).
    rewrite Lay_struct in HL. rewrite check_struct.
    revert vs0 ps b cursor last Hpl Hok Hwf HL Hlo Hcur Hhi.
    induction IH as [|t ts Ht _ IHts]; intros vs0 ps b cursor last Hpl Hok Hwf HL Hlo Hcur Hhi.
    + destruct vs0; [|cbn in Hwf; discriminate]. destruct ps; [|contradiction].
      exists cursor. rewrite encode_struct_nil in *. change (zlen (@nil Z)) with 0 in *. cbn [check_fields]. split; [reflexivity|lia].
    + destruct vs0 as [|v vs0]; [cbn in Hwf; discriminate|]. destruct ps as [|q ps]; [contradiction|].
      rewrite wf_struct_cons in Hwf. apply andb_true_iff in Hwf as [Hv Hvs].
      rewrite plain_struct_cons in Hpl. apply andb_true_iff in Hpl as [Hp1 Hp2].
      cbn [Lay_fields] in HL. destruct HL as [HLq HLr].
      rewrite encode_struct_cons, zlen_app in *.
      pose proof (zlen_nonneg (encode t v)). pose proof (zlen_nonneg (encode (TStruct ts) (VStruct vs0))).
      assert (exists l1, ty_ok l1 t = true /\ ty_ok last (TStruct ts) = true) as (l1 & Hok1 & Hok2).
      { destruct ts as [|t2 ts]; [exists last; rewrite ty_ok_struct_one in Hok; split; [exact Hok|reflexivity]|].
        rewrite ty_ok_struct_cons in Hok. apply andb_true_iff in Hok as [H1 H2]. exists false. split; assumption. }
      destruct (Ht l1 v b q lo hi cursor Hp1 Hok1 Hv HLq) as (c1 & Hc1 & Hr1); try lia.
      cbn [check_fields]. rewrite Hc1.
      destruct (IHts vs0 ps (b + zlen (encode t v)) c1 last Hp2 Hok2 Hvs HLr) as (c2 & Hc2 & Hr2); try lia.
      exists c2. split; [exact Hc2|lia].
  - destruct v as [| | | |d pv]; try (cbn in Hwf; discriminate).
    destruct p as [| | | | |st d' q]; try (cbn [Lay] in HL; contradiction).
    apply Lay_enum in HL. destruct HL as (-> & -> & vt' & Hf' & HLq).
    destruct (wf_enum_inv _ _ _ _ Hwf) as (Hd & vt & Hf & Hp). rewrite Hf in Hf'. injection Hf' as <-.
    pose proof (ty_ok_enum_rw _ _ _ Hok) as Hrw.
    pose proof (ty_ok_enum_variant _ _ _ _ _ Hok Hf) as Hokv.
    pose proof (plain_enum_find _ _ _ _ Hpl Hf) as Hplv.
    enum_ih IH Hf IHv.
    rewrite (zlen_encode_enum _ _ _ _ _ Hf) in *. pose proof (zlen_nonneg (encode vt pv)).
    rewrite check_ptrs_enum. unfold in_range.
    destruct (cursor <=? b) eqn:E1; [|zb; lia]. destruct (lo <=? b) eqn:E2; [|zb; lia]. destruct (b <? hi) eqn:E3; [|zb; lia].
    cbn [andb].
    destruct (IHv last pv (b + Z.of_nat rw) q lo hi b Hplv Hokv Hp HLq) as (c' & Hc & Hr); try lia.
    exists c'. split; [exact Hc|lia].
Qed.
