(* The resize notification for ANY sub-value of positive encoded size that sits inside a value, at the end of a path
   through struct fields and elements of lists of unsized elements (NotifyInside.v is the special case of a container,
   which resizes itself): every ancestor list header on the path is fixed, every pointer located after the sub-value is
   shifted, everything before it is left alone.  The sub-value's own node only has to accept a notification whose
   source is its own start address without touching memory - which every enum-free shape does
   (notify_at_own_start); nothing is claimed about that node afterwards (whole-value replacement rebuilds it). *)
From SF Require Import Base.Prelude Gen.Generated Unsized.Types Unsized.Parse Unsized.Machine Unsized.Ops.
From SF Require Import Unsized.Proofs.EncodeParse Unsized.Proofs.Mem Unsized.Proofs.Notify Unsized.Proofs.Flat Unsized.Proofs.Layout
  Unsized.Proofs.Table Unsized.Proofs.Path Unsized.Proofs.Context Unsized.Proofs.Focus Unsized.Proofs.Pos Unsized.Proofs.NotifyInside.
From SF Require Import Unsized.Proofs.EnumFacts.

Arguments Z.add : simpl never.
Arguments Z.sub : simpl never.
Arguments Z.mul : simpl never.
Arguments Z.of_nat : simpl never.
Arguments Z.pow : simpl never.
Arguments Z.modulo : simpl never.

(* ---------------------------------------------------------------------------------------------- *)
(* every enum-free value accepts a notification whose source is its own start address, memory untouched:
   leaves and lists compare `src < a` (false), trailing bytes and lists of unsized elements take their `src = a`
   branch, a struct hands it to its fields: those that start at the source (the first one, and any that follow only
   zero-sized ones) recursively, all later ones are shifted *)
Definition own_stmt (X : ty) : Prop :=
  forall xv a node c m, plain X = true -> wf X xv = true -> Lay X xv a node ->
    exists node', notify X node a c m = Ok (node', m).

Lemma notify_fields_own ts : Forall own_stmt ts ->
  forall vs ps b a c m,
    plain (TStruct ts) = true -> wf (TStruct ts) (VStruct vs) = true -> Lay_fields ts vs ps b -> a <= b ->
    exists ps', notify_fields ts ps a c m = Ok (ps', m).
Proof.
  induction 1 as [|t ts Ht _ IHts]; intros vs ps b a c m Hpl Hwf HL Hle.
  - destruct vs; [|cbn in Hwf; discriminate]. destruct ps; [|contradiction]. exists []. reflexivity.
  - destruct (Z.eq_dec a b) as [->|Hne].
    + destruct vs as [|v vs]; [cbn in Hwf; discriminate|]. destruct ps as [|q ps]; [contradiction|].
      rewrite wf_struct_cons in Hwf. apply andb_true_iff in Hwf as [Hv Hvs].
      rewrite plain_struct_cons in Hpl. apply andb_true_iff in Hpl as [Hp1 Hp2].
      cbn [Lay_fields] in HL. destruct HL as [HLq HLr].
      pose proof (zlen_nonneg (encode t v)).
      destruct (Ht v b q c m Hp1 Hv HLq) as (q' & Hq).
      destruct (IHts vs ps (b + zlen (encode t v)) b c m Hp2 Hvs HLr) as (ps' & Hps); [lia|].
      exists (q' :: ps'). cbn [notify_fields]. rewrite Hq. cbn [obind]. rewrite Hps. reflexivity.
    + exists (map (shift c) ps). apply (notify_fields_shift (t :: ts) vs ps b a c m Hpl Hwf HL). lia.
Qed.

Lemma notify_at_own_start_all : forall X, own_stmt X.
Proof.
  induction X as [cc|cc lw| |it k IH|ts IH|rw vs IH] using ty_ind'; intros xv a node c m Hpl Hwf HL.
  - destruct xv as [bs| | | |]; try (cbn in Hwf; discriminate). destruct node as [a0| | | | |]; try (cbn [Lay] in HL; contradiction).
    cbn [notify]. eexists. reflexivity.
  - destruct xv as [|items| | |]; try (cbn in Hwf; discriminate). destruct node as [|a0 bl| | | |]; try (cbn [Lay] in HL; contradiction).
    cbn [notify]. eexists. reflexivity.
  - destruct xv as [bs| | | |]; try (cbn in Hwf; discriminate). destruct node as [| |a0 l| | |]; try (cbn [Lay] in HL; contradiction).
    cbn [Lay] in HL. destruct HL as [-> _]. cbn [notify]. rewrite Z.ltb_irrefl, Z.eqb_refl. eexists. reflexivity.
  - destruct xv as [| |items| |]; try (cbn in Hwf; discriminate).
    destruct node as [| | |a0 n inner pmb rs re| |]; try (cbn [Lay] in HL; contradiction).
    cbn [Lay] in HL. destruct HL as (-> & _). cbn [notify]. rewrite Z.ltb_irrefl, Z.eqb_refl. eexists. reflexivity.
  - destruct xv as [| | |vs0|]; try (cbn in Hwf; discriminate).
    destruct node as [| | | |ps|]; try (cbn [Lay] in HL; contradiction).
    rewrite Lay_struct in HL. rewrite notify_struct.
    destruct (notify_fields_own ts IH vs0 ps a a c m Hpl Hwf HL) as (ps' & Hps); [lia|].
    rewrite Hps. cbn [obind]. eexists. reflexivity.
  - destruct xv as [| | | |d pv]; try (cbn in Hwf; discriminate).
    destruct node as [| | | | |st d' q]; try (cbn [Lay] in HL; contradiction).
    apply Lay_enum in HL. destruct HL as (-> & -> & vt' & Hf' & HLq).
    destruct (wf_enum_inv _ _ _ _ Hwf) as (Hd & vt & Hf & Hp). rewrite Hf in Hf'. injection Hf' as <-.
    pose proof (plain_enum_find _ _ _ _ Hpl Hf) as Hplv.
    enum_ih IH Hf IHv.
    rewrite notify_enum, Hf.
    destruct (Z.eq_dec (Z.of_nat rw) 0) as [Hz|Hz].
    + rewrite Hz, Z.add_0_r in HLq. destruct (IHv pv a q c m Hplv Hp HLq) as (q' & Hq).
      rewrite Hq. cbn [obind]. eexists. reflexivity.
    + rewrite (notify_shift vt q a c m (Lay_after vt pv _ q a Hplv Hp HLq ltac:(lia))). cbn [obind].
      eexists. reflexivity.
Qed.

Lemma notify_at_own_start : forall X xv a node c m, plain X = true -> wf X xv = true -> Lay X xv a node ->
  exists node', notify X node a c m = Ok (node', m).
Proof. exact notify_at_own_start_all. Qed.

(* ---------------------------------------------------------------------------------------------- *)
(* a type in non-tail position none of whose leaves occupies bytes has only empty encodings ...     *)
Lemma npos_empty : forall t v, plain t = true -> ty_ok false t = true -> tpos t = false -> encode t v = [].
Proof.
  induction t as [cc|cc lw| |it k IH|ts IH|rw vs IH] using ty_ind'; intros v Hpl Hok Hp.
  - cbn [ty_ok tpos] in *. congruence.
  - cbn [ty_ok tpos] in *. apply andb_true_iff in Hok as [Hok _]. apply andb_true_iff in Hok as [Hok _]. congruence.
  - cbn in Hok. discriminate.
  - cbn in Hp. discriminate.
  - destruct v as [| | |vs0|]; try reflexivity.
    pose proof (ty_ok_false_fields _ Hok) as Hoks. clear Hok.
    revert vs0 Hpl Hoks Hp. induction IH as [|t ts Ht _ IHts]; intros vs0 Hpl Hoks Hp; [reflexivity|].
    destruct vs0 as [|v vs0]; [reflexivity|].
    cbn [forallb] in Hoks. apply andb_true_iff in Hoks as [Hok1 Hok2].
    rewrite plain_struct_cons in Hpl. apply andb_true_iff in Hpl as [Hp1' Hp2'].
    rewrite tpos_struct_cons in Hp. apply orb_false_iff in Hp as [Hp1 Hp2].
    rewrite encode_struct_cons, (Ht v Hp1' Hok1 Hp1), (IHts vs0 Hp2' Hok2 Hp2). reflexivity.
  - cbn [ty_ok tpos] in *. apply andb_true_iff in Hok as [Hok _]. apply andb_true_iff in Hok as [Hok _]. congruence.
Qed.

(* ... hence a type in non-tail position through which a path reaches a sub-value that does occupy bytes always
   occupies bytes (Pos.resolve_tpos for arbitrary sub-values) *)
Lemma resolve_tpos_any t v pi X xv :
  plain t = true -> ty_ok false t = true -> resolve t v pi = Some (X, xv) -> 0 < zlen (encode X xv) -> tpos t = true.
Proof.
  intros Hpl Hok Hr Hpos. destruct (tpos t) eqn:E; [reflexivity|exfalso].
  pose proof (npos_empty t v Hpl Hok E) as He. rewrite (hctx_encode _ _ _ _ _ Hr) in He.
  apply (f_equal (@zlen Z)) in He. rewrite !zlen_app in He. change (zlen (@nil Z)) with 0 in He.
  pose proof (zlen_nonneg (fst (hctx t v pi 0))). pose proof (zlen_nonneg (snd (hctx t v pi 0))). lia.
Qed.

(* ---------------------------------------------------------------------------------------------- *)
Section InsideAny.
Variables (X : ty) (xv xv' : val) (c : Z) (h : list Z).
Hypothesis Hpos : 0 < zlen (encode X xv).
Hypothesis Hown : forall a node m, Lay X xv a node -> exists node', notify X node a c m = Ok (node', m).
Hypothesis Hh : zlen h = zlen (encode X xv) + c.
Hypothesis Hx' : zlen (encode X xv') = zlen (encode X xv) + c.
Hypothesis Hnn : 0 <= zlen (encode X xv) + c.

Definition ETrue : ty -> val -> Z -> ptr -> Prop := fun _ _ _ _ => True.

Definition nia_stmt (pi : list step) : Prop :=
  forall t last v p pre post,
    plain t = true -> ty_ok last t = true -> wf t v = true ->
    resolve t v pi = Some (X, xv) ->
    LayP Lay pi t v (zlen pre) p ->
    zlen (encode t v) + c < U32_LIMIT ->
    exists p',
      notify t p (addr_of t v pi (zlen pre)) c (pre ++ fst (hctx t v pi 0) ++ h ++ snd (hctx t v pi 0) ++ post)
      = Ok (p', pre ++ fst (hctx t v pi c) ++ h ++ snd (hctx t v pi 0) ++ post)
      /\ LayP ETrue pi t (plug t v pi xv') (zlen pre) p'.

Lemma nia_nil : nia_stmt [].
Proof.
  intros t last v p pre post Hpl Hok Hwf Hr HL Hlt.
  cbn [resolve] in Hr. injection Hr as -> ->.
  cbn [LayP] in HL. unfold addr_of. cbn [hctx fst snd app plug LayP].
  change (zlen (@nil Z)) with 0. rewrite Z.add_0_r.
  destruct (Hown (zlen pre) p (pre ++ h ++ post) HL) as (node' & Hn).
  exists node'. split; [exact Hn|exact I].
Qed.

(* the sub-value lies inside whatever the path to it starts from *)
Lemma inside_len t v pi : resolve t v pi = Some (X, xv) ->
  zlen (encode t v) = zlen (fst (hctx t v pi 0)) + zlen (encode X xv) + zlen (snd (hctx t v pi 0)).
Proof. intros Hr. rewrite (hctx_encode _ _ _ _ _ Hr), !zlen_app. lia. Qed.

(* the struct step on an explicitly split struct *)
Lemma nia_SF_core tsA ti tsB vsA vi vsB psA q psB last r pre post :
  nia_stmt r ->
  length tsA = length vsA -> length tsA = length psA ->
  plain (TStruct (tsA ++ ti :: tsB)) = true -> ty_ok last (TStruct (tsA ++ ti :: tsB)) = true ->
  wf (TStruct (tsA ++ ti :: tsB)) (VStruct (vsA ++ vi :: vsB)) = true ->
  resolve ti vi r = Some (X, xv) ->
  Lay_fields tsA vsA psA (zlen pre) ->
  LayP Lay r ti vi (zlen pre + zlen (encs tsA vsA)) q ->
  Lay_fields tsB vsB psB (zlen pre + zlen (encs tsA vsA) + zlen (encode ti vi)) ->
  zlen (encs tsA vsA) + zlen (encode ti vi) + zlen (encs tsB vsB) + c < U32_LIMIT ->
  exists q',
    notify_fields (tsA ++ ti :: tsB) (psA ++ q :: psB) (zlen pre + zlen (encs tsA vsA) + zlen (fst (hctx ti vi r 0))) c
      (pre ++ (encs tsA vsA ++ fst (hctx ti vi r 0)) ++ h ++ (snd (hctx ti vi r 0) ++ encs tsB vsB) ++ post)
    = Ok (psA ++ q' :: map (shift c) psB,
          pre ++ (encs tsA vsA ++ fst (hctx ti vi r c)) ++ h ++ (snd (hctx ti vi r 0) ++ encs tsB vsB) ++ post)
    /\ LayP ETrue r ti (plug ti vi r xv') (zlen pre + zlen (encs tsA vsA)) q'
    /\ Lay_fields tsB vsB (map (shift c) psB) (zlen pre + zlen (encs tsA vsA) + zlen (encode ti (plug ti vi r xv'))).
Proof.
  intros IH HlA HlAp Hpl Hok Hwf Hr HLA HLq HLB Hlt.
  rewrite plain_struct_app, plain_struct_cons in Hpl.
  apply andb_true_iff in Hpl as [HplA Hpl]. apply andb_true_iff in Hpl as [Hpli HplB].
  rewrite (wf_struct_split3 _ _ _ _ _ _ HlA) in Hwf.
  apply andb_true_iff in Hwf as [HwA Hwf]. apply andb_true_iff in Hwf as [Hwi HwB].
  pose proof (ty_ok_struct_prefix _ _ _ _ Hok) as HokA.
  destruct (ty_ok_field _ _ (length tsA) ti Hok (nth_error_mid _ _ _ _ eq_refl)) as (li & Hoki & Hli).
  pose proof (zlen_nonneg (encs tsA vsA)) as HnA. pose proof (zlen_nonneg (encs tsB vsB)) as HnB.
  pose proof (zlen_nonneg (fst (hctx ti vi r 0))) as HnP. pose proof (zlen_nonneg (snd (hctx ti vi r 0))) as HnQ.
  destruct (IH ti li vi q (pre ++ encs tsA vsA) (encs tsB vsB ++ post) Hpli Hoki Hwi Hr) as (q' & Hnq & HLq').
  { rewrite zlen_app. exact HLq. }
  { lia. }
  unfold addr_of in Hnq. rewrite zlen_app in Hnq, HLq'. rewrite <- ?app_assoc in Hnq.
  exists q'. split; [|split].
  - rewrite notify_fields_split3 by exact HlAp. rewrite <- ?app_assoc.
    rewrite (notify_fields_past tsA vsA psA pre _ _ c HplA HokA HwA HLA) by lia. cbn [obind].
    rewrite Hnq. cbn [obind].
    rewrite (notify_fields_behind tsB vsB psB _ _ c _ HplB HwB HLB); [reflexivity|].
    intros _. pose proof (inside_len _ _ _ Hr) as Hlen. lia.
  - exact HLq'.
  - rewrite (hctx_plug_len _ _ _ _ _ xv' Hr).
    replace (zlen pre + zlen (encs tsA vsA) + (zlen (encode ti vi) + (zlen (encode X xv') - zlen (encode X xv))))
      with (zlen pre + zlen (encs tsA vsA) + zlen (encode ti vi) + c) by lia.
    apply Lay_fields_shift; assumption.
Qed.

Lemma nia_SF i r : nia_stmt r -> nia_stmt (SF i :: r).
Proof.
  intros IH t last v p pre post Hpl Hok Hwf Hr HL Hlt.
  apply resolve_SF_inv in Hr as (ts & vs & ti & vi & -> & -> & Hti & Hvi & Hr).
  destruct p as [| | | |ps|]; try (cbn [LayP] in HL; contradiction).
  cbn [LayP] in HL. destruct HL as (ti0 & vi0 & q & Hti0 & Hvi0 & Hq & HLA & HLq & HLB).
  rewrite Hti in Hti0. injection Hti0 as <-. rewrite Hvi in Hvi0. injection Hvi0 as <-.
  pose proof (nth_error_split3 _ _ _ Hti) as Ets. pose proof (nth_error_split3 _ _ _ Hvi) as Evs.
  pose proof (nth_error_split3 _ _ _ Hq) as Eps.
  pose proof (firstn_len_eq _ _ _ _ _ Hti Hvi) as HlA. pose proof (firstn_len_eq _ _ _ _ _ Hti Hq) as HlAp.
  pose proof (nth_error_firstn_len _ _ _ Hq) as HlenP. pose proof (nth_error_firstn_len _ _ _ Hvi) as HlenV.
  destruct (nia_SF_core (firstn i ts) ti (skipn (S i) ts) (firstn i vs) vi (skipn (S i) vs)
              (firstn i ps) q (skipn (S i) ps) last r pre post IH HlA HlAp) as (q' & Hn & HLq' & HLB').
  - rewrite <- Ets. exact Hpl.
  - rewrite <- Ets. exact Hok.
  - rewrite <- Ets, <- Evs. exact Hwf.
  - exact Hr.
  - exact HLA.
  - exact HLq.
  - exact HLB.
  - rewrite (encs_split _ _ _ _ _ Hti Hvi), !zlen_app in Hlt. lia.
  - exists (PStruct (firstn i ps ++ q' :: map (shift c) (skipn (S i) ps))). split.
    + rewrite notify_struct. unfold addr_of. rewrite !(hctx_SF _ _ _ _ _ _ Hti Hvi). cbn [fst snd].
      rewrite zlen_app, Z.add_assoc.
      replace (notify_fields ts ps) with
        (notify_fields (firstn i ts ++ ti :: skipn (S i) ts) (firstn i ps ++ q :: skipn (S i) ps))
        by (rewrite <- Ets, <- Eps; reflexivity).
      rewrite Hn. reflexivity.
    + rewrite (plug_SF _ _ _ _ _ _ _ Hti Hvi). cbn [LayP].
      exists ti, (plug ti vi r xv'), q'.
      split; [exact Hti|]. split; [exact (nth_error_set_nth _ _ _ _ Hvi)|].
      split; [exact (nth_error_mid _ _ _ _ HlenP)|].
      rewrite (set_nth_split _ _ _ _ Hvi).
      rewrite (firstn_mid _ _ _ _ HlenV), (firstn_mid _ _ _ _ HlenP), (skipn_mid _ _ _ _ HlenV), (skipn_mid _ _ _ _ HlenP).
      split; [exact HLA|]. split; [exact HLq'|exact HLB'].
Qed.

(* the element step: the "inside me" branch of the list the path goes through *)
Lemma nia_SE i r : nia_stmt r -> nia_stmt (SE i :: r).
Proof.
  intros IH t last v p pre post Hpl Hok Hwf Hr0 HL Hlt.
  pose proof Hr0 as Hr.
  apply resolve_SE_inv in Hr as (it & k & items & kv & -> & -> & Hkv & Hr).
  destruct p as [| | |a n inner pmb rs re| |]; try (cbn [LayP] in HL; contradiction).
  cbn [LayP] in HL. destruct HL as (-> & -> & -> & -> & kv0 & q & Hkv0 & -> & HLq).
  rewrite Hkv in Hkv0. injection Hkv0 as <-.
  cbn [plain] in Hpl. cbn [ty_ok] in Hok.
  pose proof (ulist_facts _ _ _ Hwf) as F.
  pose proof (wf_nth _ _ _ _ (uf_wfs _ _ _ F) Hkv) as Hwkv.
  pose proof (usizes_pos _ _ _ (resolve_tpos_any _ _ _ _ _ Hpl Hok Hr Hpos) Hwf) as Hposs.
  pose proof (nth_error_usizes it _ _ _ Hkv) as Hsz.
  pose proof Hpos as HXpos. pose proof (inside_len _ _ _ Hr) as Hlen.
  destruct (elem_inside _ _ _ (zlen pre) _ _ F Hkv) as [He1 He2].
  pose proof (zlen_encode_ulist _ _ _ F) as Htot.
  pose proof (uf_n _ _ _ F) as Hn. pose proof (uf_usz _ _ _ F) as Hu.
  assert (Hprod : 0 <= zlen items * (4 + Z.of_nat k)) by (apply Z.mul_nonneg_nonneg; lia).
  assert (Hlk : length (usizes it items) = length (map fst items)) by (unfold usizes, uenc; now rewrite !map_length).
  assert (Hzk : zlen (map fst items) = zlen items) by (unfold zlen; now rewrite map_length).
  pose proof (zlen_uhdr_eq k _ _ Hlk (uf_keys _ _ _ F)) as HzH. rewrite Hzk in HzH.
  assert (HzF : zlen (concat (firstn i (uenc it items))) = zsum (firstn i (usizes it items))).
  { rewrite zlen_concat_sum. unfold usizes. now rewrite firstn_map. }
  assert (Hpre' : zlen (pre ++ uhdr (usizes it items) (map fst items) ++ concat (firstn i (uenc it items)))
                  = elem_addr it k items (zlen pre) i).
  { rewrite !zlen_app, HzH, HzF. unfold elem_addr. lia. }
  assert (Hn0 : zlen items <> 0).
  { assert (i < length items)%nat by (apply nth_error_Some; congruence). unfold zlen. lia. }
  pose proof (zlen_nonneg (fst (hctx it (snd kv) r 0))) as HnP. pose proof (zlen_nonneg (snd (hctx it (snd kv) r 0))) as HnQ.
  (* the element *)
  destruct (IH it false (snd kv) q (pre ++ uhdr (usizes it items) (map fst items) ++ concat (firstn i (uenc it items)))
              (concat (skipn (S i) (uenc it items)) ++ post) Hpl Hok Hwkv Hr) as (q' & Hnq & HLq').
  { rewrite Hpre'. exact HLq. }
  { lia. }
  unfold addr_of in Hnq. rewrite Hpre' in Hnq, HLq'. rewrite <- ?app_assoc in Hnq.
  (* the header *)
  destruct (ulist_hdr_update k pre (usizes it items) (map fst items) i (zlen (encode it (snd kv)))
              (zlen (fst (hctx it (snd kv) r 0))) c
              (concat (firstn i (uenc it items)) ++ fst (hctx it (snd kv) r c) ++ h ++ snd (hctx it (snd kv) r 0)
               ++ concat (skipn (S i) (uenc it items)) ++ post)
              Hlk (uf_keys _ _ _ F) Hposs Hsz) as (m2 & Hwr & Hrd & Hadj); try lia.
  rewrite Hzk in Hrd, Hadj.
  exists (PUList (zlen pre) (zlen items) (Some q') pmb (zlen pre) (zlen pre + zlen (encode (TUList it k) (VUList items)) + c)).
  split.
  - unfold addr_of. rewrite !(hctx_SE _ _ _ _ _ _ Hkv). cbn [fst snd]. rewrite bump_zero. rewrite <- ?app_assoc.
    assert (Hsrc : zlen pre + zlen (uhdr (usizes it items) (map fst items) ++ concat (firstn i (uenc it items))
                                    ++ fst (hctx it (snd kv) r 0))
                   = elem_addr it k items (zlen pre) i + zlen (fst (hctx it (snd kv) r 0))).
    { rewrite <- Hpre', !zlen_app. lia. }
    rewrite Hsrc.
    eapply (notify_ulist_inside it k _ _ q pmb _ _ _ c _ (zsum (usizes it items)) q' _ m2 (offsets_from 0 (usizes it items)) _).
    + lia.
    + apply rd32_uhdr. exact Hu.
    + lia.
    + exact Hnq.
    + exact Hwr.
    + exact Hrd.
    + exact Hn0.
    + replace (elem_addr it k items (zlen pre) i + zlen (fst (hctx it (snd kv) r 0))
               - (zlen pre + 8 + zlen items * (4 + Z.of_nat k) + 4))
        with (zsum (firstn i (usizes it items)) + zlen (fst (hctx it (snd kv) r 0))) by (unfold elem_addr; lia).
      exact Hadj.
  - pose proof (hctx_plug_len _ _ _ _ _ xv' Hr0) as Hpl'.
    rewrite (plug_SE _ _ _ _ _ _ _ Hkv) in *. cbn [LayP].
    assert (Hl' : zlen (set_nth i (fst kv, plug it (snd kv) r xv') items) = zlen items)
      by (unfold zlen; now rewrite set_nth_length).
    split; [reflexivity|]. split; [now rewrite Hl'|]. split; [reflexivity|]. split; [lia|].
    exists (fst kv, plug it (snd kv) r xv'), q'.
    split; [exact (nth_error_set_nth _ _ _ _ Hkv)|]. split; [reflexivity|]. cbn [snd].
    replace (elem_addr it k (set_nth i (fst kv, plug it (snd kv) r xv') items) (zlen pre) i)
      with (elem_addr it k items (zlen pre) i); [exact HLq'|].
    unfold elem_addr. rewrite Hl', (usizes_set_nth _ _ _ _ _ Hkv), firstn_bump. reflexivity.
Qed.

(* the variant step *)
Lemma nia_SV r : nia_stmt r -> nia_stmt (SV :: r).
Proof.
  intros IH t last v p pre post Hpl Hok Hwf Hr0 HL Hlt.
  pose proof Hr0 as Hr.
  apply resolve_SV_inv in Hr as (rw & vars & d0 & pv & vt & -> & -> & Hf & Hr).
  destruct p as [| | | | |st d' q]; try (cbn [LayP] in HL; contradiction).
  cbn [LayP] in HL. destruct HL as (-> & -> & vt' & Hf' & HLq). rewrite Hf in Hf'. injection Hf' as <-.
  destruct (wf_enum_inv _ _ _ _ Hwf) as (_ & vt' & Hf' & Hwi). rewrite Hf in Hf'. injection Hf' as <-.
  pose proof (plain_enum_find _ _ _ _ Hpl Hf) as Hplv.
  pose proof (ty_ok_enum_variant _ _ _ _ _ Hok Hf) as Hokv.
  rewrite (zlen_encode_enum _ _ _ _ _ Hf) in Hlt.
  pose proof (zlen_nonneg (fst (hctx vt pv r 0))) as HnP.
  destruct (IH vt last pv q (pre ++ le_bytes rw d0) post Hplv Hokv Hwi Hr) as (q' & Hnq & HLq').
  { rewrite zlen_app, zlen_le_bytes. exact HLq. }
  { lia. }
  unfold addr_of in Hnq. rewrite zlen_app, zlen_le_bytes in Hnq, HLq'. rewrite <- ?app_assoc in Hnq.
  exists (PEnum (zlen pre) d0 q'). split.
  - unfold addr_of. rewrite !(hctx_SV _ _ _ _ _ _ Hf). cbn [fst snd]. rewrite zlen_app, zlen_le_bytes, Z.add_assoc.
    rewrite <- ?app_assoc. rewrite notify_enum, Hf, Hnq. cbn [obind].
    destruct (_ <? zlen pre) eqn:E; [zb; lia|reflexivity].
  - rewrite (plug_SV _ _ _ _ _ _ _ Hf). cbn [LayP]. split; [reflexivity|]. split; [reflexivity|].
    exists vt. split; [exact Hf|exact HLq'].
Qed.

End InsideAny.

Theorem notify_inside_any : forall pi t last v p X xv xv' c h pre post,
  plain t = true -> ty_ok last t = true -> wf t v = true ->
  resolve t v pi = Some (X, xv) -> 0 < zlen (encode X xv) ->
  (forall a node m, Lay X xv a node -> exists node', notify X node a c m = Ok (node', m)) ->
  LayP Lay pi t v (zlen pre) p ->
  zlen h = zlen (encode X xv) + c ->
  zlen (encode X xv') = zlen (encode X xv) + c ->
  0 <= zlen (encode X xv) + c ->
  zlen (encode t v) + c < U32_LIMIT ->
  exists p',
    notify t p (addr_of t v pi (zlen pre)) c (pre ++ fst (hctx t v pi 0) ++ h ++ snd (hctx t v pi 0) ++ post)
    = Ok (p', pre ++ fst (hctx t v pi c) ++ h ++ snd (hctx t v pi 0) ++ post)
    /\ LayP (fun _ _ _ _ => True) pi t (plug t v pi xv') (zlen pre) p'.
Proof.
  intros pi t last v p X xv xv' c h pre post Hpl Hok Hwf Hr Hpos Hown HL Hh Hx' Hnn Hlt.
  revert t last v p pre post Hpl Hok Hwf Hr HL Hlt.
  change (nia_stmt X xv xv' c h pi).
  induction pi as [|[i|i|] r IH].
  - apply nia_nil; assumption.
  - apply nia_SF; assumption.
  - apply nia_SE; assumption.
  - apply nia_SV; assumption.
Qed.

(* the instance for sub-values of enum-free values: the hypothesis about the own node always holds *)
Corollary notify_inside_plain : forall pi t last v p X xv xv' c h pre post,
  plain t = true -> ty_ok last t = true -> wf t v = true ->
  resolve t v pi = Some (X, xv) -> 0 < zlen (encode X xv) ->
  LayP Lay pi t v (zlen pre) p ->
  zlen h = zlen (encode X xv) + c ->
  zlen (encode X xv') = zlen (encode X xv) + c ->
  0 <= zlen (encode X xv) + c ->
  zlen (encode t v) + c < U32_LIMIT ->
  exists p',
    notify t p (addr_of t v pi (zlen pre)) c (pre ++ fst (hctx t v pi 0) ++ h ++ snd (hctx t v pi 0) ++ post)
    = Ok (p', pre ++ fst (hctx t v pi c) ++ h ++ snd (hctx t v pi 0) ++ post)
    /\ LayP (fun _ _ _ _ => True) pi t (plug t v pi xv') (zlen pre) p'.
Proof.
  intros pi t last v p X xv xv' c h pre post Hpl Hok Hwf Hr Hpos HL Hh Hx' Hnn Hlt.
  apply (notify_inside_any pi t last v p X xv xv' c h pre post Hpl Hok Hwf Hr Hpos); try assumption.
  intros a node m HLn.
  exact (notify_at_own_start X xv a node c m (resolve_plain _ _ _ _ _ Hpl Hr) (resolve_wf _ _ _ _ _ Hwf Hr) HLn).
Qed.

Print Assumptions notify_at_own_start.
Print Assumptions notify_inside_any.
Print Assumptions notify_inside_plain.
