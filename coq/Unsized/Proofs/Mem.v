(* Algebra of the machine's memory primitives on concatenations. *)
From SF Require Import Base.Prelude Gen.Generated Unsized.Types Unsized.Parse Unsized.Machine.
From SF Require Import Unsized.Proofs.EncodeParse.

Arguments Z.add : simpl never.
Arguments Z.sub : simpl never.
Arguments Z.mul : simpl never.
Arguments Z.of_nat : simpl never.

Lemma zlen_app3 {A} (a b c : list A) : zlen (a ++ b ++ c) = zlen a + zlen b + zlen c.
Proof. rewrite !zlen_app. lia. Qed.

Lemma ztake_all {A} (l : list A) : ztake (zlen l) l = l.
Proof. unfold ztake, zlen. rewrite Nat2Z.id. apply firstn_all. Qed.

Lemma zdrop_all {A} (l : list A) : zdrop (zlen l) l = [].
Proof. unfold zdrop, zlen. rewrite Nat2Z.id. apply skipn_all. Qed.

Lemma rd_mid (a b c : list Z) : rd (a ++ b ++ c) (zlen a) (zlen b) = Ok b.
Proof.
  unfold rd. pose proof (zlen_nonneg a). pose proof (zlen_nonneg b). pose proof (zlen_nonneg c).
  rewrite zlen_app3.
  destruct (zlen a <? 0) eqn:E1; [zb; lia|]. destruct (zlen b <? 0) eqn:E2; [zb; lia|].
  destruct (zlen a + zlen b + zlen c <? zlen a + zlen b) eqn:E3; [zb; lia|]. cbn [orb].
  now rewrite zdrop_app_exact, ztake_app_exact.
Qed.

Lemma rd_mid' (a b c : list Z) x n : x = zlen a -> n = zlen b -> rd (a ++ b ++ c) x n = Ok b.
Proof. intros -> ->. apply rd_mid. Qed.

Lemma wr_mid (a b c b' : list Z) : zlen b' = zlen b -> wr (a ++ b ++ c) (zlen a) b' = Ok (a ++ b' ++ c).
Proof.
  intros Hl. unfold wr. pose proof (zlen_nonneg a). pose proof (zlen_nonneg b). pose proof (zlen_nonneg c).
  rewrite zlen_app3, Hl.
  destruct (zlen a <? 0) eqn:E1; [zb; lia|].
  destruct (zlen a + zlen b + zlen c <? zlen a + zlen b) eqn:E3; [zb; lia|]. cbn [orb].
  rewrite ztake_app_exact. f_equal. f_equal. f_equal.
  replace (a ++ b ++ c) with ((a ++ b) ++ c) by now rewrite app_assoc.
  replace (zlen a + zlen b) with (zlen (a ++ b)) by (rewrite zlen_app; lia).
  apply zdrop_app_exact.
Qed.

Lemma wr_mid' (a b c b' : list Z) x : x = zlen a -> zlen b' = zlen b -> wr (a ++ b ++ c) x b' = Ok (a ++ b' ++ c).
Proof. intros ->. apply wr_mid. Qed.

Lemma wr_len (m : list Z) a bs m' : wr m a bs = Ok m' -> zlen m' = zlen m.
Proof.
  unfold wr. destruct (_ || _) eqn:E; [discriminate|]. intros H; injection H as <-. zb.
  pose proof (zlen_nonneg bs).
  rewrite !zlen_app, zlen_ztake, zlen_zdrop by lia. lia.
Qed.

Lemma mmove_len (m : list Z) d s n m' : mmove m d s n = Ok m' -> zlen m' = zlen m.
Proof.
  unfold mmove. destruct (n =? 0); [intros H; now injection H as <-|].
  destruct (rd m s n) as [bs| | |]; cbn [obind]; try discriminate. apply wr_len.
Qed.

(* the allocation never changes size: no operation of the machine can touch a byte outside [0, cap) *)
Lemma realloc_cap s n s' : realloc s n = Ok s' -> m_cap s' = m_cap s.
Proof.
  unfold realloc, m_cap. destruct (_ && _); [discriminate|]. destruct (_ <? n); [discriminate|].
  destruct (m_len s <? n).
  - destruct (wr _ _ _) as [m'| | |] eqn:E; cbn [obind]; try discriminate.
    intros H; injection H as <-. cbn [m_mem]. eapply wr_len; eauto.
  - intros H; injection H as <-. reflexivity.
Qed.

(* moving a block towards higher addresses by k (insertion): a ++ (t ++ z) ++ c  ->  a ++ g ++ t ++ c
   where g is whatever the first k bytes of t ++ z were *)
Lemma mmove_up (a t z c : list Z) k :
  k = zlen z ->
  mmove (a ++ (t ++ z) ++ c) (zlen a + k) (zlen a) (zlen t) = Ok (a ++ ztake k (t ++ z) ++ t ++ c).
Proof.
  intros ->. unfold mmove. destruct (zlen t =? 0) eqn:E0.
  - zb. assert (t = []) as -> by (destruct t; [reflexivity|rewrite zlen_cons in E0; pose proof (zlen_nonneg t); lia]).
    cbn [app]. rewrite ztake_all. reflexivity.
  - rewrite <- app_assoc. rewrite (rd_mid a t (z ++ c)). cbn [obind].
    pose proof (zlen_nonneg t). pose proof (zlen_nonneg z).
    replace (a ++ t ++ z ++ c) with ((a ++ ztake (zlen z) (t ++ z)) ++ zdrop (zlen z) (t ++ z) ++ c).
    2:{ rewrite <- app_assoc. f_equal. rewrite app_assoc, (ztake_zdrop (zlen z) (t ++ z)), <- app_assoc. reflexivity. }
    rewrite wr_mid'.
    + now rewrite <- app_assoc.
    + rewrite zlen_app, zlen_ztake by (rewrite zlen_app; lia). reflexivity.
    + rewrite zlen_zdrop by (rewrite zlen_app; lia). rewrite zlen_app. lia.
Qed.

(* moving a block towards lower addresses (removal): a ++ r ++ t ++ c -> a ++ t ++ h ++ c, |h| = |r| *)
Lemma mmove_down (a r t c : list Z) :
  mmove (a ++ r ++ t ++ c) (zlen a) (zlen a + zlen r) (zlen t) = Ok (a ++ t ++ zdrop (zlen t) (r ++ t) ++ c).
Proof.
  unfold mmove. destruct (zlen t =? 0) eqn:E0.
  - zb. assert (t = []) as -> by (destruct t; [reflexivity|rewrite zlen_cons in E0; pose proof (zlen_nonneg t); lia]).
    cbn [app]. change (zlen (@nil Z)) with 0. rewrite app_nil_r. reflexivity.
  - replace (a ++ r ++ t ++ c) with ((a ++ r) ++ t ++ c) at 1 by now rewrite <- app_assoc.
    replace (zlen a + zlen r) with (zlen (a ++ r)) by (rewrite zlen_app; lia).
    rewrite rd_mid. cbn [obind].
    pose proof (zlen_nonneg t). pose proof (zlen_nonneg r).
    replace (a ++ r ++ t ++ c) with (a ++ ztake (zlen t) (r ++ t) ++ zdrop (zlen t) (r ++ t) ++ c).
    2:{ f_equal. rewrite app_assoc, (ztake_zdrop (zlen t) (r ++ t)), <- app_assoc. reflexivity. }
    rewrite wr_mid; [reflexivity|]. rewrite zlen_ztake by (rewrite zlen_app; lia). reflexivity.
Qed.
