(* C05 for sized values: every initializer writes exactly INIT_BYTES = size_of::<T>() bytes, they are the bytes of the
   value the initializer denotes (the type's own default for DefaultInit - NOT a zero fill), nothing behind them is
   touched, and they parse back to that value. *)
From SF Require Import Base.Prelude Gen.Generated Unsized.SizedInit.

Lemma zlist_eqb_refl l : zlist_eqb l l = true.
Proof. induction l as [|x l IH]; cbn [zlist_eqb]; [reflexivity|]. now rewrite Z.eqb_refl, IH. Qed.

Lemma zlist_eqb_eq a : forall b, zlist_eqb a b = true -> a = b.
Proof.
  induction a as [|x a IH]; intros [|y b] H; cbn [zlist_eqb] in H; try discriminate; [reflexivity|].
  apply andb_true_iff in H as [H1 H2]. apply Z.eqb_eq in H1. subst y. f_equal. now apply IH.
Qed.

(* the value an initializer denotes is a value of the type *)
Definition arg_ok (t : sized_ty) (arg : option (list Z)) : Prop :=
  match arg with None => True | Some v => length v = s_size t /\ s_valid t v = true end.

Lemma denoted_len t arg : sized_ok t -> arg_ok t arg -> length (denoted t arg) = s_size t.
Proof. intros (Hl & _ & _) Ha. destruct arg as [v|]; cbn [denoted arg_ok] in *; tauto. Qed.

Lemma denoted_valid t arg : sized_ok t -> arg_ok t arg -> s_valid t (denoted t arg) = true.
Proof. intros (_ & _ & Hv) Ha. destruct arg as [v|]; cbn [denoted arg_ok] in *; tauto. Qed.

Theorem sized_init_exact t arg dst :
  sized_ok t -> arg_ok t arg -> (s_size t <= length dst)%nat ->
  exists after rest,
    sized_init t arg dst = Some (after, rest) /\
    (length dst - length rest = s_size t)%nat /\                 (* consumed exactly INIT_BYTES *)
    firstn (s_size t) after = denoted t arg /\                   (* the denoted value's bytes *)
    skipn (s_size t) after = skipn (s_size t) dst /\             (* nothing behind them is touched *)
    length after = length dst /\
    sized_parse t (firstn (s_size t) after) = Some (denoted t arg).
Proof.
  intros Hok Ha Hlen. pose proof (denoted_len t arg Hok Ha) as Hdl. pose proof (denoted_valid t arg Hok Ha) as Hdv.
  unfold sized_init. destruct (length dst <? s_size t)%nat eqn:E; [apply Nat.ltb_lt in E; lia|].
  eexists _, _. split; [reflexivity|].
  assert (firstn (s_size t) (denoted t arg ++ skipn (s_size t) dst) = denoted t arg) as Hf.
  { rewrite <- Hdl at 1. now rewrite firstn_app, Nat.sub_diag, firstn_O, app_nil_r, firstn_all. }
  assert (skipn (s_size t) (denoted t arg ++ skipn (s_size t) dst) = skipn (s_size t) dst) as Hs.
  { rewrite <- Hdl at 1. now rewrite skipn_app, Nat.sub_diag, skipn_all, skipn_O. }
  split; [rewrite skipn_length; lia|]. split; [exact Hf|]. split; [exact Hs|].
  split; [rewrite app_length, skipn_length; lia|].
  rewrite Hf. unfold sized_parse. now rewrite Hdl, Nat.eqb_refl, Hdv.
Qed.

(* DefaultInit is not a zero fill: whenever the type's default is not the all-zero pattern, neither are the bytes written *)
Corollary sized_default_init_writes_the_default t dst after rest :
  sized_ok t -> (s_size t <= length dst)%nat -> sized_init t None dst = Some (after, rest) ->
  firstn (s_size t) after = s_default t /\
  (s_default t <> repeat 0 (s_size t) -> firstn (s_size t) after <> repeat 0 (s_size t)).
Proof.
  intros Hok Hlen H. destruct (sized_init_exact t None dst Hok I Hlen) as (a & r & H' & _ & Hf & _).
  rewrite H in H'. injection H' as <- <-. cbn [denoted] in Hf. split; [exact Hf|]. now rewrite Hf.
Qed.

(* a destination shorter than INIT_BYTES is refused *)
Lemma sized_init_too_short t arg dst : (length dst < s_size t)%nat -> sized_init t arg dst = None.
Proof. intros H. unfold sized_init. apply Nat.ltb_lt in H. now rewrite H. Qed.

Example sized_nonvacuous :
  let mode := mkSized 1 (valid_of 1 [1; 2]) [1] in            (* #[repr(u8)] enum Mode { Active = 1, Paused = 2 }, default Active *)
  sized_ok mode /\ sized_init mode None [170; 170; 170] = Some ([1; 170; 170], [170; 170]) /\
  sized_parse mode [0] = None /\ run_c05s [1; 2; 1; 2; 1; 0; 170; 2; 1] = [1; 1; 1; 1; 1].
Proof. vm_compute. repeat split; reflexivity. Qed.

Print Assumptions sized_init_exact.
Print Assumptions sized_default_init_writes_the_default.
