(* Operating through a focused layout (Path.LayP): the node a path ends in is found by get_at at the address
   addr_of, can be replaced by set_at, a focused layout whose end node is a layout is a layout, the focus extends
   by a struct field for free and by an element step when the list of unsized elements is entered (get_mut /
   get_exclusive: ulist_range reads the element's range from the offset table, ulist_enter records the canonical
   pointer tree of the element). *)
From SF Require Import Base.Prelude Gen.Generated Unsized.Types Unsized.Parse Unsized.Machine Unsized.Ops.
From SF Require Import Unsized.Proofs.EncodeParse Unsized.Proofs.Mem Unsized.Proofs.Notify Unsized.Proofs.Flat Unsized.Proofs.Layout
  Unsized.Proofs.Table Unsized.Proofs.Path Unsized.Proofs.Context Unsized.Proofs.Focus Unsized.Proofs.Pos.
From SF Require Import Unsized.Proofs.EnumFacts.

Arguments Z.add : simpl never.
Arguments Z.sub : simpl never.
Arguments Z.mul : simpl never.
Arguments Z.of_nat : simpl never.
Arguments Z.pow : simpl never.
Arguments Z.modulo : simpl never.

(* ---------------------------------------------------------------------------------------------- *)
(* list helpers                                                                                    *)
Lemma firstn_set_nth {A} (l : list A) : forall i x, firstn i (set_nth i x l) = firstn i l.
Proof.
  induction l as [|a l IH]; intros [|i] x; cbn [set_nth firstn]; try reflexivity. f_equal. apply IH.
Qed.

Lemma skipn_set_nth {A} (l : list A) : forall i x, skipn (S i) (set_nth i x l) = skipn (S i) l.
Proof.
  induction l as [|a l IH]; intros [|i] x; cbn [set_nth skipn]; try reflexivity. apply (IH i x).
Qed.

Lemma nth_error_offsets_from sizes : forall b0 i, (i < length sizes)%nat ->
  nth_error (offsets_from b0 sizes) i = Some (b0 + zsum (firstn i sizes)).
Proof.
  induction sizes as [|s r IH]; intros b0 [|i] H; cbn [length] in H; try lia.
  - cbn [offsets_from nth_error firstn zsum]. f_equal. lia.
  - cbn [offsets_from nth_error firstn zsum]. rewrite IH by lia. f_equal. lia.
Qed.

Lemma zsum_firstn_usizes it items i : zlen (concat (firstn i (uenc it items))) = zsum (firstn i (usizes it items)).
Proof. rewrite zlen_concat_sum. unfold usizes. now rewrite firstn_map. Qed.

Lemma zsum_skipn_usizes it items i : zlen (concat (skipn i (uenc it items))) = zsum (skipn i (usizes it items)).
Proof. rewrite zlen_concat_sum. unfold usizes. now rewrite skipn_map. Qed.

Lemma zsum_firstn_skipn (l : list Z) i : zsum l = zsum (firstn i l) + zsum (skipn i l).
Proof. rewrite <- zsum_app, firstn_skipn. reflexivity. Qed.

(* the header of a list of unsized elements: 12 + n * (4 + k) bytes *)
Lemma zlen_uhdr_usizes it k items : ufacts it k items ->
  zlen (uhdr (usizes it items) (map fst items)) = 12 + zlen items * (4 + Z.of_nat k).
Proof.
  intros F. pose proof (zlen_encode_ulist _ _ _ F) as H.
  rewrite encode_ulist_uhdr, zlen_app, (uf_data _ _ _ F) in H. lia.
Qed.

(* ---------------------------------------------------------------------------------------------- *)
(* 1. addresses                                                                                    *)
Lemma addr_of_nil t v b : addr_of t v [] b = b.
Proof. unfold addr_of. cbn [hctx fst]. change (zlen (@nil Z)) with 0. lia. Qed.

Lemma addr_of_SF ts vs i ti vi r b : nth_error ts i = Some ti -> nth_error vs i = Some vi ->
  addr_of (TStruct ts) (VStruct vs) (SF i :: r) b = addr_of ti vi r (b + zlen (encs (firstn i ts) (firstn i vs))).
Proof.
  intros Hti Hvi. unfold addr_of. rewrite (hctx_SF _ _ _ _ _ _ Hti Hvi). cbn [fst]. rewrite zlen_app. lia.
Qed.

Lemma addr_of_SE it k items i kv r b : wf (TUList it k) (VUList items) = true -> nth_error items i = Some kv ->
  addr_of (TUList it k) (VUList items) (SE i :: r) b = addr_of it (snd kv) r (elem_addr it k items b i).
Proof.
  intros Hwf Hkv. pose proof (ulist_facts _ _ _ Hwf) as F.
  unfold addr_of. rewrite (hctx_SE _ _ _ _ _ _ Hkv). cbn [fst]. rewrite bump_zero, !zlen_app.
  rewrite (zlen_uhdr_usizes _ _ _ F), zsum_firstn_usizes. unfold elem_addr. lia.
Qed.

Lemma addr_of_SV rw vars d p vt r b : find_variant d vars = Some vt ->
  addr_of (TEnum rw vars) (VEnum d p) (SV :: r) b = addr_of vt p r (b + Z.of_nat rw).
Proof.
  intros Hf. unfold addr_of. rewrite (hctx_SV _ _ _ _ _ _ Hf). cbn [fst]. rewrite zlen_app, zlen_le_bytes. lia.
Qed.

(* ---------------------------------------------------------------------------------------------- *)
(* struct fields around field i                                                                    *)
Lemma Lay_fields_length ts : forall vs ps b, Lay_fields ts vs ps b -> length ts = length vs /\ length ts = length ps.
Proof.
  induction ts as [|t ts IH]; intros [|v vs] [|q ps] b H; cbn [Lay_fields] in H; try contradiction; [split; reflexivity|].
  destruct H as [_ H]. destruct (IH _ _ _ H) as [H1 H2]. cbn [length]. split; congruence.
Qed.

Lemma Lay_fields_base ts vs ps b b' : b = b' -> Lay_fields ts vs ps b -> Lay_fields ts vs ps b'.
Proof. intros ->. exact (fun H => H). Qed.

Lemma Lay_base t v p b b' : b = b' -> Lay t v b p -> Lay t v b' p.
Proof. intros ->. exact (fun H => H). Qed.

Lemma Lay_fields_split ts : forall vs ps b i ti vi qi,
  nth_error ts i = Some ti -> nth_error vs i = Some vi -> nth_error ps i = Some qi ->
  (Lay_fields ts vs ps b <->
   Lay_fields (firstn i ts) (firstn i vs) (firstn i ps) b /\
   Lay ti vi (b + zlen (encs (firstn i ts) (firstn i vs))) qi /\
   Lay_fields (skipn (S i) ts) (skipn (S i) vs) (skipn (S i) ps)
              (b + zlen (encs (firstn i ts) (firstn i vs)) + zlen (encode ti vi))).
Proof.
  induction ts as [|t ts IH]; intros [|v vs] [|q ps] b [|i] ti vi qi Ht Hv Hq; cbn [nth_error] in Ht, Hv, Hq; try discriminate.
  - injection Ht as ->. injection Hv as ->. injection Hq as ->.
    cbn [firstn skipn Lay_fields]. change (encs [] []) with (@nil Z). change (zlen (@nil Z)) with 0.
    replace (b + 0) with b by lia. tauto.
  - cbn [firstn skipn Lay_fields]. rewrite encs_cons, zlen_app.
    rewrite (IH vs ps (b + zlen (encode t v)) i ti vi qi Ht Hv Hq).
    replace (b + (zlen (encode t v) + zlen (encs (firstn i ts) (firstn i vs))))
      with (b + zlen (encode t v) + zlen (encs (firstn i ts) (firstn i vs))) by lia.
    tauto.
Qed.

Lemma Lay_fields_nth ts vs ps b i ti : Lay_fields ts vs ps b -> nth_error ts i = Some ti ->
  exists vi qi, nth_error vs i = Some vi /\ nth_error ps i = Some qi.
Proof.
  intros HL Ht. destruct (Lay_fields_length _ _ _ _ HL) as [H1 H2].
  assert (i < length ts)%nat as Hi by (apply nth_error_Some; congruence).
  destruct (nth_error vs i) as [vi|] eqn:Ev; [|apply nth_error_None in Ev; lia].
  destruct (nth_error ps i) as [qi|] eqn:Eq; [|apply nth_error_None in Eq; lia].
  exists vi, qi. split; reflexivity.
Qed.

(* ---------------------------------------------------------------------------------------------- *)
(* 2. reading / replacing the node at the end of the path                                          *)
Lemma LayP_get_at (E : ty -> val -> Z -> ptr -> Prop) pi : forall t v b p X xv, wf t v = true -> resolve t v pi = Some (X, xv) -> LayP E pi t v b p ->
  exists node, get_at t p (mpath pi) = Some (X, node) /\ E X xv (addr_of t v pi b) node.
Proof.
  induction pi as [|[i|i|] r IH]; intros t v b p X xv Hwf Hr HL.
  - cbn [resolve] in Hr. injection Hr as <- <-. exists p. rewrite addr_of_nil. split; [reflexivity|exact HL].
  - apply resolve_SF_inv in Hr as (ts & vs & ti & vi & -> & -> & Hti & Hvi & Hr).
    destruct p as [| | | |ps|]; try (cbn [LayP] in HL; contradiction).
    cbn [LayP] in HL. destruct HL as (ti' & vi' & qi & Hti' & Hvi' & Hqi & _ & HLi & _).
    rewrite Hti in Hti'. injection Hti' as <-. rewrite Hvi in Hvi'. injection Hvi' as <-.
    rewrite (wf_struct_split _ _ _ _ _ Hti Hvi) in Hwf.
    apply andb_true_iff in Hwf as [_ Hwf]. apply andb_true_iff in Hwf as [Hwi _].
    destruct (IH _ _ _ _ _ _ Hwi Hr HLi) as (node & Hg & He).
    exists node. rewrite (addr_of_SF _ _ _ _ _ _ _ Hti Hvi). split; [|exact He].
    cbn [mpath map mstep_of get_at]. rewrite Hti, Hqi. exact Hg.
  - apply resolve_SE_inv in Hr as (it & k & items & kv & -> & -> & Hkv & Hr).
    destruct p as [| | |a n inner pmb rs re| |]; try (cbn [LayP] in HL; contradiction).
    cbn [LayP] in HL. destruct HL as (-> & -> & -> & -> & kv' & q & Hkv' & -> & HLi).
    rewrite Hkv in Hkv'. injection Hkv' as <-.
    pose proof (ulist_facts _ _ _ Hwf) as F.
    destruct (IH _ _ _ _ _ _ (wf_nth _ _ _ _ (uf_wfs _ _ _ F) Hkv) Hr HLi) as (node & Hg & He).
    exists node. rewrite (addr_of_SE _ _ _ _ _ _ _ Hwf Hkv). split; [|exact He].
    cbn [mpath map mstep_of get_at]. exact Hg.
  - apply resolve_SV_inv in Hr as (rw & vars & d0 & pv & vt & -> & -> & Hf & Hr).
    destruct p as [| | | | |st d' q]; try (cbn [LayP] in HL; contradiction).
    cbn [LayP] in HL. destruct HL as (-> & -> & vt' & Hf' & HLi).
    rewrite Hf in Hf'. injection Hf' as <-.
    destruct (wf_enum_inv _ _ _ _ Hwf) as (_ & vt' & Hf' & Hwi). rewrite Hf in Hf'. injection Hf' as <-.
    destruct (IH _ _ _ _ _ _ Hwi Hr HLi) as (node & Hg & He).
    exists node. rewrite (addr_of_SV _ _ _ _ _ _ _ Hf). split; [|exact He].
    cbn [mpath map mstep_of]. rewrite (get_at_PV _ _ _ _ _ _ _ Hf). exact Hg.
Qed.

Lemma LayP_set_at (E E' : ty -> val -> Z -> ptr -> Prop) pi : forall t v b p X xv node', wf t v = true -> resolve t v pi = Some (X, xv) -> LayP E pi t v b p ->
  E' X xv (addr_of t v pi b) node' -> LayP E' pi t v b (set_at t p (mpath pi) node').
Proof.
  induction pi as [|[i|i|] r IH]; intros t v b p X xv node' Hwf Hr HL HE.
  - cbn [resolve] in Hr. injection Hr as <- <-. rewrite addr_of_nil in HE. exact HE.
  - apply resolve_SF_inv in Hr as (ts & vs & ti & vi & -> & -> & Hti & Hvi & Hr).
    destruct p as [| | | |ps|]; try (cbn [LayP] in HL; contradiction).
    cbn [LayP] in HL. destruct HL as (ti' & vi' & qi & Hti' & Hvi' & Hqi & HA & HLi & HB).
    rewrite Hti in Hti'. injection Hti' as <-. rewrite Hvi in Hvi'. injection Hvi' as <-.
    rewrite (wf_struct_split _ _ _ _ _ Hti Hvi) in Hwf.
    apply andb_true_iff in Hwf as [_ Hwf]. apply andb_true_iff in Hwf as [Hwi _].
    rewrite (addr_of_SF _ _ _ _ _ _ _ Hti Hvi) in HE.
    cbn [mpath map mstep_of set_at]. rewrite Hti, Hqi. cbn [LayP].
    exists ti, vi, (set_at ti qi (map mstep_of r) node').
    rewrite firstn_set_nth, skipn_set_nth, (nth_error_set_nth _ _ _ _ Hqi).
    repeat split; auto. exact (IH _ _ _ _ _ _ _ Hwi Hr HLi HE).
  - apply resolve_SE_inv in Hr as (it & k & items & kv & -> & -> & Hkv & Hr).
    destruct p as [| | |a n inner pmb rs re| |]; try (cbn [LayP] in HL; contradiction).
    cbn [LayP] in HL. destruct HL as (-> & -> & -> & -> & kv' & q & Hkv' & -> & HLi).
    rewrite Hkv in Hkv'. injection Hkv' as <-.
    pose proof (ulist_facts _ _ _ Hwf) as F.
    rewrite (addr_of_SE _ _ _ _ _ _ _ Hwf Hkv) in HE.
    cbn [mpath map mstep_of set_at LayP]. repeat (split; [reflexivity|]).
    exists kv, (set_at it q (map mstep_of r) node'). repeat split; auto.
    exact (IH _ _ _ _ _ _ _ (wf_nth _ _ _ _ (uf_wfs _ _ _ F) Hkv) Hr HLi HE).
  - apply resolve_SV_inv in Hr as (rw & vars & d0 & pv & vt & -> & -> & Hf & Hr).
    destruct p as [| | | | |st d' q]; try (cbn [LayP] in HL; contradiction).
    cbn [LayP] in HL. destruct HL as (-> & -> & vt' & Hf' & HLi).
    rewrite Hf in Hf'. injection Hf' as <-.
    destruct (wf_enum_inv _ _ _ _ Hwf) as (_ & vt' & Hf' & Hwi). rewrite Hf in Hf'. injection Hf' as <-.
    rewrite (addr_of_SV _ _ _ _ _ _ _ Hf) in HE.
    cbn [mpath map mstep_of]. rewrite (set_at_PV _ _ _ _ _ _ _ _ Hf). cbn [LayP].
    split; [reflexivity|]. split; [reflexivity|]. exists vt. split; [exact Hf|].
    exact (IH _ _ _ _ _ _ _ Hwi Hr HLi HE).
Qed.

Lemma LayP_mono (E E' : ty -> val -> Z -> ptr -> Prop) pi : (forall tX vX a n, E tX vX a n -> E' tX vX a n) ->
  forall t v b p, LayP E pi t v b p -> LayP E' pi t v b p.
Proof.
  intros HE. induction pi as [|[i|i|] r IH]; intros t v b p HL.
  - exact (HE _ _ _ _ HL).
  - destruct t as [| | | |ts|]; try (cbn [LayP] in HL; contradiction).
    destruct v as [| | |vs|]; try (cbn [LayP] in HL; contradiction).
    destruct p as [| | | |ps|]; try (cbn [LayP] in HL; contradiction).
    cbn [LayP] in *. destruct HL as (ti & vi & qi & Hti & Hvi & Hqi & HA & HLi & HB).
    exists ti, vi, qi. repeat split; auto.
  - destruct t as [| | |it k| |]; try (cbn [LayP] in HL; contradiction).
    destruct v as [| |items| |]; try (cbn [LayP] in HL; contradiction).
    destruct p as [| | |a n inner pmb rs re| |]; try (cbn [LayP] in HL; contradiction).
    cbn [LayP] in *. destruct HL as (Ha & Hn & Hrs & Hre & kv & q & Hkv & Hi & HLi).
    repeat (split; [assumption|]). exists kv, q. repeat split; auto.
  - destruct t as [| | | | |rw vars]; try (cbn [LayP] in HL; contradiction).
    destruct v as [| | | |d0 pv]; try (cbn [LayP] in HL; contradiction).
    destruct p as [| | | | |st d' q]; try (cbn [LayP] in HL; contradiction).
    cbn [LayP] in *. destruct HL as (Hst & Hd & vt & Hf & HLi).
    repeat (split; [assumption|]). exists vt. split; auto.
Qed.

(* the same at the node the path resolves to only *)
Lemma LayP_mono_at (E E' : ty -> val -> Z -> ptr -> Prop) pi : forall t v b p X xv,
  wf t v = true -> resolve t v pi = Some (X, xv) ->
  (forall n, E X xv (addr_of t v pi b) n -> E' X xv (addr_of t v pi b) n) ->
  LayP E pi t v b p -> LayP E' pi t v b p.
Proof.
  induction pi as [|[i|i|] r IH]; intros t v b p X xv Hwf Hr HE HL.
  - cbn [resolve] in Hr. injection Hr as <- <-. rewrite addr_of_nil in HE. exact (HE _ HL).
  - apply resolve_SF_inv in Hr as (ts & vs & ti & vi & -> & -> & Hti & Hvi & Hr).
    destruct p as [| | | |ps|]; try (cbn [LayP] in HL; contradiction).
    cbn [LayP] in *. destruct HL as (ti' & vi' & qi & Hti' & Hvi' & Hqi & HA & HLi & HB).
    rewrite Hti in Hti'. injection Hti' as <-. rewrite Hvi in Hvi'. injection Hvi' as <-.
    rewrite (wf_struct_split _ _ _ _ _ Hti Hvi) in Hwf.
    apply andb_true_iff in Hwf as [_ Hwf]. apply andb_true_iff in Hwf as [Hwi _].
    rewrite (addr_of_SF _ _ _ _ _ _ _ Hti Hvi) in HE.
    exists ti, vi, qi. repeat split; auto. exact (IH _ _ _ _ _ _ Hwi Hr HE HLi).
  - apply resolve_SE_inv in Hr as (it & k & items & kv & -> & -> & Hkv & Hr).
    destruct p as [| | |a n inner pmb rs re| |]; try (cbn [LayP] in HL; contradiction).
    cbn [LayP] in *. destruct HL as (-> & -> & -> & -> & kv' & q & Hkv' & -> & HLi).
    rewrite Hkv in Hkv'. injection Hkv' as <-.
    pose proof (ulist_facts _ _ _ Hwf) as F.
    rewrite (addr_of_SE _ _ _ _ _ _ _ Hwf Hkv) in HE.
    repeat (split; [reflexivity|]). exists kv, q. repeat split; auto.
    exact (IH _ _ _ _ _ _ (wf_nth _ _ _ _ (uf_wfs _ _ _ F) Hkv) Hr HE HLi).
  - apply resolve_SV_inv in Hr as (rw & vars & d0 & pv & vt & -> & -> & Hf & Hr).
    destruct p as [| | | | |st d' q]; try (cbn [LayP] in HL; contradiction).
    cbn [LayP] in *. destruct HL as (-> & -> & vt' & Hf' & HLi).
    rewrite Hf in Hf'. injection Hf' as <-.
    destruct (wf_enum_inv _ _ _ _ Hwf) as (_ & vt' & Hf' & Hwi). rewrite Hf in Hf'. injection Hf' as <-.
    rewrite (addr_of_SV _ _ _ _ _ _ _ Hf) in HE.
    repeat (split; [reflexivity|]). exists vt. split; [exact Hf|].
    exact (IH _ _ _ _ _ _ Hwi Hr HE HLi).
Qed.

(* a focus along pi ++ s is a focus along pi whose end node is focused along s *)
Lemma LayP_app (E : ty -> val -> Z -> ptr -> Prop) pi s : forall t v b p, LayP E (pi ++ s) t v b p <-> LayP (LayP E s) pi t v b p.
Proof.
  induction pi as [|[i|i|] r IH]; intros t v b p.
  - reflexivity.
  - destruct t as [| | | |ts|]; try (cbn [app LayP]; tauto).
    destruct v as [| | |vs|]; try (cbn [app LayP]; tauto).
    destruct p as [| | | |ps|]; try (cbn [app LayP]; tauto).
    cbn [app LayP]. split; intros (ti & vi & qi & Hti & Hvi & Hqi & HA & HLi & HB);
      exists ti, vi, qi; repeat split; auto; apply IH; exact HLi.
  - destruct t as [| | |it k| |]; try (cbn [app LayP]; tauto).
    destruct v as [| |items| |]; try (cbn [app LayP]; tauto).
    destruct p as [| | |a n inner pmb rs re| |]; try (cbn [app LayP]; tauto).
    cbn [app LayP]. split; intros (Ha & Hn & Hrs & Hre & kv & q & Hkv & Hi & HLi);
      repeat (split; [assumption|]); exists kv, q; repeat split; auto; apply IH; exact HLi.
  - destruct t as [| | | | |rw vars]; try (cbn [app LayP]; tauto).
    destruct v as [| | | |d0 pv]; try (cbn [app LayP]; tauto).
    destruct p as [| | | | |st d' q]; try (cbn [app LayP]; tauto).
    cbn [app LayP]. split; intros (Hst & Hd & vt & Hf & HLi);
      repeat (split; [assumption|]); exists vt; (split; [exact Hf|]); apply IH; exact HLi.
Qed.

(* ---------------------------------------------------------------------------------------------- *)
(* 3. a focused layout whose end node is a layout is a layout                                      *)
Lemma LayP_Lay pi : forall t v b p, plain t = true -> wf t v = true -> LayP Lay pi t v b p -> Lay t v b p.
Proof.
  induction pi as [|[i|i|] r IH]; intros t v b p Hpl Hwf HL.
  - exact HL.
  - destruct t as [| | | |ts|]; try (cbn [LayP] in HL; contradiction).
    destruct v as [| | |vs|]; try (cbn [LayP] in HL; contradiction).
    destruct p as [| | | |ps|]; try (cbn [LayP] in HL; contradiction).
    cbn [LayP] in HL. destruct HL as (ti & vi & qi & Hti & Hvi & Hqi & HA & HLi & HB).
    rewrite (wf_struct_split _ _ _ _ _ Hti Hvi) in Hwf.
    apply andb_true_iff in Hwf as [_ Hwf]. apply andb_true_iff in Hwf as [Hwi _].
    rewrite Lay_struct. apply (Lay_fields_split ts vs ps b i ti vi qi Hti Hvi Hqi).
    split; [exact HA|]. split; [|exact HB].
    exact (IH _ _ _ _ (plain_field _ _ _ Hpl Hti) Hwi HLi).
  - destruct t as [| | |it k| |]; try (cbn [LayP] in HL; contradiction).
    destruct v as [| |items| |]; try (cbn [LayP] in HL; contradiction).
    destruct p as [| | |a n inner pmb rs re| |]; try (cbn [LayP] in HL; contradiction).
    cbn [LayP] in HL. destruct HL as (-> & -> & -> & -> & kv & q & Hkv & -> & HLi).
    pose proof (ulist_facts _ _ _ Hwf) as F. cbn [plain] in Hpl.
    pose proof (wf_nth _ _ _ _ (uf_wfs _ _ _ F) Hkv) as Hwi.
    pose proof (IH _ _ _ _ Hpl Hwi HLi) as HLq.
    cbn [Lay]. repeat (split; [reflexivity|]).
    destruct pmb.
    + exists i, kv. split; assumption.
    + destruct (elem_inside it k items b i kv F Hkv) as [He1 _]. pose proof (uf_n _ _ _ F).
      apply (Lay_after it (snd kv) (elem_addr it k items b i) q b Hpl Hwi HLq). nia.
  - destruct t as [| | | | |rw vars]; try (cbn [LayP] in HL; contradiction).
    destruct v as [| | | |d0 pv]; try (cbn [LayP] in HL; contradiction).
    destruct p as [| | | | |st d' q]; try (cbn [LayP] in HL; contradiction).
    cbn [LayP] in HL. destruct HL as (-> & -> & vt & Hf & HLi).
    destruct (wf_enum_inv _ _ _ _ Hwf) as (_ & vt' & Hf' & Hwi). rewrite Hf in Hf'. injection Hf' as <-.
    apply Lay_enum. split; [reflexivity|]. split; [reflexivity|]. exists vt. split; [exact Hf|].
    exact (IH _ _ _ _ (plain_enum_find _ _ _ _ Hpl Hf) Hwi HLi).
Qed.

Lemma Lay_LayP_nil t v b p : Lay t v b p -> LayP Lay [] t v b p.
Proof. exact (fun H => H). Qed.

(* ---------------------------------------------------------------------------------------------- *)
(* 4. extending the focus by a struct field                                                        *)
Lemma Lay_LayP_SF ts vs i ti vi b p : nth_error ts i = Some ti -> nth_error vs i = Some vi ->
  Lay (TStruct ts) (VStruct vs) b p -> LayP Lay [SF i] (TStruct ts) (VStruct vs) b p.
Proof.
  intros Hti Hvi HL. destruct p as [| | | |ps|]; try (cbn [Lay] in HL; contradiction).
  rewrite Lay_struct in HL. destruct (Lay_fields_nth _ _ _ _ _ _ HL Hti) as (vi' & qi & Hvi' & Hqi).
  rewrite Hvi in Hvi'. injection Hvi' as <-.
  apply (Lay_fields_split ts vs ps b i ti vi qi Hti Hvi Hqi) in HL. destruct HL as (HA & HLi & HB).
  cbn [LayP]. exists ti, vi, qi. repeat split; assumption.
Qed.

Lemma LayP_extend_SF pi : forall t v b p ts vs i ti vi, wf t v = true ->
  resolve t v pi = Some (TStruct ts, VStruct vs) -> nth_error ts i = Some ti -> nth_error vs i = Some vi ->
  LayP Lay pi t v b p -> LayP Lay (pi ++ [SF i]) t v b p.
Proof.
  intros t v b p ts vs i ti vi Hwf Hr Hti Hvi HL. apply LayP_app.
  apply (LayP_mono_at Lay (LayP Lay [SF i]) pi t v b p _ _ Hwf Hr); [|exact HL].
  intros n. exact (Lay_LayP_SF ts vs i ti vi _ n Hti Hvi).
Qed.

(* 4'. extending the focus into the live variant of an enum                                        *)
Lemma Lay_LayP_SV rw vars d pv vt b p : find_variant d vars = Some vt ->
  Lay (TEnum rw vars) (VEnum d pv) b p -> LayP Lay [SV] (TEnum rw vars) (VEnum d pv) b p.
Proof.
  intros Hf HL. destruct p as [| | | | |st d' q]; try (cbn [Lay] in HL; contradiction).
  apply Lay_enum in HL. destruct HL as (-> & -> & vt' & Hf' & HLq). rewrite Hf in Hf'. injection Hf' as <-.
  cbn [LayP]. split; [reflexivity|]. split; [reflexivity|]. exists vt. split; [exact Hf|exact HLq].
Qed.

Lemma LayP_extend_SV pi : forall t v b p rw vars d pv vt, wf t v = true ->
  resolve t v pi = Some (TEnum rw vars, VEnum d pv) -> find_variant d vars = Some vt ->
  LayP Lay pi t v b p -> LayP Lay (pi ++ [SV]) t v b p.
Proof.
  intros t v b p rw vars d pv vt Hwf Hr Hf HL. apply LayP_app.
  apply (LayP_mono_at Lay (LayP Lay [SV]) pi t v b p _ _ Hwf Hr); [|exact HL].
  intros n. exact (Lay_LayP_SV rw vars d pv vt _ n Hf).
Qed.

(* ---------------------------------------------------------------------------------------------- *)
(* 5. the offset table of a list of unsized elements in memory, and entering an element            *)
Lemma nth_error_offsets_from0 sizes i : (i < length sizes)%nat ->
  nth_error (offsets_from 0 sizes) i = Some (zsum (firstn i sizes)).
Proof. intros H. rewrite (nth_error_offsets_from sizes 0 i H). reflexivity. Qed.

Lemma usizes_length it items : length (usizes it items) = length items.
Proof. unfold usizes, uenc. now rewrite !map_length. Qed.

(* get_unsized_range(i) on the canonical bytes of the list, wherever they sit *)
Lemma ulist_range_mem it k items i kv (P B : list Z) :
  wf (TUList it k) (VUList items) = true -> nth_error items i = Some kv ->
  ulist_range k (P ++ encode (TUList it k) (VUList items) ++ B) (zlen P) (zlen items) (Z.of_nat i)
  = Ok (Some (zsum (firstn i (usizes it items)), zsum (firstn (S i) (usizes it items)))).
Proof.
  intros Hwf Hkv. pose proof (ulist_facts _ _ _ Hwf) as F.
  destruct F as [Hn Hu _ Hk Ht Hd Ho _].
  assert (Hi : (i < length items)%nat) by (apply nth_error_Some; congruence).
  pose proof (usizes_length it items) as Hls.
  assert (Hlo : length (offsets_from 0 (usizes it items)) = length (map fst items))
    by (rewrite offsets_from_length, map_length; exact Hls).
  set (m := P ++ encode (TUList it k) (VUList items) ++ B).
  assert (Hj : forall j, (j < length items)%nat ->
            rd32 m (zlen P + 8 + Z.of_nat j * (4 + Z.of_nat k)) = Ok (zsum (firstn j (usizes it items)))).
  { intros j Hjl. unfold m. rewrite encode_ulist. unfold utable.
    replace (P ++ (le_bytes 4 (zsum (usizes it items)) ++ le_bytes 4 (zlen items) ++
                   concat (offset_entries (offsets_from 0 (usizes it items)) (map fst items)) ++
                   le_bytes 4 (zlen items) ++ concat (uenc it items)) ++ B)
      with ((P ++ le_bytes 4 (zsum (usizes it items)) ++ le_bytes 4 (zlen items)) ++
            concat (offset_entries (offsets_from 0 (usizes it items)) (map fst items)) ++
            (le_bytes 4 (zlen items) ++ concat (uenc it items) ++ B))
      by (rewrite <- !app_assoc; reflexivity).
    assert (Hjs : (j < length (usizes it items))%nat) by lia.
    apply (rd32_table k _ _ _ _ j _ _ Hlo Hk Ho (nth_error_offsets_from0 _ j Hjs)).
    rewrite !zlen_app, !zlen_le_bytes. change (Z.of_nat 4) with 4. lia. }
  assert (Hz : rd32 m (zlen P) = Ok (zsum (usizes it items))).
  { unfold m. rewrite encode_ulist, <- !app_assoc. apply rd32_mid; [reflexivity|exact Hu]. }
  unfold ulist_range. fold m.
  destruct ((Z.of_nat i <? 0) || (zlen items <=? Z.of_nat i)) eqn:E0.
  { apply orb_true_iff in E0 as [E0|E0]; zb; unfold zlen in *; lia. }
  rewrite (Hj i Hi), Hz. cbn [obind].
  destruct (Z.of_nat i + 1 <? zlen items) eqn:E1; zb.
  - replace (Z.of_nat i + 1) with (Z.of_nat (S i)) by lia.
    rewrite (Hj (S i)) by (unfold zlen in E1; lia). reflexivity.
  - cbn [obind]. rewrite (firstn_all2 (n := S i)) by (rewrite Hls; unfold zlen in E1; lia). reflexivity.
Qed.

Lemma ulist_range_elem pi : forall t v p it k items i kv junk,
  plain t = true -> wf t v = true -> resolve t v pi = Some (TUList it k, VUList items) -> nth_error items i = Some kv ->
  LayP Lay pi t v 0 p ->
  forall a n inner pmb rs re, get_at t p (mpath pi) = Some (TUList it k, PUList a n inner pmb rs re) ->
  ulist_range k (encode t v ++ junk) a n (Z.of_nat i)
  = Ok (Some (zsum (firstn i (usizes it items)), zsum (firstn (S i) (usizes it items)))).
Proof.
  intros t v p it k items i kv junk Hpl Hwf Hr Hkv HL a n inner pmb rs re Hg.
  destruct (LayP_get_at Lay pi t v 0 p _ _ Hwf Hr HL) as (node & Hg' & HLn).
  rewrite Hg in Hg'. injection Hg' as <-.
  cbn [Lay] in HLn. destruct HLn as (-> & -> & _).
  pose proof (hctx_encode _ _ _ _ _ Hr) as He.
  replace (addr_of t v pi 0) with (zlen (fst (hctx t v pi 0))) by (unfold addr_of; lia).
  rewrite He, <- !app_assoc.
  exact (ulist_range_mem it k items i kv _ _ (resolve_wf _ _ _ _ _ Hwf Hr) Hkv).
Qed.

Lemma ulist_enter_LayP ovf pi : forall t last v s top it k items i kv junk,
  plain t = true -> ty_ok last t = true -> wf t v = true ->
  resolve t v pi = Some (TUList it k, VUList items) -> nth_error items i = Some kv ->
  LayP Lay pi t v 0 top -> m_mem s = encode t v ++ junk ->
  exists top', ulist_enter ovf t s top (mpath pi) (zsum (firstn i (usizes it items))) = Ok top'
               /\ LayP Lay (pi ++ [SE i]) t v 0 top'.
Proof.
  intros t last v s top it k items i kv junk Hpl Hok Hwf Hr Hkv HL Hm.
  destruct (LayP_get_at Lay pi t v 0 top _ _ Hwf Hr HL) as (node & Hg & HLn).
  destruct node as [| | |a n inner pmb rs re| |]; try (cbn [Lay] in HLn; contradiction).
  cbn [Lay] in HLn. destruct HLn as (Ha & -> & -> & -> & Hin).
  pose proof (resolve_wf _ _ _ _ _ Hwf Hr) as HwU.
  pose proof (resolve_plain _ _ _ _ _ Hpl Hr) as HpU. cbn [plain] in HpU.
  destruct (resolve_ty_ok _ _ _ _ _ _ Hok Hr) as (l' & HokU & _). cbn [ty_ok] in HokU.
  pose proof (ulist_facts _ _ _ HwU) as F.
  pose proof (wf_nth _ _ _ _ (uf_wfs _ _ _ F) Hkv) as Hwi.
  pose proof (uf_n _ _ _ F) as Hn. pose proof (uf_usz _ _ _ F) as Hu.
  pose proof (hctx_encode _ _ _ _ _ Hr) as He.
  assert (HaP : a = zlen (fst (hctx t v pi 0))) by (rewrite Ha; unfold addr_of; lia).
  set (P0 := fst (hctx t v pi 0)) in *. set (Q := snd (hctx t v pi 0)) in *.
  set (sizes := usizes it items) in *. set (st := zsum (firstn i sizes)).
  assert (Hmem : m_mem s = P0 ++ encode (TUList it k) (VUList items) ++ (Q ++ junk)).
  { rewrite Hm, He, <- !app_assoc. reflexivity. }
  pose proof (zsum_firstn_le sizes i (usizes_nonneg it items)) as Hst.
  pose proof (zsum_firstn_le sizes (S i) (usizes_nonneg it items)) as Hst2.
  pose proof (zsum_firstn_S _ _ _ (nth_error_usizes it _ _ _ Hkv)) as HS. fold sizes in HS. fold st in HS, Hst.
  (* the recorded inner pointer, if a mutable borrow may be live, passes check_pointers *)
  assert (Hio : inner_ok (PUList a (zlen items) inner pmb (addr_of t v pi 0)
                                 (addr_of t v pi 0 + zlen (encode (TUList it k) (VUList items)))) = true).
  { unfold inner_ok. destruct inner as [q0|]; [|reflexivity]. destruct pmb; [|reflexivity].
    destruct Hin as (j & kvj & Hj & Hq0).
    destruct (elem_inside it k items (addr_of t v pi 0) j kvj F Hj) as [He1 He2].
    destruct (check_ptrs_Lay it false (snd kvj) _ q0 (addr_of t v pi 0)
                (addr_of t v pi 0 + zlen (encode (TUList it k) (VUList items))) (addr_of t v pi 0)
                HpU HokU (wf_nth _ _ _ _ (uf_wfs _ _ _ F) Hj) Hq0) as (c' & Hc & _); try nia.
    now rewrite Hc. }
  assert (Hrd : rd32 (m_mem s) a = Ok (zsum sizes)).
  { rewrite Hmem, encode_ulist, <- !app_assoc. apply rd32_mid; [exact HaP|exact Hu]. }
  (* get_ptr on the element's bytes *)
  assert (Hgp : get_ptr ovf it (m_mem s) (ulist_dbase k a (zlen items) + st) (zsum sizes - st)
                = Ok (lay0 it (snd kv) (elem_addr it k items (addr_of t v pi 0) i), zlen (encode it (snd kv)))).
  { set (pre := P0 ++ uhdr sizes (map fst items) ++ concat (firstn i (uenc it items))).
    set (post := concat (skipn (S i) (uenc it items)) ++ Q ++ junk).
    assert (Hsplit : m_mem s = pre ++ encode it (snd kv) ++ post).
    { rewrite Hmem, (encode_ulist_split _ _ _ _ _ Hkv). unfold pre, post. rewrite <- !app_assoc. reflexivity. }
    assert (Hpre : zlen pre = elem_addr it k items (addr_of t v pi 0) i).
    { unfold pre, sizes. rewrite !zlen_app, (zlen_uhdr_usizes _ _ _ F), zsum_firstn_usizes. unfold elem_addr. lia. }
    assert (Hex : zsum sizes - st = zlen (encode it (snd kv)) + zsum (skipn (S i) sizes)).
    { rewrite (zsum_firstn_skipn sizes (S i)). lia. }
    assert (Hsk : zsum (skipn (S i) sizes) = zlen (concat (skipn (S i) (uenc it items)))) by (symmetry; apply zsum_skipn_usizes).
    pose proof (get_ptr_lay0 ovf it false (snd kv) pre post (zsum (skipn (S i) sizes)) HpU HokU Hwi) as G.
    rewrite <- Hsplit, Hpre, <- Hex in G.
    replace (ulist_dbase k a (zlen items) + st) with (elem_addr it k items (addr_of t v pi 0) i)
      by (unfold ulist_dbase, elem_addr; fold sizes; fold st; lia).
    apply G.
    - rewrite Hsk. apply zlen_nonneg.
    - discriminate.
    - unfold post. rewrite zlen_app, <- Hsk. pose proof (zlen_nonneg (Q ++ junk)). lia. }
  unfold ulist_enter, sub. rewrite Hg. cbn [obind]. rewrite Hio. cbn [negb].
  rewrite Hrd. cbn [obind].
  destruct (zsum sizes <? st) eqn:E; [zb; lia|].
  rewrite Hgp. cbn [obind].
  eexists. split; [reflexivity|].
  apply LayP_app.
  apply (LayP_set_at Lay (LayP Lay [SE i]) pi t v 0 top _ _ _ Hwf Hr HL).
  cbn [LayP]. split; [exact Ha|]. repeat (split; [reflexivity|]).
  exists kv, (lay0 it (snd kv) (elem_addr it k items (addr_of t v pi 0) i)).
  split; [exact Hkv|]. split; [reflexivity|]. apply lay0_Lay; assumption.
Qed.

Print Assumptions ulist_enter_LayP. Print Assumptions LayP_set_at. Print Assumptions LayP_Lay.
