(* add_bytes / remove_bytes issued by a container anywhere inside a value (any nesting of structs and lists of
   unsized elements): realloc, the raw byte move and the notification broadcast together turn the memory
   `P0 ++ (A ++ B) ++ Q` into `Pc ++ (A ++ G ++ B) ++ Q` (growth at the split point) resp. `P0 ++ (A ++ R ++ B) ++ Q`
   into `P(-|R|) ++ (A ++ B) ++ Q` (removal of R), where P is the byte context of the container with every ancestor
   header adjusted, and leave a pointer tree that is the layout of the new value except for the container's own
   node (which the calling operation updates next). *)
From SF Require Import Base.Prelude Gen.Generated Unsized.Types Unsized.Parse Unsized.Machine Unsized.Ops.
From SF Require Import Unsized.Proofs.EncodeParse Unsized.Proofs.Mem Unsized.Proofs.Notify Unsized.Proofs.Flat Unsized.Proofs.Layout
  Unsized.Proofs.Table Unsized.Proofs.Path Unsized.Proofs.Context Unsized.Proofs.Focus Unsized.Proofs.Pos
  Unsized.Proofs.FocusOps Unsized.Proofs.NotifyInside.
From SF Require Import Unsized.Proofs.EnumFacts.

Arguments Z.add : simpl never.
Arguments Z.sub : simpl never.
Arguments Z.mul : simpl never.
Arguments Z.of_nat : simpl never.
Arguments Z.pow : simpl never.
Arguments Z.modulo : simpl never.

(* a machine state that holds value v of type t, with a pointer tree focused along pi *)
Record RepF (pi : list step) (t : ty) (v : val) (s : mach) (top : ptr) : Prop := mkRepF {
  rf_plain : plain t = true;
  rf_ok : ty_ok true t = true;
  rf_wf : wf t v = true;
  rf_mem : exists junk, m_mem s = encode t v ++ junk;
  rf_len : m_len s = zlen (encode t v);
  rf_top : LayP Lay pi t v 0 top;
  rf_cap : m_cap s < U32_LIMIT;
}.

Lemma repf_cap pi t v s top : RepF pi t v s top -> zlen (encode t v) <= m_cap s.
Proof. intros [_ _ _ [junk Hm] _ _ _]. unfold m_cap. rewrite Hm, zlen_app. pose proof (zlen_nonneg junk). lia. Qed.

Lemma repf_top_check pi t v s top : RepF pi t v s top -> top_check s top = true.
Proof.
  intros R. pose proof (repf_cap _ _ _ _ _ R) as Hcap. destruct R as [Hpl Hok Hwf _ _ HL _].
  apply LayP_Lay in HL; auto.
  destruct (check_ptrs_Lay t true v 0 top 0 (m_cap s) 0 Hpl Hok Hwf HL) as (c' & Hc & _); try lia.
  unfold top_check. now rewrite Hc.
Qed.

Section resize.
  Variables (pi : list step) (t : ty) (v : val) (X : ty) (xv xv' : val).
  Hypothesis Hres : resolve t v pi = Some (X, xv).
  Hypothesis HcX : container X = true.

  Let P0 := fst (hctx t v pi 0).
  Let Q := snd (hctx t v pi 0).
  Let ax := addr_of t v pi 0.

  (* growth by k bytes at offset |A| inside the container *)
  Lemma add_bytes_inside s top (A B : list Z) k :
    RepF pi t v s top -> encode X xv = A ++ B -> 0 < k ->
    zlen (encode X xv') = zlen (encode X xv) + k ->
    m_refuse s <> 1 -> m_len s + k <= m_cap s ->
    exists s1 top1 G J,
      add_bytes t s top ax (ax + zlen A) k = Ok (s1, top1) /\
      m_mem s1 = fst (hctx t v pi k) ++ (A ++ G ++ B) ++ Q ++ J /\ zlen G = k /\
      m_len s1 = m_len s + k /\ m_cap s1 = m_cap s /\ m_refuse s1 = m_refuse s /\
      LayP (EndNotified xv k) pi t (plug t v pi xv') 0 top1.
  Proof.
    intros R HAB Hk Hsz Hnref Hroom. pose proof (repf_top_check _ _ _ _ _ R) as Hchk. pose proof (repf_cap _ _ _ _ _ R) as Hcap.
    destruct R as [Hpl Hok Hwf [junk Hmem] Hlen HL Hc32].
    pose proof (hctx_encode _ _ _ _ _ Hres) as Henc. fold P0 Q in Henc. rewrite HAB in Henc.
    pose proof (zlen_nonneg P0). pose proof (zlen_nonneg A). pose proof (zlen_nonneg B). pose proof (zlen_nonneg Q).
    assert (Hold : zlen (encode t v) = zlen P0 + zlen A + zlen B + zlen Q) by (rewrite Henc, !zlen_app; lia).
    assert (Hax : ax = zlen P0) by (subst ax P0; unfold addr_of; lia).
    unfold add_bytes. rewrite Hchk. cbn [negb].
    set (start := ax + zlen A).
    assert (0 <= start <= m_len s) as Hst by (subst start; lia).
    destruct ((start <? 0) || (m_len s <? start)) eqn:E3; [apply orb_true_iff in E3; destruct E3; zb; lia|].
    destruct (k =? 0) eqn:E4; [zb; lia|].
    (* realloc *)
    assert (k <= zlen junk) as Hjk by (unfold m_cap in Hroom; rewrite Hmem, zlen_app, Hlen in Hroom; lia).
    set (J := zdrop k junk).
    assert (Hjunk : junk = ztake k junk ++ J) by (symmetry; apply ztake_zdrop).
    unfold realloc.
    destruct (m_len s <? m_len s + k) eqn:E5; [|zb; lia].
    destruct (m_refuse s =? 1) eqn:E6; [zb; congruence|]. cbn [andb].
    destruct (m_cap s <? m_len s + k) eqn:E7; [zb; lia|].
    assert (Hwr0 : wr (m_mem s) (m_len s) (zrepeat 0 (m_len s + k - m_len s)) = Ok (encode t v ++ zrepeat 0 k ++ J)).
    { rewrite Hmem, Hlen. rewrite Hjunk at 1. replace (zlen _ + k - zlen _) with k by lia.
      apply wr_mid'; [reflexivity|]. rewrite zlen_zrepeat, zlen_ztake by lia. reflexivity. }
    rewrite Hwr0. cbn [obind m_mem m_len].
    (* memmove *)
    set (A' := P0 ++ A). set (T := B ++ Q).
    assert (HA' : zlen A' = start) by (subst A' start; rewrite zlen_app; lia).
    assert (HT : zlen T = m_len s - start) by (subst T start; rewrite zlen_app; lia).
    assert (Hm1 : encode t v ++ zrepeat 0 k ++ J = A' ++ (T ++ zrepeat 0 k) ++ J).
    { rewrite Henc. subst A' T. now rewrite <- !app_assoc. }
    assert (Hmv : (if start =? m_len s then Ok (encode t v ++ zrepeat 0 k ++ J)
                   else mmove (encode t v ++ zrepeat 0 k ++ J) (start + k) start (m_len s - start))
                  = Ok (A' ++ ztake k (T ++ zrepeat 0 k) ++ T ++ J)).
    { rewrite Hm1. destruct (start =? m_len s) eqn:E8.
      - zb. assert (T = []) as -> by (destruct T; [reflexivity|rewrite zlen_cons in HT; pose proof (zlen_nonneg T); lia]).
        cbn [app]. rewrite <- (zlen_zrepeat 0 k) at 2 by lia. rewrite ztake_all. reflexivity.
      - rewrite <- HT, <- HA'. apply mmove_up. symmetry. apply zlen_zrepeat. lia. }
    rewrite Hmv. cbn [obind].
    set (G := ztake k (T ++ zrepeat 0 k)).
    assert (HG : zlen G = k) by (subst G; rewrite zlen_ztake; [reflexivity|rewrite zlen_app, zlen_zrepeat by lia; pose proof (zlen_nonneg T); lia]).
    (* the broadcast *)
    assert (Hmem2 : A' ++ G ++ T ++ J = [] ++ P0 ++ (A ++ G ++ B) ++ Q ++ J).
    { subst A' T. cbn [app]. now rewrite <- !app_assoc. }
    rewrite Hmem2.
    destruct (notify_inside pi t true v top X xv xv' k (A ++ G ++ B) [] J Hpl Hok Hwf Hres HcX HL) as (p' & Hn & HL'); try lia.
    { rewrite HAB, !zlen_app. lia. }
    { pose proof (zlen_nonneg (encode X xv)). lia. }
    change (zlen (@nil Z)) with 0 in Hn. fold ax P0 Q in Hn. rewrite Hn. cbn [obind].
    exists (set_mem {| m_mem := encode t v ++ zrepeat 0 k ++ J; m_len := m_len s + k; m_grow := m_grow s + 1; m_refuse := m_refuse s |}
                    ([] ++ fst (hctx t v pi k) ++ (A ++ G ++ B) ++ Q ++ J)), p', G, J.
    split; [reflexivity|]. cbn [set_mem m_mem m_len m_refuse app].
    repeat split; auto.
    unfold m_cap. cbn [set_mem m_mem]. rewrite Hmem. rewrite !zlen_app, (hctx_fst_len t v pi k). fold P0.
    rewrite HG, Hold. pose proof (zlen_nonneg J). assert (zlen junk = k + zlen J) by (rewrite Hjunk at 1; rewrite zlen_app, zlen_ztake by lia; lia). lia.
  Qed.

  (* removal of the bytes R located at offset |A| inside the container *)
  Lemma remove_bytes_inside s top (A R B : list Z) :
    RepF pi t v s top -> encode X xv = A ++ R ++ B -> 0 < zlen R ->
    zlen (encode X xv') = zlen (encode X xv) - zlen R ->
    exists s1 top1 J,
      remove_bytes t s top ax (ax + zlen A) (ax + zlen A + zlen R) = Ok (s1, top1) /\
      m_mem s1 = fst (hctx t v pi (- zlen R)) ++ (A ++ B) ++ Q ++ J /\
      m_len s1 = m_len s - zlen R /\ m_cap s1 = m_cap s /\ m_refuse s1 = m_refuse s /\
      LayP (EndNotified xv (- zlen R)) pi t (plug t v pi xv') 0 top1.
  Proof.
    intros Rp HARB HR Hsz. pose proof (repf_top_check _ _ _ _ _ Rp) as Hchk. pose proof (repf_cap _ _ _ _ _ Rp) as Hcap.
    destruct Rp as [Hpl Hok Hwf [junk Hmem] Hlen HL Hc32].
    pose proof (hctx_encode _ _ _ _ _ Hres) as Henc. fold P0 Q in Henc. rewrite HARB in Henc.
    pose proof (zlen_nonneg P0). pose proof (zlen_nonneg A). pose proof (zlen_nonneg B). pose proof (zlen_nonneg Q).
    set (k := zlen R) in *.
    assert (Hold : zlen (encode t v) = zlen P0 + zlen A + k + zlen B + zlen Q) by (rewrite Henc, !zlen_app; subst k; lia).
    assert (Hax : ax = zlen P0) by (subst ax P0; unfold addr_of; lia).
    unfold remove_bytes. rewrite Hchk. cbn [negb].
    set (end_ := ax + zlen A + k). set (start := ax + zlen A).
    assert (Hse : 0 <= start /\ start < end_ /\ end_ <= m_len s) by (subst start end_; lia).
    destruct ((start <? 0) || (m_len s <? start)) eqn:E3; [apply orb_true_iff in E3; destruct E3; zb; lia|].
    destruct ((end_ <? start) || (m_len s <? end_)) eqn:E4; [apply orb_true_iff in E4; destruct E4; zb; lia|].
    assert (Hamt : end_ - start = k) by (subst start end_; lia).
    rewrite Hamt. destruct (k =? 0) eqn:E5; [zb; lia|].
    set (A' := P0 ++ A). set (T := B ++ Q).
    assert (HA' : zlen A' = start) by (subst A' start; rewrite zlen_app; lia).
    assert (HT : zlen T = m_len s - end_) by (subst T end_; rewrite zlen_app; lia).
    assert (Hm0 : m_mem s = A' ++ R ++ T ++ junk) by (rewrite Hmem, Henc; subst A' T; now rewrite <- !app_assoc).
    assert (Hmv : (if end_ =? m_len s then Ok (m_mem s) else mmove (m_mem s) start end_ (m_len s - end_))
                  = Ok (A' ++ T ++ zdrop (zlen T) (R ++ T) ++ junk)).
    { rewrite Hm0. destruct (end_ =? m_len s) eqn:E6.
      - zb. assert (T = []) as -> by (destruct T; [reflexivity|rewrite zlen_cons in HT; pose proof (zlen_nonneg T); lia]).
        cbn [app]. change (zlen (@nil Z)) with 0. rewrite app_nil_r. reflexivity.
      - rewrite <- HT. replace end_ with (zlen A' + zlen R) by (subst k; lia). rewrite <- HA'. apply mmove_down. }
    rewrite Hmv. cbn [obind].
    set (H' := zdrop (zlen T) (R ++ T)).
    unfold realloc. cbn [set_mem m_len m_mem m_grow m_refuse].
    destruct (m_len s <? m_len s - k) eqn:E7; [zb; lia|]. cbn [andb].
    unfold m_cap. cbn [set_mem m_mem m_len m_grow m_refuse].
    destruct (zlen (A' ++ T ++ H' ++ junk) <? m_len s - k) eqn:E8.
    { zb. rewrite !zlen_app in E8. pose proof (zlen_nonneg H'). pose proof (zlen_nonneg junk). pose proof (zlen_nonneg T). lia. }
    cbn [obind m_mem].
    assert (Hmem2 : A' ++ T ++ H' ++ junk = [] ++ P0 ++ (A ++ B) ++ Q ++ H' ++ junk).
    { subst A' T. cbn [app]. now rewrite <- !app_assoc. }
    rewrite Hmem2.
    destruct (notify_inside pi t true v top X xv xv' (- k) (A ++ B) [] (H' ++ junk) Hpl Hok Hwf Hres HcX HL) as (p' & Hn & HL'); try lia.
    { rewrite HARB, !zlen_app. subst k. lia. }
    { rewrite HARB, !zlen_app. subst k. lia. }
    change (zlen (@nil Z)) with 0 in Hn. fold ax P0 Q in Hn. rewrite Hn. cbn [obind].
    eexists _, p', (H' ++ junk).
    split; [reflexivity|]. cbn [set_mem m_mem m_len m_refuse app].
    repeat split; auto.
    unfold m_cap. cbn [set_mem m_mem]. rewrite Hmem. rewrite !zlen_app, (hctx_fst_len t v pi (- k)). fold P0.
    assert (zlen H' = k).
    { subst H'. rewrite zlen_zdrop by (rewrite zlen_app; pose proof (zlen_nonneg T); subst k; lia). rewrite zlen_app. subst k. lia. }
    rewrite Hold. lia.
  Qed.
End resize.
