(* 1. Histories of the FULL operation set (History2.xop) in which operations may fail: the owned model keeps its value
      on a failure; the machine keeps the state the failing call left - the state reached by the descent after a plain
      Err, the state returned by Ops.efail (Ok with [-1; code] as extra observation) for lists of unsized elements;
      every reachable state still represents the owned model's value (template: History.grunE_refines).
   2. UnsizedMap::insert on an EXISTING key (the branch of Keyed.umap_insert_op that Keyed.v left out): the element is
      entered (ulist_range + ulist_enter) and its value is replaced by the default value through set_data; the key
      stays. *)
From SF Require Import Base.Prelude Gen.Generated Unsized.Types Unsized.Parse Unsized.Machine Unsized.Ops Unsized.Run.
From SF Require Import Unsized.Proofs.EncodeParse Unsized.Proofs.Mem Unsized.Proofs.Notify Unsized.Proofs.Flat Unsized.Proofs.Layout
  Unsized.Proofs.Observe Unsized.Proofs.Table Unsized.Proofs.Path Unsized.Proofs.Context Unsized.Proofs.Context2 Unsized.Proofs.Focus
  Unsized.Proofs.Pos Unsized.Proofs.FocusOps Unsized.Proofs.NotifyInside Unsized.Proofs.Resize Unsized.Proofs.GenOps
  Unsized.Proofs.GenOps2 Unsized.Proofs.Init Unsized.Proofs.UInsert Unsized.Proofs.URemove Unsized.Proofs.History
  Unsized.Proofs.History2 Unsized.Proofs.NotifyInside2 Unsized.Proofs.SetData Unsized.Proofs.Keyed Unsized.Proofs.ExecTie
  Unsized.Proofs.ExecTie2 Unsized.Proofs.History3.
From SF Require Import Unsized.Proofs.EnumFacts.

Arguments Z.add : simpl never.
Arguments Z.sub : simpl never.
Arguments Z.mul : simpl never.
Arguments Z.of_nat : simpl never.
Arguments Z.pow : simpl never.
Arguments Z.modulo : simpl never.

(* ============================================================================================== *)
(* 1. histories of the full operation set with failures                                            *)

Definition ostepXE (cap refuse : Z) (t : ty) (v : val) (o : xop) : option outcome :=
  match ostepX cap t v o with
  | Some v1 => if refuse =? 1 then None else Some (Done v1)
  | None => match oerrX cap refuse t v o with Some c => Some (Failed c) | None => None end
  end.

Fixpoint orunXE (cap refuse : Z) (t : ty) (v : val) (h : list xop) : option (val * list (option Z)) :=
  match h with
  | [] => Some (v, [])
  | o :: r =>
      match ostepXE cap refuse t v o with
      | Some (Done v1) => match orunXE cap refuse t v1 r with Some (v', l) => Some (v', None :: l) | None => None end
      | Some (Failed c) => match orunXE cap refuse t v r with Some (v', l) => Some (v', Some c :: l) | None => None end
      | None => None
      end
  end.

(* the classification of the extra observation of an Ok result: exactly the two-element list [-1; c] that Ops.efail
   builds is a failure with code c; every other extra observation ([] for the operations of mopX) is a success *)
Definition efail_code (e : list Z) : option Z :=
  match e with
  | [a; c] => if a =? -1 then Some c else None
  | _ => None
  end.

(* like Run.exec, the run continues after a failure from the state the failing call left:
     Err c                  -> (s, top1), top1 the result of the descent       (Run.exec: efail s top1 c)
     Ok (s', top', [-1; c]) -> (s', top'), the step counts as failed with code c (the operation called efail itself)
     Ok (s', top', e)       -> (s', top'), success                               (e = [] for every operation of mopX) *)
Fixpoint mrunXE (ovf : bool) (t : ty) (s : mach) (top : ptr) (h : list xop) : out (mach * ptr * list (option Z)) :=
  match h with
  | [] => Ok (s, top, [])
  | o :: r =>
      do top1 <- menter ovf t s top [] (xfocus o);
      match mopX t s top1 o with
      | Ok (s1, top2, e) => do ' (s', top', l) <- mrunXE ovf t s1 top2 r; Ok (s', top', efail_code e :: l)
      | Err c => do ' (s', top', l) <- mrunXE ovf t s top1 r; Ok (s', top', Some c :: l)
      | Panic => Panic
      | Fault => Fault
      end
  end.

Lemma efail_code_nil : efail_code [] = None.
Proof. reflexivity. Qed.

Lemma efail_code_efail c : efail_code [-1; c] = Some c.
Proof. reflexivity. Qed.

Theorem xrunE_refines ovf t : forall h v s top pi0 v' l,
  RepF pi0 t v s top -> m_refuse s <> 1 -> orunXE (m_cap s) (m_refuse s) t v h = Some (v', l) ->
  exists s' top' pi', mrunXE ovf t s top h = Ok (s', top', l) /\ RepF pi' t v' s' top'.
Proof.
  induction h as [|o h IH]; intros v s top pi0 v' l R Hnr Ho.
  - cbn in Ho. injection Ho as <- <-. exists s, top, pi0. split; [reflexivity|exact R].
  - cbn [orunXE] in Ho. unfold ostepXE in Ho.
    destruct (ostepX (m_cap s) t v o) as [v1|] eqn:E.
    + destruct (m_refuse s =? 1) eqn:Er; [zb; congruence|].
      destruct (xstep_refines ovf t v s top pi0 o v1 R Hnr E) as (s1 & top1 & Hs & R1 & Hc & Hr).
      destruct (orunXE (m_cap s) (m_refuse s) t v1 h) as [[v'' l']|] eqn:E2; [|discriminate]. injection Ho as <- <-.
      rewrite <- Hc, <- Hr in E2.
      destruct (IH v1 s1 top1 _ v'' l' R1 ltac:(congruence) E2) as (s' & top' & pi' & Hm & R').
      unfold mstepX in Hs. cbn [mrunXE].
      destruct (menter ovf t s top [] (xfocus o)) as [tp| | |]; cbn [obind] in Hs |- *; try discriminate.
      rewrite Hs, Hm. cbn [obind]. rewrite efail_code_nil. exists s', top', pi'. split; [reflexivity|exact R'].
    + destruct (oerrX (m_cap s) (m_refuse s) t v o) as [c|] eqn:E1; [|discriminate].
      destruct (orunXE (m_cap s) (m_refuse s) t v h) as [[v'' l']|] eqn:E2; [|discriminate]. injection Ho as <- <-.
      destruct (xstep_error ovf t v s top pi0 o c R E1) as (top1 & Hm1 & [[Hop R1]|(top0 & Hop & R1)]).
      * (* a plain Err: the run continues from the state reached by the descent *)
        destruct (IH v s top1 _ v'' l' R1 Hnr E2) as (s' & top' & pi' & Hm & R').
        cbn [mrunXE]. rewrite Hm1. cbn [obind]. rewrite Hop, Hm. cbn [obind].
        exists s', top', pi'. split; [reflexivity|exact R'].
      * (* efail: the run continues from the (untouched) state and the pointer tree the operation returned *)
        destruct (IH v s top0 _ v'' l' R1 Hnr E2) as (s' & top' & pi' & Hm & R').
        cbn [mrunXE]. rewrite Hm1. cbn [obind]. rewrite Hop, Hm. cbn [obind]. rewrite efail_code_efail.
        exists s', top', pi'. split; [reflexivity|exact R'].
Qed.

(* ============================================================================================== *)
(* 2. UnsizedMap::insert on an existing key: the element's value is replaced by the default value    *)

(* the owned side: replacing the value of element i below the wrapper keeps the element's key, hence the keys *)
Lemma plug_umap_elem t v pi it k items i kv x :
  resolve t v (pi ++ [SF 0]) = Some (TUList it k, VUList items) -> nth_error items i = Some kv ->
  let items' := firstn i items ++ (fst kv, x) :: skipn (S i) items in
  plug t v (pi ++ [SF 0; SE i]) x = plug t v (pi ++ [SF 0]) (VUList items') /\ ukeys items' = ukeys items.
Proof.
  intros Hres Hkv items'. split.
  - replace (pi ++ [SF 0; SE i]) with ((pi ++ [SF 0]) ++ [SE i]) by (rewrite <- app_assoc; reflexivity).
    rewrite (plug_app_intro _ _ _ _ _ _ x Hres). cbn [plug]. rewrite Hkv. cbn [plug].
    rewrite (set_nth_split _ _ _ _ Hkv). reflexivity.
  - unfold items', ukeys. rewrite map_app. cbn [map fst]. rewrite <- firstn_map, <- skipn_map.
    symmetry. apply nth_error_split3. exact (map_nth_error (fun kv0 => le_decode (fst kv0)) _ _ Hkv).
Qed.

(* the key is present at idx: get_unsized_range(idx), get_mut(idx), then the whole-value replacement of the element by
   the bytes of the default initializer; the runner reports [0] *)
Theorem umap_insert_present ovf pi t v it k items key s top idx :
  resolve t v (pi ++ [SF 0]) = Some (TUList it k, VUList items) -> k <> 0%nat ->
  RepF (pi ++ [SF 0]) t v s top -> zero_ok it = true -> headed it = true ->
  lower_bound (ukeys items) key 0 = (idx, true) ->
  m_refuse s <> 1 ->
  (forall kv, nth_error items (Z.to_nat idx) = Some kv ->
     0 < zlen (encode it (snd kv)) /\ m_len s + (zlen (encode it (dflt it)) - zlen (encode it (snd kv))) <= m_cap s) ->
  exists kv s' top', nth_error items (Z.to_nat idx) = Some kv /\ le_decode (fst kv) = key /\
    umap_insert_op ovf t s top (mpath pi) it k key 0 = Ok (s', top', [0]) /\
    RepF (pi ++ [SF 0; SE (Z.to_nat idx)]) t (plug t v (pi ++ [SF 0; SE (Z.to_nat idx)]) (dflt it)) s' top' /\
    m_cap s' = m_cap s /\ m_refuse s' = m_refuse s.
Proof.
  intros Hres Hk R Hz Hhd Hlb Hnr Hroom.
  pose proof (umap_sorted pi t v it k items Hres Hk s top R) as Hsa.
  destruct (umap_prefix pi t v it k items Hres s top R) as (inner & pmb & rs & re & Hsub & Hkeys).
  pose proof (lower_bound_spec (ukeys items) key Hsa) as Hspec. rewrite Hlb in Hspec.
  destruct Hspec as (Hidx & _ & _ & Hnth & _). pose proof (proj1 Hnth eq_refl) as Hkey. clear Hnth.
  set (i := Z.to_nat idx) in *.
  unfold ukeys in Hkey. destruct (nth_error_map_inv _ _ _ _ Hkey) as (kv & Hkv & Hdk).
  destruct (Hroom kv Hkv) as [Hpos Hfit].
  pose proof R as [Hpl Hok Hwf [junk Hmem] Hlen HL Hc32].
  pose proof (resolve_plain _ _ _ _ _ Hpl Hres) as HpU. cbn [plain] in HpU.
  destruct (init_default_exact it HpU Hz) as (Hinit & Hisz & Hdw).
  set (ax := addr_of t v (pi ++ [SF 0]) 0) in *.
  (* get_unsized_range(idx): the element's range, read from the offset table *)
  assert (Hg : get_at t top (mpath (pi ++ [SF 0])) = Some (TUList it k, PUList ax (zlen items) inner pmb rs re)).
  { rewrite <- mpath_snoc. unfold sub in Hsub.
    destruct (get_at t top (mpath pi ++ [PF 0])) as [x|]; [injection Hsub as ->; reflexivity|discriminate]. }
  assert (Hrg : ulist_range k (m_mem s) ax (zlen items) idx
                = Ok (Some (zsum (firstn i (usizes it items)), zsum (firstn (S i) (usizes it items))))).
  { rewrite Hmem. replace idx with (Z.of_nat i) by (subst i; lia).
    exact (ulist_range_elem (pi ++ [SF 0]) t v top it k items i kv junk Hpl Hwf Hres Hkv HL _ _ _ _ _ _ Hg). }
  (* get_mut(idx): the focus extends by the element step *)
  destruct (ulist_enter_LayP ovf (pi ++ [SF 0]) t true v s top it k items i kv junk Hpl Hok Hwf Hres Hkv HL Hmem)
    as (top1 & He & HL1).
  assert (Hpe : (pi ++ [SF 0]) ++ [SE i] = pi ++ [SF 0; SE i]) by (rewrite <- app_assoc; reflexivity).
  rewrite Hpe in HL1.
  pose proof (repf_refocus _ _ _ _ _ _ _ R HL1) as R1.
  assert (Hres1 : resolve t v (pi ++ [SF 0; SE i]) = Some (it, snd kv)).
  { rewrite <- Hpe, (resolve_app_intro _ _ _ _ _ _ Hres). cbn [resolve]. rewrite Hkv. reflexivity. }
  (* set_from_owned with the default value *)
  destruct (set_data_general ovf (pi ++ [SF 0; SE i]) t v it (snd kv) (dflt it) s top1 Hres1 Hhd Hdw Hpos R1 Hnr Hfit)
    as (s' & top' & Hs & R' & Hc & Hr).
  exists kv, s', top'. split; [exact Hkv|]. split; [exact Hdk|]. split; [|auto].
  unfold umap_insert_op. rewrite Hsub. cbn [obind]. fold ax in Hkeys. rewrite Hkeys. cbn [obind]. rewrite Hlb.
  rewrite Hrg. cbn [obind]. rewrite mpath_snoc, He. cbn [obind].
  replace (mpath pi ++ [PF 0; PI]) with (mpath (pi ++ [SF 0; SE i])) by (rewrite mpath_app; reflexivity).
  rewrite Hisz, Hinit, Hs. reflexivity.
Qed.

(* the same with the new value written as the map with the element replaced: the keys - hence sortedness - are kept *)
Corollary umap_insert_present_items ovf pi t v it k items key s top idx :
  resolve t v (pi ++ [SF 0]) = Some (TUList it k, VUList items) -> k <> 0%nat ->
  RepF (pi ++ [SF 0]) t v s top -> zero_ok it = true -> headed it = true ->
  lower_bound (ukeys items) key 0 = (idx, true) ->
  m_refuse s <> 1 ->
  (forall kv, nth_error items (Z.to_nat idx) = Some kv ->
     0 < zlen (encode it (snd kv)) /\ m_len s + (zlen (encode it (dflt it)) - zlen (encode it (snd kv))) <= m_cap s) ->
  exists kv s' top', nth_error items (Z.to_nat idx) = Some kv /\
    let items' := firstn (Z.to_nat idx) items ++ (fst kv, dflt it) :: skipn (S (Z.to_nat idx)) items in
    umap_insert_op ovf t s top (mpath pi) it k key 0 = Ok (s', top', [0]) /\
    RepF (pi ++ [SF 0; SE (Z.to_nat idx)]) t (plug t v (pi ++ [SF 0]) (VUList items')) s' top' /\
    m_cap s' = m_cap s /\ m_refuse s' = m_refuse s /\
    ukeys items' = ukeys items /\ strictly_ascending (ukeys items') = true.
Proof.
  intros Hres Hk R Hz Hhd Hlb Hnr Hroom.
  pose proof (umap_sorted pi t v it k items Hres Hk s top R) as Hsa.
  destruct (umap_insert_present ovf pi t v it k items key s top idx Hres Hk R Hz Hhd Hlb Hnr Hroom)
    as (kv & s' & top' & Hkv & _ & Hs & R' & Hc & Hr).
  destruct (plug_umap_elem t v pi it k items (Z.to_nat idx) kv (dflt it) Hres Hkv) as [Hpl Hks].
  exists kv, s', top'. split; [exact Hkv|]. cbv zeta. rewrite <- Hpl, Hks. auto 6.
Qed.

Print Assumptions xrunE_refines. Print Assumptions umap_insert_present. Print Assumptions umap_insert_present_items.
