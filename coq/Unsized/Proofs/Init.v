(* C05, initializer half, for EVERY enum-free shape: the default initializer (UnsizedInit<DefaultInit>) writes
   exactly the canonical encoding of a well-formed default value, of exactly the announced size
   (INIT_BYTES = init_size).  Plus the non-default list initializers of the harness (arrays of all-ones items). *)
From SF Require Import Base.Prelude Gen.Generated Unsized.Types Unsized.Parse Unsized.Machine Unsized.Ops.
From SF Require Import Unsized.Proofs.EncodeParse Unsized.Proofs.Layout.
From SF Require Import Unsized.Proofs.EnumFacts.

Arguments Z.add : simpl never.
Arguments Z.sub : simpl never.
Arguments Z.mul : simpl never.
Arguments Z.of_nat : simpl never.
Arguments Z.pow : simpl never.
Arguments Z.modulo : simpl never.

(* the value DefaultInit produces: zero bytes, empty lists *)
Fixpoint dflt (t : ty) : val :=
  match t with
  | TFixed c => VBytes (repeat 0 (fsize c))
  | TList _ _ => VList []
  | TRem => VBytes []
  | TUList _ _ => VUList []
  | TStruct ts => VStruct ((fix go ts := match ts with [] => [] | t :: r => dflt t :: go r end) ts)
  | TEnum rw vs => match vs with (d, vt) :: _ => VEnum d (dflt vt) | [] => VEnum 0 (VStruct []) end
  end.

(* fixed-size checked values for which the all-zero pattern is valid (bool, integers, packed structs of those;
   an enum-like discriminant byte only if 0 is one of its discriminants) *)
Fixpoint zero_ok (t : ty) : bool :=
  match t with
  | TFixed c => fvalid c (repeat 0 (fsize c))
  | TList _ _ | TRem | TUList _ _ => true
  | TStruct ts => (fix go ts := match ts with [] => true | t :: r => zero_ok t && go r end) ts
  | TEnum rw vs =>
      (* DefaultInit of an enum initialises its FIRST listed variant (Ops.init_bytes): that discriminant has to fit
         the repr and the variant's payload has to be default-initialisable *)
      match vs with (d, vt) :: _ => (0 <=? d) && (d <? 256 ^ Z.of_nat rw) && zero_ok vt | [] => false end
  end.

(* ---------------------------------------------------------------------------------------------- *)
(* unfolding equations (by conversion)                                                             *)
Lemma dflt_struct ts : dflt (TStruct ts) = VStruct (map dflt ts).
Proof.
  induction ts as [|t ts IH]; [reflexivity|].
  change (dflt (TStruct (t :: ts)))
    with (VStruct (dflt t :: match dflt (TStruct ts) with VStruct l => l | _ => [] end)).
  rewrite IH. reflexivity.
Qed.

Lemma zero_ok_struct_cons t ts : zero_ok (TStruct (t :: ts)) = zero_ok t && zero_ok (TStruct ts).
Proof. reflexivity. Qed.

Lemma init_bytes_struct_cons t ts kind :
  init_bytes (TStruct (t :: ts)) kind =
  (do a <- init_bytes t 0; do b <- init_bytes (TStruct ts) kind; Ok (a ++ b)).
Proof. reflexivity. Qed.

Lemma init_size_struct_cons t ts kind :
  init_size (TStruct (t :: ts)) kind = init_size t 0 + init_size (TStruct ts) kind.
Proof. reflexivity. Qed.

(* ---------------------------------------------------------------------------------------------- *)
(* small list facts                                                                                *)
Lemma bytes_ok_repeat b n : is_byte b = true -> bytes_ok (repeat b n) = true.
Proof.
  intros Hb. induction n as [|n IH]; [reflexivity|].
  cbn [repeat bytes_ok forallb]. rewrite Hb. exact IH.
Qed.

Lemma concat_repeat_repeat {A} (a : A) m n : concat (repeat (repeat a m) n) = repeat a (n * m).
Proof.
  induction n as [|n IH]; [reflexivity|].
  cbn [repeat concat]. rewrite IH, <- repeat_app. reflexivity.
Qed.

Lemma pow256_pos (lw : nat) : 0 < 256 ^ Z.of_nat lw.
Proof. apply Z.pow_pos_nonneg; lia. Qed.

(* ---------------------------------------------------------------------------------------------- *)
(* List<T, L> initialised from an array of n all-ones items (n = 0: DefaultInit)                    *)
Definition list_init_count (kind : Z) : Z := if kind =? 1 then 3 else if kind =? 2 then 300 else 0.

Lemma init_bytes_list c lw kind :
  init_bytes (TList c lw) kind =
  (if 256 ^ Z.of_nat lw <=? list_init_count kind then Err E_TOPRIM
   else Ok (le_bytes lw (list_init_count kind) ++ zrepeat 1 (Z.of_nat (fsize c) * list_init_count kind))).
Proof. reflexivity. Qed.

Lemma init_size_list c lw kind :
  init_size (TList c lw) kind = Z.of_nat lw + Z.of_nat (fsize c) * list_init_count kind.
Proof. reflexivity. Qed.

Lemma encode_ones_array c lw n : 0 <= n ->
  encode (TList c lw) (VList (repeat (repeat 1 (fsize c)) (Z.to_nat n))) =
  le_bytes lw n ++ zrepeat 1 (Z.of_nat (fsize c) * n).
Proof.
  intros Hn. cbn [encode]. rewrite zlen_repeat, Z2Nat.id by lia.
  rewrite concat_repeat_repeat. unfold zrepeat.
  rewrite Z2Nat.inj_mul, Nat2Z.id, Nat.mul_comm by lia. reflexivity.
Qed.

Lemma init_list_gen c lw kind n : list_init_count kind = n -> 0 <= n ->
  (n < 256 ^ Z.of_nat lw ->
   init_bytes (TList c lw) kind = Ok (encode (TList c lw) (VList (repeat (repeat 1 (fsize c)) (Z.to_nat n)))) /\
   init_size (TList c lw) kind = zlen (encode (TList c lw) (VList (repeat (repeat 1 (fsize c)) (Z.to_nat n))))) /\
  (256 ^ Z.of_nat lw <= n -> init_bytes (TList c lw) kind = Err E_TOPRIM).
Proof.
  intros Hk Hn. rewrite init_bytes_list, init_size_list, Hk. split.
  - intros Hlt. destruct (_ <=? n) eqn:E; [zb; lia|].
    rewrite encode_ones_array by assumption. split; [reflexivity|].
    rewrite zlen_app, zlen_le_bytes, zlen_zrepeat; [reflexivity|]. apply Z.mul_nonneg_nonneg; lia.
  - intros Hge. destruct (_ <=? n) eqn:E; [reflexivity|zb; lia].
Qed.

Lemma list_init_count_cases kind n : (kind = 1 /\ n = 3) \/ (kind = 2 /\ n = 300) ->
  list_init_count kind = n /\ 0 <= n.
Proof. intros [[-> ->]|[-> ->]]; (split; [reflexivity|lia]). Qed.

(* the non-default list initializers of the harness: an array of n all-ones items *)
Lemma init_list_array c lw kind n : (kind = 1 /\ n = 3) \/ (kind = 2 /\ n = 300) -> n < 256 ^ Z.of_nat lw ->
  init_bytes (TList c lw) kind = Ok (encode (TList c lw) (VList (repeat (repeat 1 (fsize c)) (Z.to_nat n)))) /\
  init_size (TList c lw) kind = zlen (encode (TList c lw) (VList (repeat (repeat 1 (fsize c)) (Z.to_nat n)))).
Proof.
  intros Hk Hlt. destruct (list_init_count_cases _ _ Hk) as [Hc Hn].
  exact (proj1 (init_list_gen c lw kind n Hc Hn) Hlt).
Qed.

Lemma init_list_array_too_long c lw kind n : (kind = 1 /\ n = 3) \/ (kind = 2 /\ n = 300) -> 256 ^ Z.of_nat lw <= n ->
  init_bytes (TList c lw) kind = Err E_TOPRIM.
Proof.
  intros Hk Hge. destruct (list_init_count_cases _ _ Hk) as [Hc Hn].
  exact (proj2 (init_list_gen c lw kind n Hc Hn) Hge).
Qed.

(* ---------------------------------------------------------------------------------------------- *)
(* DefaultInit                                                                                     *)
Theorem init_default_exact : forall t, plain t = true -> zero_ok t = true ->
  init_bytes t 0 = Ok (encode t (dflt t)) /\ init_size t 0 = zlen (encode t (dflt t)) /\ wf t (dflt t) = true.
Proof.
  induction t as [c|c lw| |it k IH|ts IH|rw vs IH] using ty_ind'; intros Hpl Hz.
  - (* fixed-size: all zero bytes *)
    cbn [zero_ok] in Hz. cbn [init_bytes init_size dflt encode wf].
    unfold zrepeat. rewrite Nat2Z.id. split; [reflexivity|]. split; [now rewrite zlen_repeat|].
    rewrite repeat_length, Nat.eqb_refl, bytes_ok_repeat by reflexivity. cbn [andb]. exact Hz.
  - (* List: length prefix 0, no items *)
    destruct (init_list_gen c lw 0 0 eq_refl ltac:(lia)) as [H _].
    destruct (H (pow256_pos lw)) as [Hb Hs]. change (Z.to_nat 0) with O in Hb, Hs. cbn [repeat] in Hb, Hs.
    cbn [dflt]. split; [exact Hb|]. split; [exact Hs|].
    cbn [wf forallb]. change (zlen (@nil (list Z))) with 0. rewrite Z.mul_0_r.
    pose proof (pow256_pos lw) as Hp. apply Z.ltb_lt in Hp. rewrite Hp. reflexivity.
  - (* RemainingBytes: empty *)
    cbn. auto.
  - (* UnsizedList / UnsizedMap: the 12-byte empty header *)
    cbn [dflt]. rewrite encode_ulist. split; [reflexivity|]. split; [reflexivity|].
    cbn [wf map forallb zsum]. change (zlen (@nil (list Z * val))) with 0.
    cbn [strictly_ascending]. rewrite orb_true_r. reflexivity.
  - (* struct: field by field *)
    rewrite dflt_struct. revert Hpl Hz.
    induction IH as [|t ts Ht _ IHts]; intros Hpl Hz.
    + cbn. auto.
    + rewrite plain_struct_cons in Hpl. apply andb_true_iff in Hpl as [Hp1 Hp2].
      rewrite zero_ok_struct_cons in Hz. apply andb_true_iff in Hz as [Hz1 Hz2].
      destruct (Ht Hp1 Hz1) as (A & B & C). destruct (IHts Hp2 Hz2) as (A' & B' & C').
      cbn [map]. rewrite init_bytes_struct_cons, init_size_struct_cons, encode_struct_cons, wf_struct_cons.
      rewrite A, A', B, B', C, C', zlen_app. cbn [obind andb]. auto.
  - (* enum: the first listed variant *)
    destruct vs as [|[d vt] r]; [cbn in Hz; discriminate|].
    cbn [zero_ok] in Hz. apply andb_true_iff in Hz as [Hd Hzv]. apply andb_true_iff in Hd as [Hd1 Hd2].
    assert (Hf : find_variant d ((d, vt) :: r) = Some vt) by (cbn [find_variant]; now rewrite Z.eqb_refl).
    pose proof (plain_enum_find _ _ _ _ Hpl Hf) as Hplv.
    apply Forall_cons_iff in IH as [Ht _]. cbn [snd] in Ht. destruct (Ht Hplv Hzv) as (A & B & C).
    cbn [dflt init_bytes init_size]. rewrite A. cbn [obind].
    rewrite (encode_enum_some _ _ _ _ _ Hf), wf_enum, Hf, C, Hd1, Hd2, zlen_app, zlen_le_bytes, B. auto.
Qed.

Print Assumptions init_default_exact.
Print Assumptions init_list_array.
Print Assumptions init_list_array_too_long.
