(* General facts about the notification broadcast and the byte-moving primitives, for ALL shapes
   (lists of unsized elements, enums, any nesting): the allocation never changes size - every write of
   add_bytes / remove_bytes / resize_notification lands inside [0, capacity) or the operation Faults -
   and a resize located before a pointer tree shifts the whole tree, recorded inner pointers included
   (the repaired branch of UnsizedList::resize_notification, D7). *)
From SF Require Import Base.Prelude Gen.Generated Unsized.Types Unsized.Parse Unsized.Machine.
From SF Require Import Unsized.Proofs.EncodeParse Unsized.Proofs.Mem.

Arguments Z.add : simpl never.
Arguments Z.sub : simpl never.
Arguments Z.mul : simpl never.
Arguments Z.of_nat : simpl never.

Lemma adjust_offsets_len m tbl n esz start change m' :
  adjust_offsets m tbl n esz start change = Ok m' -> zlen m' = zlen m.
Proof.
  unfold adjust_offsets.
  destruct (n =? 0); [intros H; now injection H as <-|].
  destruct (change =? 0); [intros H; now injection H as <-|].
  destruct (n <=? start); [intros H; now injection H as <-|].
  destruct (rd32 m _) as [c| | |]; cbn [obind]; try discriminate.
  destruct (_ || _); [discriminate|].
  generalize (Z.to_nat (n - start)) as fuel. intros fuel. revert m m' start.
  induction fuel as [|f IH]; intros m m' i H; [now injection H as <-|].
  destruct (n <=? i); [now injection H as <-|].
  destruct (rd32 m _) as [o| | |]; cbn [obind] in H; try discriminate.
  destruct (wr m _ _) as [m1| | |] eqn:E; cbn [obind] in H; try discriminate.
  apply IH in H. apply wr_len in E. lia.
Qed.

Theorem notify_len : forall t p src c m p' m', notify t p src c m = Ok (p', m') -> zlen m' = zlen m.
Proof.
  induction t as [cc|cc lw| |it k IH|ts IH|rw vs IH] using ty_ind'; intros p src c m p' m' H.
  - destruct p; cbn [notify] in H; try discriminate. now injection H as _ <-.
  - destruct p; cbn [notify] in H; try discriminate. now injection H as _ <-.
  - destruct p; cbn [notify] in H; try discriminate.
    destruct (src <? addr); [now injection H as _ <-|]. destruct (src =? addr); [now injection H as _ <-|discriminate].
  - destruct p as [| | |a n inner pmb rs re| |]; cbn [notify] in H; try discriminate.
    destruct (src <? a).
    { destruct inner as [q|]; [|now injection H as _ <-].
      destruct (notify it q src c m) as [[q' m1]| | |] eqn:E; cbn [obind] in H; try discriminate.
      injection H as _ <-. eapply IH; eauto. }
    destruct (src =? a); [now injection H as _ <-|].
    destruct (rd32 m a) as [usz| | |]; cbn [obind] in H; try discriminate.
    destruct (src <? _); [|now injection H as _ <-].
    destruct inner as [q|]; [|discriminate].
    destruct (notify it q src c m) as [[q' m1]| | |] eqn:E; cbn [obind] in H; try discriminate.
    destruct (wr m1 a _) as [m2| | |] eqn:E2; cbn [obind] in H; try discriminate.
    destruct (read_offsets m2 _ _ _ _) as [offs| | |]; cbn [obind] in H; try discriminate.
    destruct (adjust_offsets m2 _ _ _ _ _) as [m3| | |] eqn:E3; cbn [obind] in H; try discriminate.
    injection H as _ <-. apply adjust_offsets_len in E3. apply wr_len in E2. apply IH in E. lia.
  - destruct p as [| | | |ps|]; try (cbn in H; discriminate).
    cbn [notify] in H.
    match type of H with obind ?X _ = _ => destruct X as [[ps' mm]| | |] eqn:E end; cbn [obind] in H; try discriminate.
    injection H as _ <-. clear p'.
    revert ps m ps' mm E. induction IH as [|t ts Ht _ IHts]; intros ps m ps' mm E.
    + destruct ps; injection E as _ <-; reflexivity.
    + destruct ps as [|q ps]; [injection E as _ <-; reflexivity|].
      destruct (notify t q src c m) as [[q' m1]| | |] eqn:E1; cbn [obind] in E; try discriminate.
      match type of E with obind ?X _ = _ => destruct X as [[r' m2]| | |] eqn:E2 end; cbn [obind] in E; try discriminate.
      injection E as _ <-. apply Ht in E1. apply IHts in E2. lia.
  - destruct p as [| | | | |st d q]; try (cbn in H; discriminate).
    cbn [notify] in H.
    induction IH as [|[d' t'] vs Ht _ IHvs]; [discriminate|].
    destruct (d =? d').
    + destruct (notify t' q src c m) as [[q' m1]| | |] eqn:E; cbn [obind] in H; try discriminate.
      injection H as _ <-. eapply Ht; eauto.
    + apply IHvs. exact H.
Qed.

(* add_bytes / remove_bytes never change the size of the allocation *)
Theorem add_bytes_cap t s top src start amount s' top' :
  add_bytes t s top src start amount = Ok (s', top') -> m_cap s' = m_cap s.
Proof.
  unfold add_bytes. destruct (negb _); [discriminate|]. destruct (_ || _); [discriminate|].
  destruct (amount =? 0); [intros H; now injection H as <- _|].
  destruct (realloc s _) as [s1| | |] eqn:E1; cbn [obind]; try discriminate.
  match goal with |- obind ?X _ = _ -> _ => destruct X as [m1| | |] eqn:E2 end; cbn [obind]; try discriminate.
  destruct (notify t top src amount m1) as [[top1 m2]| | |] eqn:E3; cbn [obind]; try discriminate.
  intros H; injection H as <- _. unfold m_cap. cbn [set_mem m_mem].
  apply notify_len in E3. apply realloc_cap in E1. unfold m_cap in E1.
  destruct (start =? m_len s); [injection E2 as <-; lia|apply mmove_len in E2; lia].
Qed.

Theorem remove_bytes_cap t s top src start end_ s' top' :
  remove_bytes t s top src start end_ = Ok (s', top') -> m_cap s' = m_cap s.
Proof.
  unfold remove_bytes. destruct (negb _); [discriminate|]. destruct (_ || _); [discriminate|]. destruct (_ || _); [discriminate|].
  destruct (_ =? 0); [intros H; now injection H as <- _|].
  match goal with |- obind ?X _ = _ -> _ => destruct X as [m1| | |] eqn:E2 end; cbn [obind]; try discriminate.
  destruct (realloc _ _) as [s1| | |] eqn:E1; cbn [obind]; try discriminate.
  destruct (notify t top src _ _) as [[top1 m2]| | |] eqn:E3; cbn [obind]; try discriminate.
  intros H; injection H as <- _. unfold m_cap. cbn [set_mem m_mem].
  apply notify_len in E3. apply realloc_cap in E1. unfold m_cap in E1. cbn [set_mem m_mem] in E1.
  destruct (end_ =? m_len s); [injection E2 as <-; lia|apply mmove_len in E2; lia].
Qed.

(* ---------------------------------------------------------------------------------------------- *)
(* the shift lemma                                                                                 *)
Fixpoint shift (c : Z) (p : ptr) : ptr :=
  match p with
  | PFixed a => PFixed (a + c)
  | PList a b => PList (a + c) b
  | PRem a l => PRem (a + c) l
  | PUList a n inner pmb rs re =>
      PUList (a + c) n (match inner with Some q => Some (shift c q) | None => None end) pmb (rs + c) (re + c)
  | PStruct fs => PStruct (map (shift c) fs)
  | PEnum st d q => PEnum (st + c) d (shift c q)
  end.

(* the pointer tree has the shape of the type and every address in it (recorded inner pointers included)
   is strictly after src *)
Fixpoint after (src : Z) (t : ty) (p : ptr) {struct t} : bool :=
  match t, p with
  | TFixed _, PFixed a => src <? a
  | TList _ _, PList a _ => src <? a
  | TRem, PRem a _ => src <? a
  | TUList it _, PUList a _ inner _ _ _ =>
      (src <? a) && match inner with Some q => after src it q | None => true end
  | TStruct ts, PStruct ps =>
      (fix go ts ps :=
         match ts, ps with
         | [], [] => true
         | t :: ts', q :: ps' => after src t q && go ts' ps'
         | _, _ => false
         end) ts ps
  | TEnum _ vs, PEnum st d q =>
      (src <? st) &&
      (fix go vs := match vs with [] => false | (d', vt) :: r => if d =? d' then after src vt q else go r end) vs
  | _, _ => false
  end.

Theorem notify_shift : forall t p src c m, after src t p = true -> notify t p src c m = Ok (shift c p, m).
Proof.
  induction t as [cc|cc lw| |it k IH|ts IH|rw vs IH] using ty_ind'; intros p src c m H.
  - destruct p; cbn [after] in H; try discriminate. cbn [notify shift]. now rewrite H.
  - destruct p; cbn [after] in H; try discriminate. cbn [notify shift]. now rewrite H.
  - destruct p; cbn [after] in H; try discriminate. cbn [notify shift]. now rewrite H.
  - destruct p as [| | |a n inner pmb rs re| |]; cbn [after] in H; try discriminate.
    apply andb_true_iff in H as [Ha Hi]. cbn [notify shift]. rewrite Ha.
    destruct inner as [q|]; [|reflexivity]. rewrite (IH q src c m Hi). reflexivity.
  - destruct p as [| | | |ps|]; try (cbn in H; discriminate).
    cbn [notify shift].
    assert (forall ps m, (fix go ts ps := match ts, ps with
                                          | [], [] => true
                                          | t :: ts', q :: ps' => after src t q && go ts' ps'
                                          | _, _ => false end) ts ps = true ->
            (fix go (ts : list ty) (ps : list ptr) (m : list Z) {struct ts} : out (list ptr * list Z) :=
               match ts, ps with
               | t :: ts', q :: ps' =>
                   do ' (q', m1) <- notify t q src c m; do ' (r', m2) <- go ts' ps' m1; Ok (q' :: r', m2)
               | _, _ => Ok ([], m)
               end) ts ps m = Ok (map (shift c) ps, m)) as Hgo.
    { clear H ps m. induction IH as [|t ts Ht _ IHts]; intros ps m H.
      - destruct ps; [reflexivity|discriminate].
      - destruct ps as [|q ps]; [discriminate|]. apply andb_true_iff in H as [H1 H2].
        rewrite (Ht q src c m H1). cbn [obind]. rewrite (IHts ps m H2). reflexivity. }
    cbn [after] in H. rewrite (Hgo ps m H). reflexivity.
  - destruct p as [| | | | |st d q]; try (cbn in H; discriminate).
    cbn [after] in H. apply andb_true_iff in H as [Hs Hv]. cbn [notify shift]. rewrite Hs.
    induction IH as [|[d' t'] vs Ht _ IHvs]; [discriminate|].
    destruct (d =? d'); [|apply IHvs; exact Hv].
    cbn [snd] in Ht. rewrite (Ht q src c m Hv). reflexivity.
Qed.

(* ---------------------------------------------------------------------------------------------- *)
(* check_pointers only accepts trees all of whose addresses lie in the range: a pointer (sub-tree) that
   belongs to a different buffer is detected (C03, swapped accessors)                               *)
Fixpoint addrs (p : ptr) : list Z :=
  match p with
  | PFixed a | PList a _ | PRem a _ => [a]
  | PUList a _ inner pmb _ _ => a :: match inner with Some q => if pmb then addrs q else [] | None => [] end
  | PStruct fs => flat_map addrs fs
  | PEnum st _ q => st :: addrs q
  end.

Theorem check_ptrs_in_range : forall p lo hi cursor, lo <= hi ->
  fst (check_ptrs p lo hi cursor) = true -> Forall (fun a => lo <= a <= hi) (addrs p).
Proof.
  fix IH 1. intros p lo hi cursor Hlh H. destruct p as [a|a b|a l|a n inner pmb rs re|fs|st d q]; cbn [addrs check_ptrs fst] in *.
  - unfold in_range in H. zb. constructor; [lia|constructor].
  - unfold in_range in H. zb. constructor; [lia|constructor].
  - apply andb_true_iff in H as [_ H]. apply orb_true_iff in H as [H|H]; unfold in_range in *; zb; (constructor; [lia|constructor]).
  - apply andb_true_iff in H as [H Hi]. apply andb_true_iff in H as [_ H]. unfold in_range in H. zb.
    constructor; [lia|]. destruct inner as [q|]; [|constructor]. destruct pmb; [|constructor]. apply (IH q lo hi lo Hlh). exact Hi.
  - revert cursor H. induction fs as [|f fs IHfs]; intros cursor H; [constructor|].
    cbn [flat_map]. destruct (check_ptrs f lo hi cursor) as [b c1] eqn:E.
    destruct b; [|discriminate]. apply Forall_app. split.
    + apply (IH f lo hi cursor Hlh). now rewrite E.
    + apply (IHfs c1). exact H.
  - destruct ((cursor <=? st) && in_range st lo hi) eqn:E; [|discriminate].
    apply andb_true_iff in E as [_ E]. unfold in_range in E. zb. constructor; [lia|]. apply (IH q lo hi st Hlh). exact H.
Qed.

Corollary foreign_pointer_detected p lo hi cursor a :
  lo <= hi -> In a (addrs p) -> (a < lo \/ hi < a) -> fst (check_ptrs p lo hi cursor) = false.
Proof.
  intros Hlh Hin Hout. destruct (fst (check_ptrs p lo hi cursor)) eqn:E; [|reflexivity].
  apply check_ptrs_in_range in E; [|exact Hlh]. rewrite Forall_forall in E. specialize (E a Hin). lia.
Qed.

Lemma realloc_refuse s n s' : realloc s n = Ok s' -> m_refuse s' = m_refuse s.
Proof.
  unfold realloc. destruct (_ && _); [discriminate|]. destruct (_ <? n); [discriminate|].
  destruct (m_len s <? n).
  - destruct (wr _ _ _); cbn [obind]; try discriminate. intros H; now injection H as <-.
  - intros H; now injection H as <-.
Qed.

Lemma add_bytes_refuse t s top src start amount s' top' :
  add_bytes t s top src start amount = Ok (s', top') -> m_refuse s' = m_refuse s.
Proof.
  unfold add_bytes. destruct (negb _); [discriminate|]. destruct (_ || _); [discriminate|].
  destruct (amount =? 0); [intros H; now injection H as <- _|].
  destruct (realloc s _) as [s1| | |] eqn:E1; cbn [obind]; try discriminate.
  match goal with |- obind ?X _ = _ -> _ => destruct X as [m1| | |] end; cbn [obind]; try discriminate.
  destruct (notify t top src amount m1) as [[top1 m2]| | |]; cbn [obind]; try discriminate.
  intros H; injection H as <- _. cbn [set_mem m_refuse]. eapply realloc_refuse; eauto.
Qed.

Lemma remove_bytes_refuse t s top src start end_ s' top' :
  remove_bytes t s top src start end_ = Ok (s', top') -> m_refuse s' = m_refuse s.
Proof.
  unfold remove_bytes. destruct (negb _); [discriminate|]. destruct (_ || _); [discriminate|]. destruct (_ || _); [discriminate|].
  destruct (_ =? 0); [intros H; now injection H as <- _|].
  match goal with |- obind ?X _ = _ -> _ => destruct X as [m1| | |] end; cbn [obind]; try discriminate.
  destruct (realloc _ _) as [s1| | |] eqn:E1; cbn [obind]; try discriminate.
  destruct (notify t top src _ _) as [[top1 m2]| | |]; cbn [obind]; try discriminate.
  intros H; injection H as <- _. cbn [set_mem m_refuse]. apply realloc_refuse in E1. exact E1.
Qed.
