(* Pointer trees under a resize that happens elsewhere: monotonicity and translation of `after`, every layout
   lies at or after its base, a shifted layout is the layout at the shifted address, a resize at or beyond the
   end of a value leaves its tree and the memory alone, fields that start after the source are shifted. *)
From SF Require Import Base.Prelude Gen.Generated Unsized.Types Unsized.Parse Unsized.Machine Unsized.Ops.
From SF Require Import Unsized.Proofs.EncodeParse Unsized.Proofs.Mem Unsized.Proofs.Notify Unsized.Proofs.Flat Unsized.Proofs.Layout Unsized.Proofs.Table Unsized.Proofs.Path.
From SF Require Import Unsized.Proofs.EnumFacts.

Arguments Z.add : simpl never.
Arguments Z.sub : simpl never.
Arguments Z.mul : simpl never.
Arguments Z.of_nat : simpl never.
Arguments Z.pow : simpl never.
Arguments Z.modulo : simpl never.

(* ---------------------------------------------------------------------------------------------- *)
(* unfolding equations for `after`                                                                 *)
Fixpoint after_fields (src : Z) (ts : list ty) (ps : list ptr) : bool :=
  match ts, ps with
  | [], [] => true
  | t :: ts', q :: ps' => after src t q && after_fields src ts' ps'
  | _, _ => false
  end.

Lemma after_struct src ts ps : after src (TStruct ts) (PStruct ps) = after_fields src ts ps.
Proof.
  cbn [after]. revert ps. induction ts as [|t ts IH]; intros [|q ps]; try reflexivity.
  cbn [after_fields]. rewrite <- IH. reflexivity.
Qed.

Fixpoint after_var (src d : Z) (q : ptr) (vs : list (Z * ty)) : bool :=
  match vs with
  | [] => false
  | (d', vt) :: r => if d =? d' then after src vt q else after_var src d q r
  end.

Lemma after_enum src rw vs st d q : after src (TEnum rw vs) (PEnum st d q) = (src <? st) && after_var src d q vs.
Proof.
  cbn [after]. f_equal. induction vs as [|[d' t'] vs IH]; [reflexivity|].
  cbn [after_var]. rewrite <- IH. reflexivity.
Qed.

(* ---------------------------------------------------------------------------------------------- *)
(* A: monotonicity                                                                                 *)
Lemma after_mono : forall t p s s', after s t p = true -> s' <= s -> after s' t p = true.
Proof.
  induction t as [cc|cc lw| |it k IH|ts IH|rw vs IH] using ty_ind'; intros p s s' H Hle.
  - destruct p; cbn [after] in *; try discriminate. zb. apply Z.ltb_lt. lia.
  - destruct p; cbn [after] in *; try discriminate. zb. apply Z.ltb_lt. lia.
  - destruct p; cbn [after] in *; try discriminate. zb. apply Z.ltb_lt. lia.
  - destruct p as [| | |a n inner pmb rs re| |]; cbn [after] in *; try discriminate.
    apply andb_true_iff in H as [Ha Hi]. apply andb_true_iff. split; [zb; apply Z.ltb_lt; lia|].
    destruct inner as [q|]; [|reflexivity]. eapply IH; eauto.
  - destruct p as [| | | |ps|]; try (cbn in H; discriminate).
    rewrite after_struct in *. revert ps H.
    induction IH as [|t ts Ht _ IHts]; intros [|q ps] H; cbn [after_fields] in *; try discriminate; [reflexivity|].
    apply andb_true_iff in H as [H1 H2]. apply andb_true_iff. split; [eapply Ht; eauto|apply IHts; exact H2].
  - destruct p as [| | | | |st d q]; try (cbn in H; discriminate).
    rewrite after_enum in *. apply andb_true_iff in H as [H1 H2]. apply andb_true_iff. split; [zb; apply Z.ltb_lt; lia|].
    induction IH as [|[d' t'] vs Ht _ IHvs]; cbn [after_var] in *; [discriminate|].
    destruct (d =? d'); [cbn [snd] in Ht; eapply Ht; eauto|apply IHvs; exact H2].
Qed.

(* B: translation                                                                                  *)
Lemma after_shift : forall t p s c, after s t p = true -> after (s + c) t (shift c p) = true.
Proof.
  induction t as [cc|cc lw| |it k IH|ts IH|rw vs IH] using ty_ind'; intros p s c H.
  - destruct p; cbn [after shift] in *; try discriminate. zb. apply Z.ltb_lt. lia.
  - destruct p; cbn [after shift] in *; try discriminate. zb. apply Z.ltb_lt. lia.
  - destruct p; cbn [after shift] in *; try discriminate. zb. apply Z.ltb_lt. lia.
  - destruct p as [| | |a n inner pmb rs re| |]; cbn [after] in H; try discriminate.
    apply andb_true_iff in H as [Ha Hi].
    destruct inner as [q|]; cbn [after shift]; apply andb_true_iff; (split; [zb; apply Z.ltb_lt; lia|]); [|reflexivity].
    apply IH. exact Hi.
  - destruct p as [| | | |ps|]; try (cbn in H; discriminate).
    cbn [shift]. rewrite after_struct in *. revert ps H.
    induction IH as [|t ts Ht _ IHts]; intros [|q ps] H; cbn [after_fields map] in *; try discriminate; [reflexivity|].
    apply andb_true_iff in H as [H1 H2]. apply andb_true_iff. split; [apply Ht; exact H1|apply IHts; exact H2].
  - destruct p as [| | | | |st d q]; try (cbn in H; discriminate).
    cbn [shift]. rewrite after_enum in *. apply andb_true_iff in H as [H1 H2]. apply andb_true_iff.
    split; [zb; apply Z.ltb_lt; lia|].
    induction IH as [|[d' t'] vs Ht _ IHvs]; cbn [after_var] in *; [discriminate|].
    destruct (d =? d'); [cbn [snd] in Ht; apply Ht; exact H2|apply IHvs; exact H2].
Qed.

(* ---------------------------------------------------------------------------------------------- *)
(* C: every address of a layout at b lies at or after b                                            *)
Lemma Lay_after : forall t v b p src, plain t = true -> wf t v = true -> Lay t v b p -> src < b -> after src t p = true.
Proof.
  induction t as [cc|cc lw| |it k IH|ts IH|rw vs IH] using ty_ind'; intros v b p src Hpl Hwf HL Hlt.
  - destruct v as [bs| | | |]; try (cbn in Hwf; discriminate). destruct p as [a| | | | |]; try (cbn [Lay] in HL; contradiction).
    cbn [Lay] in HL. subst a. cbn [after]. apply Z.ltb_lt. lia.
  - destruct v as [|items| | |]; try (cbn in Hwf; discriminate). destruct p as [|a bl| | | |]; try (cbn [Lay] in HL; contradiction).
    cbn [Lay] in HL. destruct HL as [-> _]. cbn [after]. apply Z.ltb_lt. lia.
  - destruct v as [bs| | | |]; try (cbn in Hwf; discriminate). destruct p as [| |a l| | |]; try (cbn [Lay] in HL; contradiction).
    cbn [Lay] in HL. destruct HL as [-> _]. cbn [after]. apply Z.ltb_lt. lia.
  - destruct v as [| |items| |]; try (cbn in Hwf; discriminate).
    destruct p as [| | |a n inner pmb rs re| |]; try (cbn [Lay] in HL; contradiction).
    cbn [Lay] in HL. destruct HL as (-> & -> & -> & -> & Hin).
    pose proof (ulist_facts _ _ _ Hwf) as F.
    cbn [after]. apply andb_true_iff. split; [apply Z.ltb_lt; lia|].
    destruct inner as [q|]; [|reflexivity]. destruct pmb.
    + destruct Hin as (i & kv & Hn & Hq).
      destruct (elem_inside it k items b i kv F Hn) as [He1 _]. pose proof (uf_n _ _ _ F).
      apply (IH (snd kv) (elem_addr it k items b i) q src);
        [exact Hpl|exact (wf_nth _ _ _ _ (uf_wfs _ _ _ F) Hn)|exact Hq|nia].
    + apply (after_mono it q b src Hin). lia.
  - destruct v as [| | |vs0|]; try (cbn in Hwf; discriminate).
    destruct p as [| | | |ps|]; try (cbn [Lay] in HL; contradiction).
    rewrite Lay_struct in HL. rewrite after_struct.
    revert vs0 ps b Hpl Hwf HL Hlt.
    induction IH as [|t ts Ht _ IHts]; intros vs0 ps b Hpl Hwf HL Hlt.
    + destruct vs0; [|cbn in Hwf; discriminate]. destruct ps; [|contradiction]. reflexivity.
    + destruct vs0 as [|v vs0]; [cbn in Hwf; discriminate|]. destruct ps as [|q ps]; [contradiction|].
      rewrite wf_struct_cons in Hwf. apply andb_true_iff in Hwf as [Hv Hvs].
      rewrite plain_struct_cons in Hpl. apply andb_true_iff in Hpl as [Hp1 Hp2].
      cbn [Lay_fields] in HL. destruct HL as [HLq HLr]. cbn [after_fields].
      pose proof (zlen_nonneg (encode t v)).
      rewrite (Ht v b q src Hp1 Hv HLq Hlt). apply (IHts vs0 ps _ Hp2 Hvs HLr). lia.
  - destruct v as [| | | |d pv]; try (cbn in Hwf; discriminate).
    destruct p as [| | | | |st d' q]; try (cbn [Lay] in HL; contradiction).
    apply Lay_enum in HL. destruct HL as (-> & -> & vt' & Hf' & HLq).
    destruct (wf_enum_inv _ _ _ _ Hwf) as (Hd & vt & Hf & Hp). rewrite Hf in Hf'. injection Hf' as <-.
    pose proof (plain_enum_find _ _ _ _ Hpl Hf) as Hplv.
    enum_ih IH Hf IHv.
    rewrite after_enum_find, Hf. apply andb_true_iff. split; [apply Z.ltb_lt; lia|].
    apply (IHv pv (b + Z.of_nat rw) q src Hplv Hp HLq). lia.
Qed.

Lemma Lay_fields_after ts vs ps b src :
  plain (TStruct ts) = true -> wf (TStruct ts) (VStruct vs) = true -> Lay_fields ts vs ps b -> src < b ->
  after_fields src ts ps = true.
Proof.
  intros Hpl Hwf HL Hlt. rewrite <- after_struct. rewrite <- Lay_struct in HL. eapply Lay_after; eauto.
Qed.

(* ---------------------------------------------------------------------------------------------- *)
(* D: a layout shifted is the layout at the shifted address                                        *)
Lemma Lay_shift : forall t v b p c, plain t = true -> wf t v = true -> Lay t v b p -> Lay t v (b + c) (shift c p).
Proof.
  induction t as [cc|cc lw| |it k IH|ts IH|rw vs IH] using ty_ind'; intros v b p c Hpl Hwf HL.
  - destruct v as [bs| | | |]; try (cbn in Hwf; discriminate). destruct p as [a| | | | |]; try (cbn [Lay] in HL; contradiction).
    cbn [Lay] in HL. subst a. cbn [shift Lay]. reflexivity.
  - destruct v as [|items| | |]; try (cbn in Hwf; discriminate). destruct p as [|a bl| | | |]; try (cbn [Lay] in HL; contradiction).
    cbn [Lay] in HL. destruct HL as [-> ->]. cbn [shift Lay]. split; reflexivity.
  - destruct v as [bs| | | |]; try (cbn in Hwf; discriminate). destruct p as [| |a l| | |]; try (cbn [Lay] in HL; contradiction).
    cbn [Lay] in HL. destruct HL as [-> ->]. cbn [shift Lay]. split; reflexivity.
  - destruct v as [| |items| |]; try (cbn in Hwf; discriminate).
    destruct p as [| | |a n inner pmb rs re| |]; try (cbn [Lay] in HL; contradiction).
    cbn [Lay] in HL. destruct HL as (-> & -> & -> & -> & Hin).
    pose proof (ulist_facts _ _ _ Hwf) as F.
    destruct inner as [q|]; [destruct pmb|]; cbn [shift Lay];
      (split; [reflexivity|]); (split; [reflexivity|]); (split; [reflexivity|]); (split; [lia|]).
    + destruct Hin as (i & kv & Hn & Hq). exists i, kv. split; [exact Hn|].
      replace (elem_addr it k items (b + c) i) with (elem_addr it k items b i + c) by (unfold elem_addr; lia).
      apply IH; [exact Hpl|exact (wf_nth _ _ _ _ (uf_wfs _ _ _ F) Hn)|exact Hq].
    + apply after_shift. exact Hin.
    + exact I.
  - destruct v as [| | |vs0|]; try (cbn in Hwf; discriminate).
    destruct p as [| | | |ps|]; try (cbn [Lay] in HL; contradiction).
    cbn [shift]. rewrite Lay_struct in *.
    revert vs0 ps b Hpl Hwf HL.
    induction IH as [|t ts Ht _ IHts]; intros vs0 ps b Hpl Hwf HL.
    + destruct vs0; [|cbn in Hwf; discriminate]. destruct ps; [|contradiction]. exact I.
    + destruct vs0 as [|v vs0]; [cbn in Hwf; discriminate|]. destruct ps as [|q ps]; [contradiction|].
      rewrite wf_struct_cons in Hwf. apply andb_true_iff in Hwf as [Hv Hvs].
      rewrite plain_struct_cons in Hpl. apply andb_true_iff in Hpl as [Hp1 Hp2].
      cbn [Lay_fields] in HL. destruct HL as [HLq HLr]. cbn [map Lay_fields].
      split; [apply Ht; assumption|].
      replace (b + c + zlen (encode t v)) with (b + zlen (encode t v) + c) by lia.
      apply IHts; assumption.
  - destruct v as [| | | |d pv]; try (cbn in Hwf; discriminate).
    destruct p as [| | | | |st d' q]; try (cbn [Lay] in HL; contradiction).
    apply Lay_enum in HL. destruct HL as (-> & -> & vt' & Hf' & HLq).
    destruct (wf_enum_inv _ _ _ _ Hwf) as (Hd & vt & Hf & Hp). rewrite Hf in Hf'. injection Hf' as <-.
    pose proof (plain_enum_find _ _ _ _ Hpl Hf) as Hplv.
    enum_ih IH Hf IHv.
    cbn [shift]. apply Lay_enum. split; [reflexivity|]. split; [reflexivity|]. exists vt. split; [exact Hf|].
    replace (b + c + Z.of_nat rw) with (b + Z.of_nat rw + c) by lia. apply IHv; assumption.
Qed.

Lemma Lay_fields_shift ts vs ps b c : plain (TStruct ts) = true -> wf (TStruct ts) (VStruct vs) = true ->
  Lay_fields ts vs ps b -> Lay_fields ts vs (map (shift c) ps) (b + c).
Proof.
  intros Hpl Hwf HL. rewrite <- Lay_struct in HL.
  pose proof (Lay_shift _ _ _ _ c Hpl Hwf HL) as H2. cbn [shift] in H2. rewrite Lay_struct in H2. exact H2.
Qed.

(* ---------------------------------------------------------------------------------------------- *)
(* E: a resize at or beyond the end of a value leaves its pointer tree and the memory alone        *)
Definition past_stmt (t : ty) : Prop :=
  forall last v p pre post src c,
    plain t = true -> ty_ok last t = true -> last = false -> wf t v = true -> Lay t v (zlen pre) p ->
    zlen pre + zlen (encode t v) <= src ->
    notify t p src c (pre ++ encode t v ++ post) = Ok (p, pre ++ encode t v ++ post).

Lemma ty_ok_false_fields ts : ty_ok false (TStruct ts) = true -> forallb (ty_ok false) ts = true.
Proof.
  induction ts as [|t ts IH]; [reflexivity|]. destruct ts as [|t2 ts].
  - rewrite ty_ok_struct_one. intros H. cbn [forallb]. now rewrite H.
  - rewrite ty_ok_struct_cons. intros H. apply andb_true_iff in H as [H1 H2].
    change (ty_ok false t && forallb (ty_ok false) (t2 :: ts) = true). rewrite H1. apply IH. exact H2.
Qed.

Lemma notify_fields_past_gen ts : Forall past_stmt ts ->
  forall vs ps pre post src c,
    plain (TStruct ts) = true -> forallb (ty_ok false) ts = true -> wf (TStruct ts) (VStruct vs) = true ->
    Lay_fields ts vs ps (zlen pre) -> zlen pre + zlen (encs ts vs) <= src ->
    notify_fields ts ps src c (pre ++ encs ts vs ++ post) = Ok (ps, pre ++ encs ts vs ++ post).
Proof.
  induction 1 as [|t ts Ht _ IHts]; intros vs ps pre post src c Hpl Hok Hwf HL Hle.
  - destruct vs; [|cbn in Hwf; discriminate]. destruct ps; [|contradiction]. reflexivity.
  - destruct vs as [|v vs]; [cbn in Hwf; discriminate|]. destruct ps as [|q ps]; [contradiction|].
    rewrite wf_struct_cons in Hwf. apply andb_true_iff in Hwf as [Hv Hvs].
    rewrite plain_struct_cons in Hpl. apply andb_true_iff in Hpl as [Hp1 Hp2].
    cbn [forallb] in Hok. apply andb_true_iff in Hok as [Hok1 Hok2].
    cbn [Lay_fields] in HL. destruct HL as [HLq HLr].
    rewrite encs_cons, zlen_app in Hle. rewrite encs_cons, <- app_assoc.
    pose proof (zlen_nonneg (encode t v)). pose proof (zlen_nonneg (encs ts vs)).
    cbn [notify_fields].
    rewrite (Ht false v q pre (encs ts vs ++ post) src c Hp1 Hok1 eq_refl Hv HLq) by lia. cbn [obind].
    specialize (IHts vs ps (pre ++ encode t v) post src c Hp2 Hok2 Hvs).
    rewrite zlen_app, <- app_assoc in IHts. rewrite IHts; [reflexivity|exact HLr|lia].
Qed.

Lemma notify_past_all : forall t, past_stmt t.
Proof.
  induction t as [cc|cc lw| |it k IH|ts IH|rw vs IH] using ty_ind';
    intros last v p pre post src c Hpl Hok Hlast Hwf HL Hle; subst last.
  - destruct v as [bs| | | |]; try (cbn in Hwf; discriminate). destruct p as [a| | | | |]; try (cbn [Lay] in HL; contradiction).
    cbn [Lay] in HL. subst a. pose proof (zlen_nonneg (encode (TFixed cc) (VBytes bs))).
    cbn [notify]. destruct (src <? zlen pre) eqn:E; [zb; lia|reflexivity].
  - destruct v as [|items| | |]; try (cbn in Hwf; discriminate). destruct p as [|a bl| | | |]; try (cbn [Lay] in HL; contradiction).
    cbn [Lay] in HL. destruct HL as [-> ->]. pose proof (zlen_nonneg (encode (TList cc lw) (VList items))).
    cbn [notify]. destruct (src <? zlen pre) eqn:E; [zb; lia|reflexivity].
  - cbn in Hok. discriminate.
  - destruct v as [| |items| |]; try (cbn in Hwf; discriminate).
    destruct p as [| | |a n inner pmb rs re| |]; try (cbn [Lay] in HL; contradiction).
    cbn [Lay] in HL. destruct HL as (-> & -> & -> & -> & Hin).
    pose proof (ulist_facts _ _ _ Hwf) as F. pose proof (zlen_encode_ulist _ _ _ F) as Hsz.
    pose proof (uf_n _ _ _ F) as Hn. pose proof (uf_usz _ _ _ F) as Hu.
    assert (0 <= zlen items * (4 + Z.of_nat k)) as Hprod by nia.
    assert (rd32 (pre ++ encode (TUList it k) (VUList items) ++ post) (zlen pre) = Ok (zsum (usizes it items))) as Hrd.
    { rewrite encode_ulist, <- !app_assoc. apply rd32_mid; [reflexivity|exact Hu]. }
    cbn [notify].
    destruct (src <? zlen pre) eqn:E1; [zb; lia|].
    destruct (src =? zlen pre) eqn:E2; [zb; lia|].
    rewrite Hrd. cbn [obind].
    destruct (src <? zlen pre + _) eqn:E3; [zb; lia|reflexivity].
  - destruct v as [| | |vs0|]; try (cbn in Hwf; discriminate).
    destruct p as [| | | |ps|]; try (cbn [Lay] in HL; contradiction).
    rewrite Lay_struct in HL. rewrite notify_struct.
    change (encode (TStruct ts) (VStruct vs0)) with (encs ts vs0) in *.
    rewrite (notify_fields_past_gen ts IH vs0 ps pre post src c Hpl (ty_ok_false_fields _ Hok) Hwf HL Hle).
    reflexivity.
  - destruct v as [| | | |d pv]; try (cbn in Hwf; discriminate).
    destruct p as [| | | | |st d' q]; try (cbn [Lay] in HL; contradiction).
    apply Lay_enum in HL. destruct HL as (-> & -> & vt' & Hf' & HLq).
    destruct (wf_enum_inv _ _ _ _ Hwf) as (Hd & vt & Hf & Hp). rewrite Hf in Hf'. injection Hf' as <-.
    pose proof (plain_enum_find _ _ _ _ Hpl Hf) as Hplv.
    enum_ih IH Hf IHv.
    pose proof (ty_ok_enum_variant _ _ _ _ _ Hok Hf) as Hokv.
    rewrite (zlen_encode_enum _ _ _ _ _ Hf) in Hle. pose proof (zlen_nonneg (encode vt pv)).
    rewrite notify_enum, Hf, (encode_enum_some _ _ _ _ _ Hf), <- app_assoc.
    specialize (IHv false pv q (pre ++ le_bytes rw d) post src c Hplv Hokv eq_refl Hp).
    rewrite zlen_app, zlen_le_bytes, <- app_assoc in IHv. rewrite (IHv HLq) by lia. cbn [obind].
    destruct (src <? zlen pre) eqn:E; [zb; lia|reflexivity].
Qed.

Lemma notify_past : forall t last v p pre post src c,
  plain t = true -> ty_ok last t = true -> last = false -> wf t v = true -> Lay t v (zlen pre) p ->
  zlen pre + zlen (encode t v) <= src ->
  notify t p src c (pre ++ encode t v ++ post) = Ok (p, pre ++ encode t v ++ post).
Proof. exact notify_past_all. Qed.

Lemma notify_fields_past : forall ts vs ps pre post src c,
  plain (TStruct ts) = true -> forallb (ty_ok false) ts = true -> wf (TStruct ts) (VStruct vs) = true ->
  Lay_fields ts vs ps (zlen pre) -> zlen pre + zlen (encs ts vs) <= src ->
  notify_fields ts ps src c (pre ++ encs ts vs ++ post) = Ok (ps, pre ++ encs ts vs ++ post).
Proof.
  intros ts. apply notify_fields_past_gen. apply Forall_forall. intros t _. apply notify_past_all.
Qed.

(* ---------------------------------------------------------------------------------------------- *)
(* F: fields that start after the source are shifted, memory untouched                             *)
Lemma notify_fields_shift : forall ts vs ps b src c m,
  plain (TStruct ts) = true -> wf (TStruct ts) (VStruct vs) = true -> Lay_fields ts vs ps b -> src < b ->
  notify_fields ts ps src c m = Ok (map (shift c) ps, m).
Proof.
  induction ts as [|t ts IH]; intros vs ps b src c m Hpl Hwf HL Hlt.
  - destruct vs; [|cbn in Hwf; discriminate]. destruct ps; [|contradiction]. reflexivity.
  - destruct vs as [|v vs]; [cbn in Hwf; discriminate|]. destruct ps as [|q ps]; [contradiction|].
    rewrite wf_struct_cons in Hwf. apply andb_true_iff in Hwf as [Hv Hvs].
    rewrite plain_struct_cons in Hpl. apply andb_true_iff in Hpl as [Hp1 Hp2].
    cbn [Lay_fields] in HL. destruct HL as [HLq HLr].
    pose proof (zlen_nonneg (encode t v)).
    cbn [notify_fields map].
    rewrite (notify_shift t q src c m (Lay_after t v b q src Hp1 Hv HLq Hlt)). cbn [obind].
    rewrite (IH vs ps (b + zlen (encode t v)) src c m Hp2 Hvs HLr) by lia. reflexivity.
Qed.

Print Assumptions notify_past.
Print Assumptions Lay_shift.
Print Assumptions notify_fields_shift.
