(* The full operation set at any nesting depth: on top of List::insert_all / remove_range (History.v) the in-place
   stores (List index_mut, RemainingBytes index_mut), RemainingBytes::set_len, and the element-level operations of
   lists of unsized elements (insert of default-initialised elements, remove_range, clear).  One refinement
   theorem per step, lifted to every finite history. *)
From SF Require Import Base.Prelude Gen.Generated Unsized.Types Unsized.Parse Unsized.Machine Unsized.Ops.
From SF Require Import Unsized.Proofs.EncodeParse Unsized.Proofs.Mem Unsized.Proofs.Notify Unsized.Proofs.Flat Unsized.Proofs.Layout
  Unsized.Proofs.Observe Unsized.Proofs.Table Unsized.Proofs.Path Unsized.Proofs.Context Unsized.Proofs.Context2 Unsized.Proofs.Focus
  Unsized.Proofs.Pos Unsized.Proofs.FocusOps Unsized.Proofs.NotifyInside Unsized.Proofs.Resize Unsized.Proofs.GenOps
  Unsized.Proofs.GenOps2 Unsized.Proofs.Init Unsized.Proofs.UInsert Unsized.Proofs.URemove Unsized.Proofs.History.
From SF Require Import Unsized.Proofs.EnumFacts.

Arguments Z.add : simpl never.
Arguments Z.sub : simpl never.
Arguments Z.mul : simpl never.
Arguments Z.of_nat : simpl never.
Arguments Z.pow : simpl never.
Arguments Z.modulo : simpl never.

Inductive xop :=
| XList (o : gop)                                         (* List::insert_all / remove_range (History.v) *)
| XWrite (pi : list step) (idx : Z) (item : list Z)       (* the list at pi: v[idx] = item *)
| XRemLen (pi : list step) (len : Z)                      (* the trailing bytes at pi: set_len(len) (zero fill / truncate) *)
| XRemWrite (pi : list step) (idx b : Z)                  (* the trailing bytes at pi: bytes[idx] = b *)
| XUInsert (pi : list step) (idx : Z) (n : nat)           (* the plain list of unsized elements at pi: insert n default elements at idx *)
| XURemove (pi : list step) (st en : Z)                   (* ... remove_range(st..en) *)
| XUClear (pi : list step).                               (* ... clear() *)

Definition xfocus (o : xop) : list step :=
  match o with
  | XList g => focus_of g
  | XWrite pi _ _ | XRemLen pi _ | XRemWrite pi _ _ | XUInsert pi _ _ | XURemove pi _ _ | XUClear pi => pi
  end.

Definition is_byteb (b : Z) : bool := (0 <=? b) && (b <? 256).

(* the owned model *)
Definition ostepX (cap : Z) (t : ty) (v : val) (o : xop) : option val :=
  match o with
  | XList g => ostepG cap t v g
  | XWrite pi idx item =>
      match resolve t v pi with
      | Some (TList c lw, VList items) =>
          if (0 <=? idx) && (idx <? zlen items) && item_okb c item
          then Some (plug t v pi (VList (firstn (Z.to_nat idx) items ++ item :: skipn (S (Z.to_nat idx)) items)))
          else None
      | _ => None
      end
  | XRemLen pi len =>
      match resolve t v pi with
      | Some (TRem, VBytes bs) =>
          if (0 <=? len) && (zlen (encode t v) + (len - zlen bs) <=? cap)
          then Some (plug t v pi (VBytes (if len <=? zlen bs then ztake len bs else bs ++ zrepeat 0 (len - zlen bs))))
          else None
      | _ => None
      end
  | XRemWrite pi idx b =>
      match resolve t v pi with
      | Some (TRem, VBytes bs) =>
          if (0 <=? idx) && (idx <? zlen bs) && is_byteb b
          then Some (plug t v pi (VBytes (ztake idx bs ++ b :: zdrop (idx + 1) bs)))
          else None
      | _ => None
      end
  | XUInsert pi idx n =>
      match resolve t v pi with
      | Some (TUList it 0, VUList items) =>
          let items' := firstn (Z.to_nat idx) items ++ map (fun key => (key, dflt it)) (repeat [] n) ++ skipn (Z.to_nat idx) items in
          if (0 <=? idx) && (idx <=? zlen items) && negb (n =? 0)%nat && zero_ok it
             && wf (TUList it 0) (VUList items')
             && (zlen (encode t v) + (zlen (encode it (dflt it)) + 4) * Z.of_nat n <=? cap)
          then Some (plug t v pi (VUList items'))
          else None
      | _ => None
      end
  | XURemove pi st en =>
      match resolve t v pi with
      | Some (TUList it k, VUList items) =>
          if (0 <=? st) && (st <? en) && (en <=? zlen items)
          then Some (plug t v pi (VUList (firstn (Z.to_nat st) items ++ skipn (Z.to_nat en) items)))
          else None
      | _ => None
      end
  | XUClear pi =>
      match resolve t v pi with
      | Some (TUList it k, VUList (kv :: items)) => Some (plug t v pi (VUList []))
      | _ => None
      end
  end.

(* the machine: descent, then the operation *)
Definition mopX (t : ty) (s : mach) (top1 : ptr) (o : xop) : out res :=
  match o with
  | XList g => mopG t s top1 g
  | XWrite pi idx item => list_write t s top1 (mpath pi) idx item
  | XRemLen pi len => rem_set_len t s top1 (mpath pi) len
  | XRemWrite pi idx b => rem_write t s top1 (mpath pi) idx b
  | XUInsert pi idx n => ulist_insert t s top1 (mpath pi) idx 0 (repeat [] n)
  | XURemove pi st en => ulist_remove t s top1 (mpath pi) st en
  | XUClear pi => ulist_clear t s top1 (mpath pi)
  end.

Definition mstepX (ovf : bool) (t : ty) (s : mach) (top : ptr) (o : xop) : out res :=
  do top1 <- menter ovf t s top [] (xfocus o); mopX t s top1 o.

Lemma zlen_repeat_nil n : zlen (repeat (@nil Z) n) = Z.of_nat n.
Proof. apply zlen_repeat. Qed.

Theorem xstep_refines ovf t v s top pi0 o v' :
  RepF pi0 t v s top -> m_refuse s <> 1 -> ostepX (m_cap s) t v o = Some v' ->
  exists s' top', mstepX ovf t s top o = Ok (s', top', []) /\ RepF (xfocus o) t v' s' top' /\
                  m_cap s' = m_cap s /\ m_refuse s' = m_refuse s.
Proof.
  intros R Hnr Ho.
  unfold mstepX. destruct o as [g|pi idx item|pi len|pi idx b|pi idx n|pi st en|pi]; cbn [ostepX mopX xfocus] in *.
  - destruct (gstep_refines ovf t v s top pi0 g v' R Hnr Ho) as (s' & top' & Hs & R' & Hc & Hr).
    rewrite mstepG_split in Hs. exists s', top'. auto.
  - apply repf_unfocus in R.
    destruct (resolve t v pi) as [[[| c lw | | | |] [|items| | |]]|] eqn:Hres; try discriminate.
    match type of Ho with (if ?b then _ else _) = _ => destruct b eqn:Eb end; [|discriminate].
    injection Ho as <-. zb.
    destruct (menter_ok ovf pi [] t v s top _ _ R Hres) as (top1 & Hm & R1). cbn [app mpath map] in Hm, R1.
    rewrite Hm. cbn [obind].
    assert (item_ok c item) as Hit.
    { unfold item_okb in *. zb. match goal with H : (_ =? _)%nat = true |- _ => apply Nat.eqb_eq in H end. unfold item_ok. auto. }
    destruct (list_write_general pi t v c lw items idx item Hres ltac:(lia) Hit s top1 R1) as (s' & Hs & R' & Hc & Hr).
    exists s', top1. auto.
  - apply repf_unfocus in R. pose proof R as [_ _ _ _ Hlen _ _].
    destruct (resolve t v pi) as [[[| | | | |] [bs| | | |]]|] eqn:Hres; try discriminate.
    match type of Ho with (if ?b then _ else _) = _ => destruct b eqn:Eb end; [|discriminate].
    injection Ho as <-. zb.
    destruct (menter_ok ovf pi [] t v s top _ _ R Hres) as (top1 & Hm & R1). cbn [app mpath map] in Hm, R1.
    rewrite Hm. cbn [obind].
    destruct (rem_set_len_general pi t v bs Hres s top1 len R1 Hnr ltac:(lia) ltac:(lia)) as (s' & top' & Hs & R' & Hc & Hr).
    exists s', top'. auto.
  - apply repf_unfocus in R.
    destruct (resolve t v pi) as [[[| | | | |] [bs| | | |]]|] eqn:Hres; try discriminate.
    match type of Ho with (if ?b then _ else _) = _ => destruct b eqn:Eb end; [|discriminate].
    injection Ho as <-. unfold is_byteb in Eb. zb.
    destruct (menter_ok ovf pi [] t v s top _ _ R Hres) as (top1 & Hm & R1). cbn [app mpath map] in Hm, R1.
    rewrite Hm. cbn [obind].
    destruct (rem_write_general pi t v bs Hres s top1 idx b R1 ltac:(lia) ltac:(lia)) as (s' & Hs & R' & Hc & Hr).
    exists s', top1. auto.
  - apply repf_unfocus in R. pose proof R as [Hpl _ Hwf _ Hlen _ _].
    destruct (resolve t v pi) as [[[| | |it [|k]| |] [| |items| |]]|] eqn:Hres; try discriminate.
    match type of Ho with (if ?b then _ else _) = _ => destruct b eqn:Eb end; [|discriminate].
    injection Ho as <-. zb.
    destruct (menter_ok ovf pi [] t v s top _ _ R Hres) as (top1 & Hm & R1). cbn [app mpath map] in Hm, R1.
    rewrite Hm. cbn [obind].
    assert (plain it = true) as Hpit by exact (resolve_plain _ _ _ _ _ Hpl Hres).
    destruct (init_default_exact it Hpit ltac:(assumption)) as (Hib & Hisz & Hdw).
    assert (n <> O) as Hn0 by (match goal with H : (n =? 0)%nat = false |- _ => now apply Nat.eqb_neq in H end).
    destruct (ulist_insert_general pi t v it 0 items idx 0 (repeat [] n) (dflt it) Hres Hib Hisz ltac:(lia)
                ltac:(apply Forall_forall; intros key Hk; apply repeat_spec in Hk; now subst)
                ltac:(destruct n; [congruence|discriminate]) ltac:(assumption) s top1 R1 Hnr)
      as (s' & top' & Hs & R' & Hc & Hr).
    { rewrite zlen_repeat_nil, Hlen. change (Z.of_nat 0) with 0. lia. }
    exists s', top'. auto.
  - apply repf_unfocus in R.
    destruct (resolve t v pi) as [[[| | |it k| |] [| |items| |]]|] eqn:Hres; try discriminate.
    match type of Ho with (if ?b then _ else _) = _ => destruct b eqn:Eb end; [|discriminate].
    injection Ho as <-. zb.
    destruct (menter_ok ovf pi [] t v s top _ _ R Hres) as (top1 & Hm & R1). cbn [app mpath map] in Hm, R1.
    rewrite Hm. cbn [obind].
    destruct (ulist_remove_general pi t v it k items st en Hres ltac:(lia) s top1 R1) as (s' & top' & Hs & R' & Hc & Hr).
    exists s', top'. auto.
  - apply repf_unfocus in R.
    destruct (resolve t v pi) as [[[| | |it k| |] [| |[|kv items]| |]]|] eqn:Hres; try discriminate.
    injection Ho as <-.
    destruct (menter_ok ovf pi [] t v s top _ _ R Hres) as (top1 & Hm & R1). cbn [app mpath map] in Hm, R1.
    rewrite Hm. cbn [obind].
    destruct (ulist_clear_general pi t v it k (kv :: items) Hres ltac:(discriminate) s top1 R1) as (s' & top' & Hs & R' & Hc & Hr).
    exists s', top'. auto.
Qed.

Fixpoint orunX (cap : Z) (t : ty) (v : val) (h : list xop) : option val :=
  match h with
  | [] => Some v
  | o :: r => match ostepX cap t v o with Some v1 => orunX cap t v1 r | None => None end
  end.

Fixpoint mrunX (ovf : bool) (t : ty) (s : mach) (top : ptr) (h : list xop) : out (mach * ptr) :=
  match h with
  | [] => Ok (s, top)
  | o :: r => do ' (s1, top1, _) <- mstepX ovf t s top o; mrunX ovf t s1 top1 r
  end.

Theorem xrun_refines ovf t : forall h v s top pi0 v',
  RepF pi0 t v s top -> m_refuse s <> 1 -> orunX (m_cap s) t v h = Some v' ->
  exists s' top' pi', mrunX ovf t s top h = Ok (s', top') /\ RepF pi' t v' s' top' /\ m_cap s' = m_cap s.
Proof.
  induction h as [|o h IH]; intros v s top pi0 v' R Hnr Ho.
  - cbn in Ho. injection Ho as <-. exists s, top, pi0. split; [reflexivity|]. split; [exact R|reflexivity].
  - cbn [orunX] in Ho. destruct (ostepX (m_cap s) t v o) as [v1|] eqn:E; [|discriminate].
    destruct (xstep_refines ovf t v s top pi0 o v1 R Hnr E) as (s1 & top1 & Hs & R1 & Hc & Hr).
    cbn [mrunX]. rewrite Hs. cbn [obind]. rewrite <- Hc in Ho.
    destruct (IH v1 s1 top1 _ v' R1 ltac:(congruence) Ho) as (s' & top' & pi' & Hm & R' & Hc').
    exists s', top', pi'. split; [exact Hm|]. split; [exact R'|congruence].
Qed.
