(* UnsizedString<L>::set in the refinement theory.
   The Rust type is `struct UnsizedString<L> { chars: List<u8, L> }` (shape TStruct [TList (FAny 1) lw], value
   VStruct [VList items] with one-byte items) and its only mutating operation is
       pub fn set(&mut self, s: impl AsRef<str>) -> Result<()> {
           let mut chars = self.chars(); chars.clear()?; chars.push_all(s.as_ref().as_bytes().iter().copied())?; Ok(()) }
   which the dispatcher Run.exec issues through op code 55: the old length is read, List::remove_range(0..old), then
   List::insert_all(0, bytes); an error of the insert is reported as Ops.efail with the state after the clear.  `set` is
   a composite, not atomic: when the insert fails the string stays CLEARED (accepted behaviour; the bytes are canonical).
   1. The two edge cases the theorems of GenOps.v exclude: remove_range of an empty range and insert_all of no items
      are no-ops that succeed (proved from the definitions in Ops.v / Machine.v); clear and fill of a list at any path.
   2. The owned model of `set` (success, and the two failures with the cleared value), the machine step, the step
      theorems (string_set_refines, string_set_too_long, string_set_no_room).
   3. The operation type `sop` on top of InitKinds.kop, one step theorem, one history theorem.
   4. The dispatcher on op code 55 is descent + operation.
   5. A concrete history. *)
From SF Require Import Base.Prelude Gen.Generated Unsized.Types Unsized.Parse Unsized.Machine Unsized.Ops Unsized.Run.
From SF Require Import Unsized.Proofs.EncodeParse Unsized.Proofs.Mem Unsized.Proofs.Notify Unsized.Proofs.Flat Unsized.Proofs.Layout
  Unsized.Proofs.Observe Unsized.Proofs.Table Unsized.Proofs.Path Unsized.Proofs.Context Unsized.Proofs.Context2 Unsized.Proofs.Focus
  Unsized.Proofs.Pos Unsized.Proofs.FocusOps Unsized.Proofs.NotifyInside Unsized.Proofs.Resize Unsized.Proofs.GenOps
  Unsized.Proofs.GenOps2 Unsized.Proofs.Init Unsized.Proofs.UInsert Unsized.Proofs.URemove Unsized.Proofs.History
  Unsized.Proofs.History2 Unsized.Proofs.NotifyInside2 Unsized.Proofs.SetData Unsized.Proofs.Keyed Unsized.Proofs.ExecTie
  Unsized.Proofs.ExecTie2 Unsized.Proofs.History3.
From SF Require Import Unsized.Proofs.EnumFacts.
From SF Require Import Unsized.Proofs.History4 Unsized.Proofs.Enums Unsized.Proofs.InitKinds.

Arguments Z.add : simpl never.
Arguments Z.sub : simpl never.
Arguments Z.mul : simpl never.
Arguments Z.of_nat : simpl never.
Arguments Z.pow : simpl never.
Arguments Z.modulo : simpl never.

(* ---------------------------------------------------------------------------------------------- *)
(* 0. small facts                                                                                  *)
Lemma set_nth_twice {A} (l : list A) : forall i x y, set_nth i y (set_nth i x l) = set_nth i y l.
Proof.
  induction l as [|a l IH]; intros [|i] x y; cbn [set_nth]; try reflexivity. f_equal. apply IH.
Qed.

(* replacing twice at the same path: the second replacement wins *)
Lemma plug_plug : forall pi t v X xv x y, resolve t v pi = Some (X, xv) -> plug t (plug t v pi x) pi y = plug t v pi y.
Proof.
  induction pi as [|[i|i|] r IH]; intros t v X xv x y Hr.
  - reflexivity.
  - apply resolve_SF_inv in Hr as (ts & vs & ti & vi & -> & -> & Hti & Hvi & Hr).
    rewrite (plug_SF _ _ _ _ x _ _ Hti Hvi), (plug_SF _ _ _ _ y _ _ Hti Hvi).
    rewrite (plug_SF ts _ i r y ti _ Hti (nth_error_set_nth _ _ _ _ Hvi)).
    rewrite (IH _ _ _ _ x y Hr), set_nth_twice. reflexivity.
  - apply resolve_SE_inv in Hr as (it & k & items & kv & -> & -> & Hkv & Hr).
    rewrite (plug_SE _ _ _ _ _ x _ Hkv), (plug_SE _ _ _ _ _ y _ Hkv).
    rewrite (plug_SE it k _ i r y _ (nth_error_set_nth _ _ _ _ Hkv)). cbn [fst snd].
    rewrite (IH _ _ _ _ x y Hr), set_nth_twice. reflexivity.
  - apply resolve_SV_inv in Hr as (rw & vars & d0 & p & vt & -> & -> & Hf & Hr).
    rewrite (plug_SV _ _ _ _ _ x _ Hf), (plug_SV _ _ _ _ _ y _ Hf), (plug_SV _ _ _ _ _ y _ Hf).
    rewrite (IH _ _ _ _ x y Hr). reflexivity.
Qed.

(* replacing the container inside a one-field wrapper is replacing the wrapper *)
Lemma plug_wrapper_eq t v pi X xv x' : resolve t v pi = Some (TStruct [X], VStruct [xv]) ->
  plug t v (pi ++ [SF 0]) x' = plug t v pi (VStruct [x']).
Proof. intros H. rewrite (plug_app_intro _ _ _ _ _ _ x' H). reflexivity. Qed.

(* a store of no bytes inside the allocation changes nothing *)
Lemma wr_nil m a : 0 <= a <= zlen m -> wr m a [] = Ok m.
Proof.
  intros Ha. unfold wr. change (zlen (@nil Z)) with 0. rewrite Z.add_0_r.
  destruct ((a <? 0) || (zlen m <? a)) eqn:E; [apply orb_true_iff in E; destruct E; zb; lia|].
  cbn [app]. rewrite ztake_zdrop. reflexivity.
Qed.

Lemma zlen_encode_list c lw items : Forall (item_ok c) items ->
  zlen (encode (TList c lw) (VList items)) = Z.of_nat lw + Z.of_nat (fsize c) * zlen items.
Proof.
  intros H. cbn [encode]. rewrite zlen_app, zlen_le_bytes, (zlen_concat_fixed items (fsize c)); [reflexivity|].
  now apply Forall_item_len.
Qed.

(* ---------------------------------------------------------------------------------------------- *)
(* 1. the edge cases of List::remove_range / insert_all that GenOps.list_remove_general (0 <= st < en) and
      GenOps.list_insert_general (new <> []) exclude                                                 *)
Section noop.
  Variables (pi : list step) (t : ty) (v : val) (c : fcheck) (lw : nat) (items : list (list Z)).
  Hypothesis Hres : resolve t v pi = Some (TList c lw, VList items).
  Let esz := Z.of_nat (fsize c).
  Let ax := addr_of t v pi 0.

  (* where the list lies in the data *)
  Lemma glist_bounds s top : RepF pi t v s top ->
    0 <= ax /\ ax + Z.of_nat lw + esz * zlen items <= m_len s /\ m_len s <= m_cap s /\
    wr (m_mem s) ax (le_bytes lw (zlen items)) = Ok (m_mem s).
  Proof.
    intros R. destruct (glist_facts pi t v c lw items Hres s top R) as (Hlw & Hes & Hn & Hm & Hitems).
    pose proof (repf_cap _ _ _ _ _ R) as Hcap.
    destruct R as [Hpl Hok Hwf [junk Hmem] Hlen HL Hc32].
    pose proof (hctx_encode _ _ _ _ _ Hres) as Henc.
    pose proof (zlen_encode_list c lw items Hitems) as Hsz. fold esz in Hsz.
    pose proof (zlen_nonneg (fst (hctx t v pi 0))) as HP. pose proof (zlen_nonneg (snd (hctx t v pi 0))) as HQ.
    assert (Hax : ax = zlen (fst (hctx t v pi 0))) by (subst ax; unfold addr_of; lia).
    split; [lia|]. split; [rewrite Hlen, Henc, !zlen_app, Hsz; lia|]. split; [lia|].
    rewrite Hmem, Henc. cbn [encode]. rewrite <- !app_assoc. apply wr_mid'; [exact Hax|reflexivity].
  Qed.

  (* remove_range(st..st): Ok, nothing moves *)
  Lemma list_remove_nothing s top st :
    RepF pi t v s top -> 0 <= st <= zlen items ->
    exists s' top', list_remove t s top (mpath pi) st st = Ok (s', top', []) /\ RepF pi t v s' top' /\
                    m_cap s' = m_cap s /\ m_refuse s' = m_refuse s.
  Proof.
    intros R Hst. pose proof (repf_top_check _ _ _ _ _ R) as Hchk.
    destruct (glist_facts pi t v c lw items Hres s top R) as (Hlw & Hes & Hn & Hm & Hitems).
    destruct (glist_located pi t v c lw items Hres s top R) as (Hsub & Hll). fold esz ax in Hsub, Hll.
    destruct (glist_bounds s top R) as (Ha0 & Hin & Hlc & Hw).
    pose proof R as [Hpl Hok Hwf [junk Hmem] Hlen HL Hc32].
    assert (0 < esz) as Hesz by (subst esz; lia). pose proof (zlen_nonneg items) as Hi0.
    unfold list_remove. rewrite Hsub. cbn [obind]. fold esz. rewrite Hll. cbn [obind].
    destruct (st <? st) eqn:E1; [zb; lia|]. destruct (zlen items <? st) eqn:E2; [zb; lia|].
    unfold remove_bytes. rewrite Hchk. cbn [negb].
    set (start := ax + Z.of_nat lw + st * esz).
    assert (0 <= start <= m_len s) as Hs by (subst start; nia).
    destruct ((start <? 0) || (m_len s <? start)) eqn:E3; [apply orb_true_iff in E3; destruct E3; zb; lia|].
    destruct ((start <? start) || (m_len s <? start)) eqn:E4; [apply orb_true_iff in E4; destruct E4; zb; lia|].
    rewrite Z.sub_diag, Z.eqb_refl. cbn [obind]. rewrite Hsub. cbn [obind start_of].
    replace (zlen items - (st - st)) with (zlen items) by lia. rewrite Hw. cbn [obind].
    eexists _, _. split; [reflexivity|]. split; [|split; reflexivity].
    constructor; cbn [set_mem m_mem m_len]; [exact Hpl|exact Hok|exact Hwf|exists junk; exact Hmem|exact Hlen| |exact Hc32].
    apply (LayP_set_at Lay Lay pi t v 0 top _ _ _ Hwf Hres HL). cbn [Lay]. fold ax. split; [reflexivity|]. subst esz. lia.
  Qed.

  (* insert_all(idx, []): Ok, nothing moves *)
  Lemma list_insert_nothing s top idx :
    RepF pi t v s top -> 0 <= idx <= zlen items ->
    exists s' top', list_insert t s top (mpath pi) idx [] = Ok (s', top', []) /\ RepF pi t v s' top' /\
                    m_cap s' = m_cap s /\ m_refuse s' = m_refuse s.
  Proof.
    intros R Hidx. pose proof (repf_top_check _ _ _ _ _ R) as Hchk.
    destruct (glist_facts pi t v c lw items Hres s top R) as (Hlw & Hes & Hn & Hm & Hitems).
    destruct (glist_located pi t v c lw items Hres s top R) as (Hsub & Hll). fold esz ax in Hsub, Hll.
    destruct (glist_bounds s top R) as (Ha0 & Hin & Hlc & Hw).
    pose proof R as [Hpl Hok Hwf [junk Hmem] Hlen HL Hc32].
    assert (0 < esz) as Hesz by (subst esz; lia). pose proof (zlen_nonneg items) as Hi0.
    unfold list_insert. rewrite Hsub. cbn [obind]. fold esz. rewrite Hll. cbn [obind].
    change (zlen (@nil (list Z))) with 0.
    destruct (zlen items <? idx) eqn:E1; [zb; lia|].
    destruct (256 ^ Z.of_nat lw <=? zlen items + 0) eqn:E2; [zb; lia|].
    unfold add_bytes. rewrite Hchk. cbn [negb].
    set (start := ax + Z.of_nat lw + idx * esz).
    assert (0 <= start <= m_len s) as Hs by (subst start; nia).
    destruct ((start <? 0) || (m_len s <? start)) eqn:E3; [apply orb_true_iff in E3; destruct E3; zb; lia|].
    rewrite Z.mul_0_r, Z.eqb_refl. cbn [obind]. rewrite Hsub. cbn [obind start_of].
    rewrite Z.add_0_r, Hw. cbn [obind concat]. fold start. rewrite wr_nil by (unfold m_cap in Hlc; lia). cbn [obind].
    eexists _, _. split; [reflexivity|]. split; [|split; reflexivity].
    constructor; cbn [set_mem m_mem m_len]; [exact Hpl|exact Hok|exact Hwf|exists junk; exact Hmem|exact Hlen| |exact Hc32].
    apply (LayP_set_at Lay Lay pi t v 0 top _ _ _ Hwf Hres HL). cbn [Lay]. fold ax. split; [reflexivity|]. subst esz. lia.
  Qed.

End noop.

(* List::clear = remove_range(0..len), of an empty list too *)
Theorem list_clear_general pi t v c lw items s top :
  resolve t v pi = Some (TList c lw, VList items) -> RepF pi t v s top ->
  exists s' top', list_remove t s top (mpath pi) 0 (zlen items) = Ok (s', top', []) /\
                  RepF pi t (plug t v pi (VList [])) s' top' /\ m_cap s' = m_cap s /\ m_refuse s' = m_refuse s.
Proof.
  intros Hres R. destruct items as [|x items0] eqn:Ei.
  - change (zlen (@nil (list Z))) with 0. rewrite (plug_same _ _ _ _ _ Hres).
    apply (list_remove_nothing pi t v c lw [] Hres s top 0 R). change (zlen (@nil (list Z))) with 0. lia.
  - rewrite <- Ei in *.
    assert (0 < zlen items) as Hpos by (rewrite Ei, zlen_cons; pose proof (zlen_nonneg items0); lia).
    destruct (list_remove_general pi t v c lw items 0 (zlen items) Hres ltac:(lia) s top R) as (s' & top' & Hs & R' & Hc & Hr).
    exists s', top'. split; [exact Hs|]. split; [|auto].
    change (Z.to_nat 0) with O in R'. unfold zlen in R'. rewrite Nat2Z.id, skipn_all in R'. exact R'.
Qed.

(* insert_all(0, new) into an empty list, new possibly empty *)
Theorem list_fill_general pi t v c lw new s top :
  resolve t v pi = Some (TList c lw, VList []) ->
  Forall (item_ok c) new -> zlen new < 256 ^ Z.of_nat lw -> Z.of_nat (fsize c) * zlen new < U64_LIMIT ->
  RepF pi t v s top -> m_refuse s <> 1 -> m_len s + Z.of_nat (fsize c) * zlen new <= m_cap s ->
  exists s' top', list_insert t s top (mpath pi) 0 new = Ok (s', top', []) /\
                  RepF pi t (plug t v pi (VList new)) s' top' /\ m_cap s' = m_cap s /\ m_refuse s' = m_refuse s.
Proof.
  intros Hres Hnew Hfit Hmul R Hnr Hroom. destruct new as [|x new0] eqn:En.
  - rewrite (plug_same _ _ _ _ _ Hres).
    apply (list_insert_nothing pi t v c lw [] Hres s top 0 R). change (zlen (@nil (list Z))) with 0. lia.
  - rewrite <- En in *.
    destruct (list_insert_general pi t v c lw [] new 0 Hres ltac:(change (zlen (@nil (list Z))) with 0; lia) Hnew
                ltac:(rewrite En; discriminate) ltac:(change (zlen (@nil (list Z))) with 0; lia)
                ltac:(change (zlen (@nil (list Z))) with 0; rewrite Z.add_0_l; exact Hmul) s top R Hnr Hroom)
      as (s' & top' & Hs & R' & Hc & Hr).
    exists s', top'. split; [exact Hs|]. split; [|auto].
    change (Z.to_nat 0) with O in R'. cbn [firstn skipn app] in R'. rewrite app_nil_r in R'. exact R'.
Qed.

(* ---------------------------------------------------------------------------------------------- *)
(* 2. UnsizedString::set                                                                           *)

(* the machine: the body of Run.exec code 55 *)
Definition string_set_op (t : ty) (s : mach) (top : ptr) (ps : list pos) (c : fcheck) (lw : nat) (bs : list Z) : out res :=
  do ' (_, lp) <- sub t top (ps ++ [PF 0]);
  match lp with
  | PList a blen =>
      do old <- list_len lw c (m_mem s) a blen;
      do ' (s1, top1, _) <- list_remove t s top (ps ++ [PF 0]) 0 old;
      match list_insert t s1 top1 (ps ++ [PF 0]) 0 (map (fun b => [b]) bs) with
      | Err e => efail s1 top1 e
      | o => o
      end
  | _ => Panic
  end.

Lemma exec_55 f ovf t s top ps r :
  exec (S f) ovf t s top ps (55 :: r) =
  (do ' (tc, pc) <- sub t top ps;
   match tc with
   | TStruct [TList c lw] => string_set_op t s top ps c lw (match dec_bytes r with Some (b, _) => b | None => [] end)
   | _ => SKIPPED
   end).
Proof. reflexivity. Qed.

(* what the dispatcher does at the end of the path (the type at the position is read from the pointer tree) *)
Definition string_set_at (t : ty) (s : mach) (pi : list step) (bs : list Z) (top1 : ptr) : out res :=
  do ' (tc, _) <- sub t top1 (mpath pi);
  match tc with
  | TStruct [TList c lw] => string_set_op t s top1 (mpath pi) c lw bs
  | _ => SKIPPED
  end.

(* descent, then the operation *)
Definition mstepStr (ovf : bool) (t : ty) (s : mach) (top : ptr) (pi : list step) (bs : list Z) : out res :=
  do top1 <- menter ovf t s top [] pi; string_set_at t s pi bs top1.

(* the owned model.  Success: the string at pi (a one-field struct around a List of one-byte items) becomes bs, when
   every new byte is a byte, the new length fits the length prefix, and the FINAL size fits the allocation (the
   intermediate state - the cleared string - is smaller, so there is no other room condition).  The model takes any
   bytes; Rust's `str` (and the harness, String::from_utf8) restricts them to valid UTF-8, which the layout ignores. *)
Definition ostepStr (cap : Z) (t : ty) (v : val) (pi : list step) (bs : list Z) : option val :=
  match resolve t v pi with
  | Some (W, wv) =>
      match view_list W wv with
      | Some (c, lw, old) =>
          if fcheck_eqb c (FAny 1) && bytes_ok bs && (zlen bs <? 256 ^ Z.of_nat lw)
             && (zlen (encode t v) - zlen old + zlen bs <=? cap)
          then Some (plug t v pi (VStruct [VList (map (fun b => [b]) bs)]))
          else None
      | None => None
      end
  | None => None
  end.

(* with the two failures of the push_all: the length does not fit the prefix (ToPrimitiveError), the allocation is too
   small (InvalidRealloc).  Both leave the string cleared; the error code travels as [-1; code] (Ops.efail). *)
Definition ostepStrE (cap : Z) (t : ty) (v : val) (pi : list step) (bs : list Z) : option (val * list Z) :=
  match resolve t v pi with
  | Some (W, wv) =>
      match view_list W wv with
      | Some (c, lw, old) =>
          if fcheck_eqb c (FAny 1) && bytes_ok bs then
            if 256 ^ Z.of_nat lw <=? zlen bs then Some (plug t v pi (VStruct [VList []]), [-1; E_TOPRIM])
            else if cap <? zlen (encode t v) - zlen old + zlen bs then Some (plug t v pi (VStruct [VList []]), [-1; E_REALLOC])
            else Some (plug t v pi (VStruct [VList (map (fun b => [b]) bs)]), [])
          else None
      | None => None
      end
  | None => None
  end.

Lemma ostepStr_E cap t v pi bs v' : ostepStr cap t v pi bs = Some v' -> ostepStrE cap t v pi bs = Some (v', []).
Proof.
  unfold ostepStr, ostepStrE. destruct (resolve t v pi) as [[W wv]|]; [|discriminate].
  destruct (view_list W wv) as [[[c lw] old]|]; [|discriminate].
  intros H. open_if H. injection H as <-.
  apply andb_true_iff in Eb as [Eb Hroom]. apply andb_true_iff in Eb as [Eb Hfit]. rewrite Eb. zb.
  destruct (256 ^ Z.of_nat lw <=? zlen bs) eqn:E1; [zb; lia|].
  destruct (cap <? zlen (encode t v) - zlen old + zlen bs) eqn:E2; [zb; lia|]. reflexivity.
Qed.

(* one-byte items *)
Lemma byte_items_ok bs : bytes_ok bs = true -> Forall (item_ok (FAny 1)) (map (fun b => [b]) bs).
Proof.
  unfold bytes_ok. intros H. apply Forall_forall. intros it Hin. apply in_map_iff in Hin as (b & <- & Hb).
  rewrite forallb_forall in H. specialize (H b Hb). unfold item_ok. cbn [length fsize bytes_ok forallb fvalid].
  rewrite H. auto.
Qed.

(* up to the push_all: descent, the length, the clear.  For any item type. *)
Lemma string_set_prefix ovf t v s top pi c lw old :
  RepF [] t v s top -> resolve t v pi = Some (TStruct [TList c lw], VStruct [VList old]) ->
  exists s1 top2,
    RepF (pi ++ [SF 0]) t (plug t v pi (VStruct [VList []])) s1 top2 /\ m_cap s1 = m_cap s /\ m_refuse s1 = m_refuse s /\
    resolve t (plug t v pi (VStruct [VList []])) (pi ++ [SF 0]) = Some (TList c lw, VList []) /\
    m_len s1 = m_len s - Z.of_nat (fsize c) * zlen old /\
    forall bs, mstepStr ovf t s top pi bs =
               match list_insert t s1 top2 (mpath (pi ++ [SF 0])) 0 (map (fun b => [b]) bs) with
               | Err e => efail s1 top2 e
               | o => o
               end.
Proof.
  intros R Hres.
  destruct (at_wrapper_ready ovf t v s top pi _ _ R Hres) as (top1 & node & Hm & Hsub & R1 & Hres1).
  destruct (glist_located _ t v c lw old Hres1 s top1 R1) as (Hsl & Hll).
  destruct (glist_facts _ t v c lw old Hres1 s top1 R1) as (_ & _ & _ & _ & Hitems).
  destruct (list_clear_general _ t v c lw old s top1 Hres1 R1) as (s1 & top2 & Hrm & R2 & Hc & Hr).
  rewrite (plug_wrapper_eq _ _ _ _ _ (VList []) Hres) in R2.
  exists s1, top2. split; [exact R2|]. split; [exact Hc|]. split; [exact Hr|].
  split; [rewrite <- (plug_wrapper_eq _ _ _ _ _ (VList []) Hres); exact (resolve_plug _ _ _ _ _ _ Hres1)|]. split.
  - pose proof (rf_len _ _ _ _ _ R2) as Hl2. pose proof (rf_len _ _ _ _ _ R1) as Hl1.
    rewrite Hl2, Hl1, <- (plug_wrapper_eq _ _ _ _ _ (VList []) Hres), (hctx_plug_len _ _ _ _ _ (VList []) Hres1).
    rewrite (zlen_encode_list c lw old Hitems), (zlen_encode_list c lw [] (Forall_nil _)).
    change (zlen (@nil (list Z))) with 0. lia.
  - intros bs. unfold mstepStr. rewrite Hm. cbn [obind]. unfold string_set_at. rewrite Hsub. cbn [obind].
    unfold string_set_op. rewrite mpath_snoc, Hsl. cbn [obind]. rewrite Hll. cbn [obind]. rewrite Hrm. cbn [obind].
    reflexivity.
Qed.

(* success *)
Theorem string_set_refines ovf t v s top pi0 pi bs v' :
  RepF pi0 t v s top -> m_refuse s <> 1 -> ostepStr (m_cap s) t v pi bs = Some v' ->
  exists s' top' pi', mstepStr ovf t s top pi bs = Ok (s', top', []) /\ RepF pi' t v' s' top' /\
                      m_cap s' = m_cap s /\ m_refuse s' = m_refuse s.
Proof.
  intros R Hnr Ho. apply repf_unfocus in R. pose proof R as [_ _ _ _ Hlen _ _]. unfold ostepStr in Ho.
  destruct (resolve t v pi) as [[W wv]|] eqn:Hres; [|discriminate].
  destruct (view_list W wv) as [[[c lw] old]|] eqn:Hv; [|discriminate].
  apply view_list_some in Hv as [-> ->]. open_if Ho. injection Ho as <-.
  apply andb_true_iff in Eb as [Eb Hroom]. apply andb_true_iff in Eb as [Eb Hfit]. apply andb_true_iff in Eb as [Hc Hb].
  apply fcheck_eqb_eq in Hc. subst c. zb.
  destruct (string_set_prefix ovf t v s top pi _ lw old R Hres) as (s1 & top2 & R2 & Hc1 & Hr1 & Hres2 & Hl1 & Hrun).
  cbn [fsize] in Hl1. change (Z.of_nat 1) with 1 in Hl1.
  pose proof (rf_cap _ _ _ _ _ R2) as Hc32. pose proof (rf_len _ _ _ _ _ R2) as Hl2.
  pose proof (zlen_nonneg (encode t (plug t v pi (VStruct [VList []])))) as Hp0.
  pose proof (zlen_nonneg bs) as Hb0.
  destruct (list_fill_general _ t _ (FAny 1) lw (map (fun b => [b]) bs) s1 top2 Hres2 (byte_items_ok bs Hb)
              ltac:(rewrite zlen_map; exact Hfit)
              ltac:(rewrite zlen_map; cbn [fsize]; change (Z.of_nat 1) with 1; unfold U32_LIMIT, U64_LIMIT in *; lia)
              R2 ltac:(congruence)
              ltac:(rewrite zlen_map; cbn [fsize]; change (Z.of_nat 1) with 1; lia))
    as (s' & top' & Hs & R' & Hc' & Hr').
  rewrite <- (plug_wrapper_eq _ _ _ _ _ (VList []) Hres) in R'.
  rewrite (plug_plug _ _ _ _ _ (VList []) (VList (map (fun b => [b]) bs)) (resolve_wrapper _ _ _ _ _ Hres)) in R'.
  exists s', top', (pi ++ [SF 0]). rewrite Hrun, Hs.
  split; [reflexivity|]. split; [|split; congruence].
  rewrite <- (plug_wrapper_eq _ _ _ _ _ (VList (map (fun b => [b]) bs)) Hres). exact R'.
Qed.

(* failure 1: the new length does not fit the length prefix.  The clear has happened, push_all fails with
   ToPrimitiveError before any byte moves: the call returns efail = Ok with the state after the clear, which represents
   the value with the string CLEARED.  Holds for any item type, any bytes, and also when growth is refused. *)
Theorem string_set_too_long ovf t v s top pi0 pi c lw old bs :
  RepF pi0 t v s top -> resolve t v pi = Some (TStruct [TList c lw], VStruct [VList old]) ->
  256 ^ Z.of_nat lw <= zlen bs ->
  exists s' top' pi', mstepStr ovf t s top pi bs = Ok (s', top', [-1; E_TOPRIM]) /\
                      RepF pi' t (plug t v pi (VStruct [VList []])) s' top' /\
                      m_cap s' = m_cap s /\ m_refuse s' = m_refuse s.
Proof.
  intros R Hres Hlong. apply repf_unfocus in R.
  destruct (string_set_prefix ovf t v s top pi c lw old R Hres) as (s1 & top2 & R2 & Hc1 & Hr1 & Hres2 & Hl1 & Hrun).
  exists s1, top2, (pi ++ [SF 0]). rewrite Hrun.
  pose proof (list_insert_prefix_error_g _ t _ c lw [] Hres2 s1 top2 0 (map (fun b => [b]) bs) R2) as He.
  change (zlen (@nil (list Z))) with 0 in He. rewrite zlen_map in He. rewrite He by lia.
  split; [reflexivity|]. split; [exact R2|split; assumption].
Qed.

(* failure 2: the new string does not fit the allocation (or growth is refused).  The clear has happened, push_all fails
   with InvalidRealloc before any byte moves: the string stays cleared.  `bs <> []` is needed: push_all of nothing
   never reallocates (it succeeds even when growth is refused); under the room disjunct it follows from the other
   hypotheses (see string_setE_refines). *)
Theorem string_set_no_room ovf t v s top pi0 pi lw old bs :
  RepF pi0 t v s top -> resolve t v pi = Some (TStruct [TList (FAny 1) lw], VStruct [VList old]) ->
  zlen bs < 256 ^ Z.of_nat lw -> bs <> [] ->
  (m_refuse s = 1 \/ m_cap s < zlen (encode t v) - zlen old + zlen bs) ->
  exists s' top' pi', mstepStr ovf t s top pi bs = Ok (s', top', [-1; E_REALLOC]) /\
                      RepF pi' t (plug t v pi (VStruct [VList []])) s' top' /\
                      m_cap s' = m_cap s /\ m_refuse s' = m_refuse s.
Proof.
  intros R Hres Hfit Hne Hfail. apply repf_unfocus in R. pose proof R as [_ _ _ _ Hlen _ _].
  destruct (string_set_prefix ovf t v s top pi _ lw old R Hres) as (s1 & top2 & R2 & Hc1 & Hr1 & Hres2 & Hl1 & Hrun).
  cbn [fsize] in Hl1. change (Z.of_nat 1) with 1 in Hl1.
  exists s1, top2, (pi ++ [SF 0]). rewrite Hrun.
  pose proof (list_insert_realloc_error_g _ t _ (FAny 1) lw [] Hres2 s1 top2 0 (map (fun b => [b]) bs) R2) as He.
  change (zlen (@nil (list Z))) with 0 in He. rewrite zlen_map in He. cbn [fsize] in He. change (Z.of_nat 1) with 1 in He.
  rewrite He; [|lia|lia|destruct bs; [congruence|discriminate]|destruct Hfail as [Hf|Hf]; [left; congruence|right; lia]].
  split; [reflexivity|]. split; [exact R2|split; assumption].
Qed.

(* the three outcomes in one statement *)
Theorem string_setE_refines ovf t v s top pi0 pi bs v' obs :
  RepF pi0 t v s top -> m_refuse s <> 1 -> ostepStrE (m_cap s) t v pi bs = Some (v', obs) ->
  exists s' top' pi', mstepStr ovf t s top pi bs = Ok (s', top', obs) /\ RepF pi' t v' s' top' /\
                      m_cap s' = m_cap s /\ m_refuse s' = m_refuse s.
Proof.
  intros R Hnr Ho. pose proof (repf_cap _ _ _ _ _ R) as Hcap.
  destruct (ostepStr (m_cap s) t v pi bs) as [v1|] eqn:Es.
  - rewrite (ostepStr_E _ _ _ _ _ _ Es) in Ho. injection Ho as <- <-.
    exact (string_set_refines ovf t v s top pi0 pi bs v1 R Hnr Es).
  - unfold ostepStr in Es. unfold ostepStrE in Ho.
    destruct (resolve t v pi) as [[W wv]|] eqn:Hres; [|discriminate].
    destruct (view_list W wv) as [[[c lw] old]|] eqn:Hv; [|discriminate].
    apply view_list_some in Hv as [-> ->]. open_if Ho.
    apply andb_true_iff in Eb as [Hc Hb]. apply fcheck_eqb_eq in Hc. subst c. cbn [andb] in Es.
    destruct (256 ^ Z.of_nat lw <=? zlen bs) eqn:E1.
    + injection Ho as <- <-. zb. exact (string_set_too_long ovf t v s top pi0 pi _ lw old bs R Hres E1).
    + destruct (m_cap s <? zlen (encode t v) - zlen old + zlen bs) eqn:E2.
      * injection Ho as <- <-. zb.
        apply (string_set_no_room ovf t v s top pi0 pi lw old bs R Hres E1); [|right; exact E2].
        intros ->. change (zlen (@nil Z)) with 0 in E2. pose proof (zlen_nonneg old). lia.
      * exfalso. destruct (zlen bs <? 256 ^ Z.of_nat lw) eqn:E3; [|zb; lia]. cbn [andb] in Es.
        destruct (zlen (encode t v) - zlen old + zlen bs <=? m_cap s) eqn:E4; [discriminate|zb; lia].
Qed.

(* ---------------------------------------------------------------------------------------------- *)
(* 3. string sets on top of the operation set of InitKinds.v                                        *)
Inductive sop :=
| SK (o : kop)                                    (* everything of InitKinds.v *)
| SStringSet (pi : list step) (bs : list Z).      (* UnsizedString at pi: set(bs) *)

Definition ostepS (cap : Z) (t : ty) (v : val) (o : sop) : option (val * list Z) :=
  match o with
  | SK k => ostepK cap t v k
  | SStringSet pi bs => ostepStrE cap t v pi bs
  end.

Definition mstepS (ovf : bool) (t : ty) (s : mach) (top : ptr) (o : sop) : out res :=
  match o with
  | SK k => mstepK ovf t s top k
  | SStringSet pi bs => mstepStr ovf t s top pi bs
  end.

Theorem sstep_refines ovf t v s top pi0 o v' obs :
  RepF pi0 t v s top -> m_refuse s <> 1 -> ostepS (m_cap s) t v o = Some (v', obs) ->
  exists s' top' pi', mstepS ovf t s top o = Ok (s', top', obs) /\ RepF pi' t v' s' top' /\
                      m_cap s' = m_cap s /\ m_refuse s' = m_refuse s.
Proof.
  intros R Hnr Ho. destruct o as [k|pi bs]; cbn [ostepS mstepS] in *.
  - exact (kstep_refines ovf t v s top pi0 k v' obs R Hnr Ho).
  - exact (string_setE_refines ovf t v s top pi0 pi bs v' obs R Hnr Ho).
Qed.

Fixpoint orunS (cap : Z) (t : ty) (v : val) (h : list sop) : option (val * list (list Z)) :=
  match h with
  | [] => Some (v, [])
  | o :: r =>
      match ostepS cap t v o with
      | Some (v1, ob) => match orunS cap t v1 r with Some (v', l) => Some (v', ob :: l) | None => None end
      | None => None
      end
  end.

Fixpoint mrunS (ovf : bool) (t : ty) (s : mach) (top : ptr) (h : list sop) : out (mach * ptr * list (list Z)) :=
  match h with
  | [] => Ok (s, top, [])
  | o :: r =>
      do ' (s1, top1, ob) <- mstepS ovf t s top o;
      do ' (s', top', l) <- mrunS ovf t s1 top1 r;
      Ok (s', top', ob :: l)
  end.

Theorem srun_refines ovf t : forall h v s top pi0 v' obss,
  RepF pi0 t v s top -> m_refuse s <> 1 -> orunS (m_cap s) t v h = Some (v', obss) ->
  exists s' top' pi', mrunS ovf t s top h = Ok (s', top', obss) /\ RepF pi' t v' s' top' /\ m_cap s' = m_cap s.
Proof.
  induction h as [|o h IH]; intros v s top pi0 v' obss R Hnr Ho.
  - cbn in Ho. injection Ho as <- <-. exists s, top, pi0. split; [reflexivity|]. split; [exact R|reflexivity].
  - cbn [orunS] in Ho. destruct (ostepS (m_cap s) t v o) as [[v1 ob]|] eqn:E; [|discriminate].
    destruct (sstep_refines ovf t v s top pi0 o v1 ob R Hnr E) as (s1 & top1 & pi1 & Hs & R1 & Hc & Hr).
    rewrite <- Hc in Ho.
    destruct (orunS (m_cap s1) t v1 h) as [[v'' l]|] eqn:E2; [|discriminate]. injection Ho as <- <-.
    destruct (IH v1 s1 top1 pi1 v'' l R1 ltac:(congruence) E2) as (s' & top' & pi' & Hm & R' & Hc').
    cbn [mrunS]. rewrite Hs. cbn [obind]. rewrite Hm. cbn [obind].
    exists s', top', pi'. split; [reflexivity|]. split; [exact R'|congruence].
Qed.

(* every state a history reaches is observably the owned model's value (History.repf_observable) *)
Corollary srun_observable ovf t h v s top pi0 v' obss :
  RepF pi0 t v s top -> m_refuse s <> 1 -> orunS (m_cap s) t v h = Some (v', obss) ->
  exists s' top', mrunS ovf t s top h = Ok (s', top', obss) /\
    owned_ptr ovf t (m_mem s') top' = Ok v' /\ ztake (m_len s') (m_mem s') = encode t v' /\ top_check s' top' = true.
Proof.
  intros R Hnr Ho. destruct (srun_refines ovf t h v s top pi0 v' obss R Hnr Ho) as (s' & top' & pi' & Hm & R' & _).
  destruct (repf_observable ovf _ _ _ _ _ R') as (A & B & _ & _ & C). exists s', top'. auto.
Qed.

(* ---------------------------------------------------------------------------------------------- *)
(* 4. the dispatcher on op code 55                                                                  *)

(* the bytes as the harness sends them (harness/src/nodes.rs cur_bytes): the count, then the bytes = Run.enc_bytes.
   No range hypothesis on the bytes is needed for the decoding. *)
Lemma dec_enc_bytes bs r : dec_bytes (enc_bytes bs ++ r) = Some (bs, r).
Proof. unfold enc_bytes, dec_bytes. cbn [app]. rewrite ztake_zlen_app, zdrop_zlen_app. reflexivity. Qed.

Definition enc_sset (t : ty) (v : val) (pi : list step) (bs : list Z) : list Z := enc_path t v pi ++ 55 :: enc_bytes bs.

Definition enc_sop (t : ty) (v : val) (o : sop) : list Z :=
  match o with SK k => enc_kop t v k | SStringSet pi bs => enc_sset t v pi bs end.

(* at the end of the path the dispatcher performs the operation itself *)
Lemma exec_string_tail f ovf t s top pi bs X pc :
  get_at t top (mpath pi) = Some (X, pc) ->
  exec (S f) ovf t s top (mpath pi) (55 :: enc_bytes bs) = string_set_at t s pi bs top.
Proof.
  intros Hg. rewrite exec_55. unfold string_set_at.
  rewrite <- (app_nil_r (enc_bytes bs)), dec_enc_bytes. reflexivity.
Qed.

(* the dispatcher on an encoded string set, against descent + operation (the form of InitKinds.exec_tie_k_gen) *)
Lemma exec_tie_string_gen ovf t v s top pi bs X xv fuel :
  RepF [] t v s top -> resolve t v pi = Some (X, xv) -> X <> TStruct [] -> (length pi < fuel)%nat ->
  exists top1, menter ovf t s top [] pi = Ok top1 /\
    (exec fuel ovf t s top [] (enc_sset t v pi bs) = string_set_at t s pi bs top1 \/
     exists code topk, string_set_at t s pi bs top1 = Err code /\ code <> -9 /\
                       exec fuel ovf t s top [] (enc_sset t v pi bs) = Ok (s, topk, [-1; code])).
Proof.
  intros R Hres HX Hfuel.
  exact (exec_path_x ovf t v s (string_set_at t s pi bs) (55 :: enc_bytes bs) pi X xv Hres HX
           (fun f top' pc Hg => exec_string_tail f ovf t s top' pi bs X pc Hg)
           pi [] top fuel t v eq_refl eq_refl R Hfuel).
Qed.

(* whatever descent + operation return with Ok - the success, and the efail of a set whose push_all failed - is what the
   dispatcher returns *)
Theorem exec_tie_string ovf t v s top pi bs r :
  RepF [] t v s top -> (exists X xv, resolve t v pi = Some (X, xv) /\ X <> TStruct []) ->
  mstepStr ovf t s top pi bs = Ok r ->
  forall fuel, (length pi < fuel)%nat -> exec fuel ovf t s top [] (enc_path t v pi ++ 55 :: enc_bytes bs) = Ok r.
Proof.
  intros R (X & xv & Hres & HX) Hs fuel Hfuel.
  destruct (exec_tie_string_gen ovf t v s top pi bs X xv fuel R Hres HX Hfuel) as (top1 & Hm & Hex).
  unfold mstepStr in Hs. rewrite Hm in Hs. cbn [obind] in Hs. fold (enc_sset t v pi bs).
  destruct Hex as [Hex|(code & topk & HF & _ & _)]; [rewrite Hex; exact Hs|congruence].
Qed.

(* a string set the owned model gives an outcome to ends at a wrapper struct, which the dispatcher reaches *)
Lemma ostepStrE_target cap t v pi bs v' obs : ostepStrE cap t v pi bs = Some (v', obs) ->
  exists X xv, resolve t v pi = Some (X, xv) /\ X <> TStruct [].
Proof.
  unfold ostepStrE. intros Ho. destruct (resolve t v pi) as [[W wv]|] eqn:Hres; [|discriminate].
  destruct (view_list W wv) as [[[c lw] old]|] eqn:Hv; [|discriminate].
  apply view_list_some in Hv as [-> ->]. eexists _, _. split; [reflexivity|discriminate].
Qed.

(* the two together: a string set the owned model gives an outcome to (success, or one of the two failures), sent to the
   dispatcher as op codes, returns the model's observation and leaves a state that represents the model's new value *)
Corollary exec_string_refines ovf t v s top pi bs v' obs :
  RepF [] t v s top -> m_refuse s <> 1 -> ostepStrE (m_cap s) t v pi bs = Some (v', obs) ->
  forall fuel, (length pi < fuel)%nat ->
  exists s' top' pi', exec fuel ovf t s top [] (enc_path t v pi ++ 55 :: enc_bytes bs) = Ok (s', top', obs) /\
                      RepF pi' t v' s' top' /\ m_cap s' = m_cap s /\ m_refuse s' = m_refuse s.
Proof.
  intros R Hnr Ho fuel Hfuel.
  destruct (string_setE_refines ovf t v s top [] pi bs v' obs R Hnr Ho) as (s' & top' & pi' & Hs & R' & Hc & Hr).
  exists s', top', pi'. split; [|auto].
  exact (exec_tie_string ovf t v s top pi bs _ R (ostepStrE_target _ _ _ _ _ _ _ Ho) Hs fuel Hfuel).
Qed.

(* the whole operation set: the operations InitKinds.v adds and the string sets (the operations of Enums.v and before
   have their own tie theorems there) *)
Definition snew (o : sop) : Prop := match o with SK k => is_new k | SStringSet _ _ => True end.
Definition sfocus (o : sop) : list step := match o with SK k => kfocus k | SStringSet pi _ => pi end.

Corollary exec_s_refines ovf t v s top o v' obs :
  RepF [] t v s top -> m_refuse s <> 1 -> snew o -> ostepS (m_cap s) t v o = Some (v', obs) ->
  forall fuel, (length (sfocus o) < fuel)%nat ->
  exists s' top' pi', exec fuel ovf t s top [] (enc_sop t v o) = Ok (s', top', obs) /\
                      RepF pi' t v' s' top' /\ m_cap s' = m_cap s /\ m_refuse s' = m_refuse s.
Proof.
  intros R Hnr Hnew Ho fuel Hfuel. destruct o as [k|pi bs]; cbn [snew sfocus enc_sop ostepS] in *.
  - exact (exec_k_refines ovf t v s top k v' obs R Hnr Hnew Ho fuel Hfuel).
  - exact (exec_string_refines ovf t v s top pi bs v' obs R Hnr Ho fuel Hfuel).
Qed.

(* a whole history of such operations through the dispatcher: every step is sent as op codes (the path encoding reads
   the live enum discriminants off the current owned value, as the harness does), the observations are the model's and
   the final state represents the model's final value *)
Fixpoint xrunS (fuel : nat) (ovf : bool) (cap : Z) (t : ty) (v : val) (s : mach) (top : ptr) (h : list sop)
  : out (mach * ptr * list (list Z)) :=
  match h with
  | [] => Ok (s, top, [])
  | o :: r =>
      do ' (s1, top1, ob) <- exec fuel ovf t s top [] (enc_sop t v o);
      match ostepS cap t v o with
      | Some (v1, _) => do ' (s', top', l) <- xrunS fuel ovf cap t v1 s1 top1 r; Ok (s', top', ob :: l)
      | None => Err (-9)
      end
  end.

Theorem xrun_refines fuel ovf t : forall h v s top pi0 v' obss,
  RepF pi0 t v s top -> m_refuse s <> 1 -> Forall snew h -> Forall (fun o => (length (sfocus o) < fuel)%nat) h ->
  orunS (m_cap s) t v h = Some (v', obss) ->
  exists s' top' pi', xrunS fuel ovf (m_cap s) t v s top h = Ok (s', top', obss) /\ RepF pi' t v' s' top' /\ m_cap s' = m_cap s.
Proof.
  induction h as [|o h IH]; intros v s top pi0 v' obss R Hnr Hnew Hfuel Ho.
  - cbn in Ho. injection Ho as <- <-. exists s, top, pi0. split; [reflexivity|]. split; [exact R|reflexivity].
  - cbn [orunS] in Ho. destruct (ostepS (m_cap s) t v o) as [[v1 ob]|] eqn:E; [|discriminate].
    apply Forall_cons_iff in Hnew as [Hn1 Hnew]. apply Forall_cons_iff in Hfuel as [Hf1 Hfuel].
    destruct (exec_s_refines ovf t v s top o v1 ob (repf_unfocus _ _ _ _ _ R) Hnr Hn1 E fuel Hf1)
      as (s1 & top1 & pi1 & Hs & R1 & Hc & Hr).
    destruct (orunS (m_cap s) t v1 h) as [[v'' l]|] eqn:E2; [|discriminate]. injection Ho as <- <-.
    rewrite <- Hc in E2.
    destruct (IH v1 s1 top1 pi1 v'' l R1 ltac:(congruence) Hnew Hfuel E2) as (s' & top' & pi' & Hm & R' & Hc').
    cbn [xrunS]. rewrite Hs. cbn [obind]. rewrite E. rewrite <- Hc, Hm. cbn [obind].
    exists s', top', pi'. split; [reflexivity|]. split; [exact R'|congruence].
Qed.

(* ---------------------------------------------------------------------------------------------- *)
(* 5. non-vacuity: a struct with a byte, a list of unsized elements (each a struct of a byte and an UnsizedString with a
      one-byte length prefix) and a top-level UnsizedString, in an allocation with 24 bytes of headroom.  The history:
      element 0's string "" -> "hello" -> "hi"; a default element is inserted at 1 (InitKinds.KUInsert); its empty string
      is set to "" (remove_range(0..0) and insert_all of nothing); element 0's string "hi" -> ""; a 256-byte string for
      element 2 ("hi") does not fit the one-byte prefix: ToPrimitiveError, the string stays cleared; a 40-byte string for
      the top-level string ([7]) does not fit the allocation: InvalidRealloc, cleared; then it is set to "AB" and an item
      is inserted into its List by an operation of the earlier theory.  Evaluated in the owned model and on the machine
      started from get_ptr: same observations, canonical bytes, the value seen through the live pointers is the model's
      value, check_pointers holds; the string sets of the history sent through the dispatcher as op codes give the same;
      the dispatcher on the op codes of single string sets returns what mstepS returns. *)
Example stringset_nonvacuous :
  let S := TStruct [TList (FAny 1) 1] in
  let E := TStruct [TFixed (FAny 1); S] in
  let t := TStruct [TFixed (FAny 1); TUList E 0; S] in
  let v := VStruct [VBytes [9];
                    VUList [([], VStruct [VBytes [1]; VStruct [VList []]]);
                            ([], VStruct [VBytes [2]; VStruct [VList [[104]; [105]]]])];
                    VStruct [VList [[7]]]] in
  let s := mkMach (encode t v ++ zrepeat 0 24) (zlen (encode t v)) 0 0 in
  let hs := [SStringSet [SF 1; SE 0; SF 1] [104; 101; 108; 108; 111];
             SStringSet [SF 1; SE 0; SF 1] [104; 105];
             SK (KUInsert [SF 1] 1 1 0);
             SStringSet [SF 1; SE 1; SF 1] [];
             SStringSet [SF 1; SE 0; SF 1] [];
             SStringSet [SF 1; SE 2; SF 1] (repeat 97 256);
             SStringSet [SF 2] (repeat 98 40);
             SStringSet [SF 2] [65; 66]] in
  let h := hs ++ [SK (KZ (ZY (YX (XList (GInsert [SF 2; SF 0] 1 [[33]])))))] in
  let vs := VStruct [VBytes [9];
                     VUList [([], VStruct [VBytes [1]; VStruct [VList []]]);
                             ([], VStruct [VBytes [0]; VStruct [VList []]]);
                             ([], VStruct [VBytes [2]; VStruct [VList []]])];
                     VStruct [VList [[65]; [66]]]] in
  let v' := VStruct [VBytes [9];
                     VUList [([], VStruct [VBytes [1]; VStruct [VList []]]);
                             ([], VStruct [VBytes [0]; VStruct [VList []]]);
                             ([], VStruct [VBytes [2]; VStruct [VList []]])];
                     VStruct [VList [[65]; [33]; [66]]]] in
  let obs_s := [[]; []; []; []; []; [-1; E_TOPRIM]; [-1; E_REALLOC]; []] in
  let obss := obs_s ++ [[]] in
  let long := SStringSet [SF 1; SE 1; SF 1] (repeat 97 256) in
  let cleared := VStruct [VBytes [9];
                          VUList [([], VStruct [VBytes [1]; VStruct [VList []]]);
                                  ([], VStruct [VBytes [2]; VStruct [VList []]])];
                          VStruct [VList [[7]]]] in
  let news := [SStringSet [SF 1; SE 0; SF 1] [104; 101; 108; 108; 111]; SStringSet [SF 1; SE 1; SF 1] [104];
               SStringSet [SF 1; SE 0; SF 1] []; SStringSet [SF 1; SE 1; SF 1] []; long;
               SStringSet [SF 2] (repeat 98 40); SStringSet [SF 2] []] in
  plain t = true /\ ty_ok true t = true /\ wf t v = true /\ m_cap s = 53 /\
  orunS (m_cap s) t v h = Some (v', obss) /\
  orunS (m_cap s) t v hs = Some (vs, obs_s) /\
  ostepStr (m_cap s) t v [SF 1; SE 1; SF 1] (repeat 97 256) = None /\
  ostepS (m_cap s) t v long = Some (cleared, [-1; E_TOPRIM]) /\
  map (enc_sop t v) (firstn 4 news) =
    [[1; 1; 1; 0; 1; 1; 55; 5; 104; 101; 108; 108; 111]; [1; 1; 1; 1; 1; 1; 55; 1; 104]; [1; 1; 1; 0; 1; 1; 55; 0];
     [1; 1; 1; 1; 1; 1; 55; 0]] /\
  match get_ptr true t (m_mem s) 0 (m_len s) with
  | Ok (top, _) =>
      map (fun o => exec 4 true t s top [] (enc_sop t v o)) news = map (mstepS true t s top) news /\
      match mstepS true t s top long with
      | Ok (s', top', e) =>
          e = [-1; E_TOPRIM] /\ ztake (m_len s') (m_mem s') = encode t cleared /\
          owned_ptr true t (m_mem s') top' = Ok cleared /\ top_check s' top' = true
      | _ => False
      end /\
      match xrunS 4 true (m_cap s) t v s top hs with
      | Ok (s', top', l) =>
          l = obs_s /\ ztake (m_len s') (m_mem s') = encode t vs /\ owned_ptr true t (m_mem s') top' = Ok vs /\
          top_check s' top' = true
      | _ => False
      end /\
      match mrunS true t s top h with
      | Ok (s', top', l) =>
          l = obss /\ ztake (m_len s') (m_mem s') = encode t v' /\ owned_ptr true t (m_mem s') top' = Ok v' /\
          top_check s' top' = true
      | _ => False
      end
  | _ => False
  end.
Proof. vm_compute. repeat split; reflexivity. Qed.

Print Assumptions plug_plug.
Print Assumptions plug_wrapper_eq.
Print Assumptions wr_nil.
Print Assumptions zlen_encode_list.
Print Assumptions glist_bounds.
Print Assumptions list_remove_nothing.
Print Assumptions list_insert_nothing.
Print Assumptions list_clear_general.
Print Assumptions list_fill_general.
Print Assumptions exec_55.
Print Assumptions ostepStr_E.
Print Assumptions byte_items_ok.
Print Assumptions string_set_prefix.
Print Assumptions string_set_refines.
Print Assumptions string_set_too_long.
Print Assumptions string_set_no_room.
Print Assumptions string_setE_refines.
Print Assumptions sstep_refines.
Print Assumptions srun_refines.
Print Assumptions srun_observable.
Print Assumptions dec_enc_bytes.
Print Assumptions exec_string_tail.
Print Assumptions exec_tie_string_gen.
Print Assumptions exec_tie_string.
Print Assumptions ostepStrE_target.
Print Assumptions exec_string_refines.
Print Assumptions exec_s_refines.
Print Assumptions xrun_refines.
Print Assumptions stringset_nonvacuous.
