(* List::insert_all / remove_range on a list located ANYWHERE inside a value - behind any number of struct fields and
   elements of lists of unsized elements - refine Vec::splice / Vec::drain on the owned model: same success, and
   the new machine state holds the owned model's new value with every ancestor header, offset table and live
   pointer updated.  (Flat.v is the special case of a path of length one.) *)
From SF Require Import Base.Prelude Gen.Generated Unsized.Types Unsized.Parse Unsized.Machine Unsized.Ops.
From SF Require Import Unsized.Proofs.EncodeParse Unsized.Proofs.Mem Unsized.Proofs.Notify Unsized.Proofs.Flat Unsized.Proofs.Layout
  Unsized.Proofs.Table Unsized.Proofs.Path Unsized.Proofs.Context Unsized.Proofs.Context2 Unsized.Proofs.Focus Unsized.Proofs.Pos
  Unsized.Proofs.FocusOps Unsized.Proofs.NotifyInside Unsized.Proofs.Resize.
From SF Require Import Unsized.Proofs.EnumFacts.

Arguments Z.add : simpl never.
Arguments Z.sub : simpl never.
Arguments Z.mul : simpl never.
Arguments Z.of_nat : simpl never.
Arguments Z.pow : simpl never.
Arguments Z.modulo : simpl never.

(* what the facts about a located list are, extracted once *)
Section located.
  Variables (pi : list step) (t : ty) (v : val) (c : fcheck) (lw : nat) (items : list (list Z)).
  Hypothesis Hres : resolve t v pi = Some (TList c lw, VList items).
  Let esz := Z.of_nat (fsize c).
  Let ax := addr_of t v pi 0.

  Lemma glist_facts s top : RepF pi t v s top ->
    (lw <> 0)%nat /\ (fsize c <> 0)%nat /\ zlen items < 256 ^ Z.of_nat lw /\ esz * zlen items < U64_LIMIT /\
    Forall (item_ok c) items.
  Proof.
    intros [Hpl Hok Hwf _ _ _ _].
    pose proof (resolve_wf _ _ _ _ _ Hwf Hres) as HwfL.
    destruct (resolve_ty_ok _ _ _ _ _ _ Hok Hres) as (l' & HokL & _).
    cbn [ty_ok] in HokL. zb. repeat match goal with H : (_ =? _)%nat = false |- _ => apply Nat.eqb_neq in H end.
    cbn [wf] in HwfL. apply andb_true_iff in HwfL as [HwfL Hitems]. apply andb_true_iff in HwfL as [Hn Hm]. zb.
    apply wf_items_forall in Hitems. subst esz. repeat split; auto.
  Qed.

  Lemma glist_located s top : RepF pi t v s top ->
    sub t top (mpath pi) = Ok (TList c lw, PList ax (esz * zlen items)) /\
    list_len lw c (m_mem s) ax (esz * zlen items) = Ok (zlen items).
  Proof.
    intros R. destruct (glist_facts s top R) as (Hlw & Hes & Hn & Hm & Hitems).
    destruct R as [Hpl Hok Hwf [junk Hmem] Hlen HL Hc32].
    destruct (LayP_get_at Lay pi t v 0 top _ _ Hwf Hres HL) as (node & Hg & HE).
    destruct node; try (cbn in HE; contradiction). cbn [Lay] in HE. destruct HE as [-> ->]. fold ax esz.
    split; [unfold sub; now rewrite Hg|].
    unfold list_len.
    pose proof (hctx_encode _ _ _ _ _ Hres) as Henc. cbn [encode] in Henc.
    assert (Hrd : rd (m_mem s) ax (Z.of_nat lw) = Ok (le_bytes lw (zlen items))).
    { rewrite Hmem, Henc, <- !app_assoc. apply rd_mid'; [subst ax; unfold addr_of; lia|now rewrite zlen_le_bytes]. }
    rewrite Hrd. cbn [obind]. pose proof (zlen_nonneg items). rewrite le_decode_le_bytes by lia.
    subst esz. replace (Z.of_nat (fsize c) * zlen items / Z.of_nat (fsize c)) with (zlen items) by (rewrite Z.mul_comm, Z.div_mul; lia).
    now rewrite Z.eqb_refl.
  Qed.
End located.

(* ---------------------------------------------------------------------------------------------- *)
Section ginsert.
  Variables (pi : list step) (t : ty) (v : val) (c : fcheck) (lw : nat) (items new : list (list Z)).
  Variable idx : Z.
  Hypothesis Hres : resolve t v pi = Some (TList c lw, VList items).
  Let items' := firstn (Z.to_nat idx) items ++ new ++ skipn (Z.to_nat idx) items.
  Let v' := plug t v pi (VList items').
  Let esz := Z.of_nat (fsize c).

  Hypothesis Hidx : 0 <= idx <= zlen items.
  Hypothesis Hnew : Forall (item_ok c) new.
  Hypothesis Hnew_ne : new <> [].
  Hypothesis Hfit : zlen items + zlen new < 256 ^ Z.of_nat lw.
  Hypothesis Hmul : esz * (zlen items + zlen new) < U64_LIMIT.

  Theorem list_insert_general s top :
    RepF pi t v s top -> m_refuse s <> 1 -> m_len s + esz * zlen new <= m_cap s ->
    exists s' top', list_insert t s top (mpath pi) idx new = Ok (s', top', []) /\ RepF pi t v' s' top' /\
                    m_cap s' = m_cap s /\ m_refuse s' = m_refuse s.
  Proof.
    intros R Hnref Hroom.
    destruct (glist_facts pi t v c lw items Hres s top R) as (Hlw & Hes & Hn & Hm & Hitems).
    destruct (glist_located pi t v c lw items Hres s top R) as (Hsub & Hll). fold esz in Hsub, Hll.
    pose proof R as [Hpl Hok Hwf [junk Hmem] Hlen HL Hc32].
    assert (0 < esz) as Hesz by (subst esz; lia).
    pose proof (zlen_nonneg items) as Hi0. pose proof (zlen_nonneg new) as Hn0.
    assert (0 < zlen new) as Hnpos.
    { destruct new as [|x0 l0] eqn:En; [congruence|]. rewrite zlen_cons. pose proof (zlen_nonneg l0). lia. }
    set (hd := concat (firstn (Z.to_nat idx) items)). set (tl := concat (skipn (Z.to_nat idx) items)).
    set (ax := addr_of t v pi 0) in *. set (len := zlen items) in *. set (n := zlen new) in *. set (k := esz * n).
    assert (Hcat : concat items = hd ++ tl) by apply concat_split.
    assert (Hhd : zlen hd = esz * idx).
    { subst hd. rewrite (zlen_concat_fixed _ (fsize c)).
      - unfold zlen at 1. rewrite firstn_length. unfold zlen in Hidx. subst esz len. unfold zlen in *. f_equal. lia.
      - apply Forall_item_len. apply Forall_forall. intros x Hx. apply (proj1 (Forall_forall _ _) Hitems). eapply In_firstn; eauto. }
    assert (Hbody : zlen (concat items) = esz * len) by (apply zlen_concat_fixed; now apply Forall_item_len).
    assert (Hcnew : zlen (concat new) = k) by (apply zlen_concat_fixed; now apply Forall_item_len).
    assert (Htl : zlen tl = esz * (len - idx)).
    { assert (zlen hd + zlen tl = esz * len) by (rewrite <- zlen_app, <- Hcat; exact Hbody). lia. }
    assert (Hitems' : Forall (item_ok c) items').
    { subst items'. apply Forall_app. split; [|apply Forall_app; split; [exact Hnew|]].
      - apply Forall_forall. intros x Hx. apply (proj1 (Forall_forall _ _) Hitems). eapply In_firstn; eauto.
      - apply Forall_forall. intros x Hx. apply (proj1 (Forall_forall _ _) Hitems). eapply In_skipn; eauto. }
    assert (Hlen' : zlen items' = len + n).
    { subst items'. rewrite !zlen_app. unfold zlen at 1 3. rewrite firstn_length, skipn_length. unfold zlen in Hidx. subst len n. unfold zlen. lia. }
    assert (Hcat' : concat items' = hd ++ concat new ++ tl) by (subst items' hd tl; now rewrite !concat_app).
    assert (HencX : encode (TList c lw) (VList items) = (le_bytes lw len ++ hd) ++ tl).
    { cbn [encode]. fold len. rewrite Hcat. now rewrite <- app_assoc. }
    assert (HencX' : encode (TList c lw) (VList items') = le_bytes lw (len + n) ++ hd ++ concat new ++ tl).
    { cbn [encode]. now rewrite Hlen', Hcat'. }
    assert (Hsz' : zlen (encode (TList c lw) (VList items')) = zlen (encode (TList c lw) (VList items)) + k).
    { rewrite HencX', HencX, !zlen_app, !zlen_le_bytes, Hcnew. lia. }
    assert (HwfX' : wf (TList c lw) (VList items') = true).
    { cbn [wf]. rewrite (proj2 (wf_items_forall c items') Hitems'), Hlen'.
      destruct (len + n <? 256 ^ Z.of_nat lw) eqn:Ea; [|zb; subst len n; lia].
      destruct (Z.of_nat (fsize c) * (len + n) <? U64_LIMIT) eqn:Eb; [reflexivity|zb; subst esz len n; lia]. }
    (* 1-2. locate, read the prefix, the two checks *)
    unfold list_insert. rewrite Hsub. cbn [obind]. fold esz len n. rewrite Hll. cbn [obind]. fold k.
    destruct (len <? idx) eqn:E1; [zb; lia|].
    destruct (256 ^ Z.of_nat lw <=? len + n) eqn:E2; [zb; subst len n; lia|].
    (* 3. add_bytes *)
    destruct (add_bytes_inside pi t v (TList c lw) (VList items) (VList items') Hres eq_refl s top
                (le_bytes lw len ++ hd) tl k R HencX ltac:(subst k; nia) Hsz' Hnref ltac:(subst k n; lia))
      as (s1 & top1 & G & J & Hadd & Hmem1 & HG & Hlen1 & Hcap1 & Href1 & HL1).
    replace (ax + Z.of_nat lw + idx * esz) with (ax + zlen (le_bytes lw len ++ hd))
      by (rewrite zlen_app, zlen_le_bytes, Hhd; lia).
    fold n k. fold ax in Hadd. rewrite Hadd. cbn [obind].
    (* 4. the list's own node after the broadcast *)
    pose proof (resolve_plug t v pi _ _ (VList items') Hres) as Hres'. fold v' in Hres', HL1.
    assert (Hwf' : wf t v' = true).
    { apply (wf_plug t v pi _ _ (VList items') Hwf Hres HwfX').
      rewrite (hctx_plug_len t v pi _ _ (VList items') Hres), Hsz'. unfold m_cap in *. lia. }
    assert (Hax' : addr_of t v' pi 0 = ax) by (subst v' ax; eapply addr_of_plug; eauto).
    destruct (LayP_get_at _ pi t v' 0 top1 _ _ Hwf' Hres' HL1) as (node1 & Hg1 & (node0 & HE0 & ->)).
    rewrite Hax' in HE0.
    destruct node0; try (cbn in HE0; contradiction). cbn [Lay] in HE0. destruct HE0 as [-> ->].
    cbn [own_notify] in Hg1.
    unfold sub. rewrite Hg1. cbn [obind start_of].
    (* 5. header and items *)
    rewrite Hmem1.
    set (Pk := fst (hctx t v pi k)) in *. set (Q := snd (hctx t v pi 0)) in *.
    assert (HPk : zlen Pk = ax) by (subst Pk ax; unfold addr_of; rewrite hctx_fst_len; lia).
    assert (Hw1 : wr (Pk ++ ((le_bytes lw len ++ hd) ++ G ++ tl) ++ Q ++ J) ax (le_bytes lw (len + n))
                  = Ok (Pk ++ le_bytes lw (len + n) ++ hd ++ G ++ tl ++ Q ++ J)).
    { rewrite <- !app_assoc. apply wr_mid'; [now rewrite HPk|now rewrite !zlen_le_bytes]. }
    rewrite Hw1. cbn [obind].
    assert (Hw2 : wr (Pk ++ le_bytes lw (len + n) ++ hd ++ G ++ tl ++ Q ++ J) (ax + Z.of_nat lw + idx * esz) (concat new)
                  = Ok (Pk ++ le_bytes lw (len + n) ++ hd ++ concat new ++ tl ++ Q ++ J)).
    { replace (Pk ++ le_bytes lw (len + n) ++ hd ++ G ++ tl ++ Q ++ J)
        with ((Pk ++ le_bytes lw (len + n) ++ hd) ++ G ++ tl ++ Q ++ J) by (now rewrite <- !app_assoc).
      replace (Pk ++ le_bytes lw (len + n) ++ hd ++ concat new ++ tl ++ Q ++ J)
        with ((Pk ++ le_bytes lw (len + n) ++ hd) ++ concat new ++ tl ++ Q ++ J) by (now rewrite <- !app_assoc).
      apply wr_mid'; [|now rewrite Hcnew, HG]. rewrite !zlen_app, zlen_le_bytes, Hhd, HPk. lia. }
    rewrite Hw2. cbn [obind].
    (* 6. the new state *)
    assert (Henc' : encode t v' = Pk ++ (le_bytes lw (len + n) ++ hd ++ concat new ++ tl) ++ Q).
    { subst v' Pk Q. rewrite (hctx_plug t v pi _ _ (VList items') Hres), HencX'.
      replace (zlen (le_bytes lw (len + n) ++ hd ++ concat new ++ tl) - zlen (encode (TList c lw) (VList items))) with k
        by (rewrite <- HencX'; lia). reflexivity. }
    eexists _, _. split; [reflexivity|]. split; [|split; [unfold m_cap in *; cbn [set_mem m_mem]|cbn [set_mem m_refuse]; exact Href1]].
    - constructor; cbn [set_mem m_mem m_len]; auto.
      + exists J. rewrite Henc'. now rewrite <- !app_assoc.
      + rewrite Hlen1, Hlen. subst v'. rewrite (hctx_plug_len t v pi _ _ (VList items') Hres), Hsz'. lia.
      + apply (LayP_set_at _ Lay pi t v' 0 top1 _ _ _ Hwf' Hres' HL1). rewrite Hax'. cbn [Lay].
        split; [reflexivity|]. rewrite Hlen'. subst esz. lia.
      + unfold m_cap in *. cbn [set_mem m_mem].
        rewrite !zlen_app, !zlen_le_bytes, Hcnew. rewrite Hmem1 in Hcap1.
        rewrite !zlen_app, !zlen_le_bytes, HG in Hcap1. lia.
    - rewrite !zlen_app, !zlen_le_bytes, Hcnew. rewrite Hmem1 in Hcap1.
      rewrite !zlen_app, !zlen_le_bytes, HG in Hcap1. lia.
  Qed.
End ginsert.

(* ---------------------------------------------------------------------------------------------- *)
Lemma skipn_skipn_add {A} (x y : nat) (l : list A) : skipn x (skipn y l) = skipn (y + x) l.
Proof. revert l. induction y as [|y IH]; intros l; [reflexivity|]. destruct l; [now rewrite !skipn_nil|]. cbn [skipn Nat.add]. apply IH. Qed.

Lemma concat_split_3 (l : list (list Z)) (i j : nat) : (i <= j)%nat ->
  concat l = concat (firstn i l) ++ concat (firstn (j - i) (skipn i l)) ++ concat (skipn j l).
Proof.
  intros Hij. rewrite (concat_split l i) at 1. f_equal.
  rewrite (concat_split (skipn i l) (j - i)). f_equal. f_equal. rewrite skipn_skipn_add. f_equal. lia.
Qed.

Section gremove.
  Variables (pi : list step) (t : ty) (v : val) (c : fcheck) (lw : nat) (items : list (list Z)).
  Variables st en : Z.
  Hypothesis Hres : resolve t v pi = Some (TList c lw, VList items).
  Let items' := firstn (Z.to_nat st) items ++ skipn (Z.to_nat en) items.
  Let v' := plug t v pi (VList items').
  Let esz := Z.of_nat (fsize c).
  Hypothesis Hrange : 0 <= st < en /\ en <= zlen items.

  Theorem list_remove_general s top :
    RepF pi t v s top ->
    exists s' top', list_remove t s top (mpath pi) st en = Ok (s', top', []) /\ RepF pi t v' s' top' /\
                    m_cap s' = m_cap s /\ m_refuse s' = m_refuse s.
  Proof.
    intros R.
    destruct (glist_facts pi t v c lw items Hres s top R) as (Hlw & Hes & Hn & Hm & Hitems).
    destruct (glist_located pi t v c lw items Hres s top R) as (Hsub & Hll). fold esz in Hsub, Hll.
    pose proof R as [Hpl Hok Hwf [junk Hmem] Hlen HL Hc32].
    assert (0 < esz) as Hesz by (subst esz; lia).
    pose proof (zlen_nonneg items) as Hi0. destruct Hrange as [[Hst0 Hsten] Hen].
    set (hd := concat (firstn (Z.to_nat st) items)).
    set (rm := concat (firstn (Z.to_nat en - Z.to_nat st) (skipn (Z.to_nat st) items))).
    set (tl := concat (skipn (Z.to_nat en) items)).
    set (ax := addr_of t v pi 0) in *. set (len := zlen items) in *. set (k := esz * (en - st)).
    assert (Hcat : concat items = hd ++ rm ++ tl) by (apply concat_split_3; lia).
    assert (Hitlen : Forall (fun it => length it = fsize c) items) by now apply Forall_item_len.
    assert (Hhd : zlen hd = esz * st).
    { subst hd. rewrite (zlen_concat_fixed _ (fsize c)).
      - unfold zlen at 1. rewrite firstn_length. subst len. unfold zlen in Hen. subst esz. f_equal. lia.
      - apply Forall_forall. intros x Hx. apply (proj1 (Forall_forall _ _) Hitlen). eapply In_firstn; eauto. }
    assert (Htl : zlen tl = esz * (len - en)).
    { subst tl. rewrite (zlen_concat_fixed _ (fsize c)).
      - unfold zlen at 1. rewrite skipn_length. subst len. unfold zlen in *. subst esz. f_equal. lia.
      - apply Forall_forall. intros x Hx. apply (proj1 (Forall_forall _ _) Hitlen). eapply In_skipn; eauto. }
    assert (Hbody : zlen (concat items) = esz * len) by (apply zlen_concat_fixed; assumption).
    assert (Hrm : zlen rm = k).
    { assert (zlen hd + zlen rm + zlen tl = esz * len) by (rewrite <- !zlen_app, <- app_assoc, <- Hcat; exact Hbody). subst k. nia. }
    assert (0 < k) by (subst k; nia).
    assert (Hitems' : Forall (item_ok c) items').
    { subst items'. apply Forall_app. split.
      - apply Forall_forall. intros x Hx. apply (proj1 (Forall_forall _ _) Hitems). eapply In_firstn; eauto.
      - apply Forall_forall. intros x Hx. apply (proj1 (Forall_forall _ _) Hitems). eapply In_skipn; eauto. }
    assert (Hlen' : zlen items' = len - (en - st)).
    { subst items'. rewrite zlen_app. unfold zlen at 1 2. rewrite firstn_length, skipn_length. subst len. unfold zlen in *. lia. }
    assert (Hcat' : concat items' = hd ++ tl) by (subst items' hd tl; now rewrite concat_app).
    assert (HencX : encode (TList c lw) (VList items) = (le_bytes lw len ++ hd) ++ rm ++ tl).
    { cbn [encode]. fold len. rewrite Hcat. now rewrite <- app_assoc. }
    assert (HencX' : encode (TList c lw) (VList items') = le_bytes lw (len - (en - st)) ++ hd ++ tl).
    { cbn [encode]. now rewrite Hlen', Hcat'. }
    assert (Hsz' : zlen (encode (TList c lw) (VList items')) = zlen (encode (TList c lw) (VList items)) - zlen rm).
    { rewrite HencX', HencX, !zlen_app, !zlen_le_bytes, Hrm. lia. }
    assert (HwfX' : wf (TList c lw) (VList items') = true).
    { cbn [wf]. rewrite (proj2 (wf_items_forall c items') Hitems'), Hlen'.
      destruct (len - (en - st) <? 256 ^ Z.of_nat lw) eqn:Ea; [|zb; subst len; lia].
      destruct (Z.of_nat (fsize c) * (len - (en - st)) <? U64_LIMIT) eqn:Eb; [reflexivity|zb; subst esz len; nia]. }
    unfold list_remove. rewrite Hsub. cbn [obind]. fold esz len. rewrite Hll. cbn [obind].
    destruct (en <? st) eqn:E1; [zb; lia|]. destruct (len <? en) eqn:E2; [zb; lia|].
    destruct (remove_bytes_inside pi t v (TList c lw) (VList items) (VList items') Hres eq_refl s top
                (le_bytes lw len ++ hd) rm tl R HencX ltac:(lia) Hsz')
      as (s1 & top1 & J & Hrem & Hmem1 & Hlen1 & Hcap1 & Href1 & HL1).
    replace (ax + Z.of_nat lw + st * esz) with (ax + zlen (le_bytes lw len ++ hd))
      by (rewrite zlen_app, zlen_le_bytes, Hhd; lia).
    replace (ax + Z.of_nat lw + en * esz) with (ax + zlen (le_bytes lw len ++ hd) + zlen rm)
      by (rewrite zlen_app, zlen_le_bytes, Hhd, Hrm; subst k; lia).
    fold ax in Hrem. rewrite Hrem. cbn [obind].
    pose proof (resolve_plug t v pi _ _ (VList items') Hres) as Hres'. fold v' in Hres', HL1.
    assert (Hwf' : wf t v' = true).
    { apply (wf_plug t v pi _ _ (VList items') Hwf Hres HwfX').
      rewrite (hctx_plug_len t v pi _ _ (VList items') Hres), Hsz'.
      pose proof (repf_cap _ _ _ _ _ R). pose proof (zlen_nonneg rm). lia. }
    assert (Hax' : addr_of t v' pi 0 = ax) by (subst v' ax; eapply addr_of_plug; eauto).
    destruct (LayP_get_at _ pi t v' 0 top1 _ _ Hwf' Hres' HL1) as (node1 & Hg1 & (node0 & HE0 & ->)).
    rewrite Hax' in HE0.
    destruct node0; try (cbn in HE0; contradiction). cbn [Lay] in HE0. destruct HE0 as [-> ->].
    cbn [own_notify] in Hg1.
    unfold sub. rewrite Hg1. cbn [obind start_of].
    rewrite Hmem1.
    set (Pk := fst (hctx t v pi (- zlen rm))) in *. set (Q := snd (hctx t v pi 0)) in *.
    assert (HPk : zlen Pk = ax) by (subst Pk ax; unfold addr_of; rewrite hctx_fst_len; lia).
    assert (Hw1 : wr (Pk ++ ((le_bytes lw len ++ hd) ++ tl) ++ Q ++ J) ax (le_bytes lw (len - (en - st)))
                  = Ok (Pk ++ le_bytes lw (len - (en - st)) ++ hd ++ tl ++ Q ++ J)).
    { rewrite <- !app_assoc. apply wr_mid'; [now rewrite HPk|now rewrite !zlen_le_bytes]. }
    rewrite Hw1. cbn [obind].
    assert (Henc' : encode t v' = Pk ++ (le_bytes lw (len - (en - st)) ++ hd ++ tl) ++ Q).
    { subst v' Pk Q. rewrite (hctx_plug t v pi _ _ (VList items') Hres), HencX'.
      replace (zlen (le_bytes lw (len - (en - st)) ++ hd ++ tl) - zlen (encode (TList c lw) (VList items))) with (- zlen rm)
        by (rewrite <- HencX'; lia). reflexivity. }
    eexists _, _. split; [reflexivity|]. split; [|split; [unfold m_cap in *; cbn [set_mem m_mem]|cbn [set_mem m_refuse]; exact Href1]].
    - constructor; cbn [set_mem m_mem m_len]; auto.
      + exists J. rewrite Henc'. now rewrite <- !app_assoc.
      + rewrite Hlen1, Hlen. subst v'. rewrite (hctx_plug_len t v pi _ _ (VList items') Hres), Hsz'. lia.
      + apply (LayP_set_at _ Lay pi t v' 0 top1 _ _ _ Hwf' Hres' HL1). rewrite Hax'. cbn [Lay].
        split; [reflexivity|]. rewrite Hlen'. subst esz. lia.
      + unfold m_cap in *. cbn [set_mem m_mem].
        rewrite !zlen_app, !zlen_le_bytes. rewrite Hmem1 in Hcap1.
        rewrite !zlen_app, !zlen_le_bytes in Hcap1. lia.
    - rewrite !zlen_app, !zlen_le_bytes. rewrite Hmem1 in Hcap1.
      rewrite !zlen_app, !zlen_le_bytes in Hcap1. lia.
  Qed.
End gremove.

(* ---------------------------------------------------------------------------------------------- *)
(* failing operations at any depth: the error is the owned model's, and it is returned before any write
   (an `Err` outcome of the machine carries no new state)                                          *)
Section gerrors.
  Variables (pi : list step) (t : ty) (v : val) (c : fcheck) (lw : nat) (items : list (list Z)).
  Hypothesis Hres : resolve t v pi = Some (TList c lw, VList items).
  Let esz := Z.of_nat (fsize c).

  Lemma list_insert_index_error_g s top idx new :
    RepF pi t v s top -> zlen items < idx -> list_insert t s top (mpath pi) idx new = Err E_INDEX.
  Proof.
    intros R Hi. destruct (glist_located pi t v c lw items Hres s top R) as (Hs & Hl).
    unfold list_insert. rewrite Hs. cbn [obind]. rewrite Hl. cbn [obind].
    destruct (zlen items <? idx) eqn:E; [reflexivity|zb; lia].
  Qed.

  Lemma list_insert_prefix_error_g s top idx new :
    RepF pi t v s top -> idx <= zlen items -> 256 ^ Z.of_nat lw <= zlen items + zlen new ->
    list_insert t s top (mpath pi) idx new = Err E_TOPRIM.
  Proof.
    intros R Hi Hp. destruct (glist_located pi t v c lw items Hres s top R) as (Hs & Hl).
    unfold list_insert. rewrite Hs. cbn [obind]. rewrite Hl. cbn [obind].
    destruct (zlen items <? idx) eqn:E; [zb; lia|].
    destruct (256 ^ Z.of_nat lw <=? zlen items + zlen new) eqn:E2; [reflexivity|zb; lia].
  Qed.

  (* growth beyond the allocation, or refused by the data access: InvalidRealloc, before any byte moves *)
  Lemma list_insert_realloc_error_g s top idx new :
    RepF pi t v s top -> 0 <= idx <= zlen items -> zlen items + zlen new < 256 ^ Z.of_nat lw -> new <> [] ->
    (m_refuse s = 1 \/ m_cap s < m_len s + esz * zlen new) ->
    list_insert t s top (mpath pi) idx new = Err E_REALLOC.
  Proof.
    intros R Hi Hp Hne Hfail. pose proof (repf_top_check _ _ _ _ _ R) as Hchk.
    destruct (glist_facts pi t v c lw items Hres s top R) as (Hlw & Hes & Hn & Hm & Hitems).
    destruct (glist_located pi t v c lw items Hres s top R) as (Hs & Hl).
    pose proof R as [_ _ _ [junk Hmem] Hlen _ _].
    unfold list_insert. rewrite Hs. cbn [obind]. rewrite Hl. cbn [obind].
    destruct (zlen items <? idx) eqn:E; [zb; lia|].
    destruct (256 ^ Z.of_nat lw <=? zlen items + zlen new) eqn:E2; [zb; lia|].
    unfold add_bytes. rewrite Hchk. cbn [negb].
    assert (0 < esz) by (subst esz; lia).
    assert (0 < zlen new) by (destruct new as [|x l]; [congruence|rewrite zlen_cons; pose proof (zlen_nonneg l); lia]).
    pose proof (zlen_nonneg items).
    pose proof (hctx_encode _ _ _ _ _ Hres) as Henc. cbn [encode] in Henc.
    set (ax := addr_of t v pi 0) in *.
    assert (0 <= ax /\ ax + Z.of_nat lw + esz * zlen items <= m_len s) as [Ha0 Hin].
    { subst ax. unfold addr_of. rewrite Hlen, Henc, !zlen_app, zlen_le_bytes.
      rewrite (zlen_concat_fixed items (fsize c)) by (now apply Forall_item_len). fold esz.
      pose proof (zlen_nonneg (fst (hctx t v pi 0))). pose proof (zlen_nonneg (snd (hctx t v pi 0))). lia. }
    fold esz.
    match goal with |- context [if ?b then Err E_PTR_OOB else _] => destruct b eqn:E3 end.
    { apply orb_true_iff in E3. destruct E3; zb; nia. }
    destruct (esz * zlen new =? 0) eqn:E4; [zb; nia|].
    unfold realloc.
    destruct (m_len s <? m_len s + esz * zlen new) eqn:E5; [|zb; nia].
    destruct Hfail as [Hr|Hc].
    - rewrite Hr, Z.eqb_refl. reflexivity.
    - destruct (m_refuse s =? 1); [reflexivity|]. cbn [andb].
      destruct (m_cap s <? m_len s + esz * zlen new) eqn:E6; [reflexivity|zb; lia].
  Qed.

  Lemma list_remove_range_error_g s top st en :
    RepF pi t v s top -> en < st -> list_remove t s top (mpath pi) st en = Err E_RANGE.
  Proof.
    intros R Hi. destruct (glist_located pi t v c lw items Hres s top R) as (Hs & Hl).
    unfold list_remove. rewrite Hs. cbn [obind]. rewrite Hl. cbn [obind].
    destruct (en <? st) eqn:E; [reflexivity|zb; lia].
  Qed.

  Lemma list_remove_index_error_g s top st en :
    RepF pi t v s top -> st <= en -> zlen items < en -> list_remove t s top (mpath pi) st en = Err E_INDEX.
  Proof.
    intros R Hi Hj. destruct (glist_located pi t v c lw items Hres s top R) as (Hs & Hl).
    unfold list_remove. rewrite Hs. cbn [obind]. rewrite Hl. cbn [obind].
    destruct (en <? st) eqn:E; [zb; lia|]. destruct (zlen items <? en) eqn:E2; [reflexivity|zb; lia].
  Qed.
End gerrors.
