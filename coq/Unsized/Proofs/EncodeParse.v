(* Proofs about the canonical encoding and the parser of unsized shapes (C05, C04, and the facts C02
   rests on): sizes, round trip, safety of parsing arbitrary bytes. *)
From SF Require Import Base.Prelude Gen.Generated Unsized.Types Unsized.Parse.

Arguments Z.add : simpl never.
Arguments Z.sub : simpl never.
Arguments Z.mul : simpl never.
Arguments Z.of_nat : simpl never.
Arguments Z.pow : simpl never.
Arguments Z.modulo : simpl never.

(* ---------------------------------------------------------------------------------------------- *)
(* induction principle for the nested universe                                                     *)
Section ty_induction.
  Variable P : ty -> Prop.
  Hypothesis HF : forall c, P (TFixed c).
  Hypothesis HL : forall c lw, P (TList c lw).
  Hypothesis HR : P TRem.
  Hypothesis HU : forall it k, P it -> P (TUList it k).
  Hypothesis HS : forall ts, Forall P ts -> P (TStruct ts).
  Hypothesis HE : forall rw vs, Forall (fun dv => P (snd dv)) vs -> P (TEnum rw vs).

  Fixpoint ty_ind' (t : ty) : P t :=
    match t with
    | TFixed c => HF c
    | TList c lw => HL c lw
    | TRem => HR
    | TUList it k => HU it k (ty_ind' it)
    | TStruct ts =>
        HS ts ((fix go (ts : list ty) : Forall P ts :=
                  match ts with
                  | [] => Forall_nil P
                  | t :: r => Forall_cons t (ty_ind' t) (go r)
                  end) ts)
    | TEnum rw vs =>
        HE rw vs ((fix go (vs : list (Z * ty)) : Forall (fun dv => P (snd dv)) vs :=
                     match vs with
                     | [] => Forall_nil _
                     | dv :: r => Forall_cons dv (ty_ind' (snd dv)) (go r)
                     end) vs)
    end.
End ty_induction.

(* ---------------------------------------------------------------------------------------------- *)
(* unfolding equations (all by conversion) so that later proofs never unfold the nested fixpoints   *)
Lemma encode_struct_cons t ts v vs :
  encode (TStruct (t :: ts)) (VStruct (v :: vs)) = encode t v ++ encode (TStruct ts) (VStruct vs).
Proof. reflexivity. Qed.
Lemma encode_struct_nil vs : encode (TStruct []) (VStruct vs) = [].
Proof. reflexivity. Qed.
Lemma encode_struct_nilv ts : encode (TStruct ts) (VStruct []) = [].
Proof. destruct ts; reflexivity. Qed.

Lemma byte_size_struct_cons t ts v vs :
  byte_size (TStruct (t :: ts)) (VStruct (v :: vs)) = byte_size t v + byte_size (TStruct ts) (VStruct vs).
Proof. reflexivity. Qed.

Lemma wf_struct_cons t ts v vs :
  wf (TStruct (t :: ts)) (VStruct (v :: vs)) = wf t v && wf (TStruct ts) (VStruct vs).
Proof. reflexivity. Qed.

Lemma extent_struct_cons ovf t ts bs :
  extent ovf (TStruct (t :: ts)) bs =
  (do n <- extent ovf t bs; do m <- extent ovf (TStruct ts) (zdrop n bs); Ok (n + m)).
Proof. reflexivity. Qed.

Fixpoint owned_fields (ovf : bool) (ts : list ty) (bs : list Z) : out (list val) :=
  match ts with
  | [] => Ok []
  | t :: r =>
      do n <- extent ovf t bs;
      do v <- owned ovf t bs;
      do vs <- owned_fields ovf r (zdrop n bs);
      Ok (v :: vs)
  end.

Lemma owned_struct ovf ts bs : owned ovf (TStruct ts) bs = omap VStruct (owned_fields ovf ts bs).
Proof.
  cbn [owned]. f_equal. revert bs. induction ts as [|t r IH]; intros bs; [reflexivity|].
  cbn [owned_fields].
  destruct (extent ovf t bs) as [n| | |]; cbn [obind]; try reflexivity.
  destruct (owned ovf t bs) as [v| | |]; cbn [obind]; try reflexivity.
  rewrite IH. reflexivity.
Qed.

(* enum: lookup of the variant *)
Lemma encode_enum rw vs d p :
  encode (TEnum rw vs) (VEnum d p) =
  le_bytes rw d ++ match find_variant d vs with Some t => encode t p | None => [] end.
Proof.
  cbn [encode]. f_equal. induction vs as [|[d' t] vs IH]; cbn [find_variant]; [reflexivity|].
  destruct (d =? d'); [reflexivity|exact IH].
Qed.

Lemma byte_size_enum rw vs d p :
  byte_size (TEnum rw vs) (VEnum d p) =
  Z.of_nat rw + match find_variant d vs with Some t => byte_size t p | None => 0 end.
Proof.
  cbn [byte_size]. f_equal. induction vs as [|[d' t] vs IH]; cbn [find_variant]; [reflexivity|].
  destruct (d =? d'); [reflexivity|exact IH].
Qed.

Lemma wf_enum rw vs d p :
  wf (TEnum rw vs) (VEnum d p) =
  (0 <=? d) && (d <? 256 ^ Z.of_nat rw) && match find_variant d vs with Some t => wf t p | None => false end.
Proof.
  cbn [wf]. f_equal. induction vs as [|[d' t] vs IH]; cbn [find_variant]; [reflexivity|].
  destruct (d =? d'); [reflexivity|exact IH].
Qed.

Lemma extent_enum ovf rw vs bs :
  extent ovf (TEnum rw vs) bs =
  (do ' (h, r) <- adv (Z.of_nat rw) bs;
   match find_variant (le_decode h) vs with
   | Some t => do n <- extent ovf t r; Ok (Z.of_nat rw + n)
   | None => Err E_INVALID_DATA
   end).
Proof.
  cbn [extent]. destruct (adv (Z.of_nat rw) bs) as [[h r]| | |]; cbn [obind]; try reflexivity.
  induction vs as [|[d' t] vs IH]; cbn [find_variant]; [reflexivity|].
  destruct (le_decode h =? d'); [reflexivity|exact IH].
Qed.

Lemma owned_enum ovf rw vs bs :
  owned ovf (TEnum rw vs) bs =
  match find_variant (le_decode (firstn rw bs)) vs with
  | Some t => do p <- owned ovf t (skipn rw bs); Ok (VEnum (le_decode (firstn rw bs)) p)
  | None => Err E_INVALID_DATA
  end.
Proof.
  cbn [owned]. induction vs as [|[d' t] vs IH]; cbn [find_variant]; [reflexivity|].
  destruct (le_decode (firstn rw bs) =? d'); [reflexivity|exact IH].
Qed.

(* ---------------------------------------------------------------------------------------------- *)
(* small list facts                                                                                *)
Lemma ztake_app_exact {A} (a b : list A) : ztake (zlen a) (a ++ b) = a.
Proof. unfold ztake, zlen. rewrite Nat2Z.id. rewrite firstn_app, Nat.sub_diag, firstn_all. cbn. apply app_nil_r. Qed.

Lemma zdrop_app_exact {A} (a b : list A) : zdrop (zlen a) (a ++ b) = b.
Proof. unfold zdrop, zlen. rewrite Nat2Z.id. rewrite skipn_app, Nat.sub_diag, skipn_all. reflexivity. Qed.

Lemma firstn_app_exact {A} (a b : list A) : firstn (length a) (a ++ b) = a.
Proof. rewrite firstn_app, Nat.sub_diag, firstn_all. cbn. apply app_nil_r. Qed.

Lemma skipn_app_exact {A} (a b : list A) : skipn (length a) (a ++ b) = b.
Proof. rewrite skipn_app, Nat.sub_diag, skipn_all. reflexivity. Qed.

Lemma adv_app (a b : list Z) : adv (zlen a) (a ++ b) = Ok (a, b).
Proof.
  unfold adv. pose proof (zlen_nonneg a). rewrite zlen_app.
  destruct (zlen a <? 0) eqn:E1; [zb; lia|]. pose proof (zlen_nonneg b).
  destruct (zlen a + zlen b <? zlen a) eqn:E2; [zb; lia|]. cbn [orb].
  now rewrite ztake_app_exact, zdrop_app_exact.
Qed.

Lemma adv_ok n bs h r : adv n bs = Ok (h, r) -> 0 <= n <= zlen bs /\ h = ztake n bs /\ r = zdrop n bs.
Proof.
  unfold adv. destruct ((n <? 0) || (zlen bs <? n)) eqn:E; [discriminate|].
  intros H; injection H as <- <-. zb. auto.
Qed.

Lemma adv_never_fault n bs : adv n bs <> Fault /\ adv n bs <> Panic.
Proof. unfold adv. destruct (_ || _); split; discriminate. Qed.

Lemma zlen_concat_fixed (items : list (list Z)) (n : nat) :
  Forall (fun it => length it = n) items -> zlen (concat items) = Z.of_nat n * zlen items.
Proof.
  induction 1 as [|it items Hit _ IH]; [unfold zlen; cbn [concat length]; lia|].
  cbn [concat]. rewrite zlen_app, IH, zlen_cons. unfold zlen at 1. rewrite Hit. lia.
Qed.

Lemma chunks_concat (items : list (list Z)) (n : nat) fuel :
  (0 < n)%nat -> Forall (fun it => length it = n) items -> (length items <= fuel)%nat ->
  chunks fuel n (concat items) = items.
Proof.
  intros Hn H. revert fuel. induction H as [|it items Hit _ IH]; intros fuel Hf.
  - destruct fuel; reflexivity.
  - destruct fuel as [|fuel]; [cbn in Hf; lia|].
    cbn [concat chunks]. destruct (it ++ concat items) eqn:E.
    + destruct it; [cbn in Hit; lia|discriminate].
    + rewrite <- E. subst n. rewrite firstn_app_exact, skipn_app_exact. f_equal. apply IH. cbn in Hf. lia.
Qed.

(* ---------------------------------------------------------------------------------------------- *)
(* C05: the serialization has exactly the announced size                                           *)
Lemma wf_list_items c items :
  forallb (fun it => (length it =? fsize c)%nat && bytes_ok it && fvalid c it) items = true ->
  Forall (fun it => length it = fsize c) items /\ forallb (fvalid c) items = true.
Proof.
  induction items as [|it items IH]; cbn [forallb]; intros H; [split; [constructor|reflexivity]|].
  apply andb_true_iff in H as [H1 H2]. apply andb_true_iff in H1 as [H1 Hv]. apply andb_true_iff in H1 as [Hl _].
  apply Nat.eqb_eq in Hl. destruct (IH H2) as [IHa IHb]. split; [constructor; assumption|now rewrite Hv, IHb].
Qed.

Lemma zlen_offset_entries offs keys (k : nat) :
  length offs = length keys -> Forall (fun key => length key = k) keys ->
  zlen (concat (offset_entries offs keys)) = zlen keys * (4 + Z.of_nat k).
Proof.
  unfold offset_entries. revert keys. induction offs as [|o offs IH]; intros [|key keys] Hl Hk; cbn in Hl; try lia.
  - cbn [combine map concat]. change (zlen (@nil (list Z))) with 0. change (zlen (@nil Z)) with 0. lia.
  - inversion Hk; subst. cbn [combine map concat]. rewrite !zlen_app, zlen_le_bytes, IH by (auto; lia).
    rewrite zlen_cons. cbn [fst snd]. unfold zlen at 1. lia.
Qed.

Lemma offsets_from_length base sizes : length (offsets_from base sizes) = length sizes.
Proof. revert base; induction sizes as [|s r IH]; intros base; cbn; auto. Qed.

Theorem encode_size : forall t v, wf t v = true -> zlen (encode t v) = byte_size t v.
Proof.
  induction t as [c|c lw| |it k IH|ts IH|rw vs IH] using ty_ind'; intros v Hwf.
  - destruct v; cbn in Hwf; try discriminate. cbn. zb.
    match goal with H : (_ =? _)%nat = true |- _ => apply Nat.eqb_eq in H end. unfold zlen. lia.
  - destruct v; cbn [wf] in Hwf; try discriminate. cbn [encode byte_size].
    apply andb_true_iff in Hwf as [Hwf Hit]. destruct (wf_list_items _ _ Hit) as [Hlen _].
    rewrite zlen_app, zlen_le_bytes, (zlen_concat_fixed _ _ Hlen). lia.
  - destruct v; cbn in Hwf; try discriminate. reflexivity.
  - destruct v as [| |items| |]; cbn [wf] in Hwf; try discriminate. cbn [encode byte_size].
    apply andb_true_iff in Hwf as [Hwf Hit].
    assert (map zlen (map (fun kv => encode it (snd kv)) items) = map (fun kv => byte_size it (snd kv)) items) as Hsz.
    { rewrite map_map. apply map_ext_in. intros [key e] Hin. cbn [snd]. apply IH.
      rewrite forallb_forall in Hit. specialize (Hit _ Hin). cbn [snd] in Hit. zb. assumption. }
    assert (Forall (fun key => length key = k) (map fst items)) as Hk.
    { apply Forall_forall. intros key Hin. apply in_map_iff in Hin as [[k' e] [<- Hin]].
      rewrite forallb_forall in Hit. specialize (Hit _ Hin). cbn [fst] in *. zb.
      match goal with H : (_ =? _)%nat = true |- _ => now apply Nat.eqb_eq in H end. }
    rewrite !zlen_app, !zlen_le_bytes, zlen_offset_entries with (k := k); auto.
    2:{ now rewrite offsets_from_length, !map_length. }
    assert (zlen (concat (map (fun kv => encode it (snd kv)) items)) = zsum (map zlen (map (fun kv => encode it (snd kv)) items))) as Hc.
    { clear. induction items as [|x r IHr]; cbn [map concat zsum]; [reflexivity|]. rewrite zlen_app, IHr. reflexivity. }
    rewrite Hc, Hsz. unfold zlen at 1. rewrite map_length. fold (zlen items). lia.
  - destruct v as [| | |vs0|]; try (cbn in Hwf; discriminate).
    revert vs0 Hwf. induction IH as [|t ts Ht _ IHts]; intros [|v vs0] Hwf; try (cbn in Hwf; discriminate); [reflexivity|].
    rewrite wf_struct_cons in Hwf. apply andb_true_iff in Hwf as [H1 H2].
    rewrite encode_struct_cons, byte_size_struct_cons, zlen_app, (Ht _ H1), (IHts _ H2). reflexivity.
  - destruct v as [| | | |d p]; try (cbn in Hwf; discriminate).
    rewrite wf_enum in Hwf. rewrite encode_enum, byte_size_enum, zlen_app, zlen_le_bytes.
    apply andb_true_iff in Hwf as [_ Hv]. f_equal.
    induction IH as [|[d' t] vs Ht _ IHvs]; cbn [find_variant] in *; [discriminate|].
    destruct (d =? d'); [apply Ht; assumption|apply IHvs; assumption].
Qed.

(* ---------------------------------------------------------------------------------------------- *)
(* C05: round trip  parse (encode v ++ tl) = v  with exact extent                                  *)
Lemma pow256_4 : 256 ^ Z.of_nat 4 = U32_LIMIT. Proof. reflexivity. Qed.

Lemma le32 n : 0 <= n < U32_LIMIT -> le_decode (le_bytes 4 n) = n.
Proof. intros H. apply le_decode_le_bytes. rewrite pow256_4. exact H. Qed.

Lemma firstn_le_bytes_app w n r : firstn w (le_bytes w n ++ r) = le_bytes w n.
Proof. rewrite <- (le_bytes_length w n) at 1. apply firstn_app_exact. Qed.

Lemma skipn_le_bytes_app w n r : skipn w (le_bytes w n ++ r) = r.
Proof. rewrite <- (le_bytes_length w n) at 1. apply skipn_app_exact. Qed.

Lemma adv_le_bytes w n r : adv (Z.of_nat w) (le_bytes w n ++ r) = Ok (le_bytes w n, r).
Proof. rewrite <- (zlen_le_bytes w n). apply adv_app. Qed.

Lemma zsum_nonneg (l : list Z) : Forall (fun x => 0 <= x) l -> 0 <= zsum l.
Proof. induction 1; cbn [zsum]; lia. Qed.

Lemma zlen_concat_sum (l : list (list Z)) : zlen (concat l) = zsum (map zlen l).
Proof. induction l as [|x r IH]; cbn [map concat zsum]; [reflexivity|]. rewrite zlen_app, IH. reflexivity. Qed.

Lemma zdrop_0 {A} (l : list A) : zdrop 0 l = l. Proof. reflexivity. Qed.

Lemma zdrop_app_ge {A} (a b : list A) n : zlen a <= n -> zdrop n (a ++ b) = zdrop (n - zlen a) b.
Proof.
  intros H. unfold zdrop, zlen in *. rewrite skipn_app. pose proof (Zle_0_nat (length a)).
  rewrite skipn_all2 by lia. cbn [app]. f_equal. lia.
Qed.

(* decoding the offset table written by the encoder *)
Lemma split_entries_entries (k : nat) offs keys :
  length offs = length keys -> Forall (fun key => length key = k) keys ->
  Forall (fun o => 0 <= o < U32_LIMIT) offs ->
  split_entries k (zlen keys) (concat (offset_entries offs keys)) = combine offs keys.
Proof.
  unfold split_entries, offset_entries. intros Hl Hk Ho.
  assert (forall fuel, (length keys <= fuel)%nat ->
          map (fun e => (le_decode (firstn 4 e), skipn 4 e))
              (chunks fuel (4 + k) (concat (map (fun ok => le_bytes 4 (fst ok) ++ snd ok) (combine offs keys))))
          = combine offs keys) as H.
  { revert keys Hl Hk Ho. induction offs as [|o offs IH]; intros [|key keys] Hl Hk Ho fuel Hf; cbn in Hl; try lia.
    - destruct fuel; reflexivity.
    - destruct fuel as [|fuel]; [cbn in Hf; lia|].
      inversion Hk; subst. inversion Ho; subst.
      cbn [combine map concat fst snd chunks].
      destruct ((le_bytes 4 o ++ key) ++ _) eqn:E; [destruct (le_bytes 4 o) eqn:E2; [pose proof (le_bytes_length 4 o) as X; rewrite E2 in X; discriminate|discriminate]|].
      rewrite <- E. clear E.
      replace (4 + length key)%nat with (length (le_bytes 4 o ++ key)) by (rewrite app_length, le_bytes_length; reflexivity).
      rewrite firstn_app_exact, skipn_app_exact. cbn [map].
      rewrite firstn_le_bytes_app, skipn_le_bytes_app, le32 by assumption. f_equal.
      replace (length (le_bytes 4 o ++ key)) with (4 + length key)%nat by (rewrite app_length, le_bytes_length; reflexivity).
      apply IH; auto. cbn in Hf. lia. }
  apply H. unfold zlen. rewrite Nat2Z.id. lia.
Qed.

Lemma bt_insert_last {A} (l : list (list Z * A)) key v :
  Forall (fun kv => le_decode (fst kv) < le_decode key) l -> bt_insert key v l = l ++ [(key, v)].
Proof.
  induction 1 as [|[k' v'] l Hk _ IH]; [reflexivity|]. cbn [bt_insert fst] in *.
  destruct (le_decode key <? le_decode k') eqn:E1; [zb; lia|].
  destruct (le_decode key =? le_decode k') eqn:E2; [zb; lia|]. now rewrite IH.
Qed.

Lemma strictly_ascending_lt_all (x : Z) l :
  strictly_ascending (x :: l) = true -> Forall (fun y => x < y) l /\ strictly_ascending l = true.
Proof.
  revert x. induction l as [|y l IH]; intros x H; [split; [constructor|reflexivity]|].
  cbn [strictly_ascending] in H. apply andb_true_iff in H as [Hxy Hr]. zb.
  destruct (IH y Hr) as [Hall Hs]. split; [|exact Hr].
  constructor; [exact Hxy|]. eapply Forall_impl; [|exact Hall]. cbn. intros; lia.
Qed.

Lemma bt_collect_sorted {A} (l : list (list Z * A)) :
  strictly_ascending (map (fun kv => le_decode (fst kv)) l) = true -> bt_collect l = l.
Proof.
  unfold bt_collect. intros Hs.
  assert (forall acc, Forall (fun a => Forall (fun kv => le_decode (fst a) < le_decode (fst kv)) l) acc ->
            fold_left (fun acc kv => bt_insert (fst kv) (snd kv) acc) l acc = acc ++ l) as H.
  { induction l as [|[key v] l IH]; intros acc Hacc; cbn [fold_left]; [now rewrite app_nil_r|].
    cbn [map fst] in Hs. apply strictly_ascending_lt_all in Hs as [Hall Hs'].
    rewrite bt_insert_last.
    2:{ eapply Forall_impl; [|exact Hacc]. cbn. intros a Ha. inversion Ha; subst. assumption. }
    rewrite IH; [now rewrite <- app_assoc|exact Hs'|].
    apply Forall_app. split.
    - eapply Forall_impl; [|exact Hacc]. cbn. intros a Ha. inversion Ha; subst. assumption.
    - constructor; [|constructor]. cbn [fst].
      rewrite Forall_map in Hall. exact Hall. }
  apply (H []). constructor.
Qed.

(* the loop of owned over the elements of a plain list of unsized elements *)
Section ulist_loops.
  Variables (ovf : bool) (it : ty).
  Hypothesis IHit : forall v tl, wf it v = true ->
      extent ovf it (encode it v ++ tl) = Ok (zlen (encode it v)) /\ owned ovf it (encode it v ++ tl) = Ok v.

  Definition loop0 (usz : Z) (data : list Z) :=
    fix go (ents : list (Z * list Z)) : out (list (list Z * val)) :=
      match ents with
      | [] => Ok []
      | (off, key) :: r =>
          if usz <? off then Panic else
          let sl := zdrop off data in
          do _ <- extent ovf it sl;
          do v <- owned ovf it sl;
          do vs <- go r;
          Ok ((key, v) :: vs)
      end.

  Lemma loop0_ok (items : list (list Z * val)) : forall (pre : list Z),
    forallb (fun kv => wf it (snd kv)) items = true ->
    let encs := map (fun kv => encode it (snd kv)) items in
    let data := pre ++ concat encs in
    loop0 (zlen data) data (combine (offsets_from (zlen pre) (map zlen encs)) (map fst items)) = Ok items.
  Proof.
    induction items as [|[key v] items IH]; intros pre Hwf; [reflexivity|].
    cbn [forallb snd] in Hwf. apply andb_true_iff in Hwf as [Hv Hr].
    cbn [map fst snd offsets_from combine concat loop0].
    pose proof (zlen_nonneg pre). pose proof (zlen_nonneg (encode it v ++ concat (map (fun kv => encode it (snd kv)) items))).
    destruct (_ <? zlen pre) eqn:E; [zb; rewrite zlen_app in E; lia|].
    rewrite zdrop_app_exact.
    destruct (IHit v (concat (map (fun kv => encode it (snd kv)) items)) Hv) as [He Ho].
    rewrite He, Ho. cbn [obind].
    specialize (IH (pre ++ encode it v) Hr). cbn zeta in IH.
    rewrite <- app_assoc in IH. rewrite <- (zlen_app pre (encode it v)).
    fold (loop0 (zlen (pre ++ encode it v ++ concat (map (fun kv => encode it (snd kv)) items)))
                (pre ++ encode it v ++ concat (map (fun kv => encode it (snd kv)) items))).
    rewrite IH. reflexivity.
  Qed.

  (* the iterator loop of UnsizedMap *)
  Definition loopk (usz : Z) (data : list Z) :=
    fix go (ents : list (Z * list Z)) : out (list (list Z * val)) :=
      match ents with
      | [] => Ok []
      | (off, key) :: r =>
          let en := match r with (o2, _) :: _ => o2 | [] => usz end in
          if (en <? off) || (usz <? en) then Err EC_POINTER_OUT_OF_BOUNDS else
          let sl := ztake (en - off) (zdrop off data) in
          match extent ovf it sl with
          | Ok _ => do v <- owned ovf it sl; do vs <- go r; Ok ((key, v) :: vs)
          | Err _ => Ok []
          | Panic => Panic
          | Fault => Fault
          end
      end.

  Lemma loopk_ok (items : list (list Z * val)) : forall (pre : list Z),
    forallb (fun kv => wf it (snd kv)) items = true ->
    let encs := map (fun kv => encode it (snd kv)) items in
    let data := pre ++ concat encs in
    loopk (zlen data) data (combine (offsets_from (zlen pre) (map zlen encs)) (map fst items)) = Ok items.
  Proof.
    induction items as [|[key v] items IH]; intros pre Hwf; [reflexivity|].
    cbn [forallb snd] in Hwf. apply andb_true_iff in Hwf as [Hv Hr].
    cbn [map fst snd offsets_from combine concat loopk].
    set (rest := concat (map (fun kv => encode it (snd kv)) items)) in *.
    pose proof (zlen_nonneg pre). pose proof (zlen_nonneg (encode it v)). pose proof (zlen_nonneg rest).
    assert (match combine (offsets_from (zlen pre + zlen (encode it v)) (map zlen (map (fun kv => encode it (snd kv)) items))) (map fst items) with
            | [] => zlen (pre ++ encode it v ++ rest)
            | (o2, _) :: _ => o2
            end = zlen pre + zlen (encode it v) \/ items = []) as Hen.
    { destruct items as [|[k2 v2] items']; [right; reflexivity|left; reflexivity]. }
    assert (ztake (match combine (offsets_from (zlen pre + zlen (encode it v)) (map zlen (map (fun kv => encode it (snd kv)) items))) (map fst items) with
                   | [] => zlen (pre ++ encode it v ++ rest)
                   | (o2, _) :: _ => o2
                   end - zlen pre) (encode it v ++ rest) = encode it v) as Hsl.
    { destruct Hen as [-> | ->].
      - replace (zlen pre + zlen (encode it v) - zlen pre) with (zlen (encode it v)) by lia. apply ztake_app_exact.
      - subst rest. cbn [map combine concat offsets_from]. rewrite !zlen_app, app_nil_r. change (zlen (@nil Z)) with 0.
        replace (zlen pre + (zlen (encode it v) + 0) - zlen pre) with (zlen (encode it v)) by lia.
        rewrite <- (app_nil_r (encode it v)) at 2. apply ztake_app_exact. }
    match goal with |- context [if ?c then _ else _] => destruct c eqn:E end.
    { exfalso. apply orb_true_iff in E. destruct Hen as [Hen | ->].
      - rewrite Hen in E. rewrite !zlen_app in E. destruct E; zb; lia.
      - cbn [map combine offsets_from] in E. rewrite !zlen_app in E. destruct E; zb; lia. }
    rewrite zdrop_app_exact, Hsl.
    destruct (IHit v [] Hv) as [He Ho]. rewrite app_nil_r in He, Ho. rewrite He, Ho. cbn [obind].
    specialize (IH (pre ++ encode it v) Hr). cbn zeta in IH. rewrite <- app_assoc in IH.
    fold rest in IH. rewrite <- (zlen_app pre (encode it v)).
    fold (loopk (zlen (pre ++ encode it v ++ rest)) (pre ++ encode it v ++ rest)).
    rewrite IH. reflexivity.
  Qed.
End ulist_loops.

(* ty_ok equations *)
Lemma ty_ok_struct_cons last t t2 ts :
  ty_ok last (TStruct (t :: t2 :: ts)) = ty_ok false t && ty_ok last (TStruct (t2 :: ts)).
Proof. reflexivity. Qed.
Lemma ty_ok_struct_one last t : ty_ok last (TStruct [t]) = ty_ok last t.
Proof. reflexivity. Qed.

Lemma ty_ok_enum_variant last rw vs d t :
  ty_ok last (TEnum rw vs) = true -> find_variant d vs = Some t -> ty_ok last t = true.
Proof.
  cbn [ty_ok]. intros H. apply andb_true_iff in H as [_ H]. revert H.
  induction vs as [|[d' t'] vs IH]; cbn [find_variant]; [discriminate|].
  intros H Hf. apply andb_true_iff in H as [H1 H2].
  destruct (d =? d'); [injection Hf as <-; exact H1|exact (IH H2 Hf)].
Qed.

Definition rt_stmt (ovf : bool) (t : ty) : Prop :=
  forall last v tl, ty_ok last t = true -> wf t v = true -> (last = true -> tl = []) ->
    extent ovf t (encode t v ++ tl) = Ok (zlen (encode t v)) /\ owned ovf t (encode t v ++ tl) = Ok v.

Lemma rt_weaken ovf t : rt_stmt ovf t -> forall v tl, ty_ok false t = true -> wf t v = true ->
  extent ovf t (encode t v ++ tl) = Ok (zlen (encode t v)) /\ owned ovf t (encode t v ++ tl) = Ok v.
Proof. intros H v tl Hok Hwf. apply (H false v tl Hok Hwf). discriminate. Qed.

Lemma adv4 n r : adv 4 (le_bytes 4 n ++ r) = Ok (le_bytes 4 n, r).
Proof. exact (adv_le_bytes 4 n r). Qed.

Lemma ulist_roundtrip ovf it k (items : list (list Z * val)) tl :
  (forall v0 tl0, wf it v0 = true ->
     extent ovf it (encode it v0 ++ tl0) = Ok (zlen (encode it v0)) /\ owned ovf it (encode it v0 ++ tl0) = Ok v0) ->
  wf (TUList it k) (VUList items) = true ->
  extent ovf (TUList it k) (encode (TUList it k) (VUList items) ++ tl) = Ok (zlen (encode (TUList it k) (VUList items))) /\
  owned ovf (TUList it k) (encode (TUList it k) (VUList items) ++ tl) = Ok (VUList items).
Proof.
  intros IHit Hwf. pose proof (encode_size _ _ Hwf) as Hsize.
  cbn [wf] in Hwf.
  apply andb_true_iff in Hwf as [Hwf Hit]. apply andb_true_iff in Hwf as [Hwf Hsorted].
  apply andb_true_iff in Hwf as [Hn Husz]. zb.
  assert (forallb (fun kv => wf it (snd kv)) items = true) as Hwfs.
  { rewrite forallb_forall in *. intros kv Hin. specialize (Hit kv Hin). zb. assumption. }
  assert (Forall (fun key => length key = k) (map fst items)) as Hk.
  { apply Forall_forall. intros key Hin. apply in_map_iff in Hin as [[k' e] [<- Hin]].
    rewrite forallb_forall in Hit. specialize (Hit _ Hin). cbn [fst] in *. zb.
    match goal with H : (_ =? _)%nat = true |- _ => now apply Nat.eqb_eq in H end. }
  cbn [encode byte_size] in Hsize. cbn [encode].
  set (encs := map (fun kv => encode it (snd kv)) items) in *.
  set (sizes := map zlen encs) in *.
  assert (sizes = map (fun kv => byte_size it (snd kv)) items) as Hsz.
  { subst sizes encs. rewrite map_map. apply map_ext_in. intros [key e] Hin. cbn [snd]. apply encode_size.
    rewrite forallb_forall in Hwfs. apply (Hwfs _ Hin). }
  rewrite <- Hsz in Husz.
  assert (zlen (concat encs) = zsum sizes) as Hc by apply zlen_concat_sum.
  assert (Forall (fun x => 0 <= x) sizes) as Hpos.
  { apply Forall_forall. intros x Hin. apply in_map_iff in Hin as [e [<- _]]. apply zlen_nonneg. }
  pose proof (zsum_nonneg _ Hpos) as Hs0.
  pose proof (zlen_nonneg items) as Hn0.
  set (offs := offsets_from 0 sizes) in *.
  set (keys := map fst items) in *.
  assert (zlen keys = zlen items) as Hnk by (subst keys; unfold zlen; now rewrite map_length).
  assert (length offs = length keys) as Hlo.
  { subst offs keys sizes encs. now rewrite offsets_from_length, !map_length. }
  assert (Forall (fun o => 0 <= o < U32_LIMIT) offs) as Hoff.
  { subst offs.
    assert (forall sz base, 0 <= base -> Forall (fun x => 0 <= x) sz -> base + zsum sz < U32_LIMIT ->
            Forall (fun o => 0 <= o < U32_LIMIT) (offsets_from base sz)) as Hgen.
    { induction sz as [|x r IHr]; intros base Hb Hp Hlt; cbn [offsets_from]; [constructor|].
      inversion Hp; subst. cbn [zsum] in Hlt. pose proof (zsum_nonneg r H2).
      constructor; [lia|]. apply IHr; auto; lia. }
    apply Hgen; [lia|assumption|lia]. }
  set (E := concat (offset_entries offs keys)) in *.
  assert (zlen E = zlen items * (4 + Z.of_nat k)) as HE.
  { subst E. rewrite (zlen_offset_entries offs keys k Hlo Hk). now rewrite Hnk. }
  set (usz := zsum sizes) in *. set (n := zlen items) in *.
  assert (le_decode (le_bytes 4 usz) = usz) as Hdu by (apply le32; lia).
  assert (le_decode (le_bytes 4 n) = n) as Hdn by (apply le32; lia).
  rewrite <- !app_assoc.
  split.
  - cbn [extent]. rewrite adv4. cbn [obind]. rewrite adv4. cbn [obind].
    rewrite Hdu, Hdn. rewrite <- HE, adv_app. cbn [obind]. rewrite adv4. cbn [obind].
    rewrite <- Hc at 1. rewrite adv_app. cbn [obind].
    f_equal. rewrite !zlen_app, !zlen_le_bytes, Hc. lia.
  - cbn [owned]. rewrite firstn_le_bytes_app, Hdu, skipn_le_bytes_app, firstn_le_bytes_app, Hdn.
    change (skipn 8 (le_bytes 4 usz ++ le_bytes 4 n ++ E ++ le_bytes 4 n ++ concat encs ++ tl))
      with (skipn 4 (skipn 4 (le_bytes 4 usz ++ le_bytes 4 n ++ E ++ le_bytes 4 n ++ concat encs ++ tl))).
    rewrite !skipn_le_bytes_app. rewrite <- HE, ztake_app_exact.
    assert (split_entries k n E = combine offs keys) as Hents.
    { subst E n. rewrite <- Hnk. apply split_entries_entries; assumption. }
    rewrite Hents.
    assert (zdrop (12 + zlen E) (le_bytes 4 usz ++ le_bytes 4 n ++ E ++ le_bytes 4 n ++ concat encs ++ tl) = concat encs ++ tl) as Hdrop.
    { replace (le_bytes 4 usz ++ le_bytes 4 n ++ E ++ le_bytes 4 n ++ concat encs ++ tl)
        with ((le_bytes 4 usz ++ le_bytes 4 n ++ E ++ le_bytes 4 n) ++ concat encs ++ tl) by (now rewrite <- !app_assoc).
      replace (12 + zlen E) with (zlen (le_bytes 4 usz ++ le_bytes 4 n ++ E ++ le_bytes 4 n))
        by (rewrite !zlen_app, !zlen_le_bytes; lia).
      apply zdrop_app_exact. }
    rewrite Hdrop. rewrite <- Hc. rewrite ztake_app_exact.
    destruct (k =? 0)%nat.
    + pose proof (loop0_ok ovf it IHit items [] Hwfs) as HL. cbn zeta in HL. cbn [app] in HL.
      change (zlen (@nil Z)) with 0 in HL. fold encs sizes offs keys in HL.
      unfold loop0 in HL. unfold omap. rewrite HL. reflexivity.
    + pose proof (loopk_ok ovf it IHit items [] Hwfs) as HL. cbn zeta in HL. cbn [app] in HL.
      change (zlen (@nil Z)) with 0 in HL. fold encs sizes offs keys in HL.
      unfold loopk in HL. unfold omap. rewrite HL. cbn [obind].
      rewrite bt_collect_sorted; [reflexivity|].
      destruct (k =? 0)%nat eqn:Ek in Hsorted; [|exact Hsorted]. exact Hsorted.
Qed.

Theorem roundtrip ovf : forall t, rt_stmt ovf t.
Proof.
  induction t as [c|c lw| |it k IH|ts IH|rw vs IH] using ty_ind'; intros last v tl Hok Hwf Htl.
  - (* fixed *)
    destruct v as [bs| | | |]; try (cbn in Hwf; discriminate). cbn [wf] in Hwf. zb.
    match goal with H : (_ =? _)%nat = true |- _ => apply Nat.eqb_eq in H; rename H into Hlen end.
    cbn [encode extent owned]. replace (Z.of_nat (fsize c)) with (zlen bs) by (unfold zlen; lia).
    rewrite adv_app. cbn [obind].
    match goal with H : fvalid c bs = true |- _ => rewrite H end.
    split; [reflexivity|]. rewrite <- Hlen, firstn_app_exact. reflexivity.
  - (* list *)
    destruct v as [|items| | |]; try (cbn in Hwf; discriminate). cbn [wf] in Hwf.
    apply andb_true_iff in Hwf as [Hwf Hit]. apply andb_true_iff in Hwf as [Hn Hmul]. zb.
    destruct (wf_list_items _ _ Hit) as [Hlen Hval].
    cbn [ty_ok] in Hok. zb.
    repeat match goal with H : (_ =? _)%nat = false |- _ => apply Nat.eqb_neq in H end.
    pose proof (zlen_nonneg items) as Hnn.
    assert (le_decode (le_bytes lw (zlen items)) = zlen items) as Hdec by (apply le_decode_le_bytes; lia).
    pose proof (zlen_concat_fixed _ _ Hlen) as Hbody.
    assert (0 <= Z.of_nat (fsize c) * zlen items < U64_LIMIT) as Hsmall by (split; [apply Z.mul_nonneg_nonneg; lia|lia]).
    cbn [encode extent owned]. rewrite <- app_assoc, adv_le_bytes. cbn [obind]. rewrite Hdec.
    destruct (U64_LIMIT <=? _) eqn:E; [zb; lia|]. cbn [andb].
    rewrite Z.mod_small by lia. rewrite <- Hbody, adv_app. cbn [obind].
    split.
    + rewrite zlen_app, zlen_le_bytes. reflexivity.
    + rewrite firstn_le_bytes_app, Hdec, skipn_le_bytes_app. rewrite Z.mod_small by lia.
      rewrite <- Hbody, ztake_app_exact.
      rewrite chunks_concat; [now rewrite Hval| lia | assumption |].
      apply Nat2Z.inj_le. fold (zlen items). fold (zlen (concat items)). rewrite Hbody.
      assert (1 <= Z.of_nat (fsize c)) by lia. nia.
  - (* remaining bytes *)
    destruct v as [bs| | | |]; try (cbn in Hwf; discriminate).
    cbn [ty_ok] in Hok. rewrite (Htl Hok), app_nil_r. cbn. split; reflexivity.
  - (* list of unsized elements *)
    destruct v as [| |items| |]; try (cbn in Hwf; discriminate).
    cbn [ty_ok] in Hok.
    apply ulist_roundtrip; [|exact Hwf].
    intros v0 tl0 Hv0. apply (rt_weaken ovf it IH v0 tl0 Hok Hv0).
  - (* struct *)
    destruct v as [| | |vs0|]; try (cbn in Hwf; discriminate).
    rewrite owned_struct.
    revert vs0 tl last Hok Hwf Htl.
    induction IH as [|t ts Ht _ IHts]; intros vs0 tl last Hok Hwf Htl.
    + destruct vs0; [|cbn in Hwf; discriminate]. cbn. split; reflexivity.
    + destruct vs0 as [|v vs0]; [cbn in Hwf; discriminate|].
      rewrite wf_struct_cons in Hwf. apply andb_true_iff in Hwf as [Hv Hvs].
      rewrite encode_struct_cons, extent_struct_cons, <- app_assoc. cbn [owned_fields].
      destruct ts as [|t2 ts].
      * (* last field *)
        rewrite ty_ok_struct_one in Hok.
        destruct vs0; [|cbn in Hvs; discriminate].
        rewrite encode_struct_nil. cbn [app].
        destruct (Ht last v tl Hok Hv Htl) as [He Ho]. rewrite He, Ho. cbn [obind].
        rewrite zdrop_app_exact. cbn [extent owned_fields obind omap].
        rewrite app_nil_r. split; [f_equal; lia|reflexivity].
      * rewrite ty_ok_struct_cons in Hok. apply andb_true_iff in Hok as [Hok1 Hok2].
        destruct (Ht false v (encode (TStruct (t2 :: ts)) (VStruct vs0) ++ tl) Hok1 Hv ltac:(discriminate)) as [He Ho].
        rewrite He, Ho. cbn [obind]. rewrite zdrop_app_exact.
        destruct (IHts vs0 tl last Hok2 Hvs Htl) as [He2 Ho2].
        rewrite He2. cbn [obind]. unfold omap in Ho2.
        destruct (owned_fields ovf (t2 :: ts) (encode (TStruct (t2 :: ts)) (VStruct vs0) ++ tl)) as [l| | |] eqn:El;
          cbn [obind] in Ho2; try discriminate. injection Ho2 as ->.
        cbn [obind omap]. rewrite zlen_app. split; reflexivity.
  - (* enum *)
    destruct v as [| | | |d p]; try (cbn in Hwf; discriminate).
    pose proof (fun d0 t0 => ty_ok_enum_variant last rw vs d0 t0 Hok) as Hvar.
    rewrite wf_enum in Hwf. apply andb_true_iff in Hwf as [Hd Hp]. zb.
    cbn [ty_ok] in Hok. pose proof Hok as Hok'. apply andb_true_iff in Hok' as [Hrw _]. zb.
    repeat match goal with H : (_ =? _)%nat = false |- _ => apply Nat.eqb_neq in H end.
    rewrite encode_enum, extent_enum, owned_enum, <- app_assoc, adv_le_bytes. cbn [obind].
    rewrite firstn_le_bytes_app, skipn_le_bytes_app.
    rewrite le_decode_le_bytes by lia.
    destruct (find_variant d vs) as [vt|] eqn:Ef; [|discriminate].
    assert (ty_ok last vt = true) as Hokv by (eapply Hvar; eauto).
    assert (rt_stmt ovf vt) as Hvt.
    { clear - IH Ef. induction IH as [|[d' t'] vs Ht _ IHvs]; cbn [find_variant] in Ef; [discriminate|].
      destruct (d =? d'); [injection Ef as <-; exact Ht|exact (IHvs Ef)]. }
    destruct (Hvt last p tl Hokv Hp Htl) as [He Ho]. rewrite He, Ho. cbn [obind].
    rewrite zlen_app, zlen_le_bytes. split; reflexivity.
Qed.

(* C05, stated on `parse` (= UnsizedType::owned): the value comes back and the extent is the announced size *)
Corollary parse_encode ovf t v :
  ty_ok true t = true -> wf t v = true -> parse ovf t (encode t v) = Ok (v, byte_size t v).
Proof.
  intros Hok Hwf. unfold parse.
  destruct (roundtrip ovf t true v [] Hok Hwf ltac:(reflexivity)) as [He Ho].
  rewrite app_nil_r in He, Ho. rewrite He, Ho. cbn [obind]. now rewrite (encode_size _ _ Hwf).
Qed.

(* a value embedded before other data (not in tail position) is read back independently of what follows *)
Corollary parse_encode_prefix ovf t v tl :
  ty_ok false t = true -> wf t v = true -> parse ovf t (encode t v ++ tl) = Ok (v, byte_size t v).
Proof.
  intros Hok Hwf. unfold parse.
  destruct (roundtrip ovf t false v tl Hok Hwf ltac:(discriminate)) as [He Ho].
  rewrite He, Ho. cbn [obind]. now rewrite (encode_size _ _ Hwf).
Qed.

(* encode is injective on well-formed values: any other reader of the bytes sees the same value (C02) *)
Corollary encode_injective t v v' :
  ty_ok true t = true -> wf t v = true -> wf t v' = true -> encode t v = encode t v' -> v = v'.
Proof.
  intros Hok H1 H2 E.
  pose proof (parse_encode true t v Hok H1) as P1. pose proof (parse_encode true t v' Hok H2) as P2.
  rewrite E in P1. rewrite P1 in P2. now injection P2.
Qed.

(* ---------------------------------------------------------------------------------------------- *)
(* C04: parsing ARBITRARY bytes                                                                    *)
Lemma obind_not_fault {A B} (x : out A) (f : A -> out B) :
  x <> Fault -> (forall a, x = Ok a -> f a <> Fault) -> obind x f <> Fault.
Proof. destruct x; cbn; intros H1 H2; try congruence. now apply H2. Qed.

Lemma adv_nf n bs : adv n bs <> Fault.
Proof. apply adv_never_fault. Qed.

Theorem extent_never_faults ovf : forall t bs, extent ovf t bs <> Fault.
Proof.
  induction t as [c|c lw| |it k IH|ts IH|rw vs IH] using ty_ind'; intros bs.
  - cbn [extent]. apply obind_not_fault; [apply adv_nf|]. intros [h r] _. destruct (fvalid c h); discriminate.
  - cbn [extent]. apply obind_not_fault; [apply adv_nf|]. intros [h r] _.
    destruct (_ && _); [discriminate|]. apply obind_not_fault; [apply adv_nf|]. intros [? ?] _. discriminate.
  - discriminate.
  - cbn [extent]. repeat (apply obind_not_fault; [apply adv_nf|]; intros [? ?] _). discriminate.
  - revert bs. induction IH as [|t ts Ht _ IHts]; intros bs; [discriminate|].
    rewrite extent_struct_cons. apply obind_not_fault; [apply Ht|]. intros n _.
    apply obind_not_fault; [apply IHts|]. discriminate.
  - rewrite extent_enum. apply obind_not_fault; [apply adv_nf|]. intros [h r] _.
    destruct (find_variant (le_decode h) vs) as [vt|] eqn:Ef; [|discriminate].
    apply obind_not_fault; [|discriminate].
    clear - IH Ef. induction IH as [|[d' t'] vs Ht _ IHvs]; cbn [find_variant] in Ef; [discriminate|].
    destruct (_ =? d'); [injection Ef as <-; apply Ht|exact (IHvs Ef)].
Qed.

Theorem owned_never_faults ovf : forall t bs, owned ovf t bs <> Fault.
Proof.
  induction t as [c|c lw| |it k IH|ts IH|rw vs IH] using ty_ind'; intros bs.
  - discriminate.
  - cbn [owned]. destruct (forallb _ _); discriminate.
  - discriminate.
  - cbn [owned]. destruct (k =? 0)%nat; unfold omap; (apply obind_not_fault; [|discriminate]).
    + generalize (split_entries k (le_decode (firstn 4 (skipn 4 bs)))
                   (ztake (le_decode (firstn 4 (skipn 4 bs)) * (4 + Z.of_nat k)) (skipn 8 bs))) as ents.
      induction ents as [|[off key] r IHr]; [discriminate|].
      destruct (_ <? off); [discriminate|].
      apply obind_not_fault; [apply extent_never_faults|]. intros _ _.
      apply obind_not_fault; [apply IH|]. intros v _.
      apply obind_not_fault; [apply IHr|]. discriminate.
    + generalize (split_entries k (le_decode (firstn 4 (skipn 4 bs)))
                   (ztake (le_decode (firstn 4 (skipn 4 bs)) * (4 + Z.of_nat k)) (skipn 8 bs))) as ents.
      induction ents as [|[off key] r IHr]; [discriminate|].
      destruct (_ || _); [discriminate|].
      match goal with |- context [extent ovf it ?sl] =>
        pose proof (extent_never_faults ovf it sl); destruct (extent ovf it sl) eqn:E; try congruence; try discriminate end.
      apply obind_not_fault; [apply IH|]. intros v _.
      apply obind_not_fault; [apply IHr|]. discriminate.
  - rewrite owned_struct. unfold omap. apply obind_not_fault; [|discriminate].
    revert bs. induction IH as [|t ts Ht _ IHts]; intros bs; [discriminate|].
    cbn [owned_fields]. apply obind_not_fault; [apply extent_never_faults|]. intros n _.
    apply obind_not_fault; [apply Ht|]. intros v _.
    apply obind_not_fault; [apply IHts|]. discriminate.
  - rewrite owned_enum.
    destruct (find_variant _ vs) as [vt|] eqn:Ef; [|discriminate].
    apply obind_not_fault; [|discriminate].
    clear - IH Ef. induction IH as [|[d' t'] vs Ht _ IHvs]; cbn [find_variant] in Ef; [discriminate|].
    destruct (_ =? d'); [injection Ef as <-; apply Ht|exact (IHvs Ef)].
Qed.

Theorem parse_never_faults ovf t bs : parse ovf t bs <> Fault.
Proof.
  unfold parse. apply obind_not_fault; [apply extent_never_faults|]. intros n _.
  apply obind_not_fault; [apply owned_never_faults|]. discriminate.
Qed.

(* without overflow checks the parser does not panic on arithmetic either: only slicing can *)
Theorem extent_no_panic_unchecked : forall t bs, extent false t bs <> Panic.
Proof.
  assert (forall A B (x : out A) (f : A -> out B), x <> Panic -> (forall a, x = Ok a -> f a <> Panic) -> obind x f <> Panic) as ob.
  { intros A B x f. destruct x; cbn; intros H1 H2; try congruence. now apply H2. }
  assert (forall n bs, adv n bs <> Panic) as advp by (intros; apply adv_never_fault).
  induction t as [c|c lw| |it k IH|ts IH|rw vs IH] using ty_ind'; intros bs.
  - cbn [extent]. apply ob; [apply advp|]. intros [h r] _. destruct (fvalid c h); discriminate.
  - cbn [extent]. apply ob; [apply advp|]. intros [h r] _. rewrite andb_false_r.
    apply ob; [apply advp|]. intros [? ?] _. discriminate.
  - discriminate.
  - cbn [extent]. repeat (apply ob; [apply advp|]; intros [? ?] _). discriminate.
  - revert bs. induction IH as [|t ts Ht _ IHts]; intros bs; [discriminate|].
    rewrite extent_struct_cons. apply ob; [apply Ht|]. intros n _. apply ob; [apply IHts|]. discriminate.
  - rewrite extent_enum. apply ob; [apply advp|]. intros [h r] _.
    destruct (find_variant (le_decode h) vs) as [vt|] eqn:Ef; [|discriminate].
    apply ob; [|discriminate].
    clear - IH Ef. induction IH as [|[d' t'] vs Ht _ IHvs]; cbn [find_variant] in Ef; [discriminate|].
    destruct (_ =? d'); [injection Ef as <-; apply Ht|exact (IHvs Ef)].
Qed.

(* the reported extent lies inside the input *)
Theorem extent_inside ovf : forall t bs n, extent ovf t bs = Ok n -> 0 <= n <= zlen bs.
Proof.
  induction t as [c|c lw| |it k IH|ts IH|rw vs IH] using ty_ind'; intros bs n H.
  - cbn [extent] in H. destruct (adv _ bs) as [[h r]| | |] eqn:E; cbn [obind] in H; try discriminate.
    apply adv_ok in E. destruct (fvalid c h); [|discriminate]. injection H as <-. lia.
  - cbn [extent] in H. destruct (adv _ bs) as [[h r]| | |] eqn:E; cbn [obind] in H; try discriminate.
    apply adv_ok in E as (E1 & -> & ->).
    destruct (_ && _); [discriminate|].
    destruct (adv _ (zdrop _ bs)) as [[h2 r2]| | |] eqn:E2; cbn [obind] in H; try discriminate.
    apply adv_ok in E2 as (E2 & _ & _). injection H as <-.
    rewrite zlen_zdrop in E2 by lia. lia.
  - cbn in H. injection H as <-. pose proof (zlen_nonneg bs). lia.
  - cbn [extent] in H.
    destruct (adv 4 bs) as [[h1 r1]| | |] eqn:E1; cbn [obind] in H; try discriminate.
    destruct (adv 4 r1) as [[h2 r2]| | |] eqn:E2; cbn [obind] in H; try discriminate.
    destruct (adv _ r2) as [[h3 r3]| | |] eqn:E3; cbn [obind] in H; try discriminate.
    destruct (adv 4 r3) as [[h4 r4]| | |] eqn:E4; cbn [obind] in H; try discriminate.
    destruct (adv _ r4) as [[h5 r5]| | |] eqn:E5; cbn [obind] in H; try discriminate.
    apply adv_ok in E1 as (A1 & _ & ->). apply adv_ok in E2 as (A2 & _ & ->).
    apply adv_ok in E3 as (A3 & _ & ->). apply adv_ok in E4 as (A4 & _ & ->). apply adv_ok in E5 as (A5 & _ & _).
    injection H as <-.
    pose proof (zlen_zdrop 4 bs ltac:(lia)) as Z1.
    pose proof (zlen_zdrop 4 (zdrop 4 bs) ltac:(lia)) as Z2.
    pose proof (zlen_zdrop _ (zdrop 4 (zdrop 4 bs)) A3) as Z3.
    pose proof (zlen_zdrop 4 _ A4) as Z4.
    lia.
  - revert bs n H. induction IH as [|t ts Ht _ IHts]; intros bs n H.
    + cbn in H. injection H as <-. pose proof (zlen_nonneg bs). lia.
    + rewrite extent_struct_cons in H.
      destruct (extent ovf t bs) as [n1| | |] eqn:E1; cbn [obind] in H; try discriminate.
      destruct (extent ovf (TStruct ts) (zdrop n1 bs)) as [n2| | |] eqn:E2; cbn [obind] in H; try discriminate.
      injection H as <-. apply Ht in E1. apply IHts in E2. rewrite zlen_zdrop in E2 by lia. lia.
  - rewrite extent_enum in H.
    destruct (adv _ bs) as [[h r]| | |] eqn:E; cbn [obind] in H; try discriminate.
    apply adv_ok in E as (A & _ & ->).
    destruct (find_variant (le_decode h) vs) as [vt|] eqn:Ef; [|discriminate].
    destruct (extent ovf vt _) as [n1| | |] eqn:E1; cbn [obind] in H; try discriminate.
    injection H as <-.
    assert (forall bs n, extent ovf vt bs = Ok n -> 0 <= n <= zlen bs) as Hvt.
    { clear - IH Ef. induction IH as [|[d' t'] vs Ht _ IHvs]; cbn [find_variant] in Ef; [discriminate|].
      destruct (_ =? d'); [injection Ef as <-; exact Ht|exact (IHvs Ef)]. }
    apply Hvt in E1. rewrite zlen_zdrop in E1 by lia. lia.
Qed.

(* no field is ever observable with an invalid bit pattern *)
Lemma valid_bits_struct_cons t ts v vs :
  valid_bits (TStruct (t :: ts)) (VStruct (v :: vs)) = valid_bits t v && valid_bits (TStruct ts) (VStruct vs).
Proof. reflexivity. Qed.

Lemma valid_bits_enum rw vs d p :
  valid_bits (TEnum rw vs) (VEnum d p) = match find_variant d vs with Some t => valid_bits t p | None => false end.
Proof.
  cbn [valid_bits]. induction vs as [|[d' t] vs IH]; cbn [find_variant]; [reflexivity|].
  destruct (d =? d'); [reflexivity|exact IH].
Qed.

Lemma forallb_bt_insert {A} (P : list Z * A -> bool) key v l :
  P (key, v) = true -> forallb P l = true -> forallb P (bt_insert key v l) = true.
Proof.
  intros Hk. induction l as [|[k' v'] l IH]; cbn [bt_insert forallb]; intros H; [now rewrite Hk|].
  apply andb_true_iff in H as [H1 H2].
  destruct (_ <? _); [cbn [forallb]; now rewrite Hk, H1, H2|].
  destruct (_ =? _); cbn [forallb]; [now rewrite Hk, H2|now rewrite H1, IH].
Qed.

Lemma forallb_bt_collect {A} (P : list Z * A -> bool) l : forallb P l = true -> forallb P (bt_collect l) = true.
Proof.
  unfold bt_collect.
  assert (forall acc, forallb P acc = true -> forallb P l = true ->
            forallb P (fold_left (fun acc kv => bt_insert (fst kv) (snd kv) acc) l acc) = true) as H.
  { induction l as [|[key v] l IH]; intros acc Ha Hl; cbn [fold_left]; [exact Ha|].
    cbn [forallb] in Hl. apply andb_true_iff in Hl as [H1 H2]. apply IH; [|exact H2].
    apply forallb_bt_insert; assumption. }
  intros Hl. apply H; [reflexivity|exact Hl].
Qed.

Theorem parsed_values_have_valid_bits ovf :
  forall t bs n v, extent ovf t bs = Ok n -> owned ovf t bs = Ok v -> valid_bits t v = true.
Proof.
  induction t as [c|c lw| |it k IH|ts IH|rw vs IH] using ty_ind'; intros bs n v He Ho.
  - cbn [extent] in He. destruct (adv _ bs) as [[h r]| | |] eqn:E; cbn [obind] in He; try discriminate.
    apply adv_ok in E as (A & -> & _). destruct (fvalid c _) eqn:Ev; [|discriminate].
    cbn [owned] in Ho. injection Ho as <-. cbn [valid_bits]. unfold ztake in Ev. now rewrite Nat2Z.id in Ev.
  - cbn [owned] in Ho. destruct (forallb _ _) eqn:Ev; [|discriminate]. injection Ho as <-. exact Ev.
  - cbn in Ho. injection Ho as <-. reflexivity.
  - cbn [owned] in Ho. unfold omap in Ho.
    destruct (k =? 0)%nat.
    + match type of Ho with obind ?X _ = _ => destruct X as [l| | |] eqn:El end; cbn [obind] in Ho; try discriminate.
      injection Ho as <-. cbn [valid_bits].
      revert l El.
      generalize (split_entries k (le_decode (firstn 4 (skipn 4 bs)))
                   (ztake (le_decode (firstn 4 (skipn 4 bs)) * (4 + Z.of_nat k)) (skipn 8 bs))) as ents.
      induction ents as [|[off key] r IHr]; intros l El; [injection El as <-; reflexivity|].
      destruct (_ <? off); [discriminate|].
      match type of El with context [extent ovf it ?sl] =>
        destruct (extent ovf it sl) as [n1| | |] eqn:E1; cbn [obind] in El; try discriminate;
        destruct (owned ovf it sl) as [v1| | |] eqn:E2; cbn [obind] in El; try discriminate end.
      match type of El with obind ?X _ = _ => destruct X as [l'| | |] eqn:El' end; cbn [obind] in El; try discriminate.
      injection El as <-. cbn [forallb snd]. rewrite (IH _ _ _ E1 E2). exact (IHr l' eq_refl).
    + match type of Ho with obind ?X _ = _ => destruct X as [l| | |] eqn:El end; cbn [obind] in Ho; try discriminate.
      injection Ho as <-. cbn [valid_bits]. apply forallb_bt_collect.
      revert l El.
      generalize (split_entries k (le_decode (firstn 4 (skipn 4 bs)))
                   (ztake (le_decode (firstn 4 (skipn 4 bs)) * (4 + Z.of_nat k)) (skipn 8 bs))) as ents.
      induction ents as [|[off key] r IHr]; intros l El; [injection El as <-; reflexivity|].
      destruct (_ || _); [discriminate|].
      match type of El with context [extent ovf it ?sl] =>
        destruct (extent ovf it sl) as [n1| | |] eqn:E1; try discriminate end.
      2:{ injection El as <-. reflexivity. }
      match type of El with context [owned ovf it ?sl] =>
        destruct (owned ovf it sl) as [v1| | |] eqn:E2; cbn [obind] in El; try discriminate end.
      match type of El with obind ?X _ = _ => destruct X as [l'| | |] eqn:El' end; cbn [obind] in El; try discriminate.
      injection El as <-. cbn [forallb snd]. rewrite (IH _ _ _ E1 E2). exact (IHr l' eq_refl).
  - rewrite owned_struct in Ho. unfold omap in Ho.
    destruct (owned_fields ovf ts bs) as [l| | |] eqn:El; cbn [obind] in Ho; try discriminate.
    injection Ho as <-. clear He n.
    revert bs l El. induction IH as [|t ts Ht _ IHts]; intros bs l El.
    + cbn in El. injection El as <-. reflexivity.
    + cbn [owned_fields] in El.
      destruct (extent ovf t bs) as [n1| | |] eqn:E1; cbn [obind] in El; try discriminate.
      destruct (owned ovf t bs) as [v1| | |] eqn:E2; cbn [obind] in El; try discriminate.
      destruct (owned_fields ovf ts (zdrop n1 bs)) as [l'| | |] eqn:E3; cbn [obind] in El; try discriminate.
      injection El as <-. rewrite valid_bits_struct_cons, (Ht _ _ _ E1 E2). exact (IHts _ _ E3).
  - rewrite extent_enum in He. rewrite owned_enum in Ho.
    destruct (adv _ bs) as [[h r]| | |] eqn:E; cbn [obind] in He; try discriminate.
    apply adv_ok in E as (A & -> & ->).
    unfold ztake in He. rewrite Nat2Z.id in He. unfold zdrop in He. rewrite Nat2Z.id in He.
    destruct (find_variant _ vs) as [vt|] eqn:Ef; [|discriminate].
    destruct (extent ovf vt _) as [n1| | |] eqn:E1; cbn [obind] in He; try discriminate.
    destruct (owned ovf vt _) as [p| | |] eqn:E2; cbn [obind] in Ho; try discriminate.
    injection Ho as <-. rewrite valid_bits_enum, Ef.
    assert (forall bs n v, extent ovf vt bs = Ok n -> owned ovf vt bs = Ok v -> valid_bits vt v = true) as Hvt.
    { clear - IH Ef. induction IH as [|[d' t'] vs Ht _ IHvs]; cbn [find_variant] in Ef; [discriminate|].
      destruct (_ =? d'); [injection Ef as <-; exact Ht|exact (IHvs Ef)]. }
    exact (Hvt _ _ _ E1 E2).
Qed.

Corollary parse_valid_bits ovf t bs v n : parse ovf t bs = Ok (v, n) -> valid_bits t v = true /\ 0 <= n <= zlen bs.
Proof.
  unfold parse. destruct (extent ovf t bs) as [n1| | |] eqn:E1; cbn [obind]; try discriminate.
  destruct (owned ovf t bs) as [v1| | |] eqn:E2; cbn [obind]; try discriminate.
  intros H; injection H as <- <-. split; [eapply parsed_values_have_valid_bits; eauto|eapply extent_inside; eauto].
Qed.
