(* Runner entry points of the unsized models: integer codecs for types / values / operations, the step
   function of histories, and the observations compared with the implementation.  No proofs here. *)
From SF Require Import Base.Prelude Gen.Generated Unsized.Types Unsized.Parse Unsized.Machine Unsized.Ops.

(* ---------------------------------------------------------------------------------------------- *)
(* integer codecs (the case-file format shared with harness/src/nodes.rs)                          *)
Definition take_n (n : Z) (l : list Z) : list Z * list Z := (ztake n l, zdrop n l).

Fixpoint dec_fcheck (fuel : nat) (l : list Z) : option (fcheck * list Z) :=
  match fuel with
  | O => None
  | S f =>
      match l with
      | 0 :: n :: r => Some (FAny (Z.to_nat n), r)
      | 1 :: r => Some (FBool, r)
      | 2 :: n :: r => Some (FDisc (ztake n r), zdrop n r)
      | 3 :: n :: r =>
          match
            (fix go (k : nat) (l : list Z) : option (list fcheck * list Z) :=
               match k with
               | O => Some ([], l)
               | S k' =>
                   match dec_fcheck f l with
                   | Some (c, l1) => match go k' l1 with Some (cs, l2) => Some (c :: cs, l2) | None => None end
                   | None => None
                   end
               end) (Z.to_nat n) r
          with Some (cs, l') => Some (FStruct cs, l') | None => None end
      | _ => None
      end
  end.

Fixpoint dec_ty (fuel : nat) (l : list Z) : option (ty * list Z) :=
  match fuel with
  | O => None
  | S f =>
      match l with
      | 0 :: r => match dec_fcheck (length r) r with Some (c, r1) => Some (TFixed c, r1) | None => None end
      | 1 :: r =>
          match dec_fcheck (length r) r with
          | Some (c, lw :: r1) => Some (TList c (Z.to_nat lw), r1)
          | _ => None
          end
      | 2 :: r => Some (TRem, r)
      | 3 :: k :: r => match dec_ty f r with Some (it, r1) => Some (TUList it (Z.to_nat k), r1) | None => None end
      | 4 :: n :: r =>
          match
            (fix go (k : nat) (l : list Z) : option (list ty * list Z) :=
               match k with
               | O => Some ([], l)
               | S k' =>
                   match dec_ty f l with
                   | Some (t, l1) => match go k' l1 with Some (ts, l2) => Some (t :: ts, l2) | None => None end
                   | None => None
                   end
               end) (Z.to_nat n) r
          with Some (ts, l') => Some (TStruct ts, l') | None => None end
      | 5 :: rw :: n :: r =>
          match
            (fix go (k : nat) (l : list Z) : option (list (Z * ty) * list Z) :=
               match k with
               | O => Some ([], l)
               | S k' =>
                   match l with
                   | d :: l0 =>
                       match dec_ty f l0 with
                       | Some (t, l1) => match go k' l1 with Some (ts, l2) => Some ((d, t) :: ts, l2) | None => None end
                       | None => None
                       end
                   | [] => None
                   end
               end) (Z.to_nat n) r
          with Some (vs, l') => Some (TEnum (Z.to_nat rw) vs, l') | None => None end
      | _ => None
      end
  end.

Definition dec_bytes (l : list Z) : option (list Z * list Z) :=
  match l with n :: r => Some (ztake n r, zdrop n r) | [] => None end.

Fixpoint dec_val (fuel : nat) (l : list Z) : option (val * list Z) :=
  match fuel with
  | O => None
  | S f =>
      match l with
      | 0 :: r => match dec_bytes r with Some (b, r1) => Some (VBytes b, r1) | None => None end
      | 1 :: n :: r =>
          match
            (fix go (k : nat) (l : list Z) : option (list (list Z) * list Z) :=
               match k with
               | O => Some ([], l)
               | S k' =>
                   match dec_bytes l with
                   | Some (b, l1) => match go k' l1 with Some (bs, l2) => Some (b :: bs, l2) | None => None end
                   | None => None
                   end
               end) (Z.to_nat n) r
          with Some (items, l') => Some (VList items, l') | None => None end
      | 2 :: n :: r =>
          match
            (fix go (k : nat) (l : list Z) : option (list (list Z * val) * list Z) :=
               match k with
               | O => Some ([], l)
               | S k' =>
                   match dec_bytes l with
                   | Some (key, l1) =>
                       match dec_val f l1 with
                       | Some (v, l2) => match go k' l2 with Some (es, l3) => Some ((key, v) :: es, l3) | None => None end
                       | None => None
                       end
                   | None => None
                   end
               end) (Z.to_nat n) r
          with Some (es, l') => Some (VUList es, l') | None => None end
      | 3 :: n :: r =>
          match
            (fix go (k : nat) (l : list Z) : option (list val * list Z) :=
               match k with
               | O => Some ([], l)
               | S k' =>
                   match dec_val f l with
                   | Some (v, l1) => match go k' l1 with Some (vs, l2) => Some (v :: vs, l2) | None => None end
                   | None => None
                   end
               end) (Z.to_nat n) r
          with Some (vs, l') => Some (VStruct vs, l') | None => None end
      | 4 :: d :: r => match dec_val f r with Some (v, r1) => Some (VEnum d v, r1) | None => None end
      | _ => None
      end
  end.

Definition enc_bytes (b : list Z) : list Z := zlen b :: b.

Fixpoint enc_val (v : val) : list Z :=
  match v with
  | VBytes b => 0 :: enc_bytes b
  | VList items => 1 :: zlen items :: concat (map enc_bytes items)
  | VUList es => 2 :: zlen es :: concat (map (fun kv => enc_bytes (fst kv) ++ enc_val (snd kv)) es)
  | VStruct vs => 3 :: zlen vs :: concat (map enc_val vs)
  | VEnum d p => 4 :: d :: enc_val p
  end.

Fixpoint zlist_eqb (a b : list Z) : bool :=
  match a, b with
  | [], [] => true
  | x :: a', y :: b' => (x =? y) && zlist_eqb a' b'
  | _, _ => false
  end.

Definition cksum (f : list Z) : Z := fold_left (fun a b => (a * 31 + b) mod 65521) f 7.

(* ---------------------------------------------------------------------------------------------- *)
(* enc mode (C05): serialize / deserialize / sizes                                                 *)
(* initialisers (UnsizedInit): the kinds the harness shape supports - every type DefaultInit (0); List also the arrays of
   3 and of 300 all-ones items (1, 2); RemainingBytes also [1; 3] (1).  Per kind: kind, INIT_BYTES, then either
   0 consumed tail_untouched nbytes bytes.. reparse   or   1 code *)
Definition init_kinds (t : ty) : list Z :=
  match t with TList _ _ => [0; 1; 2] | TRem => [0; 1] | _ => [0] end.

Definition init_obs (t : ty) (kind : Z) : list Z :=
  [kind; init_size t kind] ++
  match init_bytes t kind with
  | Ok b =>
      [0; zlen b; 1; zlen b] ++ b ++
      [match parse true t b with Ok (_, n) => if n =? zlen b then 0 else 1 | _ => 1 end]
  | o => out_tag o
  end.

Definition run_enc (input0 : list Z) : list Z :=
  let input := tl input0 in     (* the harness's shape index *)
  match dec_ty (length input) input with
  | Some (t, r) =>
      match dec_val (length r) r with
      | Some (v, _) =>
          let bs := encode t v in
          let size := byte_size t v in
          let rt := match parse true t bs with
                    | Ok (v', n) => [0; if zlist_eqb (enc_val v') (enc_val v) && (n =? zlen bs) then 1 else 0]
                    | o => out_tag o
                    end in
          [size; 0; zlen bs; 0; zlen bs] ++ bs ++ rt ++ [0; zlen bs; 5; 1]
          ++ (if 0 <? size then [1; EC_ADVANCE_ERROR] else [9])
          ++ [0; 1]
          ++ [-790] ++ flat_map (init_obs t) (init_kinds t)
      | None => [-1]
      end
  | None => [-1]
  end.

(* ---------------------------------------------------------------------------------------------- *)
(* ops mode (C01, C02, C03, C06)                                                                   *)
Definition fixed_size_of_item (c : fcheck) : Z := Z.of_nat (fsize c).

(* key order of Map / Set / UnsizedMap keys: numeric on the little-endian integer *)
Fixpoint lower_bound (keys : list Z) (k : Z) (i : Z) : Z * bool :=
  match keys with
  | [] => (i, false)
  | x :: r => if x <? k then lower_bound r k (i + 1) else (i, x =? k)
  end.

Fixpoint dec_items (n : nat) (l : list Z) : list (list Z) * list Z :=
  match n with
  | O => ([], l)
  | S k => match dec_bytes l with
           | Some (b, l1) => let '(bs, l2) := dec_items k l1 in (b :: bs, l2)
           | None => ([], l)
           end
  end.

(* keys of a sorted list whose items start with a key of ksz bytes *)
Definition list_keys (c : fcheck) (lw : nat) (ksz : nat) (m : list Z) (a blen : Z) : out (list Z) :=
  do body <- rd m (a + Z.of_nat lw) blen;
  Ok (map (fun it => le_decode (firstn ksz it)) (chunks (length body) (fsize c) body)).

Definition ulist_keys (k : nat) (m : list Z) (a n : Z) : out (list Z) :=
  do ob <- rd m (a + 8) (n * (4 + Z.of_nat k));
  Ok (map (fun e => le_decode (snd e)) (split_entries k n ob)).

Definition key_size_of (c : fcheck) : nat :=
  match c with FStruct (kc :: _) => fsize kc | _ => fsize c end.

Definition SKIPPED : out res := Err (-9).

(* execute the operation encoded in `l` at position ps (whose type is tc) *)
Fixpoint exec (fuel : nat) (ovf : bool) (t : ty) (s : mach) (top : ptr) (ps : list pos) (l : list Z) {struct fuel} : out res :=
  match fuel with
  | O => SKIPPED
  | S f =>
    do ' (tc, pc) <- sub t top ps;
    match l with
    (* ---- descent ---- *)
    | 1 :: i :: r =>
        match tc, pc with
        | TStruct _, _ => exec f ovf t s top (ps ++ [PF (Z.to_nat i)]) r
        | TUList it k, PUList a n _ _ _ _ =>
            do rg <- ulist_range k (m_mem s) a n i;
            match rg with
            | None => Err E_INDEX
            | Some (st, _) =>
                do top1 <- ulist_enter ovf t s top ps st;
                (* an error below is reported with the pointer state reached by the descent *)
                match exec f ovf t s top1 (ps ++ [PI]) r with
                | Err c => if c =? -9 then SKIPPED else efail s top1 c
                | o => o
                end
            end
        (* enum: `get()` (enum_impl.rs 777-785) matches the live variant; i = the discriminant the caller expects.
           Another variant: nothing is done (-1); a unit variant has no payload wrapper (-2); otherwise the payload's
           wrapper is map_mut of the variant's pointer: no pointer state changes *)
        | TEnum rw vs, PEnum _ d _ =>
            if negb (i =? d) then Ok (s, top, [-1]) else
            match find_variant d vs with
            | Some (TStruct []) => Ok (s, top, [-2])
            | Some _ => exec f ovf t s top (ps ++ [PV]) r
            | None => Panic
            end
        | _, _ => SKIPPED
        end
    | 2 :: key :: r =>
        match tc with
        | TStruct [TUList it k] =>
            do ' (_, up) <- sub t top (ps ++ [PF 0]);
            match up with
            | PUList a n _ _ _ _ =>
                do keys <- ulist_keys k (m_mem s) a n;
                let '(idx, found) := lower_bound keys key 0 in
                if negb found then Ok (s, top, [-1]) else
                do rg <- ulist_range k (m_mem s) a n idx;
                match rg with
                | None => Panic
                | Some (st, _) =>
                    do top1 <- ulist_enter ovf t s top (ps ++ [PF 0]) st;
                    match exec f ovf t s top1 (ps ++ [PF 0; PI]) r with
                    | Err c => if c =? -9 then SKIPPED else efail s top1 c
                    | o => o
                    end
                end
            | _ => Panic
            end
        | _ => SKIPPED
        end
    (* ---- List ---- *)
    | 10 :: idx :: n :: r =>
        match tc with TList _ _ => list_insert t s top ps idx (fst (dec_items (Z.to_nat n) r)) | _ => SKIPPED end
    | 15 :: r =>
        match tc, pc with
        | TList c lw, PList a blen =>
            do old <- list_len lw c (m_mem s) a blen;
            list_insert t s top ps old (fst (dec_items 1 r))
        | _, _ => SKIPPED
        end
    | 11 :: st :: en :: _ => match tc with TList _ _ => list_remove t s top ps st en | _ => SKIPPED end
    | 12 :: _ =>
        match tc, pc with
        | TList c lw, PList a blen =>
            do old <- list_len lw c (m_mem s) a blen;
            if old =? 0 then Ok (s, top, []) else list_remove t s top ps (old - 1) old
        | _, _ => SKIPPED
        end
    | 13 :: _ =>
        match tc, pc with
        | TList c lw, PList a blen =>
            do old <- list_len lw c (m_mem s) a blen;
            list_remove t s top ps 0 old
        | _, _ => SKIPPED
        end
    | 14 :: idx :: r =>
        match tc with TList _ _ => list_write t s top ps idx (hd [] (fst (dec_items 1 r))) | _ => SKIPPED end
    (* ---- RemainingBytes ---- *)
    | 20 :: len :: _ => match tc with TRem => rem_set_len t s top ps len | _ => SKIPPED end
    | 21 :: idx :: b :: _ => match tc with TRem => rem_write t s top ps idx b | _ => SKIPPED end
    (* ---- UnsizedList ---- *)
    | 30 :: idx :: n :: kind :: _ =>
        match tc with
        | TUList _ _ => ulist_insert t s top ps idx kind (repeat [] (Z.to_nat n))
        | _ => SKIPPED
        end
    | 31 :: st :: en :: _ => match tc with TUList _ _ => ulist_remove t s top ps st en | _ => SKIPPED end
    | 32 :: _ =>
        match tc, pc with
        | TUList _ _, PUList _ n _ _ _ _ =>
            if n =? 0 then Ok (s, top, []) else ulist_remove t s top ps (n - 1) n
        | _, _ => SKIPPED
        end
    | 33 :: _ => match tc with TUList _ _ => ulist_clear t s top ps | _ => SKIPPED end
    | 34 :: idx :: _ => match tc with TUList _ _ => ulist_touch ovf t s top ps idx | _ => SKIPPED end
    | 35 :: idx :: _ =>
        match tc, pc with
        | TUList it k, PUList a n inner pmb rs re =>
            do rg <- ulist_range k (m_mem s) a n idx;
            match rg with
            | None => Ok (s, top, [-1])
            | Some (st, en) =>
                if negb (inner_ok pc) then Panic else
                let top1 := set_at t top ps (set_pmb pc false) in
                do usz <- rd32 (m_mem s) a;
                (* &self.unsized_bytes()[start..end] *)
                if (en <? st) || (usz <? en) then Panic else
                catch (get_ptr ovf it (m_mem s) (ulist_dbase k a n + st) (en - st)) s top1 (fun '(q, _) =>
                catch (owned_ptr ovf it (m_mem s) q) s top1 (fun v =>
                Ok (s, top1, enc_val v)))
            end
        | _, _ => SKIPPED
        end
    (* ---- Map<K,V,L> = struct { list: List<{key,value}> } ---- *)
    | 40 :: r =>
        match tc with
        | TStruct [TList c lw] =>
            let '(kv, _) := dec_items 2 r in
            let key := hd [] kv in let value := hd [] (tl kv) in
            do ' (_, lp) <- sub t top (ps ++ [PF 0]);
            match lp with
            | PList a blen =>
                do keys <- list_keys c lw (length key) (m_mem s) a blen;
                let '(idx, found) := lower_bound keys (le_decode key) 0 in
                if found then
                  do m1 <- wr (m_mem s) (a + Z.of_nat lw + idx * Z.of_nat (fsize c) + zlen key) value;
                  Ok (set_mem s m1, top, [1])
                else
                  do ' (s1, top1, _) <- list_insert t s top (ps ++ [PF 0]) idx [key ++ value];
                  Ok (s1, top1, [0])
            | _ => Panic
            end
        | _ => SKIPPED
        end
    | 41 :: r =>
        match tc with
        | TStruct [TList c lw] =>
            let key := hd [] (fst (dec_items 1 r)) in
            do ' (_, lp) <- sub t top (ps ++ [PF 0]);
            match lp with
            | PList a blen =>
                do keys <- list_keys c lw (length key) (m_mem s) a blen;
                let '(idx, found) := lower_bound keys (le_decode key) 0 in
                if found then
                  do ' (s1, top1, _) <- list_remove t s top (ps ++ [PF 0]) idx (idx + 1);
                  Ok (s1, top1, [1])
                else Ok (s, top, [0])
            | _ => Panic
            end
        | _ => SKIPPED
        end
    | 42 :: _ =>
        match tc with
        | TStruct [TList c lw] =>
            do ' (_, lp) <- sub t top (ps ++ [PF 0]);
            match lp with
            | PList a blen => do old <- list_len lw c (m_mem s) a blen; list_remove t s top (ps ++ [PF 0]) 0 old
            | _ => Panic
            end
        | _ => SKIPPED
        end
    | 43 :: r =>
        match tc with
        | TStruct [TList c lw] =>
            let key := hd [] (fst (dec_items 1 r)) in
            do ' (_, lp) <- sub t top (ps ++ [PF 0]);
            match lp with
            | PList a blen =>
                do keys <- list_keys c lw (length key) (m_mem s) a blen;
                let '(idx, found) := lower_bound keys (le_decode key) 0 in
                if found then
                  do v <- rd (m_mem s) (a + Z.of_nat lw + idx * Z.of_nat (fsize c) + zlen key) (Z.of_nat (fsize c) - zlen key);
                  Ok (s, top, enc_bytes v)
                else Ok (s, top, [-1])
            | _ => Panic
            end
        | _ => SKIPPED
        end
    (* ---- Set<T,L> ---- *)
    | 45 :: r =>
        match tc with
        | TStruct [TList c lw] =>
            let v := hd [] (fst (dec_items 1 r)) in
            do ' (_, lp) <- sub t top (ps ++ [PF 0]);
            match lp with
            | PList a blen =>
                do keys <- list_keys c lw (fsize c) (m_mem s) a blen;
                let '(idx, found) := lower_bound keys (le_decode v) 0 in
                if found then Ok (s, top, [0]) else
                do ' (s1, top1, _) <- list_insert t s top (ps ++ [PF 0]) idx [v];
                Ok (s1, top1, [1])
            | _ => Panic
            end
        | _ => SKIPPED
        end
    | 46 :: r =>
        match tc with
        | TStruct [TList c lw] =>
            let v := hd [] (fst (dec_items 1 r)) in
            do ' (_, lp) <- sub t top (ps ++ [PF 0]);
            match lp with
            | PList a blen =>
                do keys <- list_keys c lw (fsize c) (m_mem s) a blen;
                let '(idx, found) := lower_bound keys (le_decode v) 0 in
                if found then
                  do ' (s1, top1, _) <- list_remove t s top (ps ++ [PF 0]) idx (idx + 1);
                  Ok (s1, top1, [1])
                else Ok (s, top, [0])
            | _ => Panic
            end
        | _ => SKIPPED
        end
    | 47 :: _ => exec f ovf t s top ps [42]
    | 48 :: r =>
        match tc with
        | TStruct [TList c lw] =>
            let v := hd [] (fst (dec_items 1 r)) in
            do ' (_, lp) <- sub t top (ps ++ [PF 0]);
            match lp with
            | PList a blen =>
                do keys <- list_keys c lw (fsize c) (m_mem s) a blen;
                Ok (s, top, [if snd (lower_bound keys (le_decode v) 0) then 1 else 0])
            | _ => Panic
            end
        | _ => SKIPPED
        end
    (* ---- UnsizedMap<u8, V> = struct { list: UnsizedList<V, OrdOffset<K>> } ---- *)
    | 50 :: key :: kind :: _ =>
        match tc with
        | TStruct [TUList it k] =>
            do ' (_, up) <- sub t top (ps ++ [PF 0]);
            match up with
            | PUList a n _ _ _ _ =>
                do keys <- ulist_keys k (m_mem s) a n;
                let '(idx, found) := lower_bound keys key 0 in
                if found then
                  (* list.index_exclusive(idx) then item.set_from_init(value) *)
                  do rg <- ulist_range k (m_mem s) a n idx;
                  match rg with
                  | None => Panic
                  | Some (st, _) =>
                      do top1 <- ulist_enter ovf t s top (ps ++ [PF 0]) st;
                      match set_data ovf t s top1 (ps ++ [PF 0; PI]) (init_size it kind) (init_bytes it kind) with
                      | Ok (s2, top2, []) => Ok (s2, top2, [0])
                      | Ok (s2, top2, e) => Ok (s2, top2, e)
                      | Err c => efail s top1 c
                      | o => o
                      end
                  end
                else
                  match ulist_insert t s top (ps ++ [PF 0]) idx kind [le_bytes k key] with
                  | Ok (s2, top2, []) => Ok (s2, top2, [1])
                  | o => o
                  end
            | _ => Panic
            end
        | _ => SKIPPED
        end
    | 51 :: key :: _ =>
        match tc with
        | TStruct [TUList it k] =>
            do ' (_, up) <- sub t top (ps ++ [PF 0]);
            match up with
            | PUList a n _ _ _ _ =>
                do keys <- ulist_keys k (m_mem s) a n;
                let '(idx, found) := lower_bound keys key 0 in
                if found then
                  match ulist_remove t s top (ps ++ [PF 0]) idx (idx + 1) with
                  | Ok (s2, top2, []) => Ok (s2, top2, [1])
                  | o => o
                  end
                else Ok (s, top, [0])
            | _ => Panic
            end
        | _ => SKIPPED
        end
    | 52 :: _ =>
        match tc with
        | TStruct [TUList it k] =>
            do ' (_, up) <- sub t top (ps ++ [PF 0]);
            match up with
            | PUList a n _ _ _ _ => ulist_remove t s top (ps ++ [PF 0]) 0 n
            | _ => Panic
            end
        | _ => SKIPPED
        end
    | 53 :: key :: _ =>
        match tc with
        | TStruct [TUList it k] =>
            do ' (_, up) <- sub t top (ps ++ [PF 0]);
            match up with
            | PUList a n _ _ _ _ =>
                do keys <- ulist_keys k (m_mem s) a n;
                let '(idx, found) := lower_bound keys key 0 in
                if found then exec f ovf t s top (ps ++ [PF 0]) [35; idx] else Ok (s, top, [-1])
            | _ => Panic
            end
        | _ => SKIPPED
        end
    | 54 :: key :: _ =>
        match tc with
        | TStruct [TUList it k] =>
            do ' (_, up) <- sub t top (ps ++ [PF 0]);
            match up with
            | PUList a n _ _ _ _ =>
                do keys <- ulist_keys k (m_mem s) a n;
                let '(idx, found) := lower_bound keys key 0 in
                if found then ulist_touch ovf t s top (ps ++ [PF 0]) idx else Ok (s, top, [-1])
            | _ => Panic
            end
        | _ => SKIPPED
        end
    (* ---- UnsizedString<L>::set = clear then push_all ---- *)
    | 55 :: r =>
        match tc with
        | TStruct [TList c lw] =>
            let bs := match dec_bytes r with Some (b, _) => b | None => [] end in
            do ' (_, lp) <- sub t top (ps ++ [PF 0]);
            match lp with
            | PList a blen =>
                do old <- list_len lw c (m_mem s) a blen;
                do ' (s1, top1, _) <- list_remove t s top (ps ++ [PF 0]) 0 old;
                match list_insert t s1 top1 (ps ++ [PF 0]) 0 (map (fun b => [b]) bs) with
                | Err c => efail s1 top1 c
                | o => o
                end
            | _ => Panic
            end
        | _ => SKIPPED
        end
    (* ---- enum: set_<variant d>(DefaultInit) (enum_impl.rs 733-764) = set_from_init(EnumInit<Variant>(DefaultInit)):
       wrapper.rs set_data_inner at the enum's start pointer with INIT_BYTES = repr width + the variant's INIT_BYTES,
       init = the variant's discriminant then the variant's DefaultInit, the StartPointer re-derived by get_ptr.  The setter
       of a data variant returns the payload's wrapper: the remaining op codes (if any) are applied there; an error of
       theirs is reported with the state after the switch *)
    | 60 :: d :: r =>
        match tc with
        | TEnum rw vs =>
            match find_variant d vs with
            | None => SKIPPED
            | Some vt =>
                match set_data ovf t s top ps (init_variant_size rw vt 0) (init_variant rw d vt 0) with
                | Ok (s1, top1, []) =>
                    match r, vt with
                    | [], _ => Ok (s1, top1, [])
                    | _, TStruct [] => Ok (s1, top1, [])
                    | _, _ =>
                        match exec f ovf t s1 top1 (ps ++ [PV]) r with
                        | Err c => if c =? -9 then SKIPPED else efail s1 top1 c
                        | o => o
                        end
                    end
                | o => o
                end
            end
        | _ => SKIPPED
        end
    (* ---- any node ---- *)
    | 70 :: r =>
        match dec_val (length r) r with
        | Some (v, _) => set_data ovf t s top ps (byte_size tc v) (Ok (encode tc v))
        | None => SKIPPED
        end
    | 71 :: kind :: _ => set_data ovf t s top ps (init_size tc kind) (init_bytes tc kind)
    | 72 :: r =>
        match tc, pc with
        | TStruct (TFixed c :: _), PStruct (PFixed a :: _) =>
            match dec_bytes r with
            | Some (b, _) => do m1 <- wr (m_mem s) a b; Ok (set_mem s m1, top, [])
            | None => SKIPPED
            end
        | _, _ => SKIPPED
        end
    | _ => SKIPPED
    end
  end.

(* what is observed after a step: data length, checksum of the data, canonical-form flag, agreement of the
   value seen through the live pointers with a fresh parse of the bytes, and the value itself *)
Definition observe (ovf : bool) (t : ty) (s : mach) (top : option ptr) : list Z :=
  let bytes := ztake (m_len s) (m_mem s) in
  let fresh := match parse ovf t bytes with Ok (v, _) => Some v | _ => None end in
  let live := match top with
              | Some p => match owned_ptr ovf t (m_mem s) p with Ok v => Some v | _ => None end
              | None => None
              end in
  let pick := match top with Some _ => live | None => fresh end in
  let canon := match pick with
               | Some v => if zlist_eqb bytes (encode t v) then 1 else 0
               | None => -1
               end in
  let agree := match top, live, fresh with
               | Some _, Some a, Some b => if zlist_eqb (enc_val a) (enc_val b) then 1 else 0
               | None, _, Some _ => 1
               | _, _, _ => -1
               end in
  [m_len s; cksum bytes; canon; agree] ++ match pick with Some v => enc_val v | None => [-7] end.

Fixpoint dec_steps (n : nat) (l : list Z) : list (list Z) :=
  match n with
  | O => []
  | S k => match l with
           | len :: r => ztake len r :: dec_steps k (zdrop len r)
           | [] => []
           end
  end.

Definition frame (ob : list Z) : list Z := zlen ob :: ob.

Definition arm (s : mach) (i k : Z) : mach := mkMach (m_mem s) (m_len s) (m_grow s) (if i =? k then 1 else 0).

Fixpoint run_steps (ovf : bool) (t : ty) (s0 : mach) (top : ptr) (i k : Z) (steps : list (list Z)) : list Z :=
  let s := arm s0 i k in
  match steps with
  | [] =>
      (* end of the exclusive borrow: ExclusiveTopDrop::drop asserts check_pointers *)
      (if top_check s top then [0] else [2]) ++ observe ovf t s None ++ [1]
  | st :: rest =>
      match st with
      | 90 :: _ =>
          if negb (top_check s top) then [1; 2; -99] else
          let bytes := ztake (m_len s) (m_mem s) in
          let sh := match parse ovf t bytes with Ok _ => [0] | o => out_tag o end in
          match get_ptr ovf t (m_mem s) 0 (m_len s) with
          | Ok (top', _) => frame (sh ++ observe ovf t s (Some top')) ++ run_steps ovf t s top' (i + 1) k rest
          | o => frame (sh ++ out_tag o)
          end
      | _ =>
          match exec (length st + 8) ovf t s top [] st with
          | Ok (s', top', extra) =>
              match extra with
              | -1 :: c :: _ => frame ([1; c] ++ observe ovf t s' (Some top')) ++ run_steps ovf t s' top' (i + 1) k rest
              | _ => frame ([0; zlen extra] ++ extra ++ observe ovf t s' (Some top')) ++ run_steps ovf t s' top' (i + 1) k rest
              end
          | Err c =>
              if c =? -9 then frame [9] ++ run_steps ovf t s top (i + 1) k rest
              else frame ([1; c] ++ observe ovf t s (Some top)) ++ run_steps ovf t s top (i + 1) k rest
          | Panic => frame [2] ++ [-98; 1]
          | Fault => [3]
          end
      end
  end.

(* case: ty ints, flush, refuse, val ints, nsteps, (len ints..)* *)
Definition run_ops_hist (input0 : list Z) : list Z :=
  let input := tl input0 in
  match dec_ty (length input) input with
  | Some (t, _flush :: refuse :: r) =>
      match dec_val (length r) r with
      | Some (v, nsteps :: r2) =>
          let bs := encode t v in
          let s0 := mkMach (bs ++ zrepeat 0 MAX_PERMITTED_DATA_INCREASE) (zlen bs) 0 0 in
          match get_ptr true t (m_mem s0) 0 (m_len s0) with
          | Ok (top, _) => run_steps true t s0 top 0 refuse (dec_steps (Z.to_nat nsteps) r2)
          | o => out_tag o
          end
      | _ => [-1]
      end
  | _ => [-1]
  end.

(* ---------------------------------------------------------------------------------------------- *)
(* parse mode (C04): owned conversion of arbitrary bytes                                           *)
Definition run_parse (input0 : list Z) : list Z :=
  let input := tl input0 in
  match dec_ty (length input) input with
  | Some (t, n :: r) =>
      let bs := ztake n r in
      match parse true t bs with
      | Ok (v, _) => 0 :: enc_val v
      | o => out_tag o
      end
  | _ => [-1]
  end.

(* ---------------------------------------------------------------------------------------------- *)
(* swap mode (C03): accessors of the same type exchanged between two buffers                       *)
Fixpoint reloc (c : Z) (p : ptr) : ptr :=
  match p with
  | PFixed a => PFixed (a + c)
  | PList a b => PList (a + c) b
  | PRem a l => PRem (a + c) l
  | PUList a n inner pmb rs re =>
      PUList (a + c) n (match inner with Some q => Some (reloc c q) | None => None end) pmb (rs + c) (re + c)
  | PStruct fs => PStruct (map (reloc c) fs)
  | PEnum st d q => PEnum (st + c) d (reloc c q)
  end.

Definition S5_TY : ty :=
  TStruct [TList (FAny 1) 4; TUList (TList (FAny 1) 4) 0; TUList (TUList (TList (FAny 1) 4) 0) 0; TList (FAny 1) 4].
Definition S5_VAL : val :=
  VStruct [VList [[1]; [2]; [3]];
           VUList [([], VList [[4]; [5]]); ([], VList [[6]]); ([], VList [])];
           VUList [([], VUList [([], VList [[7]])]); ([], VUList [])];
           VList [[8]; [9]]].

(* the second buffer lives `far` bytes away (either direction: the theorem C03_swapped_accessor_detected covers both) *)
Definition run_swap (input : list Z) : list Z :=
  match input with
  | scenario :: when :: then_ :: _ =>
      let t := S5_TY in
      let bs := encode t S5_VAL in
      let s0 := mkMach (bs ++ zrepeat 0 MAX_PERMITTED_DATA_INCREASE) (zlen bs) 0 0 in
      match get_ptr true t (m_mem s0) 0 (m_len s0) with
      | Ok (top0, _) =>
          let far := 1000000 in
          (* optional resizes before the swap *)
          let st1 := if when =? 1 then list_insert t s0 top0 [PF 0] 3 [[42]] else Ok (s0, top0, []) in
          let st2 := if when =? 1 then list_insert t s0 top0 [PF 3] 2 [[43]] else Ok (s0, top0, []) in
          match st1, st2 with
          | Ok (s1, top1, _), Ok (s2, top2, _) =>
              let pos := if scenario =? 0 then [PF 0] else if scenario =? 1 then [PF 1] else if scenario =? 2 then [PF 3]
                         else if scenario =? 4 then [PF 2] else [PF 1; PI] in
              let pre1 := if scenario =? 3 then ulist_touch true t s1 top1 [PF 1] 1 else Ok (s1, top1, []) in
              let pre2 := if scenario =? 3 then ulist_touch true t s2 top2 [PF 1] 1 else Ok (s2, top2, []) in
              match pre1, pre2 with
              | Ok (s1', top1', _), Ok (_, top2', _) =>
                  match get_at t (reloc far top2') pos with
                  | Some (_, foreign) =>
                      let swapped := set_at t top1' pos foreign in
                      let r :=
                        if then_ =? 1 then list_insert t s1' swapped [PF 3] (if when =? 1 then 2 else 2) [[7]]
                        else if then_ =? 2 then ulist_touch true t s1' swapped [PF 1] 1
                        else if then_ =? 3 then
                          (if scenario =? 0 then list_insert t s1' swapped [PF 0] (if when =? 1 then 4 else 3) [[1]]
                           else if (scenario =? 1) || (scenario =? 3) then ulist_insert t s1' swapped [PF 1] 3 1 [[]]
                           else if scenario =? 2 then list_insert t s1' swapped [PF 3] 2 [[1]]
                           else ulist_clear t s1' swapped [PF 2])
                        else if then_ =? 4 then
                          (* remove the first element of the swapped container *)
                          (if scenario =? 0 then list_remove t s1' swapped [PF 0] 0 1
                           else if (scenario =? 1) || (scenario =? 3) then ulist_remove t s1' swapped [PF 1] 0 1
                           else if scenario =? 2 then list_remove t s1' swapped [PF 3] 0 1
                           else ulist_remove t s1' swapped [PF 2] 0 1)
                        else if then_ =? 5 then ulist_remove t s1' swapped [PF 1] 1 2
                        else Ok (s1', swapped, []) in
                      match r with
                      | Panic => [1]
                      | Ok (s3, top3, _) => if top_check s3 top3 then [0] else [1]
                      (* Fault: the access went to the OTHER buffer's memory, which this one-buffer machine does not
                         hold (in reality that memory exists and the access succeeds); detection is the drop check *)
                      | Err _ | Fault => if top_check s1' swapped then [0] else [1]
                      end
                  | None => [-1]
                  end
              | _, _ => [-2]
              end
          | _, _ => [-3]
          end
      | _ => [-4]
      end
  | _ => [-5]
  end.

(* the accessor-swap scenarios ride along with the operation histories as "shape 100" *)
Definition run_ops (input0 : list Z) : list Z :=
  match input0 with
  | 100 :: r => run_swap r
  | _ => run_ops_hist input0
  end.
